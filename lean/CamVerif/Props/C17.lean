/-
C17 — Parsing preserves every declared node, property, default and reference.

Property theorems only.  `parse_render_K`: for EVERY abstract declaration `m` of kind K
(every presence pattern of the optional attributes/elements at once, every accepted
literal text, every builder state `st` the parse starts in) parsing the rendered element
yields exactly the normal form `specK m st`: the declared values, the schema defaults for
what is omitted, references interned and immediates stored in document order.
-/
import CamVerif.Proofs.C17Struct
import CamVerif.Proofs.C17Kinds2
import CamVerif.Proofs.C17Resolve
import CamVerif.Proofs.C17Fuel
import CamVerif.Proofs.C17Document
import CamVerif.Proofs.C17Text
import CamVerif.Proofs.C17Embedded
set_option linter.unusedSimpArgs false
set_option linter.unusedSectionVars false
namespace CamVerif.C17
open CamVerif CamVerif.XmlParse
variable {F : Type} [FloatLit F]
-- the layout of element text into child nodes (`Spec/XmlRender.lean`): every rendering and every
-- `parse_render_K` / document theorem below holds for EVERY layout whose text children join to
-- the text: one text node, k ≥ 3 fragments with comments / processing instructions between, …
variable [TextFrag]

/-- the parser's dispatch (`impl Parse for Vec<NodeData>`) on one element -/
def parseElem (pr : Profile) (e : Elem) (st : St F) : R (List (NodeData F) × St F) :=
  match e with
  | .node tag attrs children =>
    (pNodeDatas pr (Elem.depthList children + 1) tag attrs children children st).bind
      fun r => .ok (r.1, r.2.2)
  | _ => .panic

/-! ## element / attribute bases -/

/-- `NodeAttributeBase`: `Name` interned, `NameSpace`/`MergePriority`/`ExposeStatic` read
back, defaults `Custom` / `Mid` / none; unrelated attributes are ignored. -/
theorem attr_base (m : AttrM) (cur : Cur) (st : St F) :
    pAttrBase m.render cur st = .ok ((specAttr m st).1, cur, (specAttr m st).2) :=
  pAttrBase_render m cur st

/-- Attributes in ANY order, with any further attributes in between: whatever list `attrs`
whose look-ups give the declared `Name` / `NameSpace` / `MergePriority` / `ExposeStatic`
(`attribute_of` takes the first attribute of that name). -/
theorem attr_base_any_order (attrs : List (Str × Str)) (name : Str) (ns : Option NameSpace)
    (mp : Option MergePriority) (es : Option BoolLit)
    (h1 : attrOf attrs cs!"Name" = some name)
    (h2 : attrOf attrs cs!"NameSpace" = ns.map NameSpace.text)
    (h3 : attrOf attrs cs!"MergePriority" = mp.map MergePriority.text)
    (h4 : attrOf attrs cs!"ExposeStatic" = es.map BoolLit.text) (cur : Cur) (st : St F) :
    pAttrBase attrs cur st =
      .ok (⟨(internS name st).1, ns.getD .custom, mp.getD .mid, es.map BoolLit.val⟩, cur,
        (internS name st).2) := by
  cases ns <;> cases mp <;> cases es <;>
    simp_all [pAttrBase, P.bind_def, ofOpt, P.ofR, intern, attrRest, internS, lookup_nameSpace,
      lookup_mergePriority, convertToBool, BoolLit.ok, Bind.bind, Res.bind, Pure.pure,
      pure_apply] <;> rfl

example : attrOf [(cs!"Comment", cs!"x"), (cs!"ExposeStatic", cs!"No"), (cs!"Name", cs!"Gain")]
    cs!"Name" = some cs!"Gain" := by decide

/-- `NodeElementBase` in front of any further children `rest` that cannot be mistaken for
an element-base element: all 16 optional/repeated particles at once, defaults `Beginner`,
not deprecated, `RW`; it consumes directly following `pInvalidator`s. -/
theorem elem_base (m : ElemM) (inv : List Str) (rest : List Seg) (st : St F)
    (h : noneStart elemTags rest = true) :
    pElemBase (flat (m.segs inv ++ rest)) st =
      .ok ((specElem m inv st).1, flat rest, (specElem m inv st).2) :=
  pElemBase_segs m inv rest st h

/-- `RegisterDescription`: the root element's attributes in any order (version numbers in any
accepted unsigned literal form), `ToolTip` optional. -/
theorem register_description (attrs : List (Str × Str)) (mn vn pg vg : Str) (tt : Option Str)
    (sns : StdNameSpace) (a b c d e f : UintLit)
    (h1 : attrOf attrs cs!"ModelName" = some mn) (h2 : attrOf attrs cs!"VendorName" = some vn)
    (h3 : attrOf attrs cs!"ToolTip" = tt)
    (h4 : attrOf attrs cs!"StandardNameSpace" = some sns.text)
    (h5 : attrOf attrs cs!"SchemaMajorVersion" = some a.text)
    (h6 : attrOf attrs cs!"SchemaMinorVersion" = some b.text)
    (h7 : attrOf attrs cs!"SchemaSubMinorVersion" = some c.text)
    (h8 : attrOf attrs cs!"MajorVersion" = some d.text)
    (h9 : attrOf attrs cs!"MinorVersion" = some e.text)
    (h10 : attrOf attrs cs!"SubMinorVersion" = some f.text)
    (h11 : attrOf attrs cs!"ProductGuid" = some pg) (h12 : attrOf attrs cs!"VersionGuid" = some vg) :
    pRegisterDescription attrs =
      .ok { modelName := mn, vendorName := vn, tooltip := tt, standardNameSpace := sns,
            schemaMajor := a.val, schemaMinor := b.val, schemaSubMinor := c.val, major := d.val,
            minor := e.val, subMinor := f.val, productGuid := pg, versionGuid := vg } := by
  simp [pRegisterDescription, h1, h2, h3, h4, h5, h6, h7, h8, h9, h10, h11, h12, ofOpt,
    lookup_stdNameSpace, a.ok, b.ok, c.ok, d.ok, e.ok, f.ok, Bind.bind, Res.bind, Pure.pure]

/-! ## node kinds -/

theorem parse_render_Node (pr : Profile) (m : NodeM) (st : St F) :
    parseElem pr m.render st = .ok ([.node (specNode m st).1], (specNode m st).2) := by
  simp [parseElem, NodeM.render, pNodeDatas, P.bind_def, pPlainNode_render]
  rfl

theorem parse_render_Category (pr : Profile) (m : CategoryM) (st : St F) :
    parseElem pr m.render st = .ok ([.category (specCategory m st).1], (specCategory m st).2) := by
  simp [parseElem, CategoryM.render, pNodeDatas, P.bind_def, pCategory_render]
  rfl

theorem parse_render_Command (pr : Profile) (m : CommandM) (st : St F) :
    parseElem pr m.render st = .ok ([.command (specCommand m st).1], (specCommand m st).2) := by
  simp [parseElem, CommandM.render, pNodeDatas, P.bind_def, pCommand_render]
  rfl

theorem parse_render_Boolean (pr : Profile) (m : BooleanM) (st : St F) :
    parseElem pr m.render st = .ok ([.boolean (specBoolean m st).1], (specBoolean m st).2) := by
  simp [parseElem, BooleanM.render, pNodeDatas, P.bind_def, pBoolean_render, pure_apply]

theorem parse_render_Integer (pr : Profile) (m : IntegerM) (st : St F) :
    parseElem pr m.render st = .ok ([.integer (specInteger m st).1], (specInteger m st).2) := by
  simp [parseElem, IntegerM.render, pNodeDatas, P.bind_def, pInteger_render, pure_apply]

theorem parse_render_IntSwissKnife (pr : Profile) (m : IntSwissKnifeM F) (st : St F) :
    parseElem pr m.render st =
      .ok ([.intSwissKnife (specIntSwissKnife m st).1], (specIntSwissKnife m st).2) := by
  simp [parseElem, IntSwissKnifeM.render, pNodeDatas, P.bind_def, pIntSwissKnife_render,
    pure_apply]

/-- register base (`Streamable`, address particles, `Length|pLength`, `AccessMode`, `pPort`,
`Cachable`, `PollingTime`, `pInvalidator*`) in front of kind-specific children: defaults not
streamable / `RO` / `WriteThrough`. -/
theorem reg_base (pr : Profile) (m : RegM) (rest : List Seg) (st : St F)
    (h : noneStart regTags rest = true) :
    pRegBase pr (flat (m.segs ++ rest)) st =
      .ok ((specReg m st).1, flat rest, (specReg m st).2) :=
  pRegBase_segs pr m rest st h

theorem parse_render_IntReg (pr : Profile) (m : IntRegM) (st : St F) :
    parseElem pr m.render st = .ok ([.intReg (specIntReg m st).1], (specIntReg m st).2) := by
  simp [parseElem, IntRegM.render, pNodeDatas, P.bind_def, pIntReg_render, pure_apply]

theorem parse_render_MaskedIntReg (pr : Profile) (m : MaskedM) (st : St F) :
    parseElem pr m.render st = .ok ([.maskedIntReg (specMasked m st).1], (specMasked m st).2) := by
  simp [parseElem, MaskedM.render, pNodeDatas, P.bind_def, pMaskedIntReg_render,
    pure_apply]

theorem parse_render_StringReg (pr : Profile) (m : PlainRegM) (st : St F) :
    parseElem pr (m.render cs!"StringReg") st =
      .ok ([.stringReg (specPlainReg m st).1], (specPlainReg m st).2) := by
  simp [parseElem, PlainRegM.render, pNodeDatas, P.bind_def, pPlainReg_render, pure_apply]

theorem parse_render_Register (pr : Profile) (m : PlainRegM) (st : St F) :
    parseElem pr (m.render cs!"Register") st =
      .ok ([.register (specPlainReg m st).1], (specPlainReg m st).2) := by
  simp [parseElem, PlainRegM.render, pNodeDatas, P.bind_def, pPlainReg_render, pure_apply]

/-- `StructReg`: one `MaskedIntReg` node per `StructEntry`, each the merge of what the entry
declares with the structure's register base, invalidators registered per merged node. -/
theorem parse_render_StructReg (pr : Profile) (m : StructM) (st : St F) :
    parseElem pr m.render st =
      .ok ((specStruct m st).1.map .maskedIntReg, (specStruct m st).2) := by
  simp [parseElem, StructM.render, pNodeDatas, P.bind_def, pStructReg_children,
    intoMaskedIntRegs_eq, specStruct, pure_apply]

theorem parse_render_Float (pr : Profile) (m : FloatM F) (st : St F) :
    parseElem pr m.render st = .ok ([.float (specFloat m st).1], (specFloat m st).2) := by
  simp [parseElem, FloatM.render, pNodeDatas, P.bind_def, pFloat_render, pure_apply]

theorem parse_render_FloatReg (pr : Profile) (m : FloatRegM) (st : St F) :
    parseElem pr m.render st = .ok ([.floatReg (specFloatReg m st).1], (specFloatReg m st).2) := by
  simp [parseElem, FloatRegM.render, pNodeDatas, P.bind_def, pFloatReg_render, pure_apply]

theorem parse_render_String (pr : Profile) (m : StringM) (st : St F) :
    parseElem pr m.render st = .ok ([.string (specString m st).1], (specString m st).2) := by
  simp [parseElem, StringM.render, pNodeDatas, P.bind_def, pStringNode_render, pure_apply]

theorem parse_render_Port (pr : Profile) (m : PortM) (st : St F) :
    parseElem pr m.render st = .ok ([.port (specPort m st).1], (specPort m st).2) := by
  simp [parseElem, PortM.render, pNodeDatas, P.bind_def, pPort_render, pure_apply]

theorem parse_render_SwissKnife (pr : Profile) (m : SwissKnifeM F) (st : St F) :
    parseElem pr m.render st =
      .ok ([.swissKnife (specSwissKnife m st).1], (specSwissKnife m st).2) := by
  simp [parseElem, SwissKnifeM.render, pNodeDatas, P.bind_def, pSwissKnife_render, pure_apply]

theorem parse_render_Converter (pr : Profile) (m : ConverterM F) (st : St F) :
    parseElem pr m.render st =
      .ok ([.converter (specConverter m st).1], (specConverter m st).2) := by
  simp [parseElem, ConverterM.render, pNodeDatas, P.bind_def, pConverter_render, pure_apply]

theorem parse_render_IntConverter (pr : Profile) (m : IntConverterM F) (st : St F) :
    parseElem pr m.render st =
      .ok ([.intConverter (specIntConverter m st).1], (specIntConverter m st).2) := by
  simp [parseElem, IntConverterM.render, pNodeDatas, P.bind_def, pIntConverter_render, pure_apply]

/-- `Enumeration`: every `EnumEntry` is parsed and stored under its fresh name `$<symbolic>_<k>`,
the enumeration lists the entry ids in document order.  The result is a `Res`: with debug
assertions, storing an entry under an id that already holds a node panics (`store_node`). -/
theorem parse_render_Enumeration (pr : Profile) (m : EnumerationM F) (st : St F) :
    parseElem pr m.render st =
      (specEnumeration pr m st).bind fun r => .ok ([.enumeration r.1], r.2) := by
  simp only [parseElem, EnumerationM.render, pNodeDatas]
  simp [P.bind_def, pEnumeration_render]
  cases specEnumeration pr m st <;> simp [pure_apply]

/-! ## references resolve -/

/-- `get_or_intern` hands out an id that resolves to the name in every later builder state
(the interner only grows): the basis of all `refs_resolve` statements. -/
theorem refs_resolve_intern (n : Str) (st st' : St F) (h : (internS n st).2.le st') :
    nameOf st' (internS n st).1 = n :=
  (internS_spec n st st' h).1

/-- Every reference and every default of a parsed `MaskedIntReg`, read through the interner
of any later builder state, is the declared name / the declared or default value. -/
theorem refs_resolve_MaskedIntReg (pr : Profile) (m : MaskedM) (st st' : St F)
    (h : (specMasked m st).2.le st') :
    ∃ n stN, parseElem pr m.render st = .ok ([.maskedIntReg n], stN) ∧ stN.le st' ∧
      n.view st' = pureMasked m :=
  ⟨_, _, parse_render_MaskedIntReg pr m st, h, (specMasked_view m st st' h).1⟩

/-- `id_by_name`: a name that was interned is found, with the id handed out, in every later
builder state. -/
theorem lookup_by_name (n : Str) (st st' : St F) (h : (internS n st).2.le st') :
    findName n st'.names = some (internS n st).1 := idByName_of_le n st st' h

/-- `store_node` then `node_opt`: the stored node is found under its id and no other id is
disturbed (the model's `storeNode` is `storeNodeS`; with debug assertions a duplicate panics). -/
theorem stored_node_found (pr : Profile) (id : Nat) (d : NodeData F) (st st' : St F)
    (h : storeNodeS pr id d st = .ok st') :
    st'.nodes.find? (fun x => x.1 == id) = some (id, d) ∧
      ∀ j, j ≠ id → st'.nodes.find? (fun x => x.1 == j) = st.nodes.find? (fun x => x.1 == j) :=
  ⟨storeNodeS_found pr id d st st' h, fun j hj => storeNodeS_other pr id j d st st' h hj⟩

/-- A declared `MaskedIntReg` (a `StructReg` entry's twin included) is retrievable by its name
with its kind once the top-level loop has stored it: `id_by_name` gives its id, `node_opt` of
that id gives exactly the parsed node. -/
theorem retrievable_MaskedIntReg (pr : Profile) (m : MaskedM) (st st2 : St F)
    (hstore : storeNodeS pr (specMasked m st).1.attr.id (.maskedIntReg (specMasked m st).1)
      (specMasked m st).2 = .ok st2) :
    parseElem pr m.render st = .ok ([.maskedIntReg (specMasked m st).1], (specMasked m st).2) ∧
    findName m.attr.name st2.names = some (specMasked m st).1.attr.id ∧
    st2.nodes.find? (fun x => x.1 == (specMasked m st).1.attr.id) =
      some ((specMasked m st).1.attr.id, .maskedIntReg (specMasked m st).1) := by
  refine ⟨parse_render_MaskedIntReg pr m st, ?_, storeNodeS_found _ _ _ _ _ hstore⟩
  have hle : (specMasked m st).2.le st2 := by
    unfold storeNodeS at hstore
    split at hstore
    · cases hstore
    · cases hstore; exact ⟨[], by simp⟩
  simp only [specMasked] at hle
  have hle := invalS_le _ _ _ _ hle
  obtain ⟨_, hle⟩ := listS_intern _ _ _ hle
  obtain ⟨_, hle⟩ := specReg_view _ _ _ hle
  exact idByName_of_le m.attr.name st st2 (by simpa [specAttr] using hle)

/-! ## StructReg = the equivalent set of MaskedIntReg -/

/-- parse a sequence of sibling elements, threading the builder state -/
def parseElems (pr : Profile) : List Elem → St F → R (List (NodeData F) × St F)
  | [], st => .ok ([], st)
  | e :: es, st =>
    (parseElem pr e st).bind fun r =>
      (parseElems pr es r.2).bind fun r2 => .ok (r.1 ++ r2.1, r2.2)

private theorem parseElems_twins (pr : Profile) (ms : List MaskedM) (st : St F) :
    parseElems pr (ms.map MaskedM.render) st =
      .ok ((listS specMasked ms st).1.map .maskedIntReg, (listS specMasked ms st).2) := by
  induction ms generalizing st with
  | nil => rfl
  | cons m ms ih => simp [parseElems, parse_render_MaskedIntReg, ih, listS]

private theorem struct_side_views (s : StructM) (st : St F) :
    (specStruct s st).1.map (MaskedIntRegNode.view (specStruct s st).2) =
      s.entries.map (fun e => pureMasked (twin s e)) := by
  have hnames := maskedOfEntries_names (specReg s.reg st).1 (s.endianness.getD .le)
    (listS specEntry s.entries (specReg s.reg st).2).1
    (listS specEntry s.entries (specReg s.reg st).2).2
  have hle : (listS specEntry s.entries (specReg s.reg st).2).2.le (specStruct s st).2 :=
    ⟨[], by simp [specStruct, hnames]⟩
  obtain ⟨hE, hR⟩ := listS_resolves specEntry_resolves s.entries _ _ hle
  obtain ⟨hReg, _⟩ := specReg_view s.reg st _ hR
  simp only [specStruct, maskedOfEntries_fst, List.map_map] at hE ⊢
  have : ∀ e : StructEntryNode,
      (MaskedIntRegNode.view (specStruct s st).2 ∘
        fun e => e.toMasked (specReg s.reg st).1 (s.endianness.getD .le)) e =
      toMaskedV (e.view (specStruct s st).2) (pureReg s.reg) (s.endianness.getD .le) := by
    intro e
    simp [toMasked_view, hReg]
  simp only [specStruct] at this
  rw [List.map_congr_left (fun e _ => this e)]
  have h2 : ∀ (S : St F) (L : List StructEntryNode),
      L.map (fun e => toMaskedV (e.view S) (pureReg s.reg) (s.endianness.getD .le)) =
      (L.map (StructEntryNode.view S)).map
        (fun v => toMaskedV v (pureReg s.reg) (s.endianness.getD .le)) := by
    intro S L; simp [List.map_map, Function.comp_def]
  rw [h2, hE]
  simp [List.map_map, Function.comp_def, toMaskedV_pure]

private theorem twin_side_views (s : StructM) (st : St F) :
    (listS specMasked (s.entries.map (twin s)) st).1.map
        (MaskedIntRegNode.view (listS specMasked (s.entries.map (twin s)) st).2) =
      s.entries.map (fun e => pureMasked (twin s e)) := by
  have hres : Resolves (F := F) specMasked MaskedIntRegNode.view pureMasked :=
    fun m st st' h => specMasked_view m st st' h
  have := (listS_resolves hres (s.entries.map (twin s)) st _ (St.le_refl _)).1
  simpa [List.map_map, Function.comp_def] using this

/-- `struct_desugar`: parsing a `StructReg` and parsing its twin — one `MaskedIntReg` per
entry where the entry's declared properties override and all others are inherited from the
structure (including `pError`, `pInvalidator`, and explicitly declared default values) —
yield the same nodes when read through their interners: both are the pure normal forms of the
twin declarations. -/
theorem struct_desugar (pr : Profile) (s : StructM) (st : St F) :
    ∃ (nodes : List MaskedIntRegNode) (stS : St F) (nodesT : List MaskedIntRegNode) (stT : St F),
      parseElem pr s.render st = .ok (nodes.map .maskedIntReg, stS) ∧
      parseElems pr (s.entries.map fun e => (twin s e).render) st =
        .ok (nodesT.map .maskedIntReg, stT) ∧
      nodes.map (MaskedIntRegNode.view stS) = s.entries.map (fun e => pureMasked (twin s e)) ∧
      nodesT.map (MaskedIntRegNode.view stT) = s.entries.map (fun e => pureMasked (twin s e)) := by
  refine ⟨(specStruct s st).1, (specStruct s st).2,
    (listS specMasked (s.entries.map (twin s)) st).1, (listS specMasked (s.entries.map (twin s)) st).2,
    parse_render_StructReg pr s st, ?_, struct_side_views s st, twin_side_views s st⟩
  have := parseElems_twins pr (s.entries.map (twin s)) st
  simpa [List.map_map, Function.comp_def] using this

/-- … and the invalidator registrations (`CacheStoreBuilder::store_invalidator` calls) the two
parses add to the builder are the same `(invalidator name, node name)` pairs in the same order:
for every entry, its own `pInvalidator`s if it declares any, else the structure's. -/
theorem struct_desugar_invalidators (pr : Profile) (s : StructM) (st : St F) :
    ∃ (nodes : List (NodeData F)) (stS : St F) (nodesT : List (NodeData F)) (stT : St F)
      (regsS regsT : List (Nat × Nat)),
      parseElem pr s.render st = .ok (nodes, stS) ∧
      parseElems pr (s.entries.map fun e => (twin s e).render) st = .ok (nodesT, stT) ∧
      stS.invals = st.invals ++ regsS ∧ stT.invals = st.invals ++ regsT ∧
      regsV stS regsS = regsV stT regsT ∧
      regsV stS regsS = s.entries.flatMap fun e =>
        (inheritList e.pInvalidators s.reg.pInvalidators).map fun i => (i, e.attr.name) := by
  have hT := parseElems_twins pr (s.entries.map (twin s)) st
  simp only [List.map_map, Function.comp_def] at hT
  have eS : regsV (specStruct s st).2 ((specStruct s st).1.flatMap regsOf) =
      (s.entries.map (fun e => pureMasked (twin s e))).flatMap regsOfV := by
    rw [regsV_regsOf, struct_side_views]
  have eT : regsV (listS specMasked (s.entries.map (twin s)) st).2
      ((listS specMasked (s.entries.map (twin s)) st).1.flatMap regsOf) =
      (s.entries.map (fun e => pureMasked (twin s e))).flatMap regsOfV := by
    rw [regsV_regsOf, twin_side_views]
  refine ⟨_, _, _, _, _, _, parse_render_StructReg pr s st, hT, specStruct_invals s st,
    listS_specMasked_invals _ st, by rw [eS, eT], ?_⟩
  rw [eS]
  simp [List.flatMap_map, regsOfV, pureMasked, twin, pureReg, pureAttr]

/-! ## Group = its members declared in place -/

/-- `parseElem` with the nesting fuel explicit (`parseElem pr e = parseElemF pr (depth e) e`) -/
def parseElemF (pr : Profile) (fuel : Nat) : Elem → St F → R (List (NodeData F) × St F)
  | .node tag attrs children, st =>
    (pNodeDatas pr fuel tag attrs children children st).bind fun r => .ok (r.1, r.2.2)
  | _, _ => .panic

/-- the members one after the other, threading the builder state, node lists concatenated -/
def parseElemsF (pr : Profile) (fuel : Nat) : List Elem → St F → R (List (NodeData F) × St F)
  | [], st => .ok ([], st)
  | e :: es, st =>
    (parseElemF pr fuel e st).bind fun r =>
      (parseElemsF pr fuel es r.2).bind fun r2 => .ok (r.1 ++ r2.1, r2.2)

def AllElems : List Elem → Prop
  | [] => True
  | .node _ _ _ :: r => AllElems r
  | _ :: _ => False

theorem parseElem_eq_parseElemF (pr : Profile) (tag : Str) (attrs : List (Str × Str))
    (children : List Elem) (st : St F) :
    parseElem pr (.node tag attrs children) st =
      parseElemF pr (Elem.depthList children + 1) (.node tag attrs children) st := rfl

private theorem pGroupChildren_members (pr : Profile) (fuel : Nat) (es : List Elem)
    (h : AllElems es) (n : Nat) (hn : es.length + 1 ≤ n) (st : St F) :
    pGroupChildren pr fuel n es st =
      (parseElemsF pr fuel es st).bind fun r => .ok (r.1, [], r.2) := by
  induction es generalizing n st with
  | nil =>
    cases n with
    | zero => omega
    | succ n => simp [pGroupChildren, P.bind_def, next, skipJunk, parseElemsF, pure_apply]
  | cons e es ih =>
    cases n with
    | zero => omega
    | succ n =>
      cases e with
      | node tag attrs children =>
        have hn' : es.length + 1 ≤ n := by simp at hn; omega
        have h' : AllElems es := by simpa [AllElems] using h
        simp only [pGroupChildren, P.bind_def, next, skipJunk, Res.bind_ok', parseElemsF,
          parseElemF, onChild_def]
        cases hp : pNodeDatas pr fuel tag attrs children children st with
        | ok r =>
          simp only [Res.bind_ok', ih h' n hn']
          cases parseElemsF pr fuel es r.2.2 <;> simp [pure_apply]
        | err e => rfl
        | panic => rfl
      | text s => exact absurd h (by simp [AllElems])
      | comment s => exact absurd h (by simp [AllElems])
      | pi => exact absurd h (by simp [AllElems])

/-- `group_flat`: a `Group` yields exactly the node data of its members parsed one after the
other in place (same builder-state threading, same order), whatever its attributes. -/
theorem group_flat (pr : Profile) (fuel : Nat) (attrs : List (Str × Str)) (es : List Elem)
    (h : AllElems es) (st : St F) :
    parseElemF pr (fuel + 2) (.node cs!"Group" attrs es) st = parseElemsF pr (fuel + 1) es st := by
  simp only [parseElemF, pNodeDatas]
  simp [pGroupChildren_members pr (fuel + 1) es h (es.length + 1) (Nat.le_refl _) st]
  cases parseElemsF pr (fuel + 1) es st <;> simp

private theorem parseElemsF_eq_parseElems (pr : Profile) (es : List Elem) (h : AllElems es)
    (D : Nat) (hD : Elem.depthList es ≤ D) (st : St F) :
    parseElemsF pr D es st = parseElems pr es st := by
  induction es generalizing st with
  | nil => rfl
  | cons e es ih =>
    cases e with
    | node t a c =>
      have h' : AllElems es := by simpa [AllElems] using h
      rw [depthList_cons, depth_node] at hD
      have e1 : parseElemF pr D (.node t a c) st = parseElem pr (.node t a c) st := by
        simp only [parseElemF, parseElem]
        rw [pNodeDatas_fuel pr D (Elem.depthList c + 1) t a c (by omega) (by omega) st]
      simp only [parseElemsF, parseElems, e1]
      cases parseElem pr (.node t a c) st with
      | ok r => simp only [Res.bind_ok', ih h' (by omega)]
      | err e => rfl
      | panic => rfl
    | text s => exact absurd h (by simp [AllElems])
    | comment s => exact absurd h (by simp [AllElems])
    | pi => exact absurd h (by simp [AllElems])

/-- `group_flat`, fuel-free: parsing a `Group` is parsing its members one after the other in
place (`parseElems`: the same function the twin side of `struct_desugar` uses for sibling
elements), for arbitrarily nested groups. -/
theorem group_flat_members (pr : Profile) (attrs : List (Str × Str)) (es : List Elem)
    (h : AllElems es) (st : St F) :
    parseElem pr (.node cs!"Group" attrs es) st = parseElems pr es st := by
  rw [← parseElemsF_eq_parseElems pr es h (Elem.depthList es) (Nat.le_refl _) st]
  simp only [parseElem, pNodeDatas]
  simp [pGroupChildren_members pr (Elem.depthList es) es h (es.length + 1) (Nat.le_refl _) st]
  cases parseElemsF pr (Elem.depthList es) es st <;> simp

/-! ## the document: every top-level element is parsed in place and its nodes are stored -/

/-- `store_node` for every node an element produced, under the node's own id -/
def storeAllS (pr : Profile) : List (NodeData F) → St F → R (St F)
  | [], st => .ok st
  | d :: ds, st => (storeNodeS pr d.attr.id d st).bind fun st' => storeAllS pr ds st'

/-- the top-level loop of `parser::parse` as a fold over the declared elements -/
def topLevelS (pr : Profile) (fuel : Nat) : List Elem → St F → R (St F)
  | [], st => .ok st
  | e :: es, st =>
    (parseElemF pr fuel e st).bind fun r =>
      (storeAllS pr r.1 r.2).bind fun st' => topLevelS pr fuel es st'

private theorem storeNodes_eq (pr : Profile) (ds : List (NodeData F)) (cur : Cur) (st : St F) :
    storeNodes pr ds cur st = (storeAllS pr ds st).bind fun st' => .ok ((), cur, st') := by
  induction ds generalizing st with
  | nil => rfl
  | cons d ds ih =>
    simp only [storeNodes, P.bind_def, storeNode_eq, storeAllS]
    cases storeNodeS pr d.attr.id d st with
    | ok st' => simp [ih]
    | err e => rfl
    | panic => rfl

private theorem pTopLevel_members (pr : Profile) (fuel : Nat) (es : List Elem) (h : AllElems es)
    (n : Nat) (hn : es.length + 1 ≤ n) (st : St F) :
    pTopLevel pr fuel n es st = (topLevelS pr fuel es st).bind fun st' => .ok ((), [], st') := by
  induction es generalizing n st with
  | nil =>
    cases n with
    | zero => omega
    | succ n => simp [pTopLevel, P.bind_def, next, skipJunk, topLevelS, pure_apply]
  | cons e es ih =>
    cases n with
    | zero => omega
    | succ n =>
      cases e with
      | node tag attrs children =>
        have hn' : es.length + 1 ≤ n := by simp at hn; omega
        have h' : AllElems es := by simpa [AllElems] using h
        simp only [pTopLevel, P.bind_def, next, skipJunk, Res.bind_ok', topLevelS, parseElemF,
          onChild_def, storeNodes_eq]
        cases pNodeDatas pr fuel tag attrs children children st with
        | ok r =>
          simp only [Res.bind_ok']
          cases storeAllS pr r.1 r.2.2 with
          | ok st' => simp only [Res.bind_ok', ih h' n hn']
          | err e => rfl
          | panic => rfl
        | err e => rfl
        | panic => rfl
      | text s => exact absurd h (by simp [AllElems])
      | comment s => exact absurd h (by simp [AllElems])
      | pi => exact absurd h (by simp [AllElems])

/-- `parser::parse`: the register description from the root attributes; then every declared
top-level element, in document order, is parsed exactly as `parseElem` describes (the
`parse_render_K` theorems) and each node it yields is stored under its own id. -/
theorem document_top_level (pr : Profile) (attrs : List (Str × Str)) (es : List Elem)
    (h : AllElems es) :
    parseDocument (F := F) pr (.node cs!"RegisterDescription" attrs es) =
      (pRegisterDescription attrs).bind fun rd =>
        (topLevelS pr (Elem.depthList es + 1) es St.empty).bind fun st => .ok (rd, st) := by
  simp only [parseDocument]
  cases pRegisterDescription attrs with
  | ok rd =>
    simp [Bind.bind, Res.bind, pTopLevel_members pr _ es h (es.length + 1) (Nat.le_refl _), Pure.pure]
    cases topLevelS pr (Elem.depthList es + 1) es (St.empty (F := F)) <;> rfl
  | err e => simp [Bind.bind, Res.bind]
  | panic => simp [Bind.bind, Res.bind]

/-- the same fold with `parseElem` (each element with its own nesting depth) -/
def topLevel (pr : Profile) : List Elem → St F → R (St F)
  | [], st => .ok st
  | e :: es, st =>
    (parseElem pr e st).bind fun r =>
      (storeAllS pr r.1 r.2).bind fun st' => topLevel pr es st'

private theorem topLevelS_eq_topLevel (pr : Profile) (es : List Elem) (h : AllElems es)
    (D : Nat) (hD : Elem.depthList es < D) (st : St F) :
    topLevelS pr D es st = topLevel pr es st := by
  induction es generalizing st with
  | nil => rfl
  | cons e es ih =>
    cases e with
    | node t a c =>
      have h' : AllElems es := by simpa [AllElems] using h
      rw [depthList_cons, depth_node] at hD
      have e1 : parseElemF pr D (.node t a c) st = parseElem pr (.node t a c) st := by
        simp only [parseElemF, parseElem]
        rw [pNodeDatas_fuel pr D (Elem.depthList c + 1) t a c (by omega) (by omega) st]
      simp only [topLevelS, topLevel, e1]
      cases parseElem pr (.node t a c) st with
      | ok r =>
        simp only [Res.bind_ok']
        cases storeAllS pr r.1 r.2 with
        | ok st' => simp only [Res.bind_ok', ih h' (by omega)]
        | err e => rfl
        | panic => rfl
      | err e => rfl
      | panic => rfl
    | text s => exact absurd h (by simp [AllElems])
    | comment s => exact absurd h (by simp [AllElems])
    | pi => exact absurd h (by simp [AllElems])

/-- the whole document in terms of `parseElem`: register description, then for every declared
top-level element `parseElem` (as characterised by the `parse_render_K` theorems) followed by
`store_node` of each node under its own id. -/
theorem document_members (pr : Profile) (attrs : List (Str × Str)) (es : List Elem)
    (h : AllElems es) :
    parseDocument (F := F) pr (.node cs!"RegisterDescription" attrs es) =
      (pRegisterDescription attrs).bind fun rd =>
        (topLevel pr es St.empty).bind fun st => .ok (rd, st) := by
  rw [document_top_level pr attrs es h,
    topLevelS_eq_topLevel pr es h (Elem.depthList es + 1) (Nat.lt_succ_self _) St.empty]

/-! ## every declared node is retrievable by its name with its kind at the end of the document

Debug assertions on (`pr.debugAsserts = true`, the profile of the test suite): a successful
parse then means that no id was stored twice, i.e. all declared names (and the fresh names of
the enumeration entries) were distinct.  `Good pr e`: parsing the element keeps what was stored
before and only extends the interner — proved below for every rendered kind. -/

/-- parsing this element keeps everything stored before and only extends the interner -/
def Good (pr : Profile) (e : Elem) : Prop :=
  ∀ (st : St F) ds st', parseElem pr e st = .ok (ds, st') → Keeps st st'

theorem storeAllS_dev (pr : Profile) (hdev : pr.debugAsserts = true) (ds : List (NodeData F))
    (st st' : St F) (h : storeAllS pr ds st = .ok st') :
    Keeps st st' ∧ ∀ d ∈ ds, Stored st' d.attr.id d := by
  induction ds generalizing st with
  | nil =>
    simp only [storeAllS, Res.ok.injEq] at h
    subst h
    exact ⟨Keeps.refl _, fun _ hd => by simp at hd⟩
  | cons d ds ih =>
    simp only [storeAllS] at h
    cases hs : storeNodeS pr d.attr.id d st with
    | ok s1 =>
      rw [hs] at h
      obtain ⟨k1, f1⟩ := storeNodeS_dev pr hdev _ _ _ _ hs
      obtain ⟨k2, f2⟩ := ih s1 h
      refine ⟨k1.trans k2, ?_⟩
      intro x hx
      rcases List.mem_cons.mp hx with rfl | hx
      · exact k2.2 _ _ f1
      · exact f2 x hx
    | err e => rw [hs] at h; cases h
    | panic => rw [hs] at h; cases h

/-- the top-level loop only adds: everything stored before is found afterwards -/
theorem topLevel_keeps (pr : Profile) (hdev : pr.debugAsserts = true) (es : List Elem)
    (hgood : ∀ x ∈ es, Good (F := F) pr x) (st stF : St F) (h : topLevel pr es st = .ok stF) :
    Keeps st stF := by
  induction es generalizing st with
  | nil =>
    simp only [topLevel, Res.ok.injEq] at h
    subst h; exact Keeps.refl _
  | cons e es ih =>
    simp only [topLevel] at h
    cases hp : parseElem pr e st with
    | ok r =>
      rw [hp] at h
      simp only [Res.bind_ok'] at h
      cases hs : storeAllS pr r.1 r.2 with
      | ok s1 =>
        rw [hs] at h
        simp only [Res.bind_ok'] at h
        have k1 := hgood e (by simp) st r.1 r.2 hp
        have k2 := (storeAllS_dev pr hdev _ _ _ hs).1
        exact (k1.trans k2).trans (ih (fun x hx => hgood x (by simp [hx])) s1 h)
      | err x => rw [hs] at h; cases h
      | panic => rw [hs] at h; cases h
    | err x => rw [hp] at h; cases h
    | panic => rw [hp] at h; cases h

/-- `document_retrievable`: in a successfully parsed document every node any declared element
yields — wherever the element stands — is found under its id in the FINAL store, exactly as
parsed. -/
theorem document_retrievable (pr : Profile) (hdev : pr.debugAsserts = true) (a b : List Elem)
    (e : Elem) (hgood : ∀ x ∈ a ++ e :: b, Good (F := F) pr x) (st stF : St F)
    (h : topLevel pr (a ++ e :: b) st = .ok stF) :
    ∃ st1 ds st2, topLevel pr a st = .ok st1 ∧ parseElem pr e st1 = .ok (ds, st2) ∧
      Keeps st stF ∧ Keeps st2 stF ∧ ∀ d ∈ ds, Stored stF d.attr.id d := by
  induction a generalizing st with
  | nil =>
    simp only [List.nil_append, topLevel] at h
    cases hp : parseElem pr e st with
    | ok r =>
      rw [hp] at h
      simp only [Res.bind_ok'] at h
      cases hs : storeAllS pr r.1 r.2 with
      | ok s1 =>
        rw [hs] at h
        simp only [Res.bind_ok'] at h
        obtain ⟨k2, f2⟩ := storeAllS_dev pr hdev _ _ _ hs
        have k3 := topLevel_keeps pr hdev b (fun x hx => hgood x (by simp [hx])) s1 stF h
        have k1 := hgood e (by simp) st r.1 r.2 hp
        exact ⟨st, r.1, r.2, rfl, by rw [hp], (k1.trans k2).trans k3, k2.trans k3,
          fun d hd => k3.2 _ _ (f2 d hd)⟩
      | err x => rw [hs] at h; cases h
      | panic => rw [hs] at h; cases h
    | err x => rw [hp] at h; cases h
    | panic => rw [hp] at h; cases h
  | cons x xs ih =>
    simp only [List.cons_append, topLevel] at h
    cases hp : parseElem pr x st with
    | ok r =>
      rw [hp] at h
      simp only [Res.bind_ok'] at h
      cases hs : storeAllS pr r.1 r.2 with
      | ok s1 =>
        rw [hs] at h
        simp only [Res.bind_ok'] at h
        obtain ⟨st1, ds, st2, h1, h2, h3, h4, h5⟩ :=
          ih (fun y hy => hgood y (by simp [hy])) s1 h
        have k1 := hgood x (by simp) st r.1 r.2 hp
        have k2 := (storeAllS_dev pr hdev _ _ _ hs).1
        refine ⟨st1, ds, st2, ?_, h2, (k1.trans k2).trans h3, h4, h5⟩
        simp only [topLevel, hp, Res.bind_ok', hs, h1]
      | err y => rw [hs] at h; cases h
      | panic => rw [hs] at h; cases h
    | err y => rw [hp] at h; cases h
    | panic => rw [hp] at h; cases h

theorem good_of_spec (pr : Profile) (e : Elem) (nodes : St F → List (NodeData F))
    (s2 : St F → St F) (hp : ∀ st, parseElem pr e st = .ok (nodes st, s2 st))
    (hg : ∀ st, Grows st (s2 st)) : Good (F := F) pr e := by
  intro st ds st' h
  rw [hp st] at h
  simp only [Res.ok.injEq, Prod.mk.injEq] at h
  obtain ⟨_, rfl⟩ := h
  exact (hg st).keeps

/-- a declaration that yields one node under the id of its `Name`: at the end of the document
`id_by_name` of the declared name gives that id and `node_opt` of the id gives the parsed node -/
theorem declared_found (pr : Profile) (hdev : pr.debugAsserts = true) (a b : List Elem) (e : Elem)
    (name : Str) (d : St F → NodeData F) (s2 : St F → St F)
    (hp : ∀ st, parseElem pr e st = .ok ([d st], s2 st))
    (hid : ∀ st, (d st).attr.id = (internS name st).1)
    (hg : ∀ st, Grows (internS name st).2 (s2 st))
    (hgood : ∀ x ∈ a ++ e :: b, Good (F := F) pr x) (st stF : St F)
    (h : topLevel pr (a ++ e :: b) st = .ok stF) :
    ∃ st1, topLevel pr a st = .ok st1 ∧ findName name stF.names = some (d st1).attr.id ∧
      Stored stF (d st1).attr.id (d st1) := by
  obtain ⟨st1, ds, st2, h1, h2, _, h4, h5⟩ := document_retrievable pr hdev a b e hgood st stF h
  rw [hp st1] at h2
  simp only [Res.ok.injEq, Prod.mk.injEq] at h2
  obtain ⟨rfl, rfl⟩ := h2
  refine ⟨st1, h1, ?_, h5 _ (by simp)⟩
  rw [hid st1]
  exact idByName_of_le name st1 stF (St.le_trans (hg st1).1 h4.1)

theorem good_Node (pr : Profile) (m : NodeM) : Good (F := F) pr m.render :=
  good_of_spec pr _ _ _ (parse_render_Node pr m) fun st => (grows_specAttr m.attr (Grows.refl st)).trans (grows_specNode m st)

theorem retrievable_Node (pr : Profile) (hdev : pr.debugAsserts = true) (a b : List Elem) (m : NodeM)
    (hgood : ∀ x ∈ a ++ m.render :: b, Good (F := F) pr x) (st stF : St F)
    (h : topLevel pr (a ++ m.render :: b) st = .ok stF) :
    ∃ st1, topLevel pr a st = .ok st1 ∧
      findName m.attr.name stF.names = some (specNode m st1).1.attr.id ∧
      Stored stF (specNode m st1).1.attr.id (.node (specNode m st1).1) :=
  declared_found pr hdev a b _ m.attr.name (fun st => .node (specNode m st).1) _ (parse_render_Node pr m)
    (fun _ => rfl) (grows_specNode m) hgood st stF h

theorem good_Category (pr : Profile) (m : CategoryM) : Good (F := F) pr m.render :=
  good_of_spec pr _ _ _ (parse_render_Category pr m) fun st => (grows_specAttr m.attr (Grows.refl st)).trans (grows_specCategory m st)

theorem retrievable_Category (pr : Profile) (hdev : pr.debugAsserts = true) (a b : List Elem) (m : CategoryM)
    (hgood : ∀ x ∈ a ++ m.render :: b, Good (F := F) pr x) (st stF : St F)
    (h : topLevel pr (a ++ m.render :: b) st = .ok stF) :
    ∃ st1, topLevel pr a st = .ok st1 ∧
      findName m.attr.name stF.names = some (specCategory m st1).1.attr.id ∧
      Stored stF (specCategory m st1).1.attr.id (.category (specCategory m st1).1) :=
  declared_found pr hdev a b _ m.attr.name (fun st => .category (specCategory m st).1) _ (parse_render_Category pr m)
    (fun _ => rfl) (grows_specCategory m) hgood st stF h

theorem good_Integer (pr : Profile) (m : IntegerM) : Good (F := F) pr m.render :=
  good_of_spec pr _ _ _ (parse_render_Integer pr m) fun st => (grows_specAttr m.attr (Grows.refl st)).trans (grows_specInteger m st)

theorem retrievable_Integer (pr : Profile) (hdev : pr.debugAsserts = true) (a b : List Elem) (m : IntegerM)
    (hgood : ∀ x ∈ a ++ m.render :: b, Good (F := F) pr x) (st stF : St F)
    (h : topLevel pr (a ++ m.render :: b) st = .ok stF) :
    ∃ st1, topLevel pr a st = .ok st1 ∧
      findName m.attr.name stF.names = some (specInteger m st1).1.attr.id ∧
      Stored stF (specInteger m st1).1.attr.id (.integer (specInteger m st1).1) :=
  declared_found pr hdev a b _ m.attr.name (fun st => .integer (specInteger m st).1) _ (parse_render_Integer pr m)
    (fun _ => rfl) (grows_specInteger m) hgood st stF h

theorem good_IntReg (pr : Profile) (m : IntRegM) : Good (F := F) pr m.render :=
  good_of_spec pr _ _ _ (parse_render_IntReg pr m) fun st => (grows_specAttr m.attr (Grows.refl st)).trans (grows_specIntReg m st)

theorem retrievable_IntReg (pr : Profile) (hdev : pr.debugAsserts = true) (a b : List Elem) (m : IntRegM)
    (hgood : ∀ x ∈ a ++ m.render :: b, Good (F := F) pr x) (st stF : St F)
    (h : topLevel pr (a ++ m.render :: b) st = .ok stF) :
    ∃ st1, topLevel pr a st = .ok st1 ∧
      findName m.attr.name stF.names = some (specIntReg m st1).1.attr.id ∧
      Stored stF (specIntReg m st1).1.attr.id (.intReg (specIntReg m st1).1) :=
  declared_found pr hdev a b _ m.attr.name (fun st => .intReg (specIntReg m st).1) _ (parse_render_IntReg pr m)
    (fun _ => rfl) (grows_specIntReg m) hgood st stF h

theorem good_Boolean (pr : Profile) (m : BooleanM) : Good (F := F) pr m.render :=
  good_of_spec pr _ _ _ (parse_render_Boolean pr m) fun st => (grows_specAttr m.attr (Grows.refl st)).trans (grows_specBoolean m st)

theorem retrievable_Boolean (pr : Profile) (hdev : pr.debugAsserts = true) (a b : List Elem) (m : BooleanM)
    (hgood : ∀ x ∈ a ++ m.render :: b, Good (F := F) pr x) (st stF : St F)
    (h : topLevel pr (a ++ m.render :: b) st = .ok stF) :
    ∃ st1, topLevel pr a st = .ok st1 ∧
      findName m.attr.name stF.names = some (specBoolean m st1).1.attr.id ∧
      Stored stF (specBoolean m st1).1.attr.id (.boolean (specBoolean m st1).1) :=
  declared_found pr hdev a b _ m.attr.name (fun st => .boolean (specBoolean m st).1) _ (parse_render_Boolean pr m)
    (fun st => by simp only [NodeData.attr, specBoolean]; split <;> rfl) (grows_specBoolean m) hgood st stF h

theorem good_Command (pr : Profile) (m : CommandM) : Good (F := F) pr m.render :=
  good_of_spec pr _ _ _ (parse_render_Command pr m) fun st => (grows_specAttr m.attr (Grows.refl st)).trans (grows_specCommand m st)

theorem retrievable_Command (pr : Profile) (hdev : pr.debugAsserts = true) (a b : List Elem) (m : CommandM)
    (hgood : ∀ x ∈ a ++ m.render :: b, Good (F := F) pr x) (st stF : St F)
    (h : topLevel pr (a ++ m.render :: b) st = .ok stF) :
    ∃ st1, topLevel pr a st = .ok st1 ∧
      findName m.attr.name stF.names = some (specCommand m st1).1.attr.id ∧
      Stored stF (specCommand m st1).1.attr.id (.command (specCommand m st1).1) :=
  declared_found pr hdev a b _ m.attr.name (fun st => .command (specCommand m st).1) _ (parse_render_Command pr m)
    (fun _ => rfl) (grows_specCommand m) hgood st stF h

theorem good_Float (pr : Profile) (m : FloatM F) : Good (F := F) pr m.render :=
  good_of_spec pr _ _ _ (parse_render_Float pr m) fun st => (grows_specAttr m.attr (Grows.refl st)).trans (grows_specFloat m st)

theorem retrievable_Float (pr : Profile) (hdev : pr.debugAsserts = true) (a b : List Elem) (m : FloatM F)
    (hgood : ∀ x ∈ a ++ m.render :: b, Good (F := F) pr x) (st stF : St F)
    (h : topLevel pr (a ++ m.render :: b) st = .ok stF) :
    ∃ st1, topLevel pr a st = .ok st1 ∧
      findName m.attr.name stF.names = some (specFloat m st1).1.attr.id ∧
      Stored stF (specFloat m st1).1.attr.id (.float (specFloat m st1).1) :=
  declared_found pr hdev a b _ m.attr.name (fun st => .float (specFloat m st).1) _ (parse_render_Float pr m)
    (fun _ => rfl) (grows_specFloat m) hgood st stF h

theorem good_FloatReg (pr : Profile) (m : FloatRegM) : Good (F := F) pr m.render :=
  good_of_spec pr _ _ _ (parse_render_FloatReg pr m) fun st => (grows_specAttr m.attr (Grows.refl st)).trans (grows_specFloatReg m st)

theorem retrievable_FloatReg (pr : Profile) (hdev : pr.debugAsserts = true) (a b : List Elem) (m : FloatRegM)
    (hgood : ∀ x ∈ a ++ m.render :: b, Good (F := F) pr x) (st stF : St F)
    (h : topLevel pr (a ++ m.render :: b) st = .ok stF) :
    ∃ st1, topLevel pr a st = .ok st1 ∧
      findName m.attr.name stF.names = some (specFloatReg m st1).1.attr.id ∧
      Stored stF (specFloatReg m st1).1.attr.id (.floatReg (specFloatReg m st1).1) :=
  declared_found pr hdev a b _ m.attr.name (fun st => .floatReg (specFloatReg m st).1) _ (parse_render_FloatReg pr m)
    (fun _ => rfl) (grows_specFloatReg m) hgood st stF h

theorem good_String (pr : Profile) (m : StringM) : Good (F := F) pr m.render :=
  good_of_spec pr _ _ _ (parse_render_String pr m) fun st => (grows_specAttr m.attr (Grows.refl st)).trans (grows_specString m st)

theorem retrievable_String (pr : Profile) (hdev : pr.debugAsserts = true) (a b : List Elem) (m : StringM)
    (hgood : ∀ x ∈ a ++ m.render :: b, Good (F := F) pr x) (st stF : St F)
    (h : topLevel pr (a ++ m.render :: b) st = .ok stF) :
    ∃ st1, topLevel pr a st = .ok st1 ∧
      findName m.attr.name stF.names = some (specString m st1).1.attr.id ∧
      Stored stF (specString m st1).1.attr.id (.string (specString m st1).1) :=
  declared_found pr hdev a b _ m.attr.name (fun st => .string (specString m st).1) _ (parse_render_String pr m)
    (fun _ => rfl) (grows_specString m) hgood st stF h

theorem good_StringReg (pr : Profile) (m : PlainRegM) : Good (F := F) pr (m.render cs!"StringReg") :=
  good_of_spec pr _ _ _ (parse_render_StringReg pr m) fun st => (grows_specAttr m.attr (Grows.refl st)).trans (grows_specPlainReg m st)

theorem retrievable_StringReg (pr : Profile) (hdev : pr.debugAsserts = true) (a b : List Elem) (m : PlainRegM)
    (hgood : ∀ x ∈ a ++ (m.render cs!"StringReg") :: b, Good (F := F) pr x) (st stF : St F)
    (h : topLevel pr (a ++ (m.render cs!"StringReg") :: b) st = .ok stF) :
    ∃ st1, topLevel pr a st = .ok st1 ∧
      findName m.attr.name stF.names = some (specPlainReg m st1).1.attr.id ∧
      Stored stF (specPlainReg m st1).1.attr.id (.stringReg (specPlainReg m st1).1) :=
  declared_found pr hdev a b _ m.attr.name (fun st => .stringReg (specPlainReg m st).1) _ (parse_render_StringReg pr m)
    (fun _ => rfl) (grows_specPlainReg m) hgood st stF h

theorem good_Register (pr : Profile) (m : PlainRegM) : Good (F := F) pr (m.render cs!"Register") :=
  good_of_spec pr _ _ _ (parse_render_Register pr m) fun st => (grows_specAttr m.attr (Grows.refl st)).trans (grows_specPlainReg m st)

theorem retrievable_Register (pr : Profile) (hdev : pr.debugAsserts = true) (a b : List Elem) (m : PlainRegM)
    (hgood : ∀ x ∈ a ++ (m.render cs!"Register") :: b, Good (F := F) pr x) (st stF : St F)
    (h : topLevel pr (a ++ (m.render cs!"Register") :: b) st = .ok stF) :
    ∃ st1, topLevel pr a st = .ok st1 ∧
      findName m.attr.name stF.names = some (specPlainReg m st1).1.attr.id ∧
      Stored stF (specPlainReg m st1).1.attr.id (.register (specPlainReg m st1).1) :=
  declared_found pr hdev a b _ m.attr.name (fun st => .register (specPlainReg m st).1) _ (parse_render_Register pr m)
    (fun _ => rfl) (grows_specPlainReg m) hgood st stF h

theorem good_Port (pr : Profile) (m : PortM) : Good (F := F) pr m.render :=
  good_of_spec pr _ _ _ (parse_render_Port pr m) fun st => (grows_specAttr m.attr (Grows.refl st)).trans (grows_specPort m st)

theorem retrievable_Port (pr : Profile) (hdev : pr.debugAsserts = true) (a b : List Elem) (m : PortM)
    (hgood : ∀ x ∈ a ++ m.render :: b, Good (F := F) pr x) (st stF : St F)
    (h : topLevel pr (a ++ m.render :: b) st = .ok stF) :
    ∃ st1, topLevel pr a st = .ok st1 ∧
      findName m.attr.name stF.names = some (specPort m st1).1.attr.id ∧
      Stored stF (specPort m st1).1.attr.id (.port (specPort m st1).1) :=
  declared_found pr hdev a b _ m.attr.name (fun st => .port (specPort m st).1) _ (parse_render_Port pr m)
    (fun _ => rfl) (grows_specPort m) hgood st stF h

theorem good_Converter (pr : Profile) (m : ConverterM F) : Good (F := F) pr m.render :=
  good_of_spec pr _ _ _ (parse_render_Converter pr m) fun st => (grows_specAttr m.attr (Grows.refl st)).trans (grows_specConverter m st)

theorem retrievable_Converter (pr : Profile) (hdev : pr.debugAsserts = true) (a b : List Elem) (m : ConverterM F)
    (hgood : ∀ x ∈ a ++ m.render :: b, Good (F := F) pr x) (st stF : St F)
    (h : topLevel pr (a ++ m.render :: b) st = .ok stF) :
    ∃ st1, topLevel pr a st = .ok st1 ∧
      findName m.attr.name stF.names = some (specConverter m st1).1.attr.id ∧
      Stored stF (specConverter m st1).1.attr.id (.converter (specConverter m st1).1) :=
  declared_found pr hdev a b _ m.attr.name (fun st => .converter (specConverter m st).1) _ (parse_render_Converter pr m)
    (fun _ => rfl) (grows_specConverter m) hgood st stF h

theorem good_IntConverter (pr : Profile) (m : IntConverterM F) : Good (F := F) pr m.render :=
  good_of_spec pr _ _ _ (parse_render_IntConverter pr m) fun st => (grows_specAttr m.attr (Grows.refl st)).trans (grows_specIntConverter m st)

theorem retrievable_IntConverter (pr : Profile) (hdev : pr.debugAsserts = true) (a b : List Elem) (m : IntConverterM F)
    (hgood : ∀ x ∈ a ++ m.render :: b, Good (F := F) pr x) (st stF : St F)
    (h : topLevel pr (a ++ m.render :: b) st = .ok stF) :
    ∃ st1, topLevel pr a st = .ok st1 ∧
      findName m.attr.name stF.names = some (specIntConverter m st1).1.attr.id ∧
      Stored stF (specIntConverter m st1).1.attr.id (.intConverter (specIntConverter m st1).1) :=
  declared_found pr hdev a b _ m.attr.name (fun st => .intConverter (specIntConverter m st).1) _ (parse_render_IntConverter pr m)
    (fun _ => rfl) (grows_specIntConverter m) hgood st stF h

theorem good_SwissKnife (pr : Profile) (m : SwissKnifeM F) : Good (F := F) pr m.render :=
  good_of_spec pr _ _ _ (parse_render_SwissKnife pr m) fun st => (grows_specAttr m.attr (Grows.refl st)).trans (grows_specSwissKnife m st)

theorem retrievable_SwissKnife (pr : Profile) (hdev : pr.debugAsserts = true) (a b : List Elem) (m : SwissKnifeM F)
    (hgood : ∀ x ∈ a ++ m.render :: b, Good (F := F) pr x) (st stF : St F)
    (h : topLevel pr (a ++ m.render :: b) st = .ok stF) :
    ∃ st1, topLevel pr a st = .ok st1 ∧
      findName m.attr.name stF.names = some (specSwissKnife m st1).1.attr.id ∧
      Stored stF (specSwissKnife m st1).1.attr.id (.swissKnife (specSwissKnife m st1).1) :=
  declared_found pr hdev a b _ m.attr.name (fun st => .swissKnife (specSwissKnife m st).1) _ (parse_render_SwissKnife pr m)
    (fun _ => rfl) (grows_specSwissKnife m) hgood st stF h

theorem good_IntSwissKnife (pr : Profile) (m : IntSwissKnifeM F) : Good (F := F) pr m.render :=
  good_of_spec pr _ _ _ (parse_render_IntSwissKnife pr m) fun st => (grows_specAttr m.attr (Grows.refl st)).trans (grows_specIntSwissKnife m st)

theorem retrievable_IntSwissKnife (pr : Profile) (hdev : pr.debugAsserts = true) (a b : List Elem) (m : IntSwissKnifeM F)
    (hgood : ∀ x ∈ a ++ m.render :: b, Good (F := F) pr x) (st stF : St F)
    (h : topLevel pr (a ++ m.render :: b) st = .ok stF) :
    ∃ st1, topLevel pr a st = .ok st1 ∧
      findName m.attr.name stF.names = some (specIntSwissKnife m st1).1.attr.id ∧
      Stored stF (specIntSwissKnife m st1).1.attr.id (.intSwissKnife (specIntSwissKnife m st1).1) :=
  declared_found pr hdev a b _ m.attr.name (fun st => .intSwissKnife (specIntSwissKnife m st).1) _ (parse_render_IntSwissKnife pr m)
    (fun _ => rfl) (grows_specIntSwissKnife m) hgood st stF h

theorem good_MaskedIntReg (pr : Profile) (m : MaskedM) : Good (F := F) pr m.render :=
  good_of_spec pr _ _ _ (parse_render_MaskedIntReg pr m) fun st =>
    (grows_specAttr m.attr (Grows.refl st)).trans (grows_specMasked m st)

theorem good_StructReg (pr : Profile) (s : StructM) : Good (F := F) pr s.render :=
  good_of_spec pr _ _ _ (parse_render_StructReg pr s) fun st => grows_specStruct s st

/-- every `StructReg` entry is retrievable by its name as a `MaskedIntReg` at the end of the
document -/
theorem retrievable_StructReg_entries (pr : Profile) (hdev : pr.debugAsserts = true)
    (a b : List Elem) (s : StructM) (hgood : ∀ x ∈ a ++ s.render :: b, Good (F := F) pr x)
    (st stF : St F) (h : topLevel pr (a ++ s.render :: b) st = .ok stF) :
    ∃ st1, topLevel pr a st = .ok st1 ∧
      ∀ n ∈ (specStruct s st1).1, Stored stF n.attr.id (.maskedIntReg n) ∧
        ∃ e ∈ s.entries, findName e.attr.name stF.names = some n.attr.id := by
  obtain ⟨st1, ds, st2, h1, h2, _, h4, h5⟩ :=
    document_retrievable pr hdev a b s.render hgood st stF h
  rw [parse_render_StructReg pr s st1] at h2
  simp only [Res.ok.injEq, Prod.mk.injEq] at h2
  obtain ⟨rfl, rfl⟩ := h2
  refine ⟨st1, h1, fun n hn => ⟨h5 (.maskedIntReg n) (List.mem_map.mpr ⟨n, hn, rfl⟩), ?_⟩⟩
  obtain ⟨e, he, si, _, g2, g3⟩ := specStruct_names s st1 n hn
  refine ⟨e, he, ?_⟩
  rw [g2]
  exact idByName_of_le e.attr.name si stF (St.le_trans g3.1 h4.1)

theorem good_Enumeration (pr : Profile) (hdev : pr.debugAsserts = true) (m : EnumerationM F) :
    Good (F := F) pr m.render := by
  intro st ds st' h
  rw [parse_render_Enumeration pr m st] at h
  cases hs : specEnumeration pr m st with
  | ok r =>
    rw [hs] at h
    simp only [Res.bind_ok', Res.ok.injEq, Prod.mk.injEq] at h
    obtain ⟨_, rfl⟩ := h
    obtain ⟨_, k, _⟩ := specEnumeration_dev pr hdev m st r.1 r.2 (by rw [hs])
    exact (grows_internS _ (Grows.refl st)).keeps.trans k
  | err x => rw [hs] at h; cases h
  | panic => rw [hs] at h; cases h

/-- an `Enumeration` is retrievable by its name, and through it every `EnumEntry`: the ids it
lists hold, position by position, `EnumEntry` nodes with the declared symbolic names and values
in the final store -/
theorem retrievable_Enumeration (pr : Profile) (hdev : pr.debugAsserts = true) (a b : List Elem)
    (m : EnumerationM F) (hgood : ∀ x ∈ a ++ m.render :: b, Good (F := F) pr x) (st stF : St F)
    (h : topLevel pr (a ++ m.render :: b) st = .ok stF) :
    ∃ st1 n, topLevel pr a st = .ok st1 ∧
      findName m.attr.name stF.names = some n.attr.id ∧
      Stored stF n.attr.id (.enumeration n) ∧ EntriesStored stF m.entries n.entries := by
  obtain ⟨st1, ds, st2, h1, h2, _, h4, h5⟩ :=
    document_retrievable pr hdev a b m.render hgood st stF h
  rw [parse_render_Enumeration pr m st1] at h2
  cases hs : specEnumeration pr m st1 with
  | ok r =>
    rw [hs] at h2
    simp only [Res.bind_ok', Res.ok.injEq, Prod.mk.injEq] at h2
    obtain ⟨rfl, rfl⟩ := h2
    obtain ⟨e1, k, e3⟩ := specEnumeration_dev pr hdev m st1 r.1 r.2 (by rw [hs])
    refine ⟨st1, r.1, h1, ?_, h5 (.enumeration r.1) (by simp), EntriesStored.keeps h4 _ _ e3⟩
    rw [e1]
    exact idByName_of_le m.attr.name st1 stF (St.le_trans k.1 h4.1)
  | err x => rw [hs] at h2; cases h2
  | panic => rw [hs] at h2; cases h2

/-! ## documents with Groups

A `Group` is `Good` when its members are (so Groups — nested ones included — do not block the
document-level theorems), and a member of a Group is found in the final store like a top-level
declaration. -/

theorem parseElems_keeps (pr : Profile) (es : List Elem) (hgood : ∀ x ∈ es, Good (F := F) pr x)
    (st : St F) (ds : List (NodeData F)) (st' : St F) (h : parseElems pr es st = .ok (ds, st')) :
    Keeps st st' := by
  induction es generalizing st ds with
  | nil =>
    simp only [parseElems, Res.ok.injEq, Prod.mk.injEq] at h
    obtain ⟨_, rfl⟩ := h
    exact Keeps.refl _
  | cons e es ih =>
    simp only [parseElems] at h
    cases hp : parseElem pr e st with
    | ok r =>
      rw [hp] at h
      simp only [Res.bind_ok'] at h
      cases hr : parseElems pr es r.2 with
      | ok r2 =>
        rw [hr] at h
        simp only [Res.bind_ok', Res.ok.injEq, Prod.mk.injEq] at h
        obtain ⟨_, rfl⟩ := h
        exact (hgood e (by simp) st r.1 r.2 hp).trans
          (ih (fun x hx => hgood x (by simp [hx])) r.2 r2.1 (by rw [hr]))
      | err x => rw [hr] at h; cases h
      | panic => rw [hr] at h; cases h
    | err x => rw [hp] at h; cases h
    | panic => rw [hp] at h; cases h

/-- `good_Group`: a Group whose members keep the store keeps the store (any attributes, any
nesting: an inner Group is `Good` by this very theorem) -/
theorem good_Group (pr : Profile) (attrs : List (Str × Str)) (es : List Elem) (hel : AllElems es)
    (hgood : ∀ x ∈ es, Good (F := F) pr x) : Good (F := F) pr (.node cs!"Group" attrs es) := by
  intro st ds st' h
  rw [group_flat_members pr attrs es hel st] at h
  exact parseElems_keeps pr es hgood st ds st' h

theorem parseElems_split (pr : Profile) (a b : List Elem) (e : Elem) (st : St F)
    (ds : List (NodeData F)) (st' : St F) (h : parseElems pr (a ++ e :: b) st = .ok (ds, st')) :
    ∃ da s1 de s2 db, parseElems pr a st = .ok (da, s1) ∧ parseElem pr e s1 = .ok (de, s2) ∧
      parseElems pr b s2 = .ok (db, st') ∧ ds = da ++ (de ++ db) := by
  induction a generalizing st ds with
  | nil =>
    simp only [List.nil_append, parseElems] at h
    cases hp : parseElem pr e st with
    | ok r =>
      rw [hp] at h
      simp only [Res.bind_ok'] at h
      cases hr : parseElems pr b r.2 with
      | ok r2 =>
        rw [hr] at h
        simp only [Res.bind_ok', Res.ok.injEq, Prod.mk.injEq] at h
        obtain ⟨rfl, rfl⟩ := h
        exact ⟨[], st, r.1, r.2, r2.1, rfl, by rw [hp], by rw [hr], by simp⟩
      | err x => rw [hr] at h; cases h
      | panic => rw [hr] at h; cases h
    | err x => rw [hp] at h; cases h
    | panic => rw [hp] at h; cases h
  | cons x xs ih =>
    simp only [List.cons_append, parseElems] at h
    cases hp : parseElem pr x st with
    | ok r =>
      rw [hp] at h
      simp only [Res.bind_ok'] at h
      cases hr : parseElems pr (xs ++ e :: b) r.2 with
      | ok r2 =>
        rw [hr] at h
        simp only [Res.bind_ok', Res.ok.injEq, Prod.mk.injEq] at h
        obtain ⟨rfl, rfl⟩ := h
        obtain ⟨da, s1, de, s2, db, h1, h2, h3, h4⟩ := ih r.2 r2.1 (by rw [hr])
        refine ⟨r.1 ++ da, s1, de, s2, db, ?_, h2, h3, by rw [h4, List.append_assoc]⟩
        simp only [parseElems, hp, Res.bind_ok', h1]
      | err y => rw [hr] at h; cases h
      | panic => rw [hr] at h; cases h
    | err y => rw [hp] at h; cases h
    | panic => rw [hp] at h; cases h

/-- a declaration INSIDE a Group (anywhere among its members, the Group anywhere in the
document): at the end of the document `id_by_name` of its declared name gives its id and
`node_opt` of that id gives the parsed node -/
theorem group_member_found (pr : Profile) (hdev : pr.debugAsserts = true) (a b a' b' : List Elem)
    (attrs : List (Str × Str)) (e : Elem) (name : Str) (d : St F → NodeData F) (s2 : St F → St F)
    (hp : ∀ st, parseElem pr e st = .ok ([d st], s2 st))
    (hid : ∀ st, (d st).attr.id = (internS name st).1)
    (hg : ∀ st, Grows (internS name st).2 (s2 st))
    (hel : AllElems (a' ++ e :: b'))
    (hsib : ∀ x, x ∈ a ∨ x ∈ b → Good (F := F) pr x)
    (hmem : ∀ x ∈ a' ++ e :: b', Good (F := F) pr x) (st stF : St F)
    (h : topLevel pr (a ++ .node cs!"Group" attrs (a' ++ e :: b') :: b) st = .ok stF) :
    ∃ s1, findName name stF.names = some (d s1).attr.id ∧ Stored stF (d s1).attr.id (d s1) := by
  have hgood : ∀ x ∈ a ++ .node cs!"Group" attrs (a' ++ e :: b') :: b, Good (F := F) pr x := by
    intro x hx
    rcases List.mem_append.mp hx with hx | hx
    · exact hsib x (Or.inl hx)
    · rcases List.mem_cons.mp hx with rfl | hx
      · exact good_Group pr attrs _ hel hmem
      · exact hsib x (Or.inr hx)
  obtain ⟨st1, ds, st2, _, h2, _, h4, h5⟩ :=
    document_retrievable pr hdev a b _ hgood st stF h
  rw [group_flat_members pr attrs _ hel st1] at h2
  obtain ⟨da, s1, de, sE, db, _, g2, g3, g4⟩ := parseElems_split pr a' b' e st1 ds st2 h2
  rw [hp s1] at g2
  simp only [Res.ok.injEq, Prod.mk.injEq] at g2
  obtain ⟨rfl, rfl⟩ := g2
  have k3 := parseElems_keeps pr b' (fun x hx => hmem x (by simp [hx])) _ _ _ g3
  refine ⟨s1, ?_, h5 (d s1) (by rw [g4]; simp)⟩
  rw [hid s1]
  exact idByName_of_le name s1 stF (St.le_trans (hg s1).1 (St.le_trans k3.1 h4.1))

/-- document-level form for `MaskedIntReg` (the one-step `retrievable_MaskedIntReg` above is the
special case of a store right after the node's own parse) -/
theorem retrievable_MaskedIntReg_document (pr : Profile) (hdev : pr.debugAsserts = true)
    (a b : List Elem) (m : MaskedM) (hgood : ∀ x ∈ a ++ m.render :: b, Good (F := F) pr x)
    (st stF : St F) (h : topLevel pr (a ++ m.render :: b) st = .ok stF) :
    ∃ st1, topLevel pr a st = .ok st1 ∧
      findName m.attr.name stF.names = some (specMasked m st1).1.attr.id ∧
      Stored stF (specMasked m st1).1.attr.id (.maskedIntReg (specMasked m st1).1) :=
  declared_found pr hdev a b _ m.attr.name (fun st => .maskedIntReg (specMasked m st).1) _
    (parse_render_MaskedIntReg pr m) (fun _ => rfl) (grows_specMasked m) hgood st stF h

theorem retrievable_Node_in_Group (pr : Profile) (hdev : pr.debugAsserts = true) (a b a' b' : List Elem)
    (attrs : List (Str × Str)) (m : NodeM) (hel : AllElems (a' ++ m.render :: b'))
    (hsib : ∀ x, x ∈ a ∨ x ∈ b → Good (F := F) pr x)
    (hmem : ∀ x ∈ a' ++ m.render :: b', Good (F := F) pr x) (st stF : St F)
    (h : topLevel pr (a ++ .node cs!"Group" attrs (a' ++ m.render :: b') :: b) st = .ok stF) :
    ∃ s1 : St F, findName m.attr.name stF.names = some (specNode m s1).1.attr.id ∧
      Stored stF (specNode m s1).1.attr.id (.node (specNode m s1).1) :=
  group_member_found pr hdev a b a' b' attrs _ m.attr.name (fun st => .node (specNode m st).1) _
    (parse_render_Node pr m) (fun _ => rfl) (grows_specNode m) hel hsib hmem st stF h

theorem retrievable_Category_in_Group (pr : Profile) (hdev : pr.debugAsserts = true) (a b a' b' : List Elem)
    (attrs : List (Str × Str)) (m : CategoryM) (hel : AllElems (a' ++ m.render :: b'))
    (hsib : ∀ x, x ∈ a ∨ x ∈ b → Good (F := F) pr x)
    (hmem : ∀ x ∈ a' ++ m.render :: b', Good (F := F) pr x) (st stF : St F)
    (h : topLevel pr (a ++ .node cs!"Group" attrs (a' ++ m.render :: b') :: b) st = .ok stF) :
    ∃ s1 : St F, findName m.attr.name stF.names = some (specCategory m s1).1.attr.id ∧
      Stored stF (specCategory m s1).1.attr.id (.category (specCategory m s1).1) :=
  group_member_found pr hdev a b a' b' attrs _ m.attr.name (fun st => .category (specCategory m st).1) _
    (parse_render_Category pr m) (fun _ => rfl) (grows_specCategory m) hel hsib hmem st stF h

theorem retrievable_Integer_in_Group (pr : Profile) (hdev : pr.debugAsserts = true) (a b a' b' : List Elem)
    (attrs : List (Str × Str)) (m : IntegerM) (hel : AllElems (a' ++ m.render :: b'))
    (hsib : ∀ x, x ∈ a ∨ x ∈ b → Good (F := F) pr x)
    (hmem : ∀ x ∈ a' ++ m.render :: b', Good (F := F) pr x) (st stF : St F)
    (h : topLevel pr (a ++ .node cs!"Group" attrs (a' ++ m.render :: b') :: b) st = .ok stF) :
    ∃ s1 : St F, findName m.attr.name stF.names = some (specInteger m s1).1.attr.id ∧
      Stored stF (specInteger m s1).1.attr.id (.integer (specInteger m s1).1) :=
  group_member_found pr hdev a b a' b' attrs _ m.attr.name (fun st => .integer (specInteger m st).1) _
    (parse_render_Integer pr m) (fun _ => rfl) (grows_specInteger m) hel hsib hmem st stF h

theorem retrievable_IntReg_in_Group (pr : Profile) (hdev : pr.debugAsserts = true) (a b a' b' : List Elem)
    (attrs : List (Str × Str)) (m : IntRegM) (hel : AllElems (a' ++ m.render :: b'))
    (hsib : ∀ x, x ∈ a ∨ x ∈ b → Good (F := F) pr x)
    (hmem : ∀ x ∈ a' ++ m.render :: b', Good (F := F) pr x) (st stF : St F)
    (h : topLevel pr (a ++ .node cs!"Group" attrs (a' ++ m.render :: b') :: b) st = .ok stF) :
    ∃ s1 : St F, findName m.attr.name stF.names = some (specIntReg m s1).1.attr.id ∧
      Stored stF (specIntReg m s1).1.attr.id (.intReg (specIntReg m s1).1) :=
  group_member_found pr hdev a b a' b' attrs _ m.attr.name (fun st => .intReg (specIntReg m st).1) _
    (parse_render_IntReg pr m) (fun _ => rfl) (grows_specIntReg m) hel hsib hmem st stF h

theorem retrievable_MaskedIntReg_in_Group (pr : Profile) (hdev : pr.debugAsserts = true) (a b a' b' : List Elem)
    (attrs : List (Str × Str)) (m : MaskedM) (hel : AllElems (a' ++ m.render :: b'))
    (hsib : ∀ x, x ∈ a ∨ x ∈ b → Good (F := F) pr x)
    (hmem : ∀ x ∈ a' ++ m.render :: b', Good (F := F) pr x) (st stF : St F)
    (h : topLevel pr (a ++ .node cs!"Group" attrs (a' ++ m.render :: b') :: b) st = .ok stF) :
    ∃ s1 : St F, findName m.attr.name stF.names = some (specMasked m s1).1.attr.id ∧
      Stored stF (specMasked m s1).1.attr.id (.maskedIntReg (specMasked m s1).1) :=
  group_member_found pr hdev a b a' b' attrs _ m.attr.name (fun st => .maskedIntReg (specMasked m st).1) _
    (parse_render_MaskedIntReg pr m) (fun _ => rfl) (grows_specMasked m) hel hsib hmem st stF h

theorem retrievable_Boolean_in_Group (pr : Profile) (hdev : pr.debugAsserts = true) (a b a' b' : List Elem)
    (attrs : List (Str × Str)) (m : BooleanM) (hel : AllElems (a' ++ m.render :: b'))
    (hsib : ∀ x, x ∈ a ∨ x ∈ b → Good (F := F) pr x)
    (hmem : ∀ x ∈ a' ++ m.render :: b', Good (F := F) pr x) (st stF : St F)
    (h : topLevel pr (a ++ .node cs!"Group" attrs (a' ++ m.render :: b') :: b) st = .ok stF) :
    ∃ s1 : St F, findName m.attr.name stF.names = some (specBoolean m s1).1.attr.id ∧
      Stored stF (specBoolean m s1).1.attr.id (.boolean (specBoolean m s1).1) :=
  group_member_found pr hdev a b a' b' attrs _ m.attr.name (fun st => .boolean (specBoolean m st).1) _
    (parse_render_Boolean pr m) (fun st => by simp only [NodeData.attr, specBoolean]; split <;> rfl) (grows_specBoolean m) hel hsib hmem st stF h

theorem retrievable_Command_in_Group (pr : Profile) (hdev : pr.debugAsserts = true) (a b a' b' : List Elem)
    (attrs : List (Str × Str)) (m : CommandM) (hel : AllElems (a' ++ m.render :: b'))
    (hsib : ∀ x, x ∈ a ∨ x ∈ b → Good (F := F) pr x)
    (hmem : ∀ x ∈ a' ++ m.render :: b', Good (F := F) pr x) (st stF : St F)
    (h : topLevel pr (a ++ .node cs!"Group" attrs (a' ++ m.render :: b') :: b) st = .ok stF) :
    ∃ s1 : St F, findName m.attr.name stF.names = some (specCommand m s1).1.attr.id ∧
      Stored stF (specCommand m s1).1.attr.id (.command (specCommand m s1).1) :=
  group_member_found pr hdev a b a' b' attrs _ m.attr.name (fun st => .command (specCommand m st).1) _
    (parse_render_Command pr m) (fun _ => rfl) (grows_specCommand m) hel hsib hmem st stF h

theorem retrievable_Float_in_Group (pr : Profile) (hdev : pr.debugAsserts = true) (a b a' b' : List Elem)
    (attrs : List (Str × Str)) (m : FloatM F) (hel : AllElems (a' ++ m.render :: b'))
    (hsib : ∀ x, x ∈ a ∨ x ∈ b → Good (F := F) pr x)
    (hmem : ∀ x ∈ a' ++ m.render :: b', Good (F := F) pr x) (st stF : St F)
    (h : topLevel pr (a ++ .node cs!"Group" attrs (a' ++ m.render :: b') :: b) st = .ok stF) :
    ∃ s1 : St F, findName m.attr.name stF.names = some (specFloat m s1).1.attr.id ∧
      Stored stF (specFloat m s1).1.attr.id (.float (specFloat m s1).1) :=
  group_member_found pr hdev a b a' b' attrs _ m.attr.name (fun st => .float (specFloat m st).1) _
    (parse_render_Float pr m) (fun _ => rfl) (grows_specFloat m) hel hsib hmem st stF h

theorem retrievable_FloatReg_in_Group (pr : Profile) (hdev : pr.debugAsserts = true) (a b a' b' : List Elem)
    (attrs : List (Str × Str)) (m : FloatRegM) (hel : AllElems (a' ++ m.render :: b'))
    (hsib : ∀ x, x ∈ a ∨ x ∈ b → Good (F := F) pr x)
    (hmem : ∀ x ∈ a' ++ m.render :: b', Good (F := F) pr x) (st stF : St F)
    (h : topLevel pr (a ++ .node cs!"Group" attrs (a' ++ m.render :: b') :: b) st = .ok stF) :
    ∃ s1 : St F, findName m.attr.name stF.names = some (specFloatReg m s1).1.attr.id ∧
      Stored stF (specFloatReg m s1).1.attr.id (.floatReg (specFloatReg m s1).1) :=
  group_member_found pr hdev a b a' b' attrs _ m.attr.name (fun st => .floatReg (specFloatReg m st).1) _
    (parse_render_FloatReg pr m) (fun _ => rfl) (grows_specFloatReg m) hel hsib hmem st stF h

theorem retrievable_String_in_Group (pr : Profile) (hdev : pr.debugAsserts = true) (a b a' b' : List Elem)
    (attrs : List (Str × Str)) (m : StringM) (hel : AllElems (a' ++ m.render :: b'))
    (hsib : ∀ x, x ∈ a ∨ x ∈ b → Good (F := F) pr x)
    (hmem : ∀ x ∈ a' ++ m.render :: b', Good (F := F) pr x) (st stF : St F)
    (h : topLevel pr (a ++ .node cs!"Group" attrs (a' ++ m.render :: b') :: b) st = .ok stF) :
    ∃ s1 : St F, findName m.attr.name stF.names = some (specString m s1).1.attr.id ∧
      Stored stF (specString m s1).1.attr.id (.string (specString m s1).1) :=
  group_member_found pr hdev a b a' b' attrs _ m.attr.name (fun st => .string (specString m st).1) _
    (parse_render_String pr m) (fun _ => rfl) (grows_specString m) hel hsib hmem st stF h

theorem retrievable_StringReg_in_Group (pr : Profile) (hdev : pr.debugAsserts = true) (a b a' b' : List Elem)
    (attrs : List (Str × Str)) (m : PlainRegM) (hel : AllElems (a' ++ (m.render cs!"StringReg") :: b'))
    (hsib : ∀ x, x ∈ a ∨ x ∈ b → Good (F := F) pr x)
    (hmem : ∀ x ∈ a' ++ (m.render cs!"StringReg") :: b', Good (F := F) pr x) (st stF : St F)
    (h : topLevel pr (a ++ .node cs!"Group" attrs (a' ++ (m.render cs!"StringReg") :: b') :: b) st = .ok stF) :
    ∃ s1 : St F, findName m.attr.name stF.names = some (specPlainReg m s1).1.attr.id ∧
      Stored stF (specPlainReg m s1).1.attr.id (.stringReg (specPlainReg m s1).1) :=
  group_member_found pr hdev a b a' b' attrs _ m.attr.name (fun st => .stringReg (specPlainReg m st).1) _
    (parse_render_StringReg pr m) (fun _ => rfl) (grows_specPlainReg m) hel hsib hmem st stF h

theorem retrievable_Register_in_Group (pr : Profile) (hdev : pr.debugAsserts = true) (a b a' b' : List Elem)
    (attrs : List (Str × Str)) (m : PlainRegM) (hel : AllElems (a' ++ (m.render cs!"Register") :: b'))
    (hsib : ∀ x, x ∈ a ∨ x ∈ b → Good (F := F) pr x)
    (hmem : ∀ x ∈ a' ++ (m.render cs!"Register") :: b', Good (F := F) pr x) (st stF : St F)
    (h : topLevel pr (a ++ .node cs!"Group" attrs (a' ++ (m.render cs!"Register") :: b') :: b) st = .ok stF) :
    ∃ s1 : St F, findName m.attr.name stF.names = some (specPlainReg m s1).1.attr.id ∧
      Stored stF (specPlainReg m s1).1.attr.id (.register (specPlainReg m s1).1) :=
  group_member_found pr hdev a b a' b' attrs _ m.attr.name (fun st => .register (specPlainReg m st).1) _
    (parse_render_Register pr m) (fun _ => rfl) (grows_specPlainReg m) hel hsib hmem st stF h

theorem retrievable_Port_in_Group (pr : Profile) (hdev : pr.debugAsserts = true) (a b a' b' : List Elem)
    (attrs : List (Str × Str)) (m : PortM) (hel : AllElems (a' ++ m.render :: b'))
    (hsib : ∀ x, x ∈ a ∨ x ∈ b → Good (F := F) pr x)
    (hmem : ∀ x ∈ a' ++ m.render :: b', Good (F := F) pr x) (st stF : St F)
    (h : topLevel pr (a ++ .node cs!"Group" attrs (a' ++ m.render :: b') :: b) st = .ok stF) :
    ∃ s1 : St F, findName m.attr.name stF.names = some (specPort m s1).1.attr.id ∧
      Stored stF (specPort m s1).1.attr.id (.port (specPort m s1).1) :=
  group_member_found pr hdev a b a' b' attrs _ m.attr.name (fun st => .port (specPort m st).1) _
    (parse_render_Port pr m) (fun _ => rfl) (grows_specPort m) hel hsib hmem st stF h

theorem retrievable_Converter_in_Group (pr : Profile) (hdev : pr.debugAsserts = true) (a b a' b' : List Elem)
    (attrs : List (Str × Str)) (m : ConverterM F) (hel : AllElems (a' ++ m.render :: b'))
    (hsib : ∀ x, x ∈ a ∨ x ∈ b → Good (F := F) pr x)
    (hmem : ∀ x ∈ a' ++ m.render :: b', Good (F := F) pr x) (st stF : St F)
    (h : topLevel pr (a ++ .node cs!"Group" attrs (a' ++ m.render :: b') :: b) st = .ok stF) :
    ∃ s1 : St F, findName m.attr.name stF.names = some (specConverter m s1).1.attr.id ∧
      Stored stF (specConverter m s1).1.attr.id (.converter (specConverter m s1).1) :=
  group_member_found pr hdev a b a' b' attrs _ m.attr.name (fun st => .converter (specConverter m st).1) _
    (parse_render_Converter pr m) (fun _ => rfl) (grows_specConverter m) hel hsib hmem st stF h

theorem retrievable_IntConverter_in_Group (pr : Profile) (hdev : pr.debugAsserts = true) (a b a' b' : List Elem)
    (attrs : List (Str × Str)) (m : IntConverterM F) (hel : AllElems (a' ++ m.render :: b'))
    (hsib : ∀ x, x ∈ a ∨ x ∈ b → Good (F := F) pr x)
    (hmem : ∀ x ∈ a' ++ m.render :: b', Good (F := F) pr x) (st stF : St F)
    (h : topLevel pr (a ++ .node cs!"Group" attrs (a' ++ m.render :: b') :: b) st = .ok stF) :
    ∃ s1 : St F, findName m.attr.name stF.names = some (specIntConverter m s1).1.attr.id ∧
      Stored stF (specIntConverter m s1).1.attr.id (.intConverter (specIntConverter m s1).1) :=
  group_member_found pr hdev a b a' b' attrs _ m.attr.name (fun st => .intConverter (specIntConverter m st).1) _
    (parse_render_IntConverter pr m) (fun _ => rfl) (grows_specIntConverter m) hel hsib hmem st stF h

theorem retrievable_SwissKnife_in_Group (pr : Profile) (hdev : pr.debugAsserts = true) (a b a' b' : List Elem)
    (attrs : List (Str × Str)) (m : SwissKnifeM F) (hel : AllElems (a' ++ m.render :: b'))
    (hsib : ∀ x, x ∈ a ∨ x ∈ b → Good (F := F) pr x)
    (hmem : ∀ x ∈ a' ++ m.render :: b', Good (F := F) pr x) (st stF : St F)
    (h : topLevel pr (a ++ .node cs!"Group" attrs (a' ++ m.render :: b') :: b) st = .ok stF) :
    ∃ s1 : St F, findName m.attr.name stF.names = some (specSwissKnife m s1).1.attr.id ∧
      Stored stF (specSwissKnife m s1).1.attr.id (.swissKnife (specSwissKnife m s1).1) :=
  group_member_found pr hdev a b a' b' attrs _ m.attr.name (fun st => .swissKnife (specSwissKnife m st).1) _
    (parse_render_SwissKnife pr m) (fun _ => rfl) (grows_specSwissKnife m) hel hsib hmem st stF h

theorem retrievable_IntSwissKnife_in_Group (pr : Profile) (hdev : pr.debugAsserts = true) (a b a' b' : List Elem)
    (attrs : List (Str × Str)) (m : IntSwissKnifeM F) (hel : AllElems (a' ++ m.render :: b'))
    (hsib : ∀ x, x ∈ a ∨ x ∈ b → Good (F := F) pr x)
    (hmem : ∀ x ∈ a' ++ m.render :: b', Good (F := F) pr x) (st stF : St F)
    (h : topLevel pr (a ++ .node cs!"Group" attrs (a' ++ m.render :: b') :: b) st = .ok stF) :
    ∃ s1 : St F, findName m.attr.name stF.names = some (specIntSwissKnife m s1).1.attr.id ∧
      Stored stF (specIntSwissKnife m s1).1.attr.id (.intSwissKnife (specIntSwissKnife m s1).1) :=
  group_member_found pr hdev a b a' b' attrs _ m.attr.name (fun st => .intSwissKnife (specIntSwissKnife m st).1) _
    (parse_render_IntSwissKnife pr m) (fun _ => rfl) (grows_specIntSwissKnife m) hel hsib hmem st stF h

/-! ## declarations at ANY Group depth

`Occurs pr e es`: the element `e` occurs in the element list `es` either directly or inside a
Group, inside a Group inside a Group, … — with, at every level of the path, sibling elements
that keep the store (`Good`) and Groups whose children are elements.  Induction on this path
gives the document-level theorem for every nesting depth. -/

inductive Occurs (pr : Profile) (e : Elem) : List Elem → Prop where
  | here (a b : List Elem) (hsib : ∀ x, x ∈ a ∨ x ∈ b → Good (F := F) pr x) :
      Occurs pr e (a ++ e :: b)
  | inGroup (a b : List Elem) (attrs : List (Str × Str)) (es : List Elem)
      (hsib : ∀ x, x ∈ a ∨ x ∈ b → Good (F := F) pr x) (hel : AllElems es)
      (hmem : ∀ x ∈ es, Good (F := F) pr x) (h : Occurs pr e es) :
      Occurs pr e (a ++ .node cs!"Group" attrs es :: b)

/-- parse level: wherever `e` occurs (any depth) in a successfully parsed sibling list, it was
parsed in some intermediate state, its nodes are among the nodes the list yields, and the state
after its parse is kept until the end of the list -/
theorem occurs_parsed (pr : Profile) (e : Elem) (es : List Elem) (hocc : Occurs (F := F) pr e es) :
    ∀ (st : St F) (ds : List (NodeData F)) (st' : St F), parseElems pr es st = .ok (ds, st') →
      ∃ s1 de s2, parseElem pr e s1 = .ok (de, s2) ∧ (∀ d ∈ de, d ∈ ds) ∧ Keeps s2 st' := by
  induction hocc with
  | here a b hsib =>
    intro st ds st' h
    obtain ⟨da, s1, de, s2, db, _, g2, g3, g4⟩ := parseElems_split pr a b e st ds st' h
    have k3 := parseElems_keeps pr b (fun x hx => hsib x (Or.inr hx)) _ _ _ g3
    exact ⟨s1, de, s2, g2, fun d hd => by rw [g4]; simp [hd], k3⟩
  | inGroup a b attrs es hsib hel hmem _ ih =>
    intro st ds st' h
    obtain ⟨da, s1, dg, s2, db, _, g2, g3, g4⟩ := parseElems_split pr a b _ st ds st' h
    rw [group_flat_members pr attrs es hel s1] at g2
    obtain ⟨t1, de, t2, i1, i2, i3⟩ := ih s1 dg s2 g2
    have k3 := parseElems_keeps pr b (fun x hx => hsib x (Or.inr hx)) _ _ _ g3
    exact ⟨t1, de, t2, i1, fun d hd => by rw [g4]; simp [i2 d hd], i3.trans k3⟩

/-- document level: every node an element at ANY Group depth yields is found under its id in the
FINAL store exactly as parsed, and the state right after the element's parse is kept to the end -/
theorem occurs_stored (pr : Profile) (hdev : pr.debugAsserts = true) (e : Elem) (es : List Elem)
    (hocc : Occurs (F := F) pr e es) (st stF : St F) (h : topLevel pr es st = .ok stF) :
    ∃ s1 de s2, parseElem pr e s1 = .ok (de, s2) ∧ Keeps s2 stF ∧
      ∀ d ∈ de, Stored stF d.attr.id d := by
  cases hocc with
  | here a b hsib =>
    -- `e` itself need not be `Good`: split the loop at `e` by hand
    have hsplit : ∀ (a : List Elem) (st : St F), (∀ x ∈ a, Good (F := F) pr x) →
        topLevel pr (a ++ e :: b) st = .ok stF →
        ∃ s1 de s2 s3, parseElem pr e s1 = .ok (de, s2) ∧ storeAllS pr de s2 = .ok s3 ∧
          topLevel pr b s3 = .ok stF := by
      intro a
      induction a with
      | nil =>
        intro st _ h
        simp only [List.nil_append, topLevel] at h
        cases hp : parseElem pr e st with
        | ok r =>
          rw [hp] at h
          simp only [Res.bind_ok'] at h
          cases hs : storeAllS pr r.1 r.2 with
          | ok s3 =>
            rw [hs] at h
            exact ⟨st, r.1, r.2, s3, by rw [hp], hs, h⟩
          | err x => rw [hs] at h; cases h
          | panic => rw [hs] at h; cases h
        | err x => rw [hp] at h; cases h
        | panic => rw [hp] at h; cases h
      | cons x xs ih =>
        intro st hg h
        simp only [List.cons_append, topLevel] at h
        cases hp : parseElem pr x st with
        | ok r =>
          rw [hp] at h
          simp only [Res.bind_ok'] at h
          cases hs : storeAllS pr r.1 r.2 with
          | ok s3 =>
            rw [hs] at h
            exact ih s3 (fun y hy => hg y (by simp [hy])) h
          | err y => rw [hs] at h; cases h
          | panic => rw [hs] at h; cases h
        | err y => rw [hp] at h; cases h
        | panic => rw [hp] at h; cases h
    obtain ⟨s1, de, s2, s3, g1, g2, g3⟩ := hsplit a st (fun x hx => hsib x (Or.inl hx)) h
    obtain ⟨k2, f2⟩ := storeAllS_dev pr hdev _ _ _ g2
    have k3 := topLevel_keeps pr hdev b (fun x hx => hsib x (Or.inr hx)) s3 stF g3
    exact ⟨s1, de, s2, g1, k2.trans k3, fun d hd => k3.2 _ _ (f2 d hd)⟩
  | inGroup a b attrs es' hsib hel hmem hin =>
    have hgood : ∀ x ∈ a ++ .node cs!"Group" attrs es' :: b, Good (F := F) pr x := by
      intro x hx
      rcases List.mem_append.mp hx with hx | hx
      · exact hsib x (Or.inl hx)
      · rcases List.mem_cons.mp hx with rfl | hx
        · exact good_Group pr attrs _ hel hmem
        · exact hsib x (Or.inr hx)
    obtain ⟨st1, ds, st2, _, h2, _, h4, h5⟩ := document_retrievable pr hdev a b _ hgood st stF h
    rw [group_flat_members pr attrs es' hel st1] at h2
    obtain ⟨t1, de, t2, i1, i2, i3⟩ := occurs_parsed pr e es' hin st1 ds st2 h2
    exact ⟨t1, de, t2, i1, i3.trans h4, fun d hd => h5 d (i2 d hd)⟩

/-- `retrievable_in_nested_Group`: a declaration at ANY Group depth (top level, in a Group, in a
Group in a Group, …) that yields one node under the id of its `Name`: at the end of the document
`id_by_name` of the declared name gives that id and `node_opt` of the id gives the node's normal
form, exactly as parsed. -/
theorem retrievable_in_nested_Group (pr : Profile) (hdev : pr.debugAsserts = true) (es : List Elem)
    (e : Elem) (name : Str) (d : St F → NodeData F) (s2 : St F → St F)
    (hp : ∀ st, parseElem pr e st = .ok ([d st], s2 st))
    (hid : ∀ st, (d st).attr.id = (internS name st).1)
    (hg : ∀ st, Grows (internS name st).2 (s2 st))
    (hocc : Occurs (F := F) pr e es) (st stF : St F) (h : topLevel pr es st = .ok stF) :
    ∃ s1, findName name stF.names = some (d s1).attr.id ∧ Stored stF (d s1).attr.id (d s1) := by
  obtain ⟨s1, de, sE, g1, g2, g3⟩ := occurs_stored pr hdev e es hocc st stF h
  rw [hp s1] at g1
  simp only [Res.ok.injEq, Prod.mk.injEq] at g1
  obtain ⟨rfl, rfl⟩ := g1
  refine ⟨s1, ?_, g3 (d s1) (by simp)⟩
  rw [hid s1]
  exact idByName_of_le name s1 stF (St.le_trans (hg s1).1 g2.1)

theorem retrievable_Node_nested (pr : Profile) (hdev : pr.debugAsserts = true) (es : List Elem)
    (m : NodeM) (hocc : Occurs (F := F) pr m.render es) (st stF : St F)
    (h : topLevel pr es st = .ok stF) :
    ∃ s1 : St F, findName m.attr.name stF.names = some (specNode m s1).1.attr.id ∧
      Stored stF (specNode m s1).1.attr.id (.node (specNode m s1).1) :=
  retrievable_in_nested_Group pr hdev es _ m.attr.name (fun st => .node (specNode m st).1) _
    (parse_render_Node pr m) (fun _ => rfl) (grows_specNode m) hocc st stF h

theorem retrievable_Category_nested (pr : Profile) (hdev : pr.debugAsserts = true) (es : List Elem)
    (m : CategoryM) (hocc : Occurs (F := F) pr m.render es) (st stF : St F)
    (h : topLevel pr es st = .ok stF) :
    ∃ s1 : St F, findName m.attr.name stF.names = some (specCategory m s1).1.attr.id ∧
      Stored stF (specCategory m s1).1.attr.id (.category (specCategory m s1).1) :=
  retrievable_in_nested_Group pr hdev es _ m.attr.name (fun st => .category (specCategory m st).1) _
    (parse_render_Category pr m) (fun _ => rfl) (grows_specCategory m) hocc st stF h

theorem retrievable_Integer_nested (pr : Profile) (hdev : pr.debugAsserts = true) (es : List Elem)
    (m : IntegerM) (hocc : Occurs (F := F) pr m.render es) (st stF : St F)
    (h : topLevel pr es st = .ok stF) :
    ∃ s1 : St F, findName m.attr.name stF.names = some (specInteger m s1).1.attr.id ∧
      Stored stF (specInteger m s1).1.attr.id (.integer (specInteger m s1).1) :=
  retrievable_in_nested_Group pr hdev es _ m.attr.name (fun st => .integer (specInteger m st).1) _
    (parse_render_Integer pr m) (fun _ => rfl) (grows_specInteger m) hocc st stF h

theorem retrievable_IntReg_nested (pr : Profile) (hdev : pr.debugAsserts = true) (es : List Elem)
    (m : IntRegM) (hocc : Occurs (F := F) pr m.render es) (st stF : St F)
    (h : topLevel pr es st = .ok stF) :
    ∃ s1 : St F, findName m.attr.name stF.names = some (specIntReg m s1).1.attr.id ∧
      Stored stF (specIntReg m s1).1.attr.id (.intReg (specIntReg m s1).1) :=
  retrievable_in_nested_Group pr hdev es _ m.attr.name (fun st => .intReg (specIntReg m st).1) _
    (parse_render_IntReg pr m) (fun _ => rfl) (grows_specIntReg m) hocc st stF h

theorem retrievable_MaskedIntReg_nested (pr : Profile) (hdev : pr.debugAsserts = true) (es : List Elem)
    (m : MaskedM) (hocc : Occurs (F := F) pr m.render es) (st stF : St F)
    (h : topLevel pr es st = .ok stF) :
    ∃ s1 : St F, findName m.attr.name stF.names = some (specMasked m s1).1.attr.id ∧
      Stored stF (specMasked m s1).1.attr.id (.maskedIntReg (specMasked m s1).1) :=
  retrievable_in_nested_Group pr hdev es _ m.attr.name (fun st => .maskedIntReg (specMasked m st).1) _
    (parse_render_MaskedIntReg pr m) (fun _ => rfl) (grows_specMasked m) hocc st stF h

theorem retrievable_Boolean_nested (pr : Profile) (hdev : pr.debugAsserts = true) (es : List Elem)
    (m : BooleanM) (hocc : Occurs (F := F) pr m.render es) (st stF : St F)
    (h : topLevel pr es st = .ok stF) :
    ∃ s1 : St F, findName m.attr.name stF.names = some (specBoolean m s1).1.attr.id ∧
      Stored stF (specBoolean m s1).1.attr.id (.boolean (specBoolean m s1).1) :=
  retrievable_in_nested_Group pr hdev es _ m.attr.name (fun st => .boolean (specBoolean m st).1) _
    (parse_render_Boolean pr m) (fun st => by simp only [NodeData.attr, specBoolean]; split <;> rfl) (grows_specBoolean m) hocc st stF h

theorem retrievable_Command_nested (pr : Profile) (hdev : pr.debugAsserts = true) (es : List Elem)
    (m : CommandM) (hocc : Occurs (F := F) pr m.render es) (st stF : St F)
    (h : topLevel pr es st = .ok stF) :
    ∃ s1 : St F, findName m.attr.name stF.names = some (specCommand m s1).1.attr.id ∧
      Stored stF (specCommand m s1).1.attr.id (.command (specCommand m s1).1) :=
  retrievable_in_nested_Group pr hdev es _ m.attr.name (fun st => .command (specCommand m st).1) _
    (parse_render_Command pr m) (fun _ => rfl) (grows_specCommand m) hocc st stF h

theorem retrievable_Float_nested (pr : Profile) (hdev : pr.debugAsserts = true) (es : List Elem)
    (m : FloatM F) (hocc : Occurs (F := F) pr m.render es) (st stF : St F)
    (h : topLevel pr es st = .ok stF) :
    ∃ s1 : St F, findName m.attr.name stF.names = some (specFloat m s1).1.attr.id ∧
      Stored stF (specFloat m s1).1.attr.id (.float (specFloat m s1).1) :=
  retrievable_in_nested_Group pr hdev es _ m.attr.name (fun st => .float (specFloat m st).1) _
    (parse_render_Float pr m) (fun _ => rfl) (grows_specFloat m) hocc st stF h

theorem retrievable_FloatReg_nested (pr : Profile) (hdev : pr.debugAsserts = true) (es : List Elem)
    (m : FloatRegM) (hocc : Occurs (F := F) pr m.render es) (st stF : St F)
    (h : topLevel pr es st = .ok stF) :
    ∃ s1 : St F, findName m.attr.name stF.names = some (specFloatReg m s1).1.attr.id ∧
      Stored stF (specFloatReg m s1).1.attr.id (.floatReg (specFloatReg m s1).1) :=
  retrievable_in_nested_Group pr hdev es _ m.attr.name (fun st => .floatReg (specFloatReg m st).1) _
    (parse_render_FloatReg pr m) (fun _ => rfl) (grows_specFloatReg m) hocc st stF h

theorem retrievable_String_nested (pr : Profile) (hdev : pr.debugAsserts = true) (es : List Elem)
    (m : StringM) (hocc : Occurs (F := F) pr m.render es) (st stF : St F)
    (h : topLevel pr es st = .ok stF) :
    ∃ s1 : St F, findName m.attr.name stF.names = some (specString m s1).1.attr.id ∧
      Stored stF (specString m s1).1.attr.id (.string (specString m s1).1) :=
  retrievable_in_nested_Group pr hdev es _ m.attr.name (fun st => .string (specString m st).1) _
    (parse_render_String pr m) (fun _ => rfl) (grows_specString m) hocc st stF h

theorem retrievable_StringReg_nested (pr : Profile) (hdev : pr.debugAsserts = true) (es : List Elem)
    (m : PlainRegM) (hocc : Occurs (F := F) pr (m.render cs!"StringReg") es) (st stF : St F)
    (h : topLevel pr es st = .ok stF) :
    ∃ s1 : St F, findName m.attr.name stF.names = some (specPlainReg m s1).1.attr.id ∧
      Stored stF (specPlainReg m s1).1.attr.id (.stringReg (specPlainReg m s1).1) :=
  retrievable_in_nested_Group pr hdev es _ m.attr.name (fun st => .stringReg (specPlainReg m st).1) _
    (parse_render_StringReg pr m) (fun _ => rfl) (grows_specPlainReg m) hocc st stF h

theorem retrievable_Register_nested (pr : Profile) (hdev : pr.debugAsserts = true) (es : List Elem)
    (m : PlainRegM) (hocc : Occurs (F := F) pr (m.render cs!"Register") es) (st stF : St F)
    (h : topLevel pr es st = .ok stF) :
    ∃ s1 : St F, findName m.attr.name stF.names = some (specPlainReg m s1).1.attr.id ∧
      Stored stF (specPlainReg m s1).1.attr.id (.register (specPlainReg m s1).1) :=
  retrievable_in_nested_Group pr hdev es _ m.attr.name (fun st => .register (specPlainReg m st).1) _
    (parse_render_Register pr m) (fun _ => rfl) (grows_specPlainReg m) hocc st stF h

theorem retrievable_Port_nested (pr : Profile) (hdev : pr.debugAsserts = true) (es : List Elem)
    (m : PortM) (hocc : Occurs (F := F) pr m.render es) (st stF : St F)
    (h : topLevel pr es st = .ok stF) :
    ∃ s1 : St F, findName m.attr.name stF.names = some (specPort m s1).1.attr.id ∧
      Stored stF (specPort m s1).1.attr.id (.port (specPort m s1).1) :=
  retrievable_in_nested_Group pr hdev es _ m.attr.name (fun st => .port (specPort m st).1) _
    (parse_render_Port pr m) (fun _ => rfl) (grows_specPort m) hocc st stF h

theorem retrievable_Converter_nested (pr : Profile) (hdev : pr.debugAsserts = true) (es : List Elem)
    (m : ConverterM F) (hocc : Occurs (F := F) pr m.render es) (st stF : St F)
    (h : topLevel pr es st = .ok stF) :
    ∃ s1 : St F, findName m.attr.name stF.names = some (specConverter m s1).1.attr.id ∧
      Stored stF (specConverter m s1).1.attr.id (.converter (specConverter m s1).1) :=
  retrievable_in_nested_Group pr hdev es _ m.attr.name (fun st => .converter (specConverter m st).1) _
    (parse_render_Converter pr m) (fun _ => rfl) (grows_specConverter m) hocc st stF h

theorem retrievable_IntConverter_nested (pr : Profile) (hdev : pr.debugAsserts = true) (es : List Elem)
    (m : IntConverterM F) (hocc : Occurs (F := F) pr m.render es) (st stF : St F)
    (h : topLevel pr es st = .ok stF) :
    ∃ s1 : St F, findName m.attr.name stF.names = some (specIntConverter m s1).1.attr.id ∧
      Stored stF (specIntConverter m s1).1.attr.id (.intConverter (specIntConverter m s1).1) :=
  retrievable_in_nested_Group pr hdev es _ m.attr.name (fun st => .intConverter (specIntConverter m st).1) _
    (parse_render_IntConverter pr m) (fun _ => rfl) (grows_specIntConverter m) hocc st stF h

theorem retrievable_SwissKnife_nested (pr : Profile) (hdev : pr.debugAsserts = true) (es : List Elem)
    (m : SwissKnifeM F) (hocc : Occurs (F := F) pr m.render es) (st stF : St F)
    (h : topLevel pr es st = .ok stF) :
    ∃ s1 : St F, findName m.attr.name stF.names = some (specSwissKnife m s1).1.attr.id ∧
      Stored stF (specSwissKnife m s1).1.attr.id (.swissKnife (specSwissKnife m s1).1) :=
  retrievable_in_nested_Group pr hdev es _ m.attr.name (fun st => .swissKnife (specSwissKnife m st).1) _
    (parse_render_SwissKnife pr m) (fun _ => rfl) (grows_specSwissKnife m) hocc st stF h

theorem retrievable_IntSwissKnife_nested (pr : Profile) (hdev : pr.debugAsserts = true) (es : List Elem)
    (m : IntSwissKnifeM F) (hocc : Occurs (F := F) pr m.render es) (st stF : St F)
    (h : topLevel pr es st = .ok stF) :
    ∃ s1 : St F, findName m.attr.name stF.names = some (specIntSwissKnife m s1).1.attr.id ∧
      Stored stF (specIntSwissKnife m s1).1.attr.id (.intSwissKnife (specIntSwissKnife m s1).1) :=
  retrievable_in_nested_Group pr hdev es _ m.attr.name (fun st => .intSwissKnife (specIntSwissKnife m st).1) _
    (parse_render_IntSwissKnife pr m) (fun _ => rfl) (grows_specIntSwissKnife m) hocc st stF h

/-- a `StructReg` at any Group depth: every entry is found by name as a `MaskedIntReg` -/
theorem retrievable_StructReg_entries_nested (pr : Profile) (hdev : pr.debugAsserts = true)
    (es : List Elem) (s : StructM) (hocc : Occurs (F := F) pr s.render es) (st stF : St F)
    (h : topLevel pr es st = .ok stF) :
    ∃ s1 : St F, ∀ n ∈ (specStruct s s1).1, Stored stF n.attr.id (.maskedIntReg n) ∧
      ∃ e ∈ s.entries, findName e.attr.name stF.names = some n.attr.id := by
  obtain ⟨s1, de, sE, g1, g2, g3⟩ := occurs_stored pr hdev _ es hocc st stF h
  rw [parse_render_StructReg pr s s1] at g1
  simp only [Res.ok.injEq, Prod.mk.injEq] at g1
  obtain ⟨rfl, rfl⟩ := g1
  refine ⟨s1, fun n hn => ⟨g3 (.maskedIntReg n) (List.mem_map.mpr ⟨n, hn, rfl⟩), ?_⟩⟩
  obtain ⟨e, he, si, _, e2, e3⟩ := specStruct_names s s1 n hn
  refine ⟨e, he, ?_⟩
  rw [e2]
  exact idByName_of_le e.attr.name si stF (St.le_trans e3.1 g2.1)

/-- an `Enumeration` at any Group depth, and through it every `EnumEntry` -/
theorem retrievable_Enumeration_nested (pr : Profile) (hdev : pr.debugAsserts = true)
    (es : List Elem) (m : EnumerationM F) (hocc : Occurs (F := F) pr m.render es) (st stF : St F)
    (h : topLevel pr es st = .ok stF) :
    ∃ n : EnumerationNode, findName m.attr.name stF.names = some n.attr.id ∧
      Stored stF n.attr.id (.enumeration n) ∧ EntriesStored stF m.entries n.entries := by
  obtain ⟨s1, de, sE, g1, g2, g3⟩ := occurs_stored pr hdev _ es hocc st stF h
  rw [parse_render_Enumeration pr m s1] at g1
  cases hs : specEnumeration pr m s1 with
  | ok r =>
    rw [hs] at g1
    simp only [Res.bind_ok', Res.ok.injEq, Prod.mk.injEq] at g1
    obtain ⟨rfl, rfl⟩ := g1
    obtain ⟨e1, k, e3⟩ := specEnumeration_dev pr hdev m s1 r.1 r.2 (by rw [hs])
    refine ⟨r.1, ?_, g3 (.enumeration r.1) (by simp), EntriesStored.keeps g2 _ _ e3⟩
    rw [e1]
    exact idByName_of_le m.attr.name s1 stF (St.le_trans k.1 g2.1)
  | err x => rw [hs] at g1; cases g1
  | panic => rw [hs] at g1; cases g1

/-! ## element text: all text children, any number of fragments; noise in front of the cursor -/

/-- `text_view_concat`: the text view of an element is the concatenation of ALL its text
children in document order — whatever else stands between them (comments, processing
instructions, child elements) and however many there are. -/
theorem text_view_concat (children : List Elem) :
    textView children = .ok (textsOf children).flatten := by
  simp [textView, concatText_textsOf]

/-- … in the renderer's terms: `k` text fragments (any `k`, also 0 and ≥ 3) with arbitrary runs of
comments / processing instructions before, between and after them read as the fragments joined
in order. -/
theorem text_view_fragments (j0 : List Elem) (frs : List (Str × List Elem))
    (h : FragNoise j0 frs) : textView (fragChildren j0 frs) = .ok (fragText frs) := by
  simp [textView, concatText_frag j0 frs h]

/-- the layout "`k` fragments interleaved with comments / processing instructions", chosen per
text by any `plan` (any `k`, any noise runs) -/
@[reducible] def TextFrag.ofFragments (plan : Str → List Elem × List (Str × List Elem))
    (h : ∀ s, FragNoise (plan s).1 (plan s).2 ∧ fragText (plan s).2 = s) : TextFrag where
  frag s := fragChildren (plan s).1 (plan s).2
  view s := by rw [concatText_frag _ _ (h s).1, (h s).2]

/-- `parse_render_K` with fragmented element text: the kind theorems are stated for every text
layout, in particular for every fragment plan — here spelled out for Integer (every text of the
declaration: ToolTip, Unit, the literal `Value`, node references … laid out in `k ≥ 0` fragments
with comments / processing instructions anywhere between them). -/
theorem parse_render_Integer_fragmented (pr : Profile)
    (plan : Str → List Elem × List (Str × List Elem))
    (h : ∀ s, FragNoise (plan s).1 (plan s).2 ∧ fragText (plan s).2 = s) (m : IntegerM) (st : St F) :
    parseElem pr (@IntegerM.render (TextFrag.ofFragments plan h) m) st =
      .ok ([.integer (specInteger m st).1], (specInteger m st).2) :=
  @parse_render_Integer F _ (TextFrag.ofFragments plan h) pr m st

/-- every text-reading leaf parser reads a fragmented element like the unfragmented one: strings
verbatim, node references interned under the joined name, integers converted from the joined
text -/
theorem leaf_parsers_fragmented (tag : Str) (j0 : List Elem) (frs : List (Str × List Elem))
    (h : FragNoise j0 frs) (rest : Cur) (st : St F) :
    pString (mkNode tag (fb j0 frs) :: rest) st = .ok (fragText frs, rest, st) ∧
    pNodeId (mkNode tag (fb j0 frs) :: rest) st =
      .ok ((internS (fragText frs) st).1, rest, (internS (fragText frs) st).2) ∧
    ∀ l : IntLit, l.text = fragText frs →
      pI64 (mkNode tag (fb j0 frs) :: rest) st = .ok (l.val, rest, st) := by
  have hb := textView_fb j0 frs h
  refine ⟨nextText_body tag _ _ hb rest st, pNodeId_body tag _ _ hb rest st, ?_⟩
  intro l hl
  exact pI64_body tag _ l (by rw [hl]; exact hb) rest st

/-- an optional string element (`ToolTip`, `Description`, `Unit`, …) present with fragmented text -/
theorem optional_string_fragmented (tag : Str) (j0 : List Elem) (frs : List (Str × List Elem))
    (h : FragNoise j0 frs) (rest : Cur) (st : St F) :
    parseIf tag pString (mkNode tag (fb j0 frs) :: rest) st = .ok (some (fragText frs), rest, st) := by
  rw [parseIf_hit, (leaf_parsers_fragmented tag j0 frs h rest st).1]
  rfl

/-- whitespace text, comments and processing instructions in front of the cursor are invisible to
every cursor primitive (`next`, `next().unwrap()`, `peek().unwrap()`, `next_if`, `parse_if`) -/
theorem cursor_skips_leading_noise {α : Type} (j : List Elem) (hj : ∀ x ∈ j, IsNonElem x)
    (cur : Cur) (st : St F) (tag : Str) (p : P F α) :
    (next : P F _) (j ++ cur) st = next cur st ∧
    (nextElem : P F _) (j ++ cur) st = nextElem cur st ∧
    (peekElem : P F _) (j ++ cur) st = peekElem cur st ∧
    nextIf (F := F) tag (j ++ cur) st = nextIf tag cur st ∧
    parseIf tag p (j ++ cur) st = parseIf tag p cur st := by
  simp [next, nextElem, peekElem, nextIf, parseIf, skipJunk_nonElem j hj cur]

/-! ## noise BETWEEN declarations: comments, processing instructions and whitespace text among the
children of the root element and of every Group, at every nesting depth

The theorems above take lists of element nodes (`AllElems`).  The parser's loops (`pTopLevel`,
`pGroupChildren`) walk the raw child list with `Node::next`, which skips everything that is not
an element; so an ARBITRARY child list `cs` behaves like its element children `elemsOf cs`. -/

/-- the element children of a child list: comments, processing instructions and text (the
whitespace between declarations) dropped -/
def elemsOf : List Elem → List Elem
  | [] => []
  | .node t a c :: r => .node t a c :: elemsOf r
  | _ :: r => elemsOf r

omit [TextFrag] in
theorem allElems_elemsOf (cs : List Elem) : AllElems (elemsOf cs) := by
  induction cs with
  | nil => trivial
  | cons e cs ih => cases e <;> simpa [elemsOf, AllElems] using ih

omit [TextFrag] in
/-- on a list of elements nothing is dropped: the noise theorems below generalise the
`AllElems` ones -/
theorem elemsOf_of_allElems (es : List Elem) (h : AllElems es) : elemsOf es = es := by
  induction es with
  | nil => rfl
  | cons e es ih =>
    cases e with
    | node t a c => simp only [elemsOf]; rw [ih (by simpa [AllElems] using h)]
    | text s => exact absurd h (by simp [AllElems])
    | comment s => exact absurd h (by simp [AllElems])
    | pi => exact absurd h (by simp [AllElems])

omit [TextFrag] in
theorem depthList_elemsOf (cs : List Elem) : Elem.depthList (elemsOf cs) = Elem.depthList cs := by
  induction cs with
  | nil => rfl
  | cons e cs ih => cases e <;> simp [elemsOf, depthList_cons, Elem.depth, ih]

private theorem pGroupChildren_any (pr : Profile) (fuel : Nat) (cs : List Elem)
    (n : Nat) (hn : cs.length + 1 ≤ n) (st : St F) :
    pGroupChildren pr fuel n cs st =
      (parseElemsF pr fuel (elemsOf cs) st).bind fun r => .ok (r.1, [], r.2) := by
  induction cs generalizing n st with
  | nil => exact pGroupChildren_members pr fuel [] trivial n hn st
  | cons e cs ih =>
    cases n with
    | zero => omega
    | succ n =>
      have hn' : cs.length + 1 ≤ n := by simp at hn; omega
      cases e with
      | node tag attrs children =>
        simp only [elemsOf, pGroupChildren, P.bind_def, next, skipJunk, Res.bind_ok', parseElemsF,
          parseElemF, onChild_def]
        cases hp : pNodeDatas pr fuel tag attrs children children st with
        | ok r =>
          simp only [Res.bind_ok', ih n hn']
          cases parseElemsF pr fuel (elemsOf cs) r.2.2 <;> simp [pure_apply]
        | err e => rfl
        | panic => rfl
      | text s =>
        have e1 : pGroupChildren pr fuel (n + 1) (.text s :: cs) st =
            pGroupChildren pr fuel (n + 1) cs st := by
          simp only [pGroupChildren, P.bind_def, next, skipJunk]
        rw [e1]; exact ih (n + 1) (by omega) st
      | comment s =>
        have e1 : pGroupChildren pr fuel (n + 1) (.comment s :: cs) st =
            pGroupChildren pr fuel (n + 1) cs st := by
          simp only [pGroupChildren, P.bind_def, next, skipJunk]
        rw [e1]; exact ih (n + 1) (by omega) st
      | pi =>
        have e1 : pGroupChildren pr fuel (n + 1) (.pi :: cs) st =
            pGroupChildren pr fuel (n + 1) cs st := by
          simp only [pGroupChildren, P.bind_def, next, skipJunk]
        rw [e1]; exact ih (n + 1) (by omega) st

private theorem pTopLevel_any (pr : Profile) (fuel : Nat) (cs : List Elem)
    (n : Nat) (hn : cs.length + 1 ≤ n) (st : St F) :
    pTopLevel pr fuel n cs st =
      (topLevelS pr fuel (elemsOf cs) st).bind fun st' => .ok ((), [], st') := by
  induction cs generalizing n st with
  | nil => exact pTopLevel_members pr fuel [] trivial n hn st
  | cons e cs ih =>
    cases n with
    | zero => omega
    | succ n =>
      have hn' : cs.length + 1 ≤ n := by simp at hn; omega
      cases e with
      | node tag attrs children =>
        simp only [elemsOf, pTopLevel, P.bind_def, next, skipJunk, Res.bind_ok', topLevelS,
          parseElemF, onChild_def, storeNodes_eq]
        cases pNodeDatas pr fuel tag attrs children children st with
        | ok r =>
          simp only [Res.bind_ok']
          cases storeAllS pr r.1 r.2.2 with
          | ok st' => simp only [Res.bind_ok', ih n hn']
          | err e => rfl
          | panic => rfl
        | err e => rfl
        | panic => rfl
      | text s =>
        have e1 : pTopLevel pr fuel (n + 1) (.text s :: cs) st =
            pTopLevel pr fuel (n + 1) cs st := by
          simp only [pTopLevel, P.bind_def, next, skipJunk]
        rw [e1]; exact ih (n + 1) (by omega) st
      | comment s =>
        have e1 : pTopLevel pr fuel (n + 1) (.comment s :: cs) st =
            pTopLevel pr fuel (n + 1) cs st := by
          simp only [pTopLevel, P.bind_def, next, skipJunk]
        rw [e1]; exact ih (n + 1) (by omega) st
      | pi =>
        have e1 : pTopLevel pr fuel (n + 1) (.pi :: cs) st =
            pTopLevel pr fuel (n + 1) cs st := by
          simp only [pTopLevel, P.bind_def, next, skipJunk]
        rw [e1]; exact ih (n + 1) (by omega) st

/-- `group_flat` for a Group with ANY child list: comments, processing instructions and
whitespace between (before, after) the members are invisible — the Group yields exactly the
node data of its element children parsed one after the other in place. -/
theorem group_flat_noise (pr : Profile) (attrs : List (Str × Str)) (cs : List Elem) (st : St F) :
    parseElem pr (.node cs!"Group" attrs cs) st = parseElems pr (elemsOf cs) st := by
  rw [← parseElemsF_eq_parseElems pr (elemsOf cs) (allElems_elemsOf cs) (Elem.depthList cs)
    (by rw [depthList_elemsOf]; exact Nat.le_refl _) st]
  simp only [parseElem, pNodeDatas]
  simp [pGroupChildren_any pr (Elem.depthList cs) cs (cs.length + 1) (Nat.le_refl _) st]
  cases parseElemsF pr (Elem.depthList cs) (elemsOf cs) st <;> simp

/-- … i.e. the Group with the noise erased parses identically -/
theorem group_noise_erased (pr : Profile) (attrs : List (Str × Str)) (cs : List Elem) (st : St F) :
    parseElem pr (.node cs!"Group" attrs cs) st =
      parseElem pr (.node cs!"Group" attrs (elemsOf cs)) st := by
  rw [group_flat_noise, group_flat_members pr attrs _ (allElems_elemsOf cs)]

/-- `document_members` for a root element with ANY child list: comments, processing instructions
and whitespace between the top-level declarations are invisible to `parser::parse`. -/
theorem document_noise (pr : Profile) (attrs : List (Str × Str)) (cs : List Elem) :
    parseDocument (F := F) pr (.node cs!"RegisterDescription" attrs cs) =
      (pRegisterDescription attrs).bind fun rd =>
        (topLevel pr (elemsOf cs) St.empty).bind fun st => .ok (rd, st) := by
  rw [← topLevelS_eq_topLevel pr (elemsOf cs) (allElems_elemsOf cs) (Elem.depthList cs + 1)
    (by rw [depthList_elemsOf]; exact Nat.lt_succ_self _) St.empty]
  simp only [parseDocument]
  cases pRegisterDescription attrs with
  | ok rd =>
    simp [Bind.bind, Res.bind, pTopLevel_any pr _ cs (cs.length + 1) (Nat.le_refl _), Pure.pure]
    cases topLevelS pr (Elem.depthList cs + 1) (elemsOf cs) (St.empty (F := F)) <;> rfl
  | err e => simp [Bind.bind, Res.bind]
  | panic => simp [Bind.bind, Res.bind]

/-- … i.e. the document with the top-level noise erased parses identically (result, register
description, final store) -/
theorem document_noise_erased (pr : Profile) (attrs : List (Str × Str)) (cs : List Elem) :
    parseDocument (F := F) pr (.node cs!"RegisterDescription" attrs cs) =
      parseDocument pr (.node cs!"RegisterDescription" attrs (elemsOf cs)) := by
  rw [document_noise, document_members pr attrs (elemsOf cs) (allElems_elemsOf cs)]

/-- a successful `parser::parse` of a noisy document is a successful run of the top-level fold
over its element children -/
theorem document_ok_noise (pr : Profile) (attrs : List (Str × Str)) (cs : List Elem)
    (rd : RegisterDescription) (stF : St F)
    (h : parseDocument pr (.node cs!"RegisterDescription" attrs cs) = .ok (rd, stF)) :
    pRegisterDescription attrs = .ok rd ∧ topLevel pr (elemsOf cs) St.empty = .ok stF := by
  rw [document_noise] at h
  cases hr : pRegisterDescription attrs with
  | ok rd' =>
    rw [hr] at h
    simp only [Res.bind_ok'] at h
    cases ht : topLevel pr (elemsOf cs) (St.empty (F := F)) with
    | ok s =>
      rw [ht] at h
      simp only [Res.bind_ok', Res.ok.injEq, Prod.mk.injEq] at h
      obtain ⟨rfl, rfl⟩ := h
      exact ⟨rfl, rfl⟩
    | err x => rw [ht] at h; cases h
    | panic => rw [ht] at h; cases h
  | err x => rw [hr] at h; cases h
  | panic => rw [hr] at h; cases h

/-- `good_Group` for a Group with any child list -/
theorem good_Group_noise (pr : Profile) (attrs : List (Str × Str)) (cs : List Elem)
    (hgood : ∀ x ∈ elemsOf cs, Good (F := F) pr x) : Good (F := F) pr (.node cs!"Group" attrs cs) := by
  intro st ds st' h
  rw [group_flat_noise pr attrs cs st] at h
  exact parseElems_keeps pr (elemsOf cs) hgood st ds st' h

/-- `Occurs` amid noise: `e` is an element child of the child list `cs`, or of a Group among the
element children, or of a Group in a Group, … — every child list on the path may carry any
comments / processing instructions / whitespace text between its elements. -/
inductive OccursN (pr : Profile) (e : Elem) : List Elem → Prop where
  | here {cs : List Elem} (a b : List Elem) (hcs : elemsOf cs = a ++ e :: b)
      (hsib : ∀ x, x ∈ a ∨ x ∈ b → Good (F := F) pr x) : OccursN pr e cs
  | inGroup {cs : List Elem} (a b : List Elem) (attrs : List (Str × Str)) (gs : List Elem)
      (hcs : elemsOf cs = a ++ .node cs!"Group" attrs gs :: b)
      (hsib : ∀ x, x ∈ a ∨ x ∈ b → Good (F := F) pr x)
      (hmem : ∀ x ∈ elemsOf gs, Good (F := F) pr x) (h : OccursN pr e gs) : OccursN pr e cs

/-- the noise-free path is a special case -/
theorem occursN_of_occurs (pr : Profile) (e : Elem) (es : List Elem) (hel : AllElems es)
    (h : Occurs (F := F) pr e es) : OccursN (F := F) pr e es := by
  induction h with
  | here a b hsib => exact OccursN.here a b (elemsOf_of_allElems _ hel) hsib
  | inGroup a b attrs gs hsib hel' hmem _ ih =>
    exact OccursN.inGroup a b attrs gs (elemsOf_of_allElems _ hel) hsib
      (by rw [elemsOf_of_allElems _ hel']; exact hmem) (ih hel')

theorem occursN_parsed (pr : Profile) (e : Elem) (cs : List Elem)
    (hocc : OccursN (F := F) pr e cs) :
    ∀ (st : St F) (ds : List (NodeData F)) (st' : St F),
      parseElems pr (elemsOf cs) st = .ok (ds, st') →
      ∃ s1 de s2, parseElem pr e s1 = .ok (de, s2) ∧ (∀ d ∈ de, d ∈ ds) ∧ Keeps s2 st' := by
  induction hocc with
  | here a b hcs hsib =>
    intro st ds st' h
    rw [hcs] at h
    obtain ⟨da, s1, de, s2, db, _, g2, g3, g4⟩ := parseElems_split pr a b e st ds st' h
    have k3 := parseElems_keeps pr b (fun x hx => hsib x (Or.inr hx)) _ _ _ g3
    exact ⟨s1, de, s2, g2, fun d hd => by rw [g4]; simp [hd], k3⟩
  | inGroup a b attrs gs hcs hsib hmem _ ih =>
    intro st ds st' h
    rw [hcs] at h
    obtain ⟨da, s1, dg, s2, db, _, g2, g3, g4⟩ := parseElems_split pr a b _ st ds st' h
    rw [group_flat_noise pr attrs gs s1] at g2
    obtain ⟨t1, de, t2, i1, i2, i3⟩ := ih s1 dg s2 g2
    have k3 := parseElems_keeps pr b (fun x hx => hsib x (Or.inr hx)) _ _ _ g3
    exact ⟨t1, de, t2, i1, fun d hd => by rw [g4]; simp [i2 d hd], i3.trans k3⟩

theorem occursN_stored (pr : Profile) (hdev : pr.debugAsserts = true) (e : Elem) (cs : List Elem)
    (hocc : OccursN (F := F) pr e cs) (st stF : St F)
    (h : topLevel pr (elemsOf cs) st = .ok stF) :
    ∃ s1 de s2, parseElem pr e s1 = .ok (de, s2) ∧ Keeps s2 stF ∧
      ∀ d ∈ de, Stored stF d.attr.id d := by
  cases hocc with
  | here a b hcs hsib =>
    rw [hcs] at h
    exact occurs_stored pr hdev e _ (Occurs.here a b hsib) st stF h
  | inGroup a b attrs gs hcs hsib hmem hin =>
    rw [hcs] at h
    have hgood : ∀ x ∈ a ++ .node cs!"Group" attrs gs :: b, Good (F := F) pr x := by
      intro x hx
      rcases List.mem_append.mp hx with hx | hx
      · exact hsib x (Or.inl hx)
      · rcases List.mem_cons.mp hx with rfl | hx
        · exact good_Group_noise pr attrs _ hmem
        · exact hsib x (Or.inr hx)
    obtain ⟨st1, ds, st2, _, h2, _, h4, h5⟩ := document_retrievable pr hdev a b _ hgood st stF h
    rw [group_flat_noise pr attrs gs st1] at h2
    obtain ⟨t1, de, t2, i1, i2, i3⟩ := occursN_parsed pr e gs hin st1 ds st2 h2
    exact ⟨t1, de, t2, i1, i3.trans h4, fun d hd => h5 d (i2 d hd)⟩

/-- `retrievable_amid_noise`: `parser::parse` of a WHOLE document whose root and Groups carry
arbitrary comments / processing instructions / whitespace between their children: a declaration
at any Group depth that yields one node under the id of its `Name` is found, at the end of the
document, under that name with the node's normal form exactly as parsed.  (Together with the
`TextFrag` layout parameter: noise inside element text AND between declarations.) -/
theorem retrievable_amid_noise (pr : Profile) (hdev : pr.debugAsserts = true)
    (attrs : List (Str × Str)) (cs : List Elem)
    (e : Elem) (name : Str) (d : St F → NodeData F) (s2 : St F → St F)
    (hp : ∀ st, parseElem pr e st = .ok ([d st], s2 st))
    (hid : ∀ st, (d st).attr.id = (internS name st).1)
    (hg : ∀ st, Grows (internS name st).2 (s2 st))
    (hocc : OccursN (F := F) pr e cs) (rd : RegisterDescription) (stF : St F)
    (h : parseDocument pr (.node cs!"RegisterDescription" attrs cs) = .ok (rd, stF)) :
    ∃ s1, findName name stF.names = some (d s1).attr.id ∧ Stored stF (d s1).attr.id (d s1) := by
  have htop := (document_ok_noise pr attrs cs rd stF h).2
  obtain ⟨s1, de, sE, g1, g2, g3⟩ := occursN_stored pr hdev e cs hocc St.empty stF htop
  rw [hp s1] at g1
  simp only [Res.ok.injEq, Prod.mk.injEq] at g1
  obtain ⟨rfl, rfl⟩ := g1
  refine ⟨s1, ?_, g3 (d s1) (by simp)⟩
  rw [hid s1]
  exact idByName_of_le name s1 stF (St.le_trans (hg s1).1 g2.1)

/-- … for an Integer declaration (the other kinds alike, from their `parse_render_K` /
`grows_specK`) -/
theorem retrievable_Integer_amid_noise (pr : Profile) (hdev : pr.debugAsserts = true)
    (attrs : List (Str × Str)) (cs : List Elem) (m : IntegerM)
    (hocc : OccursN (F := F) pr m.render cs) (rd : RegisterDescription) (stF : St F)
    (h : parseDocument pr (.node cs!"RegisterDescription" attrs cs) = .ok (rd, stF)) :
    ∃ s1 : St F, findName m.attr.name stF.names = some (specInteger m s1).1.attr.id ∧
      Stored stF (specInteger m s1).1.attr.id (.integer (specInteger m s1).1) :=
  retrievable_amid_noise pr hdev attrs cs _ m.attr.name (fun st => .integer (specInteger m st).1) _
    (parse_render_Integer pr m) (fun _ => rfl) (grows_specInteger m) hocc rd stF h

/-! ### … spelled out for every kind (the `_nested` theorems amid noise, for whole `parser::parse`) -/

theorem retrievable_Node_amid_noise (pr : Profile) (hdev : pr.debugAsserts = true)
    (attrs : List (Str × Str)) (cs : List Elem)
    (m : NodeM) (hocc : OccursN (F := F) pr m.render cs) (rd : RegisterDescription) (stF : St F)
    (h : parseDocument pr (.node cs!"RegisterDescription" attrs cs) = .ok (rd, stF)) :
    ∃ s1 : St F, findName m.attr.name stF.names = some (specNode m s1).1.attr.id ∧
      Stored stF (specNode m s1).1.attr.id (.node (specNode m s1).1) :=
  retrievable_amid_noise pr hdev attrs cs _ m.attr.name (fun st => .node (specNode m st).1) _
    (parse_render_Node pr m) (fun _ => rfl) (grows_specNode m) hocc rd stF h

theorem retrievable_Category_amid_noise (pr : Profile) (hdev : pr.debugAsserts = true)
    (attrs : List (Str × Str)) (cs : List Elem)
    (m : CategoryM) (hocc : OccursN (F := F) pr m.render cs) (rd : RegisterDescription) (stF : St F)
    (h : parseDocument pr (.node cs!"RegisterDescription" attrs cs) = .ok (rd, stF)) :
    ∃ s1 : St F, findName m.attr.name stF.names = some (specCategory m s1).1.attr.id ∧
      Stored stF (specCategory m s1).1.attr.id (.category (specCategory m s1).1) :=
  retrievable_amid_noise pr hdev attrs cs _ m.attr.name (fun st => .category (specCategory m st).1) _
    (parse_render_Category pr m) (fun _ => rfl) (grows_specCategory m) hocc rd stF h

theorem retrievable_IntReg_amid_noise (pr : Profile) (hdev : pr.debugAsserts = true)
    (attrs : List (Str × Str)) (cs : List Elem)
    (m : IntRegM) (hocc : OccursN (F := F) pr m.render cs) (rd : RegisterDescription) (stF : St F)
    (h : parseDocument pr (.node cs!"RegisterDescription" attrs cs) = .ok (rd, stF)) :
    ∃ s1 : St F, findName m.attr.name stF.names = some (specIntReg m s1).1.attr.id ∧
      Stored stF (specIntReg m s1).1.attr.id (.intReg (specIntReg m s1).1) :=
  retrievable_amid_noise pr hdev attrs cs _ m.attr.name (fun st => .intReg (specIntReg m st).1) _
    (parse_render_IntReg pr m) (fun _ => rfl) (grows_specIntReg m) hocc rd stF h

theorem retrievable_MaskedIntReg_amid_noise (pr : Profile) (hdev : pr.debugAsserts = true)
    (attrs : List (Str × Str)) (cs : List Elem)
    (m : MaskedM) (hocc : OccursN (F := F) pr m.render cs) (rd : RegisterDescription) (stF : St F)
    (h : parseDocument pr (.node cs!"RegisterDescription" attrs cs) = .ok (rd, stF)) :
    ∃ s1 : St F, findName m.attr.name stF.names = some (specMasked m s1).1.attr.id ∧
      Stored stF (specMasked m s1).1.attr.id (.maskedIntReg (specMasked m s1).1) :=
  retrievable_amid_noise pr hdev attrs cs _ m.attr.name (fun st => .maskedIntReg (specMasked m st).1) _
    (parse_render_MaskedIntReg pr m) (fun _ => rfl) (grows_specMasked m) hocc rd stF h

theorem retrievable_Boolean_amid_noise (pr : Profile) (hdev : pr.debugAsserts = true)
    (attrs : List (Str × Str)) (cs : List Elem)
    (m : BooleanM) (hocc : OccursN (F := F) pr m.render cs) (rd : RegisterDescription) (stF : St F)
    (h : parseDocument pr (.node cs!"RegisterDescription" attrs cs) = .ok (rd, stF)) :
    ∃ s1 : St F, findName m.attr.name stF.names = some (specBoolean m s1).1.attr.id ∧
      Stored stF (specBoolean m s1).1.attr.id (.boolean (specBoolean m s1).1) :=
  retrievable_amid_noise pr hdev attrs cs _ m.attr.name (fun st => .boolean (specBoolean m st).1) _
    (parse_render_Boolean pr m) (fun st => by simp only [NodeData.attr, specBoolean]; split <;> rfl) (grows_specBoolean m) hocc rd stF h

theorem retrievable_Command_amid_noise (pr : Profile) (hdev : pr.debugAsserts = true)
    (attrs : List (Str × Str)) (cs : List Elem)
    (m : CommandM) (hocc : OccursN (F := F) pr m.render cs) (rd : RegisterDescription) (stF : St F)
    (h : parseDocument pr (.node cs!"RegisterDescription" attrs cs) = .ok (rd, stF)) :
    ∃ s1 : St F, findName m.attr.name stF.names = some (specCommand m s1).1.attr.id ∧
      Stored stF (specCommand m s1).1.attr.id (.command (specCommand m s1).1) :=
  retrievable_amid_noise pr hdev attrs cs _ m.attr.name (fun st => .command (specCommand m st).1) _
    (parse_render_Command pr m) (fun _ => rfl) (grows_specCommand m) hocc rd stF h

theorem retrievable_Float_amid_noise (pr : Profile) (hdev : pr.debugAsserts = true)
    (attrs : List (Str × Str)) (cs : List Elem)
    (m : FloatM F) (hocc : OccursN (F := F) pr m.render cs) (rd : RegisterDescription) (stF : St F)
    (h : parseDocument pr (.node cs!"RegisterDescription" attrs cs) = .ok (rd, stF)) :
    ∃ s1 : St F, findName m.attr.name stF.names = some (specFloat m s1).1.attr.id ∧
      Stored stF (specFloat m s1).1.attr.id (.float (specFloat m s1).1) :=
  retrievable_amid_noise pr hdev attrs cs _ m.attr.name (fun st => .float (specFloat m st).1) _
    (parse_render_Float pr m) (fun _ => rfl) (grows_specFloat m) hocc rd stF h

theorem retrievable_FloatReg_amid_noise (pr : Profile) (hdev : pr.debugAsserts = true)
    (attrs : List (Str × Str)) (cs : List Elem)
    (m : FloatRegM) (hocc : OccursN (F := F) pr m.render cs) (rd : RegisterDescription) (stF : St F)
    (h : parseDocument pr (.node cs!"RegisterDescription" attrs cs) = .ok (rd, stF)) :
    ∃ s1 : St F, findName m.attr.name stF.names = some (specFloatReg m s1).1.attr.id ∧
      Stored stF (specFloatReg m s1).1.attr.id (.floatReg (specFloatReg m s1).1) :=
  retrievable_amid_noise pr hdev attrs cs _ m.attr.name (fun st => .floatReg (specFloatReg m st).1) _
    (parse_render_FloatReg pr m) (fun _ => rfl) (grows_specFloatReg m) hocc rd stF h

theorem retrievable_String_amid_noise (pr : Profile) (hdev : pr.debugAsserts = true)
    (attrs : List (Str × Str)) (cs : List Elem)
    (m : StringM) (hocc : OccursN (F := F) pr m.render cs) (rd : RegisterDescription) (stF : St F)
    (h : parseDocument pr (.node cs!"RegisterDescription" attrs cs) = .ok (rd, stF)) :
    ∃ s1 : St F, findName m.attr.name stF.names = some (specString m s1).1.attr.id ∧
      Stored stF (specString m s1).1.attr.id (.string (specString m s1).1) :=
  retrievable_amid_noise pr hdev attrs cs _ m.attr.name (fun st => .string (specString m st).1) _
    (parse_render_String pr m) (fun _ => rfl) (grows_specString m) hocc rd stF h

theorem retrievable_StringReg_amid_noise (pr : Profile) (hdev : pr.debugAsserts = true)
    (attrs : List (Str × Str)) (cs : List Elem)
    (m : PlainRegM) (hocc : OccursN (F := F) pr (m.render cs!"StringReg") cs) (rd : RegisterDescription) (stF : St F)
    (h : parseDocument pr (.node cs!"RegisterDescription" attrs cs) = .ok (rd, stF)) :
    ∃ s1 : St F, findName m.attr.name stF.names = some (specPlainReg m s1).1.attr.id ∧
      Stored stF (specPlainReg m s1).1.attr.id (.stringReg (specPlainReg m s1).1) :=
  retrievable_amid_noise pr hdev attrs cs _ m.attr.name (fun st => .stringReg (specPlainReg m st).1) _
    (parse_render_StringReg pr m) (fun _ => rfl) (grows_specPlainReg m) hocc rd stF h

theorem retrievable_Register_amid_noise (pr : Profile) (hdev : pr.debugAsserts = true)
    (attrs : List (Str × Str)) (cs : List Elem)
    (m : PlainRegM) (hocc : OccursN (F := F) pr (m.render cs!"Register") cs) (rd : RegisterDescription) (stF : St F)
    (h : parseDocument pr (.node cs!"RegisterDescription" attrs cs) = .ok (rd, stF)) :
    ∃ s1 : St F, findName m.attr.name stF.names = some (specPlainReg m s1).1.attr.id ∧
      Stored stF (specPlainReg m s1).1.attr.id (.register (specPlainReg m s1).1) :=
  retrievable_amid_noise pr hdev attrs cs _ m.attr.name (fun st => .register (specPlainReg m st).1) _
    (parse_render_Register pr m) (fun _ => rfl) (grows_specPlainReg m) hocc rd stF h

theorem retrievable_Port_amid_noise (pr : Profile) (hdev : pr.debugAsserts = true)
    (attrs : List (Str × Str)) (cs : List Elem)
    (m : PortM) (hocc : OccursN (F := F) pr m.render cs) (rd : RegisterDescription) (stF : St F)
    (h : parseDocument pr (.node cs!"RegisterDescription" attrs cs) = .ok (rd, stF)) :
    ∃ s1 : St F, findName m.attr.name stF.names = some (specPort m s1).1.attr.id ∧
      Stored stF (specPort m s1).1.attr.id (.port (specPort m s1).1) :=
  retrievable_amid_noise pr hdev attrs cs _ m.attr.name (fun st => .port (specPort m st).1) _
    (parse_render_Port pr m) (fun _ => rfl) (grows_specPort m) hocc rd stF h

theorem retrievable_Converter_amid_noise (pr : Profile) (hdev : pr.debugAsserts = true)
    (attrs : List (Str × Str)) (cs : List Elem)
    (m : ConverterM F) (hocc : OccursN (F := F) pr m.render cs) (rd : RegisterDescription) (stF : St F)
    (h : parseDocument pr (.node cs!"RegisterDescription" attrs cs) = .ok (rd, stF)) :
    ∃ s1 : St F, findName m.attr.name stF.names = some (specConverter m s1).1.attr.id ∧
      Stored stF (specConverter m s1).1.attr.id (.converter (specConverter m s1).1) :=
  retrievable_amid_noise pr hdev attrs cs _ m.attr.name (fun st => .converter (specConverter m st).1) _
    (parse_render_Converter pr m) (fun _ => rfl) (grows_specConverter m) hocc rd stF h

theorem retrievable_IntConverter_amid_noise (pr : Profile) (hdev : pr.debugAsserts = true)
    (attrs : List (Str × Str)) (cs : List Elem)
    (m : IntConverterM F) (hocc : OccursN (F := F) pr m.render cs) (rd : RegisterDescription) (stF : St F)
    (h : parseDocument pr (.node cs!"RegisterDescription" attrs cs) = .ok (rd, stF)) :
    ∃ s1 : St F, findName m.attr.name stF.names = some (specIntConverter m s1).1.attr.id ∧
      Stored stF (specIntConverter m s1).1.attr.id (.intConverter (specIntConverter m s1).1) :=
  retrievable_amid_noise pr hdev attrs cs _ m.attr.name (fun st => .intConverter (specIntConverter m st).1) _
    (parse_render_IntConverter pr m) (fun _ => rfl) (grows_specIntConverter m) hocc rd stF h

theorem retrievable_SwissKnife_amid_noise (pr : Profile) (hdev : pr.debugAsserts = true)
    (attrs : List (Str × Str)) (cs : List Elem)
    (m : SwissKnifeM F) (hocc : OccursN (F := F) pr m.render cs) (rd : RegisterDescription) (stF : St F)
    (h : parseDocument pr (.node cs!"RegisterDescription" attrs cs) = .ok (rd, stF)) :
    ∃ s1 : St F, findName m.attr.name stF.names = some (specSwissKnife m s1).1.attr.id ∧
      Stored stF (specSwissKnife m s1).1.attr.id (.swissKnife (specSwissKnife m s1).1) :=
  retrievable_amid_noise pr hdev attrs cs _ m.attr.name (fun st => .swissKnife (specSwissKnife m st).1) _
    (parse_render_SwissKnife pr m) (fun _ => rfl) (grows_specSwissKnife m) hocc rd stF h

theorem retrievable_IntSwissKnife_amid_noise (pr : Profile) (hdev : pr.debugAsserts = true)
    (attrs : List (Str × Str)) (cs : List Elem)
    (m : IntSwissKnifeM F) (hocc : OccursN (F := F) pr m.render cs) (rd : RegisterDescription) (stF : St F)
    (h : parseDocument pr (.node cs!"RegisterDescription" attrs cs) = .ok (rd, stF)) :
    ∃ s1 : St F, findName m.attr.name stF.names = some (specIntSwissKnife m s1).1.attr.id ∧
      Stored stF (specIntSwissKnife m s1).1.attr.id (.intSwissKnife (specIntSwissKnife m s1).1) :=
  retrievable_amid_noise pr hdev attrs cs _ m.attr.name (fun st => .intSwissKnife (specIntSwissKnife m st).1) _
    (parse_render_IntSwissKnife pr m) (fun _ => rfl) (grows_specIntSwissKnife m) hocc rd stF h

/-- a `StructReg` at any Group depth: every entry is found by name as a `MaskedIntReg` -/
theorem retrievable_StructReg_entries_amid_noise (pr : Profile) (hdev : pr.debugAsserts = true)
    (attrs : List (Str × Str)) (cs : List Elem) (s : StructM)
    (hocc : OccursN (F := F) pr s.render cs) (rd : RegisterDescription) (stF : St F)
    (h : parseDocument pr (.node cs!"RegisterDescription" attrs cs) = .ok (rd, stF)) :
    ∃ s1 : St F, ∀ n ∈ (specStruct s s1).1, Stored stF n.attr.id (.maskedIntReg n) ∧
      ∃ e ∈ s.entries, findName e.attr.name stF.names = some n.attr.id := by
  obtain ⟨s1, de, sE, g1, g2, g3⟩ := occursN_stored pr hdev _ cs hocc St.empty stF
    (document_ok_noise pr attrs cs rd stF h).2
  rw [parse_render_StructReg pr s s1] at g1
  simp only [Res.ok.injEq, Prod.mk.injEq] at g1
  obtain ⟨rfl, rfl⟩ := g1
  refine ⟨s1, fun n hn => ⟨g3 (.maskedIntReg n) (List.mem_map.mpr ⟨n, hn, rfl⟩), ?_⟩⟩
  obtain ⟨e, he, si, _, e2, e3⟩ := specStruct_names s s1 n hn
  refine ⟨e, he, ?_⟩
  rw [e2]
  exact idByName_of_le e.attr.name si stF (St.le_trans e3.1 g2.1)

/-- an `Enumeration` at any Group depth, and through it every `EnumEntry` -/
theorem retrievable_Enumeration_amid_noise (pr : Profile) (hdev : pr.debugAsserts = true)
    (attrs : List (Str × Str)) (cs : List Elem) (m : EnumerationM F) (hocc : OccursN (F := F) pr m.render cs) (rd : RegisterDescription) (stF : St F)
    (h : parseDocument pr (.node cs!"RegisterDescription" attrs cs) = .ok (rd, stF)) :
    ∃ n : EnumerationNode, findName m.attr.name stF.names = some n.attr.id ∧
      Stored stF n.attr.id (.enumeration n) ∧ EntriesStored stF m.entries n.entries := by
  obtain ⟨s1, de, sE, g1, g2, g3⟩ := occursN_stored pr hdev _ cs hocc St.empty stF
    (document_ok_noise pr attrs cs rd stF h).2
  rw [parse_render_Enumeration pr m s1] at g1
  cases hs : specEnumeration pr m s1 with
  | ok r =>
    rw [hs] at g1
    simp only [Res.bind_ok', Res.ok.injEq, Prod.mk.injEq] at g1
    obtain ⟨rfl, rfl⟩ := g1
    obtain ⟨e1, k, e3⟩ := specEnumeration_dev pr hdev m s1 r.1 r.2 (by rw [hs])
    refine ⟨r.1, ?_, g3 (.enumeration r.1) (by simp), EntriesStored.keeps g2 _ _ e3⟩
    rw [e1]
    exact idByName_of_le m.attr.name s1 stF (St.le_trans k.1 g2.1)
  | err x => rw [hs] at g1; cases g1
  | panic => rw [hs] at g1; cases g1

/-! ## registers whose address list embeds IntSwissKnife declarations

`RegK` extends the register base's abstract syntax by embedded `<IntSwissKnife Name=…>`
address particles.  The parser parses such a knife like a top-level IntSwissKnife, stores it and
lets the address list refer to its id; because of the `store_node` the normal forms are
`Res`-valued (with debug assertions a knife whose id already holds a node panics). -/

/-- `reg_base` with embedded knives: all presence patterns, all five address particle kinds in
any order and number -/
theorem reg_base_embedded (pr : Profile) (m : RegK F) (rest : List Seg) (st : St F)
    (h : noneStart regTags rest = true) :
    pRegBase pr (flat (m.segs ++ rest)) st =
      (specRegK pr m st).bind fun r => .ok (r.1, flat rest, r.2) :=
  pRegBase_segsK pr m rest st h

/-- it generalises `reg_base`: without knives the normal form is the total `specReg`, no panic -/
theorem reg_base_embedded_knife_free (pr : Profile) (m : RegM) (st : St F) :
    specRegK pr (m.toK (F := F)) st = .ok (specReg m st) := specRegK_toK pr m st

/-- parsing `e` stores the embedded knife `k` (as its normal form, under the id of its name) -/
def Embeds (pr : Profile) (e : Elem) (k : IntSwissKnifeM F) : Prop :=
  ∀ (st : St F) ds st', parseElem pr e st = .ok (ds, st') → KnifeStored st' k

/-- the parsed register base refers to every embedded knife by its id -/
theorem reg_base_embedded_refers (pr : Profile) (hdev : pr.debugAsserts = true) (m : RegK F)
    (st : St F) (r : RegBase) (st' : St F) (h : specRegK pr m st = .ok (r, st'))
    (k : IntSwissKnifeM F) (hk : AddrK.knife k ∈ m.addrs) :
    KnifeStored st' k ∧
      ∃ s : St F, AddressKind.intSwissKnife (specIntSwissKnife k s).1.attr.id ∈ r.addressKinds :=
  (specRegK_dev pr hdev m st r st' h).2 k hk

theorem parse_render_IntReg_embedded (pr : Profile) (m : IntRegK F) (st : St F) :
    parseElem pr m.render st = (specIntRegK pr m st).bind fun r => .ok ([.intReg r.1], r.2) := by
  simp only [parseElem, IntRegK.render, pNodeDatas]
  simp [P.bind_def, pIntRegK_render]
  cases specIntRegK pr m st <;> simp [pure_apply]

/-- debug assertions on: a successful parse of the register keeps the store and has stored every
embedded knife as its normal form -/
theorem embedded_IntReg_dev (pr : Profile) (hdev : pr.debugAsserts = true) (m : IntRegK F) :
    Good (F := F) pr m.render ∧ ∀ k, AddrK.knife k ∈ m.reg.addrs → Embeds (F := F) pr m.render k := by
  have key : ∀ (st : St F) ds st', parseElem pr m.render st = .ok (ds, st') →
      Keeps st st' ∧ ∀ k, AddrK.knife k ∈ m.reg.addrs → KnifeStored st' k := by
    intro st ds st' h
    rw [parse_render_IntReg_embedded pr m st] at h
    cases hs : specIntRegK pr m st with
    | ok r =>
      rw [hs] at h
      simp only [Res.bind_ok', Res.ok.injEq, Prod.mk.injEq] at h
      obtain ⟨_, rfl⟩ := h
      simp only [specIntRegK] at hs
      cases hr : specRegK pr m.reg (specAttr m.attr st).2 with
      | ok rr =>
        rw [hr] at hs
        simp only [Res.bind_ok', Res.ok.injEq] at hs
        obtain ⟨k1, f1⟩ := specRegK_dev pr hdev m.reg _ rr.1 rr.2 (by rw [hr])
        have k0 : Keeps st (specAttr m.attr st).2 := (grows_specAttr m.attr (Grows.refl st)).keeps
        have k2 : Keeps rr.2 r.2 := by
          rw [← hs]
          exact (grows_invalS _ _ (grows_listS growsF_internS _ (Grows.refl rr.2))).keeps
        exact ⟨(k0.trans k1).trans k2, fun k hk => (f1 k hk).1.keeps k2⟩
      | err x => rw [hr] at hs; cases hs
      | panic => rw [hr] at hs; cases hs
    | err x => rw [hs] at h; cases h
    | panic => rw [hs] at h; cases h
  exact ⟨fun st ds st' h => (key st ds st' h).1, fun k hk st ds st' h => (key st ds st' h).2 k hk⟩

theorem parse_render_MaskedIntReg_embedded (pr : Profile) (m : MaskedK F) (st : St F) :
    parseElem pr m.render st = (specMaskedK pr m st).bind fun r => .ok ([.maskedIntReg r.1], r.2) := by
  simp only [parseElem, MaskedK.render, pNodeDatas]
  simp [P.bind_def, pMaskedIntRegK_render]
  cases specMaskedK pr m st <;> simp [pure_apply]

/-- debug assertions on: a successful parse of the register keeps the store and has stored every
embedded knife as its normal form -/
theorem embedded_MaskedIntReg_dev (pr : Profile) (hdev : pr.debugAsserts = true) (m : MaskedK F) :
    Good (F := F) pr m.render ∧ ∀ k, AddrK.knife k ∈ m.reg.addrs → Embeds (F := F) pr m.render k := by
  have key : ∀ (st : St F) ds st', parseElem pr m.render st = .ok (ds, st') →
      Keeps st st' ∧ ∀ k, AddrK.knife k ∈ m.reg.addrs → KnifeStored st' k := by
    intro st ds st' h
    rw [parse_render_MaskedIntReg_embedded pr m st] at h
    cases hs : specMaskedK pr m st with
    | ok r =>
      rw [hs] at h
      simp only [Res.bind_ok', Res.ok.injEq, Prod.mk.injEq] at h
      obtain ⟨_, rfl⟩ := h
      simp only [specMaskedK] at hs
      cases hr : specRegK pr m.reg (specAttr m.attr st).2 with
      | ok rr =>
        rw [hr] at hs
        simp only [Res.bind_ok', Res.ok.injEq] at hs
        obtain ⟨k1, f1⟩ := specRegK_dev pr hdev m.reg _ rr.1 rr.2 (by rw [hr])
        have k0 : Keeps st (specAttr m.attr st).2 := (grows_specAttr m.attr (Grows.refl st)).keeps
        have k2 : Keeps rr.2 r.2 := by
          rw [← hs]
          exact (grows_invalS _ _ (grows_listS growsF_internS _ (Grows.refl rr.2))).keeps
        exact ⟨(k0.trans k1).trans k2, fun k hk => (f1 k hk).1.keeps k2⟩
      | err x => rw [hr] at hs; cases hs
      | panic => rw [hr] at hs; cases hs
    | err x => rw [hs] at h; cases h
    | panic => rw [hs] at h; cases h
  exact ⟨fun st ds st' h => (key st ds st' h).1, fun k hk st ds st' h => (key st ds st' h).2 k hk⟩

theorem parse_render_FloatReg_embedded (pr : Profile) (m : FloatRegK F) (st : St F) :
    parseElem pr m.render st = (specFloatRegK pr m st).bind fun r => .ok ([.floatReg r.1], r.2) := by
  simp only [parseElem, FloatRegK.render, pNodeDatas]
  simp [P.bind_def, pFloatRegK_render]
  cases specFloatRegK pr m st <;> simp [pure_apply]

/-- debug assertions on: a successful parse of the register keeps the store and has stored every
embedded knife as its normal form -/
theorem embedded_FloatReg_dev (pr : Profile) (hdev : pr.debugAsserts = true) (m : FloatRegK F) :
    Good (F := F) pr m.render ∧ ∀ k, AddrK.knife k ∈ m.reg.addrs → Embeds (F := F) pr m.render k := by
  have key : ∀ (st : St F) ds st', parseElem pr m.render st = .ok (ds, st') →
      Keeps st st' ∧ ∀ k, AddrK.knife k ∈ m.reg.addrs → KnifeStored st' k := by
    intro st ds st' h
    rw [parse_render_FloatReg_embedded pr m st] at h
    cases hs : specFloatRegK pr m st with
    | ok r =>
      rw [hs] at h
      simp only [Res.bind_ok', Res.ok.injEq, Prod.mk.injEq] at h
      obtain ⟨_, rfl⟩ := h
      simp only [specFloatRegK] at hs
      cases hr : specRegK pr m.reg (specAttr m.attr st).2 with
      | ok rr =>
        rw [hr] at hs
        simp only [Res.bind_ok', Res.ok.injEq] at hs
        obtain ⟨k1, f1⟩ := specRegK_dev pr hdev m.reg _ rr.1 rr.2 (by rw [hr])
        have k0 : Keeps st (specAttr m.attr st).2 := (grows_specAttr m.attr (Grows.refl st)).keeps
        have k2 : Keeps rr.2 r.2 := by
          rw [← hs]
          exact (grows_invalS _ _ (Grows.refl rr.2)).keeps
        exact ⟨(k0.trans k1).trans k2, fun k hk => (f1 k hk).1.keeps k2⟩
      | err x => rw [hr] at hs; cases hs
      | panic => rw [hr] at hs; cases hs
    | err x => rw [hs] at h; cases h
    | panic => rw [hs] at h; cases h
  exact ⟨fun st ds st' h => (key st ds st' h).1, fun k hk st ds st' h => (key st ds st' h).2 k hk⟩

theorem parse_render_StringReg_embedded (pr : Profile) (m : PlainRegK F) (st : St F) :
    parseElem pr (m.render cs!"StringReg") st = (specPlainRegK pr m st).bind fun r => .ok ([.stringReg r.1], r.2) := by
  simp only [parseElem, PlainRegK.render, pNodeDatas]
  simp [P.bind_def, pPlainRegK_render]
  cases specPlainRegK pr m st <;> simp [pure_apply]

/-- debug assertions on: a successful parse of the register keeps the store and has stored every
embedded knife as its normal form -/
theorem embedded_StringReg_dev (pr : Profile) (hdev : pr.debugAsserts = true) (m : PlainRegK F) :
    Good (F := F) pr (m.render cs!"StringReg") ∧ ∀ k, AddrK.knife k ∈ m.reg.addrs → Embeds (F := F) pr (m.render cs!"StringReg") k := by
  have key : ∀ (st : St F) ds st', parseElem pr (m.render cs!"StringReg") st = .ok (ds, st') →
      Keeps st st' ∧ ∀ k, AddrK.knife k ∈ m.reg.addrs → KnifeStored st' k := by
    intro st ds st' h
    rw [parse_render_StringReg_embedded pr m st] at h
    cases hs : specPlainRegK pr m st with
    | ok r =>
      rw [hs] at h
      simp only [Res.bind_ok', Res.ok.injEq, Prod.mk.injEq] at h
      obtain ⟨_, rfl⟩ := h
      simp only [specPlainRegK] at hs
      cases hr : specRegK pr m.reg (specAttr m.attr st).2 with
      | ok rr =>
        rw [hr] at hs
        simp only [Res.bind_ok', Res.ok.injEq] at hs
        obtain ⟨k1, f1⟩ := specRegK_dev pr hdev m.reg _ rr.1 rr.2 (by rw [hr])
        have k0 : Keeps st (specAttr m.attr st).2 := (grows_specAttr m.attr (Grows.refl st)).keeps
        have k2 : Keeps rr.2 r.2 := by
          rw [← hs]
          exact (grows_invalS _ _ (Grows.refl rr.2)).keeps
        exact ⟨(k0.trans k1).trans k2, fun k hk => (f1 k hk).1.keeps k2⟩
      | err x => rw [hr] at hs; cases hs
      | panic => rw [hr] at hs; cases hs
    | err x => rw [hs] at h; cases h
    | panic => rw [hs] at h; cases h
  exact ⟨fun st ds st' h => (key st ds st' h).1, fun k hk st ds st' h => (key st ds st' h).2 k hk⟩

theorem parse_render_Register_embedded (pr : Profile) (m : PlainRegK F) (st : St F) :
    parseElem pr (m.render cs!"Register") st = (specPlainRegK pr m st).bind fun r => .ok ([.register r.1], r.2) := by
  simp only [parseElem, PlainRegK.render, pNodeDatas]
  simp [P.bind_def, pPlainRegK_render]
  cases specPlainRegK pr m st <;> simp [pure_apply]

/-- debug assertions on: a successful parse of the register keeps the store and has stored every
embedded knife as its normal form -/
theorem embedded_Register_dev (pr : Profile) (hdev : pr.debugAsserts = true) (m : PlainRegK F) :
    Good (F := F) pr (m.render cs!"Register") ∧ ∀ k, AddrK.knife k ∈ m.reg.addrs → Embeds (F := F) pr (m.render cs!"Register") k := by
  have key : ∀ (st : St F) ds st', parseElem pr (m.render cs!"Register") st = .ok (ds, st') →
      Keeps st st' ∧ ∀ k, AddrK.knife k ∈ m.reg.addrs → KnifeStored st' k := by
    intro st ds st' h
    rw [parse_render_Register_embedded pr m st] at h
    cases hs : specPlainRegK pr m st with
    | ok r =>
      rw [hs] at h
      simp only [Res.bind_ok', Res.ok.injEq, Prod.mk.injEq] at h
      obtain ⟨_, rfl⟩ := h
      simp only [specPlainRegK] at hs
      cases hr : specRegK pr m.reg (specAttr m.attr st).2 with
      | ok rr =>
        rw [hr] at hs
        simp only [Res.bind_ok', Res.ok.injEq] at hs
        obtain ⟨k1, f1⟩ := specRegK_dev pr hdev m.reg _ rr.1 rr.2 (by rw [hr])
        have k0 : Keeps st (specAttr m.attr st).2 := (grows_specAttr m.attr (Grows.refl st)).keeps
        have k2 : Keeps rr.2 r.2 := by
          rw [← hs]
          exact (grows_invalS _ _ (Grows.refl rr.2)).keeps
        exact ⟨(k0.trans k1).trans k2, fun k hk => (f1 k hk).1.keeps k2⟩
      | err x => rw [hr] at hs; cases hs
      | panic => rw [hr] at hs; cases hs
    | err x => rw [hs] at h; cases h
    | panic => rw [hs] at h; cases h
  exact ⟨fun st ds st' h => (key st ds st' h).1, fun k hk st ds st' h => (key st ds st' h).2 k hk⟩

/-! ### StructReg whose own address list embeds IntSwissKnife declarations -/

/-- `StructReg` over the extended register base: one `MaskedIntReg` per entry merged with the
parsed register base (which refers to the embedded knives by id); a stored-twice panic of an
embedded knife propagates -/
theorem parse_render_StructReg_embedded (pr : Profile) (m : StructK F) (st : St F) :
    parseElem pr m.render st =
      (specStructK pr m st).bind fun r => .ok (r.1.map .maskedIntReg, r.2) := by
  simp only [parseElem, StructK.render, pNodeDatas]
  simp [P.bind_def, pStructRegK_children, specStructK]
  cases specRegK pr m.reg st <;> simp [intoMaskedIntRegs_eq, pure_apply]

/-- it generalises `parse_render_StructReg`: without knives the normal form is `specStruct` -/
theorem struct_embedded_knife_free (pr : Profile) (m : StructM) (st : St F) :
    specStructK pr (m.toK (F := F)) st = .ok (specStruct m st) := by
  simp [specStructK, StructM.toK, specRegK_toK, specStruct]

/-- debug assertions on: a successful parse of the StructReg keeps the store and has stored every
embedded knife as its normal form -/
theorem embedded_StructReg_dev (pr : Profile) (hdev : pr.debugAsserts = true) (m : StructK F) :
    Good (F := F) pr m.render ∧ ∀ k, AddrK.knife k ∈ m.reg.addrs → Embeds (F := F) pr m.render k := by
  have key : ∀ (st : St F) ds st', parseElem pr m.render st = .ok (ds, st') →
      Keeps st st' ∧ ∀ k, AddrK.knife k ∈ m.reg.addrs → KnifeStored st' k := by
    intro st ds st' h
    rw [parse_render_StructReg_embedded pr m st] at h
    cases hs : specStructK pr m st with
    | ok r =>
      rw [hs] at h
      simp only [Res.bind_ok', Res.ok.injEq, Prod.mk.injEq] at h
      obtain ⟨_, rfl⟩ := h
      simp only [specStructK] at hs
      cases hr : specRegK pr m.reg st with
      | ok rr =>
        rw [hr] at hs
        simp only [Res.bind_ok', Res.ok.injEq] at hs
        obtain ⟨k1, f1⟩ := specRegK_dev pr hdev m.reg _ rr.1 rr.2 (by rw [hr])
        have k2 : Keeps rr.2 r.2 := by
          rw [← hs]
          exact (grows_maskedOfEntries _ _ _
            (grows_listS growsF_specEntry _ (Grows.refl rr.2))).keeps
        exact ⟨k1.trans k2, fun k hk => (f1 k hk).1.keeps k2⟩
      | err x => rw [hr] at hs; cases hs
      | panic => rw [hr] at hs; cases hs
    | err x => rw [hs] at h; cases h
    | panic => rw [hs] at h; cases h
  exact ⟨fun st ds st' h => (key st ds st' h).1, fun k hk st ds st' h => (key st ds st' h).2 k hk⟩

/-- every merged node of a successfully parsed `StructK` carries the id of its entry's name,
interned in a state the final one extends -/
theorem specStructK_names (pr : Profile) (s : StructK F) (st : St F)
    (r : List MaskedIntRegNode × St F) (h : specStructK pr s st = .ok r) :
    ∀ n ∈ r.1, ∃ e ∈ s.entries, ∃ si : St F,
      n.attr.id = (internS e.attr.name si).1 ∧ Grows (internS e.attr.name si).2 r.2 := by
  intro n hn
  simp only [specStructK] at h
  cases hr : specRegK pr s.reg st with
  | ok rr =>
    rw [hr] at h
    simp only [Res.bind_ok', Res.ok.injEq] at h
    subst h
    simp only [maskedOfEntries_fst, List.mem_map] at hn
    obtain ⟨y, hy, rfl⟩ := hn
    obtain ⟨e, he, si, _, h2, h3⟩ := listS_mem growsF_specEntry s.entries rr.2 y hy
    refine ⟨e, he, si, by rw [h2]; rfl, ?_⟩
    have h4 : Grows (internS e.attr.name si).2 (specEntry e si).2 :=
      grows_listS growsF_internS _ (grows_specElem _ _ (Grows.refl _))
    exact (h4.trans h3).trans (grows_maskedOfEntries _ _ _ (Grows.refl _))
  | err x => rw [hr] at h; cases h
  | panic => rw [hr] at h; cases h

/-- a `StructReg` with embedded knives at any Group depth: every entry is found by name as a
`MaskedIntReg` (and, by `retrievable_embedded_IntSwissKnife` with `embedded_StructReg_dev`, every
embedded knife as an IntSwissKnife) -/
theorem retrievable_StructReg_entries_embedded (pr : Profile) (hdev : pr.debugAsserts = true)
    (es : List Elem) (s : StructK F) (hocc : Occurs (F := F) pr s.render es) (st stF : St F)
    (h : topLevel pr es st = .ok stF) :
    ∃ (s1 : St F) (r : List MaskedIntRegNode × St F), specStructK pr s s1 = .ok r ∧
      ∀ n ∈ r.1, Stored stF n.attr.id (.maskedIntReg n) ∧
        ∃ e ∈ s.entries, findName e.attr.name stF.names = some n.attr.id := by
  obtain ⟨s1, de, sE, g1, g2, g3⟩ := occurs_stored pr hdev _ es hocc st stF h
  rw [parse_render_StructReg_embedded pr s s1] at g1
  cases hs : specStructK pr s s1 with
  | ok r =>
    rw [hs] at g1
    simp only [Res.bind_ok', Res.ok.injEq, Prod.mk.injEq] at g1
    obtain ⟨rfl, rfl⟩ := g1
    refine ⟨s1, r, hs, fun n hn => ⟨g3 (.maskedIntReg n) (List.mem_map.mpr ⟨n, hn, rfl⟩), ?_⟩⟩
    obtain ⟨e, he, si, e2, e3⟩ := specStructK_names pr s s1 r hs n hn
    refine ⟨e, he, ?_⟩
    rw [e2]
    exact idByName_of_le e.attr.name si stF (St.le_trans e3.1 g2.1)
  | err x => rw [hs] at g1; cases g1
  | panic => rw [hs] at g1; cases g1

/-- `retrievable_embedded_IntSwissKnife`: an IntSwissKnife embedded in the address list of a
register that stands at ANY Group depth of a successfully parsed document is found in the FINAL
store by its name, as an IntSwissKnife node, as its whole normal form. -/
theorem retrievable_embedded_IntSwissKnife (pr : Profile) (hdev : pr.debugAsserts = true)
    (es : List Elem) (e : Elem) (k : IntSwissKnifeM F) (hemb : Embeds (F := F) pr e k)
    (hocc : Occurs (F := F) pr e es) (st stF : St F) (h : topLevel pr es st = .ok stF) :
    ∃ s : St F, findName k.attr.name stF.names = some (specIntSwissKnife k s).1.attr.id ∧
      Stored stF (specIntSwissKnife k s).1.attr.id (.intSwissKnife (specIntSwissKnife k s).1) := by
  obtain ⟨s1, de, s2, g1, g2, _⟩ := occurs_stored pr hdev e es hocc st stF h
  obtain ⟨s, f1, f2, f3⟩ := (hemb s1 de s2 g1).keeps g2
  refine ⟨s, ?_, f1⟩
  rw [f2]
  exact idByName_of_le k.attr.name s stF f3

/-- … the same amid noise: whole `parser::parse` of a document whose root and Groups carry arbitrary
comments / processing instructions / whitespace between their children -/
theorem retrievable_embedded_IntSwissKnife_amid_noise (pr : Profile) (hdev : pr.debugAsserts = true)
    (attrs : List (Str × Str)) (cs : List Elem) (e : Elem) (k : IntSwissKnifeM F)
    (hemb : Embeds (F := F) pr e k) (hocc : OccursN (F := F) pr e cs)
    (rd : RegisterDescription) (stF : St F)
    (h : parseDocument pr (.node cs!"RegisterDescription" attrs cs) = .ok (rd, stF)) :
    ∃ s : St F, findName k.attr.name stF.names = some (specIntSwissKnife k s).1.attr.id ∧
      Stored stF (specIntSwissKnife k s).1.attr.id (.intSwissKnife (specIntSwissKnife k s).1) := by
  have htop := (document_ok_noise pr attrs cs rd stF h).2
  obtain ⟨s1, de, s2, g1, g2, _⟩ := occursN_stored pr hdev e cs hocc St.empty stF htop
  obtain ⟨s, f1, f2, f3⟩ := (hemb s1 de s2 g1).keeps g2
  refine ⟨s, ?_, f1⟩
  rw [f2]
  exact idByName_of_le k.attr.name s stF f3

/-! ## every declared immediate owns its value-store cell -/

/-- `ValueStoreBuilder::store` as the parser uses it: the value store is a list of independent
cells, one per declared immediate in document order.  Every store opens a NEW cell — its id
differs from every id handed out before, whatever the values (equal values included) — and the
earlier cell keeps its value. -/
theorem immediates_own_cells (v w : Value F) (st st' : St F) (h : Grows (storeS v st).2 st') :
    (storeS v st).1 < (storeS w st').1 ∧
      (storeS w st').2.values[(storeS v st).1]? = some v ∧
      (storeS w st').2.values[(storeS w st').1]? = some w :=
  storeS_fresh_cell v w st st' h

/-- Two `String` nodes declaring immediate `<Value>`s — equal texts included — anywhere in a
document (any declarations in between that only grow the builder state): they hold different
value ids, and both cells hold the declared texts. -/
theorem string_immediates_do_not_alias (m1 m2 : StringM) (s1 s2 : Str)
    (h1 : m1.value = .imm s1) (h2 : m2.value = .imm s2) (st st' : St F)
    (h : Grows (specString m1 st).2 st') :
    ∃ i1 i2, (specString m1 st).1.value = .imm i1 ∧ (specString m2 st').1.value = .imm i2 ∧
      i1 < i2 ∧ (specString m2 st').2.values[i1]? = some (.str s1) ∧
      (specString m2 st').2.values[i2]? = some (.str s2) := by
  have hg : Grows (storeS (Value.str s1) (specElem m1.elem [] (specAttr m1.attr st).2).2).2
      (specElem m2.elem [] (specAttr m2.attr st').2).2 := by
    have : (specString m1 st).2 =
        (storeS (Value.str s1) (specElem m1.elem [] (specAttr m1.attr st).2).2).2 := by
      simp [specString, h1]
    rw [← this]
    exact h.trans (grows_specElem _ _ (grows_specAttr _ (Grows.refl st')))
  obtain ⟨f1, f2, f3⟩ := storeS_fresh_cell (Value.str s1) (Value.str s2) _ _ hg
  refine ⟨_, _, by simp [specString, h1], by simp [specString, h2], f1, ?_, ?_⟩
  · simpa [specString, h2] using f2
  · simpa [specString, h2] using f3

section Literals
omit [TextFrag]

/-! ## literals -/

/-- whatever `convert_to_int` accepts is taken as an immediate by the `ImmOrPNode` sniffing -/
theorem literals_int_is_immediate (s : Str) (v : Int) (h : convertToInt s = .ok v) :
    firstIsAlphabetic s = .ok false := convertToInt_first s v h

/-- decimal form: every `i64` value is read back exactly -/
theorem literals_dec (n : Int) (h1 : I64_MIN ≤ n) (h2 : n ≤ I64_MAX) :
    convertToInt (decInt n) = .ok n := by
  unfold decInt
  split
  · next hneg =>
    have hp := parseDigits_natDigits10 n.natAbs
    rw [convertToInt_noPrefix '-' _ (Or.inl (by decide))]
    have habs : (n.natAbs : Int) = -n := by omega
    simp only [parseI64, hp, habs]
    simp only [I64_MIN] at h1 ⊢
    simp [h1, ofOpt]
  · next hpos =>
    have habs : (n.natAbs : Int) = n := by omega
    have := convertToInt_natDigits n.natAbs (by rw [habs]; exact h2)
    rw [this, habs]

/-- `0x` / `0X` prefix with lower- or upper-case digits, over the whole 64-bit range: values up
to `i64::MAX` are read back exactly, values with bit 63 set (`0x8000000000000000` …
`0xFFFFFFFFFFFFFFFF`) as the 64-bit pattern (`u64 as i64`). -/
theorem literals_hex (upperPrefix upperDigits : Bool) (n : Nat) (h : n ≤ U64_MAX) :
    convertToInt (hexNat upperPrefix upperDigits n) = .ok (wrapI64 n) := by
  cases upperPrefix <;> simp [hexNat, convertToInt, hexToI64_natDigits upperDigits n h]

theorem literals_hex_small (upperPrefix upperDigits : Bool) (n : Nat) (h : (n : Int) ≤ I64_MAX) :
    convertToInt (hexNat upperPrefix upperDigits n) = .ok (n : Int) := by
  have hu : n ≤ U64_MAX := by simp only [I64_MAX, U64_MAX] at *; omega
  rw [literals_hex upperPrefix upperDigits n hu]
  simp [wrapI64, h]

/-- … with any number of leading zeros (`0x00000000000000FF`) -/
theorem literals_hex_leading_zeros (upperPrefix upperDigits : Bool) (k n : Nat) (h : n ≤ U64_MAX) :
    convertToInt ('0' :: (if upperPrefix then 'X' else 'x') ::
      (List.replicate k '0' ++ natDigits 16 upperDigits n)) = .ok (wrapI64 n) := by
  cases upperPrefix <;> simp [convertToInt, hexToI64_zeros upperDigits k n h]

/-- explicit `+` sign on decimal integers -/
theorem literals_plus_dec (n : Nat) (h : (n : Int) ≤ I64_MAX) :
    convertToInt ('+' :: natDigits 10 false n) = .ok (n : Int) := convertToInt_plus n h

theorem literals_uint_plus_dec (n : Nat) (h : n ≤ U64_MAX) :
    convertToUint ('+' :: natDigits 10 false n) = .ok n := convertToUint_plus n h

/-- decimal digits with leading zeros, unsigned / `+` / `-`: `010` is ten (never octal), `-007`
is minus seven — the lexical space `[+-]?[0-9]+` -/
theorem literals_dec_leading_zeros (k n : Nat) (h : (n : Int) ≤ I64_MAX) :
    convertToInt (List.replicate k '0' ++ natDigits 10 false n) = .ok (n : Int) ∧
    convertToInt ('+' :: (List.replicate k '0' ++ natDigits 10 false n)) = .ok (n : Int) :=
  ⟨convertToInt_zeros_dec k n h, convertToInt_plus_zeros_dec k n h⟩

theorem literals_neg_dec_leading_zeros (k n : Nat) (h : I64_MIN ≤ -(n : Int)) :
    convertToInt ('-' :: (List.replicate k '0' ++ natDigits 10 false n)) = .ok (-(n : Int)) :=
  convertToInt_minus_zeros_dec k n h

theorem literals_uint_dec_leading_zeros (k n : Nat) (h : n ≤ U64_MAX) :
    convertToUint (List.replicate k '0' ++ natDigits 10 false n) = .ok n :=
  convertToUint_zeros_dec k n h

/-- unsigned fields (`PollingTime`, `Bit`, `LSB`, `MSB`, version numbers): decimal form -/
theorem literals_uint_dec (n : Nat) (h : n ≤ U64_MAX) :
    convertToUint (natDigits 10 false n) = .ok n := convertToUint_natDigits n h

/-- … and hexadecimal forms, up to `u64::MAX` -/
theorem literals_uint_hex (upperPrefix upperDigits : Bool) (n : Nat) (h : n ≤ U64_MAX) :
    convertToUint (hexNat upperPrefix upperDigits n) = .ok n := by
  cases upperPrefix <;> simp [hexNat, convertToUint, parseU64_hex upperDigits n h, ofOpt]

/-- bare hexadecimal (`EventID`, `ChunkID`) -/
theorem literals_bare_hex (upperDigits : Bool) (n : Nat) (h : n ≤ U64_MAX) :
    parseU64 16 (natDigits 16 upperDigits n) = some n := parseU64_hex upperDigits n h

/-- the four boolean spellings, and nothing else -/
theorem literals_bool (s : Str) :
    convertToBoolOpt s =
      if s = cs!"Yes" ∨ s = cs!"true" then some true
      else if s = cs!"No" ∨ s = cs!"false" then some false else none := rfl

theorem literals_bool_forms :
    convertToBoolOpt cs!"Yes" = some true ∧ convertToBoolOpt cs!"true" = some true ∧
    convertToBoolOpt cs!"No" = some false ∧ convertToBoolOpt cs!"false" = some false := by
  decide

/-- float specials: `INF` and `-INF` are the infinities; every other text (incl. `NaN`) goes
unchanged to `str::parse::<f64>`; all three specials are immediates for the sniffing although
two start with a letter. -/
theorem literals_float_specials :
    convertToFloat (F := F) cs!"INF" = .ok FloatLit.inf ∧
    convertToFloat (F := F) cs!"-INF" = .ok FloatLit.negInf ∧
    (∀ s : Str, s ≠ cs!"INF" → s ≠ cs!"-INF" →
      convertToFloat (F := F) s = ofOpt (FloatLit.parse s)) := by
  refine ⟨rfl, rfl, ?_⟩
  intro s h1 h2
  simp [convertToFloat, h1, h2]

end Literals

/-! ## non-vacuity: concrete, non-trivial declarations the theorems apply to -/

section Examples

/-- the examples use the plain text layout (one text node) -/
local instance exFrag : TextFrag := TextFrag.single

/-- a float-free instance of the abstract float / formula syntax for the examples -/
local instance exLit : FloatLit Unit where
  inf := ()
  negInf := ()
  f64Min := ()
  f64Max := ()
  parse _ := some ()
  ofInt _ := ()
  formulaOk _ := true

def exHex : IntLit := ⟨cs!"0x1F", 31, by decide⟩
def exNeg : IntLit := ⟨cs!"-42", -42, by decide⟩
def exU : UintLit := ⟨cs!"0X10", 16, by decide⟩
def exYes : BoolLit := ⟨cs!"Yes", true, by decide⟩
def exRef : RefName := ⟨cs!"GainRaw", by decide, by decide, by decide, by decide⟩

def exAttr (n : Str) : AttrM :=
  ⟨n, some .standard, none, some exYes, [(cs!"Comment", cs!"c")], by decide⟩

def exElem : ElemM :=
  { extension := none, tooltip := some cs!"tip", description := none, displayName := some [],
    visibility := some .expert, docuUrl := none, isDeprecated := none,
    eventId := some ⟨cs!"9fA0", 40864, by decide⟩, pIsImplemented := some cs!"Impl",
    pIsAvailable := none, pIsLocked := some cs!"Lock", pBlockPolling := none,
    imposedAccessMode := some .ro, pErrors := [cs!"E1", cs!"E2"], pAlias := none,
    pCastAlias := some cs!"Cast" }

def exNoElem : ElemM :=
  { extension := none, tooltip := none, description := none, displayName := none,
    visibility := none, docuUrl := none, isDeprecated := none, eventId := none,
    pIsImplemented := none, pIsAvailable := none, pIsLocked := none, pBlockPolling := none,
    imposedAccessMode := none, pErrors := [], pAlias := none, pCastAlias := none }

/-- an Integer with hexadecimal `Value`, negative `Min`, `pMax` reference, defaults elsewhere -/
def exInteger : IntegerM :=
  { attr := exAttr cs!"Gain", elem := exElem, streamable := some exYes, value := .value exHex,
    min := some (.imm exNeg), max := some (.ref exRef), inc := none, unit := some cs!"dB",
    representation := some .ipV4, pSelected := [cs!"Sel"] }

example :
    (parseElem (F := Unit) Profile.dev exInteger.render St.empty).isOk = true := by
  rw [parse_render_Integer]; rfl

/-- the omitted `Inc` is the default 1, the declared `Min` is stored, `pMax` is a reference -/
example : (specInteger (F := Unit) exInteger St.empty).1.inc = .imm 1 := rfl
example : (specInteger (F := Unit) exInteger St.empty).1.representation = .ipV4 := rfl

/-- `elem_base` / `reg_base` hypotheses are satisfiable by real kind-specific children -/
example : noneStart elemTags
    [.opt cs!"Streamable" none, .one cs!"Value" (tb cs!"5"), .many cs!"pSelected" []] = true := by
  rfl
example : noneStart regTags
    [.opt cs!"Sign" none, .opt cs!"Endianess" none, .many cs!"pSelected" []] = true := by rfl

def exReg (inv : List Str) : RegM :=
  { elem := exElem, streamable := none,
    addrs := [.address exHex, .pAddress exRef, .pIndex (some (.inl exNeg)) cs!"Idx"],
    length := .imm ⟨cs!"4", 4, by decide⟩, accessMode := some .rw, pPort := cs!"Device",
    cacheable := some .noCache, pollingTime := some exU, pInvalidators := inv }

def exEntry (n : Str) (inv : List Str) (vis : Option Visibility) : EntryM :=
  { attr := exAttr n, elem := { exNoElem with visibility := vis }, pInvalidators := inv,
    accessMode := none, cacheable := some .writeThrough, pollingTime := none, streamable := none,
    bitMask := .range exU exU, sign := some .signed, unit := none, representation := none,
    pSelected := [] }

/-- a structure with an entry that overrides `pInvalidator` / `Visibility` (to the DEFAULT value
`Beginner`) / `Cachable` (to the default `WriteThrough`) and one that inherits everything -/
def exStruct : StructM :=
  { attrs := [(cs!"Comment", cs!"s")], reg := exReg [cs!"I0"], endianness := some .be,
    entries := [exEntry cs!"A" [cs!"I1", cs!"I2"] (some .beginner), exEntry cs!"B" [] none] }

example : (pureMasked (twin exStruct (exEntry cs!"A" [cs!"I1", cs!"I2"] (some .beginner)))).reg.pInvalidators
    = [cs!"I1", cs!"I2"] := rfl
example : (pureMasked (twin exStruct (exEntry cs!"B" [] none))).reg.pInvalidators = [cs!"I0"] := rfl
example : (pureMasked (twin exStruct (exEntry cs!"A" [] (some .beginner)))).reg.elemBase.visibility
    = .beginner := rfl
example : (pureMasked (twin exStruct (exEntry cs!"B" [] none))).reg.elemBase.visibility = .expert := rfl
example : (pureMasked (twin exStruct (exEntry cs!"A" [] none))).reg.cacheable = .writeThrough := rfl
example : (pureMasked (twin exStruct (exEntry cs!"B" [] none))).reg.elemBase.pErrors
    = [cs!"E1", cs!"E2"] := rfl

example : ∃ nodes stS, parseElem (F := Unit) Profile.dev exStruct.render St.empty
    = .ok (nodes, stS) ∧ nodes.length = 2 := by
  refine ⟨_, _, parse_render_StructReg _ _ _, ?_⟩
  simp [specStruct, maskedOfEntries_fst, exStruct, listS]

/-- `refs_resolve`: the hypothesis holds for the final state itself and any extension of it -/
example (m : MaskedM) : (specMasked (F := Unit) m St.empty).2.le (specMasked m St.empty).2 :=
  St.le_refl _

/-- `retrievable_*`: the side condition holds for a document of rendered declarations -/
example : ∀ x ∈ [exInteger.render, exStruct.render], Good (F := Unit) Profile.dev x := by
  intro x hx
  simp only [List.mem_cons, List.not_mem_nil, or_false] at hx
  rcases hx with rfl | rfl
  · exact good_Integer _ _
  · exact good_StructReg _ _

/-- … and the success hypothesis `topLevel … = .ok stF` of `retrievable_*` is satisfiable: this
two-declaration document (an Integer, a StructReg with two entries) parses and stores its
three nodes with debug assertions on -/
example : (topLevel (F := Unit) Profile.dev [exInteger.render, exStruct.render] St.empty).isOk
    = true := by
  simp only [topLevel, parse_render_Integer, parse_render_StructReg, Res.bind_ok']
  rfl

/-- `Occurs`: an Integer two Groups deep, next to a StructReg and a sibling Group -/
example : Occurs (F := Unit) Profile.dev exInteger.render
    [exStruct.render, .node cs!"Group" [] [.node cs!"Group" [(cs!"Comment", cs!"g")]
      [exStruct.render, exInteger.render]]] := by
  refine Occurs.inGroup [exStruct.render] [] _ _ ?_ ?_ ?_ ?_
  · intro x hx
    rcases hx with hx | hx
    · simp only [List.mem_cons, List.not_mem_nil, or_false] at hx
      subst hx; exact good_StructReg _ _
    · simp at hx
  · simp [AllElems]
  · intro x hx
    simp only [List.mem_cons, List.not_mem_nil, or_false] at hx
    subst hx
    refine good_Group _ _ _ (by simp [AllElems, StructM.render, IntegerM.render]) ?_
    intro y hy
    simp only [List.mem_cons, List.not_mem_nil, or_false] at hy
    rcases hy with rfl | rfl
    · exact good_StructReg _ _
    · exact good_Integer _ _
  · refine Occurs.inGroup [] [] _ _ (by intro x hx; simp at hx)
      (by simp [AllElems, StructM.render, IntegerM.render]) ?_ ?_
    · intro y hy
      simp only [List.mem_cons, List.not_mem_nil, or_false] at hy
      rcases hy with rfl | rfl
      · exact good_StructReg _ _
      · exact good_Integer _ _
    · exact Occurs.here [exStruct.render] [] (by
        intro x hx
        rcases hx with hx | hx
        · simp only [List.mem_cons, List.not_mem_nil, or_false] at hx
          subst hx; exact good_StructReg _ _
        · simp at hx)

/-- `text_view_fragments`: four fragments, noise before, between and after (the k ≥ 3 case) -/
example : FragNoise [.comment cs!"lead"]
    [(cs!"Ga", [.pi]), (cs!"in", [.comment cs!"c", .pi]), (cs!"Ra", []), (cs!"w", [.comment cs!"t"])] := by
  refine ⟨by intro x hx; simp at hx; subst hx; trivial, ?_⟩
  intro fr hfr x hx
  simp only [List.mem_cons, List.not_mem_nil, or_false] at hfr
  rcases hfr with rfl | rfl | rfl | rfl <;> simp at hx <;>
    first | (subst hx; trivial) | (rcases hx with rfl | rfl <;> trivial)
example : fragText [(cs!"Ga", [Elem.pi]), (cs!"in", []), (cs!"Ra", []), (cs!"w", [])] = cs!"GainRaw" := rfl
example : ∀ x ∈ [Elem.text cs!"\n  ", .comment cs!"c", .pi], IsNonElem x := by
  intro x hx
  simp only [List.mem_cons, List.not_mem_nil, or_false] at hx
  rcases hx with rfl | rfl | rfl <;> trivial

/-- an IntReg whose address list is `Address`, an embedded IntSwissKnife, `pIndex` -/
def exKnife : IntSwissKnifeM Unit :=
  { attr := exAttr cs!"AddrCalc", elem := exNoElem, streamable := none,
    pVariables := [(cs!"SEL", cs!"Selector")], constants := [(cs!"BASE", exHex)],
    expressions := [], formula := ⟨cs!"BASE + SEL * 4", rfl⟩, unit := none, representation := none }

def exIntRegK : IntRegK Unit :=
  { attr := exAttr cs!"Reg"
    reg := { elem := exElem, streamable := none,
             addrs := [.plain (.address exHex), .knife exKnife, .plain (.pIndex none cs!"Idx")],
             length := .imm ⟨cs!"4", 4, by decide⟩, accessMode := none, pPort := cs!"Device",
             cacheable := none, pollingTime := none, pInvalidators := [cs!"Inv"] }
    sign := none, endianness := some .be, unit := none, representation := none, pSelected := [] }

/-- a StructReg whose own address list embeds the knife, with two entries -/
def exStructK : StructK Unit :=
  { attrs := [], reg := exIntRegK.reg, endianness := none,
    entries := [exEntry cs!"A" [cs!"I1"] (some .beginner), exEntry cs!"B" [] none] }

example : Embeds (F := Unit) Profile.dev exStructK.render exKnife :=
  (embedded_StructReg_dev Profile.dev rfl exStructK).2 exKnife (by simp [exStructK, exIntRegK])

/-- … it parses (debug assertions on) into one MaskedIntReg per entry -/
example : ((parseElem (F := Unit) Profile.dev exStructK.render St.empty).bind
    fun r => .ok r.1.length) = .ok 2 := by
  rw [parse_render_StructReg_embedded]; rfl

example : AddrK.knife exKnife ∈ exIntRegK.reg.addrs := by simp [exIntRegK]

/-- the hypotheses of `retrievable_embedded_IntSwissKnife` are satisfiable: the register embeds the
knife, occurs in a Group, and the document parses with debug assertions on -/
example : Embeds (F := Unit) Profile.dev exIntRegK.render exKnife :=
  (embedded_IntReg_dev Profile.dev rfl exIntRegK).2 exKnife (by simp [exIntRegK])

example : Occurs (F := Unit) Profile.dev exIntRegK.render
    [exInteger.render, .node cs!"Group" [] [exIntRegK.render]] := by
  refine Occurs.inGroup [exInteger.render] [] _ _ ?_ (by simp [AllElems, IntRegK.render]) ?_
    (Occurs.here [] [] (by intro x hx; simp at hx))
  · intro x hx
    rcases hx with hx | hx
    · simp only [List.mem_cons, List.not_mem_nil, or_false] at hx
      subst hx; exact good_Integer _ _
    · simp at hx
  · intro x hx
    simp only [List.mem_cons, List.not_mem_nil, or_false] at hx
    subst hx
    exact (embedded_IntReg_dev Profile.dev rfl exIntRegK).1

example : (topLevel (F := Unit) Profile.dev
    [exInteger.render, .node cs!"Group" [] [exIntRegK.render]] St.empty).isOk = true := by
  have hg := group_flat_members (F := Unit) Profile.dev [] [exIntRegK.render]
    (by simp [AllElems, IntRegK.render])
  simp only [topLevel, parse_render_Integer, hg, parseElems, parse_render_IntReg_embedded,
    Res.bind_ok']
  rfl

/-- noise between declarations: a root child list with a comment, whitespace text and a processing
instruction around a StructReg and a Group whose own child list carries noise as well -/
def exNoisy : List Elem :=
  [.comment cs!"header", .text cs!"  ", exStruct.render, .pi, .text cs!" ",
   .node cs!"Group" [] [.text cs!"   ", .comment cs!"inner", exInteger.render, .text cs!" "],
   .text cs!" ", .comment cs!"trailer"]

def exRootAttrs : List (Str × Str) :=
  [(cs!"ModelName", cs!"M"), (cs!"VendorName", cs!"V"), (cs!"StandardNameSpace", cs!"None"),
   (cs!"SchemaMajorVersion", cs!"1"), (cs!"SchemaMinorVersion", cs!"1"),
   (cs!"SchemaSubMinorVersion", cs!"0"), (cs!"MajorVersion", cs!"1"), (cs!"MinorVersion", cs!"2"),
   (cs!"SubMinorVersion", cs!"3"), (cs!"ProductGuid", cs!"p"), (cs!"VersionGuid", cs!"v")]

example : elemsOf exNoisy =
    [exStruct.render, .node cs!"Group" []
      [.text cs!"   ", .comment cs!"inner", exInteger.render, .text cs!" "]] := rfl

/-- the hypotheses of `retrievable_amid_noise` are satisfiable: the Integer occurs in the noisy
Group of the noisy root … -/
example : OccursN (F := Unit) Profile.dev exInteger.render exNoisy := by
  refine OccursN.inGroup [exStruct.render] [] [] _ rfl ?_ ?_
    (OccursN.here [] [] rfl (by intro x hx; simp at hx))
  · intro x hx
    rcases hx with hx | hx
    · simp only [List.mem_cons, List.not_mem_nil, or_false] at hx
      subst hx; exact good_StructReg _ _
    · simp at hx
  · intro x hx
    have hx' : x ∈ [exInteger.render] := hx
    simp only [List.mem_cons, List.not_mem_nil, or_false] at hx'
    subst hx'; exact good_Integer _ _

/-- … and the whole noisy document parses with debug assertions on -/
example : (parseDocument (F := Unit) Profile.dev
    (.node cs!"RegisterDescription" exRootAttrs exNoisy)).isOk = true := by
  have hr : (pRegisterDescription exRootAttrs).isOk = true := by rfl
  rw [document_noise]
  cases hrd : pRegisterDescription exRootAttrs with
  | ok rd =>
    have he : elemsOf exNoisy = [exStruct.render, .node cs!"Group" []
      [.text cs!"   ", .comment cs!"inner", exInteger.render, .text cs!" "]] := rfl
    have hi : elemsOf [Elem.text cs!"   ", .comment cs!"inner", exInteger.render, .text cs!" "] =
      [exInteger.render] := rfl
    simp only [he, Res.bind_ok', topLevel, parse_render_StructReg, group_flat_noise, hi, parseElems,
      parse_render_Integer]
    rfl
  | err x => rw [hrd] at hr; cases hr
  | panic => rw [hrd] at hr; cases hr

/-- `group_flat`: members are element nodes -/
example : AllElems [exInteger.render, exStruct.render] := by simp [AllElems, IntegerM.render, StructM.render]

/-- literal ranges are inhabited at the boundaries -/
example : convertToInt (decInt I64_MIN) = .ok I64_MIN := literals_dec _ (by decide) (by decide)
example : convertToInt (hexNat true true 0x7fffffffffffffff) = .ok 0x7fffffffffffffff :=
  literals_hex_small true true _ (by decide)
example : convertToInt (hexNat false true 0xFFFFFFFFFFFFFFFF) = .ok (-1) :=
  literals_hex false true _ (by decide)
example : convertToUint (hexNat false false U64_MAX) = .ok U64_MAX :=
  literals_uint_hex false false _ (by decide)
example : decInt (-42) = cs!"-42" := by
  simp [decInt, natDigits, digitChar]
example : hexNat false true 255 = cs!"0xFF" := by
  simp [hexNat, natDigits, digitChar]

end Examples

end CamVerif.C17
