/-
C17 — Parsing preserves every declared node, property, default and reference.

Property theorems only.  `parse_render_K`: for EVERY abstract declaration `m` of kind K
(every presence pattern of the optional attributes/elements at once, every accepted
literal text, every builder state `st` the parse starts in) parsing the rendered element
yields exactly the normal form `specK m st`: the declared values, the schema defaults for
what is omitted, references interned and immediates stored in document order.
-/
import CamVerif.Proofs.C17Struct
import CamVerif.Proofs.C17Resolve
namespace CamVerif.C17
open CamVerif CamVerif.XmlParse
variable {F : Type} [FloatLit F]

/-- the parser's dispatch (`impl Parse for Vec<NodeData>`) on one element -/
def parseElem (pr : Profile) (e : Elem) (st : St F) : R (List (NodeData F) × St F) :=
  match e with
  | .node tag attrs children =>
    (pNodeDatas pr (Elem.depthList children + 1) tag attrs children children st).bind
      fun r => .ok (r.1, r.2.2)
  | _ => .panic

/-! ## element / attribute bases -/

/-- `NodeAttributeBase`: `Name` interned, `NameSpace`/`MergePriority`/`ExposeStatic` read
back, defaults `Custom` / `Mid` / none; unrelated attributes are ignored. -/
theorem attr_base (m : AttrM) (cur : Cur) (st : St F) :
    pAttrBase m.render cur st = .ok ((specAttr m st).1, cur, (specAttr m st).2) :=
  pAttrBase_render m cur st

/-- `NodeElementBase` in front of any further children `rest` that cannot be mistaken for
an element-base element: all 16 optional/repeated particles at once, defaults `Beginner`,
not deprecated, `RW`; it consumes directly following `pInvalidator`s. -/
theorem elem_base (m : ElemM) (inv : List Str) (rest : List Seg) (st : St F)
    (h : noneStart elemTags rest = true) :
    pElemBase (flat (m.segs inv ++ rest)) st =
      .ok ((specElem m inv st).1, flat rest, (specElem m inv st).2) :=
  pElemBase_segs m inv rest st h

/-! ## node kinds -/

theorem parse_render_Node (pr : Profile) (m : NodeM) (st : St F) :
    parseElem pr m.render st = .ok ([.node (specNode m st).1], (specNode m st).2) := by
  simp [parseElem, NodeM.render, pNodeDatas, P.bind_def, pPlainNode_render]
  rfl

theorem parse_render_Category (pr : Profile) (m : CategoryM) (st : St F) :
    parseElem pr m.render st = .ok ([.category (specCategory m st).1], (specCategory m st).2) := by
  simp [parseElem, CategoryM.render, pNodeDatas, P.bind_def, pCategory_render]
  rfl

theorem parse_render_Command (pr : Profile) (m : CommandM) (st : St F) :
    parseElem pr m.render st = .ok ([.command (specCommand m st).1], (specCommand m st).2) := by
  simp [parseElem, CommandM.render, pNodeDatas, P.bind_def, pCommand_render]
  rfl

theorem parse_render_Boolean (pr : Profile) (m : BooleanM) (st : St F) :
    parseElem pr m.render st = .ok ([.boolean (specBoolean m st).1], (specBoolean m st).2) := by
  simp [parseElem, BooleanM.render, pNodeDatas, P.bind_def, pBoolean_render, pure_apply]

theorem parse_render_Integer (pr : Profile) (m : IntegerM) (st : St F) :
    parseElem pr m.render st = .ok ([.integer (specInteger m st).1], (specInteger m st).2) := by
  simp [parseElem, IntegerM.render, pNodeDatas, P.bind_def, pInteger_render, pure_apply]

theorem parse_render_IntSwissKnife (pr : Profile) (m : IntSwissKnifeM F) (st : St F) :
    parseElem pr m.render st =
      .ok ([.intSwissKnife (specIntSwissKnife m st).1], (specIntSwissKnife m st).2) := by
  simp [parseElem, IntSwissKnifeM.render, pNodeDatas, P.bind_def, pIntSwissKnife_render,
    pure_apply]

/-- register base (`Streamable`, address particles, `Length|pLength`, `AccessMode`, `pPort`,
`Cachable`, `PollingTime`, `pInvalidator*`) in front of kind-specific children: defaults not
streamable / `RO` / `WriteThrough`. -/
theorem reg_base (pr : Profile) (m : RegM) (rest : List Seg) (st : St F)
    (h : noneStart regTags rest = true) :
    pRegBase pr (flat (m.segs ++ rest)) st =
      .ok ((specReg m st).1, flat rest, (specReg m st).2) :=
  pRegBase_segs pr m rest st h

theorem parse_render_IntReg (pr : Profile) (m : IntRegM) (st : St F) :
    parseElem pr m.render st = .ok ([.intReg (specIntReg m st).1], (specIntReg m st).2) := by
  simp [parseElem, IntRegM.render, pNodeDatas, P.bind_def, pIntReg_render, pure_apply]

theorem parse_render_MaskedIntReg (pr : Profile) (m : MaskedM) (st : St F) :
    parseElem pr m.render st = .ok ([.maskedIntReg (specMasked m st).1], (specMasked m st).2) := by
  simp [parseElem, MaskedM.render, pNodeDatas, P.bind_def, pMaskedIntReg_render,
    pure_apply]

theorem parse_render_StringReg (pr : Profile) (m : PlainRegM) (st : St F) :
    parseElem pr (m.render cs!"StringReg") st =
      .ok ([.stringReg (specPlainReg m st).1], (specPlainReg m st).2) := by
  simp [parseElem, PlainRegM.render, pNodeDatas, P.bind_def, pPlainReg_render, pure_apply]

theorem parse_render_Register (pr : Profile) (m : PlainRegM) (st : St F) :
    parseElem pr (m.render cs!"Register") st =
      .ok ([.register (specPlainReg m st).1], (specPlainReg m st).2) := by
  simp [parseElem, PlainRegM.render, pNodeDatas, P.bind_def, pPlainReg_render, pure_apply]

/-- `StructReg`: one `MaskedIntReg` node per `StructEntry`, each the merge of what the entry
declares with the structure's register base, invalidators registered per merged node. -/
theorem parse_render_StructReg (pr : Profile) (m : StructM) (st : St F) :
    parseElem pr m.render st =
      .ok ((specStruct m st).1.map .maskedIntReg, (specStruct m st).2) := by
  simp [parseElem, StructM.render, pNodeDatas, P.bind_def, pStructReg_children,
    intoMaskedIntRegs_eq, specStruct, pure_apply]

/-! ## references resolve -/

/-- `get_or_intern` hands out an id that resolves to the name in every later builder state
(the interner only grows): the basis of all `refs_resolve` statements. -/
theorem refs_resolve_intern (n : Str) (st st' : St F) (h : (internS n st).2.le st') :
    nameOf st' (internS n st).1 = n :=
  (internS_spec n st st' h).1

/-- Every reference and every default of a parsed `MaskedIntReg`, read through the interner
of any later builder state, is the declared name / the declared or default value. -/
theorem refs_resolve_MaskedIntReg (pr : Profile) (m : MaskedM) (st st' : St F)
    (h : (specMasked m st).2.le st') :
    ∃ n stN, parseElem pr m.render st = .ok ([.maskedIntReg n], stN) ∧ stN.le st' ∧
      n.view st' = pureMasked m :=
  ⟨_, _, parse_render_MaskedIntReg pr m st, h, (specMasked_view m st st' h).1⟩

/-! ## StructReg = the equivalent set of MaskedIntReg -/

/-- parse a sequence of sibling elements, threading the builder state -/
def parseElems (pr : Profile) : List Elem → St F → R (List (NodeData F) × St F)
  | [], st => .ok ([], st)
  | e :: es, st =>
    (parseElem pr e st).bind fun r =>
      (parseElems pr es r.2).bind fun r2 => .ok (r.1 ++ r2.1, r2.2)

private theorem parseElems_twins (pr : Profile) (ms : List MaskedM) (st : St F) :
    parseElems pr (ms.map MaskedM.render) st =
      .ok ((listS specMasked ms st).1.map .maskedIntReg, (listS specMasked ms st).2) := by
  induction ms generalizing st with
  | nil => rfl
  | cons m ms ih => simp [parseElems, parse_render_MaskedIntReg, ih, listS]

/-- `struct_desugar`: parsing a `StructReg` and parsing its twin — one `MaskedIntReg` per
entry where the entry's declared properties override and all others are inherited from the
structure (including `pError`, `pInvalidator`, and explicitly declared default values) —
yield the same nodes when read through their interners: both are the pure normal forms of the
twin declarations. -/
theorem struct_desugar (pr : Profile) (s : StructM) (st : St F) :
    ∃ (nodes : List MaskedIntRegNode) (stS : St F) (nodesT : List MaskedIntRegNode) (stT : St F),
      parseElem pr s.render st = .ok (nodes.map .maskedIntReg, stS) ∧
      parseElems pr (s.entries.map fun e => (twin s e).render) st =
        .ok (nodesT.map .maskedIntReg, stT) ∧
      nodes.map (MaskedIntRegNode.view stS) = s.entries.map (fun e => pureMasked (twin s e)) ∧
      nodesT.map (MaskedIntRegNode.view stT) = s.entries.map (fun e => pureMasked (twin s e)) := by
  refine ⟨(specStruct s st).1, (specStruct s st).2,
    (listS specMasked (s.entries.map (twin s)) st).1, (listS specMasked (s.entries.map (twin s)) st).2,
    parse_render_StructReg pr s st, ?_, ?_, ?_⟩
  · have := parseElems_twins pr (s.entries.map (twin s)) st
    simpa [List.map_map, Function.comp_def] using this
  · -- the StructReg side
    have hnames := maskedOfEntries_names (specReg s.reg st).1 (s.endianness.getD .le)
      (listS specEntry s.entries (specReg s.reg st).2).1
      (listS specEntry s.entries (specReg s.reg st).2).2
    have hle : (listS specEntry s.entries (specReg s.reg st).2).2.le (specStruct s st).2 :=
      ⟨[], by simp [specStruct, hnames]⟩
    obtain ⟨hE, hR⟩ := listS_resolves specEntry_resolves s.entries _ _ hle
    obtain ⟨hReg, _⟩ := specReg_view s.reg st _ hR
    simp only [specStruct, maskedOfEntries_fst, List.map_map] at hE ⊢
    have : ∀ e : StructEntryNode,
        (MaskedIntRegNode.view (specStruct s st).2 ∘
          fun e => e.toMasked (specReg s.reg st).1 (s.endianness.getD .le)) e =
        toMaskedV (e.view (specStruct s st).2) (pureReg s.reg) (s.endianness.getD .le) := by
      intro e
      simp [toMasked_view, hReg]
    simp only [specStruct] at this
    rw [List.map_congr_left (fun e _ => this e)]
    have h2 : ∀ (S : St F) (L : List StructEntryNode),
        L.map (fun e => toMaskedV (e.view S) (pureReg s.reg) (s.endianness.getD .le)) =
        (L.map (StructEntryNode.view S)).map
          (fun v => toMaskedV v (pureReg s.reg) (s.endianness.getD .le)) := by
      intro S L; simp [List.map_map, Function.comp_def]
    rw [h2, hE]
    simp [List.map_map, Function.comp_def, toMaskedV_pure]
  · -- the twin side: `refs_resolve` of every twin
    have hres : Resolves (F := F) specMasked MaskedIntRegNode.view pureMasked :=
      fun m st st' h => specMasked_view m st st' h
    have := (listS_resolves hres (s.entries.map (twin s)) st _ (St.le_refl _)).1
    simpa [List.map_map, Function.comp_def] using this

/-! ## Group = its members declared in place -/

/-- `parseElem` with the nesting fuel explicit (`parseElem pr e = parseElemF pr (depth e) e`) -/
def parseElemF (pr : Profile) (fuel : Nat) : Elem → St F → R (List (NodeData F) × St F)
  | .node tag attrs children, st =>
    (pNodeDatas pr fuel tag attrs children children st).bind fun r => .ok (r.1, r.2.2)
  | _, _ => .panic

/-- the members one after the other, threading the builder state, node lists concatenated -/
def parseElemsF (pr : Profile) (fuel : Nat) : List Elem → St F → R (List (NodeData F) × St F)
  | [], st => .ok ([], st)
  | e :: es, st =>
    (parseElemF pr fuel e st).bind fun r =>
      (parseElemsF pr fuel es r.2).bind fun r2 => .ok (r.1 ++ r2.1, r2.2)

def AllElems : List Elem → Prop
  | [] => True
  | .node _ _ _ :: r => AllElems r
  | _ :: _ => False

theorem parseElem_eq_parseElemF (pr : Profile) (tag : Str) (attrs : List (Str × Str))
    (children : List Elem) (st : St F) :
    parseElem pr (.node tag attrs children) st =
      parseElemF pr (Elem.depthList children + 1) (.node tag attrs children) st := rfl

private theorem pGroupChildren_members (pr : Profile) (fuel : Nat) (es : List Elem)
    (h : AllElems es) (n : Nat) (hn : es.length + 1 ≤ n) (st : St F) :
    pGroupChildren pr fuel n es st =
      (parseElemsF pr fuel es st).bind fun r => .ok (r.1, [], r.2) := by
  induction es generalizing n st with
  | nil =>
    cases n with
    | zero => omega
    | succ n => simp [pGroupChildren, P.bind_def, next, skipJunk, parseElemsF, pure_apply]
  | cons e es ih =>
    cases n with
    | zero => omega
    | succ n =>
      cases e with
      | node tag attrs children =>
        have hn' : es.length + 1 ≤ n := by simp at hn; omega
        have h' : AllElems es := by simpa [AllElems] using h
        simp only [pGroupChildren, P.bind_def, next, skipJunk, Res.bind_ok', parseElemsF,
          parseElemF, onChild_def]
        cases hp : pNodeDatas pr fuel tag attrs children children st with
        | ok r =>
          simp only [Res.bind_ok', ih h' n hn']
          cases parseElemsF pr fuel es r.2.2 <;> simp [pure_apply]
        | err e => rfl
        | panic => rfl
      | text s => exact absurd h (by simp [AllElems])
      | comment s => exact absurd h (by simp [AllElems])
      | pi => exact absurd h (by simp [AllElems])

/-- `group_flat`: a `Group` yields exactly the node data of its members parsed one after the
other in place (same builder-state threading, same order), whatever its attributes. -/
theorem group_flat (pr : Profile) (fuel : Nat) (attrs : List (Str × Str)) (es : List Elem)
    (h : AllElems es) (st : St F) :
    parseElemF pr (fuel + 2) (.node cs!"Group" attrs es) st = parseElemsF pr (fuel + 1) es st := by
  simp only [parseElemF, pNodeDatas]
  simp [pGroupChildren_members pr (fuel + 1) es h (es.length + 1) (Nat.le_refl _) st]
  cases parseElemsF pr (fuel + 1) es st <;> simp

/-! ## literals -/

/-- whatever `convert_to_int` accepts is taken as an immediate by the `ImmOrPNode` sniffing -/
theorem literals_int_is_immediate (s : Str) (v : Int) (h : convertToInt s = .ok v) :
    firstIsAlphabetic s = .ok false := convertToInt_first s v h

/-- decimal form: every `i64` value is read back exactly -/
theorem literals_dec (n : Int) (h1 : I64_MIN ≤ n) (h2 : n ≤ I64_MAX) :
    convertToInt (decInt n) = .ok n := by
  unfold decInt
  split
  · next hneg =>
    have hp := parseDigits_natDigits10 n.natAbs
    rw [convertToInt_noPrefix '-' _ (Or.inl (by decide))]
    have habs : (n.natAbs : Int) = -n := by omega
    simp only [parseI64, hp, habs]
    simp only [I64_MIN] at h1 ⊢
    simp [h1, ofOpt]
  · next hpos =>
    have habs : (n.natAbs : Int) = n := by omega
    have := convertToInt_natDigits n.natAbs (by rw [habs]; exact h2)
    rw [this, habs]

/-- `0x` / `0X` prefix with lower- or upper-case digits: read back exactly -/
theorem literals_hex (upperPrefix upperDigits : Bool) (n : Nat) (h : (n : Int) ≤ I64_MAX) :
    convertToInt (hexNat upperPrefix upperDigits n) = .ok (n : Int) := by
  cases upperPrefix <;> simp [hexNat, convertToInt, parseI64_hex upperDigits n h, ofOpt]

/-- unsigned fields (`PollingTime`, `Bit`, `LSB`, `MSB`, version numbers): decimal form -/
theorem literals_uint_dec (n : Nat) (h : n ≤ U64_MAX) :
    convertToUint (natDigits 10 false n) = .ok n := convertToUint_natDigits n h

/-- … and hexadecimal forms, up to `u64::MAX` -/
theorem literals_uint_hex (upperPrefix upperDigits : Bool) (n : Nat) (h : n ≤ U64_MAX) :
    convertToUint (hexNat upperPrefix upperDigits n) = .ok n := by
  cases upperPrefix <;> simp [hexNat, convertToUint, parseU64_hex upperDigits n h, ofOpt]

/-- bare hexadecimal (`EventID`, `ChunkID`) -/
theorem literals_bare_hex (upperDigits : Bool) (n : Nat) (h : n ≤ U64_MAX) :
    parseU64 16 (natDigits 16 upperDigits n) = some n := parseU64_hex upperDigits n h

/-- the four boolean spellings, and nothing else -/
theorem literals_bool (s : Str) :
    convertToBoolOpt s =
      if s = cs!"Yes" ∨ s = cs!"true" then some true
      else if s = cs!"No" ∨ s = cs!"false" then some false else none := rfl

theorem literals_bool_forms :
    convertToBoolOpt cs!"Yes" = some true ∧ convertToBoolOpt cs!"true" = some true ∧
    convertToBoolOpt cs!"No" = some false ∧ convertToBoolOpt cs!"false" = some false := by
  decide

/-- float specials: `INF` and `-INF` are the infinities; every other text (incl. `NaN`) goes
unchanged to `str::parse::<f64>`; all three specials are immediates for the sniffing although
two start with a letter. -/
theorem literals_float_specials :
    convertToFloat (F := F) cs!"INF" = .ok FloatLit.inf ∧
    convertToFloat (F := F) cs!"-INF" = .ok FloatLit.negInf ∧
    (∀ s : Str, s ≠ cs!"INF" → s ≠ cs!"-INF" →
      convertToFloat (F := F) s = ofOpt (FloatLit.parse s)) := by
  refine ⟨rfl, rfl, ?_⟩
  intro s h1 h2
  simp [convertToFloat, h1, h2]

end CamVerif.C17
