/-
C17 — Parsing preserves every declared node, property, default and reference.

Property theorems only.  `parse_render_K`: for EVERY abstract declaration `m` of kind K
(every presence pattern of the optional attributes/elements at once, every accepted
literal text, every builder state `st` the parse starts in) parsing the rendered element
yields exactly the normal form `specK m st`: the declared values, the schema defaults for
what is omitted, references interned and immediates stored in document order.
-/
import CamVerif.Proofs.C17Kinds
namespace CamVerif.C17
open CamVerif CamVerif.XmlParse
variable {F : Type} [FloatLit F]

/-- the parser's dispatch (`impl Parse for Vec<NodeData>`) on one element -/
def parseElem (pr : Profile) (e : Elem) (st : St F) : R (List (NodeData F) × St F) :=
  match e with
  | .node tag attrs children =>
    (pNodeDatas pr (Elem.depthList children + 1) tag attrs children [] st).bind
      fun r => .ok (r.1, r.2.2)
  | _ => .panic

/-! ## element / attribute bases -/

/-- `NodeAttributeBase`: `Name` interned, `NameSpace`/`MergePriority`/`ExposeStatic` read
back, defaults `Custom` / `Mid` / none; unrelated attributes are ignored. -/
theorem attr_base (m : AttrM) (cur : Cur) (st : St F) :
    pAttrBase m.render cur st = .ok ((specAttr m st).1, cur, (specAttr m st).2) :=
  pAttrBase_render m cur st

/-- `NodeElementBase` in front of any further children `rest` that cannot be mistaken for
an element-base element: all 16 optional/repeated particles at once, defaults `Beginner`,
not deprecated, `RW`; it consumes directly following `pInvalidator`s. -/
theorem elem_base (m : ElemM) (inv : List Str) (rest : List Seg) (st : St F)
    (h : noneStart elemTags rest = true) :
    pElemBase (flat (m.segs inv ++ rest)) st =
      .ok ((specElem m inv st).1, flat rest, (specElem m inv st).2) :=
  pElemBase_segs m inv rest st h

/-! ## node kinds -/

theorem parse_render_Node (pr : Profile) (m : NodeM) (st : St F) :
    parseElem pr m.render st = .ok ([.node (specNode m st).1], (specNode m st).2) := by
  simp [parseElem, NodeM.render, pNodeDatas, onChild, P.bind_def, pPlainNode_render]
  rfl

theorem parse_render_Category (pr : Profile) (m : CategoryM) (st : St F) :
    parseElem pr m.render st = .ok ([.category (specCategory m st).1], (specCategory m st).2) := by
  simp [parseElem, CategoryM.render, pNodeDatas, onChild, P.bind_def, pCategory_render]
  rfl

theorem parse_render_Command (pr : Profile) (m : CommandM) (st : St F) :
    parseElem pr m.render st = .ok ([.command (specCommand m st).1], (specCommand m st).2) := by
  simp [parseElem, CommandM.render, pNodeDatas, onChild, P.bind_def, pCommand_render]
  rfl

theorem parse_render_Boolean (pr : Profile) (m : BooleanM) (st : St F) :
    parseElem pr m.render st = .ok ([.boolean (specBoolean m st).1], (specBoolean m st).2) := by
  simp [parseElem, BooleanM.render, pNodeDatas, onChild, P.bind_def, pBoolean_render, pure_apply]

theorem parse_render_Integer (pr : Profile) (m : IntegerM) (st : St F) :
    parseElem pr m.render st = .ok ([.integer (specInteger m st).1], (specInteger m st).2) := by
  simp [parseElem, IntegerM.render, pNodeDatas, onChild, P.bind_def, pInteger_render, pure_apply]

/-! ## literals -/

/-- whatever `convert_to_int` accepts is taken as an immediate by the `ImmOrPNode` sniffing -/
theorem literals_int_is_immediate (s : Str) (v : Int) (h : convertToInt s = .ok v) :
    firstIsAlphabetic s = .ok false := convertToInt_first s v h

end CamVerif.C17
