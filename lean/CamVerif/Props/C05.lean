/-
C05 — Formula evaluation follows GenApi expression semantics and is total.

Property theorems only.  Model: `CamVerif.Model.Formula` (hand-written mirror of
`genapi/src/formula.rs`, tied to the code by `harness/src/bin/c05.rs`).  Reference:
`CamVerif.Spec.Formula` (the standard's precedence table and an evaluator on mathematical
integers).  All statements hold for every implementation `F` of the floating point
operations (`FloatOps F`), every expression tree, every environment of literal bindings and
both build profiles.
-/
import CamVerif.Proofs.C05Eval
import CamVerif.Proofs.C05Parse
import CamVerif.Proofs.C05Spell
import CamVerif.Proofs.C05Lex
import CamVerif.Proofs.C05LexHex
import CamVerif.Proofs.C05LexAdj
import CamVerif.Spec.FormulaLazy
import CamVerif.Gen.FormulaTables
namespace CamVerif.C05
open CamVerif CamVerif.Formula CamVerif.Formula.Proofs
open CamVerif.Formula.Spec (toSRes toSVal toSEnv SVal SErr binStrict)

variable {F : Type} [FloatOps F]

/-! ## 0. The model's tables are the tables of the source (regenerated on every run)

`CamVerif.Gen.FormulaTables` is re-emitted from the current `genapi/src/formula.rs` by
`tools/gen_formula_tables.py` (which also checks the shape of `parse_binop!`, `expr`, `unop`,
`pow` and the end-of-input assertion of `parse`). -/

/-- **gen_ladder_is_model**: the rows of the `parse_binop!` call chain in the source are the
model's ladder. -/
theorem gen_ladder_is_model : Gen.FormulaTables.ladderRows = Formula.ladder := by decide

/-- **gen_functions_is_model**: the function-name arms of `Parser::primary` in the source are the
model's function table; the constant names are the standard's. -/
theorem gen_functions_is_model :
    Gen.FormulaTables.functions = Formula.funcTable ∧
    Gen.FormulaTables.constants = Spec.constants := by decide

/-! ## 1. The precedence ladder is the standard's table -/

/-- **ladder_is_standard**: the rows of the parser's precedence ladder (one per
`parse_binop!` call, loosest first, operators in the order they are tried) are exactly the
left-associative binary levels of the standard's operator table. -/
theorem ladder_is_standard : Formula.ladder = Spec.binaryRows := by decide

/-- **functions_are_standard**: every function name of the standard is in the parser's
function table and denotes the standard's operator (SGN was missing before the repair). -/
theorem functions_are_standard : ∀ nk ∈ Spec.functions, funcOf nk.1 = some nk.2 := by decide

/-! ## 2. Parsing inverts printing (precedence and associativity) -/

/-- **parse_print**: for every expression tree (all 19 binary operators, prefix `-` `~`, the 16
functions, `?:`, literals, variables other than the constants `PI`/`E`) the parser reads the
minimal-parenthesis print — parentheses only where the standard's precedence/associativity
table requires them — back as exactly that tree.  Token level (`parseToks` is
`Parser::expr` on the lexer's token stream); by induction over the tree, no bound. -/
theorem parse_print (e : Expr F) (h : Spec.LegalIdents e) :
    parseToks (Spec.printMin e) = .ok e :=
  parseToks_printMin e h

example : parseToks (F := F)
    [.ident "a", .sym .minus, .ident "b", .sym .minus, .ident "c", .sym .star, .sym .minus,
     .int 2, .sym .doubleStar, .sym .minus, .int 3, .sym .doubleStar, .int 2] =
    .ok (.binOp .sub (.binOp .sub (.ident "a") (.ident "b"))
      (.binOp .mul (.ident "c") (.unOp .neg (.binOp .pow (.int 2)
        (.unOp .neg (.binOp .pow (.int 3) (.int 2))))))) :=
  parse_print (.binOp .sub (.binOp .sub (.ident "a") (.ident "b"))
      (.binOp .mul (.ident "c") (.unOp .neg (.binOp .pow (.int 2)
        (.unOp .neg (.binOp .pow (.int 3) (.int 2))))))) (by simp [Spec.LegalIdents])

/-- The minimal print of `a op1 b op2 c` grouped by the standard's table has no parentheses. -/
private theorem printMin_group3 (op1 op2 : BinOpKind) (a b c : String) :
    Spec.printMin (Spec.group3 op1 op2 (.ident a) (.ident b) (.ident c) : Expr F) =
      [.ident a, .sym (Spec.symOf op1), .ident b, .sym (Spec.symOf op2), .ident c] := by
  cases op1 <;> cases op2 <;> rfl

/-- **adjacent_pair** (precedence/associativity of the ladder): for every ordered pair of
binary operators (19 x 19, `**` included) the input `a op1 b op2 c` is grouped as the
standard's table says: the tighter operator first, on a tie to the left — except `**`, which
groups to the right. -/
theorem adjacent_pair (op1 op2 : BinOpKind) (a b c : String)
    (ha : a ≠ "PI" ∧ a ≠ "E") (hb : b ≠ "PI" ∧ b ≠ "E") (hc : c ≠ "PI" ∧ c ≠ "E") :
    parseToks ([.ident a, .sym (Spec.symOf op1), .ident b, .sym (Spec.symOf op2), .ident c] :
      List (Tok F)) = .ok (Spec.group3 op1 op2 (.ident a) (.ident b) (.ident c)) := by
  rw [← printMin_group3]
  apply parse_print
  unfold Spec.group3
  split <;> simp [Spec.LegalIdents, ha, hb, hc]

example : parseToks ([.ident "a", .sym .plus, .ident "b", .sym .star, .ident "c"] : List (Tok F)) =
    .ok (.binOp .add (.ident "a") (.binOp .mul (.ident "b") (.ident "c"))) :=
  adjacent_pair .add .mul "a" "b" "c" (by decide) (by decide) (by decide)

/-- **unary_and_ternary_nesting**: unary operators bind tighter than every binary operator but
looser than `**`; `?:` is right-associative and binds loosest. -/
theorem unary_and_ternary_nesting (op : BinOpKind) (hop : op ≠ .pow) (a b c d e : String)
    (ha : a ≠ "PI" ∧ a ≠ "E") (hb : b ≠ "PI" ∧ b ≠ "E") (hc : c ≠ "PI" ∧ c ≠ "E")
    (hd : d ≠ "PI" ∧ d ≠ "E") (he : e ≠ "PI" ∧ e ≠ "E") :
    -- `- a op b` is `(-a) op b`
    parseToks ([.sym .minus, .ident a, .sym (Spec.symOf op), .ident b] : List (Tok F)) =
      .ok (.binOp op (.unOp .neg (.ident a)) (.ident b)) ∧
    -- `- a ** b` is `-(a ** b)`, `a ** - b ** c` is `a ** (-(b ** c))`
    parseToks ([.sym .minus, .ident a, .sym .doubleStar, .ident b] : List (Tok F)) =
      .ok (.unOp .neg (.binOp .pow (.ident a) (.ident b))) ∧
    parseToks ([.ident a, .sym .doubleStar, .sym .minus, .ident b, .sym .doubleStar, .ident c] :
      List (Tok F)) =
      .ok (.binOp .pow (.ident a) (.unOp .neg (.binOp .pow (.ident b) (.ident c)))) ∧
    -- `a ? b : c ? d : e` is `a ? b : (c ? d : e)`; `a op b ? c : d` is `(a op b) ? c : d`
    parseToks ([.ident a, .sym .question, .ident b, .sym .colon, .ident c, .sym .question,
      .ident d, .sym .colon, .ident e] : List (Tok F)) =
      .ok (.ite (.ident a) (.ident b) (.ite (.ident c) (.ident d) (.ident e))) ∧
    parseToks ([.ident a, .sym (Spec.symOf op), .ident b, .sym .question, .ident c, .sym .colon,
      .ident d] : List (Tok F)) =
      .ok (.ite (.binOp op (.ident a) (.ident b)) (.ident c) (.ident d)) := by
  have p1 : Spec.printMin (.binOp op (.unOp .neg (.ident a)) (.ident b) : Expr F) =
      [.sym .minus, .ident a, .sym (Spec.symOf op), .ident b] := by
    cases op <;> first | (exact absurd rfl hop) | rfl
  have p5 : Spec.printMin (.ite (.binOp op (.ident a) (.ident b)) (.ident c) (.ident d) : Expr F) =
      [.ident a, .sym (Spec.symOf op), .ident b, .sym .question, .ident c, .sym .colon, .ident d] := by
    cases op <;> first | (exact absurd rfl hop) | rfl
  refine ⟨?_, ?_, ?_, ?_, ?_⟩
  · rw [← p1]; apply parse_print; simp [Spec.LegalIdents, ha, hb]
  · exact parse_print (.unOp .neg (.binOp .pow (.ident a) (.ident b))) (by simp [Spec.LegalIdents, ha, hb])
  · exact parse_print (.binOp .pow (.ident a) (.unOp .neg (.binOp .pow (.ident b) (.ident c))))
      (by simp [Spec.LegalIdents, ha, hb, hc])
  · exact parse_print (.ite (.ident a) (.ident b) (.ite (.ident c) (.ident d) (.ident e)))
      (by simp [Spec.LegalIdents, ha, hb, hc, hd, he])
  · rw [← p5]; apply parse_print; simp [Spec.LegalIdents, ha, hb, hc, hd]

/-! ### every spelling: redundant parentheses, `NEG(x)`, unary plus, `PI`, `E` -/

/-- **parse_spelling**: the parser reads EVERY spelling of a tree (`Spec.Spells`: parentheses
where required and anywhere else around a sub-expression, prefix or function form of unary
minus, unary plus before any unary expression, the constants `PI` and `E`) back as that tree,
and consumes all tokens. -/
theorem parse_spelling (e : Expr F) (ts : List (Tok F)) (h : Spec.Spells 0 e ts) :
    parseToks ts = .ok e :=
  parseToks_spells h

private theorem printFull_spells (e : Expr F) (hwf : Spec.LegalIdents e) :
    ∀ c, c ≤ 13 → Spec.Spells c e (Spec.printFull e) := by
  induction e with
  | int i => intro c hc; exact .int c i hc
  | float f => intro c hc; exact .float c f hc
  | ident s => intro c hc; exact .ident c s hc hwf.1 hwf.2
  | ite cnd t e ihc iht ihe =>
    intro c hc
    simp only [Spec.LegalIdents] at hwf
    exact .paren c _ _ hc (.ite _ _ _ _ _ _ (ihc hwf.1 1 (by omega)) (iht hwf.2.1 0 (by omega))
      (ihe hwf.2.2 0 (by omega)))
  | unOp k x ih =>
    intro c hc
    have hx := ih hwf
    cases k
    case neg => exact .paren c _ _ hc (.neg 0 x _ (by decide) (hx 11 (by omega)))
    case not => exact .paren c _ _ hc (.not 0 x _ (by decide) (hx 11 (by omega)))
    all_goals exact .func c _ _ x _ hc (by decide) (hx 0 (by omega))
  | binOp op l r ihl ihr =>
    intro c hc
    simp only [Spec.LegalIdents] at hwf
    by_cases hop : op = .pow
    · subst hop
      exact .paren c _ _ hc (.pow 0 l r _ _ (by decide) (ihl hwf.1 13 (by omega)) (ihr hwf.2 11 (by omega)))
    · obtain ⟨p1, p2⟩ := prec_range op hop
      exact .paren c _ _ hc (.bin 0 op l r _ _ hop (by omega) (ihl hwf.1 _ (by omega))
        (ihr hwf.2 _ (by omega)))

/-- **parse_printFull**: the fully parenthesised print of every tree is read back as the tree. -/
theorem parse_printFull (e : Expr F) (h : Spec.LegalIdents e) :
    parseToks (Spec.printFull e) = .ok e :=
  parse_spelling e _ (printFull_spells e h 0 (by omega))

/-- **redundant_parentheses_transparent**, **unary_plus_transparent**, **neg_function_form**,
**constants_parse**: the individual forms, for any spelling `ts` of any tree. -/
theorem redundant_parentheses_transparent (e : Expr F) (ts : List (Tok F)) (h : Spec.Spells 0 e ts) :
    parseToks (.sym .lparen :: (ts ++ [.sym .rparen])) = .ok e :=
  parse_spelling e _ (.paren 0 e ts (by decide) h)

theorem unary_plus_transparent (e : Expr F) (ts : List (Tok F)) (h : Spec.Spells 11 e ts) :
    parseToks (.sym .plus :: ts) = .ok e :=
  parse_spelling e _ (.plus 0 e ts (by decide) h)

theorem neg_function_form (x : Expr F) (ts : List (Tok F)) (h : Spec.Spells 0 x ts) :
    parseToks (.ident "NEG" :: .sym .lparen :: (ts ++ [.sym .rparen])) = .ok (.unOp .neg x) :=
  parse_spelling _ _ (.func 0 "NEG" .neg x ts (by decide) (by decide) h)

theorem constants_parse :
    parseToks ([.ident "PI"] : List (Tok F)) = .ok (.float FloatOps.pi) ∧
    parseToks ([.ident "E"] : List (Tok F)) = .ok (.float FloatOps.e) :=
  ⟨parse_spelling _ _ (.pi 0 (by decide)), parse_spelling _ _ (.e 0 (by decide))⟩

/-- **parse_consumes_all**: a formula is accepted only when the expression uses up every token
(tokens left over are a panic, never a silently truncated tree). -/
theorem parse_consumes_all (ts : List (Tok F)) (e : Expr F) (h : parseToks ts = .ok e) :
    pExpr (ts.length + 1) ts = .ok (e, []) := by
  unfold parseToks at h
  cases hp : pExpr (ts.length + 1) ts with
  | ok r =>
    obtain ⟨e', rest⟩ := r
    rw [hp] at h
    cases rest with
    | nil => simp only [Res.bind_ok, Res.ok.injEq] at h; rw [h]
    | cons t r => simp at h
  | err x => rw [hp] at h; simp at h
  | panic => rw [hp] at h; simp at h

example : parseToks (F := F) [.sym .plus, .sym .minus, .sym .lparen, .sym .lparen, .ident "NEG",
    .sym .lparen, .ident "PI", .sym .rparen, .sym .rparen, .sym .star, .int 2, .sym .rparen] =
    .ok (.unOp .neg (.binOp .mul (.unOp .neg (.float FloatOps.pi)) (.int 2))) :=
  parse_spelling _ _ (.plus 0 _ _ (by decide) (.neg 11 _ _ (by decide) (.paren 11 _ _ (by decide)
    (.bin 0 .mul _ _ _ _ (by decide) (by decide)
      (.paren _ _ _ (by decide) (.func 0 "NEG" .neg _ _ (by decide) (by decide) (.pi 0 (by decide))))
      (.int _ 2 (by decide))))))

/-! ### characters → tokens (earlier formulation; the character level is now proved in section 9:
`lex_printChars`, `parse_print_chars`, `parse_spelling_chars`, for the canonical spelling `Spec.printChars`
with a decimal printer defined in the Spec instead of `toString`) -/

/-- Spelling of a token list with single blanks (numbers in decimal).  Float tokens have no
canonical text and are outside this statement. -/
def spell : List (Tok F) → List Char
  | [] => []
  | t :: ts =>
    (match t with
      | .sym s => (match s with
        | .lparen => "(" | .rparen => ")" | .plus => "+" | .minus => "-" | .star => "*"
        | .doubleStar => "**" | .slash => "/" | .percent => "%" | .and => "&" | .doubleAnd => "&&"
        | .or => "|" | .doubleOr => "||" | .caret => "^" | .tilde => "~" | .eq => "=" | .ne => "<>"
        | .colon => ":" | .question => "?" | .lt => "<" | .le => "<=" | .gt => ">" | .ge => ">="
        | .shl => "<<" | .shr => ">>").toList
      | .ident s => s.toList
      | .int i => (toString i.toNat).toList
      | _ => []) ++ ' ' :: spell ts

/-- literals and identifiers that have a spelling the lexer accepts -/
def Lexable : Expr F → Prop
  | .binOp _ l r => Lexable l ∧ Lexable r
  | .unOp _ x => Lexable x
  | .ite c t e => Lexable c ∧ Lexable t ∧ Lexable e
  | .int i => i.toNat < 2 ^ 63
  | .float _ => False
  | .ident s => ∃ c cs, s.toList = c :: cs ∧ isAlpha c = true ∧ cs.all isIdentCont = true

/-- Earlier formulation of the character-level statement with `toString` as the decimal printer
and single blanks (kept as a checked definition).  Its content is proved as `parse_print_chars`
(section 9) for `Spec.printChars`, which is more general: any XML-escape choice, any
white-space gaps.  Hexadecimal literal text, float literal text and tokens written without white
space between them are covered by sections 10, 12 and 13 (`lex_hex_literal`, `lex_gapfree`,
`lex_float_literal`, `parse_print_gapfree`). -/
def C05_parse_print_string_statement : Prop :=
  ∀ (e : Expr F), Spec.LegalIdents e → Lexable e → parseChars (spell (Spec.printMin e)) = .ok e

/- Concrete strings through lexer + parser, evaluated by the kernel (entities, hex, dotted
identifiers, whitespace; a malformed input panics, as in the code). -/
example : @parseChars Unit unitFloatOps "(1 + 2*3 - 6) = 1 ? 0x10 : VAR.Max &lt;&lt; 2".toList =
    .ok (.ite (.binOp .eq (.binOp .sub (.binOp .add (.int 1) (.binOp .mul (.int 2) (.int 3))) (.int 6))
      (.int 1)) (.int 16) (.binOp .shl (.ident "VAR.Max") (.int 2))) := by
  decide +kernel

example : @parseChars Unit unitFloatOps "SGN(-X) &amp;&amp; 2 ** 3 ** 2 <> .5".toList =
    .ok (.binOp .and (.unOp .sgn (.unOp .neg (.ident "X")))
      (.binOp .ne (.binOp .pow (.int 2) (.binOp .pow (.int 3) (.int 2))) (.float ()))) := by
  decide +kernel

example : @parseChars Unit unitFloatOps "1 +".toList = .panic ∧
    @parseChars Unit unitFloatOps "9223372036854775808".toList = .panic ∧
    -- tokens after the expression are refused, not ignored
    @parseChars Unit unitFloatOps "1 2".toList = .panic ∧
    @parseChars Unit unitFloatOps "(1)) + 5".toList = .panic := by
  decide +kernel

/- exponent literals, the `0X` prefix, hex literals with bit 63 set, `+-` -/
example : @parseChars Unit unitFloatOps "2 * 1e3 + 1.5E-3".toList =
      .ok (.binOp .add (.binOp .mul (.int 2) (.float ())) (.float ())) ∧
    @parseChars Unit unitFloatOps "0X10 = 0xFFFFFFFFFFFFFFFF".toList =
      .ok (.binOp .eq (.int 16) (.int (-1))) ∧
    @parseChars Unit unitFloatOps "+-1".toList = .ok (.unOp .neg (.int 1)) := by
  decide +kernel

/-! ## 3. Evaluation refines the reference evaluator -/

private theorem toSRes_bind {x : R (EvalResult F)} {sx : Except SErr (SVal F)}
    {f : EvalResult F → R (EvalResult F)} {g : SVal F → Except SErr (SVal F)}
    (hx : toSRes x = some sx) (hf : ∀ v, toSRes (f v) = some (g (toSVal v))) :
    toSRes (x >>= f) = some (sx >>= g) := by
  cases x with
  | ok v =>
    simp only [toSRes_ok, Option.some.injEq] at hx
    subst hx
    exact hf v
  | err e =>
    cases e <;> simp only [toSRes, Option.some.injEq, reduceCtorEq] at hx <;> subst hx <;> rfl
  | panic => simp [toSRes] at hx

/-- **eval_refines_spec**: for every expression, environment of literal bindings and build
profile the model of `Expr::eval` returns exactly the reference evaluator's outcome:
integer operands stay integers with 64-bit wrap-around (`+ - * % **` with a non-negative
exponent, comparisons, shifts, bit operations, unary minus, ABS, SGN), `/` and the listed
functions are floating point, mixed operands are promoted, `&&`, `||` and `?:` evaluate only
the operands they need, an unknown identifier and an integer remainder by zero are errors.
In particular the outcome is never a panic (`toSRes` maps a panic to `none`). -/
theorem eval_refines_spec (p : Profile) (env : Env F) (e : Expr F) :
    toSRes (eval p env e) = some (Spec.eval (toSEnv env) e) := by
  induction e with
  | int i => rfl
  | float f => rfl
  | ident s =>
    simp only [eval, Spec.eval, toSEnv]
    cases env s <;> rfl
  | unOp k e ih =>
    simp only [eval, Spec.eval]
    exact toSRes_bind ih (fun v => by simp [evalUn_ok]; rfl)
  | ite c t e ihc iht ihe =>
    simp only [eval, Spec.eval]
    refine toSRes_bind ihc (fun v => ?_)
    rw [toSVal_truthy]
    split
    · exact iht
    · exact ihe
  | binOp k l r ihl ihr =>
    have strict : ∀ k, k ≠ .and → k ≠ .or →
        toSRes (eval p env l >>= fun a => eval p env r >>= fun b => evalBinStrict k a b) =
          some (Spec.eval (toSEnv env) l >>= fun a => Spec.eval (toSEnv env) r >>= fun b =>
            binStrict k a b) :=
      fun k h1 h2 => toSRes_bind ihl (fun a => toSRes_bind ihr (fun b => evalBinStrict_ok k h1 h2 a b))
    cases k
    case and =>
      simp only [eval, Spec.eval]
      refine toSRes_bind ihl (fun a => ?_)
      rw [toSVal_truthy]
      split
      · exact toSRes_bind ihr (fun b => by simp; rfl)
      · simp; rfl
    case or =>
      simp only [eval, Spec.eval]
      refine toSRes_bind ihl (fun a => ?_)
      rw [toSVal_truthy]
      split
      · simp; rfl
      · exact toSRes_bind ihr (fun b => by simp; rfl)
    all_goals
      simp only [eval, Spec.eval]
      exact strict _ (by decide) (by decide)

example : toSRes (eval (F := F) .dev (fun _ => none)
    (.binOp .add (.int 0x7fffffffffffffff) (.int 1))) = some (.ok (.int (-9223372036854775808))) := by
  rw [eval_refines_spec]; rfl

/-! ## 4. Totality -/

/-- **eval_total**: evaluation never panics — for every expression tree, every environment
(including 0, ±1, `i64::MIN/MAX`, NaN, ±inf: the statement is for all values and every float
implementation) and both build profiles. -/
theorem eval_total (p : Profile) (env : Env F) (e : Expr F) : eval p env e ≠ .panic := by
  intro h
  have := eval_refines_spec p env e
  rw [h] at this
  simp [toSRes] at this

/-- **eval_profile_independent**: the dev (overflow checks on) and release builds agree. -/
theorem eval_profile_independent (env : Env F) (e : Expr F) :
    eval .dev env e = eval .release env e := by
  induction e with
  | binOp k l r ihl ihr => cases k <;> simp only [eval, ihl, ihr]
  | unOp k e ih => simp only [eval, ih]
  | ite c t e ihc iht ihe => simp only [eval, ihc, iht, ihe]
  | int i => rfl
  | float f => rfl
  | ident s => rfl

/-- **unknown_ident_is_error**: an identifier that is not bound evaluates to the error
`InvalidNode` (not a panic, not a default value). -/
theorem unknown_ident_is_error (p : Profile) (env : Env F) (s : String) (h : env s = none) :
    eval p env (.ident s) = .err .invalidNode := by
  simp [eval, h]

/-- **rem_by_zero_is_error**: an integer remainder by zero is the error `InvalidData`. -/
theorem rem_by_zero_is_error (p : Profile) (env : Env F) (l r : Expr F) (x : BitVec 64)
    (hl : eval p env l = .ok (.int x)) (hr : eval p env r = .ok (.int 0)) :
    eval p env (.binOp .rem l r) = .err .invalidData := by
  simp [eval, hl, hr, evalBinStrict, EvalResult.isInteger, EvalResult.asInteger]

/-! ## 5. Short circuit -/

/-- **short_circuit**: when the left operand decides `&&` / `||`, or the condition selects a
branch of `?:`, the other operand is not evaluated: the result is the same whatever that
operand is — including an operand whose evaluation is an error. -/
theorem short_circuit (p : Profile) (env : Env F) (l other : Expr F) (a : EvalResult F)
    (hl : eval p env l = .ok a) :
    (a.asBool = false → eval p env (.binOp .and l other) = .ok (.int 0)) ∧
    (a.asBool = true → eval p env (.binOp .or l other) = .ok (.int 1)) ∧
    (∀ t, a.asBool = true → eval p env (.ite l t other) = eval p env t) ∧
    (∀ t, a.asBool = false → eval p env (.ite l other t) = eval p env t) := by
  refine ⟨?_, ?_, ?_, ?_⟩ <;> intros <;> simp_all [eval, EvalResult.ofBool]

example : eval (F := F) .dev (fun _ => none) (.binOp .and (.int 0) (.ident "UNKNOWN")) =
    .ok (.int 0) ∧
    eval (F := F) .dev (fun _ => none) (.ident "UNKNOWN") = .err .invalidNode := by
  constructor <;> rfl

/-! ## 6. Environments of expressions -/

/-- a literal binding as the expression the Rust environment holds (`Expr::Integer/Float`) -/
def litExpr : EvalResult F → Expr F
  | .int i => .int i
  | .float f => .float f

/-- **evalX_literal_env**: `Expr::eval` over an environment of expressions (the real signature:
`HashMap<K, V: Borrow<Expr>>`, modelled by `evalX`) coincides with `eval` when every binding is
a literal, for every positive fuel — so all theorems above are about the real entry point
called with literal bindings (what SwissKnife/Converter pass for variables and constants). -/
theorem evalX_literal_env (p : Profile) (env : Env F) (fuel : Nat) (e : Expr F) :
    evalX p (fun s => (env s).map litExpr) (fuel + 1) e = eval p env e := by
  have lit : ∀ (envx : EnvX F) (vis : List String) (fuel : Nat) (v : EvalResult F),
      evalXV p envx vis fuel (litExpr v) = .ok v := by
    intro envx vis fuel v
    cases v <;> simp [litExpr, evalXV]
  unfold evalX
  induction e with
  | binOp k l r ihl ihr => cases k <;> simp only [evalXV, eval, ihl, ihr]
  | unOp k e ih => simp only [evalXV, eval, ih]
  | ite c t e ihc iht ihe => simp only [evalXV, eval, ihc, iht, ihe]
  | int i => simp [evalXV, eval]
  | float f => simp [evalXV, eval]
  | ident s =>
    simp only [evalXV, eval]
    cases h : env s with
    | none => simp
    | some v => simp [lit]

example : evalX (F := F) .dev (fun s => if s = "X" then some (.int 5) else none) 1
    (.binOp .rem (.ident "X") (.int 0)) = .err .invalidData := by
  have := evalX_literal_env (F := F) .dev (fun s => if s = "X" then some (.int 5) else none) 0
    (.binOp .rem (.ident "X") (.int 0))
  simp only [Option.map_if, litExpr] at this
  rw [this]
  rfl

private theorem evalBinStrict_ne_panic (k : BinOpKind) (h1 : k ≠ .and) (h2 : k ≠ .or)
    (a b : EvalResult F) : evalBinStrict k a b ≠ .panic := by
  intro h
  have := evalBinStrict_ok k h1 h2 a b
  rw [h] at this
  simp [Spec.toSRes] at this

private theorem bind_ne_panic {α β : Type} {x : R α} {f : α → R β} (hx : x ≠ .panic)
    (hf : ∀ a, f a ≠ .panic) : (x >>= f) ≠ .panic := by
  cases x with
  | ok a => exact hf a
  | err e => simp
  | panic => exact absurd rfl hx

/-- **evalX_total**: evaluation over ANY environment of expressions (`<Expression>` sub-formulas
referring to each other in any way, cyclic ones included), any fuel and both profiles never
panics. -/
theorem evalX_total (p : Profile) (env : EnvX F) (vis : List String) (fuel : Nat) (e : Expr F) :
    evalXV p env vis fuel e ≠ .panic := by
  induction fuel generalizing vis e with
  | zero =>
    induction e with
    | binOp k l r ihl ihr =>
      cases k <;> simp only [evalXV] <;>
        first
        | (apply bind_ne_panic ihl; intro a; split <;>
            first | (apply bind_ne_panic ihr; intro b; simp) | simp)
        | (apply bind_ne_panic ihl; intro a; apply bind_ne_panic ihr; intro b
           exact evalBinStrict_ne_panic _ (by decide) (by decide) a b)
    | unOp k e ih => simp only [evalXV]; apply bind_ne_panic ih; intro v; simp
    | ite c t e ihc iht ihe =>
      simp only [evalXV]; apply bind_ne_panic ihc; intro v; split <;> assumption
    | int i => simp [evalXV]
    | float f => simp [evalXV]
    | ident s => simp only [evalXV]; split <;> (try simp); split <;> simp
  | succ fuel ihf =>
    induction e with
    | binOp k l r ihl ihr =>
      cases k <;> simp only [evalXV] <;>
        first
        | (apply bind_ne_panic ihl; intro a; split <;>
            first | (apply bind_ne_panic ihr; intro b; simp) | simp)
        | (apply bind_ne_panic ihl; intro a; apply bind_ne_panic ihr; intro b
           exact evalBinStrict_ne_panic _ (by decide) (by decide) a b)
    | unOp k e ih => simp only [evalXV]; apply bind_ne_panic ih; intro v; simp
    | ite c t e ihc iht ihe =>
      simp only [evalXV]; apply bind_ne_panic ihc; intro v; split <;> assumption
    | int i => simp [evalXV]
    | float f => simp [evalXV]
    | ident s => simp only [evalXV]; split <;> (try simp); split <;> (try simp); exact ihf _ _

/-- **self_reference_is_error**: an identifier met again while its own bound expression is
being evaluated is the error `InvalidNode` — not unbounded recursion. -/
theorem self_reference_is_error (p : Profile) (env : EnvX F) (vis : List String) (fuel : Nat)
    (s : String) (h : s ∈ vis) : evalXV p env vis fuel (.ident s) = .err .invalidNode := by
  simp [evalXV, h]

/- `<Expression Name="A">A+1</Expression>` -/
example : evalX (F := F) .dev (fun s => if s = "A" then some (.binOp .add (.ident "A") (.int 1)) else none)
    5 (.ident "A") = .err .invalidNode := by
  simp [evalX, evalXV]

/-! ## 7. Environments of sub-expressions: the value is the reference value of the expansion -/

private theorem opt_bind_some {α β : Type} {x : Option α} {f : α → Option β} {b : β}
    (h : (x >>= f) = some b) : ∃ a, x = some a ∧ f a = some b := by
  cases x with
  | none => simp at h
  | some a => exact ⟨a, rfl, by simpa using h⟩

private theorem evalX_refines (p : Profile) (env : EnvX F) (fuel : Nat) :
    ∀ (vis : List String) (e e' : Expr F), Spec.expand env vis fuel e = some e' →
      toSRes (evalXV p env vis fuel e) = some (Spec.eval (fun _ => none) e') := by
  induction fuel with
  | zero =>
    intro vis e
    induction e with
    | int i => intro e' h; simp only [Spec.expand, Option.some.injEq] at h; subst h; simp [evalXV, Spec.eval]; rfl
    | float f => intro e' h; simp only [Spec.expand, Option.some.injEq] at h; subst h; simp [evalXV, Spec.eval]; rfl
    | ident s =>
      intro e' h
      simp only [Spec.expand] at h
      split at h
      · simp at h
      · next hv =>
        split at h
        · next hn =>
          simp only [Option.some.injEq] at h; subst h
          simp [evalXV, hv, hn, Spec.eval]; rfl
        · simp at h
    | unOp k x ih =>
      intro e' h
      simp only [Spec.expand] at h
      obtain ⟨x', hx, h⟩ := opt_bind_some h
      simp only [pure, Option.some.injEq] at h; subst h
      simp only [evalXV, Spec.eval]
      exact toSRes_bind (ih x' hx) (fun v => by simp [evalUn_ok]; rfl)
    | ite c t e ihc iht ihe =>
      intro e' h
      simp only [Spec.expand] at h
      obtain ⟨c', hc, h⟩ := opt_bind_some h
      obtain ⟨t', ht, h⟩ := opt_bind_some h
      obtain ⟨e2, he, h⟩ := opt_bind_some h
      simp only [pure, Option.some.injEq] at h; subst h
      simp only [evalXV, Spec.eval]
      refine toSRes_bind (ihc c' hc) (fun v => ?_)
      rw [toSVal_truthy]
      split
      · exact iht t' ht
      · exact ihe e2 he
    | binOp k l r ihl ihr =>
      intro e' h
      simp only [Spec.expand] at h
      obtain ⟨l', hl, h⟩ := opt_bind_some h
      obtain ⟨r', hr, h⟩ := opt_bind_some h
      simp only [pure, Option.some.injEq] at h; subst h
      have il := ihl l' hl
      have ir := ihr r' hr
      cases k
      case and =>
        simp only [evalXV, Spec.eval]
        refine toSRes_bind il (fun a => ?_)
        rw [toSVal_truthy]
        split
        · exact toSRes_bind ir (fun b => by simp; rfl)
        · simp; rfl
      case or =>
        simp only [evalXV, Spec.eval]
        refine toSRes_bind il (fun a => ?_)
        rw [toSVal_truthy]
        split
        · simp; rfl
        · exact toSRes_bind ir (fun b => by simp; rfl)
      all_goals
        simp only [evalXV, Spec.eval]
        exact toSRes_bind il (fun a => toSRes_bind ir (fun b => evalBinStrict_ok _ (by decide) (by decide) a b))
  | succ fuel ihf =>
    intro vis e
    induction e with
    | int i => intro e' h; simp only [Spec.expand, Option.some.injEq] at h; subst h; simp [evalXV, Spec.eval]; rfl
    | float f => intro e' h; simp only [Spec.expand, Option.some.injEq] at h; subst h; simp [evalXV, Spec.eval]; rfl
    | ident s =>
      intro e' h
      simp only [Spec.expand] at h
      split at h
      · simp at h
      · next hv =>
        split at h
        · next hn =>
          simp only [Option.some.injEq] at h; subst h
          simp [evalXV, hv, hn, Spec.eval]; rfl
        · next b hb =>
          simp only [evalXV, hv, hb]
          simpa using ihf (s :: vis) b e' h
    | unOp k x ih =>
      intro e' h
      simp only [Spec.expand] at h
      obtain ⟨x', hx, h⟩ := opt_bind_some h
      simp only [pure, Option.some.injEq] at h; subst h
      simp only [evalXV, Spec.eval]
      exact toSRes_bind (ih x' hx) (fun v => by simp [evalUn_ok]; rfl)
    | ite c t e ihc iht ihe =>
      intro e' h
      simp only [Spec.expand] at h
      obtain ⟨c', hc, h⟩ := opt_bind_some h
      obtain ⟨t', ht, h⟩ := opt_bind_some h
      obtain ⟨e2, he, h⟩ := opt_bind_some h
      simp only [pure, Option.some.injEq] at h; subst h
      simp only [evalXV, Spec.eval]
      refine toSRes_bind (ihc c' hc) (fun v => ?_)
      rw [toSVal_truthy]
      split
      · exact iht t' ht
      · exact ihe e2 he
    | binOp k l r ihl ihr =>
      intro e' h
      simp only [Spec.expand] at h
      obtain ⟨l', hl, h⟩ := opt_bind_some h
      obtain ⟨r', hr, h⟩ := opt_bind_some h
      simp only [pure, Option.some.injEq] at h; subst h
      have il := ihl l' hl
      have ir := ihr r' hr
      cases k
      case and =>
        simp only [evalXV, Spec.eval]
        refine toSRes_bind il (fun a => ?_)
        rw [toSVal_truthy]
        split
        · exact toSRes_bind ir (fun b => by simp; rfl)
        · simp; rfl
      case or =>
        simp only [evalXV, Spec.eval]
        refine toSRes_bind il (fun a => ?_)
        rw [toSVal_truthy]
        split
        · simp; rfl
        · exact toSRes_bind ir (fun b => by simp; rfl)
      all_goals
        simp only [evalXV, Spec.eval]
        exact toSRes_bind il (fun a => toSRes_bind ir (fun b => evalBinStrict_ok _ (by decide) (by decide) a b))

/-- **evalX_refines_reference**: for an environment of sub-expressions (`<Expression>`
bindings, dynamic scope) the model of `Expr::eval_in` computes exactly the reference value of
the formula in which every bound name is replaced by its recursively expanded expression
(`Spec.expand`; names that are not bound stay unknown identifiers) — whenever that expansion
exists, i.e. the bindings reachable from the formula are acyclic.  Both build profiles, every
float implementation, any set of names already being expanded. -/
theorem evalX_refines_reference (p : Profile) (env : EnvX F) (vis : List String) (fuel : Nat)
    (e e' : Expr F) (h : Spec.expand env vis fuel e = some e') :
    toSRes (evalXV p env vis fuel e) = some (Spec.eval (fun _ => none) e') :=
  evalX_refines p env fuel vis e e' h

/-- **evalX_acyclic_refines_reference**: the same for an environment given as a list of bindings
and the public entry point, with acyclicity as the decidable predicate `Spec.acyclicFor`. -/
theorem evalX_acyclic_refines_reference (p : Profile) (bs : List (String × Expr F)) (e : Expr F)
    (h : Spec.acyclicFor bs e = true) :
    ∃ e', Spec.expand (Spec.envOfList bs) [] (bs.length + 1) e = some e' ∧
      toSRes (evalX p (Spec.envOfList bs) (bs.length + 1) e) = some (Spec.eval (fun _ => none) e') := by
  unfold Spec.acyclicFor at h
  cases hx : Spec.expand (Spec.envOfList bs) [] (bs.length + 1) e with
  | none => rw [hx] at h; simp at h
  | some e' => exact ⟨e', rfl, evalX_refines_reference p _ [] _ e e' hx⟩

/- `A = B + 1`, `B = 2 * X` (X unbound): acyclic, `A * 3` expands to `(2 * X + 1) * 3`;
`A = A + 1` is not acyclic. -/
example : Spec.acyclicFor (F := F)
    [("A", .binOp .add (.ident "B") (.int 1)), ("B", .binOp .mul (.int 2) (.ident "X"))]
    (.binOp .mul (.ident "A") (.int 3)) = true ∧
    Spec.expand (F := F) (Spec.envOfList
      [("A", .binOp .add (.ident "B") (.int 1)), ("B", .binOp .mul (.int 2) (.ident "X"))]) [] 3
      (.binOp .mul (.ident "A") (.int 3)) =
      some (.binOp .mul (.binOp .add (.binOp .mul (.int 2) (.ident "X")) (.int 1)) (.int 3)) ∧
    Spec.acyclicFor (F := F) [("A", .binOp .add (.ident "A") (.int 1))] (.ident "A") = false := by
  simp [Spec.acyclicFor, Spec.expand, Spec.envOfList]

/-! ## 8. Build profiles -/

/-- **evalX_profile_independent**: over any environment of sub-expressions the dev build
(overflow checks on) and the release build compute the same outcome. -/
theorem evalX_profile_independent (env : EnvX F) (fuel : Nat) :
    ∀ (vis : List String) (e : Expr F), evalXV .dev env vis fuel e = evalXV .release env vis fuel e := by
  induction fuel with
  | zero =>
    intro vis e
    induction e with
    | binOp k l r ihl ihr => cases k <;> simp only [evalXV, ihl, ihr]
    | unOp k e ih => simp only [evalXV, ih]
    | ite c t e ihc iht ihe => simp only [evalXV, ihc, iht, ihe]
    | int i => simp [evalXV]
    | float f => simp [evalXV]
    | ident s => simp only [evalXV]
  | succ fuel ihf =>
    intro vis e
    induction e with
    | binOp k l r ihl ihr => cases k <;> simp only [evalXV, ihl, ihr]
    | unOp k e ih => simp only [evalXV, ih]
    | ite c t e ihc iht ihe => simp only [evalXV, ihc, iht, ihe]
    | int i => simp [evalXV]
    | float f => simp [evalXV]
    | ident s => simp only [evalXV, ihf]

/-- **integer_results_profile_independent**: an integer result never depends on the build
profile: the dev build yields the integer `i` iff the release build does (no integer
operation of the evaluator has a checked-overflow variant left). -/
theorem integer_results_profile_independent (env : Env F) (e : Expr F) (i : BitVec 64) :
    eval .dev env e = .ok (.int i) ↔ eval .release env e = .ok (.int i) := by
  rw [eval_profile_independent]

example : eval (F := F) .dev (fun _ => none) (.binOp .mul (.int 6) (.int 7)) = .ok (.int 42) ∧
    eval (F := F) .release (fun _ => none) (.binOp .mul (.int 6) (.int 7)) = .ok (.int 42) := by
  constructor <;> rfl

/-! ## 9. Character level: lexer and parser on the canonical spelling -/

/-- **lex_printChars**: the lexer reads the canonical spelling of a token list — operators with
any choice of XML escapes (`&amp;` `&lt;` `&gt;`, per character occurrence), identifiers,
decimal integers, a non-empty gap of arbitrary white space (blank, tab, CR, LF, other ASCII
control characters) after every token and optionally before the first — back as exactly that
token list.  For every token list, every escape choice, every gap. -/
theorem lex_printChars (lead : List Char) (ps : List (Spec.Piece F))
    (hl : lead.all isSpace = true) (h : ∀ p ∈ ps, Spec.Spellable p.tok ∧ Spec.GoodGap p.gap) :
    (lex (Spec.printChars lead ps) : List (Tok F)) = ps.map (·.tok) :=
  lex_printChars_aux lead ps hl h

/-- **parse_print_chars**: `parse_print` at the character level: `formula::parse` (non-ASCII
check, lexer, parser, end-of-input assertion) on ANY canonical spelling of the
minimal-parenthesis print of a tree returns that tree. -/
theorem parse_print_chars (e : Expr F) (he : Spec.LegalIdents e) (lead : List Char)
    (ps : List (Spec.Piece F)) (hps : ps.map (·.tok) = Spec.printMin e)
    (hl : lead.all isSpace = true) (h : ∀ p ∈ ps, Spec.Spellable p.tok ∧ Spec.GoodGap p.gap) :
    parseChars (Spec.printChars lead ps) = .ok e := by
  rw [parseChars_printChars lead ps hl h, hps]
  exact parse_print e he

/-- **parse_spelling_chars**: the same for every token spelling of the tree (`Spec.Spells`:
redundant parentheses, `NEG(x)`, unary plus, `PI`, `E`). -/
theorem parse_spelling_chars (e : Expr F) (lead : List Char) (ps : List (Spec.Piece F))
    (hps : Spec.Spells 0 e (ps.map (·.tok)))
    (hl : lead.all isSpace = true) (h : ∀ p ∈ ps, Spec.Spellable p.tok ∧ Spec.GoodGap p.gap) :
    parseChars (Spec.printChars lead ps) = .ok e := by
  rw [parseChars_printChars lead ps hl h]
  exact parse_spelling e _ hps

/- `a << 2` spelled ` a &lt;&lt;\t2\n` (leading blank, both `<` escaped, tab and newline as gaps). -/
example : parseChars (F := F)
    [' ', 'a', ' ', '&', 'l', 't', ';', '&', 'l', 't', ';', '\t', '2', '\n'] =
    .ok (.binOp .shl (.ident "a") (.int 2)) := by
  have hp : Spec.printChars (F := F) [' ']
      [⟨.ident "a", fun _ => false, [' ']⟩, ⟨.sym .shl, fun _ => true, ['\t']⟩, ⟨.int 2, fun _ => false, ['\n']⟩] =
      [' ', 'a', ' ', '&', 'l', 't', ';', '&', 'l', 't', ';', '\t', '2', '\n'] := by
    simp [Spec.printChars, Spec.tokChars, Spec.escape, Spec.escChar, Spec.symChars, Spec.decDigits, Spec.decRev,
      Spec.digitChar]
  rw [← hp]
  apply parse_print_chars (.binOp .shl (.ident "a") (.int 2)) (by simp [Spec.LegalIdents])
  · rfl
  · decide
  · intro p hp
    simp only [List.mem_cons, List.not_mem_nil, or_false] at hp
    rcases hp with rfl | rfl | rfl
    · exact ⟨⟨'a', [], rfl, by decide, by decide⟩, by simp, by simp [isSpace]⟩
    · exact ⟨trivial, by simp, by simp [isSpace]⟩
    · exact ⟨by simp [Spec.Spellable, I64_MAX], by simp, by simp [isSpace]⟩

/-! ## 10. Character level: hexadecimal literals, escapes in both positions of an operator -/

/-- **lex_hex_literal**: for EVERY non-empty string `hs` of hexadecimal digits (any case, any
number of leading zeros, any length) and both prefixes `0x` / `0X`, the lexer reads
`0x` + `hs` (followed by white space) as the integer token whose 64 bit pattern is the value of
the digit string when that value is below 2^64 (bit 63 set: a negative `i64`, fix b328f77), and
refuses it (the lexer panic marker) otherwise. -/
theorem lex_hex_literal (bigX : Bool) (hs : List Char) (sp : Char) (rest : List Char)
    (hne : hs ≠ []) (hall : hs.all isHexDigit = true) (hsp : isSpace sp = true) :
    (lexOne ('0' :: (if bigX then 'X' else 'x') :: hs ++ sp :: rest) : Option (Tok F × List Char)) =
      some (if hexToNat hs < 2 ^ 64 then .int (BitVec.ofNat 64 (hexToNat hs)) else .bad, sp :: rest) := by
  rw [(lexOne_hex (F := F) bigX hs sp rest hne hall hsp).1]
  simp [hexTok]

/-- **hex_spelling_value**: the value of a digit string is the number it spells: for every
`n`, every number of leading zeros and every per-digit choice of upper/lower case, the digits
`Spec.hexDigits` of `n` (positional base 16 printer of the Spec) have value `n`, consist of
hexadecimal digits, and are not empty. -/
theorem hex_spelling_value (zeros : Nat) (up : Nat → Bool) (n : Nat) :
    hexToNat (List.replicate zeros '0' ++ Spec.hexDigits up n) = n ∧
    (List.replicate zeros '0' ++ Spec.hexDigits up n).all isHexDigit = true := by
  refine ⟨by rw [hexToNat_leading_zeros, (hexDigits_ok up n).1], ?_⟩
  rw [List.all_eq_true]
  intro c hc
  rcases List.mem_append.mp hc with hc | hc
  · rw [(List.mem_replicate.mp hc).2]; decide
  · exact (hexDigits_ok up n).2.1 c hc

/-- **lex_hex_value**: for every 64 bit pattern `v`, every prefix (`0x`/`0X`), every number of
leading zeros and every case choice, the lexer reads that spelling as the integer token `v`. -/
theorem lex_hex_value (bigX : Bool) (zeros : Nat) (up : Nat → Bool) (v : BitVec 64) (sp : Char)
    (rest : List Char) (hsp : isSpace sp = true) :
    (lexOne (Spec.hexChars bigX zeros up v.toNat ++ sp :: rest) : Option (Tok F × List Char)) =
      some (.int v, sp :: rest) :=
  (lexesAs_hex (F := F) bigX zeros up v sp rest hsp).1

/-- **lex_hex_too_long**: more than 16 significant digits (a first digit other than `0` followed
by at least 16 more) is refused: `u64::from_str_radix(..).unwrap()` panics. -/
theorem lex_hex_too_long (bigX : Bool) (d : Char) (tl : List Char) (sp : Char) (rest : List Char)
    (hd : isHexDigit d = true) (hd0 : 1 ≤ hexDigitVal d) (hall : tl.all isHexDigit = true)
    (hlen : 16 ≤ tl.length) (hsp : isSpace sp = true) :
    (lexOne ('0' :: (if bigX then 'X' else 'x') :: (d :: tl) ++ sp :: rest) : Option (Tok F × List Char)) =
      some (.bad, sp :: rest) := by
  rw [lex_hex_literal bigX (d :: tl) sp rest (by simp) (by simp [hd, hall]) hsp]
  have := hexToNat_too_long d tl hd0 hlen
  rw [if_neg (by omega)]

/- `0x00fF` is 255; `0XFFFFFFFFFFFFFFFF` is -1; 17 significant digits are refused, 17 digits with a
leading zero are not. -/
example : @lexOne Unit unitFloatOps "0x00fF ".toList = some (.int 255, [' ']) ∧
    @lexOne Unit unitFloatOps "0XFFFFFFFFFFFFFFFF ".toList = some (.int (-1), [' ']) ∧
    @lexOne Unit unitFloatOps "0x10000000000000000 ".toList = some (.bad, [' ']) ∧
    @lexOne Unit unitFloatOps "0x08000000000000000 ".toList =
      some (.int (BitVec.ofNat 64 (2 ^ 63)), [' ']) := by
  decide +kernel

example : Spec.hexChars true 2 (fun i => i % 2 == 0) 0xBEEF = "0X00BeEf".toList ∨
    Spec.hexChars true 2 (fun i => i % 2 == 0) 0xBEEF = "0X00bEeF".toList := by
  decide +kernel

/-- **lex_printLits**: `lex_printChars` with hexadecimal literals: every token may be spelled
canonically (operators with any escape choice, identifiers, decimal integers) or, for an
integer token of ANY 64 bit pattern, as a hexadecimal literal (any prefix, leading zeros, case);
the lexer returns exactly the token list. -/
theorem lex_printLits (lead : List Char) (ps : List (Spec.LitPiece F))
    (hl : lead.all isSpace = true) (h : ∀ p ∈ ps, p.lit.Ok ∧ Spec.GoodGap p.gap) :
    (lex (Spec.printLits lead ps) : List (Tok F)) = ps.map (·.lit.tok) :=
  lex_printLits_aux lead ps hl h

/-- **parse_print_lits**: `formula::parse` on any such spelling of the minimal-parenthesis print
of a tree returns that tree — integer literals of the tree may now be any 64 bit pattern
(negative values through their hexadecimal spelling). -/
theorem parse_print_lits (e : Expr F) (he : Spec.LegalIdents e) (lead : List Char)
    (ps : List (Spec.LitPiece F)) (hps : ps.map (·.lit.tok) = Spec.printMin e)
    (hl : lead.all isSpace = true) (h : ∀ p ∈ ps, p.lit.Ok ∧ Spec.GoodGap p.gap) :
    parseChars (Spec.printLits lead ps) = .ok e := by
  rw [parseChars_printLits lead ps hl h, hps]
  exact parse_print e he

/-- **parse_spelling_lits**: the same for every token spelling of the tree. -/
theorem parse_spelling_lits (e : Expr F) (lead : List Char) (ps : List (Spec.LitPiece F))
    (hps : Spec.Spells 0 e (ps.map (·.lit.tok)))
    (hl : lead.all isSpace = true) (h : ∀ p ∈ ps, p.lit.Ok ∧ Spec.GoodGap p.gap) :
    parseChars (Spec.printLits lead ps) = .ok e := by
  rw [parseChars_printLits lead ps hl h]
  exact parse_spelling e _ hps

/- `a & 0X8000000000000000` (i64::MIN as a literal: not spellable in decimal). -/
example : parseChars (F := F) (Spec.printLits (F := F) []
      [⟨.canon (.ident "a") (fun _ => false), [' ']⟩, ⟨.canon (.sym .and) (fun _ => true), [' ']⟩,
       ⟨.hex true 0 (fun _ => true) (BitVec.ofNat 64 (2 ^ 63)), ['\n']⟩]) =
    .ok (.binOp .bitAnd (.ident "a") (.int (BitVec.ofNat 64 (2 ^ 63)))) := by
  apply parse_print_lits (.binOp .bitAnd (.ident "a") (.int (BitVec.ofNat 64 (2 ^ 63)))) (by simp [Spec.LegalIdents])
  · rfl
  · rfl
  · intro p hp
    simp only [List.mem_cons, List.not_mem_nil, or_false] at hp
    rcases hp with rfl | rfl | rfl
    · exact ⟨⟨'a', [], rfl, by decide, by decide⟩, by simp, by simp [isSpace]⟩
    · exact ⟨trivial, by simp, by simp [isSpace]⟩
    · exact ⟨trivial, by simp, by simp [isSpace]⟩

/-- **two_char_operator_any_escape**: every operator token, in particular every two-character
operator (`**` `&&` `||` `<>` `<=` `>=` `<<` `>>`), is read back for EVERY choice of XML escapes
of its characters — first character, second character, both, none (`f 0`, `f 1` arbitrary):
`&amp;&amp;`, `&&amp;`, `&amp;&`, `&lt;&gt;`, `<&gt;`, `&lt;>`, `&lt;&lt;`, `&gt;=` … -/
theorem two_char_operator_any_escape (s : Sym) (f : Nat → Bool) (sp : Char) (rest : List Char)
    (hsp : isSpace sp = true) :
    (lexOne (Spec.escape f 0 (Spec.symChars s) ++ sp :: rest) : Option (Tok F × List Char)) =
      some (.sym s, sp :: rest) :=
  (lexOne_sym s f sp rest hsp).1

/- the escape in the SECOND position only, and in both -/
example : Spec.escape (fun i => i == 1) 0 (Spec.symChars .doubleAnd) = "&&amp;".toList ∧
    Spec.escape (fun i => i == 1) 0 (Spec.symChars .ne) = "<&gt;".toList ∧
    Spec.escape (fun _ => true) 0 (Spec.symChars .shl) = "&lt;&lt;".toList ∧
    Spec.escape (fun i => i == 1) 0 (Spec.symChars .shr) = ">&gt;".toList := by
  decide +kernel

example : @lex Unit unitFloatOps "a &&amp; b <&gt; c &lt;&lt; d >&gt; e &amp;&amp; f &lt;&gt; g".toList =
    [.ident "a", .sym .doubleAnd, .ident "b", .sym .ne, .ident "c", .sym .shl, .ident "d", .sym .shr,
     .ident "e", .sym .doubleAnd, .ident "f", .sym .ne, .ident "g"] := by
  decide +kernel

/-! ## 11. Integer power -/

/-- **int_pow_is_math_pow**: for EVERY integer base `a` and EVERY exponent `b ≥ 0` — including
`b ≥ 2^32` (fix 6a76fb6: the exponent is not truncated to `u32`) and odd bases — the value of
`a ** b`, whatever sub-formulas `l`, `r` produced the operands, is the mathematical power
`a^b` reduced to 64 bits two's complement; in both build profiles, never a panic. -/
theorem int_pow_is_math_pow (p : Profile) (env : Env F) (l r : Expr F) (a b : BitVec 64)
    (hl : eval p env l = .ok (.int a)) (hr : eval p env r = .ok (.int b)) (hb : 0 ≤ b.toInt) :
    eval p env (.binOp .pow l r) = .ok (.int (BitVec.ofInt 64 (a.toInt ^ b.toNat))) := by
  have hs : b.slt 0#64 = false := by simp [BitVec.slt]; omega
  have hw : wrappingPow a b = BitVec.ofInt 64 (a.toInt ^ b.toNat) := by
    apply BitVec.eq_of_toInt_eq
    rw [wrappingPow_ok, BitVec.toInt_ofInt]
    rfl
  simp [eval, hl, hr, evalBinStrict, EvalResult.isInteger, EvalResult.asInteger, hs, hw]

/-- **int_pow_negative_exponent**: the documented behaviour for a negative integer exponent:
the operation is carried out in floating point (`powf` of the converted operands). -/
theorem int_pow_negative_exponent (p : Profile) (env : Env F) (l r : Expr F) (a b : BitVec 64)
    (hl : eval p env l = .ok (.int a)) (hr : eval p env r = .ok (.int b)) (hb : b.toInt < 0) :
    eval p env (.binOp .pow l r) =
      .ok (.float (FloatOps.powf (FloatOps.ofInt a) (FloatOps.ofInt b))) := by
  have hs : b.slt 0#64 = true := by simp [BitVec.slt]; omega
  simp [eval, hl, hr, evalBinStrict, EvalResult.isInteger, EvalResult.asInteger, EvalResult.asFloat, hs]

/- `3 ** (2^32 + 1)`: odd base, exponent above `u32::MAX` (a truncated exponent would give 3);
`(-7) ** i64::MAX`; `2 ** -1` is floating point. -/
example : eval (F := F) .dev (fun _ => none) (.binOp .pow (.int 3) (.int 0x100000001)) =
      .ok (.int 0x67b8badc00000003) ∧
    eval (F := F) .release (fun _ => none) (.binOp .pow (.int (-7)) (.int 0x7fffffffffffffff)) =
      .ok (.int 0x9249249249249249) ∧
    eval (F := F) .dev (fun _ => none) (.binOp .pow (.int 2) (.int (-1))) =
      .ok (.float (FloatOps.powf (FloatOps.ofInt 2) (FloatOps.ofInt (-1)))) := by
  have h1 : wrappingPow 3#64 4294967297#64 = 7473929035676909571#64 := by decide +kernel
  have h2 : wrappingPow 18446744073709551609#64 9223372036854775807#64 = 10540996613548315209#64 := by decide +kernel
  refine ⟨?_, ?_, ?_⟩
  · simp [eval, evalBinStrict, EvalResult.isInteger, EvalResult.asInteger, h1, BitVec.slt]
  · simp [eval, evalBinStrict, EvalResult.isInteger, EvalResult.asInteger, h2, BitVec.slt]
  · rfl

/-! ## 12. Character level: tokens written with no white space between them -/

/-- **lex_gapfree**: `lex_printLits` with possibly EMPTY gaps: the white space after a token may
be left out whenever the next token is `Spec.separable` from it — the first decoded character of
the next token cannot extend the token under the lexer's maximal munch (`Spec.Lit.ext`: an
identifier is extended by letters, digits, `.`, `_`; a decimal literal by digits, `.`, `e`, `E`,
`x`, `X`; a hexadecimal literal by hexadecimal digits; a float literal by digits and, without
an exponent, `.`, `e`, `E`; `*` by `*`, `&` by `&`, `|` by `|`, `<` by
`>` `=` `<`, `>` by `=` `>`; nothing extends the other operators), and an unescaped `&` is not
followed by `a`, `l`, `g`.  The lexer then returns exactly the token list: for every token
list, escape choice, literal spelling and choice of gaps. -/
theorem lex_gapfree (lead : List Char) (ps : List (Spec.LitPiece F))
    (hl : lead.all isSpace = true) (h : ∀ p ∈ ps, p.lit.Ok ∧ p.gap.all isSpace = true)
    (hch : Spec.chainOk ps = true) :
    (lex (Spec.printLits lead ps) : List (Tok F)) = ps.map (·.lit.tok) :=
  lex_gapfree_aux lead ps hl h hch

/-- **parse_print_gapfree**: `formula::parse` on any such spelling (gaps optional where
separable) of the minimal-parenthesis print of a tree returns that tree. -/
theorem parse_print_gapfree (e : Expr F) (he : Spec.LegalIdents e) (lead : List Char)
    (ps : List (Spec.LitPiece F)) (hps : ps.map (·.lit.tok) = Spec.printMin e)
    (hl : lead.all isSpace = true) (h : ∀ p ∈ ps, p.lit.Ok ∧ p.gap.all isSpace = true)
    (hch : Spec.chainOk ps = true) :
    parseChars (Spec.printLits lead ps) = .ok e := by
  rw [parseChars_gapfree lead ps hl h hch, hps]
  exact parse_print e he

/-- **parse_spelling_gapfree**: the same for every token spelling of the tree (`Spec.Spells`). -/
theorem parse_spelling_gapfree (e : Expr F) (lead : List Char) (ps : List (Spec.LitPiece F))
    (hps : Spec.Spells 0 e (ps.map (·.lit.tok)))
    (hl : lead.all isSpace = true) (h : ∀ p ∈ ps, p.lit.Ok ∧ p.gap.all isSpace = true)
    (hch : Spec.chainOk ps = true) :
    parseChars (Spec.printLits lead ps) = .ok e := by
  rw [parseChars_gapfree lead ps hl h hch]
  exact parse_spelling e _ hps

/-- the pieces of `(A+1)*-B<=0x3` with no white space at all -/
def gapfreeExample : List (Spec.LitPiece F) :=
  [⟨.canon (.sym .lparen) (fun _ => false), []⟩, ⟨.canon (.ident "A") (fun _ => false), []⟩,
   ⟨.canon (.sym .plus) (fun _ => false), []⟩, ⟨.canon (.int 1) (fun _ => false), []⟩,
   ⟨.canon (.sym .rparen) (fun _ => false), []⟩, ⟨.canon (.sym .star) (fun _ => false), []⟩,
   ⟨.canon (.sym .minus) (fun _ => false), []⟩, ⟨.canon (.ident "B") (fun _ => false), []⟩,
   ⟨.canon (.sym .le) (fun _ => false), []⟩, ⟨.hex false 0 (fun _ => false) 3, []⟩]

example : Spec.printLits [] (gapfreeExample (F := Unit)) = "(A+1)*-B<=0x3".toList ∧
    Spec.chainOk (gapfreeExample (F := Unit)) = true := by
  decide +kernel

example : parseChars (F := F) (Spec.printLits [] (gapfreeExample (F := F))) =
    .ok (.binOp .le (.binOp .mul (.binOp .add (.ident "A") (.int 1)) (.unOp .neg (.ident "B"))) (.int 3)) := by
  apply parse_print_gapfree
    (.binOp .le (.binOp .mul (.binOp .add (.ident "A") (.int 1)) (.unOp .neg (.ident "B"))) (.int 3))
    (by simp [Spec.LegalIdents])
  · rfl
  · rfl
  · intro p hp
    simp only [gapfreeExample, List.mem_cons, List.not_mem_nil, or_false] at hp
    rcases hp with rfl | rfl | rfl | rfl | rfl | rfl | rfl | rfl | rfl | rfl <;>
      first
        | exact ⟨trivial, rfl⟩
        | exact ⟨⟨'A', [], rfl, by decide, by decide⟩, rfl⟩
        | exact ⟨⟨'B', [], rfl, by decide, by decide⟩, rfl⟩
        | exact ⟨by simp [Spec.Lit.Ok, Spec.Spellable, I64_MAX], rfl⟩
  · rfl

/- `separable` is not a formality: `A` directly before `1` is the identifier `A1`, `<` directly
before `=` is `<=`, `*` before `*` is `**`, `1` before `e5` is a float — and these pairs are not
separable. -/
example : @lex Unit unitFloatOps "A1".toList = [.ident "A1"] ∧
    @lex Unit unitFloatOps "a<=b".toList = [.ident "a", .sym .le, .ident "b"] ∧
    @lex Unit unitFloatOps "2**3".toList = [.int 2, .sym .doubleStar, .int 3] ∧
    @lex Unit unitFloatOps "1e5".toList = [.float ()] ∧
    Spec.separable (F := Unit) (.canon (.ident "A") (fun _ => false)) (.canon (.int 1) (fun _ => false)) = false ∧
    Spec.separable (F := Unit) (.canon (.sym .lt) (fun _ => false)) (.canon (.sym .eq) (fun _ => false)) = false ∧
    Spec.separable (F := Unit) (.canon (.sym .star) (fun _ => false)) (.canon (.sym .star) (fun _ => false)) = false ∧
    Spec.separable (F := Unit) (.canon (.int 1) (fun _ => false)) (.canon (.ident "e5") (fun _ => false)) = false := by
  decide +kernel

/-! ## 13. Character level: float literal text -/

/-- **lex_float_literal**: for EVERY well-formed float literal text (`Spec.FloatText.Ok`: integer
digits, optional `.` and fraction digits, optional exponent `e`/`E` with optional sign — at
least one mantissa digit, a `.` or an exponent, exponent digits not empty; forms `1.5`, `1.`,
`.5`, `1e3`, `1.5E-3`, `.5e+2` …) followed by anything that cannot extend it, the lexer
produces the float token `FloatOps.ofDec m e` where `m` is the number spelled by ALL mantissa
digits (integer part then fraction) and `e` is the written exponent minus the number of fraction
digits — i.e. it hands exactly the decimal number `m·10^e` of the text to `f64::from_str`
(fix 60c4d5f for the exponent forms).  `ofDec` itself (correct rounding) stays abstract. -/
theorem lex_float_literal (t : Spec.FloatText) (hok : t.Ok) (sp : Char) (rest : List Char)
    (hsp : isSpace sp = true) :
    (lexOne (t.chars ++ sp :: rest) : Option (Tok F × List Char)) =
      some (.float (FloatOps.ofDec (digitsToNat (t.ip ++ t.fp))
        (t.expValue - (t.fp.length : Int))), sp :: rest) := by
  have hst : Stop t.ext (sp :: rest) :=
    Or.inr ⟨sp, rest, nextChar_plain sp rest (ne_of_pred isSpace sp '&' hsp (by decide)),
      space_not_ext (F := F) (.float t) hok sp hsp⟩
  exact (lexOne_float_gen (F := F) t hok _ hst).1

/- `12.50e-3`: mantissa digits 1250, exponent -3 - 2 = -5;  `.5`: 5·10^-1;  `1E+2`: 1·10^2. -/
example (sp : Char) (rest : List Char) (hsp : isSpace sp = true) :
    (lexOne ("12.50e-3".toList ++ sp :: rest) : Option (Tok F × List Char)) =
      some (.float (FloatOps.ofDec 1250 (-5)), sp :: rest) ∧
    (lexOne (".5".toList ++ sp :: rest) : Option (Tok F × List Char)) =
      some (.float (FloatOps.ofDec 5 (-1)), sp :: rest) ∧
    (lexOne ("1E+2".toList ++ sp :: rest) : Option (Tok F × List Char)) =
      some (.float (FloatOps.ofDec 1 2), sp :: rest) := by
  refine ⟨?_, ?_, ?_⟩
  · exact lex_float_literal ⟨['1', '2'], true, ['5', '0'], some ⟨false, some true, ['3']⟩⟩
      (by simp [Spec.FloatText.Ok, isDigit]) sp rest hsp
  · exact lex_float_literal ⟨[], true, ['5'], none⟩ (by simp [Spec.FloatText.Ok, isDigit]) sp rest hsp
  · exact lex_float_literal ⟨['1'], false, [], some ⟨true, some false, ['2']⟩⟩
      (by simp [Spec.FloatText.Ok, isDigit]) sp rest hsp

/-- the pieces of `2*1.5e-3<.5` with no white space (float literals are literals of
`lex_gapfree` / `parse_print_gapfree` like any other) -/
def gapfreeFloatExample : List (Spec.LitPiece F) :=
  [⟨.canon (.int 2) (fun _ => false), []⟩, ⟨.canon (.sym .star) (fun _ => false), []⟩,
   ⟨.float ⟨['1'], true, ['5'], some ⟨false, some true, ['3']⟩⟩, []⟩,
   ⟨.canon (.sym .lt) (fun _ => false), []⟩, ⟨.float ⟨[], true, ['5'], none⟩, []⟩]

example : Spec.printLits [] (gapfreeFloatExample (F := Unit)) = "2*1.5e-3<.5".toList ∧
    Spec.chainOk (gapfreeFloatExample (F := Unit)) = true := by
  decide +kernel

example : parseChars (F := F) (Spec.printLits [] (gapfreeFloatExample (F := F))) =
    .ok (.binOp .lt (.binOp .mul (.int 2) (.float (FloatOps.ofDec 15 (-4)))) (.float (FloatOps.ofDec 5 (-1)))) := by
  apply parse_print_gapfree
    (.binOp .lt (.binOp .mul (.int 2) (.float (FloatOps.ofDec 15 (-4)))) (.float (FloatOps.ofDec 5 (-1))))
    (by simp [Spec.LegalIdents])
  · rfl
  · rfl
  · intro p hp
    simp only [gapfreeFloatExample, List.mem_cons, List.not_mem_nil, or_false] at hp
    rcases hp with rfl | rfl | rfl | rfl | rfl <;> refine ⟨?_, rfl⟩ <;>
      first
        | exact trivial
        | (show Spec.FloatText.Ok _; simp [Spec.FloatText.Ok, isDigit]; done)
        | (simp [Spec.Lit.Ok, Spec.Spellable, I64_MAX]; done)
  · rfl

/-! ## 14. Cyclic bindings in operands that are never evaluated -/

private theorem toSRes_bind' {x : R (EvalResult F)} {sx : Except SErr (SVal F)}
    {f : EvalResult F → R (EvalResult F)} {g : SVal F → Except SErr (SVal F)}
    (hx : toSRes x = some sx) (hf : ∀ v, sx = .ok (toSVal v) → toSRes (f v) = some (g (toSVal v))) :
    toSRes (x >>= f) = some (sx >>= g) := by
  cases x with
  | ok v =>
    simp only [toSRes_ok, Option.some.injEq] at hx
    subst hx
    exact hf v rfl
  | err e =>
    cases e <;> simp only [toSRes, Option.some.injEq, reduceCtorEq] at hx <;> subst hx <;> rfl
  | panic => simp [toSRes] at hx

private theorem lazy_step (p : Profile) (env : EnvX F) (fuel : Nat)
    (H : ∀ f, fuel = f + 1 → ∀ (vis : List String) (e e' : Expr F),
      Spec.expandLazy env vis f e = some e' →
      toSRes (evalXV p env vis f e) = some (Spec.eval (fun _ => none) e')) :
    ∀ (vis : List String) (e e' : Expr F), Spec.expandLazy env vis fuel e = some e' →
      toSRes (evalXV p env vis fuel e) = some (Spec.eval (fun _ => none) e') := by
  intro vis e
  induction e with
  | int i => intro e' h; simp only [Spec.expandLazy, Option.some.injEq] at h; subst h; simp [evalXV, Spec.eval]; rfl
  | float f => intro e' h; simp only [Spec.expandLazy, Option.some.injEq] at h; subst h; simp [evalXV, Spec.eval]; rfl
  | ident s =>
    intro e' h
    simp only [Spec.expandLazy] at h
    split at h
    · simp at h
    · next hv =>
      split at h
      · next hn =>
        simp only [Option.some.injEq] at h; subst h
        simp [evalXV, hv, hn, Spec.eval]; rfl
      · next b hb =>
        cases fuel with
        | zero => simp at h
        | succ f =>
          simp only [evalXV, hv, hb]
          simpa using H f rfl (s :: vis) b e' h
  | unOp k x ih =>
    intro e' h
    simp only [Spec.expandLazy] at h
    obtain ⟨x', hx, h⟩ := opt_bind_some h
    simp only [pure, Option.some.injEq] at h; subst h
    simp only [evalXV, Spec.eval]
    exact toSRes_bind (ih x' hx) (fun v => by simp [evalUn_ok]; rfl)
  | ite c t e ihc iht ihe =>
    intro e' h
    simp only [Spec.expandLazy] at h
    obtain ⟨c', hc, h⟩ := opt_bind_some h
    have ic := ihc c' hc
    cases hsc : Spec.eval (fun _ => none) c' with
    | error er =>
      simp only [hsc, Spec.truthOf, pure, Option.some.injEq] at h; subst h
      simp only [evalXV, Spec.eval]
      refine toSRes_bind' ic (fun a ha => ?_)
      rw [hsc] at ha; cases ha
    | ok v =>
      cases hb : v.truthy with
      | true =>
        simp only [hsc, Spec.truthOf, hb] at h
        obtain ⟨t', ht, h⟩ := opt_bind_some h
        simp only [pure, Option.some.injEq] at h; subst h
        simp only [evalXV, Spec.eval]
        refine toSRes_bind' ic (fun a ha => ?_)
        rw [hsc] at ha; injection ha with ha; subst ha
        rw [hb]
        rw [toSVal_truthy] at hb
        simp only [hb, if_true]
        exact iht t' ht
      | false =>
        simp only [hsc, Spec.truthOf, hb] at h
        obtain ⟨e2, he, h⟩ := opt_bind_some h
        simp only [pure, Option.some.injEq] at h; subst h
        simp only [evalXV, Spec.eval]
        refine toSRes_bind' ic (fun a ha => ?_)
        rw [hsc] at ha; injection ha with ha; subst ha
        rw [hb]
        rw [toSVal_truthy] at hb
        simp only [hb, Bool.false_eq_true, if_false]
        exact ihe e2 he
  | binOp k l r ihl ihr =>
    intro e' h
    cases k
    case and =>
      simp only [Spec.expandLazy] at h
      obtain ⟨l', hl, h⟩ := opt_bind_some h
      have il := ihl l' hl
      cases hsl : Spec.eval (fun _ => none) l' with
      | error er =>
        simp only [hsl, Spec.truthOf, pure, Option.some.injEq] at h; subst h
        simp only [evalXV, Spec.eval]
        refine toSRes_bind' il (fun a ha => ?_)
        rw [hsl] at ha; cases ha
      | ok v =>
        cases hb : v.truthy with
        | true =>
          simp only [hsl, Spec.truthOf, hb] at h
          obtain ⟨r', hr, h⟩ := opt_bind_some h
          simp only [pure, Option.some.injEq] at h; subst h
          have ir := ihr r' hr
          simp only [evalXV, Spec.eval]
          refine toSRes_bind il (fun a => ?_)
          rw [toSVal_truthy]
          split
          · exact toSRes_bind ir (fun b => by simp; rfl)
          · simp; rfl
        | false =>
          simp only [hsl, Spec.truthOf, hb, pure, Option.some.injEq] at h; subst h
          simp only [evalXV, Spec.eval]
          refine toSRes_bind' il (fun a ha => ?_)
          rw [hsl] at ha; injection ha with ha; subst ha
          rw [hb]
          rw [toSVal_truthy] at hb
          simp [hb]; rfl
    case or =>
      simp only [Spec.expandLazy] at h
      obtain ⟨l', hl, h⟩ := opt_bind_some h
      have il := ihl l' hl
      cases hsl : Spec.eval (fun _ => none) l' with
      | error er =>
        simp only [hsl, Spec.truthOf, pure, Option.some.injEq] at h; subst h
        simp only [evalXV, Spec.eval]
        refine toSRes_bind' il (fun a ha => ?_)
        rw [hsl] at ha; cases ha
      | ok v =>
        cases hb : v.truthy with
        | false =>
          simp only [hsl, Spec.truthOf, hb] at h
          obtain ⟨r', hr, h⟩ := opt_bind_some h
          simp only [pure, Option.some.injEq] at h; subst h
          have ir := ihr r' hr
          simp only [evalXV, Spec.eval]
          refine toSRes_bind il (fun a => ?_)
          rw [toSVal_truthy]
          split
          · simp; rfl
          · exact toSRes_bind ir (fun b => by simp; rfl)
        | true =>
          simp only [hsl, Spec.truthOf, hb, pure, Option.some.injEq] at h; subst h
          simp only [evalXV, Spec.eval]
          refine toSRes_bind' il (fun a ha => ?_)
          rw [hsl] at ha; injection ha with ha; subst ha
          rw [hb]
          rw [toSVal_truthy] at hb
          simp [hb]; rfl
    all_goals
      simp only [Spec.expandLazy] at h
      obtain ⟨l', hl, h⟩ := opt_bind_some h
      have il := ihl l' hl
      cases hsl : Spec.eval (fun _ => none) l' with
      | error er =>
        simp only [hsl, Spec.truthOf, pure, Option.some.injEq] at h; subst h
        simp only [evalXV, Spec.eval]
        refine toSRes_bind' il (fun a ha => ?_)
        rw [hsl] at ha; cases ha
      | ok v =>
        simp only [hsl, Spec.truthOf] at h
        obtain ⟨r', hr, h⟩ := opt_bind_some h
        simp only [pure, Option.some.injEq] at h; subst h
        simp only [evalXV, Spec.eval]
        exact toSRes_bind il (fun a => toSRes_bind (ihr r' hr)
          (fun b => evalBinStrict_ok _ (by decide) (by decide) a b))

/-- **evalX_refines_lazy_reference**: the reference OUTCOME of a formula over `<Expression>`
bindings that are cyclic only in operands which are never evaluated.  `Spec.expandLazy` replaces
every bound name by its recursively expanded expression — but does not expand (and so does not
care about cycles in) the right operand of `&&` / `||` when the left operand decides, the right
operand of any binary operator when the left operand is an error, nor the branch of `?:` that
is not selected; those operands are replaced by the literal
`0`, which the lazy reference evaluator never looks at.  Whenever this lazy expansion exists,
the model of `Expr::eval_in` returns exactly the reference value of the lazily expanded formula:
for every environment (also cyclic), both profiles, any names already being expanded.  It
strictly extends `evalX_refines_reference` (where the full expansion must exist). -/
theorem evalX_refines_lazy_reference (p : Profile) (env : EnvX F) (vis : List String) (fuel : Nat)
    (e e' : Expr F) (h : Spec.expandLazy env vis fuel e = some e') :
    toSRes (evalXV p env vis fuel e) = some (Spec.eval (fun _ => none) e') := by
  induction fuel generalizing vis e e' with
  | zero => exact lazy_step p env 0 (fun f hf => by cases hf) vis e e' h
  | succ n ih =>
    exact lazy_step p env (n + 1) (fun f hf vis e e' h => by cases hf; exact ih vis e e' h) vis e e' h

/-- **evalX_lazy_reference_public**: the same for the public entry point `Expr::eval` and an
environment given as a list of bindings. -/
theorem evalX_lazy_reference_public (p : Profile) (bs : List (String × Expr F)) (e e' : Expr F)
    (h : Spec.expandLazy (Spec.envOfList bs) [] (bs.length + 1) e = some e') :
    toSRes (evalX p (Spec.envOfList bs) (bs.length + 1) e) = some (Spec.eval (fun _ => none) e') :=
  evalX_refines_lazy_reference p _ [] _ e e' h

/- `A := A + 1` is cyclic; `0 && A`, `1 || A`, `1 ? 7 : A` never evaluate it: the full expansion
does not exist, the lazy one does, and the values are 0, 1, 7.  `1 && A` does evaluate it. -/
example :
    let env : EnvX F := fun s => if s = "A" then some (.binOp .add (.ident "A") (.int 1)) else none
    Spec.expand env [] 2 (.binOp .and (.int 0) (.ident "A")) = none ∧
    Spec.expandLazy env [] 2 (.binOp .and (.int 0) (.ident "A")) = some (.binOp .and (.int 0) (.int 0)) ∧
    evalX (F := F) .dev env 2 (.binOp .and (.int 0) (.ident "A")) = .ok (.int 0) ∧
    evalX (F := F) .dev env 2 (.binOp .or (.int 1) (.ident "A")) = .ok (.int 1) ∧
    evalX (F := F) .dev env 2 (.ite (.int 1) (.int 7) (.ident "A")) = .ok (.int 7) ∧
    Spec.expandLazy env [] 2 (.binOp .and (.int 1) (.ident "A")) = none ∧
    evalX (F := F) .dev env 2 (.binOp .and (.int 1) (.ident "A")) = .err .invalidNode := by
  intro env
  refine ⟨?_, ?_, ?_, ?_, ?_, ?_, ?_⟩ <;> simp [env, Spec.expand, Spec.expandLazy, Spec.truthOf, Spec.eval,
    evalX, evalXV, EvalResult.asBool, EvalResult.ofBool, Spec.SVal.truthy] <;> rfl

/- an unknown identifier on the left of a strict operator: the cyclic right operand is not
evaluated, the outcome is the error of the left operand. -/
example :
    let env : EnvX F := fun s => if s = "A" then some (.binOp .add (.ident "A") (.int 1)) else none
    Spec.expandLazy env [] 2 (.binOp .add (.ident "U") (.ident "A")) =
      some (.binOp .add (.ident "U") (.int 0)) ∧
    toSRes (evalX (F := F) .dev env 2 (.binOp .add (.ident "U") (.ident "A"))) =
      some (.error .unknownIdent) := by
  intro env
  have h : Spec.expandLazy env [] 2 (.binOp .add (.ident "U") (.ident "A")) =
      some (.binOp .add (.ident "U") (.int 0)) := by
    simp [env, Spec.expandLazy, Spec.truthOf, Spec.eval]; rfl
  exact ⟨h, by rw [evalX, evalX_refines_lazy_reference _ _ _ _ _ _ h]; rfl⟩

end CamVerif.C05
