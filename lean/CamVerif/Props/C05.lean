/-
C05 — Formula evaluation follows GenApi expression semantics and is total.

Property theorems only.  Model: `CamVerif.Model.Formula` (hand-written mirror of
`genapi/src/formula.rs`, tied to the code by `harness/src/bin/c05.rs`).  Reference:
`CamVerif.Spec.Formula` (the standard's precedence table and an evaluator on mathematical
integers).  All statements hold for every implementation `F` of the floating point
operations (`FloatOps F`), every expression tree, every environment of literal bindings and
both build profiles.
-/
import CamVerif.Proofs.C05Eval
import CamVerif.Proofs.C05Parse
namespace CamVerif.C05
open CamVerif CamVerif.Formula CamVerif.Formula.Proofs
open CamVerif.Formula.Spec (toSRes toSVal toSEnv SVal SErr binStrict)

variable {F : Type} [FloatOps F]

/-! ## 1. The precedence ladder is the standard's table -/

/-- **ladder_is_standard**: the rows of the parser's precedence ladder (one per
`parse_binop!` call, loosest first, operators in the order they are tried) are exactly the
left-associative binary levels of the standard's operator table. -/
theorem ladder_is_standard : Formula.ladder = Spec.binaryRows := by decide

/-- **functions_are_standard**: every function name of the standard is in the parser's
function table and denotes the standard's operator (SGN was missing before the repair). -/
theorem functions_are_standard : ∀ nk ∈ Spec.functions, funcOf nk.1 = some nk.2 := by decide

/-! ## 2. Parsing inverts printing (precedence and associativity) -/

/-- **parse_print**: for every expression tree (all 19 binary operators, prefix `-` `~`, the 16
functions, `?:`, literals, variables other than the constants `PI`/`E`) the parser reads the
minimal-parenthesis print — parentheses only where the standard's precedence/associativity
table requires them — back as exactly that tree.  Token level (`parseToks` is
`Parser::expr` on the lexer's token stream); by induction over the tree, no bound. -/
theorem parse_print (e : Expr F) (h : Spec.LegalIdents e) :
    parseToks (Spec.printMin e) = .ok e :=
  parseToks_printMin e h

example : parseToks (F := F)
    [.ident "a", .sym .minus, .ident "b", .sym .minus, .ident "c", .sym .star, .sym .minus,
     .int 2, .sym .doubleStar, .sym .minus, .int 3, .sym .doubleStar, .int 2] =
    .ok (.binOp .sub (.binOp .sub (.ident "a") (.ident "b"))
      (.binOp .mul (.ident "c") (.unOp .neg (.binOp .pow (.int 2)
        (.unOp .neg (.binOp .pow (.int 3) (.int 2))))))) :=
  parse_print (.binOp .sub (.binOp .sub (.ident "a") (.ident "b"))
      (.binOp .mul (.ident "c") (.unOp .neg (.binOp .pow (.int 2)
        (.unOp .neg (.binOp .pow (.int 3) (.int 2))))))) (by simp [Spec.LegalIdents])

/-- The minimal print of `a op1 b op2 c` grouped by the standard's table has no parentheses. -/
private theorem printMin_group3 (op1 op2 : BinOpKind) (a b c : String) :
    Spec.printMin (Spec.group3 op1 op2 (.ident a) (.ident b) (.ident c) : Expr F) =
      [.ident a, .sym (Spec.symOf op1), .ident b, .sym (Spec.symOf op2), .ident c] := by
  cases op1 <;> cases op2 <;> rfl

/-- **adjacent_pair** (precedence/associativity of the ladder): for every ordered pair of
binary operators (19 x 19, `**` included) the input `a op1 b op2 c` is grouped as the
standard's table says: the tighter operator first, on a tie to the left — except `**`, which
groups to the right. -/
theorem adjacent_pair (op1 op2 : BinOpKind) (a b c : String)
    (ha : a ≠ "PI" ∧ a ≠ "E") (hb : b ≠ "PI" ∧ b ≠ "E") (hc : c ≠ "PI" ∧ c ≠ "E") :
    parseToks ([.ident a, .sym (Spec.symOf op1), .ident b, .sym (Spec.symOf op2), .ident c] :
      List (Tok F)) = .ok (Spec.group3 op1 op2 (.ident a) (.ident b) (.ident c)) := by
  rw [← printMin_group3]
  apply parse_print
  unfold Spec.group3
  split <;> simp [Spec.LegalIdents, ha, hb, hc]

example : parseToks ([.ident "a", .sym .plus, .ident "b", .sym .star, .ident "c"] : List (Tok F)) =
    .ok (.binOp .add (.ident "a") (.binOp .mul (.ident "b") (.ident "c"))) :=
  adjacent_pair .add .mul "a" "b" "c" (by decide) (by decide) (by decide)

/-- **unary_and_ternary_nesting**: unary operators bind tighter than every binary operator but
looser than `**`; `?:` is right-associative and binds loosest. -/
theorem unary_and_ternary_nesting (op : BinOpKind) (hop : op ≠ .pow) (a b c d e : String)
    (ha : a ≠ "PI" ∧ a ≠ "E") (hb : b ≠ "PI" ∧ b ≠ "E") (hc : c ≠ "PI" ∧ c ≠ "E")
    (hd : d ≠ "PI" ∧ d ≠ "E") (he : e ≠ "PI" ∧ e ≠ "E") :
    -- `- a op b` is `(-a) op b`
    parseToks ([.sym .minus, .ident a, .sym (Spec.symOf op), .ident b] : List (Tok F)) =
      .ok (.binOp op (.unOp .neg (.ident a)) (.ident b)) ∧
    -- `- a ** b` is `-(a ** b)`, `a ** - b ** c` is `a ** (-(b ** c))`
    parseToks ([.sym .minus, .ident a, .sym .doubleStar, .ident b] : List (Tok F)) =
      .ok (.unOp .neg (.binOp .pow (.ident a) (.ident b))) ∧
    parseToks ([.ident a, .sym .doubleStar, .sym .minus, .ident b, .sym .doubleStar, .ident c] :
      List (Tok F)) =
      .ok (.binOp .pow (.ident a) (.unOp .neg (.binOp .pow (.ident b) (.ident c)))) ∧
    -- `a ? b : c ? d : e` is `a ? b : (c ? d : e)`; `a op b ? c : d` is `(a op b) ? c : d`
    parseToks ([.ident a, .sym .question, .ident b, .sym .colon, .ident c, .sym .question,
      .ident d, .sym .colon, .ident e] : List (Tok F)) =
      .ok (.ite (.ident a) (.ident b) (.ite (.ident c) (.ident d) (.ident e))) ∧
    parseToks ([.ident a, .sym (Spec.symOf op), .ident b, .sym .question, .ident c, .sym .colon,
      .ident d] : List (Tok F)) =
      .ok (.ite (.binOp op (.ident a) (.ident b)) (.ident c) (.ident d)) := by
  have p1 : Spec.printMin (.binOp op (.unOp .neg (.ident a)) (.ident b) : Expr F) =
      [.sym .minus, .ident a, .sym (Spec.symOf op), .ident b] := by
    cases op <;> first | (exact absurd rfl hop) | rfl
  have p5 : Spec.printMin (.ite (.binOp op (.ident a) (.ident b)) (.ident c) (.ident d) : Expr F) =
      [.ident a, .sym (Spec.symOf op), .ident b, .sym .question, .ident c, .sym .colon, .ident d] := by
    cases op <;> first | (exact absurd rfl hop) | rfl
  refine ⟨?_, ?_, ?_, ?_, ?_⟩
  · rw [← p1]; apply parse_print; simp [Spec.LegalIdents, ha, hb]
  · exact parse_print (.unOp .neg (.binOp .pow (.ident a) (.ident b))) (by simp [Spec.LegalIdents, ha, hb])
  · exact parse_print (.binOp .pow (.ident a) (.unOp .neg (.binOp .pow (.ident b) (.ident c))))
      (by simp [Spec.LegalIdents, ha, hb, hc])
  · exact parse_print (.ite (.ident a) (.ident b) (.ite (.ident c) (.ident d) (.ident e)))
      (by simp [Spec.LegalIdents, ha, hb, hc, hd, he])
  · rw [← p5]; apply parse_print; simp [Spec.LegalIdents, ha, hb, hc, hd]

/-! ### characters → tokens (not proved in general: tied by the differential) -/

/-- Spelling of a token list with single blanks (numbers in decimal).  Float tokens have no
canonical text and are outside this statement. -/
def spell : List (Tok F) → List Char
  | [] => []
  | t :: ts =>
    (match t with
      | .sym s => (match s with
        | .lparen => "(" | .rparen => ")" | .plus => "+" | .minus => "-" | .star => "*"
        | .doubleStar => "**" | .slash => "/" | .percent => "%" | .and => "&" | .doubleAnd => "&&"
        | .or => "|" | .doubleOr => "||" | .caret => "^" | .tilde => "~" | .eq => "=" | .ne => "<>"
        | .colon => ":" | .question => "?" | .lt => "<" | .le => "<=" | .gt => ">" | .ge => ">="
        | .shl => "<<" | .shr => ">>").toList
      | .ident s => s.toList
      | .int i => (toString i.toNat).toList
      | _ => []) ++ ' ' :: spell ts

/-- literals and identifiers that have a spelling the lexer accepts -/
def Lexable : Expr F → Prop
  | .binOp _ l r => Lexable l ∧ Lexable r
  | .unOp _ x => Lexable x
  | .ite c t e => Lexable c ∧ Lexable t ∧ Lexable e
  | .int i => i.toNat < 2 ^ 63
  | .float _ => False
  | .ident s => ∃ c cs, s.toList = c :: cs ∧ isAlpha c = true ∧ cs.all isIdentCont = true

/-- Full-strength statement at the character level (kept as a checked definition; proved here
only below the lexer, `parse_print`; the lexer is tied to the code by the differential over
whitespace / entity / literal-form variants). -/
def C05_parse_print_string_statement : Prop :=
  ∀ (e : Expr F), Spec.LegalIdents e → Lexable e → parseChars (spell (Spec.printMin e)) = .ok e

/- Concrete strings through lexer + parser, evaluated by the kernel (entities, hex, dotted
identifiers, whitespace; a malformed input panics, as in the code). -/
example : @parseChars Unit unitFloatOps "(1 + 2*3 - 6) = 1 ? 0x10 : VAR.Max &lt;&lt; 2".toList =
    .ok (.ite (.binOp .eq (.binOp .sub (.binOp .add (.int 1) (.binOp .mul (.int 2) (.int 3))) (.int 6))
      (.int 1)) (.int 16) (.binOp .shl (.ident "VAR.Max") (.int 2))) := by
  decide +kernel

example : @parseChars Unit unitFloatOps "SGN(-X) &amp;&amp; 2 ** 3 ** 2 <> .5".toList =
    .ok (.binOp .and (.unOp .sgn (.unOp .neg (.ident "X")))
      (.binOp .ne (.binOp .pow (.int 2) (.binOp .pow (.int 3) (.int 2))) (.float ()))) := by
  decide +kernel

example : @parseChars Unit unitFloatOps "1 +".toList = .panic ∧
    @parseChars Unit unitFloatOps "9223372036854775808".toList = .panic := by
  decide +kernel

/-! ## 3. Evaluation refines the reference evaluator -/

private theorem toSRes_bind {x : R (EvalResult F)} {sx : Except SErr (SVal F)}
    {f : EvalResult F → R (EvalResult F)} {g : SVal F → Except SErr (SVal F)}
    (hx : toSRes x = some sx) (hf : ∀ v, toSRes (f v) = some (g (toSVal v))) :
    toSRes (x >>= f) = some (sx >>= g) := by
  cases x with
  | ok v =>
    simp only [toSRes_ok, Option.some.injEq] at hx
    subst hx
    exact hf v
  | err e =>
    cases e <;> simp only [toSRes, Option.some.injEq, reduceCtorEq] at hx <;> subst hx <;> rfl
  | panic => simp [toSRes] at hx

/-- **eval_refines_spec**: for every expression, environment of literal bindings and build
profile the model of `Expr::eval` returns exactly the reference evaluator's outcome:
integer operands stay integers with 64-bit wrap-around (`+ - * % **` with a non-negative
exponent, comparisons, shifts, bit operations, unary minus, ABS, SGN), `/` and the listed
functions are floating point, mixed operands are promoted, `&&`, `||` and `?:` evaluate only
the operands they need, an unknown identifier and an integer remainder by zero are errors.
In particular the outcome is never a panic (`toSRes` maps a panic to `none`). -/
theorem eval_refines_spec (p : Profile) (env : Env F) (e : Expr F) :
    toSRes (eval p env e) = some (Spec.eval (toSEnv env) e) := by
  induction e with
  | int i => rfl
  | float f => rfl
  | ident s =>
    simp only [eval, Spec.eval, toSEnv]
    cases env s <;> rfl
  | unOp k e ih =>
    simp only [eval, Spec.eval]
    exact toSRes_bind ih (fun v => by simp [evalUn_ok]; rfl)
  | ite c t e ihc iht ihe =>
    simp only [eval, Spec.eval]
    refine toSRes_bind ihc (fun v => ?_)
    rw [toSVal_truthy]
    split
    · exact iht
    · exact ihe
  | binOp k l r ihl ihr =>
    have strict : ∀ k, k ≠ .and → k ≠ .or →
        toSRes (eval p env l >>= fun a => eval p env r >>= fun b => evalBinStrict k a b) =
          some (Spec.eval (toSEnv env) l >>= fun a => Spec.eval (toSEnv env) r >>= fun b =>
            binStrict k a b) :=
      fun k h1 h2 => toSRes_bind ihl (fun a => toSRes_bind ihr (fun b => evalBinStrict_ok k h1 h2 a b))
    cases k
    case and =>
      simp only [eval, Spec.eval]
      refine toSRes_bind ihl (fun a => ?_)
      rw [toSVal_truthy]
      split
      · exact toSRes_bind ihr (fun b => by simp; rfl)
      · simp; rfl
    case or =>
      simp only [eval, Spec.eval]
      refine toSRes_bind ihl (fun a => ?_)
      rw [toSVal_truthy]
      split
      · simp; rfl
      · exact toSRes_bind ihr (fun b => by simp; rfl)
    all_goals
      simp only [eval, Spec.eval]
      exact strict _ (by decide) (by decide)

example : toSRes (eval (F := F) .dev (fun _ => none)
    (.binOp .add (.int 0x7fffffffffffffff) (.int 1))) = some (.ok (.int (-9223372036854775808))) := by
  rw [eval_refines_spec]; rfl

/-! ## 4. Totality -/

/-- **eval_total**: evaluation never panics — for every expression tree, every environment
(including 0, ±1, `i64::MIN/MAX`, NaN, ±inf: the statement is for all values and every float
implementation) and both build profiles. -/
theorem eval_total (p : Profile) (env : Env F) (e : Expr F) : eval p env e ≠ .panic := by
  intro h
  have := eval_refines_spec p env e
  rw [h] at this
  simp [toSRes] at this

/-- **eval_profile_independent**: the dev (overflow checks on) and release builds agree. -/
theorem eval_profile_independent (env : Env F) (e : Expr F) :
    eval .dev env e = eval .release env e := by
  induction e with
  | binOp k l r ihl ihr => cases k <;> simp only [eval, ihl, ihr]
  | unOp k e ih => simp only [eval, ih]
  | ite c t e ihc iht ihe => simp only [eval, ihc, iht, ihe]
  | int i => rfl
  | float f => rfl
  | ident s => rfl

/-- **unknown_ident_is_error**: an identifier that is not bound evaluates to the error
`InvalidNode` (not a panic, not a default value). -/
theorem unknown_ident_is_error (p : Profile) (env : Env F) (s : String) (h : env s = none) :
    eval p env (.ident s) = .err .invalidNode := by
  simp [eval, h]

/-- **rem_by_zero_is_error**: an integer remainder by zero is the error `InvalidData`. -/
theorem rem_by_zero_is_error (p : Profile) (env : Env F) (l r : Expr F) (x : BitVec 64)
    (hl : eval p env l = .ok (.int x)) (hr : eval p env r = .ok (.int 0)) :
    eval p env (.binOp .rem l r) = .err .invalidData := by
  simp [eval, hl, hr, evalBinStrict, EvalResult.isInteger, EvalResult.asInteger]

/-! ## 5. Short circuit -/

/-- **short_circuit**: when the left operand decides `&&` / `||`, or the condition selects a
branch of `?:`, the other operand is not evaluated: the result is the same whatever that
operand is — including an operand whose evaluation is an error. -/
theorem short_circuit (p : Profile) (env : Env F) (l other : Expr F) (a : EvalResult F)
    (hl : eval p env l = .ok a) :
    (a.asBool = false → eval p env (.binOp .and l other) = .ok (.int 0)) ∧
    (a.asBool = true → eval p env (.binOp .or l other) = .ok (.int 1)) ∧
    (∀ t, a.asBool = true → eval p env (.ite l t other) = eval p env t) ∧
    (∀ t, a.asBool = false → eval p env (.ite l other t) = eval p env t) := by
  refine ⟨?_, ?_, ?_, ?_⟩ <;> intros <;> simp_all [eval, EvalResult.ofBool]

example : eval (F := F) .dev (fun _ => none) (.binOp .and (.int 0) (.ident "UNKNOWN")) =
    .ok (.int 0) ∧
    eval (F := F) .dev (fun _ => none) (.ident "UNKNOWN") = .err .invalidNode := by
  constructor <;> rfl

/-! ## 6. Environments of expressions -/

/-- a literal binding as the expression the Rust environment holds (`Expr::Integer/Float`) -/
def litExpr : EvalResult F → Expr F
  | .int i => .int i
  | .float f => .float f

/-- **evalX_literal_env**: `Expr::eval` over an environment of expressions (the real signature:
`HashMap<K, V: Borrow<Expr>>`, modelled by `evalX`) coincides with `eval` when every binding is
a literal, for every positive fuel — so all theorems above are about the real entry point
called with literal bindings (what SwissKnife/Converter pass for variables and constants). -/
theorem evalX_literal_env (p : Profile) (env : Env F) (fuel : Nat) (e : Expr F) :
    evalX p (fun s => (env s).map litExpr) (fuel + 1) e = eval p env e := by
  have lit : ∀ (envx : EnvX F) (fuel : Nat) (v : EvalResult F),
      evalX p envx fuel (litExpr v) = .ok v := by
    intro envx fuel v
    cases v <;> simp [litExpr, evalX]
  induction e with
  | binOp k l r ihl ihr => cases k <;> simp only [evalX, eval, ihl, ihr]
  | unOp k e ih => simp only [evalX, eval, ih]
  | ite c t e ihc iht ihe => simp only [evalX, eval, ihc, iht, ihe]
  | int i => simp [evalX, eval]
  | float f => simp [evalX, eval]
  | ident s =>
    simp only [evalX, eval]
    cases h : env s with
    | none => simp
    | some v => simp [lit]

example : evalX (F := F) .dev (fun s => if s = "X" then some (.int 5) else none) 1
    (.binOp .rem (.ident "X") (.int 0)) = .err .invalidData := by
  have := evalX_literal_env (F := F) .dev (fun s => if s = "X" then some (.int 5) else none) 0
    (.binOp .rem (.ident "X") (.int 0))
  simp only [Option.map_if, litExpr] at this
  rw [this]
  rfl

end CamVerif.C05
