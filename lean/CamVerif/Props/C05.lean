/-
C05 — Formula evaluation follows GenApi expression semantics and is total.

Property theorems only.  Model: `CamVerif.Model.Formula` (hand-written mirror of
`genapi/src/formula.rs`, tied to the code by `harness/src/bin/c05.rs`).  Reference:
`CamVerif.Spec.Formula` (the standard's precedence table and an evaluator on mathematical
integers).  All statements hold for every implementation `F` of the floating point
operations (`FloatOps F`), every expression tree, every environment of literal bindings and
both build profiles.
-/
import CamVerif.Proofs.C05Eval
namespace CamVerif.C05
open CamVerif CamVerif.Formula CamVerif.Formula.Proofs
open CamVerif.Formula.Spec (toSRes toSVal toSEnv SVal SErr binStrict)

variable {F : Type} [FloatOps F]

/-! ## 1. The precedence ladder is the standard's table -/

/-- **ladder_is_standard**: the rows of the parser's precedence ladder (one per
`parse_binop!` call, loosest first, operators in the order they are tried) are exactly the
left-associative binary levels of the standard's operator table. -/
theorem ladder_is_standard : Formula.ladder = Spec.binaryRows := by decide

/-- **functions_are_standard**: every function name of the standard is in the parser's
function table and denotes the standard's operator (SGN was missing before the repair). -/
theorem functions_are_standard : ∀ nk ∈ Spec.functions, funcOf nk.1 = some nk.2 := by decide

/-! ## 3. Evaluation refines the reference evaluator -/

private theorem toSRes_bind {x : R (EvalResult F)} {sx : Except SErr (SVal F)}
    {f : EvalResult F → R (EvalResult F)} {g : SVal F → Except SErr (SVal F)}
    (hx : toSRes x = some sx) (hf : ∀ v, toSRes (f v) = some (g (toSVal v))) :
    toSRes (x >>= f) = some (sx >>= g) := by
  cases x with
  | ok v =>
    simp only [toSRes_ok, Option.some.injEq] at hx
    subst hx
    exact hf v
  | err e =>
    cases e <;> simp only [toSRes, Option.some.injEq, reduceCtorEq] at hx <;> subst hx <;> rfl
  | panic => simp [toSRes] at hx

/-- **eval_refines_spec**: for every expression, environment of literal bindings and build
profile the model of `Expr::eval` returns exactly the reference evaluator's outcome:
integer operands stay integers with 64-bit wrap-around (`+ - * % **` with a non-negative
exponent, comparisons, shifts, bit operations, unary minus, ABS, SGN), `/` and the listed
functions are floating point, mixed operands are promoted, `&&`, `||` and `?:` evaluate only
the operands they need, an unknown identifier and an integer remainder by zero are errors.
In particular the outcome is never a panic (`toSRes` maps a panic to `none`). -/
theorem eval_refines_spec (p : Profile) (env : Env F) (e : Expr F) :
    toSRes (eval p env e) = some (Spec.eval (toSEnv env) e) := by
  induction e with
  | int i => rfl
  | float f => rfl
  | ident s =>
    simp only [eval, Spec.eval, toSEnv]
    cases env s <;> rfl
  | unOp k e ih =>
    simp only [eval, Spec.eval]
    exact toSRes_bind ih (fun v => by simp [evalUn_ok]; rfl)
  | ite c t e ihc iht ihe =>
    simp only [eval, Spec.eval]
    refine toSRes_bind ihc (fun v => ?_)
    rw [toSVal_truthy]
    split
    · exact iht
    · exact ihe
  | binOp k l r ihl ihr =>
    have strict : ∀ k, k ≠ .and → k ≠ .or →
        toSRes (eval p env l >>= fun a => eval p env r >>= fun b => evalBinStrict k a b) =
          some (Spec.eval (toSEnv env) l >>= fun a => Spec.eval (toSEnv env) r >>= fun b =>
            binStrict k a b) :=
      fun k h1 h2 => toSRes_bind ihl (fun a => toSRes_bind ihr (fun b => evalBinStrict_ok k h1 h2 a b))
    cases k
    case and =>
      simp only [eval, Spec.eval]
      refine toSRes_bind ihl (fun a => ?_)
      rw [toSVal_truthy]
      split
      · exact toSRes_bind ihr (fun b => by simp; rfl)
      · simp; rfl
    case or =>
      simp only [eval, Spec.eval]
      refine toSRes_bind ihl (fun a => ?_)
      rw [toSVal_truthy]
      split
      · simp; rfl
      · exact toSRes_bind ihr (fun b => by simp; rfl)
    all_goals
      simp only [eval, Spec.eval]
      exact strict _ (by decide) (by decide)

example : toSRes (eval (F := F) .dev (fun _ => none)
    (.binOp .add (.int 0x7fffffffffffffff) (.int 1))) = some (.ok (.int (-9223372036854775808))) := by
  rw [eval_refines_spec]; rfl

/-! ## 4. Totality -/

/-- **eval_total**: evaluation never panics — for every expression tree, every environment
(including 0, ±1, `i64::MIN/MAX`, NaN, ±inf: the statement is for all values and every float
implementation) and both build profiles. -/
theorem eval_total (p : Profile) (env : Env F) (e : Expr F) : eval p env e ≠ .panic := by
  intro h
  have := eval_refines_spec p env e
  rw [h] at this
  simp [toSRes] at this

/-- **eval_profile_independent**: the dev (overflow checks on) and release builds agree. -/
theorem eval_profile_independent (env : Env F) (e : Expr F) :
    eval .dev env e = eval .release env e := by
  induction e with
  | binOp k l r ihl ihr => cases k <;> simp only [eval, ihl, ihr]
  | unOp k e ih => simp only [eval, ih]
  | ite c t e ihc iht ihe => simp only [eval, ihc, iht, ihe]
  | int i => rfl
  | float f => rfl
  | ident s => rfl

/-- **unknown_ident_is_error**: an identifier that is not bound evaluates to the error
`InvalidNode` (not a panic, not a default value). -/
theorem unknown_ident_is_error (p : Profile) (env : Env F) (s : String) (h : env s = none) :
    eval p env (.ident s) = .err .invalidNode := by
  simp [eval, h]

/-- **rem_by_zero_is_error**: an integer remainder by zero is the error `InvalidData`. -/
theorem rem_by_zero_is_error (p : Profile) (env : Env F) (l r : Expr F) (x : BitVec 64)
    (hl : eval p env l = .ok (.int x)) (hr : eval p env r = .ok (.int 0)) :
    eval p env (.binOp .rem l r) = .err .invalidData := by
  simp [eval, hl, hr, evalBinStrict, EvalResult.isInteger, EvalResult.asInteger]

/-! ## 5. Short circuit -/

/-- **short_circuit**: when the left operand decides `&&` / `||`, or the condition selects a
branch of `?:`, the other operand is not evaluated: the result is the same whatever that
operand is — including an operand whose evaluation is an error. -/
theorem short_circuit (p : Profile) (env : Env F) (l other : Expr F) (a : EvalResult F)
    (hl : eval p env l = .ok a) :
    (a.asBool = false → eval p env (.binOp .and l other) = .ok (.int 0)) ∧
    (a.asBool = true → eval p env (.binOp .or l other) = .ok (.int 1)) ∧
    (∀ t, a.asBool = true → eval p env (.ite l t other) = eval p env t) ∧
    (∀ t, a.asBool = false → eval p env (.ite l other t) = eval p env t) := by
  refine ⟨?_, ?_, ?_, ?_⟩ <;> intros <;> simp_all [eval, EvalResult.ofBool]

example : eval (F := F) .dev (fun _ => none) (.binOp .and (.int 0) (.ident "UNKNOWN")) =
    .ok (.int 0) ∧
    eval (F := F) .dev (fun _ => none) (.ident "UNKNOWN") = .err .invalidNode := by
  constructor <;> rfl

end CamVerif.C05
