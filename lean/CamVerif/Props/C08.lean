/-
C08 — Acknowledge and event packet decoding is total and faithful.

Property theorems only; helper lemmas are in `Proofs/C08.lean`.  Every statement
quantifies over all byte strings (any length), both build profiles and all typed views.
The model (`Model/Ack.lean`) describes `ack.rs` / `event.rs` after the three `fix:` commits
(namespace mask `0b11`; WriteMemStacked refuses `scd_len % 4 ≠ 0`; WriteMem / Pending refuse
`scd_len < 4`).
-/
import CamVerif.Proofs.C08
import CamVerif.Proofs.C08Growth
import CamVerif.Proofs.C08Encode
import CamVerif.Gen.AckTables
namespace CamVerif.C08
open CamVerif CamVerif.Ack
open CamVerif.Spec.GenCP (slice uintAt)
open CamVerif.Spec.GenCPAck

/-! ## 3. status_split (stated first: the other theorems use it) -/

/-- **status_split**: for every 16-bit status code and both profiles, `Status::parse`
(incl. its `debug_assert!`s) returns exactly what the reference classification says:
namespace bits 14:13 select GenCP / USB3 Vision / device specific / reserved (error),
the (severity, number) tables select the code, anything else is `InvalidPacket`;
it never panics. -/
theorem status_split (p : Profile) (code : Nat) (h : code < 2 ^ 16) :
    Status.ofCode p code =
      (match statusClass code with
       | some k => .ok ⟨code, ofClass k⟩
       | none => .err .invalidPacket) :=
  ofCode_eq_spec p code h

/-- **status_split (fatal bit)**: `is_fatal()` is bit 15 of the code. -/
theorem status_fatal (code : Nat) (k : StatusKind) (h : code < 2 ^ 16) :
    (Status.mk code k).isFatal = statusFatal code := by
  simp only [Status.isFatal, statusFatal, severity, Nat.shiftRight_eq_div_pow]
  have h2 : code / 2 ^ 15 = 0 ∨ code / 2 ^ 15 = 1 := by omega
  rcases h2 with h1 | h1 <;> simp [h1]

private theorem lookup_success (sev num : Nat)
    (h : lookupCode sev num genCpTable = some .SUCCESS) : sev = 0 ∧ num = 0 := by
  simp only [genCpTable, lookupCode] at h
  by_cases c : sev = 0 ∧ num = 0
  · exact c
  · rw [if_neg c] at h
    repeat' split at h
    all_goals simp at h

/-- **status_split (success)**: a parsed status `is_success()` exactly when the code is
0x0000 (GenCP SUCCESS); in particular no device-specific or USB3 Vision code is a success. -/
theorem status_success (p : Profile) (code : Nat) (s : Status) (h : code < 2 ^ 16)
    (hs : Status.ofCode p code = .ok s) : s.isSuccess = statusSuccess code := by
  rw [ofCode_eq_spec p code h, specStatus] at hs
  by_cases h0 : code = 0
  · subst h0
    have : statusClass 0 = some (.genCp .SUCCESS) := by decide
    rw [this] at hs
    injection hs with hs
    rw [← hs]; rfl
  · have hf : statusSuccess code = false := by simp [statusSuccess, h0]
    rw [hf]
    split at hs
    · rename_i k hk
      injection hs with hs
      rw [← hs]
      -- a class whose model kind is `GenCp(Success)` is SUCCESS, which only code 0 has
      have hne : k ≠ .genCp .SUCCESS := by
        intro hk'
        rw [hk'] at hk
        unfold statusClass at hk
        have hlt : nspace code < 4 := Nat.mod_lt _ (by decide)
        have hc : nspace code = 0 ∨ nspace code = 1 ∨ nspace code = 2 ∨ nspace code = 3 := by omega
        rcases hc with hn | hn | hn | hn <;> rw [hn] at hk <;> simp at hk
        · have := lookup_success _ _ hk
          simp only [severity, number] at this
          simp only [nspace] at hn
          omega
      cases k with
      | genCp c => cases c <;> first | exact absurd rfl hne | rfl
      | usb3v c => cases c <;> rfl
      | deviceSpecific => rfl
    · cases hs

/-- **status_split (namespaces)**: the reference classification is by namespace —
GenCP codes have bits 14:13 = 00, USB3 Vision 01, every 10 code is device specific,
every 11 code is refused. -/
theorem status_namespace (code : Nat) :
    (∀ c, statusClass code = some (.genCp c) → nspace code = 0) ∧
    (∀ c, statusClass code = some (.usb3v c) → nspace code = 1) ∧
    (nspace code = 2 ↔ statusClass code = some .deviceSpecific) ∧
    (nspace code = 3 → statusClass code = none) := by
  have hlt : nspace code < 4 := Nat.mod_lt _ (by decide)
  have hc : nspace code = 0 ∨ nspace code = 1 ∨ nspace code = 2 ∨ nspace code = 3 := by omega
  unfold statusClass
  rcases hc with h | h | h | h <;> rw [h] <;> simp <;>
    (intros; cases hh : lookupCode (severity code) (number code) _ <;> simp_all)

/-! ## 1. parse_total -/

/-- **parse_total (acknowledge header)**: for every byte string and profile
`AckPacket::parse` returns `Ok` or `Err`, never panics. -/
theorem ack_parse_total (p : Profile) (bs : Bytes) : AckPacket.parse p bs ≠ .panic := by
  by_cases h : 12 ≤ bs.length
  · rw [ack_parse_eq p bs h, ackFormula]
    split
    · intro h; cases h
    · apply bind_ne_panic (ofCode_ne_panic p _ (uintAt2_lt _ _))
      intro st _
      apply bind_ne_panic (ofId_ne_panic _)
      intro k _ h; cases h
  · exact (ack_parse_short p bs (by omega)).ne_panic

/-- **parse_total (typed views)**: for every SCD slice, every CCD and profile each of
the five `scd_as::<T>()` views returns `Ok` or `Err`, never panics. -/
theorem ack_views_total (p : Profile) (buf : Bytes) (ccd : AckCcd) :
    ReadMem.parse buf ccd ≠ .panic ∧ WriteMem.parse buf ccd ≠ .panic ∧
    Pending.parse buf ccd ≠ .panic ∧ ReadMemStacked.parse buf ccd ≠ .panic ∧
    WriteMemStacked.parse p buf ccd ≠ .panic := by
  have hd : parseDataScd buf ccd ≠ .panic := by
    unfold parseDataScd; split <;> intro h <;> cases h
  have hv : parseReservedU16 buf ccd ≠ .panic := by
    rw [parseReservedU16_eq]; repeat' split
    all_goals intro h; cases h
  refine ⟨hd, hv, hv, hd, ?_⟩
  simp only [WriteMemStacked.parse]
  split
  · intro h; cases h
  · rename_i hm
    have hk : ccd.scdLen = 4 * (ccd.scdLen / 4) := by omega
    rw [hk]
    have hs := stackedLoop_spec p buf (ccd.scdLen / 4) (buf.length + 1) 0 (by omega) (by omega)
    by_cases hok : StackedOk buf 0 (ccd.scdLen / 4)
    · rw [hs.1 hok]; intro h; cases h
    · exact (hs.2 hok).ne_panic

/-- **parse_total (event)**: for every byte string `EventPacket::parse` returns `Ok`
or `Err`, never panics. -/
theorem event_parse_total (bs : Bytes) : EventPacket.parse bs ≠ .panic := by
  by_cases h : 12 ≤ bs.length
  · rw [event_parse_eq bs h, eventFormula]
    repeat' split
    · intro h; cases h
    · intro h; cases h
    · apply bind_ne_panic (eventLoop_ne_panic bs _ _ _ (by omega))
      intro a _ h; cases h
  · exact (event_parse_short bs (by omega)).ne_panic

/-! ## 2. parse_faithful -/

/-- **parse_faithful (acknowledge header)**: whenever `AckPacket::parse` returns `Ok`,
the buffer holds at least the 12 header bytes with the acknowledge magic, and every
exposed field equals the reference extraction at its fixed offset: status code (bytes
4..6) with its class per the reference tables and fatal bit, acknowledge kind (command id
at 6..8), SCD length (8..10), request id (10..12); `raw_scd` is exactly `buffer[12..]`. -/
theorem ack_parse_faithful (p : Profile) (bs : Bytes) (pk : AckPacket)
    (h : AckPacket.parse p bs = .ok pk) :
    HEADER_LEN ≤ bs.length ∧ magicOf bs = ACK_MAGIC ∧
    pk.ccd.status.code = statusCodeOf bs ∧
    (∃ k, statusClass (statusCodeOf bs) = some k ∧ pk.ccd.status.kind = ofClass k) ∧
    pk.ccd.status.isFatal = statusFatal (statusCodeOf bs) ∧
    pk.ccd.status.isSuccess = statusSuccess (statusCodeOf bs) ∧
    (∃ k, ackKindOfId (commandIdOf bs) = some k ∧ pk.ccd.scdKind = ofKind k) ∧
    pk.ccd.scdLen = scdLenOf bs ∧ pk.ccd.requestId = requestIdOf bs ∧
    pk.rawOff = 12 ∧ pk.rawScd = bs.drop 12 ∧ pk.rawOff + pk.rawScd.length = bs.length := by
  have h12 : 12 ≤ bs.length := by
    by_cases h12 : 12 ≤ bs.length
    · exact h12
    · exact absurd h ((ack_parse_short p bs (by omega)).ne_ok pk)
  rw [ack_parse_eq p bs h12, ackFormula] at h
  split at h
  · cases h
  · rename_i hm
    obtain ⟨st, hst, h⟩ := bind_eq_ok h
    obtain ⟨kd, hkd, h⟩ := bind_eq_ok h
    injection h with h
    subst h
    have hsucc := status_success p _ st (uintAt2_lt _ _) hst
    rw [ofCode_eq_spec p _ (uintAt2_lt _ _), specStatus] at hst
    rw [ofId_eq_spec, specKind] at hkd
    simp only [HEADER_LEN, magicOf, statusCodeOf, commandIdOf, scdLenOf, requestIdOf, ACK_MAGIC]
    refine ⟨h12, by simpa [ACK_PREFIX_MAGIC] using hm, ?_, ?_, ?_, hsucc, ?_, by first | rfl | trivial,
      by first | rfl | trivial, by first | rfl | trivial, by first | rfl | trivial, ?_⟩
    · split at hst
      · injection hst with hst; rw [← hst]
      · cases hst
    · split at hst
      · rename_i k hk
        injection hst with hst
        exact ⟨k, hk, by rw [← hst]⟩
      · cases hst
    · split at hst
      · injection hst with hst
        rw [← hst]
        exact status_fatal _ _ (uintAt2_lt _ _)
      · cases hst
    · split at hkd
      · rename_i k hk
        injection hkd with hkd
        exact ⟨k, hk, hkd.symm⟩
      · cases hkd
    · simp only [List.length_drop]; omega

/-- **parse_faithful (typed views)**: for a successfully parsed packet, whenever a typed
view returns `Ok` its payload is what the reference extracts from the same bytes, and
payload slices lie inside the buffer:
ReadMem / ReadMemStacked data = `buffer[12, 12+scd_len)`;
WriteMem length / Pending timeout = the reference view `valueViewOf`: the u16 at 14 with
reserved (12..14) = 0, inside the SCD the header declares (`4 ≤ scd_len`) and the buffer;
WriteMemStacked lengths = the `scd_len/4` u16s at `12+4i+2` with every reserved = 0. -/
theorem ack_views_faithful (p : Profile) (bs : Bytes) (pk : AckPacket)
    (h : AckPacket.parse p bs = .ok pk) :
    (∀ d, (ReadMem.parse pk.rawScd pk.ccd = .ok d ∨ ReadMemStacked.parse pk.rawScd pk.ccd = .ok d) →
      d = dataOf bs ∧ d.length = scdLenOf bs ∧ 12 + scdLenOf bs ≤ bs.length) ∧
    (∀ v, (WriteMem.parse pk.rawScd pk.ccd = .ok v ∨ Pending.parse pk.rawScd pk.ccd = .ok v) →
      valueViewOf bs = some v ∧ v = valueOf bs ∧ reservedOf bs = 0 ∧ 4 ≤ scdLenOf bs ∧
      16 ≤ bs.length) ∧
    (∀ ls, WriteMemStacked.parse p pk.rawScd pk.ccd = .ok ls →
      ls = stackedLengthsOf bs ∧ scdLenOf bs % 4 = 0 ∧ 12 + scdLenOf bs ≤ bs.length ∧
      ∀ i, i < scdLenOf bs / 4 → stackedReservedOf bs i = 0) := by
  obtain ⟨h12, _, _, _, _, _, _, hlen, _, _, hraw, _⟩ := ack_parse_faithful p bs pk h
  simp only [HEADER_LEN] at h12
  rw [hraw]
  refine ⟨?_, ?_, ?_⟩
  · intro d hd
    have hd' : parseDataScd (bs.drop 12) pk.ccd = .ok d := by
      rcases hd with hd | hd <;> exact hd
    unfold parseDataScd at hd'
    split at hd'
    · cases hd'
    · rename_i hl
      injection hd' with hd'
      simp only [List.length_drop, hlen] at hl
      have hb : 12 + scdLenOf bs ≤ bs.length := by omega
      refine ⟨?_, ?_, hb⟩
      · rw [← hd', hlen]; rfl
      · rw [← hd', hlen]; exact slice_length bs 12 _ hb
  · intro v hv
    have hv' : parseReservedU16 (bs.drop 12) pk.ccd = .ok v := by
      rcases hv with hv | hv <;> exact hv
    rw [parseReservedU16_eq] at hv'
    simp only [List.length_drop, uintAt_drop, hlen] at hv'
    split at hv'
    · cases hv'
    · rename_i hsl
      split at hv'
      · cases hv'
      · split at hv'
        · cases hv'
        · rename_i hr
          split at hv'
          · cases hv'
          · injection hv' with hv'
            have hres : reservedOf bs = 0 := by simpa [reservedOf] using hr
            have hval : v = valueOf bs := hv'.symm
            refine ⟨?_, hval, hres, by omega, by omega⟩
            unfold valueViewOf
            rw [if_pos ⟨by omega, by omega, hres⟩, hval]
  · intro ls hls
    simp only [WriteMemStacked.parse] at hls
    split at hls
    · cases hls
    · rename_i hm
      have hm' : pk.ccd.scdLen % 4 = 0 := by omega
      have hk : pk.ccd.scdLen = 4 * (pk.ccd.scdLen / 4) := by omega
      rw [hk] at hls
      have hs := stackedLoop_spec p (bs.drop 12) (pk.ccd.scdLen / 4) ((bs.drop 12).length + 1) 0
        (by omega) (by omega)
      by_cases hok : StackedOk (bs.drop 12) 0 (pk.ccd.scdLen / 4)
      · rw [hs.1 hok] at hls
        injection hls with hls
        obtain ⟨hb, hres⟩ := hok
        simp only [List.length_drop, Nat.zero_add] at hb
        rw [← hlen]
        refine ⟨?_, hm', by omega, ?_⟩
        · rw [← hls]
          simp only [stackedLengthsAt, stackedLengthsOf, uintAt_drop, ← hlen, Nat.zero_add]
          apply List.map_congr_left
          intro i _
          simp only [stackedLengthOf, Nat.add_assoc]
        · intro i hi
          have := hres i hi
          simpa [stackedReservedOf, uintAt_drop] using this
      · exact absurd hls ((hs.2 hok).ne_ok ls)

/-- **parse_faithful (event)**: whenever `EventPacket::parse` returns `Ok`, the buffer
holds the 12 header bytes with the event magic and command id 0x0C00, the request id is
bytes 10..12, and the returned events, in order, tile the `scd_len` SCD bytes from
offset 12 exactly as the reference layout relation `EventsAt` prescribes (size / id /
timestamp at their offsets); each event's data is the buffer slice
`[dataOff, dataOff + len)` and lies inside the buffer. -/
theorem event_parse_faithful (bs : Bytes) (pk : EventPacket)
    (h : EventPacket.parse bs = .ok pk) :
    HEADER_LEN ≤ bs.length ∧ magicOf bs = EVENT_MAGIC ∧
    commandIdOf bs = Spec.GenCPAck.EVENT_COMMAND_ID ∧
    pk.ccd.requestId = requestIdOf bs ∧ pk.ccd.scdLen = scdLenOf bs ∧
    EventsAt bs 12 (scdLenOf bs) (pk.scd.map toView) ∧
    ∀ e ∈ pk.scd, e.data = slice bs e.dataOff e.data.length ∧
      e.dataOff + e.data.length ≤ bs.length := by
  have h12 : 12 ≤ bs.length := by
    by_cases h12 : 12 ≤ bs.length
    · exact h12
    · exact absurd h ((event_parse_short bs (by omega)).ne_ok pk)
  rw [event_parse_eq bs h12, eventFormula] at h
  split at h
  · cases h
  · rename_i hm
    split at h
    · cases h
    · rename_i hc
      obtain ⟨evs, hevs, h⟩ := bind_eq_ok h
      injection h with h
      subst h
      obtain ⟨h1, h2⟩ := eventLoop_sound bs _ _ _ _ hevs
      simp only [HEADER_LEN, magicOf, commandIdOf, requestIdOf, scdLenOf, EVENT_MAGIC,
        Spec.GenCPAck.EVENT_COMMAND_ID]
      exact ⟨h12, by simpa [EVENT_PREFIX_MAGIC] using hm,
        by simpa [Ack.EVENT_COMMAND_ID] using hc, by first | rfl | trivial,
        by first | rfl | trivial, h1, h2⟩

/-! ## 4. accepts_conforming -/

/-- **accepts_conforming (acknowledge header)**: every buffer that starts with a
well-formed acknowledge header — magic, a status code of the reference tables (or any
device-specific code), a known acknowledge command id — is accepted, in both profiles,
with exactly the reference fields. -/
theorem ack_accepts_conforming (p : Profile) (bs : Bytes) (k : StatusClass) (kd : AckKind)
    (hlen : HEADER_LEN ≤ bs.length) (hmagic : magicOf bs = ACK_MAGIC)
    (hst : statusClass (statusCodeOf bs) = some k) (hkd : ackKindOfId (commandIdOf bs) = some kd) :
    AckPacket.parse p bs =
      .ok ⟨⟨⟨statusCodeOf bs, ofClass k⟩, ofKind kd, requestIdOf bs, scdLenOf bs⟩, 12, bs.drop 12⟩ :=
  ack_accepts_conforming_core p bs k kd hlen hmagic hst hkd

/-- **accepts_conforming (typed views)**: on a packet whose SCD is present as declared
(`12 + scd_len ≤ |buffer|`) the data views succeed; whenever the reference view
`valueViewOf` exists (`4 ≤ scd_len`, 4 SCD bytes present, reserved = 0) the WriteMem /
Pending views succeed with its value; with `scd_len` a multiple of 4, all entries
present and every reserved field 0 the WriteMemStacked view succeeds — each returning the
reference extraction. -/
theorem ack_views_accept_conforming (p : Profile) (bs : Bytes) (ccd : AckCcd)
    (h12 : HEADER_LEN ≤ bs.length) (hlen : ccd.scdLen = scdLenOf bs) :
    (12 + scdLenOf bs ≤ bs.length →
      ReadMem.parse (bs.drop 12) ccd = .ok (dataOf bs) ∧
      ReadMemStacked.parse (bs.drop 12) ccd = .ok (dataOf bs)) ∧
    (∀ v, valueViewOf bs = some v →
      WriteMem.parse (bs.drop 12) ccd = .ok v ∧ Pending.parse (bs.drop 12) ccd = .ok v) ∧
    (scdLenOf bs % 4 = 0 → 12 + scdLenOf bs ≤ bs.length →
      (∀ i, i < scdLenOf bs / 4 → stackedReservedOf bs i = 0) →
      WriteMemStacked.parse p (bs.drop 12) ccd = .ok (stackedLengthsOf bs)) := by
  simp only [HEADER_LEN] at h12
  refine ⟨?_, ?_, ?_⟩
  · intro hb
    have : parseDataScd (bs.drop 12) ccd = .ok (dataOf bs) := by
      unfold parseDataScd
      rw [if_neg (by simp only [List.length_drop, hlen]; omega), hlen]
      rfl
    exact ⟨this, this⟩
  · intro v hview
    unfold valueViewOf at hview
    split at hview
    · rename_i hc
      obtain ⟨h4, h16, hr⟩ := hc
      injection hview with hview
      have : parseReservedU16 (bs.drop 12) ccd = .ok v := by
        rw [parseReservedU16_eq]
        simp only [List.length_drop, uintAt_drop, hlen]
        rw [if_neg (by omega), if_neg (by omega), if_neg (by simpa [reservedOf] using hr),
          if_neg (by omega), ← hview]
        rfl
      exact ⟨this, this⟩
    · cases hview
  · intro hm hb hres
    simp only [WriteMemStacked.parse, hlen, hm, ne_eq, not_true_eq_false, if_false]
    have hk : scdLenOf bs = 4 * (scdLenOf bs / 4) := by omega
    have hs := stackedLoop_spec p (bs.drop 12) (scdLenOf bs / 4) ((bs.drop 12).length + 1) 0
      (by omega) (by omega)
    have hok : StackedOk (bs.drop 12) 0 (scdLenOf bs / 4) := by
      refine ⟨by simp only [List.length_drop]; omega, ?_⟩
      intro i hi
      have := hres i hi
      simpa [stackedReservedOf, uintAt_drop] using this
    conv => lhs; rw [hk]
    rw [hs.1 hok]
    simp only [stackedLengthsAt, stackedLengthsOf, uintAt_drop, Nat.zero_add]
    congr 1

/-- **accepts_conforming (event)**: every buffer with a well-formed event header whose
SCD is tiled by events according to the reference relation `EventsAt` (all inside the
buffer) is accepted, and the events returned are exactly those of the relation, in
order, with their data slices. -/
theorem event_accepts_conforming (bs : Bytes) (vs : List EventView)
    (hlen : HEADER_LEN ≤ bs.length) (hmagic : magicOf bs = EVENT_MAGIC)
    (hcmd : commandIdOf bs = Spec.GenCPAck.EVENT_COMMAND_ID)
    (hev : EventsAt bs 12 (scdLenOf bs) vs) :
    EventPacket.parse bs =
      .ok ⟨⟨uintAt bs 4 2, commandIdOf bs, scdLenOf bs, requestIdOf bs⟩, vs.map (ofView bs)⟩ := by
  simp only [HEADER_LEN, magicOf, commandIdOf, EVENT_MAGIC, Spec.GenCPAck.EVENT_COMMAND_ID]
    at hlen hmagic hcmd
  simp only [scdLenOf] at hev
  rw [event_parse_eq bs hlen, eventFormula, if_neg (by simp [hmagic, EVENT_PREFIX_MAGIC]),
    if_neg (by simp [hcmd, Ack.EVENT_COMMAND_ID]),
    eventLoop_complete bs 12 _ vs hev _ (Nat.lt_succ_self _)]
  rfl

/-! ## 4b. accepts_conforming through the reference encoder: `parse (encode pk) = ok (view pk)` -/

/-- **accepts_encoded (acknowledge)**: for every field tuple a conforming device can
put on the wire (status code of the reference tables or device specific, known command id,
16-bit request id, SCD of at most 65535 bytes) the encoded packet parses, in both
profiles, to exactly those fields with `raw_scd` = the SCD. -/
theorem ack_accepts_encoded (p : Profile) (code cmd req : Nat) (scd : Bytes)
    (k : StatusClass) (kd : AckKind)
    (hcode : code < 2 ^ 16) (hcmd : cmd < 2 ^ 16) (hreq : req < 2 ^ 16) (hlen : scd.length < 2 ^ 16)
    (hst : statusClass code = some k) (hkd : ackKindOfId cmd = some kd) :
    AckPacket.parse p (encodeAck code cmd req scd) =
      .ok ⟨⟨⟨code, ofClass k⟩, ofKind kd, req, scd.length⟩, 12, scd⟩ :=
  ack_accepts_encoded_core p code cmd req scd k kd hcode hcmd hreq hlen hst hkd

/-- **accepts_encoded (typed views)**: the data views return the SCD itself; the
WriteMem / Pending views return the encoded value; the WriteMemStacked view returns the
encoded list of lengths (any number of entries). -/
theorem ack_views_accept_encoded (p : Profile) (ccd : AckCcd) :
    (∀ scd : Bytes, ccd.scdLen = scd.length →
      ReadMem.parse scd ccd = .ok scd ∧ ReadMemStacked.parse scd ccd = .ok scd) ∧
    (∀ v, v < 2 ^ 16 → ccd.scdLen = (encodeValueScd v).length →
      WriteMem.parse (encodeValueScd v) ccd = .ok v ∧ Pending.parse (encodeValueScd v) ccd = .ok v) ∧
    (∀ ls : List Nat, (∀ l ∈ ls, l < 2 ^ 16) → ccd.scdLen = (encodeStackedScd ls).length →
      WriteMemStacked.parse p (encodeStackedScd ls) ccd = .ok ls) :=
  ack_views_accept_encoded_core p ccd

/-- **accepts_encoded (event)**: every event packet built by the reference encoder from
events in multi-event form (any number, any data) optionally followed by one in
single-event form (size field 0) parses to exactly these events, in order, with their
ids, timestamps, data and data offsets. -/
theorem event_accepts_encoded (flag req : Nat) (evs : List Event) (last : Option Event)
    (hflag : flag < 2 ^ 16) (hreq : req < 2 ^ 16)
    (hlen : (encodeEvents evs last).length < 2 ^ 16)
    (hevs : ∀ e ∈ evs, EventOk e) (hlast : ∀ e, last = some e → EventOk e) :
    EventPacket.parse (encodeEventPacket flag req (encodeEvents evs last)) =
      .ok ⟨⟨flag, Ack.EVENT_COMMAND_ID, (encodeEvents evs last).length, req⟩,
        expectedEvents 12 evs last⟩ := by
  obtain ⟨h1, h2, h3, h4, h5, h6⟩ :=
    encodeEventPacket_fields flag req (encodeEvents evs last) hflag hreq hlen
  rw [event_parse_eq _ (by omega), eventFormula, if_neg (by simp [h2]), if_neg (by simp [h4]),
    h3, h4, h5, h6]
  have hpre : encodeEventPacket flag req (encodeEvents evs last) =
      (toLE 4 EVENT_MAGIC ++ toLE 2 flag ++ toLE 2 Spec.GenCPAck.EVENT_COMMAND_ID ++
        toLE 2 (encodeEvents evs last).length ++ toLE 2 req) ++ encodeEvents evs last := by
    simp [encodeEventPacket]
  have := eventLoop_encoded evs last
    (toLE 4 EVENT_MAGIC ++ toLE 2 flag ++ toLE 2 Spec.GenCPAck.EVENT_COMMAND_ID ++
        toLE 2 (encodeEvents evs last).length ++ toLE 2 req)
    ((encodeEvents evs last).length + 1) (by omega) hevs hlast
  rw [← hpre] at this
  simp only [List.length_append, toLE_length, Nat.reduceAdd] at this
  rw [this]
  rfl

/-! ## Tie (G): tables regenerated from `ack.rs` / `event.rs` on every run -/

/-- **gen_tables_agree**: what `tools/gen_ack_tables.py` re-reads from the current source —
prefix magics, event command id, the namespace expression `(code >> 13) & 0b11` with its
arms, every arm of the two status-code `match`es and of the `ScdKind`
`match` — is what the model implements and what the reference tables prescribe: every
generated arm is an entry of the reference table with the same meaning, and the tables
have the same number of pairwise distinct codes.  (With `status_split` this makes the
source tables, the model and the reference coincide; a source edit of any arm, of the
mask or of a constant fails this obligation.) -/
theorem gen_tables_agree :
    (ACK_PREFIX_MAGIC = Gen.AckTables.ACK_PREFIX_MAGIC ∧ Gen.AckTables.ACK_PREFIX_MAGIC = ACK_MAGIC ∧
     EVENT_PREFIX_MAGIC = Gen.AckTables.EVENT_PREFIX_MAGIC ∧
     Gen.AckTables.EVENT_PREFIX_MAGIC = EVENT_MAGIC ∧
     Ack.EVENT_COMMAND_ID = Gen.AckTables.EVENT_COMMAND_ID ∧
     Gen.AckTables.EVENT_COMMAND_ID = Spec.GenCPAck.EVENT_COMMAND_ID) ∧
    (Gen.AckTables.NAMESPACE_SHIFT = 13 ∧ NAMESPACE_MASK = Gen.AckTables.NAMESPACE_MASK ∧
     Gen.AckTables.NAMESPACE_MASK = 0b11 ∧
     Gen.AckTables.namespaceArms = [(0, "genCp"), (1, "usb"), (2, "deviceSpecific")]) ∧
    (∀ e ∈ Gen.AckTables.gencpStatus,
      (statusClass e.1).map ofClass = some (.genCp e.2) ∧
      Status.ofCode .dev e.1 = .ok ⟨e.1, .genCp e.2⟩ ∧
      Status.ofCode .release e.1 = .ok ⟨e.1, .genCp e.2⟩) ∧
    (Gen.AckTables.gencpStatus.length = genCpTable.length ∧
      (Gen.AckTables.gencpStatus.map (·.1)).Nodup) ∧
    (∀ e ∈ Gen.AckTables.usbStatus,
      (statusClass e.1).map ofClass = some (.usbSpecific e.2) ∧
      Status.ofCode .dev e.1 = .ok ⟨e.1, .usbSpecific e.2⟩ ∧
      Status.ofCode .release e.1 = .ok ⟨e.1, .usbSpecific e.2⟩) ∧
    (Gen.AckTables.usbStatus.length = u3vTable.length ∧
      (Gen.AckTables.usbStatus.map (·.1)).Nodup) ∧
    (∀ e ∈ Gen.AckTables.scdKind,
      (ackKindOfId e.1).map ofKind = some e.2 ∧ ScdKind.ofId e.1 = .ok e.2) ∧
    (Gen.AckTables.scdKind.length = ackKindTable.length ∧
      (Gen.AckTables.scdKind.map (·.1)).Nodup) := by
  refine ⟨by decide, by decide, by decide, by decide, by decide, by decide, by decide, by decide⟩

/-! ## Non-vacuity: concrete packets (the repository's own test vectors and the two
inputs that exposed the repaired defects) -/

/-- ReadMemAck, status SUCCESS, request id 1, 4 data bytes -/
example : AckPacket.parse .dev
    [0x55, 0x33, 0x56, 0x43, 0, 0, 0x01, 0x08, 4, 0, 1, 0, 1, 2, 3, 4] =
    .ok ⟨⟨⟨0, .genCp .success⟩, .readMem, 1, 4⟩, 12, [1, 2, 3, 4]⟩ := by decide

example : encodeAck 0 0x0801 1 [1, 2, 3, 4] =
    [0x55, 0x33, 0x56, 0x43, 0, 0, 0x01, 0x08, 4, 0, 1, 0, 1, 2, 3, 4] := by decide

/-- F-C08-1: the device-specific status 0xC001 is accepted (it used to panic) … -/
example : AckPacket.parse .dev
    [0x55, 0x33, 0x56, 0x43, 0x01, 0xC0, 0x01, 0x08, 0, 0, 1, 0] =
    .ok ⟨⟨⟨0xC001, .deviceSpecific⟩, .readMem, 1, 0⟩, 12, []⟩ := by decide

example : statusClass 0xC001 = some .deviceSpecific ∧ statusClass 0xE001 = none ∧
    statusClass 0x800F = some (.genCp .WRONG_CONFIG) ∧
    statusClass 0xA001 = some (.usb3v .RESEND_NOT_SUPPORTED) ∧ statusClass 0x8008 = none := by
  decide

/-- … and the reserved namespace 0b11 is an error -/
example : AckPacket.parse .dev
    [0x55, 0x33, 0x56, 0x43, 0x01, 0xE0, 0x01, 0x08, 0, 0, 1, 0] = .err .invalidPacket := by
  decide

/-- F-C08-2: WriteMemStacked view with `scd_len = 6` is an error (it used to panic);
with `scd_len = 8` the two lengths 3 and 10 are returned. -/
example : WriteMemStacked.parse .dev [0, 0, 3, 0, 0, 0, 10, 0]
    ⟨⟨0, .genCp .success⟩, .writeMemStacked, 1, 6⟩ = .err .invalidPacket := by decide

example : WriteMemStacked.parse .dev [0, 0, 3, 0, 0, 0, 10, 0]
    ⟨⟨0, .genCp .success⟩, .writeMemStacked, 1, 8⟩ = .ok [3, 10] := by decide

/-- F-C08-3: a WriteMemAck header declaring `scd_len = 0` followed by `00 00 0a 00` has no
WriteMem view (it used to return 10 from bytes outside the declared SCD); with
`scd_len = 4` the view is 10. -/
example : WriteMem.parse [0, 0, 10, 0] ⟨⟨0, .genCp .success⟩, .writeMem, 1, 0⟩ =
    .err .invalidPacket := by decide

example : valueViewOf [0x55, 0x33, 0x56, 0x43, 0, 0, 0x03, 0x08, 0, 0, 1, 0, 0, 0, 10, 0] = none ∧
    valueViewOf [0x55, 0x33, 0x56, 0x43, 0, 0, 0x03, 0x08, 4, 0, 1, 0, 0, 0, 10, 0] = some 10 := by
  decide

example : WriteMem.parse [0, 0, 10, 0] ⟨⟨0, .genCp .success⟩, .writeMem, 1, 4⟩ = .ok 10 := by decide

/-- two events (multi-event form), `event::tests::test_multi_event` -/
example : EventPacket.parse
    (encodeEventPacket 0x4000 1 (encodeEvents [⟨0x10, 0x0123456789abcdef, [0x12, 0x34]⟩,
      ⟨0x11, 1, []⟩] none)) =
    .ok ⟨⟨0x4000, 0x0c00, 26, 1⟩,
      [⟨14, 0x10, 0x0123456789abcdef, 24, [0x12, 0x34]⟩, ⟨12, 0x11, 1, 38, []⟩]⟩ := by decide

example : EventsAt [0x55, 0x33, 0x56, 0x45, 0, 0x40, 0, 0x0c, 14, 0, 1, 0,
    0, 0, 0x10, 0, 1, 0, 0, 0, 0, 0, 0, 0, 0x12, 0x34] 12 14 [⟨0, 0x10, 1, 24, 2⟩] :=
  EventsAt.single 12 14 (by decide) (by decide) (by decide)

/-- a truncated header is an error, not a panic -/
example : AckPacket.parse .dev [0x55, 0x33, 0x56, 0x43, 0, 0] = .err .bufferIo := by decide

/-! ## 5. The event walk is exactly the reference relation (growth round) -/

/-- **event_walk_exact**: for every buffer with a well-formed event header, EITHER the
`scd_len` SCD bytes from offset 12 are tiled by a reference event list `vs` — then `vs` is the
ONLY such list (`EventsAt` is a function of the bytes), it occupies exactly `scd_len` bytes
(Σ (12 + data) = scd_len), the events lie back to back from offset 12, every data slice lies
inside `[24, 12 + scd_len]`, and `EventPacket::parse` returns exactly these events — OR no
reference list exists and `EventPacket::parse` returns an error.  Nothing else can happen. -/
theorem event_walk_exact (bs : Bytes)
    (hlen : HEADER_LEN ≤ bs.length) (hmagic : magicOf bs = EVENT_MAGIC)
    (hcmd : commandIdOf bs = Spec.GenCPAck.EVENT_COMMAND_ID) :
    (∃ vs, EventsAt bs 12 (scdLenOf bs) vs ∧
      (∀ vs', EventsAt bs 12 (scdLenOf bs) vs' → vs' = vs) ∧
      consumed vs = scdLenOf bs ∧ TilesFrom 12 vs ∧
      (∀ v ∈ vs, 24 ≤ v.dataOff ∧ v.dataOff + v.dataLen ≤ 12 + scdLenOf bs ∧
        v.dataOff + v.dataLen ≤ bs.length) ∧
      EventPacket.parse bs =
        .ok ⟨⟨uintAt bs 4 2, commandIdOf bs, scdLenOf bs, requestIdOf bs⟩, vs.map (ofView bs)⟩) ∨
    ((¬ ∃ vs, EventsAt bs 12 (scdLenOf bs) vs) ∧ ∃ e, EventPacket.parse bs = .err e) := by
  by_cases hex : ∃ vs, EventsAt bs 12 (scdLenOf bs) vs
  · left
    obtain ⟨vs, hvs⟩ := hex
    obtain ⟨t1, t2, _⟩ := EventsAt.tiles hvs
    refine ⟨vs, hvs, fun vs' h' => EventsAt.unique h' hvs, t1, t2, ?_,
      event_accepts_conforming bs vs hlen hmagic hcmd hvs⟩
    intro v hv
    have := EventsAt.bounds hvs v hv
    omega
  · right
    refine ⟨hex, ?_⟩
    cases hres : EventPacket.parse bs with
    | ok pk =>
      obtain ⟨_, _, _, _, _, h6, _⟩ := event_parse_faithful bs pk hres
      exact absurd ⟨_, h6⟩ hex
    | err e => exact ⟨e, rfl⟩
    | panic => exact absurd hres (event_parse_total bs)

/-- **event_walk_ignores_trailing**: bytes that follow the announced SCD never change an
accepted result.  If `pre` holds the header and at least `scd_len` SCD bytes, then for every
`x`, parsing `pre ++ x` returns the very same packet (same events, offsets and data) as
parsing `pre`, or both are errors.  (The walk may *read* an event header past `12 + scd_len`
when fewer than 12 bytes remain, but that always ends in an error.)  This is the
C08-r3-seed2 scenario: a zero-size entry after sized ones takes the REMAINING SCD, never the
trailing bytes of a larger receive buffer. -/
theorem event_walk_ignores_trailing (pre x : Bytes)
    (hlen : HEADER_LEN + scdLenOf pre ≤ pre.length) :
    (∃ pk, EventPacket.parse pre = .ok pk ∧ EventPacket.parse (pre ++ x) = .ok pk) ∨
    ((∃ e, EventPacket.parse pre = .err e) ∧ ∃ e, EventPacket.parse (pre ++ x) = .err e) := by
  simp only [HEADER_LEN, scdLenOf] at hlen
  have h12 : 12 ≤ pre.length := by omega
  have h12' : 12 ≤ (pre ++ x).length := by simp only [List.length_append]; omega
  have e0 := uintAt_append_left pre x 0 4 (by omega)
  have e4 := uintAt_append_left pre x 4 2 (by omega)
  have e6 := uintAt_append_left pre x 6 2 (by omega)
  have e8 := uintAt_append_left pre x 8 2 (by omega)
  have e10 := uintAt_append_left pre x 10 2 (by omega)
  rw [event_parse_eq pre h12, event_parse_eq (pre ++ x) h12']
  simp only [eventFormula, e0, e4, e6, e8, e10]
  split
  · exact Or.inr ⟨⟨_, rfl⟩, ⟨_, rfl⟩⟩
  · split
    · exact Or.inr ⟨⟨_, rfl⟩, ⟨_, rfl⟩⟩
    · rcases eventLoop_exact pre 12 (uintAt pre 8 2) (uintAt pre 8 2 + 1) (by omega) with
        ⟨vs, hvs, hok⟩ | ⟨hno, herr⟩
      · left
        have hvs' := (eventsAt_append pre x (by omega)).mp hvs
        have hok' := eventLoop_complete (pre ++ x) 12 _ vs hvs' (uintAt pre 8 2 + 1) (by omega)
        rw [map_ofView_append pre x hvs] at hok'
        rw [hok, hok']
        exact ⟨_, rfl, rfl⟩
      · right
        have hno' : ¬ ∃ vs, EventsAt (pre ++ x) 12 (uintAt pre 8 2) vs := by
          rintro ⟨vs, hvs⟩
          exact hno ⟨vs, (eventsAt_append pre x (by omega)).mpr hvs⟩
        rcases eventLoop_exact (pre ++ x) 12 (uintAt pre 8 2) (uintAt pre 8 2 + 1) (by omega) with
          ⟨vs, hvs, _⟩ | ⟨_, herr'⟩
        · exact absurd ⟨vs, hvs⟩ hno'
        · obtain ⟨e, he⟩ := herr
          obtain ⟨e', he'⟩ := herr'
          rw [he, he']
          exact ⟨⟨e, rfl⟩, ⟨e', rfl⟩⟩

private theorem expectedEvents_last (off : Nat) (evs : List Event) (e : Event) :
    (expectedEvents off evs (some e)).getLast? =
      some ⟨0, e.id, e.timestamp, off + (encodeEvents evs none).length + 12, e.data⟩ ∧
    (expectedEvents off evs (some e)).length = evs.length + 1 := by
  induction evs generalizing off with
  | nil => simp [expectedEvents, encodeEvents]
  | cons a as ih =>
    obtain ⟨ih1, ih2⟩ := ih (off + (12 + a.data.length))
    have hoff : off + (12 + a.data.length) + (encodeEvents as none).length + 12 =
        off + (encodeEvents (a :: as) none).length + 12 := by
      simp only [encodeEvents, List.length_append, encodeEvent_length]; omega
    rw [hoff] at ih1
    constructor
    · rw [expectedEvents]
      cases htl : expectedEvents (off + (12 + a.data.length)) as (some e) with
      | nil => rw [htl] at ih2; simp at ih2
      | cons b bs =>
        rw [htl] at ih1
        rw [List.getLast?_cons_cons]
        exact ih1
    · rw [expectedEvents, List.length_cons, ih2, List.length_cons]

/-- **event_trailing_single** (corollary, the C08-r3-seed2 shape): `k` sized events followed
by a zero-size ("rest of SCD") event `e`, encoded by the reference encoder and followed by ANY
trailing bytes `x` of a larger receive buffer: the packet is accepted, `k + 1` events are
returned, and the last one has size field 0, `e`'s id and timestamp, and exactly `e`'s data,
located right after the `k` sized events — never bytes of `x`. -/
theorem event_trailing_single (flag req : Nat) (evs : List Event) (e : Event) (x : Bytes)
    (hflag : flag < 2 ^ 16) (hreq : req < 2 ^ 16)
    (hlen : (encodeEvents evs (some e)).length < 2 ^ 16)
    (hevs : ∀ a ∈ evs, EventOk a) (he : EventOk e) :
    EventPacket.parse (encodeEventPacket flag req (encodeEvents evs (some e)) ++ x) =
      .ok ⟨⟨flag, Ack.EVENT_COMMAND_ID, (encodeEvents evs (some e)).length, req⟩,
        expectedEvents 12 evs (some e)⟩ ∧
    (expectedEvents 12 evs (some e)).length = evs.length + 1 ∧
    (expectedEvents 12 evs (some e)).getLast? =
      some ⟨0, e.id, e.timestamp, 12 + (encodeEvents evs none).length + 12, e.data⟩ := by
  have hacc := event_accepts_encoded flag req evs (some e) hflag hreq hlen hevs
    (fun a ha => by injection ha with ha; rw [← ha]; exact he)
  obtain ⟨f1, _, _, _, f5, _⟩ :=
    encodeEventPacket_fields flag req (encodeEvents evs (some e)) hflag hreq hlen
  have htr := event_walk_ignores_trailing
    (encodeEventPacket flag req (encodeEvents evs (some e))) x
    (by simp only [HEADER_LEN, scdLenOf, f5, f1]; omega)
  obtain ⟨l1, l2⟩ := expectedEvents_last 12 evs e
  refine ⟨?_, l2, l1⟩
  rcases htr with ⟨pk, hp, hp'⟩ | ⟨⟨e', he'⟩, _⟩
  · have hpk := Res.ok.inj (hp.symm.trans hacc)
    rw [hp', hpk]
  · have hbad := he'.symm.trans hacc
    cases hbad

/-- non-vacuity: two sized events, then a zero-size one, then 3 stray bytes -/
example : EventPacket.parse
    (encodeEventPacket 0x4000 1 (encodeEvents [⟨0x10, 7, [0x12, 0x34]⟩, ⟨0x11, 1, []⟩]
      (some ⟨0x12, 9, [0xAA]⟩)) ++ [0xEE, 0xEE, 0xEE]) =
    .ok ⟨⟨0x4000, 0x0c00, 39, 1⟩,
      [⟨14, 0x10, 7, 24, [0x12, 0x34]⟩, ⟨12, 0x11, 1, 38, []⟩, ⟨0, 0x12, 9, 50, [0xAA]⟩]⟩ := by
  decide

example : consumed [⟨14, 0x10, 7, 24, 2⟩, ⟨12, 0x11, 1, 38, 0⟩, ⟨0, 0x12, 9, 50, 1⟩] = 39 ∧
    TilesFrom 12 [⟨14, 0x10, 7, 24, 2⟩, ⟨12, 0x11, 1, 38, 0⟩, ⟨0, 0x12, 9, 50, 1⟩] := by
  simp [consumed, TilesFrom]

end CamVerif.C08
