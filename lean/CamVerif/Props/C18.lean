/-
C18 — Readability and writability reflect every access restriction.

Property theorems only.  `exec` is the interpreter of `CamVerif.Model.GenApi`
(caching off); `Readable` / `Writable` are the specification predicates of
`CamVerif.Spec.GenApiSem` (a transcription of the property statement).  All theorems
quantify over every graph (well-formed or not, cyclic or not), every operation
parameterisation `Ops`, both build profiles, every state and every reference depth.
-/
import CamVerif.Proofs.C18Access
import CamVerif.Proofs.C18Err
import CamVerif.Proofs.C18Reach
import CamVerif.Proofs.C18Mono
namespace CamVerif.C18
open CamVerif CamVerif.GenApi CamVerif.GenApiSem

variable {F E : Type}

/-! ## Refinement -/

private theorem runR_bool {m : R F Bool} {st st' : St F} {v : Val F}
    (h : runR m Val.bool st = (.ok v, st')) : ∃ b, v = .bool b ∧ R.val m st.s = .ok b := by
  unfold runR at h
  unfold R.val
  cases hm : m st.s with
  | mk r l =>
    cases r with
    | ok a => simp [hm] at h; exact ⟨a, h.1.symm, rfl⟩
    | err e => simp [hm] at h
    | panic => simp [hm] at h

private theorem isReadableF_spec (cx : Ctx F E) (d : Nat) {n : NodeId} {s : S F} {x : Bool}
    (h : R.val (isReadableF cx (execRec cx d) n) s = .ok x) : x = readableB cx (d + 1) n s := by
  have ih := accIH cx d
  unfold isReadableF at h
  show x = readableStep cx d (readableB cx d) n s
  split at h
  · exact intIsReadableF_spec ih h
  · split at h
    · exact floatIsReadableF_spec ih h
    · split at h
      · exact strIsReadableF_spec ih h
      · split at h
        · exact boolIsReadableF_spec ih h
        · split at h
          · exact enumIsReadableF_spec ih h
          · simp at h

private theorem isWritableF_spec (cx : Ctx F E) (d : Nat) {n : NodeId} {s : S F} {x : Bool}
    (h : R.val (isWritableF cx (execRec cx d) n) s = .ok x) : x = writableB cx (d + 1) n s := by
  have ih := accIH cx d
  unfold isWritableF at h
  show x = writableStep cx d (readableB cx d) (writableB cx d) n s
  split at h
  · exact intIsWritableF_spec ih h
  · split at h
    · exact floatIsWritableF_spec ih h
    · split at h
      · exact strIsWritableF_spec ih h
      · split at h
        · exact boolIsWritableF_spec ih h
        · split at h
          · exact enumIsWritableF_spec ih h
          · split at h
            · exact cmdIsWritableF_spec ih h
            · simp at h

/-- **is_readable_refines**: whenever `is_readable` of a node (any value interface:
integer, float, string, boolean, enumeration kinds) answers, the answer is exactly the
specification predicate `Readable` — for every graph, state and reference depth. -/
theorem is_readable_refines (cx : Ctx F E) (fuel : Nat) (n : NodeId) (st st' : St F) (v : Val F)
    (h : exec cx (fuel + 1) (.isReadable n) st = (.ok v, st')) :
    v = .bool (decide (Readable cx (fuel + 1) n st.s)) := by
  simp only [exec, top] at h
  obtain ⟨b, rfl, hb⟩ := runR_bool h
  have := isReadableF_spec cx fuel hb
  simp [Readable, ← this]

/-- **is_writable_refines**: whenever `is_writable` of a node (integer, float, string,
boolean, enumeration, command kinds) answers, the answer is exactly `Writable`. -/
theorem is_writable_refines (cx : Ctx F E) (fuel : Nat) (n : NodeId) (st st' : St F) (v : Val F)
    (h : exec cx (fuel + 1) (.isWritable n) st = (.ok v, st')) :
    v = .bool (decide (Writable cx (fuel + 1) n st.s)) := by
  simp only [exec, top] at h
  obtain ⟨b, rfl, hb⟩ := runR_bool h
  have := isWritableF_spec cx fuel hb
  simp [Writable, ← this]

/-- Access queries never change value store or device image (they only append reads to
the access log). -/
theorem access_query_pure (cx : Ctx F E) (fuel : Nat) (n : NodeId) (st : St F) :
    (exec cx fuel (.isReadable n) st).2.vs = st.vs ∧ (exec cx fuel (.isReadable n) st).2.dev = st.dev ∧
    (exec cx fuel (.isWritable n) st).2.vs = st.vs ∧ (exec cx fuel (.isWritable n) st).2.dev = st.dev := by
  cases fuel with
  | zero => simp [exec]
  | succ f =>
    simp only [exec, top, runR]
    refine ⟨?_, ?_, ?_, ?_⟩ <;> split <;> rfl

/-! ## The predicates, spelled out (what `Readable` / `Writable` say per conjunct) -/

/-- a readable node is implemented, available, and its imposed mode permits reading -/
theorem Readable.base {cx : Ctx F E} {d : Nat} {n : NodeId} {s : S F} (h : Readable cx (d + 1) n s) :
    ∃ nd, cx.graph n = some nd ∧ baseReadable cx d nd.base s = true := by
  unfold Readable at h
  simp only [readableB, readableStep] at h
  cases hg : cx.graph n with
  | none => simp [hg] at h
  | some nd =>
    refine ⟨nd, rfl, ?_⟩
    cases nd <;> simp only [hg, Bool.and_eq_true] at h <;> first | exact h.1 | exact h.1.1 | simp at h

/-- a writable node is implemented, available, not locked, and its imposed mode permits writing -/
theorem Writable.base {cx : Ctx F E} {d : Nat} {n : NodeId} {s : S F} (h : Writable cx (d + 1) n s) :
    ∃ nd, cx.graph n = some nd ∧ baseWritable cx d nd.base s = true := by
  unfold Writable at h
  simp only [writableB, writableStep] at h
  cases hg : cx.graph n with
  | none => simp [hg] at h
  | some nd =>
    refine ⟨nd, rfl, ?_⟩
    cases nd <;> simp only [hg, Bool.and_eq_true] at h <;> first | exact h.1 | exact h.1.1 | simp at h

/-- a readable register's access mode is not write-only -/
theorem Readable.reg {cx : Ctx F E} {d : Nat} {n : NodeId} {s : S F} {nd : Node F E} {rb : RegBase}
    (h : Readable cx (d + 1) n s) (hg : cx.graph n = some nd) (hr : nd.regBase? = some rb) :
    rb.accessMode ≠ .wo := by
  unfold Readable at h
  simp only [readableB, readableStep, hg] at h
  cases nd <;> simp [Node.regBase?] at hr <;> subst hr <;> simp at h <;> exact h.2

/-- a writable register's access mode is not read-only -/
theorem Writable.reg {cx : Ctx F E} {d : Nat} {n : NodeId} {s : S F} {nd : Node F E} {rb : RegBase}
    (h : Writable cx (d + 1) n s) (hg : cx.graph n = some nd) (hr : nd.regBase? = some rb) :
    rb.accessMode ≠ .ro := by
  unfold Writable at h
  simp only [writableB, writableStep, hg] at h
  cases nd <;> simp [Node.regBase?] at hr <;> subst hr <;> simp at h <;> exact h.2

/-! ## Corollaries named in the property -/

/-- the current value of the controlling node `c` is "true" (boolean node: its value;
integer node: value ≠ 0) -/
def CtlTrue (cx : Ctx F E) (d : Nat) (c : NodeId) (s : S F) : Prop := ctlValue cx d c s = some true
/-- the current value of the controlling node `c` is "false" -/
def CtlFalse (cx : Ctx F E) (d : Nat) (c : NodeId) (s : S F) : Prop := ctlValue cx d c s = some false

private theorem answer_false_of_not {cx : Ctx F E} {fuel : Nat} {n : NodeId} {st st' : St F} {v : Val F}
    (h : exec cx (fuel + 1) (.isWritable n) st = (.ok v, st'))
    (hn : ¬ Writable cx (fuel + 1) n st.s) : v = .bool false := by
  rw [is_writable_refines cx fuel n st st' v h]; simp [hn]

private theorem ranswer_false_of_not {cx : Ctx F E} {fuel : Nat} {n : NodeId} {st st' : St F} {v : Val F}
    (h : exec cx (fuel + 1) (.isReadable n) st = (.ok v, st'))
    (hn : ¬ Readable cx (fuel + 1) n st.s) : v = .bool false := by
  rw [is_readable_refines cx fuel n st st' v h]; simp [hn]

/-- **locked_not_writable**: a node whose `pIsLocked` node currently reads true is never
reported writable. -/
theorem locked_not_writable (cx : Ctx F E) (fuel : Nat) (n c : NodeId) (nd : Node F E)
    (st st' : St F) (v : Val F)
    (hg : cx.graph n = some nd) (hl : nd.base.pIsLocked = some c) (hc : CtlTrue cx fuel c st.s)
    (h : exec cx (fuel + 1) (.isWritable n) st = (.ok v, st')) : v = .bool false := by
  refine answer_false_of_not h fun hw => ?_
  obtain ⟨nd', hg', hb⟩ := Writable.base hw
  rw [hg] at hg'; cases hg'
  have hcv : ctlValue cx fuel c st.s = some true := hc
  simp [baseWritable, ctlIs, hl, hcv] at hb

/-- **unavailable_neither**: a node whose `pIsAvailable` node currently reads false is
reported neither readable nor writable. -/
theorem unavailable_neither (cx : Ctx F E) (fuel : Nat) (n c : NodeId) (nd : Node F E)
    (st st' : St F) (v : Val F)
    (hg : cx.graph n = some nd) (hl : nd.base.pIsAvailable = some c) (hc : CtlFalse cx fuel c st.s)
    (h : exec cx (fuel + 1) (.isReadable n) st = (.ok v, st') ∨
         exec cx (fuel + 1) (.isWritable n) st = (.ok v, st')) : v = .bool false := by
  have hcv : ctlValue cx fuel c st.s = some false := hc
  rcases h with h | h
  · refine ranswer_false_of_not h fun hw => ?_
    obtain ⟨nd', hg', hb⟩ := Readable.base hw
    rw [hg] at hg'; cases hg'
    simp [baseReadable, ctlIs, hl, hcv] at hb
  · refine answer_false_of_not h fun hw => ?_
    obtain ⟨nd', hg', hb⟩ := Writable.base hw
    rw [hg] at hg'; cases hg'
    simp [baseWritable, ctlIs, hl, hcv] at hb

/-- **unimplemented_neither**: likewise for `pIsImplemented`. -/
theorem unimplemented_neither (cx : Ctx F E) (fuel : Nat) (n c : NodeId) (nd : Node F E)
    (st st' : St F) (v : Val F)
    (hg : cx.graph n = some nd) (hl : nd.base.pIsImplemented = some c) (hc : CtlFalse cx fuel c st.s)
    (h : exec cx (fuel + 1) (.isReadable n) st = (.ok v, st') ∨
         exec cx (fuel + 1) (.isWritable n) st = (.ok v, st')) : v = .bool false := by
  have hcv : ctlValue cx fuel c st.s = some false := hc
  rcases h with h | h
  · refine ranswer_false_of_not h fun hw => ?_
    obtain ⟨nd', hg', hb⟩ := Readable.base hw
    rw [hg] at hg'; cases hg'
    simp [baseReadable, ctlIs, hl, hcv] at hb
  · refine answer_false_of_not h fun hw => ?_
    obtain ⟨nd', hg', hb⟩ := Writable.base hw
    rw [hg] at hg'; cases hg'
    simp [baseWritable, ctlIs, hl, hcv] at hb

/-- **ro_not_writable**: a read-only feature (imposed access mode RO, or a register with
access mode RO) is never reported writable. -/
theorem ro_not_writable (cx : Ctx F E) (fuel : Nat) (n : NodeId) (nd : Node F E)
    (st st' : St F) (v : Val F) (hg : cx.graph n = some nd)
    (hro : nd.base.imposed = .ro ∨ ∃ rb, nd.regBase? = some rb ∧ rb.accessMode = .ro)
    (h : exec cx (fuel + 1) (.isWritable n) st = (.ok v, st')) : v = .bool false := by
  refine answer_false_of_not h fun hw => ?_
  rcases hro with hro | ⟨rb, hr, hro⟩
  · obtain ⟨nd', hg', hb⟩ := Writable.base hw
    rw [hg] at hg'; cases hg'
    simp [baseWritable, hro] at hb
  · exact Writable.reg hw hg hr hro

/-- **wo_not_readable**: a write-only feature (imposed access mode WO, or a register with
access mode WO) is never reported readable. -/
theorem wo_not_readable (cx : Ctx F E) (fuel : Nat) (n : NodeId) (nd : Node F E)
    (st st' : St F) (v : Val F) (hg : cx.graph n = some nd)
    (hwo : nd.base.imposed = .wo ∨ ∃ rb, nd.regBase? = some rb ∧ rb.accessMode = .wo)
    (h : exec cx (fuel + 1) (.isReadable n) st = (.ok v, st')) : v = .bool false := by
  refine ranswer_false_of_not h fun hw => ?_
  rcases hwo with hwo | ⟨rb, hr, hwo⟩
  · obtain ⟨nd', hg', hb⟩ := Readable.base hw
    rw [hg] at hg'; cases hg'
    simp [baseReadable, hwo] at hb
  · exact Readable.reg hw hg hr hwo

/-- **const_not_writable** (nodes): a node whose value is computed from a formula
(SwissKnife, IntSwissKnife) is never writable, `is_writable` says so, and a write is
refused with `NotWritable` leaving value store, device and log untouched. -/
theorem const_not_writable (cx : Ctx F E) (fuel : Nat) (n : NodeId) (st : St F) (iv : Int) (fv : F)
    (hk : (∃ b fm f, cx.graph n = some (.swissKnife b fm f)) ∨
          (∃ b fm f, cx.graph n = some (.intSwissKnife b fm f))) :
    ¬ Writable cx (fuel + 1) n st.s ∧
    exec cx (fuel + 1) (.isWritable n) st = (.ok (.bool false), st) ∧
    (exec cx (fuel + 1) (.intSet n iv) st = (.err .notWritable, st) ∨
     exec cx (fuel + 1) (.floatSet n fv) st = (.err .notWritable, st)) := by
  rcases hk with ⟨b, fm, f, hg⟩ | ⟨b, fm, f, hg⟩
  · refine ⟨by simp [Writable, writableB, writableStep, hg], ?_, Or.inr ?_⟩
    · simp [exec, top, runR, isWritableF, isIntKind, isFloatKind, floatIsWritableF, hg, Pure.pure, R.pure]
    · simp [exec, top, runM, floatSetF, hg, M.err, St.s]
  · refine ⟨by simp [Writable, writableB, writableStep, hg], ?_, Or.inl ?_⟩
    · simp [exec, top, runR, isWritableF, isIntKind, intIsWritableF, hg, Pure.pure, R.pure]
    · simp [exec, top, runM, intSetF, hg, M.err, St.s]

/-- **const_not_writable** (immediates): a true immediate (`<Inc>`, `<Length>`, `<Address>`,
`Offset` …) is readable, is not writable, and a write to it is refused without effect;
a value-store slot (`<Value>`, `<Min>`, `<Max>` immediates of Integer/Float nodes) is both. -/
theorem imm_access (cx : Ctx F E) (r : Rec F) (a v : Int) (id : SlotId) (s : S F) :
    immIsReadable cx r (.imm a : ImmOrPNode Int) s = (.ok true, []) ∧
    immIsWritable cx r (.imm a : ImmOrPNode Int) s = (.ok false, []) ∧
    immIntSet cx r (.imm a) v s = (.err .notWritable, s, []) ∧
    slotOrNodeIsReadable cx r (.imm id) s = (.ok true, []) ∧
    slotOrNodeIsWritable cx r (.imm id) s = (.ok true, []) := by
  refine ⟨rfl, rfl, rfl, rfl, rfl⟩

/-- Everything `Writable` looks at except the three controlling nodes: imposed access
mode, register access mode, value targets (and selector / formula variables). -/
def restWritable (cx : Ctx F E) (d : Nat) (n : NodeId) (s : S F) : Bool :=
  match cx.graph n with
  | some (.integer b vk _ _ _) | some (.float b vk _ _ _) =>
    b.imposed != .ro && vkWritable cx d (readableB cx d) (writableB cx d) vk s
  | some (.intReg rb ..) | some (.maskedIntReg rb ..) | some (.floatReg rb _)
  | some (.stringReg rb) => rb.base.imposed != .ro && rb.accessMode != .ro
  | some (.boolean b v _ _) | some (.enumeration b _ v) | some (.command b v _) =>
    b.imposed != .ro && slotOrNodeOk cx (writableB cx d) v s
  | some (.string b v) => b.imposed != .ro && strSlotOrNodeOk cx (writableB cx d) v s
  | some (.converter b fm _ _ pv) | some (.intConverter b fm _ _ pv) =>
    b.imposed != .ro && (isFormulaRef cx pv && writableB cx d pv s) &&
      GenApiSem.varsReadable cx (readableB cx d) fm.vars s
  | _ => false

/-- `Writable` = implemented ∧ available ∧ ¬locked ∧ everything else. -/
theorem writable_decomp (cx : Ctx F E) (d : Nat) (n : NodeId) (nd : Node F E) (s : S F)
    (hg : cx.graph n = some nd) :
    writableB cx (d + 1) n s =
      (ctlIs cx d nd.base.pIsImplemented true s && ctlIs cx d nd.base.pIsAvailable true s &&
       ctlIs cx d nd.base.pIsLocked false s && restWritable cx d n s) := by
  simp only [writableB, writableStep, restWritable, hg]
  cases nd <;> simp only [Node.base, baseWritable, Bool.and_assoc, Bool.and_false]

/-- **tracks_controllers**: the answers follow the *current* values of the controlling
nodes.  Take two states in which `is_writable` of the same node answers and which agree
on everything the predicate looks at except the lock (the `pIsImplemented` /
`pIsAvailable` nodes read the same, imposed / register modes and value targets are as
writable as before).  If the `pIsLocked` node (integer valued, non-zero = true, or boolean) reads
true in the first state and false in the second, the first answer is `false` and the
second is exactly "implemented ∧ available ∧ everything else" — so flipping the lock
flips the answer whenever nothing else forbids writing.  (`pIsAvailable` /
`pIsImplemented`: `tracks_available` / `tracks_implemented`.) -/
theorem tracks_controllers (cx : Ctx F E) (fuel : Nat) (n c : NodeId) (nd : Node F E)
    (s1 s1' s2 s2' : St F) (v1 v2 : Val F)
    (hg : cx.graph n = some nd) (hl : nd.base.pIsLocked = some c)
    (h1 : exec cx (fuel + 1) (.isWritable n) s1 = (.ok v1, s1'))
    (h2 : exec cx (fuel + 1) (.isWritable n) s2 = (.ok v2, s2'))
    (hc1 : CtlTrue cx fuel c s1.s) (hc2 : CtlFalse cx fuel c s2.s)
    (hi : ctlIs cx fuel nd.base.pIsImplemented true s1.s = ctlIs cx fuel nd.base.pIsImplemented true s2.s)
    (ha : ctlIs cx fuel nd.base.pIsAvailable true s1.s = ctlIs cx fuel nd.base.pIsAvailable true s2.s)
    (hr : restWritable cx fuel n s1.s = restWritable cx fuel n s2.s) :
    v1 = .bool false ∧
    v2 = .bool (ctlIs cx fuel nd.base.pIsImplemented true s1.s &&
                ctlIs cx fuel nd.base.pIsAvailable true s1.s && restWritable cx fuel n s1.s) := by
  have a1 := locked_not_writable cx fuel n c nd s1 s1' v1 hg hl hc1 h1
  have a2 := is_writable_refines cx fuel n s2 s2' v2 h2
  refine ⟨a1, ?_⟩
  have hcv : ctlValue cx fuel c s2.s = some false := hc2
  have hw : writableB cx (fuel + 1) n s2.s =
      (ctlIs cx fuel nd.base.pIsImplemented true s1.s &&
        ctlIs cx fuel nd.base.pIsAvailable true s1.s && restWritable cx fuel n s1.s) := by
    rw [writable_decomp cx fuel n nd s2.s hg, hi, ha, hr]
    simp [ctlIs, hl, hcv]
  rw [a2]
  simp [Writable, hw]

/-- **controller_reading**: the code reads a controlling node exactly as the specification
does (which is stated from the raw node values, not through `bool_from_id`): whenever
`bool_from_id` answers `b`, the specification's truth value of the node is `b` — a boolean
node gives its value, an integer node gives `value ≠ 0` (so `pIsLocked = 2` locks) — and
conversely a node the specification assigns a truth value is read with that value. -/
theorem controller_reading (cx : Ctx F E) (d : Nat) (c : NodeId) (s : S F) (b : Bool) :
    R.val (boolFromId cx (execRec cx d) c) s = .ok b ↔ ctlValue cx d c s = some b := by
  constructor
  · exact ctlValue_of_ok cx
  · intro h
    unfold ctlValue at h
    unfold boolFromId
    by_cases h1 : isBoolKind cx c = true
    · simp only [h1, if_true] at h ⊢
      unfold R.val
      cases hv : ((execRec cx d).boolValue c s).1 <;> simp [hv] at h ⊢
      exact h
    · by_cases h2 : isIntKind cx c = true
      · simp only [h1, h2, if_true, Bool.false_eq_true, if_false, R.val_bind] at h ⊢
        unfold R.val
        cases hv : ((execRec cx d).intValue c s).1 with
        | ok v =>
          simp only [hv, Option.some.injEq] at h
          subst h
          show (R.val (Pure.pure (v != 0) : R F Bool) s) = _
          by_cases hz : v = 0 <;> simp [hz]
        | err e => simp [hv] at h
        | panic => simp [hv] at h
      · simp [h1, h2] at h

/-- what the specification says for integer-valued controllers: non-zero is true -/
theorem controller_integer_nonzero (cx : Ctx F E) (d : Nat) (c : NodeId) (s : S F) (v : Int)
    (hb : isBoolKind cx c = false) (hi : isIntKind cx c = true)
    (hv : ((execRec cx d).intValue c s).1 = .ok v) :
    (v ≠ 0 → CtlTrue cx d c s) ∧ (v = 0 → CtlFalse cx d c s) := by
  constructor <;> intro hz <;> simp [CtlTrue, CtlFalse, ctlValue, hb, hi, hv, hz]

/-- Everything `Readable` looks at except the two controlling nodes. -/
def restReadable (cx : Ctx F E) (d : Nat) (n : NodeId) (s : S F) : Bool :=
  match cx.graph n with
  | some (.integer b vk _ _ _) | some (.float b vk _ _ _) =>
    b.imposed != .wo && vkReadable cx d (readableB cx d) vk s
  | some (.intReg rb ..) | some (.maskedIntReg rb ..) | some (.floatReg rb _)
  | some (.stringReg rb) => rb.base.imposed != .wo && rb.accessMode != .wo
  | some (.boolean b v _ _) | some (.enumeration b _ v) =>
    b.imposed != .wo && slotOrNodeOk cx (readableB cx d) v s
  | some (.string b v) => b.imposed != .wo && strSlotOrNodeOk cx (readableB cx d) v s
  | some (.converter b fm _ _ pv) | some (.intConverter b fm _ _ pv) =>
    b.imposed != .wo && (isFormulaRef cx pv && readableB cx d pv s) &&
      GenApiSem.varsReadable cx (readableB cx d) fm.vars s
  | some (.swissKnife b fm _) | some (.intSwissKnife b fm _) =>
    b.imposed != .wo && GenApiSem.varsReadable cx (readableB cx d) fm.vars s
  | _ => false

/-- `Readable` = implemented ∧ available ∧ everything else. -/
theorem readable_decomp (cx : Ctx F E) (d : Nat) (n : NodeId) (nd : Node F E) (s : S F)
    (hg : cx.graph n = some nd) :
    readableB cx (d + 1) n s =
      (ctlIs cx d nd.base.pIsImplemented true s && ctlIs cx d nd.base.pIsAvailable true s &&
       restReadable cx d n s) := by
  simp only [readableB, readableStep, restReadable, hg]
  cases nd <;> simp only [Node.base, baseReadable, Bool.and_assoc, Bool.and_false]

/-- **tracks_controllers** for `pIsAvailable` (readable and writable): two states that agree
on everything else the predicates look at; the availability node (boolean, or integer with
non-zero = true) reads false in the first and true in the second.  Then both answers are
`false` in the first state and equal "implemented ∧ [¬locked ∧] everything else" in the
second. -/
theorem tracks_available (cx : Ctx F E) (fuel : Nat) (n c : NodeId) (nd : Node F E)
    (s1 s1' s2 s2' t1 t1' t2 t2' : St F) (r1 r2 w1 w2 : Val F)
    (hg : cx.graph n = some nd) (hl : nd.base.pIsAvailable = some c)
    (hr1 : exec cx (fuel + 1) (.isReadable n) s1 = (.ok r1, s1'))
    (hr2 : exec cx (fuel + 1) (.isReadable n) s2 = (.ok r2, s2'))
    (hw1 : exec cx (fuel + 1) (.isWritable n) t1 = (.ok w1, t1'))
    (hw2 : exec cx (fuel + 1) (.isWritable n) t2 = (.ok w2, t2'))
    (hs1 : t1.s = s1.s) (hs2 : t2.s = s2.s)
    (hc1 : CtlFalse cx fuel c s1.s) (hc2 : CtlTrue cx fuel c s2.s) :
    r1 = .bool false ∧ w1 = .bool false ∧
    r2 = .bool (ctlIs cx fuel nd.base.pIsImplemented true s2.s && restReadable cx fuel n s2.s) ∧
    w2 = .bool (ctlIs cx fuel nd.base.pIsImplemented true s2.s &&
                ctlIs cx fuel nd.base.pIsLocked false s2.s && restWritable cx fuel n s2.s) := by
  have hcv : ctlValue cx fuel c s2.s = some true := hc2
  refine ⟨unavailable_neither cx fuel n c nd s1 s1' r1 hg hl hc1 (Or.inl hr1),
    unavailable_neither cx fuel n c nd t1 t1' w1 hg hl (hs1 ▸ hc1) (Or.inr hw1), ?_, ?_⟩
  · rw [is_readable_refines cx fuel n s2 s2' r2 hr2]
    simp [Readable, readable_decomp cx fuel n nd s2.s hg, ctlIs, hl, hcv]
  · rw [is_writable_refines cx fuel n t2 t2' w2 hw2, hs2]
    simp [Writable, writable_decomp cx fuel n nd s2.s hg, ctlIs, hl, hcv]

/-- **tracks_controllers** for `pIsImplemented`, same shape. -/
theorem tracks_implemented (cx : Ctx F E) (fuel : Nat) (n c : NodeId) (nd : Node F E)
    (s1 s1' s2 s2' t1 t1' t2 t2' : St F) (r1 r2 w1 w2 : Val F)
    (hg : cx.graph n = some nd) (hl : nd.base.pIsImplemented = some c)
    (hr1 : exec cx (fuel + 1) (.isReadable n) s1 = (.ok r1, s1'))
    (hr2 : exec cx (fuel + 1) (.isReadable n) s2 = (.ok r2, s2'))
    (hw1 : exec cx (fuel + 1) (.isWritable n) t1 = (.ok w1, t1'))
    (hw2 : exec cx (fuel + 1) (.isWritable n) t2 = (.ok w2, t2'))
    (hs1 : t1.s = s1.s) (hs2 : t2.s = s2.s)
    (hc1 : CtlFalse cx fuel c s1.s) (hc2 : CtlTrue cx fuel c s2.s) :
    r1 = .bool false ∧ w1 = .bool false ∧
    r2 = .bool (ctlIs cx fuel nd.base.pIsAvailable true s2.s && restReadable cx fuel n s2.s) ∧
    w2 = .bool (ctlIs cx fuel nd.base.pIsAvailable true s2.s &&
                ctlIs cx fuel nd.base.pIsLocked false s2.s && restWritable cx fuel n s2.s) := by
  have hcv : ctlValue cx fuel c s2.s = some true := hc2
  refine ⟨unimplemented_neither cx fuel n c nd s1 s1' r1 hg hl hc1 (Or.inl hr1),
    unimplemented_neither cx fuel n c nd t1 t1' w1 hg hl (hs1 ▸ hc1) (Or.inr hw1), ?_, ?_⟩
  · rw [is_readable_refines cx fuel n s2 s2' r2 hr2]
    simp [Readable, readable_decomp cx fuel n nd s2.s hg, ctlIs, hl, hcv]
  · rw [is_writable_refines cx fuel n t2 t2' w2 hw2, hs2]
    simp [Writable, writable_decomp cx fuel n nd s2.s hg, ctlIs, hl, hcv]

/-! ## Non-vacuity: the hypotheses of the theorems above are satisfiable -/

namespace Ex
/-- dummy helper layers (no floats, no formulas needed for the examples) -/
def ops : Ops Int Unit where
  i2f i := i
  f2i f := f
  fNonZero f := f != 0
  fMin := 0
  fMax := 0
  intFromSlice bs _ _ := .ok (fromLE bs)
  bytesFromInt v n _ _ := .ok (toLE n v.toNat)
  floatFromSlice _ _ := .err .invalidBuffer
  bytesFromFloat _ _ _ := .err .invalidBuffer
  strDecode b := b
  applyMask _ _ v _ _ _ := .ok v
  maskedValue _ _ _ v _ _ _ := .ok v
  maskMin _ _ _ _ _ := .ok 0
  maskMax _ _ _ _ _ := .ok 0
  exprOfInt _ := ()
  exprOfFloat _ := ()
  eval _ _ _ := .err .invalidNode

/-- 0: port · 1: Integer (slot 0) used as lock · 2: Integer (slot 1) locked by 1 ·
3: IntReg RO · 4: IntReg WO · 5: Integer whose pValue is 2 with copy 3 -/
def graph : Graph Int Unit
  | 0 => some (.port {} false)
  | 1 => some (.integer {} (.value 0) (.imm 2) (.imm 3) (.imm 1))
  | 2 => some (.integer { pIsLocked := some 1 } (.value 1) (.imm 2) (.imm 3) (.imm 1))
  | 3 => some (.intReg ⟨{}, [.address (.imm 0)], .imm 1, .ro, 0⟩ .unsigned .le)
  | 4 => some (.intReg ⟨{}, [.address (.imm 0)], .imm 1, .wo, 0⟩ .unsigned .le)
  | 5 => some (.integer {} (.pValue 2 [3]) (.imm 2) (.imm 3) (.imm 1))
  | _ => none

def cx : Ctx Int Unit := ⟨ops, Profile.dev, graph⟩
/-- lock value 1 (locked) -/
def st1 : St Int := ⟨[.int 1, .int 5, .int 0, .int 9], ⟨[7, 8], 0, 0⟩, []⟩
/-- lock value 0 (unlocked), everything else equal -/
def st2 : St Int := ⟨[.int 0, .int 5, .int 0, .int 9], ⟨[7, 8], 0, 0⟩, []⟩
end Ex

/-- lock value 2 (non-zero ⇒ locked) -/
def Ex.st3 : St Int := ⟨[.int 2, .int 5, .int 0, .int 9], ⟨[7, 8], 0, 0⟩, []⟩
example : exec Ex.cx 3 (.isWritable 2) Ex.st3 = (.ok (.bool false), Ex.st3) ∧ CtlTrue Ex.cx 2 1 Ex.st3.s := by
  constructor <;> rfl
/-- `is_writable` answers (so the refinement theorem applies), `false` when locked … -/
example : exec Ex.cx 3 (.isWritable 2) Ex.st1 = (.ok (.bool false), Ex.st1) := by rfl
/-- … and `true` after the lock node's value changed from 1 to 0. -/
example : exec Ex.cx 3 (.isWritable 2) Ex.st2 = (.ok (.bool true), Ex.st2) := by rfl
example : CtlTrue Ex.cx 2 1 Ex.st1.s ∧ CtlFalse Ex.cx 2 1 Ex.st2.s := by
  constructor <;> rfl
example : Writable Ex.cx 3 2 Ex.st2.s ∧ ¬ Writable Ex.cx 3 2 Ex.st1.s := by
  constructor <;> decide
/-- hypotheses of `tracks_controllers` hold for the pair (st1, st2) -/
example : restWritable Ex.cx 2 2 Ex.st1.s = restWritable Ex.cx 2 2 Ex.st2.s ∧
    restWritable Ex.cx 2 2 Ex.st1.s = true := by
  constructor <;> rfl
/-- RO register: readable, not writable; WO register: writable, not readable -/
example : exec Ex.cx 3 (.isWritable 3) Ex.st1 = (.ok (.bool false), Ex.st1) ∧
    exec Ex.cx 3 (.isReadable 3) Ex.st1 = (.ok (.bool true), Ex.st1) ∧
    exec Ex.cx 3 (.isReadable 4) Ex.st1 = (.ok (.bool false), Ex.st1) ∧
    exec Ex.cx 3 (.isWritable 4) Ex.st1 = (.ok (.bool true), Ex.st1) := by
  refine ⟨?_, ?_, ?_, ?_⟩ <;> rfl
/-- value targets: pValue 2 (unlocked in st2) but the copy 3 is a read-only register -/
example : exec Ex.cx 4 (.isWritable 5) Ex.st2 = (.ok (.bool false), Ex.st2) ∧
    exec Ex.cx 4 (.isReadable 5) Ex.st2 = (.ok (.bool true), Ex.st2) := by
  constructor <;> rfl

/-! ## The error side -/

/-- **access_error_explained**: an access query introduces no error of its own except
`InvalidNode`.  If `is_readable` / `is_writable` of a node answers an error `e`, then `e` is
`InvalidNode` (a referenced node of the wrong kind — or the node's own kind offers no such
query), or the model-only `outOfFuel`, or there is a node `c` and a reference depth `d ≤ fuel`
such that, AT THAT STATE, the evaluation of `c` as controlling node (`bool_from_id`: what
`pIsImplemented` / `pIsAvailable` / `pIsLocked` go through) or as `pIndex` selector fails with
exactly `e` (`Explained`; `controller_failure` / `selector_failure` say what such a failure
is).  This is the rule of the implementation-side oracle `access-error-unexplained`, as a
theorem about the model — for every graph, state, profile and depth. -/
theorem access_error_explained (cx : Ctx F E) (fuel : Nat) (n : NodeId) (st : St F) (e : Err) :
    ((exec cx (fuel + 1) (.isReadable n) st).1 = .err e → Explained cx fuel st.s e) ∧
    ((exec cx (fuel + 1) (.isWritable n) st).1 = .err e → Explained cx fuel st.s e) := by
  constructor <;> intro h <;> simp only [exec, top] at h
  · refine isReadableF_ok fuel n st.s e ?_
    unfold runR at h; unfold R.val
    cases hm : isReadableF cx (execRec cx fuel) n st.s with
    | mk r l => rw [hm] at h; cases r <;> simp at h ⊢; exact h
  · refine isWritableF_ok fuel n st.s e ?_
    unfold runR at h; unfold R.val
    cases hm : isWritableF cx (execRec cx fuel) n st.s with
    | mk r l => rw [hm] at h; cases r <;> simp at h ⊢; exact h

/- The strengthening with reachability (the failing node is one the query consults; the cause of an
`InvalidNode` answer) is `access_error_explained_reachable` below. -/

/-- what it means that the evaluation of `c` as controlling node fails with `e`: `c` is a
boolean node whose value evaluation fails with `e`, or an integer node whose value
evaluation fails with `e`, or neither kind and `e` is `InvalidNode` -/
theorem controller_failure (cx : Ctx F E) (r : Rec F) (c : NodeId) (s : S F) (e : Err) :
    R.val (boolFromId cx r c) s = .err e ↔
      (isBoolKind cx c = true ∧ R.val (r.boolValue c) s = .err e) ∨
      (isBoolKind cx c = false ∧ isIntKind cx c = true ∧ R.val (r.intValue c) s = .err e) ∨
      (isBoolKind cx c = false ∧ isIntKind cx c = false ∧ e = .invalidNode) := by
  unfold boolFromId
  by_cases hb : isBoolKind cx c = true
  · simp [hb]
  · by_cases hi : isIntKind cx c = true
    · simp only [hb, hi, if_true, Bool.false_eq_true, if_false, R.val_bind]
      cases hv : R.val (r.intValue c) s <;> simp [Res.bind, hb]
    · simp [hb, hi, eq_comm]

/-- … and as `pIndex` selector: an integer node whose value evaluation fails with `e`, or
not an integer node and `e` is `InvalidNode` -/
theorem selector_failure (cx : Ctx F E) (r : Rec F) (sel : NodeId) (s : S F) (e : Err) :
    R.val (pIndexIndex cx r sel) s = .err e ↔
      (isIntKind cx sel = true ∧ R.val (r.intValue sel) s = .err e) ∨
      (isIntKind cx sel = false ∧ e = .invalidNode) := by
  unfold pIndexIndex
  by_cases hi : isIntKind cx sel = true
  · simp [hi]
  · simp [hi, eq_comm]

namespace ExErr
/-- 0 port · 1 IntReg at address 100, length 1 (outside the 2-byte device image: reading it
fails with `Device`) · 2 Integer over a value-store slot whose `pIsAvailable` is register 1 -/
def graph : Graph Int Unit
  | 0 => some (.port {} false)
  | 1 => some (.intReg ⟨{}, [.address (.imm 100)], .imm 1, .rw, 0⟩ .unsigned .le)
  | 2 => some (.integer { pIsAvailable := some 1 } (.value 0) (.imm 1) (.imm 2) (.imm 1))
  | _ => none
def cx : Ctx Int Unit := ⟨Ex.ops, Profile.dev, graph⟩
def st : St Int := ⟨[.int 5, .int 0, .int 9], ⟨[7, 8], 0, 0⟩, []⟩
end ExErr

/-- the hypothesis of `access_error_explained` is satisfiable and its conclusion has a genuine
witness: `is_readable` of node 2 fails with `Device`, which is neither `InvalidNode` nor
`outOfFuel` — it is the error with which the controlling node 1 fails to evaluate -/
example : (exec ExErr.cx 3 (.isReadable 2) ExErr.st).1 = .err .device ∧
    (exec ExErr.cx 3 (.isWritable 2) ExErr.st).1 = .err .device ∧
    R.val (boolFromId ExErr.cx (execRec ExErr.cx 2) 1) ExErr.st.s = .err .device := by
  refine ⟨?_, ?_, ?_⟩ <;> rfl

/-! ## The error side, with reachability -/

/-- **access_error_explained_reachable**: `access_error_explained` with the failing node located.
`Consults cx (m, n) (m', c)` is the reflexive-transitive closure of the references the query `m`
(`.r`: `is_readable`, `.w`: `is_writable`) of `n` follows, with the way `m'` in which `c` is looked at
(`nodeRefs`: `pIsImplemented` / `pIsAvailable` and — for `.w` only — `pIsLocked`, which are only
EVALUATED (`.v`: nothing is followed from them); `pValue` and — for `.w` only — its copies; the
`pIndex` selector, asked `is_readable` by both queries, and the branches; formula variables (always
`.r`), converter `pValue`); `Below cx m n c k` says that some node consulted by the query `m` of `n`
refers to `c` *as* `k` (controller, selector, value, string value, formula scalar) — so `c` is
consulted too (`Below.consults`).  If `is_readable` / `is_writable` of `n` answers an error `e` then
* `e = InvalidNode` and either `n` itself has no interface with that query (`NoReadIface` /
  `NoWriteIface`: absent or of such a kind), or there is a witness `c`, `k`: a node consulted from
  `n` refers to `c` as `k` and `c` does not offer what `k` needs (`offers cx c k = false`: absent or
  of the wrong kind); or
* `e` is the model-only `outOfFuel`; or
* a node consulted from `n` has `c` as controlling node (resp. `pIndex` selector) and, at that
  state and some depth `d ≤ fuel`, the evaluation of `c` as controlling node (resp. selector)
  fails with exactly `e` (`controller_failure` / `selector_failure` say what that means; an absent
  or ill-kinded controller is the case `e = InvalidNode` of those).
For every graph (cyclic, ill-typed …), state, profile and depth. -/
theorem access_error_explained_reachable (cx : Ctx F E) (fuel : Nat) (n : NodeId) (st : St F) (e : Err) :
    ((exec cx (fuel + 1) (.isReadable n) st).1 = .err e → ExplainedFrom cx fuel (NoReadIface cx n) .r n st.s e) ∧
    ((exec cx (fuel + 1) (.isWritable n) st).1 = .err e → ExplainedFrom cx fuel (NoWriteIface cx n) .w n st.s e) := by
  constructor <;> intro h <;> simp only [exec, top] at h
  · refine isReadableF_r fuel n st.s e ?_
    unfold runR at h; unfold R.val
    cases hm : isReadableF cx (execRec cx fuel) n st.s with
    | mk r l => rw [hm] at h; cases r <;> simp at h ⊢; exact h
  · refine isWritableF_r fuel n st.s e ?_
    unfold runR at h; unfold R.val
    cases hm : isWritableF cx (execRec cx fuel) n st.s with
    | mk r l => rw [hm] at h; cases r <;> simp at h ⊢; exact h

private theorem consults_of_explained {cx : Ctx F E} {fuel : Nat} {own : Prop} {m : Mode} {n : NodeId}
    {s : S F} {e : Err} (hx : ExplainedFrom cx fuel own m n s e) (h1 : e ≠ .invalidNode) (h2 : e ≠ .outOfFuel) :
    ∃ c d, d ≤ fuel ∧ ConsultsNode cx m n c ∧
      (R.val (boolFromId cx (execRec cx d) c) s = .err e ∨ R.val (pIndexIndex cx (execRec cx d) c) s = .err e) := by
  rcases hx with ⟨h, _⟩ | h | ⟨c, d, hd, hc⟩
  · exact absurd h h1
  · exact absurd h h2
  · rcases hc with ⟨hb, hv⟩ | ⟨hb, hv⟩
    · exact ⟨c, d, hd, hb.consults, .inl hv⟩
    · exact ⟨c, d, hd, hb.consults, .inr hv⟩

/-- **access_error_consults**: the short form.  Any error of an access query of `n` other than
`InvalidNode` / `outOfFuel` is the error with which a node `c` that THIS query consults
(`ConsultsNode cx .r n c` for `is_readable`, `.w` for `is_writable`; `c` is referred to as
controlling node or selector by a consulted node) fails to evaluate at that state. -/
theorem access_error_consults (cx : Ctx F E) (fuel : Nat) (n : NodeId) (st : St F) (e : Err)
    (h1 : e ≠ .invalidNode) (h2 : e ≠ .outOfFuel) :
    ((exec cx (fuel + 1) (.isReadable n) st).1 = .err e →
      ∃ c d, d ≤ fuel ∧ ConsultsNode cx .r n c ∧
        (R.val (boolFromId cx (execRec cx d) c) st.s = .err e ∨ R.val (pIndexIndex cx (execRec cx d) c) st.s = .err e)) ∧
    ((exec cx (fuel + 1) (.isWritable n) st).1 = .err e →
      ∃ c d, d ≤ fuel ∧ ConsultsNode cx .w n c ∧
        (R.val (boolFromId cx (execRec cx d) c) st.s = .err e ∨ R.val (pIndexIndex cx (execRec cx d) c) st.s = .err e)) :=
  ⟨fun h => consults_of_explained ((access_error_explained_reachable cx fuel n st e).1 h) h1 h2,
   fun h => consults_of_explained ((access_error_explained_reachable cx fuel n st e).2 h) h1 h2⟩

/-- **invalid_node_cause**: an `InvalidNode` answer of an access query of `n` has a located cause:
`n` has no such interface, or a consulted node `c` is referred to as `k` without offering it, or a
consulted controlling node / selector `c` fails to evaluate with `InvalidNode`. -/
theorem invalid_node_cause (cx : Ctx F E) (fuel : Nat) (n : NodeId) (st : St F)
    (h : (exec cx (fuel + 1) (.isReadable n) st).1 = .err .invalidNode) :
    NoReadIface cx n ∨
    (∃ c k, ConsultsNode cx .r n c ∧ Below cx .r n c k ∧ offers cx c k = false) ∨
    ∃ c d, d ≤ fuel ∧ ConsultsNode cx .r n c ∧
      (R.val (boolFromId cx (execRec cx d) c) st.s = .err .invalidNode ∨
       R.val (pIndexIndex cx (execRec cx d) c) st.s = .err .invalidNode) := by
  rcases (access_error_explained_reachable cx fuel n st .invalidNode).1 h with ⟨_, ho | ⟨c, k, hb, ho⟩⟩ | h | ⟨c, d, hd, hc⟩
  · exact .inl ho
  · exact .inr (.inl ⟨c, k, hb.consults, hb, ho⟩)
  · cases h
  · rcases hc with ⟨hb, hv⟩ | ⟨hb, hv⟩
    · exact .inr (.inr ⟨c, d, hd, hb.consults, .inl hv⟩)
    · exact .inr (.inr ⟨c, d, hd, hb.consults, .inr hv⟩)

/-- `invalid_node_cause` for `is_writable` (`NoWriteIface`: not even a Command) -/
theorem invalid_node_cause_writable (cx : Ctx F E) (fuel : Nat) (n : NodeId) (st : St F)
    (h : (exec cx (fuel + 1) (.isWritable n) st).1 = .err .invalidNode) :
    NoWriteIface cx n ∨
    (∃ c k, ConsultsNode cx .w n c ∧ Below cx .w n c k ∧ offers cx c k = false) ∨
    ∃ c d, d ≤ fuel ∧ ConsultsNode cx .w n c ∧
      (R.val (boolFromId cx (execRec cx d) c) st.s = .err .invalidNode ∨
       R.val (pIndexIndex cx (execRec cx d) c) st.s = .err .invalidNode) := by
  rcases (access_error_explained_reachable cx fuel n st .invalidNode).2 h with ⟨_, ho | ⟨c, k, hb, ho⟩⟩ | h | ⟨c, d, hd, hc⟩
  · exact .inl ho
  · exact .inr (.inl ⟨c, k, hb.consults, hb, ho⟩)
  · cases h
  · rcases hc with ⟨hb, hv⟩ | ⟨hb, hv⟩
    · exact .inr (.inr ⟨c, d, hd, hb.consults, .inl hv⟩)
    · exact .inr (.inr ⟨c, d, hd, hb.consults, .inr hv⟩)

/-- in `ExErr`, node 2 refers to node 1 as controlling node (its `pIsAvailable`) … -/
example : Below ExErr.cx .r 2 1 .controller ∧ ConsultsNode ExErr.cx .r 2 1 := by
  have h : Below ExErr.cx .r 2 1 .controller := .of_edge (m' := .v) ⟨by decide, _, rfl, by decide⟩
  exact ⟨h, h.consults⟩
/-- … while the query of node 1 consults nothing but node 1, so the failing node of a query of
node 1 could not be node 2: the reachability clause is a real restriction -/
example : ∀ a, Consults ExErr.cx (.r, 1) a → a = (.r, 1) := by
  intro a h
  cases h with
  | refl => rfl
  | step e _ =>
    obtain ⟨_, nd, hg, hm⟩ := e
    have : nd = (.intReg ⟨{}, [.address (.imm 100)], .imm 1, .rw, 0⟩ .unsigned .le) := by
      have : ExErr.graph 1 = some nd := hg
      simpa [ExErr.graph] using this.symm
    subst this
    simp [nodeRefs, baseRefs, optRefs] at hm
/-- the lock of a node is consulted by its writable query only, and nothing is followed from a
node that is only evaluated: in `Ex`, node 2 is locked by node 1 -/
example : Below Ex.cx .w 2 1 .controller ∧ (∀ a, Consults Ex.cx (.r, 2) a → a = (.r, 2)) ∧
    (∀ a, Consults Ex.cx (.v, 1) a → a = (.v, 1)) := by
  refine ⟨.of_edge (m' := .v) ⟨by decide, _, rfl, by decide⟩, ?_, ?_⟩
  · intro a h
    cases h with
    | refl => rfl
    | step e _ =>
      obtain ⟨_, nd, hg, hm⟩ := e
      have : nd = (.integer { pIsLocked := some 1 } (.value 1) (.imm 2) (.imm 3) (.imm 1)) := by
        have : Ex.graph 2 = some nd := hg
        simpa [Ex.graph] using this.symm
      subst this
      simp [nodeRefs, baseRefs, optRefs, vkRefs] at hm
  · intro a h
    cases h with
    | refl => rfl
    | step e _ => exact absurd rfl e.1

namespace ExInv
/-- 0 port · 1 Integer over a slot · 2 String whose `pValue` is the integer node 1 (wrong kind) ·
3 Integer whose `pIsLocked` is the absent node 9 -/
def graph : Graph Int Unit
  | 0 => some (.port {} false)
  | 1 => some (.integer {} (.value 0) (.imm 1) (.imm 2) (.imm 1))
  | 2 => some (.string {} (.pnode 1))
  | 3 => some (.integer { pIsLocked := some 9 } (.value 0) (.imm 1) (.imm 2) (.imm 1))
  | _ => none
def cx : Ctx Int Unit := ⟨Ex.ops, Profile.dev, graph⟩
def st : St Int := ⟨[.int 5, .int 0, .int 9], ⟨[7, 8], 0, 0⟩, []⟩
end ExInv

/-- `InvalidNode` with a wrong-kind witness: the string node 2 refers to node 1 as string value,
node 1 is an integer node -/
example : (exec ExInv.cx 3 (.isReadable 2) ExInv.st).1 = .err .invalidNode ∧
    Below ExInv.cx .r 2 1 .str ∧ offers ExInv.cx 1 .str = false :=
  ⟨rfl, .of_edge (m' := .r) ⟨by decide, _, rfl, by decide⟩, rfl⟩
/-- `InvalidNode` from an absent controlling node: third clause, `controller_failure` case 3 -/
example : (exec ExInv.cx 3 (.isWritable 3) ExInv.st).1 = .err .invalidNode ∧
    Below ExInv.cx .w 3 9 .controller ∧
    R.val (boolFromId ExInv.cx (execRec ExInv.cx 2) 9) ExInv.st.s = .err .invalidNode :=
  ⟨rfl, .of_edge (m' := .v) ⟨by decide, _, rfl, by decide⟩, rfl⟩
/-- `InvalidNode` because the node itself has no access interface (a port) -/
example : (exec ExInv.cx 3 (.isReadable 0) ExInv.st).1 = .err .invalidNode ∧ NoReadIface ExInv.cx 0 :=
  ⟨rfl, rfl, rfl, rfl, rfl, rfl⟩

/-! ## Restrictions dominate along the value path; mode caps; writes are not gated -/

/-- **readable_needs_sources / writable_needs_targets**: a readable node's value sources
(`mustRead`: `pValue`, `pIndex` selector, `pValue` of Boolean / Enumeration / String / Converter,
formula variables) are readable one level down; a writable node's value targets (`mustWrite`:
`pValue` and EVERY `pValueCopy`, …) are writable and what it must read to be written
(`mustReadToWrite`: selector, converter variables) is readable. -/
theorem accessible_needs_value_path (cx : Ctx F E) (d : Nat) (n : NodeId) (nd : Node F E) (s : S F)
    (hg : cx.graph n = some nd) :
    (Readable cx (d + 1) n s → ∀ p ∈ mustRead nd, Readable cx d p s) ∧
    (Writable cx (d + 1) n s → (∀ p ∈ mustWrite nd, Writable cx d p s) ∧
                               (∀ p ∈ mustReadToWrite nd, Readable cx d p s)) :=
  ⟨readable_sources cx d n nd s hg, writable_targets cx d n nd s hg⟩

/-- **restriction_on_value_path_dominates**: whatever makes a node `c` on the value path of `n`
inaccessible (not implemented, not available, locked, imposed / register access mode, …) makes
`n` inaccessible: if `c` is `k` value-source steps from `n` (`ReadPath`) and is not `Readable`,
`is_readable n` never answers `true`; if `c` is `k` value-target steps from `n` (`WritePath`) and
is not `Writable`, `is_writable n` never answers `true`.  For every graph, state, path length. -/
theorem restriction_on_value_path_dominates (cx : Ctx F E) (fuel k : Nat) (n c : NodeId) (st st' : St F) (v : Val F) :
    (ReadPath cx k n c → ¬ Readable cx (fuel + 1) c st.s →
      exec cx (fuel + 1 + k) (.isReadable n) st = (.ok v, st') → v = .bool false) ∧
    (WritePath cx k n c → ¬ Writable cx (fuel + 1) c st.s →
      exec cx (fuel + 1 + k) (.isWritable n) st = (.ok v, st') → v = .bool false) := by
  have e : fuel + 1 + k = (fuel + k) + 1 := by omega
  constructor
  · intro hp hc h
    rw [e] at h
    refine ranswer_false_of_not h fun hr => hc ?_
    have hr' : readableB cx (fuel + 1 + k) n st.s = true := by rw [e]; exact hr
    exact readable_along cx hp (fuel + 1) st.s hr'
  · intro hp hc h
    rw [e] at h
    refine answer_false_of_not h fun hr => hc ?_
    have hr' : writableB cx (fuel + 1 + k) n st.s = true := by rw [e]; exact hr
    exact writable_along cx hp (fuel + 1) st.s hr'

/-- **not_implemented_dominates**: if the `pIsImplemented` node of `n` — or of ANY node `c` on
the value path of `n` (`k = 0`: `n` itself) — currently reads false, both `is_readable n` and
`is_writable n` answer false (whenever they answer).  Same proof for `pIsAvailable`
(`unavailable_dominates`). -/
theorem not_implemented_dominates (cx : Ctx F E) (fuel k : Nat) (n c ctl : NodeId) (nd : Node F E)
    (st st' : St F) (v : Val F)
    (hg : cx.graph c = some nd) (hl : nd.base.pIsImplemented = some ctl) (hc : CtlFalse cx fuel ctl st.s) :
    (ReadPath cx k n c → exec cx (fuel + 1 + k) (.isReadable n) st = (.ok v, st') → v = .bool false) ∧
    (WritePath cx k n c → exec cx (fuel + 1 + k) (.isWritable n) st = (.ok v, st') → v = .bool false) := by
  have hcv : ctlValue cx fuel ctl st.s = some false := hc
  refine ⟨fun hp h => (restriction_on_value_path_dominates cx fuel k n c st st' v).1 hp ?_ h,
          fun hp h => (restriction_on_value_path_dominates cx fuel k n c st st' v).2 hp ?_ h⟩
  · intro hr
    obtain ⟨nd', hg', hb⟩ := Readable.base hr
    rw [hg] at hg'; cases hg'
    simp [baseReadable, ctlIs, hl, hcv] at hb
  · intro hw
    obtain ⟨nd', hg', hb⟩ := Writable.base hw
    rw [hg] at hg'; cases hg'
    simp [baseWritable, ctlIs, hl, hcv] at hb

/-- `not_implemented_dominates` for `pIsAvailable` -/
theorem unavailable_dominates (cx : Ctx F E) (fuel k : Nat) (n c ctl : NodeId) (nd : Node F E)
    (st st' : St F) (v : Val F)
    (hg : cx.graph c = some nd) (hl : nd.base.pIsAvailable = some ctl) (hc : CtlFalse cx fuel ctl st.s) :
    (ReadPath cx k n c → exec cx (fuel + 1 + k) (.isReadable n) st = (.ok v, st') → v = .bool false) ∧
    (WritePath cx k n c → exec cx (fuel + 1 + k) (.isWritable n) st = (.ok v, st') → v = .bool false) := by
  have hcv : ctlValue cx fuel ctl st.s = some false := hc
  refine ⟨fun hp h => (restriction_on_value_path_dominates cx fuel k n c st st' v).1 hp ?_ h,
          fun hp h => (restriction_on_value_path_dominates cx fuel k n c st st' v).2 hp ?_ h⟩
  · intro hr
    obtain ⟨nd', hg', hb⟩ := Readable.base hr
    rw [hg] at hg'; cases hg'
    simp [baseReadable, ctlIs, hl, hcv] at hb
  · intro hw
    obtain ⟨nd', hg', hb⟩ := Writable.base hw
    rw [hg] at hg'; cases hg'
    simp [baseWritable, ctlIs, hl, hcv] at hb

/-- **locked_target_dominates**: a lock anywhere on the value-TARGET path (`pValue`, any
`pValueCopy`, … of `n`, transitively; `k = 0`: `n` itself) makes `n` unwritable. -/
theorem locked_target_dominates (cx : Ctx F E) (fuel k : Nat) (n c ctl : NodeId) (nd : Node F E)
    (st st' : St F) (v : Val F)
    (hg : cx.graph c = some nd) (hl : nd.base.pIsLocked = some ctl) (hc : CtlTrue cx fuel ctl st.s)
    (hp : WritePath cx k n c) (h : exec cx (fuel + 1 + k) (.isWritable n) st = (.ok v, st')) : v = .bool false := by
  have hcv : ctlValue cx fuel ctl st.s = some true := hc
  refine (restriction_on_value_path_dominates cx fuel k n c st st' v).2 hp ?_ h
  intro hw
  obtain ⟨nd', hg', hb⟩ := Writable.base hw
  rw [hg] at hg'; cases hg'
  simp [baseWritable, ctlIs, hl, hcv] at hb

/-- **imposed_access_mode_caps** / **register_access_mode_caps**, at the level of the predicates
and for every depth and state (no hypothesis that the query answers): `ImposedAccessMode` RO or a
register `AccessMode` RO ⇒ never `Writable`; WO ⇒ never `Readable` — for every node kind; hence
`is_writable` / `is_readable` never answers `true` there (it answers `false`, or fails). -/
theorem access_mode_caps (cx : Ctx F E) (d : Nat) (n : NodeId) (nd : Node F E) (s : S F)
    (hg : cx.graph n = some nd) :
    ((nd.base.imposed = .ro ∨ ∃ rb, nd.regBase? = some rb ∧ rb.accessMode = .ro) → ¬ Writable cx d n s) ∧
    ((nd.base.imposed = .wo ∨ ∃ rb, nd.regBase? = some rb ∧ rb.accessMode = .wo) → ¬ Readable cx d n s) := by
  cases d with
  | zero => exact ⟨fun _ h => by simp [Writable, writableB] at h, fun _ h => by simp [Readable, readableB] at h⟩
  | succ d =>
    constructor
    · rintro (hro | ⟨rb, hr, hro⟩) hw
      · obtain ⟨nd', hg', hb⟩ := Writable.base hw
        rw [hg] at hg'; cases hg'
        simp [baseWritable, hro] at hb
      · exact Writable.reg hw hg hr hro
    · rintro (hwo | ⟨rb, hr, hwo⟩) hw
      · obtain ⟨nd', hg', hb⟩ := Readable.base hw
        rw [hg] at hg'; cases hg'
        simp [baseReadable, hwo] at hb
      · exact Readable.reg hw hg hr hwo

/-- … and the queries: under such a mode the answer is never `true`, whatever the final state -/
theorem access_mode_caps_answer (cx : Ctx F E) (fuel : Nat) (n : NodeId) (nd : Node F E) (st st' : St F)
    (hg : cx.graph n = some nd) :
    ((nd.base.imposed = .ro ∨ ∃ rb, nd.regBase? = some rb ∧ rb.accessMode = .ro) →
      exec cx (fuel + 1) (.isWritable n) st ≠ (.ok (.bool true), st')) ∧
    ((nd.base.imposed = .wo ∨ ∃ rb, nd.regBase? = some rb ∧ rb.accessMode = .wo) →
      exec cx (fuel + 1) (.isReadable n) st ≠ (.ok (.bool true), st')) := by
  constructor
  · intro hm h
    have := answer_false_of_not h ((access_mode_caps cx (fuel + 1) n nd st.s hg).1 hm)
    simp at this
  · intro hm h
    have := ranswer_false_of_not h ((access_mode_caps cx (fuel + 1) n nd st.s hg).2 hm)
    simp at this

/-- **set_value_not_gated_by_access** (what holds instead of "not writable ⇒ the write is
refused"): `set_value` performs NO access check of its own.  There are a graph, a state and a
node (`Ex`: the Integer node 2, locked by node 1 which reads 1) such that `is_writable` answers
`false` and `set_value` is nevertheless carried out: it answers `ok` and changes the value store.
`NotWritable` is returned only for structural reasons (formula nodes, true immediates, a value
target of a kind without a value interface — `const_not_writable`, `imm_access`).  The same run
on the real nodes: corpus entry `corpus/C18/set-value-not-gated-by-access.json` (replayed and
compared with the model in every check run).  So callers must ask `is_writable` themselves, as
the crate's documentation examples do. -/
theorem set_value_not_gated_by_access :
    ∃ (cx : Ctx Int Unit) (n : NodeId) (st : St Int) (v : Int),
      exec cx 3 (.isWritable n) st = (.ok (.bool false), st) ∧
      (exec cx 3 (.intSet n v) st).1 = .ok .unit ∧
      (exec cx 3 (.intSet n v) st).2.vs ≠ st.vs :=
  ⟨Ex.cx, 2, Ex.st1, 7, by rfl, by rfl, fun h => by
    have h2 : (some (ValueData.int 7) : Option (ValueData Int)) = some (.int 5) := congrArg (fun l => l[1]?) h
    simp at h2⟩

namespace ExPath
/-- 0 port · 1 Integer (slot 0): the controller · 2 Integer over slot 1 whose `pIsImplemented` is 1 ·
3 Integer with `pValue` 2 · 4 Integer with `pValue` 3 and copy 2 -/
def graph : Graph Int Unit
  | 0 => some (.port {} false)
  | 1 => some (.integer {} (.value 0) (.imm 2) (.imm 3) (.imm 1))
  | 2 => some (.integer { pIsImplemented := some 1 } (.value 1) (.imm 2) (.imm 3) (.imm 1))
  | 3 => some (.integer {} (.pValue 2 []) (.imm 2) (.imm 3) (.imm 1))
  | 4 => some (.integer {} (.pValue 3 [2]) (.imm 2) (.imm 3) (.imm 1))
  | _ => none
def cx : Ctx Int Unit := ⟨Ex.ops, Profile.dev, graph⟩
/-- controller reads 0: node 2 is not implemented -/
def st : St Int := ⟨[.int 0, .int 5, .int 0, .int 9], ⟨[7, 8], 0, 0⟩, []⟩
/-- controller reads 1 -/
def st' : St Int := ⟨[.int 1, .int 5, .int 0, .int 9], ⟨[7, 8], 0, 0⟩, []⟩
end ExPath

/-- node 2 is two value-source (and value-target) steps below node 4 … -/
example : ReadPath ExPath.cx 2 4 2 ∧ WritePath ExPath.cx 2 4 2 ∧ WritePath ExPath.cx 1 4 2 :=
  ⟨.next (m := 3) (nd := .integer {} (.pValue 3 [2]) (.imm 2) (.imm 3) (.imm 1)) rfl (by simp [mustRead])
      (.next (m := 2) (nd := .integer {} (.pValue 2 []) (.imm 2) (.imm 3) (.imm 1)) rfl (by simp [mustRead]) (.here 2)),
   .next (m := 3) (nd := .integer {} (.pValue 3 [2]) (.imm 2) (.imm 3) (.imm 1)) rfl (by simp [mustWrite])
      (.next (m := 2) (nd := .integer {} (.pValue 2 []) (.imm 2) (.imm 3) (.imm 1)) rfl (by simp [mustWrite]) (.here 2)),
   .next (m := 2) (nd := .integer {} (.pValue 3 [2]) (.imm 2) (.imm 3) (.imm 1)) rfl (by simp [mustWrite]) (.here 2)⟩
/-- … its `pIsImplemented` reads false in `st`, the queries of node 4 answer (`false`), and they
answer `true` once the controller reads 1: hypotheses of `not_implemented_dominates` are
satisfiable and the conclusion is not the only possible answer -/
example : CtlFalse ExPath.cx 1 1 ExPath.st.s ∧
    exec ExPath.cx (1 + 1 + 2) (.isReadable 4) ExPath.st = (.ok (.bool false), ExPath.st) ∧
    exec ExPath.cx (1 + 1 + 2) (.isWritable 4) ExPath.st = (.ok (.bool false), ExPath.st) ∧
    exec ExPath.cx (1 + 1 + 2) (.isReadable 4) ExPath.st' = (.ok (.bool true), ExPath.st') ∧
    exec ExPath.cx (1 + 1 + 2) (.isWritable 4) ExPath.st' = (.ok (.bool true), ExPath.st') := by
  refine ⟨?_, ?_, ?_, ?_, ?_⟩ <;> rfl
/-- `access_mode_caps`: the RO / WO registers of `Ex` -/
example : ¬ Writable Ex.cx 5 3 Ex.st1.s ∧ ¬ Readable Ex.cx 5 4 Ex.st1.s :=
  ⟨(access_mode_caps Ex.cx 5 3 _ Ex.st1.s rfl).1 (.inr ⟨_, rfl, rfl⟩),
   (access_mode_caps Ex.cx 5 4 _ Ex.st1.s rfl).2 (.inr ⟨_, rfl, rfl⟩)⟩

/-- **selected_branch_accessible**: the state-dependent step of the value path.  A readable
(writable) Integer / Float whose value is selected by `pIndex`: the selector currently has a value
`i`, and the branch that `i` selects — an indexed entry or the default — is readable (writable)
if it is a node.  (The selector itself is in `mustRead` / `mustReadToWrite`.)  So a restriction
on the CURRENTLY selected branch dominates, and one on another branch does not matter. -/
theorem selected_branch_accessible (cx : Ctx F E) (d : Nat) (n sel : NodeId) (nd : Node F E)
    (es : List (Int × ImmOrPNode SlotId)) (dflt : ImmOrPNode SlotId) (s : S F)
    (hg : cx.graph n = some nd)
    (hk : (∃ b mn mx inc, nd = .integer b (.pIndex sel es dflt) mn mx inc) ∨
          (∃ b mn mx inc, nd = .float b (.pIndex sel es dflt) mn mx inc)) :
    (Readable cx (d + 1) n s → ∃ i, selValue cx d sel s = some i ∧
      ∀ p, pIndexSelect es dflt i = .pnode p → Readable cx d p s) ∧
    (Writable cx (d + 1) n s → ∃ i, selValue cx d sel s = some i ∧
      ∀ p, pIndexSelect es dflt i = .pnode p → Writable cx d p s) :=
  selected_branch cx d n sel nd es dflt s hg hk

namespace ExIdx
/-- 0 port · 1 Integer (slot 0): the selector · 2 Integer over slot 1 · 3 IntReg WO ·
4 Integer whose value is node 3 when the selector reads 1 and node 2 otherwise -/
def graph : Graph Int Unit
  | 0 => some (.port {} false)
  | 1 => some (.integer {} (.value 0) (.imm 2) (.imm 3) (.imm 1))
  | 2 => some (.integer {} (.value 1) (.imm 2) (.imm 3) (.imm 1))
  | 3 => some (.intReg ⟨{}, [.address (.imm 0)], .imm 1, .wo, 0⟩ .unsigned .le)
  | 4 => some (.integer {} (.pIndex 1 [(1, .pnode 3)] (.pnode 2)) (.imm 2) (.imm 3) (.imm 1))
  | _ => none
def cx : Ctx Int Unit := ⟨Ex.ops, Profile.dev, graph⟩
/-- selector reads 1: the write-only register is selected -/
def st1 : St Int := ⟨[.int 1, .int 5, .int 0, .int 9], ⟨[7, 8], 0, 0⟩, []⟩
/-- selector reads 0: the default branch (node 2) is selected -/
def st0 : St Int := ⟨[.int 0, .int 5, .int 0, .int 9], ⟨[7, 8], 0, 0⟩, []⟩
end ExIdx

/-- the answers follow the selected branch: WO register selected ⇒ writable, not readable;
default branch selected ⇒ both -/
example : exec ExIdx.cx 4 (.isReadable 4) ExIdx.st1 = (.ok (.bool false), ExIdx.st1) ∧
    exec ExIdx.cx 4 (.isWritable 4) ExIdx.st1 = (.ok (.bool true), ExIdx.st1) ∧
    exec ExIdx.cx 4 (.isReadable 4) ExIdx.st0 = (.ok (.bool true), ExIdx.st0) ∧
    exec ExIdx.cx 4 (.isWritable 4) ExIdx.st0 = (.ok (.bool true), ExIdx.st0) ∧
    selValue ExIdx.cx 3 1 ExIdx.st1.s = some 1 ∧ pIndexSelect [(1, .pnode 3)] (.pnode 2) 1 = .pnode 3 := by
  refine ⟨?_, ?_, ?_, ?_, ?_, ?_⟩ <;> rfl

end CamVerif.C18
