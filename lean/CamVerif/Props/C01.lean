/-
C01 — Register features encode and decode values exactly.

Property theorems only.  Everything is quantified over all values, byte images,
byte orders, signs, addresses, devices (memory, prior log, fault script) — nothing
is bounded.  None of the modelled functions performs overflowable arithmetic, so
the statements hold for both build profiles (there is no `Profile` parameter).

Vocabulary: `Spec.Codec.image / reading / InRange / strImage / Representable` are the
independent reference (two's complement, NUL-padded ASCII); `Reg.*` is the model of
the Rust code.  `n` is the register length (`length = n` as evaluated `i64`).
-/
import CamVerif.Proofs.C01
import CamVerif.Proofs.C01Cached
import CamVerif.Proofs.C01CachedMore
import CamVerif.Proofs.C01CachedRO
import CamVerif.Proofs.C01CachedDyn
import CamVerif.Proofs.C01CachedDyn2
import CamVerif.Proofs.C01Utf8
namespace CamVerif.C01
open CamVerif CamVerif.Reg CamVerif.Spec.Codec CamVerif.Proofs.C01

/-- `d'` is `d` after exactly one performed device access `acc`, leaving memory `mem'`. -/
def OneAccess (d d' : Dev) (acc : Access) (mem' : Mem) : Prop :=
  d'.log = d.log ++ [acc] ∧ d'.mem = mem' ∧ d'.refuse = d.refuse ∧ d'.attempts = d.attempts + 1

/-- memory and log of `d'` are those of `d` (no device access was performed) -/
def Untouched (d d' : Dev) : Prop := d'.mem = d.mem ∧ d'.log = d.log

private theorem asUsize_nat (n : Nat) (h : n < 2 ^ 63) : asUsize (n : Int) = n := by
  rw [asUsize_of_nonneg _ (by omega) (by omega)]; simp

private theorem intLen_lt {n : Nat} (h : IntLen n) : n < 2 ^ 63 := by
  rcases h with rfl | rfl | rfl | rfl <;> decide

/-! ## 1. The image written is the two's-complement image -/

/-- **int_image**: for every supported length, byte order, sign and every `i64` value,
`bytes_from_int` produces exactly the `n`-byte two's-complement image of `v mod 2^(8n)`
in the declared byte order. -/
theorem int_image (v : I64) (n : Nat) (hn : IntLen n) (e : Endianness) (s : Sign) :
    bytesFromInt v n e s = .ok (image n e v.toInt) := by
  have h8 : n ≤ 8 := by rcases hn with rfl | rfl | rfl | rfl <;> omega
  rw [image_eq_writeUnsigned n h8]
  rcases hn with rfl | rfl | rfl | rfl <;> simp only [bytesFromInt, BitVec.toNat_setWidth]
  · have := writeUnsigned_mod e 1 v.toNat; simp only [Nat.reducePow] at this ⊢; rw [this]
  · have := writeUnsigned_mod e 2 v.toNat; simp only [Nat.reducePow] at this ⊢; rw [this]
  · have := writeUnsigned_mod e 4 v.toNat; simp only [Nat.reducePow] at this ⊢; rw [this]
  · have := writeUnsigned_mod e 8 v.toNat; simp only [Nat.reducePow] at this ⊢; rw [this]

example : bytesFromInt (BitVec.ofInt 64 (-2)) 2 .be .signed = .ok [0xff, 0xfe] := by decide
example : image 4 .le 0x01020304 = [4, 3, 2, 1] := by decide

/-- **int_roundtrip**: a value of the natural range of `(n, sign)` is read back from its
image unchanged. -/
theorem int_roundtrip (v : I64) (n : Nat) (hn : IntLen n) (e : Endianness) (s : Sign)
    (hr : InRange n s v.toInt) : intFromSlice (image n e v.toInt) e s = .ok v := by
  have h8 : n ≤ 8 := by rcases hn with rfl | rfl | rfl | rfl <;> omega
  rw [intFromSlice_of_len n hn _ (image_length n e _), image_eq_writeUnsigned n h8,
    intOfBytes_roundtrip n hn e s v hr]

example : InRange 2 .signed (BitVec.ofInt 64 (-32768)).toInt := by decide
example : ¬ InRange 2 .signed (BitVec.ofInt 64 32768).toInt := by decide

/-- **int_roundtrip_len8**: for 8-byte registers every `i64` reads back as itself, for both
signs — the API type is `i64`, so the upper half of the unsigned 64-bit range is carried
as the same 64 bits (a negative `i64`). -/
theorem int_roundtrip_len8 (v : I64) (e : Endianness) (s : Sign) :
    intFromSlice (image 8 e v.toInt) e s = .ok v := by
  rw [intFromSlice_of_len 8 (by simp [IntLen]) _ (image_length 8 e _),
    image_eq_writeUnsigned 8 (Nat.le_refl 8)]
  congr 1
  simp only [intOfBytes, readUnsigned_writeUnsigned]
  have hv := v.isLt
  cases s <;> apply BitVec.eq_of_toNat_eq
  · rw [BitVec.signExtend_eq_setWidth_of_le _ (by omega)]
    simp only [BitVec.toNat_setWidth, BitVec.toNat_ofNat, Nat.reducePow, Nat.reduceMul]; omega
  · simp only [BitVec.toNat_setWidth, BitVec.toNat_ofNat, Nat.reducePow, Nat.reduceMul]; omega

/-- **int_read_any_image**: whatever bytes the device holds, decoding never fails or
panics for a supported length and yields the value the image denotes: two's complement
(sign extension) for signed, zero extension for unsigned registers (`reading`; the
8-byte unsigned case is reported through `i64`, see `asI64`). -/
theorem int_read_any_image (bs : Bytes) (hn : IntLen bs.length) (e : Endianness) (s : Sign) :
    ∃ x, intFromSlice bs e s = .ok x ∧ x.toInt = reading e s bs :=
  ⟨_, intFromSlice_of_len _ hn bs rfl e s, toInt_intOfBytes _ hn bs rfl e s⟩

example : reading .be .signed [0xff, 0x85] = -123 := by decide
example : reading .le .unsigned [0xff, 0x85] = 0x85ff := by decide

/-! ## 2. Unsupported lengths and wrong buffer lengths are refused without a write -/

/-- **bad_len_refused (codec)**: any other length is `InvalidBuffer`, for reads and writes. -/
theorem int_codec_bad_len (v : I64) (bs : Bytes) (n : Nat) (e : Endianness) (s : Sign) :
    (¬ IntLen n → bytesFromInt v n e s = .err .invalidBuffer) ∧
    (¬ IntLen bs.length → intFromSlice bs e s = .err .invalidBuffer) := by
  constructor
  · intro h; unfold bytesFromInt; split <;> simp_all [IntLen]
  · intro h; unfold intFromSlice; split <;> simp_all [IntLen]

theorem float_codec_bad_len {F : Type} [FloatOps F] (x : F) (bs : Bytes) (n : Nat) (e : Endianness) :
    (¬ FloatLen n → bytesFromFloat x n e = .err .invalidBuffer) ∧
    (¬ FloatLen bs.length → floatFromSlice (F := F) bs e = .err .invalidBuffer) := by
  constructor
  · intro h; unfold bytesFromFloat; split <;> simp_all [FloatLen]
  · intro h; unfold floatFromSlice; split <;> simp_all [FloatLen]

/-- **bad_len_refused (IntReg.set_value)**: with an unsupported length the write is refused
with `InvalidBuffer` before the device is touched at all — whatever the port and device. -/
theorem int_set_bad_len_refused (port : Port) (e : Endianness) (s : Sign) (address : Int) (n : Nat)
    (hn : ¬ IntLen n) (hlt : n < 2 ^ 63) (v : I64) (d : Dev) :
    IntReg.setValue port e s address n v d = (.err .invalidBuffer, d) := by
  simp only [IntReg.setValue, allocLen, asUsize_nat n hlt, if_pos hlt,
    (int_codec_bad_len v [] n e s).1 hn]

theorem float_set_bad_len_refused {F : Type} [FloatOps F] (port : Port) (e : Endianness)
    (address : Int) (n : Nat) (hn : ¬ FloatLen n) (hlt : n < 2 ^ 63) (x : F) (d : Dev) :
    FloatReg.setValue port e address n x d = (.err .invalidBuffer, d) := by
  simp only [FloatReg.setValue, allocLen, asUsize_nat n hlt, if_pos hlt,
    (float_codec_bad_len x [] n e).1 hn]

example : ¬ IntLen 3 ∧ ¬ IntLen 0 ∧ ¬ IntLen 16 ∧ ¬ FloatLen 2 := by decide

/-- **reads never write**: `value()` of an integer / float / string register and a raw
`read` leave the device memory and the number of write entries in the log unchanged —
for every length (supported or not), port, device and fault script.  (With an
unsupported length `IntReg::value` does read the bytes and *then* refuses; that read is
visible in the log, it is not a write.) -/
theorem reads_never_write {α : Type} (port : Port) (address length : Int) (d : Dev)
    (f : Bytes → R α) :
    (withRead port address length d f).2.mem = d.mem ∧
    writesIn (withRead port address length d f).2.log = writesIn d.log := by
  rcases withRead_cases port address length d f with ⟨h, _⟩ | ⟨h, _⟩ | ⟨h, _⟩ | ⟨h, _⟩ <;> rw [h]
  · exact ⟨rfl, rfl⟩
  · exact ⟨rfl, rfl⟩
  · exact ⟨rfl, rfl⟩
  · exact ⟨rfl, writesIn_append_read _ _ _ _⟩

/-- **bad_len_refused (IntReg.value)**: unsupported length ⇒ `InvalidBuffer` (plain port,
answering device), and by `reads_never_write` nothing was written. -/
theorem int_value_bad_len_refused (port : Port) (hp : port.hasChunkId = false) (e : Endianness)
    (s : Sign) (address : Int) (n : Nat) (hn : ¬ IntLen n) (hlt : n < 2 ^ 63) (d : Dev)
    (hd : d.refuse d.attempts = false) :
    (IntReg.value port e s address n d).1 = .err .invalidBuffer ∧
    (IntReg.value port e s address n d).2.mem = d.mem ∧
    writesIn (IntReg.value port e s address n d).2.log = writesIn d.log := by
  refine ⟨?_, reads_never_write port address n d _⟩
  unfold IntReg.value
  rcases withRead_cases port address n d (fun data => intFromSlice data e s) with
    ⟨_, h⟩ | ⟨_, h⟩ | ⟨_, h⟩ | ⟨h, _⟩
  · rw [asUsize_nat n hlt] at h; exact absurd hlt h
  · rw [hp] at h; cases h
  · rw [hd] at h; cases h
  · rw [h, asUsize_nat n hlt]
    exact (int_codec_bad_len 0 _ n e s).2 (by rw [readRange_length]; exact hn)

theorem float_value_bad_len_refused {F : Type} [FloatOps F] (port : Port)
    (hp : port.hasChunkId = false) (e : Endianness) (address : Int) (n : Nat) (hn : ¬ FloatLen n)
    (hlt : n < 2 ^ 63) (d : Dev) (hd : d.refuse d.attempts = false) :
    (FloatReg.value (F := F) port e address n d).1 = .err .invalidBuffer := by
  unfold FloatReg.value
  rcases withRead_cases port address n d (fun data => floatFromSlice (F := F) data e) with
    ⟨_, h⟩ | ⟨_, h⟩ | ⟨_, h⟩ | ⟨h, _⟩
  · rw [asUsize_nat n hlt] at h; exact absurd hlt h
  · rw [hp] at h; cases h
  · rw [hd] at h; cases h
  · rw [h, asUsize_nat n hlt]
    have := (float_codec_bad_len (F := F) (FloatOps.ofBits 0) (d.mem.readRange address n) n e).2
    exact this (by rw [readRange_length]; exact hn)

/-- **bad_len_refused (raw)**: `IRegister::read/write` with `buf.len() ≠ length` is
`InvalidBuffer` and the device is not touched (log and memory identical) — any length
(also negative `i64`), port, device. -/
theorem raw_bad_buffer_refused (port : Port) (address length : Int) (d : Dev) :
    (∀ bufLen, bufLen ≠ asUsize length →
      Register.read port address length bufLen d = (.err .invalidBuffer, d)) ∧
    (∀ buf : Bytes, buf.length ≠ asUsize length →
      Register.write port address length buf d = (.err .invalidBuffer, d)) := by
  constructor
  · intro n h; simp [Register.read, readAndCache, h]
  · intro b h; simp [Register.write, writeAndCache, h]

/-! ## 3. Footprint: exactly one access of exactly `[address, address+length)` -/

/-- **frame**: a device write of `data` at `address` changes no byte outside
`[address, address + |data|)`, and inside it stores exactly `data`. -/
theorem frame (m : Mem) (address : Int) (data : Bytes) :
    (∀ x, x < address ∨ address + (data.length : Int) ≤ x → (m.writeRange address data) x = m x) ∧
    (m.writeRange address data).readRange address data.length = data :=
  ⟨fun x h => writeRange_outside m address data x h, readRange_writeRange m address data⟩

/-- **footprint (raw read)**: a successful `read` performs exactly one device access: a read
of `[address, address+length)`, returns those bytes, and changes no memory. -/
theorem raw_read_footprint (port : Port) (address length : Int) (bufLen : Nat) (d d' : Dev)
    (bs : Bytes) (h : Register.read port address length bufLen d = (.ok bs, d')) :
    bufLen = asUsize length ∧ bs = d.mem.readRange address bufLen ∧
    OneAccess d d' ⟨.read, address, bufLen, bs⟩ d.mem := by
  unfold Register.read at h
  rcases readAndCache_cases port address length bufLen d with
    ⟨_, he⟩ | ⟨_, _, he⟩ | ⟨_, _, _, he⟩ | ⟨hl, _, _, he⟩ <;> rw [he] at h
  · cases h
  · cases h
  · cases h
  · injection h with h1 h2
    injection h1 with h1
    subst h1; subst h2
    exact ⟨hl, rfl, rfl, rfl, rfl, rfl⟩

/-- **footprint (raw write)**: a successful `write` performs exactly one device access: a
write of `buf` at `address` with `|buf| = length`; every other outcome leaves memory
and log untouched. -/
theorem raw_write_footprint (port : Port) (address length : Int) (buf : Bytes) (d d' : Dev)
    (r : R Unit) (h : Register.write port address length buf d = (r, d')) :
    (r = .ok () ∧ buf.length = asUsize length ∧
      OneAccess d d' ⟨.write, address, buf.length, buf⟩ (d.mem.writeRange address buf)) ∨
    (r ≠ .ok () ∧ Untouched d d') := by
  unfold Register.write at h
  rcases writeAndCache_cases port address length buf d with
    ⟨_, he⟩ | ⟨_, _, he⟩ | ⟨_, _, _, he⟩ | ⟨hl, _, _, he⟩ <;> rw [he] at h <;>
    injection h with h1 h2 <;> subst h1 <;> subst h2
  · right; exact ⟨by simp, rfl, rfl⟩
  · right; exact ⟨by simp, rfl, rfl⟩
  · right; exact ⟨by simp, rfl, rfl⟩
  · left; exact ⟨rfl, hl, rfl, rfl, rfl, rfl⟩

/-- **raw_roundtrip**: on a plain port and an answering device, writing a buffer of exactly
the register length through `IRegister::write` and reading the register back through
`IRegister::read` returns that buffer; the two calls perform exactly one device write and
one device read of `[address, address+length)` and no byte outside that range changes. -/
theorem raw_roundtrip (port : Port) (hp : port.hasChunkId = false) (address length : Int)
    (buf : Bytes) (hlen : buf.length = asUsize length) (d : Dev) (hd : d.Reliable) :
    ∃ d1 d2, Register.write port address length buf d = (.ok (), d1) ∧
      Register.read port address length buf.length d1 = (.ok buf, d2) ∧
      d2.log = d.log ++ [⟨.write, address, buf.length, buf⟩, ⟨.read, address, buf.length, buf⟩] ∧
      d2.mem = d.mem.writeRange address buf ∧
      (∀ x, x < address ∨ address + (buf.length : Int) ≤ x → d2.mem x = d.mem x) := by
  have hmem : (afterWrite d address buf).mem.readRange address buf.length = buf :=
    readRange_writeRange d.mem address buf
  refine ⟨afterWrite d address buf, afterRead (afterWrite d address buf) address buf.length,
    ?_, ?_, ?_, rfl, ?_⟩
  · unfold Register.write
    rcases writeAndCache_cases port address length buf d with
      ⟨h, _⟩ | ⟨_, h, _⟩ | ⟨_, _, h, _⟩ | ⟨_, _, _, h⟩
    · exact absurd hlen h
    · rw [hp] at h; cases h
    · rw [hd] at h; cases h
    · exact h
  · unfold Register.read
    rcases readAndCache_cases port address length buf.length (afterWrite d address buf) with
      ⟨h, _⟩ | ⟨_, h, _⟩ | ⟨_, _, h, _⟩ | ⟨_, _, _, h⟩
    · exact absurd hlen h
    · rw [hp] at h; cases h
    · have := hd (afterWrite d address buf).attempts
      simp only [afterWrite] at h this; rw [this] at h; cases h
    · rw [h, hmem]
  · simp only [afterRead, hmem]
    simp [afterWrite]
  · intro x hx
    exact writeRange_outside d.mem address buf x hx

example : ([1, 2, 3] : Bytes).length = asUsize 3 := by decide

/-- **footprint (IntReg.value)**: a successful `value()` is exactly one device read of
`[address, address+n)`, the result is the value those bytes denote, memory is unchanged. -/
theorem int_value_footprint (port : Port) (e : Endianness) (s : Sign) (address : Int) (n : Nat)
    (hlt : n < 2 ^ 63) (d d' : Dev) (x : I64)
    (h : IntReg.value port e s address n d = (.ok x, d')) :
    IntLen n ∧ x.toInt = reading e s (d.mem.readRange address n) ∧
    OneAccess d d' ⟨.read, address, n, d.mem.readRange address n⟩ d.mem := by
  unfold IntReg.value at h
  rcases withRead_cases port address n d (fun data => intFromSlice data e s) with
    ⟨he, _⟩ | ⟨he, _⟩ | ⟨he, _⟩ | ⟨he, _⟩ <;> rw [he] at h
  · cases h
  · cases h
  · cases h
  · rw [asUsize_nat n hlt] at h
    injection h with h1 h2
    subst h2
    have hn : IntLen n := by
      apply Classical.byContradiction
      intro hn
      rw [(int_codec_bad_len 0 _ n e s).2 (by rw [readRange_length]; exact hn)] at h1
      cases h1
    have hl : (d.mem.readRange address n).length = n := readRange_length _ _ _
    rw [intFromSlice_of_len n hn _ hl] at h1
    injection h1 with h1
    subst h1
    exact ⟨hn, toInt_intOfBytes n hn _ hl e s, rfl, rfl, rfl, rfl⟩

/-- **footprint (IntReg.set_value)**: whatever the outcome, either the call succeeded with
exactly one device write of the two's-complement image at `[address, address+n)`, or it
failed and neither memory nor log changed (no partial / stray write). -/
theorem int_set_footprint (port : Port) (e : Endianness) (s : Sign) (address : Int) (n : Nat)
    (hlt : n < 2 ^ 63) (v : I64) (d d' : Dev) (r : R Unit)
    (h : IntReg.setValue port e s address n v d = (r, d')) :
    (r = .ok () ∧ IntLen n ∧
      OneAccess d d' ⟨.write, address, n, image n e v.toInt⟩
        (d.mem.writeRange address (image n e v.toInt))) ∨
    (r ≠ .ok () ∧ Untouched d d') := by
  by_cases hn : IntLen n
  · simp only [IntReg.setValue, allocLen, asUsize_nat n hlt, if_pos hlt, int_image v n hn e s] at h
    have hlen := image_length n e v.toInt
    rcases raw_write_footprint port address n (image n e v.toInt) d d' r h with
      ⟨h1, _, h3⟩ | h2
    · left; rw [hlen] at h3; exact ⟨h1, hn, h3⟩
    · right; exact h2
  · rw [int_set_bad_len_refused port e s address n hn hlt v d] at h
    injection h with h1 h2; subst h1; subst h2
    right; exact ⟨by simp, rfl, rfl⟩

/-- **int_reg_roundtrip** (headline): on a plain port and an answering device, writing an
in-range value to an integer register of supported length succeeds with one write of its
image, and reading the feature back returns that value with one read — no other access,
no byte outside `[address, address+n)` changed. -/
theorem int_reg_roundtrip (port : Port) (hp : port.hasChunkId = false) (e : Endianness) (s : Sign)
    (address : Int) (n : Nat) (hn : IntLen n) (v : I64) (hr : InRange n s v.toInt ∨ n = 8)
    (d : Dev) (hd : d.Reliable) :
    ∃ d1 d2, IntReg.setValue port e s address n v d = (.ok (), d1) ∧
      IntReg.value port e s address n d1 = (.ok v, d2) ∧
      d2.log = d.log ++ [⟨.write, address, n, image n e v.toInt⟩, ⟨.read, address, n, image n e v.toInt⟩] ∧
      (∀ x, x < address ∨ address + (n : Int) ≤ x → d2.mem x = d.mem x) := by
  have hlt := intLen_lt hn
  have himg := int_image v n hn e s
  have hlen := image_length n e v.toInt
  have hback : intFromSlice (image n e v.toInt) e s = .ok v := by
    rcases hr with hr | rfl
    · exact int_roundtrip v n hn e s hr
    · exact int_roundtrip_len8 v e s
  refine ⟨afterWrite d address (image n e v.toInt),
    afterRead (afterWrite d address (image n e v.toInt)) address n, ?_, ?_, ?_, ?_⟩
  · simp only [IntReg.setValue, allocLen, asUsize_nat n hlt, if_pos hlt, himg]
    rcases writeAndCache_cases port address n (image n e v.toInt) d with
      ⟨h, _⟩ | ⟨_, h, _⟩ | ⟨_, _, h, _⟩ | ⟨_, _, _, h⟩
    · rw [hlen, asUsize_nat n hlt] at h; exact absurd rfl h
    · rw [hp] at h; cases h
    · rw [hd] at h; cases h
    · exact h
  · unfold IntReg.value
    rcases withRead_cases port address n (afterWrite d address (image n e v.toInt))
      (fun data => intFromSlice data e s) with ⟨_, h⟩ | ⟨_, h⟩ | ⟨_, h⟩ | ⟨h, _⟩
    · rw [asUsize_nat n hlt] at h; exact absurd hlt h
    · rw [hp] at h; cases h
    · have := hd (afterWrite d address (image n e v.toInt)).attempts
      simp only [afterWrite] at h this; rw [this] at h; cases h
    · rw [h, asUsize_nat n hlt]
      have : (afterWrite d address (image n e v.toInt)).mem.readRange address n = image n e v.toInt := by
        have := readRange_writeRange d.mem address (image n e v.toInt)
        rw [hlen] at this; exact this
      rw [this, hback]
  · have : (afterWrite d address (image n e v.toInt)).mem.readRange address n = image n e v.toInt := by
      have := readRange_writeRange d.mem address (image n e v.toInt)
      rw [hlen] at this; exact this
    simp only [afterRead, this]
    simp [afterWrite, hlen]
  · intro x hx
    simp only [afterRead, afterWrite]
    exact writeRange_outside d.mem address _ x (by rw [hlen]; exact hx)

example : (⟨fun _ => 0, [], fun _ => false, 0⟩ : Dev).Reliable := fun _ => rfl

/-! ## 4. Strings -/

private theorem isAscii_of_rep {n : Nat} {s : Bytes} (h : Representable n s) : isAscii s = true := by
  simp only [isAscii, List.all_eq_true, decide_eq_true_eq]
  exact fun b hb => (h.1 b hb).1

private theorem containsNul_of_rep {n : Nat} {s : Bytes} (h : Representable n s) :
    containsNul s = false := by
  simp only [containsNul, List.any_eq_false, beq_iff_eq]
  exact fun b hb => (h.1 b hb).2

private theorem cstrPrefix_strImage (s : Bytes) (k : Nat) (h : ∀ b ∈ s, b ≠ 0) :
    cstrPrefix (s ++ List.replicate k 0) = s := by
  unfold cstrPrefix
  induction s with
  | nil => cases k <;> simp [List.replicate]
  | cons b bs ih =>
    have hb : b ≠ 0 := h b (by simp)
    simp only [List.cons_append, List.takeWhile_cons, hb, ne_eq, not_false_eq_true, decide_true,
      if_true, List.cons.injEq, true_and]
    exact ih (fun x hx => h x (by simp [hx]))

/-- **str_refused**: a string that is not ASCII, contains NUL, or is longer than the
register is refused with `InvalidData` and the device is not touched — any port, device. -/
theorem str_refused (port : Port) (address : Int) (n : Nat) (hlt : n < 2 ^ 63) (value : Bytes)
    (d : Dev) (h : ¬ Representable n value) :
    StringReg.setValue port address n value d = (.err .invalidData, d) := by
  unfold StringReg.setValue
  by_cases h1 : isAscii value = true
  · by_cases h2 : containsNul value = true
    · simp [h1, h2]
    · by_cases h3 : value.length > n
      · simp [h1, h2, asUsize_nat n hlt, h3]
      · exfalso; apply h
        refine ⟨fun b hb => ⟨?_, ?_⟩, by omega⟩
        · simp only [isAscii, List.all_eq_true, decide_eq_true_eq] at h1; exact h1 b hb
        · intro hb0
          apply h2
          simp only [containsNul, List.any_eq_true, beq_iff_eq]
          exact ⟨b, hb, hb0⟩
  · simp [h1]

example : ¬ Representable 4 [0x61, 0, 0x62] := by
  intro h; exact (h.1 0 (by simp)).2 rfl
example : ¬ Representable 4 [0xc3, 0xa9] := by
  intro h; have := (h.1 0xc3 (by simp)).1; revert this; decide
example : Representable 4 [0x61, 0x62] := by
  refine ⟨fun b hb => ?_, by decide⟩
  simp only [List.mem_cons, List.not_mem_nil, or_false] at hb
  rcases hb with rfl | rfl <;> decide

/-- **str_image / str_roundtrip**: a representable string is written by exactly one device
write of its NUL-padded image at `[address, address+n)` and reads back as itself with one
read; no byte outside the register changes. -/
theorem str_roundtrip (port : Port) (hp : port.hasChunkId = false) (address : Int) (n : Nat)
    (hlt : n < 2 ^ 63) (value : Bytes) (hrep : Representable n value) (d : Dev) (hd : d.Reliable) :
    ∃ d1 d2, StringReg.setValue port address n value d = (.ok (), d1) ∧
      OneAccess d d1 ⟨.write, address, n, strImage n value⟩ (d.mem.writeRange address (strImage n value)) ∧
      StringReg.value port address n d1 = (.ok value, d2) ∧
      OneAccess d1 d2 ⟨.read, address, n, strImage n value⟩ d1.mem ∧
      (∀ x, x < address ∨ address + (n : Int) ≤ x → d2.mem x = d.mem x) := by
  have hlen : (strImage n value).length = n := by
    have := hrep.2; simp [strImage]; omega
  have hmem : (afterWrite d address (strImage n value)).mem.readRange address n = strImage n value := by
    have := readRange_writeRange d.mem address (strImage n value)
    rw [hlen] at this; exact this
  refine ⟨afterWrite d address (strImage n value),
    afterRead (afterWrite d address (strImage n value)) address n, ?_, ?_, ?_, ?_, ?_⟩
  · unfold StringReg.setValue
    simp only [isAscii_of_rep hrep, containsNul_of_rep hrep, asUsize_nat n hlt, allocLen, if_pos hlt]
    have hle : ¬ value.length > n := by have := hrep.2; omega
    simp only [not_true_eq_false, if_false, Bool.false_eq_true, hle]
    change writeAndCache port address n (strImage n value) d = _
    rcases writeAndCache_cases port address n (strImage n value) d with
      ⟨h, _⟩ | ⟨_, h, _⟩ | ⟨_, _, h, _⟩ | ⟨_, _, _, h⟩
    · rw [hlen, asUsize_nat n hlt] at h; exact absurd rfl h
    · rw [hp] at h; cases h
    · rw [hd] at h; cases h
    · exact h
  · refine ⟨?_, rfl, rfl, rfl⟩
    simp [afterWrite, hlen]
  · unfold StringReg.value
    rcases withRead_cases port address n (afterWrite d address (strImage n value))
      (fun data => (.ok (cstrPrefix data) : R Bytes)) with ⟨_, h⟩ | ⟨_, h⟩ | ⟨_, h⟩ | ⟨h, _⟩
    · rw [asUsize_nat n hlt] at h; exact absurd hlt h
    · rw [hp] at h; cases h
    · have := hd (afterWrite d address (strImage n value)).attempts
      simp only [afterWrite] at h this; rw [this] at h; cases h
    · rw [h, asUsize_nat n hlt, hmem]
      simp only [strImage, cstrPrefix_strImage value _ (fun b hb => (hrep.1 b hb).2)]
  · refine ⟨?_, rfl, rfl, rfl⟩
    simp only [afterRead, hmem]
  · intro x hx
    simp only [afterRead, afterWrite]
    exact writeRange_outside d.mem address _ x (by rw [hlen]; exact hx)

/-- **str_read_any_image**: whatever the device holds, `value()` returns the C string of
the register bytes: the NUL-free prefix ended by the first NUL (or the register end). -/
theorem str_read_any_image (data : Bytes) : IsCStrOf (cstrPrefix data) data := by
  unfold cstrPrefix IsCStrOf
  induction data with
  | nil => exact ⟨by simp, [], by simp⟩
  | cons b bs ih =>
    by_cases hb : b = 0
    · subst hb
      refine ⟨by simp, (0 : UInt8) :: bs, by simp, Or.inr rfl⟩
    · obtain ⟨h1, rest, h2, h3⟩ := ih
      refine ⟨?_, rest, ?_, h3⟩
      · intro x hx
        simp only [List.takeWhile_cons, hb, ne_eq, not_false_eq_true, decide_true, if_true,
          List.mem_cons] at hx
        rcases hx with rfl | hx
        · exact hb
        · exact h1 x hx
      · simp only [List.takeWhile_cons, hb, ne_eq, not_false_eq_true, decide_true, if_true,
          List.cons_append, List.cons.injEq, true_and]
        exact h2

/-! ## 5. Floats (for every `FloatOps` instance) -/

private theorem image_nat_eq (n : Nat) (e : Endianness) (x : Nat) :
    writeUnsigned e n x = (match e with
      | .le => (List.range n).map (fun i => UInt8.ofNat (x / 256 ^ i % 256))
      | .be => ((List.range n).map (fun i => UInt8.ofNat (x / 256 ^ i % 256))).reverse) := by
  cases e <;> simp [writeUnsigned, toBE, toLE_eq_map]

/-- **float_layout**: an 8-byte float register holds the LE/BE split of the IEEE-754
binary64 bit pattern `toBits x`; a 4-byte register holds the split of the binary32 pattern
of the narrowed value `(x as f32).to_bits()`.  Byte `i` (LE numbering) is
`bits / 256^i mod 256`. -/
theorem float_layout {F : Type} [FloatOps F] (x : F) (e : Endianness) :
    bytesFromFloat x 8 e = .ok (image 8 e ((FloatOps.toBits x).toNat : Int)) ∧
    bytesFromFloat x 4 e = .ok (image 4 e ((FloatOps.narrowBits32 x).toNat : Int)) := by
  have key : ∀ (n : Nat) (y : Nat), image n e (y : Int) = writeUnsigned e n y := by
    intro n y
    rw [image_nat_eq]
    have hb : ∀ i, byteOf (y : Int) i = UInt8.ofNat (y / 256 ^ i % 256) := by
      intro i
      unfold byteOf
      have : ((y : Int) / 256 ^ i % 256) = ((y / 256 ^ i % 256 : Nat) : Int) := by
        simp [Int.natCast_ediv, Int.natCast_emod]
      rw [this, Int.toNat_natCast]
    cases e <;> simp only [image] <;> congr 1 <;> try congr 1
    all_goals exact List.map_congr_left (fun i _ => hb i)
  exact ⟨by simp [bytesFromFloat, key], by simp [bytesFromFloat, key]⟩

/-- **float_read_layout**: decoding takes the bit pattern denoted by the bytes (unsigned
reading in the declared byte order) and reinterprets (8) / widens from binary32 (4). -/
theorem float_read_layout {F : Type} [FloatOps F] (bs : Bytes) (e : Endianness) :
    (bs.length = 8 → floatFromSlice (F := F) bs e = .ok (FloatOps.ofBits (BitVec.ofNat 64 (readU e bs)))) ∧
    (bs.length = 4 → floatFromSlice (F := F) bs e = .ok (FloatOps.widenBits32 (BitVec.ofNat 32 (readU e bs)))) := by
  constructor <;> intro h <;> simp [floatFromSlice, h, readU_eq]

/-- **float_roundtrip8**: under the law `ofBits (toBits x) = x` (bit-pattern
reinterpretation is lossless) every value — NaN payloads, infinities, subnormals, ±0 —
round-trips through an 8-byte register image. -/
theorem float_roundtrip8 {F : Type} [FloatOps F] (x : F) (e : Endianness)
    (law : FloatOps.ofBits (FloatOps.toBits x) = x) :
    ∃ img, bytesFromFloat x 8 e = .ok img ∧ img.length = 8 ∧ floatFromSlice (F := F) img e = .ok x := by
  refine ⟨writeUnsigned e 8 (FloatOps.toBits x).toNat, rfl, writeUnsigned_length e 8 _, ?_⟩
  simp only [floatFromSlice, writeUnsigned_length, readUnsigned_writeUnsigned]
  have h : (FloatOps.toBits x).toNat % 256 ^ 8 = (FloatOps.toBits x).toNat :=
    Nat.mod_eq_of_lt (by have := (FloatOps.toBits x).isLt; simpa using this)
  rw [h, BitVec.ofNat_toNat, BitVec.setWidth_eq, law]

/-- **float_roundtrip4**: a 4-byte register round-trips exactly the values for which
widening the narrowed pattern gives the value back (the binary32-representable ones —
that this set is what IEEE-754 says is outside the kernel's reach, see `partial`). -/
theorem float_roundtrip4 {F : Type} [FloatOps F] (x : F) (e : Endianness)
    (law : FloatOps.widenBits32 (FloatOps.narrowBits32 x) = x) :
    ∃ img, bytesFromFloat x 4 e = .ok img ∧ img.length = 4 ∧ floatFromSlice (F := F) img e = .ok x := by
  refine ⟨writeUnsigned e 4 (FloatOps.narrowBits32 x).toNat, rfl, writeUnsigned_length e 4 _, ?_⟩
  simp only [floatFromSlice, writeUnsigned_length, readUnsigned_writeUnsigned]
  have h : (FloatOps.narrowBits32 x).toNat % 256 ^ 4 = (FloatOps.narrowBits32 x).toNat :=
    Nat.mod_eq_of_lt (by have := (FloatOps.narrowBits32 x).isLt; simpa using this)
  rw [h, BitVec.ofNat_toNat, BitVec.setWidth_eq, law]

/-- a `FloatOps` instance satisfying both laws exists (bit patterns themselves), so the
round-trip theorems are not vacuous -/
example : ∃ (F : Type) (_ : FloatOps F), ∀ x : F,
    FloatOps.ofBits (FloatOps.toBits x) = x ∧ (∃ y : F, FloatOps.widenBits32 (FloatOps.narrowBits32 y) = y) :=
  ⟨BitVec 64, ⟨id, id, fun x => x.setWidth 32, fun b => b.setWidth 64⟩, fun x => ⟨rfl, 0#64, by decide⟩⟩

/-- **footprint (FloatReg.set_value)**: success = exactly one write of the encoded image at
`[address, address+n)`; any failure leaves memory and log untouched. -/
theorem float_set_footprint {F : Type} [FloatOps F] (port : Port) (e : Endianness) (address : Int)
    (n : Nat) (hlt : n < 2 ^ 63) (x : F) (d d' : Dev) (r : R Unit)
    (h : FloatReg.setValue port e address n x d = (r, d')) :
    (r = .ok () ∧ ∃ img, bytesFromFloat x n e = .ok img ∧ img.length = n ∧
      OneAccess d d' ⟨.write, address, n, img⟩ (d.mem.writeRange address img)) ∨
    (r ≠ .ok () ∧ Untouched d d') := by
  by_cases hn : FloatLen n
  · have himg : ∃ img, bytesFromFloat x n e = .ok img ∧ img.length = n := by
      rcases hn with rfl | rfl
      · exact ⟨_, rfl, writeUnsigned_length e 4 _⟩
      · exact ⟨_, rfl, writeUnsigned_length e 8 _⟩
    obtain ⟨img, hi, hlen⟩ := himg
    simp only [FloatReg.setValue, allocLen, asUsize_nat n hlt, if_pos hlt, hi] at h
    rcases raw_write_footprint port address n img d d' r h with ⟨h1, _, h3⟩ | h2
    · left; rw [hlen] at h3; exact ⟨h1, img, hi, hlen, h3⟩
    · right; exact h2
  · rw [float_set_bad_len_refused port e address n hn hlt x d] at h
    injection h with h1 h2; subst h1; subst h2
    right; exact ⟨by simp, rfl, rfl⟩

/-! ## 6. Footprint of every `value()` and of the string / float node round trips -/

/-- **footprint (every `value()`)**: `IntReg`, `FloatReg`, `StringReg` (and `MaskedIntReg`)
`value()` are all `with_cache_or_read` with a decoder `f`.  Whenever such a call succeeds it
performed exactly one device access — a read of `[address, address+length)` — the result
is the decoder applied to exactly those bytes, and memory is unchanged. -/
theorem value_footprint {α : Type} (port : Port) (address length : Int) (d d' : Dev)
    (f : Bytes → R α) (a : α) (h : withRead port address length d f = (.ok a, d')) :
    f (d.mem.readRange address (asUsize length)) = .ok a ∧
    OneAccess d d' ⟨.read, address, asUsize length, d.mem.readRange address (asUsize length)⟩ d.mem := by
  rcases withRead_cases port address length d f with ⟨he, _⟩ | ⟨he, _⟩ | ⟨he, _⟩ | ⟨he, _⟩ <;>
    rw [he] at h
  · cases h
  · cases h
  · cases h
  · injection h with h1 h2
    subst h2
    exact ⟨h1, rfl, rfl, rfl, rfl⟩

/-- **footprint (StringReg.set_value)**: whatever the outcome, either success with exactly
one write of the NUL-padded image at `[address, address+n)`, or memory and log untouched. -/
theorem str_set_footprint (port : Port) (address : Int) (n : Nat) (hlt : n < 2 ^ 63) (value : Bytes)
    (d d' : Dev) (r : R Unit) (h : StringReg.setValue port address n value d = (r, d')) :
    (r = .ok () ∧ Representable n value ∧
      OneAccess d d' ⟨.write, address, n, strImage n value⟩ (d.mem.writeRange address (strImage n value))) ∨
    (r ≠ .ok () ∧ Untouched d d') := by
  by_cases hrep : Representable n value
  · have hlen : (strImage n value).length = n := by
      have := hrep.2; simp [strImage]; omega
    have hle : ¬ value.length > n := by have := hrep.2; omega
    unfold StringReg.setValue at h
    simp only [isAscii_of_rep hrep, containsNul_of_rep hrep, asUsize_nat n hlt, allocLen, if_pos hlt,
      not_true_eq_false, if_false, Bool.false_eq_true, hle] at h
    change writeAndCache port address n (strImage n value) d = _ at h
    rcases raw_write_footprint port address n (strImage n value) d d' r h with ⟨h1, _, h3⟩ | h2
    · left; rw [hlen] at h3; exact ⟨h1, hrep, h3⟩
    · right; exact h2
  · rw [str_refused port address n hlt value d hrep] at h
    injection h with h1 h2; subst h1; subst h2
    right; exact ⟨by simp, rfl, rfl⟩

/-- **float_reg_roundtrip**: on a plain port and an answering device, writing a float to an
8-byte (resp. 4-byte) register and reading it back returns the value whenever the bit
pattern reinterpretation (resp. narrowing then widening) is lossless for it; one write and
one read of `[address, address+n)`, nothing else touched. -/
theorem float_reg_roundtrip {F : Type} [FloatOps F] (port : Port) (hp : port.hasChunkId = false)
    (e : Endianness) (address : Int) (n : Nat) (x : F)
    (hn : (n = 8 ∧ FloatOps.ofBits (FloatOps.toBits x) = x) ∨
          (n = 4 ∧ FloatOps.widenBits32 (FloatOps.narrowBits32 x) = x))
    (d : Dev) (hd : d.Reliable) :
    ∃ img d1 d2, bytesFromFloat x n e = .ok img ∧ img.length = n ∧
      FloatReg.setValue port e address n x d = (.ok (), d1) ∧
      FloatReg.value port e address n d1 = (.ok x, d2) ∧
      d2.log = d.log ++ [⟨.write, address, n, img⟩, ⟨.read, address, n, img⟩] ∧
      (∀ y, y < address ∨ address + (n : Int) ≤ y → d2.mem y = d.mem y) := by
  have hlt : n < 2 ^ 63 := by rcases hn with ⟨rfl, _⟩ | ⟨rfl, _⟩ <;> decide
  obtain ⟨img, himg, hlen, hback⟩ : ∃ img, bytesFromFloat x n e = .ok img ∧ img.length = n ∧
      floatFromSlice (F := F) img e = .ok x := by
    rcases hn with ⟨rfl, law⟩ | ⟨rfl, law⟩
    · exact float_roundtrip8 x e law
    · exact float_roundtrip4 x e law
  have hmem : (afterWrite d address img).mem.readRange address n = img := by
    have := readRange_writeRange d.mem address img
    rw [hlen] at this; exact this
  refine ⟨img, afterWrite d address img, afterRead (afterWrite d address img) address n,
    himg, hlen, ?_, ?_, ?_, ?_⟩
  · simp only [FloatReg.setValue, allocLen, asUsize_nat n hlt, if_pos hlt, himg]
    rcases writeAndCache_cases port address n img d with
      ⟨h, _⟩ | ⟨_, h, _⟩ | ⟨_, _, h, _⟩ | ⟨_, _, _, h⟩
    · rw [hlen, asUsize_nat n hlt] at h; exact absurd rfl h
    · rw [hp] at h; cases h
    · rw [hd] at h; cases h
    · exact h
  · unfold FloatReg.value
    rcases withRead_cases port address n (afterWrite d address img)
      (fun data => floatFromSlice (F := F) data e) with ⟨_, h⟩ | ⟨_, h⟩ | ⟨_, h⟩ | ⟨h, _⟩
    · rw [asUsize_nat n hlt] at h; exact absurd hlt h
    · rw [hp] at h; cases h
    · have := hd (afterWrite d address img).attempts
      simp only [afterWrite] at h this; rw [this] at h; cases h
    · rw [h, asUsize_nat n hlt, hmem, hback]
  · simp only [afterRead, hmem]
    simp [afterWrite, hlen]
  · intro y hy
    simp only [afterRead, afterWrite]
    exact writeRange_outside d.mem address _ y (by rw [hlen]; exact hy)

/-- **failed_read_serves_nothing_stale**: when the device fails one read (fault script) and
answers the next one, `value()` (every kind: `with_cache_or_read` with decoder `f`) first
returns the device error having touched neither memory nor log, and the re-read is exactly
one device read of `[address, address+length)` whose result is the decoder applied to the
bytes the device holds — nothing from the failed attempt is served.  (Caching off; with the
default cache the same is checked on the implementation by the harness' cached pass.) -/
theorem failed_read_serves_nothing_stale {α : Type} (port : Port) (hp : port.hasChunkId = false)
    (address length : Int) (hlen : asUsize length < 2 ^ 63) (d : Dev) (f : Bytes → R α)
    (h1 : d.refuse d.attempts = true) (h2 : d.refuse (d.attempts + 1) = false) :
    ∃ d1 d2, withRead port address length d f = (.err .device, d1) ∧ Untouched d d1 ∧
      withRead port address length d1 f = (f (d.mem.readRange address (asUsize length)), d2) ∧
      OneAccess d1 d2 ⟨.read, address, asUsize length, d.mem.readRange address (asUsize length)⟩ d.mem := by
  refine ⟨afterRefusal d, afterRead (afterRefusal d) address (asUsize length), ?_, ⟨rfl, rfl⟩, ?_,
    ⟨rfl, rfl, rfl, rfl⟩⟩
  · rcases withRead_cases port address length d f with ⟨_, h⟩ | ⟨_, h⟩ | ⟨h, _⟩ | ⟨_, _, _, h⟩
    · exact absurd hlen h
    · rw [hp] at h; cases h
    · exact h
    · rw [h1] at h; cases h
  · rcases withRead_cases port address length (afterRefusal d) f with ⟨_, h⟩ | ⟨_, h⟩ | ⟨_, h⟩ | ⟨h, _⟩
    · exact absurd hlen h
    · rw [hp] at h; cases h
    · simp only [afterRefusal] at h; rw [h2] at h; cases h
    · exact h

example : ∃ d : Dev, d.refuse d.attempts = true ∧ d.refuse (d.attempts + 1) = false :=
  ⟨⟨fun _ => 0, [], fun n => n == 0, 0⟩, rfl, rfl⟩

/-- **failed_write_serves_nothing_stale** (twin of `failed_read_serves_nothing_stale`): when the
device refuses one write (fault script) and answers the next access, the guarded write —
`set_value` of every kind ends in it, as does a raw `IRegister::write` — returns the device
error having changed neither memory nor log, and the following `value()` is exactly one
device read of `[address, address+length)` decoding the bytes the device (still) holds:
nothing of the failed write is served.  (Caching off, atomic refusal; with the default cache
and writes that are applied but reported failed / partially applied the same is checked on
the implementation by the harness' cached passes.) -/
theorem failed_write_serves_nothing_stale {α : Type} (port : Port) (hp : port.hasChunkId = false)
    (address length : Int) (hl : asUsize length < 2 ^ 63) (buf : Bytes)
    (hlen : buf.length = asUsize length) (d : Dev) (f : Bytes → R α)
    (h1 : d.refuse d.attempts = true) (h2 : d.refuse (d.attempts + 1) = false) :
    ∃ d1 d2, writeAndCache port address length buf d = (.err .device, d1) ∧ Untouched d d1 ∧
      withRead port address length d1 f = (f (d.mem.readRange address (asUsize length)), d2) ∧
      OneAccess d1 d2 ⟨.read, address, asUsize length, d.mem.readRange address (asUsize length)⟩ d.mem := by
  refine ⟨afterRefusal d, afterRead (afterRefusal d) address (asUsize length), ?_, ⟨rfl, rfl⟩, ?_,
    ⟨rfl, rfl, rfl, rfl⟩⟩
  · rcases writeAndCache_cases port address length buf d with
      ⟨h, _⟩ | ⟨_, h, _⟩ | ⟨_, _, _, h⟩ | ⟨_, _, h, _⟩
    · exact absurd hlen h
    · rw [hp] at h; cases h
    · exact h
    · rw [h1] at h; cases h
  · rcases withRead_cases port address length (afterRefusal d) f with ⟨_, h⟩ | ⟨_, h⟩ | ⟨_, h⟩ | ⟨h, _⟩
    · exact absurd hl h
    · rw [hp] at h; cases h
    · simp only [afterRefusal] at h; rw [h2] at h; cases h
    · exact h

/-! ## 7. Caching ON: composition with C04's cache model

C04's model (`CamVerif.Model.Cache`, theorems in `Props/C04.lean`) is an interpreter of the
register layer generic in the cache store, with its own `Int`-valued integer codecs.  The two
bridging theorems tie those codecs to the independent `Spec.Codec` used above; the two
composition theorems then hold for the build with the DEFAULT cache store. -/

/-- **bridge (encode)**: C04's `bytes_from_int` is the two's-complement image. -/
theorem cache_bytesFromInt_is_image (v : Int) (hv : -(2 ^ 63 : Int) ≤ v ∧ v < 2 ^ 63) (n : Nat)
    (hn : IntLen n) (e : Cache.Endian) (s : Cache.Sign) :
    Cache.bytesFromInt v n e s = .ok (image n (Proofs.C01Cached.eTo e) v) :=
  Proofs.C01Cached.cache_bytesFromInt_is_image v hv n hn e s

/-- **bridge (decode)**: C04's `int_from_slice` is the reading of the image. -/
theorem cache_intFromSlice_is_reading (bs : Bytes) (hn : IntLen bs.length) (e : Cache.Endian)
    (s : Cache.Sign) :
    Cache.intFromSlice bs e s =
      .ok (reading (Proofs.C01Cached.eTo e) (Proofs.C01Cached.sTo s) bs) :=
  Proofs.C01Cached.cache_intFromSlice_is_reading bs hn e s

/-- **cached_footprint** (DEFAULT cache store; WriteThrough, WriteAround, NoCache; any prior
cache content; any description around the register): a successful `set_value(v)` of an IntReg
with a constant address performs exactly one device access — a write of
`[address, address+length)` — whose bytes are exactly the two's-complement image of `v` in the
declared byte order, and the device then holds that image in that range. -/
theorem cached_footprint {p : Profile} {g : Cache.Graph} {s s' : Cache.St Cache.Store}
    {n : Cache.NodeId} {r : Cache.Reg} (hn : g[n]? = some (.reg r)) (hsel : r.sel = none)
    {e : Cache.Endian} {sg : Cache.Sign} (hk : r.kind = .int e sg) {v : Int}
    (hv : -(2 ^ 63 : Int) ≤ v ∧ v < 2 ^ 63) {u : Cache.Val}
    (h : Cache.run Cache.defaultCache p g s (.setValue n (.int v)) = (.ok u, s')) :
    IntLen r.len ∧
    s'.dev.log = ⟨true, r.base, r.len, image r.len (Proofs.C01Cached.eTo e) v, true⟩ :: s.dev.log ∧
    s'.dev.mem = Cache.patch s.dev.mem r.base.toNat (image r.len (Proofs.C01Cached.eTo e) v) ∧
    s'.dev.peek r.base r.len = some (image r.len (Proofs.C01Cached.eTo e) v) :=
  Proofs.C01Cached.cached_footprint hn hsel hk hv h

/-- **cached_int_roundtrip** (DEFAULT cache store; every caching mode; any prior cache
content; no hypothesis on what the description declares): after a successful `set_value(v)` of
an in-range value on an IntReg with a constant address, `value()` returns `v` (C04's
`own_write_visible` composed with the codec theorems). -/
theorem cached_int_roundtrip {p : Profile} {g : Cache.Graph} {s s' : Cache.St Cache.Store}
    {n : Cache.NodeId} {r : Cache.Reg} (hn : g[n]? = some (.reg r)) (hsel : r.sel = none)
    {e : Cache.Endian} {sg : Cache.Sign} (hk : r.kind = .int e sg) {v : Int}
    (hv : -(2 ^ 63 : Int) ≤ v ∧ v < 2 ^ 63) (hr : InRange r.len (Proofs.C01Cached.sTo sg) v)
    {u : Cache.Val}
    (h : Cache.run Cache.defaultCache p g s (.setValue n (.int v)) = (.ok u, s')) :
    (Cache.run Cache.defaultCache p g s' (.value n)).1 = .ok (.int v) :=
  Proofs.C01Cached.cached_int_roundtrip hn hsel hk hv hr h

/-- the hypotheses are satisfiable: a WriteAround 2-byte register whose cache was filled by an
earlier read; `set_value(-2)` succeeds and `value()` returns `-2` -/
example :
    let g : Cache.Graph := [.port, .reg ⟨.int .be .signed, 1, none, 2, .writeAround, .rw, [], 0⟩]
    let s0 := Cache.initDefault g ⟨[0, 0x12, 0x34, 0xBB], [], [], [], [], 0, []⟩
    let s1 := (Cache.run Cache.defaultCache Profile.dev g s0 (.value 1)).2
    (Cache.run Cache.defaultCache Profile.dev g s0 (.value 1)).1 = .ok (.int 0x1234) ∧
    (Cache.run Cache.defaultCache Profile.dev g s1 (.setValue 1 (.int (-2)))).1 = .ok .unit ∧
    (Cache.run Cache.defaultCache Profile.dev g
      (Cache.run Cache.defaultCache Profile.dev g s1 (.setValue 1 (.int (-2)))).2 (.value 1)).1 =
        .ok (.int (-2)) ∧
    (Cache.run Cache.defaultCache Profile.dev g s1 (.setValue 1 (.int (-2)))).2.dev.mem =
      [0, 0xFF, 0xFE, 0xBB] := by
  decide +kernel

/-! ## 8. Caching ON, all register kinds (composition with C04's cache model, continued)

Every theorem of this section is about the build with the DEFAULT cache store, holds for
WriteThrough, WriteAround and NoCache registers alike, and is stated for an ARBITRARY state
`s` (any cache content, any device, any log) — hence after any history — and an arbitrary
description `g` around the register.  `hsel : r.sel = none` = the register has a constant
address (section 9 treats `pIndex`). -/

open Proofs.C01Cached in
/-- **bridge (string)**: C04's `StringReg::set_value` check-and-pad accepts exactly the
representable strings (ASCII, NUL-free, fits) and yields the NUL-padded image. -/
theorem cache_bytesFromStr_is_image (s : Bytes) (n : Nat) (buf : Bytes) :
    Cache.bytesFromStr s n = .ok buf ↔ Representable n s ∧ buf = strImage n s :=
  cache_bytesFromStr_ok_iff s n buf

open Proofs.C01Cached in
/-- **bridge (float encode)**: on the bit pattern of `x` (`to_bits`, resp. `(x as f32).to_bits`)
C04's `bytes_from_float` is this file's `bytesFromFloat x` (whose layout is `float_layout`). -/
theorem cache_bytesFromFloat_is_reg {F : Type} [FloatOps F] (x : F) (len : Nat)
    (hl : FloatLen len) (e : Cache.Endian) (buf : Bytes) :
    Cache.bytesFromFloat (fltBits x len) len e = .ok buf ↔ bytesFromFloat x len (eTo e) = .ok buf :=
  Proofs.C01Cached.cache_bytesFromFloat_is_reg x len hl e buf

open Proofs.C01Cached in
/-- **bridge (float decode)**: C04's `float_from_slice` carries the bit pattern whose float
(`fltOf`: `from_bits`, resp. widening of `f32::from_bits`) is this file's `floatFromSlice`. -/
theorem cache_floatFromSlice_is_reg {F : Type} [FloatOps F] (bs : Bytes)
    (hl : FloatLen bs.length) (e : Cache.Endian) :
    Cache.floatFromSlice bs e = .ok (.flt bs.length (Cache.fromEndian e bs)) ∧
    floatFromSlice (F := F) bs (eTo e) = .ok (fltOf bs.length (Cache.fromEndian e bs)) :=
  Proofs.C01Cached.cache_floatFromSlice_is_reg bs hl e

/-- **cached_string_roundtrip**: a successful `set_value(str)` on a StringReg — the string was
then representable — is exactly one device access, a write of `[address, address+length)`
with exactly the NUL-padded image; the device holds the image; `value()` afterwards returns
`str`, whatever an earlier read had left in the cache. -/
theorem cached_string_roundtrip {p : Profile} {g : Cache.Graph} {s s' : Cache.St Cache.Store}
    {n : Cache.NodeId} {r : Cache.Reg} (hn : g[n]? = some (.reg r)) (hsel : r.sel = none)
    (hk : r.kind = .string) {str : Bytes} {u : Cache.Val}
    (h : Cache.run Cache.defaultCache p g s (.setValue n (.str str)) = (.ok u, s')) :
    Representable r.len str ∧
    s'.dev.log = ⟨true, r.base, r.len, strImage r.len str, true⟩ :: s.dev.log ∧
    s'.dev.mem = Cache.patch s.dev.mem r.base.toNat (strImage r.len str) ∧
    (Cache.run Cache.defaultCache p g s' (.value n)).1 = .ok (.str str) :=
  Proofs.C01Cached.cached_string_roundtrip hn hsel hk h

/-- **cached_string_refused**: an unrepresentable string (non-ASCII byte, NUL, too long) is
`InvalidData` and NOTHING changes: no device access, no log entry, cache untouched (any
addressing, the check precedes the address evaluation). -/
theorem cached_string_refused {p : Profile} {g : Cache.Graph} {s : Cache.St Cache.Store}
    {n : Cache.NodeId} {r : Cache.Reg} (hn : g[n]? = some (.reg r)) (hk : r.kind = .string)
    {str : Bytes} (hrep : ¬ Representable r.len str) :
    Cache.run Cache.defaultCache p g s (.setValue n (.str str)) = (.err .invalidData, s) :=
  Proofs.C01Cached.cached_string_refused hn hk hrep

/-- the hypotheses are satisfiable: a WriteThrough 4-byte StringReg whose cache holds "ABCD"
from an earlier read; `set_value("hi")` writes `68 69 00 00`, `value()` returns "hi"; a
string with a NUL is refused with the state unchanged -/
example :
    let g : Cache.Graph := [.port, .reg ⟨.string, 1, none, 4, .writeThrough, .rw, [], 0⟩]
    let s0 := Cache.initDefault g ⟨[0, 0x41, 0x42, 0x43, 0x44, 0xBB], [], [], [], [], 0, []⟩
    let s1 := (Cache.run Cache.defaultCache Profile.dev g s0 (.value 1)).2
    let s2 := (Cache.run Cache.defaultCache Profile.dev g s1 (.setValue 1 (.str [0x68, 0x69]))).2
    (Cache.run Cache.defaultCache Profile.dev g s0 (.value 1)).1 = .ok (.str [0x41, 0x42, 0x43, 0x44]) ∧
    (Cache.run Cache.defaultCache Profile.dev g s1 (.setValue 1 (.str [0x68, 0x69]))).1 = .ok .unit ∧
    (Cache.run Cache.defaultCache Profile.dev g s2 (.value 1)).1 = .ok (.str [0x68, 0x69]) ∧
    s2.dev.mem = [0, 0x68, 0x69, 0, 0, 0xBB] ∧
    (Cache.run Cache.defaultCache Profile.dev g s2 (.setValue 1 (.str [0x68, 0, 0x69]))).1 =
      .err .invalidData := by
  decide +kernel

/-- **cached_raw_roundtrip**: a successful raw `IRegister::write(buf)` is exactly one device
write of exactly `buf` (which is `length` bytes) at `[address, address+length)`; afterwards the
cached read path yields `buf` (whether it is served from the cache — WriteThrough — or from
the device), and `IRegister::read` returns `buf` with exactly one device read of that range. -/
theorem cached_raw_roundtrip {p : Profile} {g : Cache.Graph} {s s' : Cache.St Cache.Store}
    {n : Cache.NodeId} {r : Cache.Reg} (hn : g[n]? = some (.reg r)) (hsel : r.sel = none)
    {buf : Bytes} {u : Cache.Val}
    (h : Cache.run Cache.defaultCache p g s (.write n buf) = (.ok u, s')) :
    buf.length = r.len ∧
    s'.dev.log = ⟨true, r.base, r.len, buf, true⟩ :: s.dev.log ∧
    s'.dev.mem = Cache.patch s.dev.mem r.base.toNat buf ∧
    (Cache.cachedRead Cache.defaultCache g n r r.base s').1 = .ok buf ∧
    (Cache.run Cache.defaultCache p g s' (.read n r.len)).1 = .ok (.bytes buf) ∧
    (Cache.run Cache.defaultCache p g s' (.read n r.len)).2.dev.log =
      ⟨false, r.base, r.len, buf, true⟩ :: s'.dev.log :=
  Proofs.C01Cached.cached_raw_roundtrip hn hsel h

/-- **cached_raw_bad_buffer_refused**: a raw write whose buffer is not exactly `length` bytes
is `InvalidBuffer` and nothing changes (any addressing). -/
theorem cached_raw_bad_buffer_refused {p : Profile} {g : Cache.Graph} {s : Cache.St Cache.Store}
    {n : Cache.NodeId} {r : Cache.Reg} (hn : g[n]? = some (.reg r)) {buf : Bytes}
    (hl : buf.length ≠ r.len) :
    Cache.run Cache.defaultCache p g s (.write n buf) = (.err .invalidBuffer, s) :=
  Proofs.C01Cached.cached_raw_bad_buffer_refused hn hl

/-- non-vacuity: a WriteAround raw 3-byte Register -/
example :
    let g : Cache.Graph := [.port, .reg ⟨.raw, 2, none, 3, .writeAround, .rw, [], 0⟩]
    let s0 := Cache.initDefault g ⟨[9, 9, 9, 9, 9, 9], [], [], [], [], 0, []⟩
    let s1 := (Cache.run Cache.defaultCache Profile.dev g s0 (.write 1 [1, 2, 3])).2
    (Cache.run Cache.defaultCache Profile.dev g s0 (.write 1 [1, 2, 3])).1 = .ok .unit ∧
    s1.dev.mem = [9, 9, 1, 2, 3, 9] ∧
    (Cache.run Cache.defaultCache Profile.dev g s1 (.read 1 3)).1 = .ok (.bytes [1, 2, 3]) ∧
    (Cache.run Cache.defaultCache Profile.dev g s0 (.write 1 [1, 2])).1 = .err .invalidBuffer := by
  decide +kernel

open Proofs.C01Cached in
/-- **cached_float_roundtrip**: a successful `set_value(x)` on a FloatReg (length 4 or 8 — it
could not succeed otherwise) is exactly one device write of `[address, address+length)` with
exactly `bytesFromFloat x` (the IEEE byte layout of `float_layout`); `value()` afterwards
returns a bit pattern that denotes `x` itself, under the same laws as caching-off
(`float_roundtrip8/4`): `ofBits (toBits x) = x` for 8 bytes, `widen (narrow x) = x` for 4. -/
theorem cached_float_roundtrip {F : Type} [FloatOps F] {p : Profile} {g : Cache.Graph}
    {s s' : Cache.St Cache.Store} {n : Cache.NodeId} {r : Cache.Reg}
    (hn : g[n]? = some (.reg r)) (hsel : r.sel = none) {e : Cache.Endian}
    (hk : r.kind = .float e) (x : F)
    (law : (r.len = 8 → FloatOps.ofBits (FloatOps.toBits x) = x) ∧
           (r.len = 4 → FloatOps.widenBits32 (FloatOps.narrowBits32 x) = x))
    {w : Nat} {u : Cache.Val}
    (h : Cache.run Cache.defaultCache p g s (.setValue n (.flt w (fltBits x r.len))) = (.ok u, s')) :
    FloatLen r.len ∧
    ∃ img, bytesFromFloat x r.len (eTo e) = .ok img ∧
      s'.dev.log = ⟨true, r.base, r.len, img, true⟩ :: s.dev.log ∧
      s'.dev.mem = Cache.patch s.dev.mem r.base.toNat img ∧
      ∃ k, (Cache.run Cache.defaultCache p g s' (.value n)).1 = .ok (.flt r.len k) ∧
        fltOf (F := F) r.len k = x := by
  obtain ⟨hfl, img, himg, hlog, hmem, k, hval, hdec⟩ :=
    Proofs.C01Cached.cached_float_roundtrip hn hsel hk x h
  refine ⟨hfl, img, himg, hlog, hmem, k, hval, ?_⟩
  rcases hfl with h4 | h8
  · obtain ⟨img', hi', _, hd'⟩ := float_roundtrip4 x (eTo e) (law.2 h4)
    rw [h4] at himg hdec
    rw [himg] at hi'
    injection hi' with hi'
    rw [← hi', hdec] at hd'
    injection hd' with hd'
    rw [h4]; exact hd'
  · obtain ⟨img', hi', _, hd'⟩ := float_roundtrip8 x (eTo e) (law.1 h8)
    rw [h8] at himg hdec
    rw [himg] at hi'
    injection hi' with hi'
    rw [← hi', hdec] at hd'
    injection hd' with hd'
    rw [h8]; exact hd'

/-- non-vacuity (bit-pattern level, the float laws are hypotheses): a big-endian 4-byte
FloatReg with a cached older value; the pattern of 1.5f32 is written as `3F C0 00 00` and
read back -/
example :
    let g : Cache.Graph := [.port, .reg ⟨.float .be, 0, none, 4, .writeThrough, .rw, [], 0⟩]
    let s0 := Cache.initDefault g ⟨[0, 0, 0, 0, 0xBB], [], [], [], [], 0, []⟩
    let s1 := (Cache.run Cache.defaultCache Profile.dev g s0 (.value 1)).2
    let s2 := (Cache.run Cache.defaultCache Profile.dev g s1 (.setValue 1 (.flt 4 0x3FC00000))).2
    (Cache.run Cache.defaultCache Profile.dev g s1 (.setValue 1 (.flt 4 0x3FC00000))).1 = .ok .unit ∧
    s2.dev.mem = [0x3F, 0xC0, 0, 0, 0xBB] ∧
    (Cache.run Cache.defaultCache Profile.dev g s2 (.value 1)).1 = .ok (.flt 4 0x3FC00000) := by
  decide +kernel

/-- **cached_value_footprint** (cached READS; IntReg, MaskedIntReg, FloatReg, StringReg): in
any state, `value()` never changes device memory; if the cache holds the register's key the
call changes NOTHING (no device access, no log entry, same cache); otherwise the log is
unchanged (the call failed before the device) or grows by exactly one read entry for exactly
`(address, length)`, which — when the device answered — carries the device's bytes there. -/
theorem cached_value_footprint {p : Profile} {g : Cache.Graph} {s : Cache.St Cache.Store}
    {n : Cache.NodeId} {r : Cache.Reg} (hn : g[n]? = some (.reg r)) (hsel : r.sel = none)
    (hk : r.kind ≠ .raw) :
    let s' := (Cache.run Cache.defaultCache p g s (.value n)).2
    s'.dev.mem = s.dev.mem ∧
    ((∃ bs, s.cache.get n r.base r.len = some bs) → s' = s) ∧
    (s'.dev.log = s.dev.log ∨
      ∃ data ok, s'.dev.log = ⟨false, r.base, r.len, data, ok⟩ :: s.dev.log ∧
        (ok = true → s.dev.peek r.base r.len = some data)) :=
  Proofs.C01Cached.cached_value_footprint hn hsel hk

/-- **cached_read_footprint**: raw `IRegister::read` with any buffer length, whatever its
outcome: device memory unchanged, at most one read entry, for exactly `(address, length)`. -/
theorem cached_read_footprint {p : Profile} {g : Cache.Graph} {n : Cache.NodeId} {r : Cache.Reg}
    (hn : g[n]? = some (.reg r)) (hsel : r.sel = none) (buflen : Nat) (s : Cache.St Cache.Store) :
    let s' := (Cache.run Cache.defaultCache p g s (.read n buflen)).2
    s'.dev.mem = s.dev.mem ∧
    (s'.dev.log = s.dev.log ∨
      ∃ data ok, s'.dev.log = ⟨false, r.base, r.len, data, ok⟩ :: s.dev.log ∧
        (ok = true → s.dev.peek r.base r.len = some data)) :=
  Proofs.C01Cached.cached_read_footprint hn hsel buflen s

/-- **cached_set_footprint**: `set_value` with ANY value on an IntReg / FloatReg / StringReg
(and the refused call on a raw Register), WHATEVER ITS OUTCOME (success, refusal, device
fault, partially applied write): the device is untouched, or there is exactly one write
attempt logged for exactly `(address, length)` and memory differs at most by a patch of at
most `length` bytes at `address` — on success exactly the logged `length` bytes
(`Proofs.C01Cached.OneW`).  (MaskedIntReg reads first: C02.) -/
theorem cached_set_footprint {p : Profile} {g : Cache.Graph} {n : Cache.NodeId} {r : Cache.Reg}
    (hn : g[n]? = some (.reg r)) (hsel : r.sel = none)
    (hk : ∀ e sg l m, r.kind ≠ .masked e sg l m) (v : Cache.Val) (s : Cache.St Cache.Store) :
    Proofs.C01Cached.OneW r.base r.len s.dev
      (Cache.run Cache.defaultCache p g s (.setValue n v)).2.dev :=
  Proofs.C01Cached.cached_set_footprint hn hsel hk v s

/-- **cached_frame**: what `OneW` means for the bytes: for a register inside the device image,
a `OneW` step (every `set_value` / `write` above, whatever its outcome) keeps the image length
and every byte outside `[address, address+length)`. -/
theorem cached_frame {a : Int} {l : Nat} {d d' : Cache.Dev} (h : Proofs.C01Cached.OneW a l d d')
    (h0 : 0 ≤ a) (h1 : a + l ≤ d.mem.length) :
    d'.mem.length = d.mem.length ∧
    ∀ i : Nat, (i < a.toNat ∨ a.toNat + l ≤ i) → d'.mem[i]? = d.mem[i]? :=
  Proofs.C01Cached.oneW_frame h h0 h1

/-- **cached_write_footprint**: the same for raw `IRegister::write` with any buffer. -/
theorem cached_write_footprint {p : Profile} {g : Cache.Graph} {n : Cache.NodeId} {r : Cache.Reg}
    (hn : g[n]? = some (.reg r)) (hsel : r.sel = none) (buf : Bytes) (s : Cache.St Cache.Store) :
    Proofs.C01Cached.OneW r.base r.len s.dev
      (Cache.run Cache.defaultCache p g s (.write n buf)).2.dev :=
  Proofs.C01Cached.cached_write_footprint hn hsel buf s

/-- non-vacuity of the three disjuncts of the footprint statements: a cache hit (state
unchanged), a miss (one R entry), and a write the device rejects half way (one failed W
entry, 1 of 2 bytes applied) -/
example :
    let g : Cache.Graph := [.port, .reg ⟨.int .le .unsigned, 1, none, 2, .writeThrough, .rw, [], 0⟩]
    let s0 := Cache.initDefault g ⟨[0, 0x34, 0x12, 0xBB], [], [], [], [(0, (1, []))], 0, []⟩
    let s1 := (Cache.run Cache.defaultCache Profile.dev g s0 (.value 1)).2
    let s2 := (Cache.run Cache.defaultCache Profile.dev g s1 (.value 1)).2
    let s3 := (Cache.run Cache.defaultCache Profile.dev g s2 (.setValue 1 (.int 0x0707))).2
    s1.dev.log = [⟨false, 1, 2, [0x34, 0x12], true⟩] ∧ s2.dev.log = s1.dev.log ∧
    (Cache.run Cache.defaultCache Profile.dev g s2 (.setValue 1 (.int 0x0707))).1 = .err .device ∧
    s3.dev.log = ⟨true, 1, 2, [0x07], false⟩ :: s1.dev.log ∧ s3.dev.mem = [0, 0x07, 0x12, 0xBB] ∧
    (Cache.run Cache.defaultCache Profile.dev g s3 (.value 1)).1 = .ok (.int 0x1207) := by
  decide +kernel

/-! ## 9. Address evaluation: `<Address> + <pIndex Offset=off>selector</pIndex>`

`RegisterBase::address` sums the address terms with plain `+=` on `i64`
(`register_base.rs:141-152`) and `pIndex` multiplies with plain `*` (`elem_type.rs:304-318`):
exact when representable; with overflow checks (dev) an overflow panics before the register
is accessed; without (release) it wraps and the register is accessed at the wrapped address.
`ev` is the selector evaluator (`NodeId::value::<i64>` through the cached path). -/

/-- **pindex_address_exact**: when `base + k·off` is computable in `i64` (`k` the selector's
value) that is the address, in both profiles; the state is the one the selector read left. -/
theorem pindex_address_exact {p : Profile} {ev : Cache.NodeId → Cache.M Cache.Store Int}
    {r : Cache.Reg} {sn : Cache.NodeId} {off : Int} (hsel : r.sel = some (sn, off))
    {s : Cache.St Cache.Store} {k : Int} (hk : (ev sn s).1 = .ok k)
    (h1 : Cache.I64_MIN ≤ k * off ∧ k * off ≤ Cache.I64_MAX)
    (h2 : Cache.I64_MIN ≤ r.base + k * off ∧ r.base + k * off ≤ Cache.I64_MAX) :
    Cache.regAddr p ev r s = (.ok (r.base + k * off), (ev sn s).2) :=
  Proofs.C01Cached.address_exact hsel hk h1 h2

/-- **pindex_address_overflow_checked**: with overflow checks, a product or sum that leaves
`i64` is a panic (after the selector read, before any access of the register itself). -/
theorem pindex_address_overflow_checked {p : Profile} (hp : p.overflowChecks = true)
    {ev : Cache.NodeId → Cache.M Cache.Store Int}
    {r : Cache.Reg} {sn : Cache.NodeId} {off : Int} (hsel : r.sel = some (sn, off))
    {s : Cache.St Cache.Store} {k : Int} (hk : (ev sn s).1 = .ok k)
    (hov : ¬ (Cache.I64_MIN ≤ k * off ∧ k * off ≤ Cache.I64_MAX) ∨
      ¬ (Cache.I64_MIN ≤ r.base + k * off ∧ r.base + k * off ≤ Cache.I64_MAX)) :
    Cache.regAddr p ev r s = (.panic, (ev sn s).2) :=
  Proofs.C01Cached.address_overflow_checked hp hsel hk hov

/-- **pindex_address_overflow_wraps**: without overflow checks the address is the `i64`
congruent to `base + k·off` modulo `2^64`. -/
theorem pindex_address_overflow_wraps {p : Profile} (hp : p.overflowChecks = false)
    {ev : Cache.NodeId → Cache.M Cache.Store Int}
    {r : Cache.Reg} {sn : Cache.NodeId} {off : Int} (hsel : r.sel = some (sn, off))
    {s : Cache.St Cache.Store} {k : Int} (hk : (ev sn s).1 = .ok k) :
    ∃ a q : Int, Cache.regAddr p ev r s = (.ok a, (ev sn s).2) ∧
      Cache.I64_MIN ≤ a ∧ a ≤ Cache.I64_MAX ∧ a = r.base + k * off + q * 2 ^ 64 :=
  Proofs.C01Cached.address_overflow_wraps hp hsel hk

/-- **cached_write_footprint_dyn** (ANY addressing, constant or `pIndex`; default cache store;
any state): a successful raw write is, as its LAST device access, exactly one write of
exactly `buf` (`length` bytes) at `[a, a+length)`, where `a` is what `IRegister::address`
evaluates to in the state before the call; the accesses `pre` before it belong to that address
evaluation (selector reads, possibly none when cached); the device then holds `buf` there. -/
theorem cached_write_footprint_dyn {p : Profile} {g : Cache.Graph} {s s' : Cache.St Cache.Store}
    {n : Cache.NodeId} {r : Cache.Reg} (hn : g[n]? = some (.reg r)) {buf : Bytes} {u : Cache.Val}
    (h : Cache.run Cache.defaultCache p g s (.write n buf) = (.ok u, s')) :
    buf.length = r.len ∧
    ∃ a pre, (Cache.run Cache.defaultCache p g s (.address n)).1 = .ok (.int a) ∧
      s'.dev.log = ⟨true, a, r.len, buf, true⟩ :: (pre ++ s.dev.log) ∧
      s'.dev.peek a r.len = some buf :=
  Proofs.C01Cached.cached_write_footprint_dyn hn h

/-- **reads_never_write_cached** (default cache store, any state, any description): `value()`
of ANY node (register of any kind with any addressing, Integer / Enumeration / Boolean
feature), raw `IRegister::read` with any buffer length and `IRegister::address` leave device
memory unchanged, whatever their outcome, and every access they add to the log is a read
(selector reads included). -/
theorem reads_never_write_cached {p : Profile} {g : Cache.Graph} (s : Cache.St Cache.Store)
    (op : Cache.Op)
    (hop : (∃ n, op = .value n) ∨ (∃ n l, op = .read n l) ∨ (∃ n, op = .address n)) :
    (Cache.run Cache.defaultCache p g s op).2.dev.mem = s.dev.mem ∧
    (Cache.run Cache.defaultCache p g s op).2.dev.noAccess = s.dev.noAccess ∧
    ∃ pre, (Cache.run Cache.defaultCache p g s op).2.dev.log = pre ++ s.dev.log ∧
      ∀ x ∈ pre, x.write = false :=
  Proofs.C01Cached.reads_never_write_cached s op hop

/-- **cached_raw_roundtrip_dyn** (ANY addressing, `pIndex` included): after a successful raw
write of `buf`, provided `IRegister::address` still evaluates to the same address (the write
did not move the register, e.g. by overwriting its own selector), `IRegister::read` returns
`buf`. -/
theorem cached_raw_roundtrip_dyn {p : Profile} {g : Cache.Graph} {s s' : Cache.St Cache.Store}
    {n : Cache.NodeId} {r : Cache.Reg} (hn : g[n]? = some (.reg r)) {buf : Bytes} {u : Cache.Val}
    (h : Cache.run Cache.defaultCache p g s (.write n buf) = (.ok u, s'))
    (hstable : (Cache.run Cache.defaultCache p g s' (.address n)).1 =
      (Cache.run Cache.defaultCache p g s (.address n)).1) :
    (Cache.run Cache.defaultCache p g s' (.read n r.len)).1 = .ok (.bytes buf) :=
  Proofs.C01Cached.cached_raw_roundtrip_dyn hn h hstable

/-- **cached_int_roundtrip_dyn** (IntReg with ANY addressing, `pIndex` included; default cache
store; every caching mode; any state; any description): a successful `set_value(v)` of an
in-range value ends with exactly one write of exactly the two's-complement image at
`[a, a+length)` (`pre` = the selector reads of the address evaluation), and `value()`
afterwards returns `v` provided the address evaluation `value()` performs still yields `a`
(`regAddr` with the fuel `value()` uses: the write did not move the register, e.g. by
overwriting its own selector).  No hypothesis on what the description declares or on what
was cached before. -/
theorem cached_int_roundtrip_dyn {p : Profile} {g : Cache.Graph} {s s' : Cache.St Cache.Store}
    {n : Cache.NodeId} {r : Cache.Reg} (hn : g[n]? = some (.reg r))
    {e : Cache.Endian} {sg : Cache.Sign} (hk : r.kind = .int e sg) {v : Int}
    (hv : -(2 ^ 63 : Int) ≤ v ∧ v < 2 ^ 63) (hr : InRange r.len (Proofs.C01Cached.sTo sg) v)
    {u : Cache.Val}
    (h : Cache.run Cache.defaultCache p g s (.setValue n (.int v)) = (.ok u, s')) :
    ∃ a pre, s'.dev.log =
        ⟨true, a, r.len, image r.len (Proofs.C01Cached.eTo e) v, true⟩ :: (pre ++ s.dev.log) ∧
      ((Cache.regAddr p (Cache.evalInt Cache.defaultCache p g g.length) r s').1 = .ok a →
        (Cache.run Cache.defaultCache p g s' (.value n)).1 = .ok (.int v)) :=
  Proofs.C01Cached.cached_int_roundtrip_dyn hn hk hv hr h

/-- **cached_string_roundtrip_dyn** (StringReg with ANY addressing): a successful
`set_value(str)` ends with exactly one write of exactly the NUL-padded image at `[a, a+length)`,
and `value()` afterwards returns `str` provided `IRegister::address` still evaluates to `a`. -/
theorem cached_string_roundtrip_dyn {p : Profile} {g : Cache.Graph} {s s' : Cache.St Cache.Store}
    {n : Cache.NodeId} {r : Cache.Reg} (hn : g[n]? = some (.reg r)) (hk : r.kind = .string)
    {str : Bytes} {u : Cache.Val}
    (h : Cache.run Cache.defaultCache p g s (.setValue n (.str str)) = (.ok u, s')) :
    Representable r.len str ∧
    ∃ a pre, s'.dev.log = ⟨true, a, r.len, strImage r.len str, true⟩ :: (pre ++ s.dev.log) ∧
      ((Cache.run Cache.defaultCache p g s' (.address n)).1 = .ok (.int a) →
        (Cache.run Cache.defaultCache p g s' (.value n)).1 = .ok (.str str)) :=
  Proofs.C01Cached.cached_string_roundtrip_dyn hn hk h

/-- what was encoded from `x` decodes to `x` under the float laws (`float_roundtrip8/4`) -/
private theorem float_decode_back {F : Type} [FloatOps F] (x y : F) (n : Nat) (e : Endianness)
    (hfl : FloatLen n)
    (law : (n = 8 → FloatOps.ofBits (FloatOps.toBits x) = x) ∧
           (n = 4 → FloatOps.widenBits32 (FloatOps.narrowBits32 x) = x))
    (img : Bytes) (himg : bytesFromFloat x n e = .ok img)
    (hdec : floatFromSlice (F := F) img e = .ok y) : y = x := by
  rcases hfl with h4 | h8
  · obtain ⟨img', hi', _, hd'⟩ := float_roundtrip4 x e (law.2 h4)
    rw [h4] at himg
    rw [himg] at hi'
    injection hi' with hi'
    rw [← hi', hdec] at hd'
    injection hd' with hd'
  · obtain ⟨img', hi', _, hd'⟩ := float_roundtrip8 x e (law.1 h8)
    rw [h8] at himg
    rw [himg] at hi'
    injection hi' with hi'
    rw [← hi', hdec] at hd'
    injection hd' with hd'

open Proofs.C01Cached in
/-- **cached_float_roundtrip_dyn** (FloatReg with ANY addressing): a successful `set_value(x)`
ends with exactly one write of exactly `bytesFromFloat x` at `[a, a+length)`, and `value()`
afterwards returns a bit pattern denoting `x` (float laws as in `cached_float_roundtrip`)
provided `IRegister::address` still evaluates to `a`. -/
theorem cached_float_roundtrip_dyn {F : Type} [FloatOps F] {p : Profile} {g : Cache.Graph}
    {s s' : Cache.St Cache.Store} {n : Cache.NodeId} {r : Cache.Reg}
    (hn : g[n]? = some (.reg r)) {e : Cache.Endian} (hk : r.kind = .float e) (x : F)
    (law : (r.len = 8 → FloatOps.ofBits (FloatOps.toBits x) = x) ∧
           (r.len = 4 → FloatOps.widenBits32 (FloatOps.narrowBits32 x) = x))
    {w : Nat} {u : Cache.Val}
    (h : Cache.run Cache.defaultCache p g s (.setValue n (.flt w (fltBits x r.len))) = (.ok u, s')) :
    FloatLen r.len ∧
    ∃ img, bytesFromFloat x r.len (eTo e) = .ok img ∧
    ∃ a pre, s'.dev.log = ⟨true, a, r.len, img, true⟩ :: (pre ++ s.dev.log) ∧
      ((Cache.run Cache.defaultCache p g s' (.address n)).1 = .ok (.int a) →
        ∃ k, (Cache.run Cache.defaultCache p g s' (.value n)).1 = .ok (.flt r.len k) ∧
          fltOf (F := F) r.len k = x) := by
  obtain ⟨buf, hb, hlen, a, pre, hlog, hrt⟩ := Proofs.C01Cached.cached_float_roundtrip_dyn hn hk h
  have hfl : FloatLen r.len := by
    unfold Cache.bytesFromFloat at hb
    split at hb
    · rename_i hc
      simp only [Bool.or_eq_true, beq_iff_eq] at hc
      exact hc.symm
    · cases hb
  have himg := (Proofs.C01Cached.cache_bytesFromFloat_is_reg x r.len hfl e buf).mp hb
  refine ⟨hfl, buf, himg, a, pre, hlog, fun hst => ?_⟩
  obtain ⟨hc1, hc2⟩ := Proofs.C01Cached.cache_floatFromSlice_is_reg (F := F) buf (by rw [hlen]; exact hfl) e
  rw [hlen] at hc1 hc2
  exact ⟨Cache.fromEndian e buf, by rw [hrt hst, hc1],
    float_decode_back x _ r.len (eTo e) hfl law buf himg hc2⟩

/-- non-vacuity: a 3-byte StringReg and a 4-byte FloatReg, both at `2 + sel·1` with `sel = 2`
(address 4): `set_value`, then `IRegister::address` is still 4 and `value()` returns the value -/
example :
    let g : Cache.Graph := [.port, .reg ⟨.int .le .unsigned, 0, none, 1, .writeAround, .rw, [], 0⟩,
      .reg ⟨.string, 2, some (1, 1), 3, .writeThrough, .rw, [], 0⟩,
      .reg ⟨.float .le, 2, some (1, 1), 4, .writeAround, .rw, [], 0⟩]
    let s0 := Cache.initDefault g ⟨[2, 0, 0, 0, 0x41, 0x42, 0x43, 0x44], [], [], [], [], 0, []⟩
    let s1 := (Cache.run Cache.defaultCache Profile.dev g s0 (.setValue 2 (.str [0x68]))).2
    let s2 := (Cache.run Cache.defaultCache Profile.dev g s1 (.setValue 3 (.flt 4 0x3FC00000))).2
    (Cache.run Cache.defaultCache Profile.dev g s0 (.value 2)).1 = .ok (.str [0x41, 0x42, 0x43]) ∧
    (Cache.run Cache.defaultCache Profile.dev g s0 (.setValue 2 (.str [0x68]))).1 = .ok .unit ∧
    s1.dev.log = [⟨true, 4, 3, [0x68, 0, 0], true⟩, ⟨false, 0, 1, [2], true⟩] ∧
    (Cache.run Cache.defaultCache Profile.dev g s1 (.address 2)).1 = .ok (.int 4) ∧
    (Cache.run Cache.defaultCache Profile.dev g s1 (.value 2)).1 = .ok (.str [0x68]) ∧
    (Cache.run Cache.defaultCache Profile.dev g s1 (.setValue 3 (.flt 4 0x3FC00000))).1 = .ok .unit ∧
    s2.dev.mem = [2, 0, 0, 0, 0, 0, 0xC0, 0x3F] ∧
    (Cache.run Cache.defaultCache Profile.dev g s2 (.value 3)).1 = .ok (.flt 4 0x3FC00000) := by
  decide +kernel

/-- non-vacuity: a 2-byte WriteThrough IntReg at `2 + sel·2` (selector node 1 reads 1, cached
by an earlier `value()`): `set_value(-2)` writes `FE FF` at 4, `value()` returns `-2` -/
example :
    let g : Cache.Graph := [.port, .reg ⟨.int .le .unsigned, 0, none, 1, .writeThrough, .rw, [], 0⟩,
      .reg ⟨.int .le .signed, 2, some (1, 2), 2, .writeThrough, .rw, [], 0⟩]
    let s0 := Cache.initDefault g ⟨[1, 0, 0, 0, 0x34, 0x12, 0xCC], [], [], [], [], 0, []⟩
    let s1 := (Cache.run Cache.defaultCache Profile.dev g s0 (.value 2)).2
    let s2 := (Cache.run Cache.defaultCache Profile.dev g s1 (.setValue 2 (.int (-2)))).2
    (Cache.run Cache.defaultCache Profile.dev g s0 (.value 2)).1 = .ok (.int 0x1234) ∧
    (Cache.run Cache.defaultCache Profile.dev g s1 (.setValue 2 (.int (-2)))).1 = .ok .unit ∧
    s2.dev.mem = [1, 0, 0, 0, 0xFE, 0xFF, 0xCC] ∧
    (Cache.regAddr Profile.dev (Cache.evalInt Cache.defaultCache Profile.dev g g.length)
      (⟨.int .le .signed, 2, some (1, 2), 2, .writeThrough, .rw, [], 0⟩ : Cache.Reg) s2).1 = .ok 4 ∧
    (Cache.run Cache.defaultCache Profile.dev g s2 (.value 2)).1 = .ok (.int (-2)) := by
  decide +kernel

/-- non-vacuity: register 2 lives at `2 + sel·2`, the selector (node 1, one byte at 0) reads 1:
address 4; the write is `R(0,1)` for the selector, then `W(4,2)`.  With an 8-byte selector
holding `2^62` and `Offset = 4` the address overflows: panic in dev, wrapped to `2` in release -/
example :
    let g : Cache.Graph := [.port, .reg ⟨.int .le .unsigned, 0, none, 1, .noCache, .rw, [], 0⟩,
      .reg ⟨.raw, 2, some (1, 2), 2, .writeThrough, .rw, [], 0⟩]
    let s0 := Cache.initDefault g ⟨[1, 0, 0, 0, 0xAA, 0xBB, 0xCC], [], [], [], [], 0, []⟩
    let g' : Cache.Graph := [.port, .reg ⟨.int .le .signed, 0, none, 8, .noCache, .rw, [], 0⟩,
      .reg ⟨.raw, 2, some (1, 4), 2, .writeThrough, .rw, [], 0⟩]
    let s0' := Cache.initDefault g' ⟨[0, 0, 0, 0, 0, 0, 0, 0x40, 0xCC], [], [], [], [], 0, []⟩
    (Cache.run Cache.defaultCache Profile.dev g s0 (.address 2)).1 = .ok (.int 4) ∧
    (Cache.run Cache.defaultCache Profile.dev g s0 (.write 2 [7, 8])).1 = .ok .unit ∧
    (Cache.run Cache.defaultCache Profile.dev g s0 (.write 2 [7, 8])).2.dev.log =
      [⟨true, 4, 2, [7, 8], true⟩, ⟨false, 0, 1, [1], true⟩] ∧
    (Cache.run Cache.defaultCache Profile.dev g
      (Cache.run Cache.defaultCache Profile.dev g s0 (.write 2 [7, 8])).2 (.address 2)).1 = .ok (.int 4) ∧
    (Cache.run Cache.defaultCache Profile.dev g
      (Cache.run Cache.defaultCache Profile.dev g s0 (.write 2 [7, 8])).2 (.read 2 2)).1 =
        .ok (.bytes [7, 8]) ∧
    (Cache.run Cache.defaultCache Profile.dev g' s0' (.address 2)).1 = .panic ∧
    (Cache.run Cache.defaultCache Profile.release g' s0' (.address 2)).1 = .ok (.int 2) := by
  decide +kernel

/-! ## 10. `StringReg::value` returns `String::from_utf8_lossy` of the bytes before the first NUL

`Reg.utf8Lossy` (`Model/RegUtf8.lean`) is an executable model of the standard library's
lossy decoder (one U+FFFD per maximal invalid subpart), tied to std by the differential: the
`str.value` answers carry the bytes of the returned `String` (invalid, truncated, overlong,
surrogate and out-of-range sequences are generated on purpose).
`StringReg.valueString` = `utf8Lossy` of what `StringReg.value` returns. -/

/-- **lossy_ascii_identity**: ASCII bytes are returned unchanged. -/
theorem lossy_ascii_identity (bs : Bytes) (h : ∀ b ∈ bs, b < 0x80) : utf8Lossy bs = bs :=
  Proofs.C01Utf8.utf8Lossy_ascii bs h

/-- **lossy_bounded**: for ANY bytes the decoded string is at most three times as long. -/
theorem lossy_bounded (bs : Bytes) : (utf8Lossy bs).length ≤ 3 * bs.length :=
  Proofs.C01Utf8.utf8Lossy_length_le bs

/-- **lossy_no_invention**: for ANY bytes, every byte of the decoded string is a byte of the
input or one of the three bytes `EF BF BD` of U+FFFD; in particular the decoding of the
NUL-free prefix of a register is NUL-free. -/
theorem lossy_no_invention (bs : Bytes) :
    (∀ x ∈ utf8Lossy bs, x ∈ bs ∨ x ∈ replacement) ∧
    ((∀ b ∈ bs, b ≠ 0) → ∀ x ∈ utf8Lossy bs, x ≠ 0) :=
  ⟨Proofs.C01Utf8.utf8Lossy_mem bs, Proofs.C01Utf8.utf8Lossy_nul_free bs⟩

/-- **lossy_wellformed**: for ANY bytes the decoded string is well-formed UTF-8 (Unicode Table
3-7, `Proofs.C01Utf8.WellFormed`) — the `String` invariant holds for every device image. -/
theorem lossy_wellformed (bs : Bytes) : Proofs.C01Utf8.WellFormed (utf8Lossy bs) :=
  Proofs.C01Utf8.utf8Lossy_wellFormed bs

/-- **lossy_wellformed_identity**: well-formed UTF-8 (ASCII or not) is returned unchanged; hence
decoding is idempotent. -/
theorem lossy_wellformed_identity (bs : Bytes) :
    (Proofs.C01Utf8.WellFormed bs → utf8Lossy bs = bs) ∧
    utf8Lossy (utf8Lossy bs) = utf8Lossy bs :=
  ⟨Proofs.C01Utf8.utf8Lossy_of_wellFormed bs,
   Proofs.C01Utf8.utf8Lossy_of_wellFormed _ (Proofs.C01Utf8.utf8Lossy_wellFormed bs)⟩

/-- `WellFormed` is neither empty nor everything: "aé€" is well-formed, the overlong `C0 80`
and the surrogate `ED A0 80` are not -/
example :
    Proofs.C01Utf8.WellFormed [0x61, 0xC3, 0xA9, 0xE2, 0x82, 0xAC] ∧
    ¬ Proofs.C01Utf8.WellFormed [0xC0, 0x80] ∧ ¬ Proofs.C01Utf8.WellFormed [0xED, 0xA0, 0x80] := by
  refine ⟨.one _ _ (by decide) (.two _ _ _ (by decide) (by decide)
      (.three _ _ _ _ (by decide) (by decide) (by decide) .nil)), ?_, ?_⟩
  · intro h
    have := Proofs.C01Utf8.utf8Lossy_of_wellFormed _ h
    revert this; decide +kernel
  · intro h
    have := Proofs.C01Utf8.utf8Lossy_of_wellFormed _ h
    revert this; decide +kernel

/-- **str_value_string_total**: decoding adds no failure and no device access — for every
port, address, length, device and device image, `value()` as a `String` succeeds exactly when
the byte-level `value()` does (same error, same panic, same device afterwards), and then it
is the lossy decoding of the bytes before the first NUL. -/
theorem str_value_string_total (port : Port) (address length : Int) (d : Dev) :
    (∀ pre d', StringReg.value port address length d = (.ok pre, d') →
      StringReg.valueString port address length d = (.ok (utf8Lossy pre), d')) ∧
    (∀ er d', StringReg.value port address length d = (.err er, d') →
      StringReg.valueString port address length d = (.err er, d')) ∧
    (∀ d', StringReg.value port address length d = (.panic, d') →
      StringReg.valueString port address length d = (.panic, d')) := by
  unfold StringReg.valueString
  refine ⟨?_, ?_, ?_⟩ <;> intros <;> simp [*]

/-- **str_value_string_any_image**: on a plain port with a device that answers, for EVERY byte
image held by the device (valid UTF-8 or not), `value()` succeeds: exactly one read of
`[address, address+n)`, the result is the lossy decoding of the bytes before the first NUL,
memory unchanged.  No panic, no error. -/
theorem str_value_string_any_image (port : Port) (hp : port.hasChunkId = false) (address : Int)
    (n : Nat) (hlt : n < 2 ^ 63) (d : Dev) (hd : d.refuse d.attempts = false) :
    StringReg.valueString port address n d =
      (.ok (utf8Lossy (cstrPrefix (d.mem.readRange address n))), afterRead d address n) := by
  unfold StringReg.valueString StringReg.value
  rcases withRead_cases port address n d (fun data => .ok (cstrPrefix data)) with
    ⟨_, h⟩ | ⟨_, h⟩ | ⟨_, h⟩ | ⟨h, _⟩
  · rw [asUsize_nat n hlt] at h; exact absurd hlt h
  · rw [hp] at h; cases h
  · rw [hd] at h; cases h
  · rw [h, asUsize_nat n hlt]

/-- **str_value_string_ascii**: whenever the bytes before the first NUL are ASCII — in
particular after every successful `set_value` (`str_roundtrip`) — the returned `String` is
exactly those bytes. -/
theorem str_value_string_ascii (port : Port) (address length : Int) (d d' : Dev) (pre : Bytes)
    (h : StringReg.value port address length d = (.ok pre, d')) (ha : ∀ b ∈ pre, b < 0x80) :
    StringReg.valueString port address length d = (.ok pre, d') := by
  rw [(str_value_string_total port address length d).1 pre d' h, lossy_ascii_identity pre ha]

/-- **str_string_roundtrip**: `str_roundtrip` at the `String` level: after `set_value(s)` of
a representable string, `value()` returns the `String` `s`. -/
theorem str_string_roundtrip (port : Port) (hp : port.hasChunkId = false) (address : Int) (n : Nat)
    (hlt : n < 2 ^ 63) (value : Bytes) (hrep : Representable n value) (d : Dev) (hd : d.Reliable) :
    ∃ d1 d2, StringReg.setValue port address n value d = (.ok (), d1) ∧
      StringReg.valueString port address n d1 = (.ok value, d2) ∧
      d2.log = d.log ++ [⟨.write, address, n, strImage n value⟩, ⟨.read, address, n, strImage n value⟩] := by
  obtain ⟨d1, d2, h1, ha1, h2, ha2, _⟩ := str_roundtrip port hp address n hlt value hrep d hd
  refine ⟨d1, d2, h1, ?_, ?_⟩
  · exact str_value_string_ascii port address n d1 d2 value h2 (fun b hb => (hrep.1 b hb).1)
  · rw [ha2.1, ha1.1, List.append_assoc]; rfl

/-- the decoder on the classical cases: valid 2/3/4-byte sequences pass; a lone continuation,
an overlong `C0 80`, a surrogate `ED A0 80` (three subparts), a truncated `E2 82` (one
subpart), `F4 90 80 80` (above U+10FFFF: four subparts), `F0 9F 98` cut by an ASCII byte -/
example :
    utf8Lossy [0x61, 0xC3, 0xA9, 0xE2, 0x82, 0xAC, 0xF0, 0x9F, 0x98, 0x80] =
      [0x61, 0xC3, 0xA9, 0xE2, 0x82, 0xAC, 0xF0, 0x9F, 0x98, 0x80] ∧
    utf8Lossy [0x80] = [0xEF, 0xBF, 0xBD] ∧
    utf8Lossy [0xC0, 0x80] = [0xEF, 0xBF, 0xBD, 0xEF, 0xBF, 0xBD] ∧
    utf8Lossy [0xED, 0xA0, 0x80] = [0xEF, 0xBF, 0xBD, 0xEF, 0xBF, 0xBD, 0xEF, 0xBF, 0xBD] ∧
    utf8Lossy [0xE2, 0x82] = [0xEF, 0xBF, 0xBD] ∧
    utf8Lossy [0xF4, 0x90, 0x80, 0x80] =
      [0xEF, 0xBF, 0xBD, 0xEF, 0xBF, 0xBD, 0xEF, 0xBF, 0xBD, 0xEF, 0xBF, 0xBD] ∧
    utf8Lossy [0xF0, 0x9F, 0x98, 0x41] = [0xEF, 0xBF, 0xBD, 0x41] := by
  decide +kernel

end CamVerif.C01
