/-
C09 — Command packets serialize to the exact U3V wire layout.

Property theorems only.  Everything is quantified over all addresses (u64), read
lengths (u16), data slices, entry lists, request ids (u16), both build profiles and
every sink capacity; nothing is bounded.  Helper lemmas: `Proofs/C09.lean`.
-/
import CamVerif.Proofs.C09
import CamVerif.Proofs.C09Growth
import CamVerif.Proofs.C08Encode
import CamVerif.Gen.CmdConsts
import CamVerif.Proofs.C09GenTie
namespace CamVerif.C09
open CamVerif CamVerif.Cmd
open CamVerif.Spec.GenCP (decodeCmd CmdFields CmdBody slice uintAt)

/-! ## Which commands exist: exactly those the public constructors return -/

/-- `ReadMem::new(address: u64, read_length: u16)` — the Rust types are the only constraint. -/
def ReadMem.Typed (r : ReadMem) : Prop := r.address < 2 ^ 64 ∧ r.readLength < 2 ^ 16

/-- A `WriteMem` value returned by `WriteMem::new(address: u64, data)`. -/
def WriteMem.Built (w : WriteMem) : Prop :=
  w.address < 2 ^ 64 ∧ WriteMem.new w.address w.data = .ok w

/-- Commands obtainable through the public constructors (profile `p`). -/
inductive Constructible (p : Profile) : Cmd → Prop where
  | readMem (r : ReadMem) : ReadMem.Typed r → Constructible p (.readMem r)
  | writeMem (w : WriteMem) : WriteMem.Built w → Constructible p (.writeMem w)
  | readMemStacked (es : List ReadMem) (s : ReadMemStacked) :
      (∀ e ∈ es, ReadMem.Typed e) → ReadMemStacked.new es = .ok s →
      Constructible p (.readMemStacked s)
  | writeMemStacked (ws : List WriteMem) (s : WriteMemStacked) :
      (∀ w ∈ ws, WriteMem.Built w) → WriteMemStacked.new p ws = .ok s →
      Constructible p (.writeMemStacked s)

/-- What the caller asked for, in the vocabulary of the independent decoder. -/
def body : Cmd → CmdBody
  | .readMem r => .readMem r.address r.readLength
  | .writeMem w => .writeMem w.address w.data
  | .readMemStacked s => .readMemStacked (s.entries.map fun e => (e.address, e.readLength))
  | .writeMemStacked s => .writeMemStacked (s.entries.map fun w => (w.address, w.data))

/-- Expected decoding of `c.finalize(id)`: request id, the SCD length the layout
prescribes for the body, and the body. -/
def fields (c : Cmd) (id : Nat) : CmdFields :=
  ⟨id, Spec.GenCP.scdLenOf (body c), body c⟩

/-! ## Constructors refuse instead of truncating -/

/-- **ctor_refuses (WriteMem)**: `WriteMem::new` never panics, is `Err` iff
`|data| + 8 > 65535`, and otherwise stores the data and both lengths untruncated. -/
theorem ctor_refuses_writeMem (a : Nat) (d : Bytes) :
    (WriteMem.new a d = .err .invalidPacket ↔ U16_MAX < d.length + 8) ∧
    (d.length + 8 ≤ U16_MAX → WriteMem.new a d = .ok ⟨a, d, d.length, d.length + 8⟩) ∧
    WriteMem.new a d ≠ .panic := by
  simp only [WriteMem.new, intoScdLen, U16_MAX]
  by_cases h1 : d.length ≤ 65535
  · by_cases h2 : d.length + 8 ≤ 65535
    · simp [h1, h2] <;> omega
    · simp [h1, h2] <;> omega
  · simp [h1] <;> omega

private theorem built_facts {w : WriteMem} (h : WriteMem.Built w) :
    w.address < 2 ^ 64 ∧ w.dataLen = w.data.length ∧ w.len = w.data.length + 8 ∧
      w.data.length + 8 ≤ U16_MAX := by
  obtain ⟨ha, hn⟩ := h
  have hc := ctor_refuses_writeMem w.address w.data
  by_cases hle : w.data.length + 8 ≤ U16_MAX
  · have := hc.2.1 hle
    rw [this] at hn
    injection hn with hn
    refine ⟨ha, ?_, ?_, hle⟩
    · rw [← hn]
    · rw [← hn]
  · have := hc.1.2 (by omega)
    rw [this] at hn
    cases hn

private theorem wsum_eq {ws : List WriteMem} (h : ∀ w ∈ ws, WriteMem.Built w) :
    wsum ws = ((ws.map fun w => (w.address, w.data)).map fun e => 12 + e.2.length).sum := by
  induction ws with
  | nil => rfl
  | cons w ws ih =>
    have hw := built_facts (h w (List.mem_cons_self ..))
    simp only [wsum, List.map_cons, List.sum_cons, ← ih (fun x hx => h x (List.mem_cons_of_mem _ hx)),
      hw.2.1]

private theorem ctor_rms_aux (es : List ReadMem) :
    (ReadMemStacked.new es = .err .invalidPacket ↔
      (U16_MAX < 12 * es.length ∨ U16_MAX < rsum es)) ∧
    (12 * es.length ≤ U16_MAX → rsum es ≤ U16_MAX →
      ReadMemStacked.new es = .ok ⟨es, 12 * es.length, rsum es⟩) ∧
    ReadMemStacked.new es ≠ .panic := by
  simp only [ReadMemStacked.new, foldl_len12, Nat.zero_add, intoScdLen]
  by_cases h1 : 12 * es.length ≤ U16_MAX
  · by_cases h2 : rsum es ≤ U16_MAX
    · have := ackLenFold_ok es 0 (by omega)
      simp only [Nat.zero_add] at this
      simp only [U16_MAX] at h1 h2 ⊢
      simp [h1, this] <;> omega
    · have := ackLenFold_err es 0 (by omega) (by simp)
      simp only [U16_MAX] at h1 h2 ⊢
      simp [h1, this] <;> omega
  · simp only [U16_MAX] at h1 ⊢
    simp [h1] <;> omega

private theorem ctor_wms_aux (p : Profile) (ws : List WriteMem) :
    (WriteMemStacked.new p ws = .err .invalidPacket ↔ U16_MAX < wsum ws) ∧
    (wsum ws ≤ U16_MAX → WriteMemStacked.new p ws = .ok ⟨ws, wsum ws, 4 * ws.length⟩) ∧
    WriteMemStacked.new p ws ≠ .panic := by
  simp only [WriteMemStacked.new, foldl_wlen, Nat.zero_add, intoScdLen]
  by_cases h1 : wsum ws ≤ U16_MAX
  · have hge := wsum_ge ws
    simp only [U16_MAX] at h1
    have hmod : ws.length % 2 ^ 16 = ws.length := Nat.mod_eq_of_lt (by omega)
    have hmul : (mulW p 16 ws.length 4 : R Nat) = .ok (ws.length * 4) := by
      simp only [mulW]; rw [if_pos (by omega)]
    simp [h1, hmod, hmul] <;> omega
  · simp only [U16_MAX] at h1 ⊢
    simp [h1] <;> omega

private theorem rsum_list (es : List ReadMem) : rsum es = (es.map (·.readLength)).sum := by
  induction es with
  | nil => rfl
  | cons e es ih => simp [rsum, ih]

private theorem wsum_list {ws : List WriteMem} (h : ∀ w ∈ ws, WriteMem.Built w) :
    wsum ws = (ws.map fun w => 12 + w.data.length).sum := by
  induction ws with
  | nil => rfl
  | cons w ws ih =>
    have hw := built_facts (h w (List.mem_cons_self ..))
    simp only [wsum, List.map_cons, List.sum_cons, ← ih (fun x hx => h x (List.mem_cons_of_mem _ hx)),
      hw.2.1]

/-- **ctor_refuses (ReadMemStacked)**: never panics; `Err` iff the SCD length
`12·n` or the total read length (the acknowledge SCD length) exceeds 65535;
otherwise all entries and both totals are stored untruncated. -/
theorem ctor_refuses_readMemStacked (es : List ReadMem) :
    (ReadMemStacked.new es = .err .invalidPacket ↔
      (U16_MAX < 12 * es.length ∨ U16_MAX < (es.map (·.readLength)).sum)) ∧
    (12 * es.length ≤ U16_MAX → (es.map (·.readLength)).sum ≤ U16_MAX →
      ReadMemStacked.new es = .ok ⟨es, 12 * es.length, (es.map (·.readLength)).sum⟩) ∧
    ReadMemStacked.new es ≠ .panic := by
  rw [← rsum_list]; exact ctor_rms_aux es

/-- **ctor_refuses (WriteMemStacked)**: in both build profiles the constructor never
panics (the `entries.len() as u16 * 4` product cannot overflow once the length check
passed); it is `Err` iff `Σ (12 + |dataᵢ|) > 65535`; otherwise entries and totals are
stored untruncated and the acknowledge SCD length is `4·n`. -/
theorem ctor_refuses_writeMemStacked (p : Profile) (ws : List WriteMem)
    (hb : ∀ w ∈ ws, WriteMem.Built w) :
    (WriteMemStacked.new p ws = .err .invalidPacket ↔
      U16_MAX < (ws.map fun w => 12 + w.data.length).sum) ∧
    ((ws.map fun w => 12 + w.data.length).sum ≤ U16_MAX →
      WriteMemStacked.new p ws =
        .ok ⟨ws, (ws.map fun w => 12 + w.data.length).sum, 4 * ws.length⟩) ∧
    WriteMemStacked.new p ws ≠ .panic := by
  rw [← wsum_list hb]; exact ctor_wms_aux p ws

/-! ## Facts every constructible command satisfies -/

private theorem scdLen_facts {p : Profile} {c : Cmd} (h : Constructible p c) :
    c.scdLen = Spec.GenCP.scdLenOf (body c) ∧ c.scdLen ≤ U16_MAX ∧
      c.scdBytes.length = c.scdLen := by
  cases h with
  | readMem r hr =>
    simp [Cmd.scdLen, body, Spec.GenCP.scdLenOf, Cmd.scdBytes, readScd_length, U16_MAX]
  | writeMem w hw =>
    obtain ⟨_, _, hl, hle⟩ := built_facts hw
    simp only [Cmd.scdLen, body, Spec.GenCP.scdLenOf, Cmd.scdBytes, List.length_append,
      toLE_length, hl]
    omega
  | readMemStacked es s ht hn =>
    have hc := ctor_rms_aux es
    by_cases h1 : 12 * es.length ≤ U16_MAX ∧ rsum es ≤ U16_MAX
    · rw [hc.2.1 h1.1 h1.2] at hn
      injection hn with hn
      subst hn
      simp only [Cmd.scdLen, body, Spec.GenCP.scdLenOf, Cmd.scdBytes, readFlat_length,
        List.length_map]
      exact ⟨trivial, h1.1, trivial⟩
    · have : ReadMemStacked.new es = .err .invalidPacket := hc.1.2 (by omega)
      rw [this] at hn; cases hn
  | writeMemStacked ws s hb hn =>
    have hc := ctor_wms_aux p ws
    by_cases h1 : wsum ws ≤ U16_MAX
    · rw [hc.2.1 h1] at hn
      injection hn with hn
      subst hn
      simp only [Cmd.scdLen, body, Spec.GenCP.scdLenOf, Cmd.scdBytes]
      refine ⟨wsum_eq hb, h1, ?_⟩
      clear hc h1
      induction ws with
      | nil => rfl
      | cons w ws ih =>
        have hw := built_facts (hb w (List.mem_cons_self ..))
        simp only [List.map_cons, List.flatten_cons, List.length_append, writeStacked_length,
          wsum, ih (fun x hx => hb x (List.mem_cons_of_mem _ hx)), hw.2.1]
    · have : WriteMemStacked.new p ws = .err .invalidPacket := hc.1.2 (by omega)
      rw [this] at hn; cases hn

/-! ## Layout -/

/-- **decode_serialize**: for every constructible command (all four kinds, any number
of stacked entries) and every request id, the independent offset-based decoder
recovers from the serialized bytes exactly: magic, REQUEST_ACK flag, the command id of
the kind, the SCD length, the request id and the little-endian SCD fields. -/
theorem decode_serialize (p : Profile) (c : Cmd) (id : Nat)
    (hc : Constructible p c) (hid : id < 2 ^ 16) :
    decodeCmd (c.serialize id) = some (fields c id) := by
  obtain ⟨hlen, hle, hbytes⟩ := scdLen_facts hc
  simp only [U16_MAX] at hle
  have hmod : c.scdLen % 65536 = c.scdLen := Nat.mod_eq_of_lt (by omega)
  have hidm : id % 65536 = id := Nat.mod_eq_of_lt hid
  have hL : (hdr c id ++ c.scdBytes).length = 12 + c.scdLen := by
    simp [hbytes]
  rw [serialize_eq]
  unfold decodeCmd
  simp only [hdr_magic, hdr_flag, hdr_kind, hdr_scdLen, hdr_id, hL, hmod, hidm,
    Spec.GenCP.CMD_MAGIC, Spec.GenCP.FLAG_REQUEST_ACK, fields, ← hlen]
  cases hc with
  | readMem r hr =>
    obtain ⟨ha, hl⟩ := hr
    have h20 : uintAt (hdr (.readMem r) id ++ (Cmd.readMem r).scdBytes) 20 2 = 0 := by
      rw [uintAt_skip _ _ _ _ (by simp)]
      simp [Cmd.scdBytes, ReadMem.scdBytes, uintAt_skip, uintAt_here]
    have h12 : uintAt (hdr (.readMem r) id ++ (Cmd.readMem r).scdBytes) 12 8 = r.address := by
      rw [uintAt_skip _ _ _ _ (by simp)]
      simp [Cmd.scdBytes, ReadMem.scdBytes, uintAt_here]
      exact ha
    have h22 : uintAt (hdr (.readMem r) id ++ (Cmd.readMem r).scdBytes) 22 2 = r.readLength := by
      rw [uintAt_skip _ _ _ _ (by simp)]
      simp [Cmd.scdBytes, ReadMem.scdBytes, uintAt_skip, uintAt_all]
      exact hl
    simp [Cmd.kindId, Cmd.scdLen, h20, h12, h22, body]
  | writeMem w hw =>
    obtain ⟨ha, hdl, hl, hle'⟩ := built_facts hw
    have h12 : uintAt (hdr (.writeMem w) id ++ (Cmd.writeMem w).scdBytes) 12 8 = w.address := by
      rw [uintAt_skip _ _ _ _ (by simp)]
      simp [Cmd.scdBytes, uintAt_here]
      exact ha
    have h20 : slice (hdr (.writeMem w) id ++ (Cmd.writeMem w).scdBytes) 20 w.data.length =
        w.data := by
      rw [slice_skip _ _ _ _ (by simp)]
      simp only [Cmd.scdBytes, hdr_length]
      rw [slice_skip _ _ _ _ (by simp)]
      simp only [toLE_length]
      exact slice_all _ _ rfl
    simp [Cmd.kindId, Cmd.scdLen, h12, h20, body, hl]
  | readMemStacked es s ht hn =>
    have hcr := ctor_rms_aux es
    by_cases h1 : 12 * es.length ≤ U16_MAX ∧ rsum es ≤ U16_MAX
    · rw [hcr.2.1 h1.1 h1.2] at hn
      injection hn with hn
      subst hn
      have hd := readEntriesAt_flat (hdr (.readMemStacked ⟨es, 12 * es.length, rsum es⟩) id) []
        es 12 (by simp) ht
      simp only [List.append_nil] at hd
      simp [Cmd.kindId, Cmd.scdLen, Cmd.scdBytes, hd, body]
    · have : ReadMemStacked.new es = .err .invalidPacket := hcr.1.2 (by omega)
      rw [this] at hn; cases hn
  | writeMemStacked ws s hb hn =>
    have hcr := ctor_wms_aux p ws
    by_cases h1 : wsum ws ≤ U16_MAX
    · rw [hcr.2.1 h1] at hn
      injection hn with hn
      subst hn
      have hge := wsum_ge ws
      have hd := writeEntriesAt_flat (hdr (.writeMemStacked ⟨ws, wsum ws, 4 * ws.length⟩) id)
        ws 12 (wsum ws / 12 + 1) (by simp) (by omega)
        (fun w hw => by
          have := built_facts (hb w hw)
          simp only [U16_MAX] at this
          exact ⟨this.1, this.2.1, by omega⟩)
      simp only [Cmd.scdBytes, Cmd.scdLen] at hL
      rw [hL] at hd
      simp [Cmd.kindId, Cmd.scdLen, Cmd.scdBytes, hd, body]
    · have : WriteMemStacked.new p ws = .err .invalidPacket := hcr.1.2 (by omega)
      rw [this] at hn; cases hn

/-- **serialize_determines_fields**: the wire bytes determine request id, SCD length and
every SCD field — two constructible commands with the same bytes carry the same request. -/
theorem serialize_determines_fields (p : Profile) (c₁ c₂ : Cmd) (id₁ id₂ : Nat)
    (h₁ : Constructible p c₁) (h₂ : Constructible p c₂) (hid₁ : id₁ < 2 ^ 16) (hid₂ : id₂ < 2 ^ 16)
    (h : c₁.serialize id₁ = c₂.serialize id₂) : fields c₁ id₁ = fields c₂ id₂ := by
  have e₁ := decode_serialize p c₁ id₁ h₁ hid₁
  rw [h, decode_serialize p c₂ id₂ h₂ hid₂] at e₁
  injection e₁ with e₁
  exact e₁.symm

/-- **len_agree**: the number of serialized bytes equals the reported `cmd_len()`,
which is 12 + the `scd_len` stored in the packet (bytes 8..10), which is the SCD
length the layout prescribes and fits 16 bits. -/
theorem len_agree (p : Profile) (c : Cmd) (id : Nat) (hc : Constructible p c) :
    (c.serialize id).length = c.cmdLen ∧
    c.cmdLen = 12 + uintAt (c.serialize id) 8 2 ∧
    uintAt (c.serialize id) 8 2 = Spec.GenCP.scdLenOf (body c) ∧
    c.cmdLen ≤ 12 + U16_MAX := by
  obtain ⟨hlen, hle, hbytes⟩ := scdLen_facts hc
  simp only [U16_MAX] at hle
  have hmod : c.scdLen % 65536 = c.scdLen := Nat.mod_eq_of_lt (by omega)
  rw [serialize_eq, hdr_scdLen, hmod]
  simp only [List.length_append, hdr_length, hbytes, Cmd.cmdLen, CCD_LEN, U16_MAX, ← hlen]
  and_intros <;> first | trivial | omega

/-- **ack_bound**: `maximum_ack_len()` is at least the size (12-byte header + SCD) of
every acknowledge a conforming device can send for the command: the regular
acknowledge of the command kind, a PendingAck (4-byte SCD) and an error acknowledge
without SCD; and it is exactly the larger of the first two. -/
theorem ack_bound (p : Profile) (c : Cmd) (hc : Constructible p c) :
    Spec.GenCP.ACK_HEADER_LEN + Spec.GenCP.ackScdLen (body c) ≤ c.maximumAckLen ∧
    Spec.GenCP.ACK_HEADER_LEN + Spec.GenCP.PENDING_ACK_SCD_LEN ≤ c.maximumAckLen ∧
    Spec.GenCP.ACK_HEADER_LEN + 0 ≤ c.maximumAckLen ∧
    c.maximumAckLen = Spec.GenCP.ACK_HEADER_LEN +
      max (Spec.GenCP.ackScdLen (body c)) Spec.GenCP.PENDING_ACK_SCD_LEN := by
  have hack : c.ackScdLen = Spec.GenCP.ackScdLen (body c) := by
    cases hc with
    | readMem r hr => rfl
    | writeMem w hw => rfl
    | readMemStacked es s ht hn =>
      have hcr := ctor_rms_aux es
      by_cases h1 : 12 * es.length ≤ U16_MAX ∧ rsum es ≤ U16_MAX
      · rw [hcr.2.1 h1.1 h1.2] at hn
        injection hn with hn
        subst hn
        simp only [Cmd.ackScdLen, body, Spec.GenCP.ackScdLen]
        exact rsum_eq es
      · have : ReadMemStacked.new es = .err .invalidPacket := hcr.1.2 (by omega)
        rw [this] at hn; cases hn
    | writeMemStacked ws s hb hn =>
      have hcr := ctor_wms_aux p ws
      by_cases h1 : wsum ws ≤ U16_MAX
      · rw [hcr.2.1 h1] at hn
        injection hn with hn
        subst hn
        simp [Cmd.ackScdLen, body, Spec.GenCP.ackScdLen]
      · have : WriteMemStacked.new p ws = .err .invalidPacket := hcr.1.2 (by omega)
        rw [this] at hn; cases hn
  simp only [Cmd.maximumAckLen, ACK_HEADER_LENGTH, MINIMUM_ACK_SCD_LENGTH, hack,
    Spec.GenCP.ACK_HEADER_LEN, Spec.GenCP.PENDING_ACK_SCD_LEN]
  and_intros <;> first | trivial | omega

/-! ## Sinks -/

/-- **sink (fixed-size slice)**: serializing into a `&mut [u8]` of `cap` bytes never
panics; when it returns `Ok` the bytes written are exactly the first `cap` bytes of the
`Vec` serialization (nothing else is ever written); when the slice has at least
`cmd_len` bytes — in particular exactly `cmd_len` — it returns `Ok` and the bytes
written are exactly `serialize c id`.  (`Cmd.serialize` *is* the growable-`Vec` sink:
every write appends.)  Holds for every command value, constructible or not. -/
theorem sink_exact (c : Cmd) (id cap : Nat) :
    c.serializeSink id cap ≠ .panic ∧
    (∀ out, c.serializeSink id cap = .ok out → out = (c.serialize id).take cap) ∧
    ((c.serialize id).length ≤ cap → c.serializeSink id cap = .ok (c.serialize id)) ∧
    (∀ e, c.serializeSink id cap = .err e → e = .bufferIo ∧ cap < (c.serialize id).length) := by
  rw [serializeSink_eq, serialize_eq]
  rcases serializeScdSink_take c cap (hdr c id) with h | ⟨h, hlt⟩
  · rw [h]
    refine ⟨by simp, ?_, ?_, ?_⟩
    · intro out ho
      simp only [Res.bind_ok, Res.pure_eq, Res.ok.injEq] at ho
      exact ho.symm
    · intro hcap
      simp only [Res.bind_ok, Res.pure_eq]
      rw [List.take_of_length_le hcap]
    · intro e he; simp at he
  · rw [h]
    refine ⟨by simp, ?_, ?_, ?_⟩
    · intro out ho; simp at ho
    · intro hcap; omega
    · intro e he
      simp only [Res.bind_err, Res.err.injEq] at he
      exact ⟨he.symm, hlt⟩

/-- **sink (exact size)**: a slice of exactly `cmd_len()` bytes receives exactly the
bytes the `Vec` receives. -/
theorem sink_cmdLen (p : Profile) (c : Cmd) (id : Nat) (hc : Constructible p c) :
    c.serializeSink id c.cmdLen = .ok (c.serialize id) := by
  have h := (len_agree p c id hc).1
  exact (sink_exact c id c.cmdLen).2.2.1 (by omega)

/-! ## Tie (G): constants regenerated from `cmd.rs` on every run -/

/-- **gen_consts_agree**: the magic, REQUEST_ACK flag, the four command ids, the header
and minimum acknowledge lengths that `tools/gen_cmd_consts.py` re-reads from the current
`cmd.rs` are the ones the model serializes *and* the ones the reference layout
(`Spec/GenCP.lean`) prescribes.  A source edit of any of them fails this obligation. -/
theorem gen_consts_agree :
    PREFIX_MAGIC = Gen.CmdConsts.PREFIX_MAGIC ∧
    Gen.CmdConsts.PREFIX_MAGIC = Spec.GenCP.CMD_MAGIC ∧
    Cmd.FLAG_REQUEST_ACK = Gen.CmdConsts.FLAG_REQUEST_ACK ∧
    Gen.CmdConsts.FLAG_REQUEST_ACK = Spec.GenCP.FLAG_REQUEST_ACK ∧
    (Cmd.readMem ⟨0, 0⟩).kindId = Gen.CmdConsts.KIND_ReadMem ∧
    (Cmd.writeMem ⟨0, [], 0, 8⟩).kindId = Gen.CmdConsts.KIND_WriteMem ∧
    (Cmd.readMemStacked ⟨[], 0, 0⟩).kindId = Gen.CmdConsts.KIND_ReadMemStacked ∧
    (Cmd.writeMemStacked ⟨[], 0, 0⟩).kindId = Gen.CmdConsts.KIND_WriteMemStacked ∧
    [Gen.CmdConsts.KIND_ReadMem, Gen.CmdConsts.KIND_WriteMem, Gen.CmdConsts.KIND_ReadMemStacked,
      Gen.CmdConsts.KIND_WriteMemStacked] = [0x0800, 0x0802, 0x0806, 0x0808] ∧
    ACK_HEADER_LENGTH = Gen.CmdConsts.ACK_HEADER_LENGTH ∧
    Gen.CmdConsts.ACK_HEADER_LENGTH = Spec.GenCP.ACK_HEADER_LEN ∧
    MINIMUM_ACK_SCD_LENGTH = Gen.CmdConsts.MINIMUM_ACK_SCD_LENGTH ∧
    Gen.CmdConsts.MINIMUM_ACK_SCD_LENGTH = Spec.GenCP.PENDING_ACK_SCD_LEN ∧
    CCD_LEN = Gen.CmdConsts.CCD_LEN ∧ HEADER_LEN = Gen.CmdConsts.HEADER_LEN ∧
    (Cmd.readMem ⟨0, 0⟩).scdLen = Gen.CmdConsts.READMEM_SCD_LEN ∧
    (Cmd.writeMem ⟨0, [], 0, 8⟩).ackScdLen = Gen.CmdConsts.WRITEMEM_ACK_SCD_LEN := by decide

/-! ## Non-vacuity: concrete constructible commands of every kind, their bytes, and
the decoder's answer; a refused construction at the 16-bit boundary. -/

example : Constructible .dev (.readMem ⟨0x0004, 64⟩) := .readMem _ ⟨by decide, by decide⟩

example : (Cmd.readMem ⟨0x0004, 64⟩).serialize 1 =
    [0x55, 0x33, 0x56, 0x43, 0x00, 0x40, 0x00, 0x08, 12, 0, 1, 0,
     4, 0, 0, 0, 0, 0, 0, 0, 0, 0, 64, 0] := by decide

example : decodeCmd ((Cmd.readMem ⟨0x0004, 64⟩).serialize 1) =
    some ⟨1, 12, .readMem 4 64⟩ := by decide

example : Constructible .dev (.writeMem ⟨4, [1, 2, 3], 3, 11⟩) :=
  .writeMem _ ⟨by decide, by decide⟩

example : Constructible .release
    (.writeMemStacked ⟨[⟨4, [1, 2], 2, 10⟩, ⟨8, [], 0, 8⟩], 26, 8⟩) :=
  .writeMemStacked [⟨4, [1, 2], 2, 10⟩, ⟨8, [], 0, 8⟩] _
    (by intro w hw; simp at hw; rcases hw with rfl | rfl <;> exact ⟨by decide, by decide⟩)
    (by decide)

example : decodeCmd ((Cmd.writeMemStacked ⟨[⟨4, [1, 2], 2, 10⟩, ⟨8, [], 0, 8⟩], 26, 8⟩).serialize 7) =
    some ⟨7, 26, .writeMemStacked [(4, [1, 2]), (8, [])]⟩ := by decide

example : Constructible .dev (.readMemStacked ⟨[⟨4, 4⟩, ⟨8, 8⟩], 24, 12⟩) :=
  .readMemStacked [⟨4, 4⟩, ⟨8, 8⟩] _
    (by intro e he; simp at he; rcases he with rfl | rfl <;> exact ⟨by decide, by decide⟩) (by decide)

example : ReadMemStacked.new [⟨0, 65535⟩, ⟨8, 1⟩] = .err .invalidPacket := by decide

example : (Cmd.readMem ⟨0x0004, 64⟩).serializeSink 1 24 =
    .ok ((Cmd.readMem ⟨0x0004, 64⟩).serialize 1) := by decide

/-! ## Growth round: (b) entry counts of any size, (a) command → acknowledge round trip -/

/-- **stacked_count_refused** (the C09-r3-seed1 scenario, corollary of `ctor_refuses_*Stacked`,
which hold for lists of ANY length): a stacked read or write with 5462 or more entries — in
particular 65536 + k entries for every k, whose count is small again modulo 2^16 — is refused
at construction in both build profiles, whatever the entries are (zero-length reads, empty
data, …).  The entry count is never narrowed. -/
theorem stacked_count_refused (p : Profile) :
    (∀ es : List ReadMem, 5462 ≤ es.length → ReadMemStacked.new es = .err .invalidPacket) ∧
    (∀ ws : List WriteMem, 5462 ≤ ws.length → WriteMemStacked.new p ws = .err .invalidPacket) ∧
    (∀ (es : List ReadMem) (k : Nat), es.length = 65536 + k →
      ReadMemStacked.new es = .err .invalidPacket) ∧
    (∀ (ws : List WriteMem) (k : Nat), ws.length = 65536 + k →
      WriteMemStacked.new p ws = .err .invalidPacket) :=
  ⟨rms_count_refused, wms_count_refused p,
   fun es k h => rms_count_refused es (by omega),
   fun ws k h => wms_count_refused p ws (by omega)⟩

/-- 65536 + 5 zero-length reads: the count modulo 2^16 is 5, the command is still refused -/
example : ReadMemStacked.new (List.replicate (65536 + 5) ⟨0x40, 0⟩) = .err .invalidPacket :=
  (stacked_count_refused .dev).2.2.1 _ 5 (List.length_replicate ..)

example : WriteMemStacked.new .release (List.replicate (65536 + 5) ⟨0x40, [], 0, 8⟩) =
    .err .invalidPacket :=
  (stacked_count_refused .release).2.2.2 _ 5 (List.length_replicate ..)

/-- acknowledge kind the decoder must report for a command -/
def ackKindOf : Cmd → Ack.ScdKind
  | .readMem _ => .readMem
  | .writeMem _ => .writeMem
  | .readMemStacked _ => .readMemStacked
  | .writeMemStacked _ => .writeMemStacked

/-- the device response fits the command: the bytes read have the requested (total) length;
writes carry no response data -/
def RespFits : Cmd → Bytes → Prop
  | .readMem r, resp => resp.length = r.readLength
  | .readMemStacked s, resp => resp.length = (s.entries.map (·.readLength)).sum
  | _, _ => True

/-- what the typed view of the command's kind must return -/
def ViewReturns (p : Profile) (pk : Ack.AckPacket) : Cmd → Bytes → Prop
  | .readMem _, resp => Ack.ReadMem.parse pk.rawScd pk.ccd = .ok resp
  | .writeMem w, _ => Ack.WriteMem.parse pk.rawScd pk.ccd = .ok w.data.length
  | .readMemStacked _, resp => Ack.ReadMemStacked.parse pk.rawScd pk.ccd = .ok resp
  | .writeMemStacked s, _ =>
    Ack.WriteMemStacked.parse p pk.rawScd pk.ccd = .ok (s.entries.map (·.data.length))

private theorem built_len {w : WriteMem} (h : WriteMem.Built w) : w.data.length < 2 ^ 16 := by
  have hc := ctor_refuses_writeMem w.address w.data
  by_cases hle : w.data.length + 8 ≤ U16_MAX
  · simp only [U16_MAX] at hle; omega
  · have := hc.1.2 (by omega)
    have h2 := h.2
    rw [this] at h2
    cases h2

private theorem sum12_ge (ws : List WriteMem) :
    12 * ws.length ≤ (ws.map fun w => 12 + w.data.length).sum := by
  induction ws with
  | nil => simp
  | cons w ws ih => simp only [List.map_cons, List.sum_cons, List.length_cons]; omega

private theorem ack_core (p : Profile) (cmdId id : Nat) (scd : Bytes) (kd : Spec.GenCPAck.AckKind)
    (hid : id < 2 ^ 16) (hcmd : cmdId < 2 ^ 16) (hlen : scd.length < 2 ^ 16)
    (hkd : Spec.GenCPAck.ackKindOfId cmdId = some kd) :
    (Spec.GenCPAck.encodeAck 0 cmdId id scd).length = 12 + scd.length ∧
    Ack.AckPacket.parse p (Spec.GenCPAck.encodeAck 0 cmdId id scd) =
      .ok ⟨⟨⟨0, .genCp .success⟩, C08.ofKind kd, id, scd.length⟩, 12, scd⟩ := by
  have h0 : (0 : Nat) < 2 ^ 16 := by decide
  refine ⟨(C08.encodeAck_fields 0 cmdId id scd h0 hcmd hid hlen).1, ?_⟩
  have := C08.ack_accepts_encoded_core p 0 cmdId id scd (.genCp .SUCCESS) kd h0 hcmd hid hlen
    (by decide) hkd
  rw [this]; rfl

/-- **ack_of_cmd_decodes** (C09 ∘ C08 round trip): for every command accepted by its
constructor, every request id and every device response that fits it, the conforming
acknowledge the reference builds (status SUCCESS, same request id, SCD = the bytes read /
`reserved | written length` / one such entry per stacked write) has exactly
`12 + ack_scd_len()` bytes, fits the receive buffer of `maximum_ack_len()` bytes (nothing is
truncated), is accepted by `AckPacket::parse` in both profiles with success status, the same
request id, `scd_len = ack_scd_len()` and the acknowledge kind of the command, and the typed
view of that kind returns exactly the response data / the written length / the list of
written lengths. -/
theorem ack_of_cmd_decodes (p : Profile) (c : Cmd) (id : Nat) (resp : Bytes)
    (hc : Constructible p c) (hid : id < 2 ^ 16) (hresp : RespFits c resp) :
    (conformingAck (body c) id resp).length = 12 + c.ackScdLen ∧
    (conformingAck (body c) id resp).length ≤ c.maximumAckLen ∧
    (conformingAck (body c) id resp).take c.maximumAckLen = conformingAck (body c) id resp ∧
    ∃ pk, Ack.AckPacket.parse p (conformingAck (body c) id resp) = .ok pk ∧
      pk.ccd.status = ⟨0, .genCp .success⟩ ∧ pk.ccd.status.isSuccess = true ∧
      pk.ccd.requestId = id ∧ pk.ccd.scdLen = c.ackScdLen ∧ pk.ccd.scdKind = ackKindOf c ∧
      pk.rawScd.length = c.ackScdLen ∧ ViewReturns p pk c resp := by
  -- it suffices to know the SCD length and the packet the decoder returns
  suffices h : (ackScdOf (body c) resp).length = c.ackScdLen ∧
      (ackScdOf (body c) resp).length < 2 ^ 16 ∧
      ∃ kd, Spec.GenCPAck.ackKindOfId (ackCommandId (body c)) = some kd ∧
        C08.ofKind kd = ackKindOf c ∧ ackCommandId (body c) < 2 ^ 16 ∧
        ViewReturns p ⟨⟨⟨0, .genCp .success⟩, C08.ofKind kd, id, (ackScdOf (body c) resp).length⟩,
          12, ackScdOf (body c) resp⟩ c resp by
    obtain ⟨hl, hlt, kd, hkd, hk, hcmd, hview⟩ := h
    obtain ⟨hlen, hparse⟩ := ack_core p (ackCommandId (body c)) id (ackScdOf (body c) resp) kd hid
      hcmd hlt hkd
    have hL : (conformingAck (body c) id resp).length = 12 + c.ackScdLen := by
      simp only [conformingAck]; rw [hlen, hl]
    have hmax : 12 + c.ackScdLen ≤ c.maximumAckLen := by
      simp only [Cmd.maximumAckLen, ACK_HEADER_LENGTH, MINIMUM_ACK_SCD_LENGTH]; omega
    refine ⟨hL, by omega, List.take_of_length_le (by omega), _, hparse, rfl, rfl, rfl, hl, hk,
      hl, hview⟩
  cases hc with
  | readMem r hr =>
    simp only [RespFits] at hresp
    refine ⟨by simp [ackScdOf, body, Cmd.ackScdLen, hresp], by
      simp only [ackScdOf, body]; rw [hresp]; exact hr.2, .readMem, (by show Spec.GenCPAck.ackKindOfId 0x0801 = _; decide), rfl,
      (by show (0x0801 : Nat) < 2 ^ 16; decide), ?_⟩
    simp only [ViewReturns, ackScdOf, body]
    exact ((C08.ack_views_accept_encoded_core p _).1 resp rfl).1
  | writeMem w hw =>
    have hv := built_len hw
    have hl4 : (Spec.GenCPAck.encodeValueScd w.data.length).length = 4 := by
      simp [Spec.GenCPAck.encodeValueScd]
    refine ⟨by simp only [ackScdOf, body, Cmd.ackScdLen, hl4], by
      simp only [ackScdOf, body, hl4]; decide, .writeMem, (by show Spec.GenCPAck.ackKindOfId 0x0803 = _; decide), rfl,
      (by show (0x0803 : Nat) < 2 ^ 16; decide), ?_⟩
    simp only [ViewReturns, ackScdOf, body]
    exact ((C08.ack_views_accept_encoded_core p _).2.1 w.data.length hv rfl).1
  | readMemStacked es s ht hn =>
    have hcr := ctor_refuses_readMemStacked es
    by_cases h1 : 12 * es.length ≤ U16_MAX ∧ (es.map (·.readLength)).sum ≤ U16_MAX
    · rw [hcr.2.1 h1.1 h1.2] at hn
      injection hn with hn
      subst hn
      simp only [RespFits] at hresp
      simp only [U16_MAX] at h1
      refine ⟨by simp [ackScdOf, body, Cmd.ackScdLen, hresp], by
        simp only [ackScdOf, body]; rw [hresp]; omega, .readMemStacked, (by show Spec.GenCPAck.ackKindOfId 0x0807 = _; decide), rfl,
        (by show (0x0807 : Nat) < 2 ^ 16; decide), ?_⟩
      simp only [ViewReturns, ackScdOf, body]
      exact ((C08.ack_views_accept_encoded_core p _).1 resp rfl).2
    · have : ReadMemStacked.new es = .err .invalidPacket := hcr.1.2 (by omega)
      rw [this] at hn; cases hn
  | writeMemStacked ws s hb hn =>
    have hcr := ctor_refuses_writeMemStacked p ws hb
    by_cases h1 : (ws.map fun w => 12 + w.data.length).sum ≤ U16_MAX
    · rw [hcr.2.1 h1] at hn
      injection hn with hn
      subst hn
      have hsum := sum12_ge ws
      simp only [U16_MAX] at h1
      have hls : ∀ l ∈ (ws.map fun w => w.data.length), l < 2 ^ 16 := by
        intro l hl
        obtain ⟨w, hw, rfl⟩ := List.mem_map.mp hl
        exact built_len (hb w hw)
      have hmap : ((ws.map fun w => (w.address, w.data)).map fun e => e.2.length) =
          ws.map fun w => w.data.length := by
        simp [List.map_map, Function.comp_def]
      have hlen : (Spec.GenCPAck.encodeStackedScd (ws.map fun w => w.data.length)).length =
          4 * ws.length := by
        rw [C08.encodeStackedScd_length, List.length_map]
      refine ⟨by simp only [ackScdOf, body, Cmd.ackScdLen, hmap, hlen], by
        simp only [ackScdOf, body, hmap, hlen]; omega, .writeMemStacked, (by show Spec.GenCPAck.ackKindOfId 0x0809 = _; decide), rfl,
        (by show (0x0809 : Nat) < 2 ^ 16; decide), ?_⟩
      simp only [ViewReturns, ackScdOf, body, hmap]
      exact (C08.ack_views_accept_encoded_core p _).2.2 _ hls rfl
    · have : WriteMemStacked.new p ws = .err .invalidPacket := hcr.1.2 (by omega)
      rw [this] at hn; cases hn

/-- **pending_ack_of_cmd_decodes**: whatever the command, a PendingAck (status SUCCESS, same
request id, SCD `reserved | timeout ms`) fits the `maximum_ack_len()` receive buffer, is
accepted with kind Pending, and the Pending view returns the timeout. -/
theorem pending_ack_of_cmd_decodes (p : Profile) (c : Cmd) (id t : Nat)
    (hid : id < 2 ^ 16) (ht : t < 2 ^ 16) :
    (Spec.GenCPAck.encodeAck 0 0x0805 id (Spec.GenCPAck.encodeValueScd t)).length = 16 ∧
    16 ≤ c.maximumAckLen ∧
    ∃ pk, Ack.AckPacket.parse p
        (Spec.GenCPAck.encodeAck 0 0x0805 id (Spec.GenCPAck.encodeValueScd t)) = .ok pk ∧
      pk.ccd.status.isSuccess = true ∧ pk.ccd.requestId = id ∧ pk.ccd.scdKind = .pending ∧
      Ack.Pending.parse pk.rawScd pk.ccd = .ok t := by
  have hl4 : (Spec.GenCPAck.encodeValueScd t).length = 4 := by
    simp [Spec.GenCPAck.encodeValueScd]
  obtain ⟨hlen, hparse⟩ := ack_core p 0x0805 id (Spec.GenCPAck.encodeValueScd t) .pending hid
    (by decide) (by rw [hl4]; decide) (by decide)
  refine ⟨by rw [hlen, hl4], ?_, _, hparse, rfl, rfl, rfl, ?_⟩
  · simp only [Cmd.maximumAckLen, ACK_HEADER_LENGTH, MINIMUM_ACK_SCD_LENGTH]; omega
  · exact ((C08.ack_views_accept_encoded_core p _).2.1 t ht rfl).2

/-- non-vacuity: `ReadMem(4, 3)` answered with 3 bytes, and a two-entry stacked write -/
example : Ack.AckPacket.parse .dev (conformingAck (body (.readMem ⟨4, 3⟩)) 7 [0xA, 0xB, 0xC]) =
    .ok ⟨⟨⟨0, .genCp .success⟩, .readMem, 7, 3⟩, 12, [0xA, 0xB, 0xC]⟩ := by decide

example : conformingAck (body (.writeMemStacked ⟨[⟨4, [1, 2], 2, 10⟩, ⟨8, [], 0, 8⟩], 26, 8⟩)) 7 [] =
    [0x55, 0x33, 0x56, 0x43, 0, 0, 0x09, 0x08, 8, 0, 7, 0, 0, 0, 2, 0, 0, 0, 0, 0] ∧
    Ack.WriteMemStacked.parse .dev [0, 0, 2, 0, 0, 0, 0, 0]
      ⟨⟨0, .genCp .success⟩, .writeMemStacked, 7, 8⟩ = .ok [2, 0] := by decide

/-! ## Tie by regeneration, function bodies (`rs2lean`, Gen/FnCmd, re-translated on every run)

The length functions the layout theorems above mention (`Cmd.cmdLen`, `Cmd.maximumAckLen`,
`Cmd.scdLen`, `Cmd.ackScdLen`, `HEADER_LEN`) are hand-written model functions; these theorems prove
that the Lean functions re-translated from the CURRENT Rust bodies are equal to them, for every
input and both build profiles — a changed body breaks a proof, not only the differential run. -/

/-- **gen_fn_tie_header_len**: `CommandPacket::header_len` (current source) `= HEADER_LEN`. -/
theorem gen_fn_tie_header_len : CamVerif.Proofs.C09GenTie.GenTieHeaderLen :=
  CamVerif.Proofs.C09GenTie.gen_tie_header_len

/-- **gen_fn_tie_cmd_len**: `CommandPacket::cmd_len` (current source), with the generic
`self.scd.scd_len()` abstracted to an arbitrary `u16`, is `4 + CCD_LEN + scd_len`, i.e.
`Cmd.cmdLen c` for every command `c` with a `u16` SCD length. -/
theorem gen_fn_tie_cmd_len : CamVerif.Proofs.C09GenTie.GenTieCmdLen :=
  CamVerif.Proofs.C09GenTie.gen_tie_cmd_len

/-- **gen_fn_tie_maximum_ack_len**: `CommandPacket::maximum_ack_len` (current source) is
`ACK_HEADER_LENGTH + max ack_scd_len 4`, i.e. `Cmd.maximumAckLen c`. -/
theorem gen_fn_tie_maximum_ack_len : CamVerif.Proofs.C09GenTie.GenTieMaximumAckLen :=
  CamVerif.Proofs.C09GenTie.gen_tie_maximum_ack_len

/-- **gen_fn_tie_scd_len**: `<ReadMem as CommandScd>::{scd_len, ack_scd_len}` and
`<WriteMem as CommandScd>::ack_scd_len` (current source) are `Cmd.scdLen` / `Cmd.ackScdLen`. -/
theorem gen_fn_tie_scd_len : CamVerif.Proofs.C09GenTie.GenTieScdLen :=
  CamVerif.Proofs.C09GenTie.gen_tie_scd_len

/-- non-vacuity: the tie instantiated on a real command -/
example : (CamVerif.Gen.FnCmd.CommandPacket.cmd_len (ε := Err) .dev
    (BitVec.ofNat 16 (Cmd.scdLen (.readMem ⟨4, 64⟩)))).map BitVec.toNat = .ok 24 :=
  gen_fn_tie_cmd_len.2 .dev (.readMem ⟨4, 64⟩) (by decide)

end CamVerif.C09
