/-
C12 — Streaming delivers intact frames in order, never stalls, and stops promptly.

Property theorems over the labelled transition system `CamVerif.Model.StreamLoop`.
Every statement quantifies over ALL stream parameters, ALL device scripts (packets and transfer
faults), ALL parse/build functions `A` and ALL schedules: `Reach P A script s` holds exactly for
the states at the end of an arbitrary sequence of enabled atomic steps of the loop, the receiver,
the controller and the environment (`Proofs.C12.run_of_reach / reach_of_run`).
-/
import CamVerif.Proofs.C12
namespace CamVerif.C12
open CamVerif CamVerif.StreamLoop

/-! ## Concrete instance used by the non-vacuity examples -/

/-- leader 4 bytes, trailer 4 bytes, one payload transfer of 2 bytes + final1 of 1 byte, cap 1. -/
def exP : Params := ⟨4, 4, 2, 1, 1, 0, 1, 5⟩
def exA : Assembler := fun _ _ _ read => .built ⟨read, 7⟩
def exScript : List Item :=
  [.data [1, 2, 3, 4], .data [10, 11], .data [12], .data [5, 6, 7, 8],
   .data [1, 2, 3, 4], .data [20, 21], .data [22], .data [5, 6, 7, 9]]
/-- one complete iteration up to `parse` -/
def exToParse : List Step :=
  [.checkCancel, .obtainAlloc, .submitOk, .submitOk, .submitOk, .submitOk, .pollOk, .pollOk, .pollOk, .pollOk]

/-! ## 6. recv_le_buf -/

/-- **recv_le_buf** (feeds C11's premise `recv ≤ |buf|`): in every reachable state about to parse,
`payload_len - last_buf_len` does not underflow and is at most `maximum_payload_size`, which is
exactly the length of the payload buffer; and every `Ok` payload ever enqueued was built with
`read_payload_size ≤ |payload buffer| = maximum_payload_size`. -/
theorem recv_le_buf (P : Params) (A : Assembler) (script : List Item) (s : State)
    (h : Reach P A script s) :
    (s.pc = .parse → ∃ l b, s.last = some l ∧ s.cur = some b ∧ l ≤ s.plen ∧
        s.plen - l ≤ P.maxPayload ∧ b.bytes.length = P.maxPayload) ∧
    (∀ m ∈ s.sentLog, m.read ≤ m.buf.bytes.length ∧ m.buf.bytes.length = P.maxPayload) := by
  obtain ⟨hp, hz⟩ := reach_wf h
  refine ⟨?_, ?_⟩
  · intro hpc
    simp only [PoolOK, hpc] at hp
    obtain ⟨_, hcur, _, l, hl, hle, hmax, _⟩ := hp
    cases hc : s.cur with
    | none => simp [hc] at hcur
    | some b => exact ⟨l, b, hl, rfl, hle, hmax, hz.cur b hc⟩
  · intro m hm
    obtain ⟨h1, h2⟩ := hz.sent m hm
    exact ⟨by omega, h2⟩

/-- non-vacuity: the state before `parse` is reachable with a non-zero `read` -/
example : ∃ s, Reach exP exA exScript s ∧ s.pc = .parse ∧ s.plen = 7 ∧ s.last = some 4 := by
  have h : (run exP exA exScript (init exP) exToParse).isSome = true := by decide
  obtain ⟨s, hs⟩ := Option.isSome_iff_exists.mp h
  refine ⟨s, reach_of_run Reach.init hs, ?_⟩
  have : (run exP exA exScript (init exP) exToParse).map (fun s => (s.pc, s.plen, s.last))
      = some (.parse, 7, some 4) := by decide
  rw [hs] at this
  simp only [Option.map_some, Option.some.injEq, Prod.mk.injEq] at this
  exact this

end CamVerif.C12
