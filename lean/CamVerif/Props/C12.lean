/-
C12 — Streaming delivers intact frames in order, never stalls, and stops promptly.

Property theorems over the labelled transition system `CamVerif.Model.StreamLoop`.
Every statement quantifies over ALL stream parameters, ALL device scripts (packets and transfer
faults), ALL parse/build functions `A` and ALL schedules: `Reach A P script s` holds exactly for
the states at the end of an arbitrary sequence of enabled atomic steps of the loop, the receiver,
the controller and the environment (`Proofs.C12.run_of_reach / reach_of_run`).
-/
import CamVerif.Proofs.C12
import CamVerif.Proofs.C12Order
import CamVerif.Proofs.C12Stop
import CamVerif.Proofs.C12Keep
import CamVerif.Proofs.C12Intact
import CamVerif.Proofs.C12Bytes
import CamVerif.Proofs.C12Frames
import CamVerif.Proofs.C12Restart
namespace CamVerif.C12
open CamVerif CamVerif.StreamLoop

/-! ## Concrete instance used by the non-vacuity examples -/

/-- leader 4 bytes, trailer 4 bytes, one payload transfer of 2 bytes + final1 of 1 byte, cap 1,
cancellations reported at most one poll late. -/
def exP : Params := ⟨4, 4, 2, 1, 1, 0, 1, 5, 1⟩
def exA : Assembler := fun _ _ _ read => .built ⟨read, 7⟩
def exScript : List Item :=
  [.data [1, 2, 3, 4], .data [10, 11], .data [12], .data [5, 6, 7, 8],
   .data [1, 2, 3, 4], .data [20, 21], .data [22], .data [5, 6, 7, 9]]
/-- one complete iteration up to `parse` -/
def exToParse : List Step :=
  [.checkCancel, .obtainAlloc, .submitOk, .submitOk, .submitOk, .submitOk, .pollOk, .pollOk, .pollOk, .pollOk]

/-- first iteration completed, payload enqueued and received -/
def exIter1 : List Step := exToParse ++ [.parse, .trySend, .iterEnd, .rxRecv]
/-- ... and a second frame enqueued while the receiver still holds the first payload -/
def exIter2 : List Step := exIter1 ++ exToParse ++ [.parse, .trySend]

/-- Reachability of the end of a concrete schedule, with an observation `f` of the final state. -/
private theorem ex_reach' {α : Type} {A : Assembler} {steps : List Step} {f : State → α} {v : α}
    (h : (run exP A exScript (init exP) steps).map f = some v) :
    ∃ s, Reach A exP exScript s ∧ f s = v := by
  cases hr : run exP A exScript (init exP) steps with
  | none => rw [hr] at h; cases h
  | some s =>
    rw [hr] at h
    simp only [Option.map_some, Option.some.injEq] at h
    exact ⟨s, reach_of_run Reach.init hr, h⟩

private theorem ex_reach {α : Type} {steps : List Step} {f : State → α} {v : α}
    (h : (run exP exA exScript (init exP) steps).map f = some v) :
    ∃ s, Reach exA exP exScript s ∧ f s = v := ex_reach' h

/-! ## 6. recv_le_buf -/

/-- **recv_le_buf** (feeds C11's premise `recv ≤ |buf|`): in every reachable state about to parse,
`payload_len - last_buf_len` does not underflow and is at most `maximum_payload_size`, which is
exactly the length of the payload buffer; and every `Ok` payload ever enqueued was built with
`read_payload_size ≤ |payload buffer| = maximum_payload_size`. -/
theorem recv_le_buf (P : Params) (A : Assembler) (script : List Item) (s : State)
    (h : Reach A P script s) :
    (s.pc = .parse → ∃ l b, s.last = some l ∧ s.cur = some b ∧ l ≤ s.plen ∧
        s.plen - l ≤ P.maxPayload ∧ b.bytes.length = P.maxPayload) ∧
    (∀ m ∈ s.sentLog, m.read ≤ m.buf.bytes.length ∧ m.buf.bytes.length = P.maxPayload) := by
  obtain ⟨hp, hz⟩ := reach_wf h
  refine ⟨?_, ?_⟩
  · intro hpc
    simp only [PoolOK, hpc] at hp
    obtain ⟨_, hcur, _, l, hl, hle, hmax, _⟩ := hp
    cases hc : s.cur with
    | none => simp [hc] at hcur
    | some b => exact ⟨l, b, hl, rfl, hle, hmax, hz.cur b hc⟩
  · intro m hm
    obtain ⟨h1, h2⟩ := hz.sent m hm
    exact ⟨by omega, h2⟩

/-- non-vacuity: the state before `parse` is reachable with a non-zero `read` -/
example : ∃ s, Reach exA exP exScript s ∧ s.pc = .parse ∧ s.plen = 7 ∧ s.last = some 4 := by
  have h : (run exP exA exScript (init exP) exToParse).isSome = true := by decide
  obtain ⟨s, hs⟩ := Option.isSome_iff_exists.mp h
  refine ⟨s, reach_of_run Reach.init hs, ?_⟩
  have : (run exP exA exScript (init exP) exToParse).map (fun s => (s.pc, s.plen, s.last))
      = some (.parse, 7, some 4) := by decide
  rw [hs] at this
  simp only [Option.map_some, Option.some.injEq, Prod.mk.injEq] at this
  exact this


/-! ## All invariants hold in every reachable state -/

/-- In-flight transfers exist only while the loop owns their target buffer. -/
private def PendOwn (s : State) : Prop := s.pending ≠ [] → s.cur.isSome = true ∨ s.reuse.isSome = true

private theorem PendOwn_step {P : Params} {A : Assembler} {script : List Item} {s s' : State} {a : Step}
    (hp : PoolOK P s) (h : PendOwn s) (hs : step P A script s a = some s') : PendOwn s' := by
  cases a <;> simp only [step] at hs <;> step_split <;>
    simp_all [PendOwn, PoolOK, applyData_cur_isSome]

private structure Inv (P : Params) (A : Assembler) (script : List Item) (s : State) : Prop where
  pool : PoolOK P s
  sizes : Sizes P s
  reuse : ReuseOK s
  own : Own s
  order : Order P s
  ctl : CtlOK s
  pend : s.pending.length ≤ P.T
  pown : PendOwn s
  keep : KeepUp P s
  seg : Seg P script s
  asmd : Asmd A s
  contig : Contig P s
  exitc : ExitClean s

private theorem reach_inv {P : Params} {A : Assembler} {script : List Item} {s : State}
    (h : Reach A P script s) : Inv P A script s := by
  induction h with
  | @init P script =>
    exact ⟨PoolOK_init P, Sizes_init P, ReuseOK_init P, Own_init P, Order_init P, CtlOK_init P,
      by simp [init], by simp [PendOwn, init], KeepUp_init P, Seg_init P script, Asmd_init P A, Contig_init P,
      ExitClean_init P⟩
  | @restart P0 P script0 script s0 _ hcan ih =>
    exact ⟨PoolOK_restart P s0, Sizes_restart P s0, ReuseOK_restart P s0,
      Own_restart P ih.pool ih.exitc hcan.1 ih.own, Order_restart P s0, CtlOK_restart P s0,
      by simp [restartState, init], by simp [PendOwn, restartState, init], KeepUp_restart P s0,
      Seg_restart P script s0, Asmd_restart P A s0, Contig_restart P s0, ExitClean_restart P s0⟩
  | step _ hs ih =>
    exact ⟨PoolOK_step ih.pool hs, Sizes_step ih.pool ih.sizes hs, ReuseOK_step ih.reuse hs,
      Own_step ih.pool ih.reuse ih.own hs, Order_step ih.pool ih.order hs, CtlOK_step ih.ctl hs,
      pend_le_step ih.pool ih.pend hs, PendOwn_step ih.pool ih.pown hs,
      KeepUp_step ih.order ih.keep hs, Seg_step ih.pool ih.seg hs,
      Asmd_step ih.pool ih.sizes ih.asmd hs, Contig_step ih.pool ih.sizes ih.contig hs,
      ExitClean_step ih.exitc hs⟩

/-- non-vacuity for handed-back buffers of a FOREIGN size: the receiver sends back a payload this
loop never produced (1 byte; `maximum_payload_size` is 3); the loop takes it from the send-back
channel and resizes it, so every slice of `read_payload` is in range (`recv_le_buf`). -/
example : ∃ s, Reach exA exP exScript s ∧
    (s.pc, s.cur.map (fun b => (b.id, b.bytes.length)), s.nextBuf) = (.submit 0, some (0, 3), 1) :=
  ex_reach (steps := [.rxSendForeign [9], .checkCancel, .obtainBack]) (by decide)

/-! ## 1. frames_intact -/

/-- **ConformingFraming**: the device sends frame after frame, each as `T` bulk packets — its own
leader, its payload cut at the programmed transfer boundaries, its own trailer — and nothing else
(no transfer faults in the script; timeouts, failed submits and a slow receiver are still
arbitrary).  How full the payload packets are is NOT assumed: the loop itself rejects a frame
whose packets leave a gap (`payload_has_gap`). -/
def ConformingFraming (P : Params) (script : List Item) (frames : List (List Bytes)) : Prop :=
  (∀ f ∈ frames, f.length = P.T) ∧ script = (frames.map (fun f => f.map Item.data)).flatten

/-- **frames_intact (segment form, proved)**: for every stream layout, device script, assembler
and schedule, every `Ok` payload ever enqueued
* was assembled from exactly the `T` CONSECUTIVE packets `script[start .. start+T)` the device
  sent — its ghost field `parts` — never from packets of any other position (by `in_order_no_dup`
  the segments of different payloads are disjoint);
* carries exactly what the parse/build function `A` returns for the FIRST packet of that segment
  as leader bytes and the LAST packet as trailer bytes (no stale bytes of an earlier frame), the
  payload's own buffer and its `read_payload_size`.
Under `ConformingFraming`, a segment starting at a frame boundary (`start = f·T`, which
`all_when_keeping_up` establishes for fault-free runs) is precisely the packet list of frame `f`,
so leader, trailer and all fields are that frame's. -/
theorem frames_intact_segment (P : Params) (A : Assembler) (script : List Item) (s : State)
    (h : Reach A P script s) :
    ∀ m ∈ s.sentLog, m.parts.length = P.T ∧
      (script.drop m.start).take P.T = m.parts.map Item.data ∧
      ∃ leader trailer, m.parts.head? = some leader ∧ m.parts.getLast? = some trailer ∧
        A leader trailer m.buf.bytes m.read = .built ⟨m.valid, m.info⟩ := by
  intro m hm
  have hi := reach_inv h
  exact ⟨(hi.seg.sent m hm).1, (hi.seg.sent m hm).2, hi.asmd.sent m hm⟩

/-- **frames_intact (buffer half)**: for every layout, script, assembler and schedule, the
buffer of every enqueued `Ok` payload starts with exactly the payload packets of its segment
(everything between its first and last packet), concatenated without gap or stale byte, and
`read_payload_size` is their total length.  (The assembler only accepts `valid ≤ read`, C11.) -/
theorem frames_intact_bytes (P : Params) (A : Assembler) (script : List Item) (s : State)
    (h : Reach A P script s) :
    ∀ m ∈ s.sentLog, m.read = bsum (middle m.parts) ∧
      m.buf.bytes.take m.read = (middle m.parts).flatten := by
  intro m hm
  exact (reach_inv h).contig.sent m hm

private def leaderItem (isLeader : Bytes → Prop) : Item → Prop
  | .data b => isLeader b
  | .fault _ => False

/-- **frames_intact** (full statement): let the device conform (`ConformingFraming`), let the
parse/build function accept only leader bytes that are a leader (`hA`; the real one checks the
leader magic, C11) and let no other packet of a frame look like a leader (`hL`).  Then under EVERY
schedule — any timeouts, failed submits, stop times, receiver pace, channel capacity — every `Ok`
payload ever enqueued is exactly ONE frame `q` the device sent: it was assembled from that
frame's `T` packets and no others (`start = q·T`, `parts = frames[q]`), its buffer starts with
that frame's payload bytes in order, `read_payload_size` is their length, and its valid size and
all other fields are what the parse/build function returns for that frame's own leader packet and
own trailer packet.  Never a mixture of two frames. -/
theorem frames_intact (P : Params) (A : Assembler) (script : List Item) (frames : List (List Bytes))
    (isLeader : Bytes → Prop) (hconf : ConformingFraming P script frames)
    (hA : ∀ lb tb buf r b, A lb tb buf r = .built b → isLeader lb)
    (hL : ∀ f ∈ frames, ∀ i (h : i < f.length), isLeader f[i] → i = 0)
    (s : State) (h : Reach A P script s) :
    ∀ m ∈ s.sentLog, ∃ q, ∃ hq : q < frames.length,
      m.start = q * P.T ∧ m.parts = frames[q] ∧
      m.read = bsum (middle frames[q]) ∧
      m.buf.bytes.take m.read = (middle frames[q]).flatten ∧
      ∃ leader trailer, frames[q].head? = some leader ∧ frames[q].getLast? = some trailer ∧
        A leader trailer m.buf.bytes m.read = .built ⟨m.valid, m.info⟩ := by
  intro m hm
  have hi := reach_inv h
  obtain ⟨hplen, hseg⟩ := hi.seg.sent m hm
  obtain ⟨lb, tb, hhead, hlast, hbuilt⟩ := hi.asmd.sent m hm
  obtain ⟨hread, hbytes⟩ := hi.contig.sent m hm
  obtain ⟨hlen, hscript⟩ := hconf
  have hT := T_ge_two P
  have hlead := hA _ _ _ _ _ hbuilt
  -- the script as blocks of items
  let IL := frames.map (fun f => f.map Item.data)
  have hIL : ∀ f ∈ IL, f.length = P.T := by
    intro f hf
    simp only [IL, List.mem_map] at hf
    obtain ⟨g, hg, rfl⟩ := hf
    simp [hlen g hg]
  have hILp : ∀ f ∈ IL, ∀ i (h : i < f.length), leaderItem isLeader f[i] → i = 0 := by
    intro f hf i hi' hp
    simp only [IL, List.mem_map] at hf
    obtain ⟨g, hg, rfl⟩ := hf
    have hig : i < g.length := by simpa using hi'
    simp only [List.getElem_map, leaderItem] at hp
    exact hL g hg i hig hp
  -- the first packet of the segment is the script item at `start`
  have h0 : script[m.start]? = some (Item.data lb) := by
    have e1 : ((script.drop m.start).take P.T)[0]? = (m.parts.map Item.data)[0]? := by rw [hseg]
    rw [List.getElem?_take_of_lt (by omega), List.getElem?_drop, Nat.add_zero] at e1
    rw [e1]
    cases hp : m.parts with
    | nil => rw [hp] at hhead; cases hhead
    | cons x xs => rw [hp] at hhead; simp only [List.head?_cons, Option.some.injEq] at hhead; simp [hhead]
  obtain ⟨q, hq, hql⟩ := boundary_of_head P.T (leaderItem isLeader) IL hIL hILp m.start (Item.data lb)
    (by rw [← hscript]; exact h0) hlead
  have hqf : q < frames.length := by simpa [IL] using hql
  have hblock := block_at P.T IL hIL q hql
  rw [← hscript, ← hq, hseg] at hblock
  have hparts : m.parts = frames[q] := by
    have : m.parts.map Item.data = (frames[q]).map Item.data := by
      rw [hblock]; simp [IL]
    exact (List.map_inj_right (fun a b hab => by injection hab)).mp this
  refine ⟨q, hqf, hq, hparts, ?_, ?_, lb, tb, ?_, ?_, hbuilt⟩
  · rw [← hparts]; exact hread
  · rw [← hparts]; exact hbytes
  · rw [← hparts]; exact hhead
  · rw [← hparts]; exact hlast

/-- the example script is conforming: two frames of four packets -/
def exFrames : List (List Bytes) :=
  [[[1, 2, 3, 4], [10, 11], [12], [5, 6, 7, 8]], [[1, 2, 3, 4], [20, 21], [22], [5, 6, 7, 9]]]

example : ConformingFraming exP exScript exFrames := by
  refine ⟨by decide, by decide⟩

/-- an assembler that builds only from leader bytes starting with byte 1 -/
def exA2 : Assembler := fun lb _ _ read =>
  if lb.head? = some (1 : UInt8) then Asm.built ⟨read, 7⟩ else .leaderErr

/-- JOINT non-vacuity of `frames_intact`: with the conditional assembler `exA2` and "is a leader"
= "starts with byte 1", all three hypotheses hold on the example script, a state with two enqueued
payloads is reachable, and the theorem's conclusion identifies them as frames 0 and 1. -/
example : ∃ s, Reach exA2 exP exScript s ∧ s.sentLog.length = 2 ∧
    ∀ m ∈ s.sentLog, ∃ q, ∃ hq : q < exFrames.length, m.start = q * exP.T ∧ m.parts = exFrames[q] ∧
      m.buf.bytes.take m.read = (middle exFrames[q]).flatten := by
  obtain ⟨s, hr, hs⟩ := ex_reach' (A := exA2) (steps := exIter2) (f := fun s => s.sentLog.length)
    (v := 2) (by decide)
  refine ⟨s, hr, hs, ?_⟩
  intro m hm
  have hA : ∀ lb tb buf r b, exA2 lb tb buf r = .built b → lb.head? = some (1 : UInt8) := by
    intro lb tb buf r b hb
    by_cases h : lb.head? = some (1 : UInt8)
    · exact h
    · simp [exA2, h] at hb
  have hL : ∀ f ∈ exFrames, ∀ i (h : i < f.length), (f[i]).head? = some (1 : UInt8) → i = 0 := by
    decide
  obtain ⟨q, hq, h1, h2, _, h4, _⟩ :=
    frames_intact exP exA2 exScript exFrames (fun b => b.head? = some (1 : UInt8))
      ⟨by decide, by decide⟩ hA hL s hr m hm
  exact ⟨q, hq, h1, h2, h4⟩

/-- non-vacuity: two payloads enqueued from the segments starting at 0 and 4 (= T) -/
example : ∃ s, Reach exA exP exScript s ∧
    s.sentLog.map (fun m => (m.start, m.parts.length, m.buf.bytes, m.read)) =
      [(0, 4, [10, 11, 12], 3), (4, 4, [20, 21, 22], 3)] :=
  ex_reach (steps := exIter2) (by decide)

/-! ## 3. all_when_keeping_up -/

/-- **all_when_keeping_up**: if no fault event has happened so far (`faults = 0`: no failed
submit, no transfer error/overflow/timeout, no frame rejected by parse/build, no `try_send` of an
`Ok` payload that found the channel full or closed), then the enqueued payloads are exactly the
segments `0, T, 2T, …` in order — one per complete frame the device has sent — none skipped
(fewer than two further segments' worth of packets have been consumed: the frame in progress and,
at `try_send`, the one just completed), and each is either already received or still queued for
the receiver.  (`pc ≠ dead`: a loop thread killed by a panicking parse/build — excluded by C11's
`build_total` — stops counting.) -/
theorem all_when_keeping_up (P : Params) (A : Assembler) (script : List Item) (s : State)
    (h : Reach A P script s) (hf : s.faults = 0) :
    s.sentLog.map (·.start) = segStarts P.T s.sentLog.length ∧
    s.recvLog ++ okMsgs s.chan = s.sentLog ∧
    (s.pc ≠ .dead → s.consumed < (s.sentLog.length + 1) * P.T + P.T) := by
  have hi := reach_inv h
  obtain ⟨k1, k2⟩ := hi.keep hf
  refine ⟨k1, hi.order.split, ?_⟩
  intro hnd
  have hT := T_ge_two P
  have o := hi.order
  have hcnt := o.cnt
  simp only [Nat.add_mul, Nat.one_mul]
  cases hpc : s.pc with
  | top => simp only [hpc] at k2; omega
  | exiting => simp only [hpc] at k2; omega
  | exited => simp only [hpc] at k2; omega
  | drop c => simp only [hpc] at k2; omega
  | obtain => simp only [hpc] at k2; omega
  | submit k => simp only [hpc] at k2; omega
  | poll => simp only [hpc] at k2 hcnt; omega
  | parse => simp only [hpc] at k2 hcnt; omega
  | send m =>
    cases m with
    | ok o' => simp only [hpc] at k2; omega
    | err e => simp only [hpc] at k2
  | dead => exact absurd hpc hnd

/-- non-vacuity: a fault-free run with two frames sent, both enqueued -/
example : ∃ s, Reach exA exP exScript s ∧ (s.faults, s.sentLog.length, s.consumed) = (0, 2, 8) :=
  ex_reach (steps := exIter2) (by decide)

/-! ## 2. in_order_no_dup -/

/-- **in_order_no_dup**: in every reachable state the `Ok` payloads the receiver got so far
(`recvLog`) are a prefix of the payloads enqueued (`sentLog`, FIFO: nothing duplicated, nothing
reordered); every enqueued payload was assembled from its own segment `[start, start+T)` of the
device's packet sequence, these segments are pairwise disjoint and increasing (so a frame is
delivered at most once and in the order sent) and lie inside what the device sent so far. -/
theorem in_order_no_dup (P : Params) (A : Assembler) (script : List Item) (s : State)
    (h : Reach A P script s) :
    s.recvLog <+: s.sentLog ∧
    (s.sentLog.map (·.start)).Pairwise (fun a b => a + P.T ≤ b) ∧
    (s.recvLog.map (·.start)).Pairwise (· < ·) ∧
    (∀ m ∈ s.sentLog, m.start + P.T ≤ s.consumed) := by
  have hi := (reach_inv h).order
  have hT := T_ge_two P
  have hpre : s.recvLog <+: s.sentLog := ⟨_, hi.split⟩
  refine ⟨hpre, hi.incr, ?_, ?_⟩
  · have hsub : (s.recvLog.map (·.start)).Sublist (s.sentLog.map (·.start)) :=
      (hpre.sublist).map _
    exact (hi.incr.sublist hsub).imp (by intro a b hab; omega)
  · intro m hm
    rcases hi.bound m hm with hb | ⟨he, hst⟩
    · have := hi.le; omega
    · have := hi.enqc he; omega

/-- non-vacuity: one payload received, a second one enqueued -/
example : ∃ s, Reach exA exP exScript s ∧ (s.recvLog.length, s.sentLog.length, s.chan.length) = (1, 2, 1) :=
  ex_reach (steps := exIter2) (by decide)

/-! ## 5. buffers_unique_owner -/

/-- **buffers_unique_owner**: every allocated buffer identity has exactly one owner among
{loop (current buffer = target of all in-flight transfers, reuse slot, payload in hand), payload
channel, receiver, send-back channel, freed}; identities not yet allocated have none; in-flight
transfers exist only while the loop owns their buffer; and the loop's current buffer — the only
buffer a completing transfer writes (`applyData`) — is not held by the receiver, not in a channel
and not freed. -/
theorem buffers_unique_owner (P : Params) (A : Assembler) (script : List Item) (s : State)
    (h : Reach A P script s) :
    (∀ i, i < s.nextBuf → (owned s).count i = 1) ∧
    (∀ i, s.nextBuf ≤ i → i ∉ owned s) ∧
    (s.pending ≠ [] → s.cur.isSome = true ∨ s.reuse.isSome = true) ∧
    (∀ b, s.cur = some b →
      b.id ∉ rxOwned s ∧ b.id ∉ chanOwned s ∧ b.id ∉ backOwned s ∧ b.id ∉ s.freed) := by
  have hi := reach_inv h
  refine ⟨?_, ?_, hi.pown, ?_⟩
  · intro i hlt; have := hi.own i; rw [if_pos hlt] at this; exact this
  · intro i hge; have := hi.own i; rw [if_neg (by omega)] at this
    exact List.count_eq_zero.mp this
  · intro b hb
    have hc := hi.own b.id
    have hle : (owned s).count b.id ≤ 1 := by rw [hc]; split <;> omega
    simp only [owned, loopOwned, hb, optId_some, List.count_append, List.count_cons, beq_self_eq_true,
      if_true, List.count_nil] at hle
    refine ⟨?_, ?_, ?_, ?_⟩ <;> (intro hmem; have := List.count_pos_iff.mpr hmem; omega)

/-- non-vacuity: two buffers allocated; the receiver holds #0 while transfers write into #1 -/
example : ∃ s, Reach exA exP exScript s ∧
    (s.nextBuf, s.held.map (·.buf.id), s.cur.map (·.id), s.pending.length, s.pc) = (2, [0], some 1, 2, .poll) :=
  ex_reach (steps := exIter1 ++ [.checkCancel, .obtainAlloc, .submitOk, .submitOk, .submitOk, .submitOk, .pollOk, .pollOk])
    (by decide)

/-- A payload the receiver holds is a value no loop step touches: loop steps leave `held` as it is
(and, by `buffers_unique_owner`, write only to a buffer with a different identity). -/
theorem held_untouched_by_loop (P : Params) (A : Assembler) (script : List Item) (s s' : State)
    (a : Step) (ha : a.isLoop = true) (hs : step P A script s a = some s') : s'.held = s.held := by
  cases a <;> simp [Step.isLoop] at ha <;> simp only [step] at hs <;> step_split <;> simp

/-! ## 4. loop_never_blocks -/

/-- **loop_never_blocks**: in every reachable state in which the loop thread has not returned
(or died), the loop has an enabled step of its own, and it has one WHATEVER the receiver-controlled
part of the state is (payload channel content, send-back channel, held payloads, receiver
alive or dropped): a full or closed channel, an absent receiver or a malformed frame never blocks it.
While polling, the step `pollPending` (the poll call returns `Timeout` after at most the programmed
per-transfer timeout) is always enabled: this is the one fairness/timing assumption — the
environment delivers either a completion or the timeout. -/
theorem loop_never_blocks (P : Params) (A : Assembler) (script : List Item) (s : State)
    (h : Reach A P script s) (h1 : s.pc ≠ .exited) (h2 : s.pc ≠ .dead)
    (chan : List Msg) (back held : List OkMsg) (rxAlive : Bool) :
    (∃ a, a.isLoop = true ∧
      (step P A script { s with chan := chan, back := back, held := held, rxAlive := rxAlive } a).isSome = true) ∧
    (s.pc = .poll → (step P A script s .pollPending).isSome = true) := by
  have hp := (reach_inv h).pool
  refine ⟨loop_step_exists A script (PoolOK_congr rfl rfl rfl rfl rfl rfl hp) h1 h2, ?_⟩
  intro hpc
  simp only [PoolOK, hpc] at hp
  have hne : s.pending ≠ [] := by
    rcases hp.2 with ⟨_, _, h⟩ | ⟨_, pre, suf, _, h, _⟩
    · intro h0; rw [h0, layout_eq] at h; simp [slotsOf] at h
    · intro h0; rw [h0] at h; simp [slotsOf] at h
  cases hpd : s.pending with
  | nil => exact absurd hpd hne
  | cons x r => simp [step, stepPollPending, hpc, hpd]

/-- non-vacuity: a polling loop with a full channel and a receiver that never receives -/
example : ∃ s, Reach exA exP exScript s ∧ (s.pc, s.chan.length, s.pending.length) = (.poll, 1, 4) :=
  ex_reach (steps := exToParse ++ [.parse, .trySend, .iterEnd, .checkCancel, .obtainAlloc,
    .submitOk, .submitOk, .submitOk, .submitOk]) (by decide)

/-! ## 7. stop_bounded -/

private theorem run_phi {P : Params} {A : Assembler} {script : List Item} :
    ∀ (as : List Step) (s s' : State), PoolOK P s → CtlOK s → s.pending.length ≤ P.T →
      (s.ctl ≠ .running ∧ s.ctl ≠ .calling) → run P A script s as = some s' →
      countLoop as + phi P s' ≤ phi P s ∧ PoolOK P s' ∧ CtlOK s' ∧ (s'.ctl ≠ .running ∧ s'.ctl ≠ .calling) := by
  intro as
  induction as with
  | nil => intro s s' hp hc hl hctl hr; simp only [run] at hr; injection hr with hr; subst hr
           exact ⟨by simp [countLoop], hp, hc, hctl⟩
  | cons a as ih =>
    intro s s' hp hc hl hctl hr
    simp only [run] at hr
    split at hr
    · next s1 hs1 =>
      obtain ⟨h1, h2, h3, h4⟩ := ih s1 s' (PoolOK_step hp hs1) (CtlOK_step hc hs1)
        (pend_le_step hp hl hs1) (ctl_stays hctl hs1) hr
      refine ⟨?_, h2, h3, h4⟩
      cases hl' : a.isLoop with
      | true =>
        have := phi_loop_step hp hc hctl hl' hs1
        simp only [countLoop, List.filter_cons, hl', if_true, List.length_cons] at h1 ⊢
        omega
      | false =>
        have := (phi_other_step (P := P) hl' hs1).1
        simp only [countLoop, List.filter_cons, hl'] at h1 ⊢
        simp only [Bool.false_eq_true, if_false] at ⊢
        omega
    · cases hr

/-- **stop_bounded**: take any reachable state in which the controller is parked in the rendezvous
`send` of `stop_streaming_loop` (`ctl = stopping`) and any continuation schedule `as`.  Then
* the loop performs at most `stopBound P = (maxLate+3)·T + maxLate + 6` steps of its own in `as`
  (`T` = transfers per frame, `maxLate` = how many polls late the USB stack may report the completion
  of a cancelled transfer; `3·T + 6` for `maxLate = 0`; the bound is the variant `phi`, which every loop step decreases), and since by
  `loop_never_blocks` it always has an enabled step while it is alive, it is gone after at most
  that many of its own steps;
* the running flag stays cleared (`ctl ≠ running`);
* when the loop has returned the rendezvous has completed: `stop` returns `Ok` (`ctl = stopOk`);
  if the loop died instead, `stop` returns an error (the step `stopDisc` is enabled / was taken);
* once the loop is leaving or gone no transfer is in flight and no step enqueues anything. -/
theorem stop_bounded (P : Params) (A : Assembler) (script : List Item) (s s' : State)
    (h : Reach A P script s) (hstop : s.ctl = .stopping) (as : List Step)
    (hrun : run P A script s as = some s') :
    countLoop as + phi P s' ≤ phi P s ∧ phi P s ≤ stopBound P ∧
    s'.ctl ≠ .running ∧
    (s'.pc = .exited → s'.ctl = .stopOk ∨ s'.ctl = .closed) ∧
    (s'.pc = .dead → s'.ctl = .stopErr ∨ (step P A script s' .stopDisc).isSome = true) ∧
    ((s'.pc = .exiting ∨ s'.pc = .exited ∨ s'.pc = .dead) → s'.pending = [] ∧
      ∀ a s'', step P A script s' a = some s'' → s''.sentLog = s'.sentLog) := by
  have hi := reach_inv h
  have hctl : s.ctl ≠ .running ∧ s.ctl ≠ .calling := by rw [hstop]; exact ⟨by decide, by decide⟩
  obtain ⟨h1, h2, h3, h4⟩ := run_phi as s s' hi.pool hi.ctl hi.pend hctl hrun
  refine ⟨h1, phi_le_bound hi.pool hi.pend, h4.1, ?_, ?_, ?_⟩
  · intro hpc; exact h3.exit_ok (Or.inr hpc)
  · intro hpc
    cases hc : s'.ctl with
    | running => exact absurd hc h4.1
    | calling => exact absurd hc h4.2
    | stopping => right; simp [step, stepStopDisc, hc, hpc]
    | stopOk => rcases h3.ok_exit hc with h | h <;> rw [hpc] at h <;> cases h
    | stopErr => left; rfl
    | closed => have := h3.closed_exit hc; rw [hpc] at this; cases this
  · intro hpc
    refine ⟨?_, fun a s'' hs => (no_enqueue_after_exit hpc hs).1⟩
    rcases hpc with hpc | hpc | hpc <;> (simp only [PoolOK, hpc] at h2; exact h2.1)

/-- non-vacuity: a stop request in the middle of a frame; the loop cancels, reaps and leaves -/
example : ∃ s, Reach exA exP exScript s ∧ (s.ctl, s.pc, s.pending.length) = (.stopping, .poll, 3) :=
  ex_reach (steps := [.checkCancel, .obtainAlloc, .submitOk, .submitOk, .submitOk, .submitOk, .pollOk,
    .stopCall, .stopBlock]) (by decide)

example : (run exP exA exScript (init exP)
    [.checkCancel, .obtainAlloc, .submitOk, .submitOk, .submitOk, .submitOk, .pollOk, .stopCall, .stopBlock,
     .pollPending, .trySend, .cancelNext, .cancelNext, .cancelNext, .reapLate, .reapOne, .reapOne, .reapLate,
     .reapOne, .iterEnd, .checkCancel, .exit]).map (fun s => (s.ctl, s.pc, s.pending.length, stopBound exP)) =
    some (.stopOk, .exited, 0, 23) := by decide

/-! ## The loop terminates only on a stop request -/

/-- **loop_exits_only_on_stop**: transfer errors, timeouts, malformed frames, a full or closed
channel or an absent receiver never terminate the loop: in every reachable state in which the loop
has left (or is leaving) `run`, the controller's `stop` rendezvous has completed (`closed` = the
`close()` that followed that stop has finished too). -/
theorem loop_exits_only_on_stop (P : Params) (A : Assembler) (script : List Item) (s : State)
    (h : Reach A P script s) (hpc : s.pc = .exiting ∨ s.pc = .exited) :
    s.ctl = .stopOk ∨ s.ctl = .closed :=
  (reach_inv h).ctl.exit_ok hpc

/-- **close_returns_after_exit**: `StreamHandle::close` (also run by `Drop`) returns `Ok` only
after the loop thread has returned from `run`: it stops a running loop first and then needs the
channel lock the loop holds for its whole life.  Hence after `close`/`drop` no transfer is in
flight (and, by `stop_bounded`, nothing is enqueued any more). -/
theorem close_returns_after_exit (P : Params) (A : Assembler) (script : List Item) (s : State)
    (h : Reach A P script s) (hc : s.ctl = .closed) : s.pc = .exited ∧ s.pending = [] := by
  have hi := reach_inv h
  have hpc := hi.ctl.closed_exit hc
  have hp := hi.pool
  simp only [PoolOK, hpc] at hp
  exact ⟨hpc, hp.1⟩

/-- non-vacuity: stop, loop exit, close -/
example : ∃ s, Reach exA exP exScript s ∧ (s.ctl, s.pc) = (.closed, .exited) :=
  ex_reach (steps := [.stopCall, .stopBlock, .checkCancel, .exit, .closeDone])
    (f := fun s => (s.ctl, s.pc)) (by decide)

private theorem not_dead_step {P : Params} {A : Assembler} {script : List Item} {s s' : State} {a : Step}
    (hA : ∀ lb tb buf r, A lb tb buf r ≠ .panic) (hp : PoolOK P s) (h : s.pc ≠ .dead)
    (hs : step P A script s a = some s') : s'.pc ≠ .dead := by
  cases a <;> simp only [step] at hs
  case parse =>
    unfold stepParse at hs
    split at hs
    · next hpc =>
      simp only [PoolOK, hpc] at hp
      obtain ⟨_, hcur, _, l0, hl0, hle, _, _⟩ := hp
      split at hs
      · next l b hlast hc =>
        rw [hlast] at hl0; injection hl0 with hl0; subst hl0
        rw [if_pos hle] at hs
        dsimp only at hs
        split at hs
        · injection hs with hs; subst hs; simp
        · split at hs
          all_goals first
            | (injection hs with hs; subst hs; simp; done)
            | skip
          next hpanic => exact absurd hpanic (hA _ _ _ _)
      · next hno =>
        exfalso
        cases hc : s.cur with
        | none => simp [hc] at hcur
        | some b => exact hno l0 b hl0 hc
    · cases hs
  all_goals (step_split <;> simp_all)

/-- **dead_only_by_panic**: the loop thread dies only if the parse/build function panics: for a
total assembler (C11 `build_total`) no reachable state has a dead loop — in particular the
`unwrap` of `last_buf_len` and the subtraction `payload_len - last` never panic. -/
theorem dead_only_by_panic (P : Params) (A : Assembler) (script : List Item) (s : State)
    (hA : ∀ lb tb buf r, A lb tb buf r ≠ .panic) (h : Reach A P script s) : s.pc ≠ .dead := by
  induction h with
  | init => simp [init]
  | restart _ _ _ => simp [restartState, init]
  | step hr hs ih => exact not_dead_step hA (reach_inv hr).pool ih hs

/-- **running_flag_implies_alive** (the contract C16 assumes of `is_loop_running`): with a total
assembler, whenever the handle reports a running loop (`cancellation_tx.is_some()`, `ctl =
running`) the loop thread is alive — it has neither returned nor died. -/
theorem running_flag_implies_alive (P : Params) (A : Assembler) (script : List Item) (s : State)
    (hA : ∀ lb tb buf r, A lb tb buf r ≠ .panic) (h : Reach A P script s) (hrun : s.ctl = .running) :
    s.pc ≠ .exiting ∧ s.pc ≠ .exited ∧ s.pc ≠ .dead := by
  have hc := (reach_inv h).ctl
  refine ⟨?_, ?_, dead_only_by_panic P A script s hA h⟩
  · intro hpc; have := hc.exit_ok (Or.inl hpc); rw [hrun] at this; rcases this with h | h <;> cases h
  · intro hpc; have := hc.exit_ok (Or.inr hpc); rw [hrun] at this; rcases this with h | h <;> cases h

/-- non-vacuity: `exA` never panics, and a running, alive loop is reachable -/
example : (∀ lb tb buf r, exA lb tb buf r ≠ .panic) ∧
    ∃ s, Reach exA exP exScript s ∧ (s.ctl, s.pc) = (.running, .parse) := by
  refine ⟨?_, ex_reach (steps := exToParse) (f := fun s => (s.ctl, s.pc)) (by decide)⟩
  intro _ _ _ _ h; cases h

/-! ## Sessions: restart on the same handle -/

/-- **restart_nothing_outstanding**: in every history, whenever a further session can start
(`canRestart`: the previous one was stopped or the handle closed, and its loop thread has returned)
no transfer is in flight, the loop owns no buffer any more, and nothing more was enqueued after the
loop left (by `stop_bounded`); the new session starts with an empty pool and fresh channels while
the receiver keeps exactly the payloads it held. -/
theorem restart_nothing_outstanding (P : Params) (A : Assembler) (script : List Item) (s : State)
    (h : Reach A P script s) (hc : canRestart s) (P' : Params) :
    s.pending = [] ∧ loopOwned s = [] ∧
    (restartState P' s).pending = [] ∧ (restartState P' s).held = s.held ∧
    (restartState P' s).chan = [] ∧ (restartState P' s).back = [] := by
  have hi := reach_inv h
  have hp := hi.pool
  simp only [PoolOK, hc.1] at hp
  refine ⟨hp.1, ?_, rfl, rfl, rfl, rfl⟩
  simp [loopOwned, hp.2, hi.exitc hc.1, hc.1, inHand]

/-- **held_payloads_safe_across_sessions**: a payload the receiver holds — from this session or
kept from ANY earlier session on the handle — has a buffer identity different from every buffer
the loop can write (its current buffer, target of all in-flight transfers), from every buffer in a
channel and from every freed one; loop steps never touch it (`held_untouched_by_loop`), and a
restart keeps it.  Handing it back in a later session (another layout: foreign size) makes the loop
resize and reuse it only after the receiver has given it up. -/
theorem held_payloads_safe_across_sessions (P : Params) (A : Assembler) (script : List Item)
    (s : State) (h : Reach A P script s) :
    ∀ m ∈ s.held, (owned s).count m.buf.id = 1 ∧
      (∀ b, s.cur = some b → b.id ≠ m.buf.id) ∧ (∀ b, s.reuse = some b → b.id ≠ m.buf.id) ∧
      m.buf.id ∉ chanOwned s ∧ m.buf.id ∉ backOwned s ∧ m.buf.id ∉ s.freed := by
  intro m hm
  have hi := reach_inv h
  have hc := hi.own m.buf.id
  have hmem : m.buf.id ∈ rxOwned s := List.mem_map.mpr ⟨m, hm, rfl⟩
  have hpos : 0 < (rxOwned s).count m.buf.id := List.count_pos_iff.mpr hmem
  have hle : (owned s).count m.buf.id ≤ 1 := by rw [hc]; split <;> omega
  have hown : (owned s).count m.buf.id = 1 := by
    have : 0 < (owned s).count m.buf.id := by
      simp only [owned, List.count_append]; omega
    omega
  simp only [owned, loopOwned, List.count_append] at hle
  refine ⟨hown, ?_, ?_, ?_, ?_, ?_⟩
  · intro b hb heq
    have : 0 < (optId s.cur).count m.buf.id := by rw [hb, optId_some, ← heq]; simp
    omega
  · intro b hb heq
    have : 0 < (optId s.reuse).count m.buf.id := by rw [hb, optId_some, ← heq]; simp
    omega
  · intro hmem'; have := List.count_pos_iff.mpr hmem'; omega
  · intro hmem'; have := List.count_pos_iff.mpr hmem'; omega
  · intro hmem'; have := List.count_pos_iff.mpr hmem'; omega

/-- second session of the examples: another layout (leader 4, trailer 4, ONE payload transfer of
5 bytes), capacity 2 -/
def exP2 : Params := ⟨4, 4, 5, 1, 0, 0, 2, 5, 0⟩
def exScript2 : List Item := [.data [1, 2, 3, 4], .data [30, 31, 32, 33, 34], .data [5, 6, 7, 8]]

/-- steps of the second session: the receiver hands the payload kept from the FIRST session back,
the loop takes it from the send-back channel, resizes it and receives a frame into it -/
def exSession2 : List Step :=
  [.rxSendBack 0, .checkCancel, .obtainBack, .submitOk, .submitOk, .submitOk, .pollOk, .pollOk, .pollOk,
   .parse, .trySend]

/-- A history with two sessions, executably: run the first session, restart, run the second. -/
def exTwoSessions : Option State :=
  (run exP exA exScript (init exP) (exIter1 ++ [.stopCall, .stopBlock, .checkCancel, .exit])).bind fun s1 =>
    if canRestart s1 then run exP2 exA exScript2 (restartState exP2 s1) exSession2 else none

/-- non-vacuity, TWO SESSIONS in one history: the first session delivers a frame which the receiver
keeps (buffer #0, 3 bytes), the controller stops, the loop leaves; the handle is restarted with
another layout (`maximum_payload_size` 5); the receiver hands the OLD payload back, the new loop
resizes and reuses buffer #0 — no new buffer is allocated — for the frame of the second session
and enqueues it. -/
example : ∃ s2, Reach exA exP2 exScript2 s2 ∧
    (s2.sentLog.map (fun m => (m.buf.id, m.buf.bytes, m.start)), s2.held.length, s2.nextBuf) =
      ([(0, [30, 31, 32, 33, 34], 0)], 0, 1) := by
  have hv : exTwoSessions.map (fun s2 =>
      (s2.sentLog.map (fun m => (m.buf.id, m.buf.bytes, m.start)), s2.held.length, s2.nextBuf)) =
      some ([(0, [30, 31, 32, 33, 34], 0)], 0, 1) := by decide
  unfold exTwoSessions at hv
  cases h1 : run exP exA exScript (init exP) (exIter1 ++ [.stopCall, .stopBlock, .checkCancel, .exit]) with
  | none => rw [h1] at hv; cases hv
  | some s1 =>
    rw [h1] at hv
    simp only [Option.bind_some] at hv
    by_cases hc : canRestart s1
    · rw [if_pos hc] at hv
      cases h2 : run exP2 exA exScript2 (restartState exP2 s1) exSession2 with
      | none => rw [h2] at hv; cases hv
      | some s2 =>
        rw [h2] at hv
        simp only [Option.map_some, Option.some.injEq] at hv
        exact ⟨s2, reach_of_run (Reach.restart (reach_of_run Reach.init h1) hc) h2, hv⟩
    · rw [if_neg hc] at hv; cases hv

/-! ## Keeping-up receiver: everything is RECEIVED -/

/-- **all_received_when_drained**: `all_when_keeping_up` for DELIVERED frames.  If no fault event
has happened in the session (`faults = 0`) and the receiver has kept up — it has taken everything
out of the payload channel (`chan = []`) — then the payloads it RECEIVED are exactly one per
complete frame the device has sent in this session, in order, none missing:
`recvLog = sentLog`, with segment starts `0, T, 2T, …`. -/
theorem all_received_when_drained (P : Params) (A : Assembler) (script : List Item) (s : State)
    (h : Reach A P script s) (hf : s.faults = 0) (hdrained : s.chan = []) :
    s.recvLog = s.sentLog ∧
    s.recvLog.map (·.start) = segStarts P.T s.recvLog.length ∧
    (s.pc ≠ .dead → s.consumed < (s.recvLog.length + 1) * P.T + P.T) := by
  obtain ⟨h1, h2, h3⟩ := all_when_keeping_up P A script s h hf
  have heq : s.recvLog = s.sentLog := by
    rw [← h2, hdrained]; simp [okMsgs]
  rw [heq]
  exact ⟨rfl, h1, h3⟩

/-- non-vacuity: a fault-free run in which the receiver has drained the channel after two frames -/
example : ∃ s, Reach exA exP exScript s ∧ (s.faults, s.chan.length, s.recvLog.length) = (0, 0, 2) :=
  ex_reach (steps := exIter2 ++ [.rxRecv]) (by decide)

/-! ## A dead loop thread -/

/-- **stop_on_dead_loop**: if the loop thread has died (`pc = dead`; only a panicking parse/build
can do that, `dead_only_by_panic`), then in every history
* `stop`/`close` never report success (`ctl` is neither `stopOk` nor `closed`);
* a `stop_streaming_loop` issued now clears the running flag at once (`take()`) and its `send`
  fails immediately: error return (`stopCall` then `stopBlock` lead to `stopErr`);
* a controller that was already parked in the rendezvous is released with an error (`stopDisc`);
* the loop has released every buffer and no transfer is in flight;
* no further session can be started in the model (`¬ canRestart`: the real handle is unusable then,
  its receive-channel lock is poisoned). -/
theorem stop_on_dead_loop (P : Params) (A : Assembler) (script : List Item) (s : State)
    (h : Reach A P script s) (hd : s.pc = .dead) :
    (s.ctl ≠ .stopOk ∧ s.ctl ≠ .closed) ∧
    (s.ctl = .running → ∃ s1 s2, step P A script s .stopCall = some s1 ∧ s1.ctl ≠ .running ∧
        step P A script s1 .stopBlock = some s2 ∧ s2.ctl = .stopErr) ∧
    (s.ctl = .stopping → ∃ s', step P A script s .stopDisc = some s' ∧ s'.ctl = .stopErr) ∧
    (s.pending = [] ∧ s.cur = none) ∧
    ¬ canRestart s := by
  have hi := reach_inv h
  have hp := hi.pool
  simp only [PoolOK, hd] at hp
  refine ⟨⟨?_, ?_⟩, ?_, ?_, hp, ?_⟩
  · intro hc; rcases hi.ctl.ok_exit hc with h' | h' <;> rw [hd] at h' <;> cases h'
  · intro hc; have := hi.ctl.closed_exit hc; rw [hd] at this; cases this
  · intro hr
    refine ⟨{ s with ctl := .calling }, { s with ctl := .stopErr }, ?_, by simp, ?_, rfl⟩
    · simp [step, stepStopCall, hr]
    · simp [step, stepStopBlock, hd]
  · intro hst
    exact ⟨{ s with ctl := .stopErr }, by simp [step, stepStopDisc, hst, hd], rfl⟩
  · intro hc; rw [hc.1] at hd; cases hd

/-- an assembler that panics on every frame -/
def exAPanic : Assembler := fun _ _ _ _ => .panic

/-- non-vacuity: with a panicking assembler the loop thread dies at `parse` while the handle still
reports a running loop -/
example : ∃ s, Reach exAPanic exP exScript s ∧ (s.pc, s.ctl) = (.dead, .running) :=
  ex_reach' (A := exAPanic) (steps := exToParse ++ [.parse]) (f := fun s => (s.pc, s.ctl)) (by decide)

/-- `B(params)` is linear in the number of transfers per frame (for a fixed cancellation latency
`maxLate` of the USB stack; `3·T + 6` when cancellations are reported at once). -/
theorem stopBound_linear (P : Params) :
    stopBound P = (P.maxLate + 3) * (P.payloadSlots.length + 2) + P.maxLate + 6 ∧
    P.payloadSlots.length ≤ P.payloadCount + 2 := by
  refine ⟨?_, ?_⟩
  · simp only [stopBound, T_eq]
    rw [Nat.add_mul (P.maxLate) 3, Nat.mul_add (P.payloadSlots.length + 2) P.maxLate 2]
    rw [Nat.mul_comm (P.payloadSlots.length + 2) P.maxLate]
    omega
  · unfold Params.payloadSlots
    simp only [List.length_append, List.length_map, List.length_range]
    split <;> split <;> simp

end CamVerif.C12
