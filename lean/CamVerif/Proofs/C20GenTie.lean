/-
C20 — tie G for function bodies.

`CamVerif/Gen/FnAccessRight.lean` is re-emitted by `rs2lean` from the CURRENT text of
`impl/src/memory.rs` (`enum AccessRight`, `impl AccessRight { as_num, is_readable, is_writable,
from_num, meet }`) on every check run.  This file proves that each generated function equals
the hand-written model function of `CamVerif/Model/Memory.lean`, for every input and every
build profile (`from_num` contains a `debug_assert!`, so the profile matters there).

Carriers.  `u8` is `BitVec 8` on both sides.  The generated file declares its own copy of the
Rust enum; `arTo` is the bijection onto the model's `AccessRight` (inverse and round trips
below).  The model's `as_num / is_readable / is_writable / meet` are total pure functions; the
generated ones live in `Res` (a Rust function may panic) — the theorems say they return
`ok (model value)`, i.e. they additionally prove these four never panic in any profile.

Proofs: finite case analysis for the enum arguments and the two profile flags, each closed
instance evaluated by the kernel (`decide`);
`from_num` quantifies over all 256 bytes and both profile flags and is discharged by exhaustive
kernel evaluation (`decide +kernel` over `Bool × Bool × BitVec 8`).
-/
import CamVerif.Gen.FnAccessRight
import CamVerif.Model.Memory
namespace CamVerif.Proofs.C20GenTie
open CamVerif CamVerif.Memory

abbrev GAccessRight := CamVerif.Gen.FnAccessRight.AccessRight

namespace G
export CamVerif.Gen.FnAccessRight (AccessRight.as_num AccessRight.is_readable AccessRight.is_writable
  AccessRight.from_num AccessRight.meet)
end G

/-! ## The carrier bijection -/

def arTo : GAccessRight → AccessRight
  | .NA => .NA
  | .RO => .RO
  | .WO => .WO
  | .RW => .RW
def arOf : AccessRight → GAccessRight
  | .NA => .NA
  | .RO => .RO
  | .WO => .WO
  | .RW => .RW

theorem arTo_arOf (a : AccessRight) : arTo (arOf a) = a := by cases a <;> rfl
theorem arOf_arTo (a : GAccessRight) : arOf (arTo a) = a := by cases a <;> rfl

/-! ## `as_num`, `is_readable`, `is_writable`, `meet`
(every enum argument and both profile flags enumerated; each closed instance is evaluated by the
kernel, so the proofs do not depend on the shape of the generated or the model code) -/

theorem gen_as_num_agrees (p : Profile) (a : GAccessRight) :
    G.AccessRight.as_num (ε := MemErr) p a = .ok (arTo a).asNum := by
  obtain ⟨oc, da⟩ := p
  cases a <;> cases oc <;> cases da <;> decide

theorem gen_is_readable_agrees (p : Profile) (a : GAccessRight) :
    G.AccessRight.is_readable (ε := MemErr) p a = .ok (arTo a).isReadable := by
  obtain ⟨oc, da⟩ := p
  cases a <;> cases oc <;> cases da <;> decide

theorem gen_is_writable_agrees (p : Profile) (a : GAccessRight) :
    G.AccessRight.is_writable (ε := MemErr) p a = .ok (arTo a).isWritable := by
  obtain ⟨oc, da⟩ := p
  cases a <;> cases oc <;> cases da <;> decide

theorem gen_meet_agrees (p : Profile) (a b : GAccessRight) :
    (G.AccessRight.meet (ε := MemErr) p a b).map arTo = .ok ((arTo a).meet (arTo b)) := by
  obtain ⟨oc, da⟩ := p
  cases a <;> cases b <;> cases oc <;> cases da <;> decide

/-! ## `from_num` (all 256 bytes, both profile flags: exhaustive kernel evaluation) -/

theorem gen_from_num_agrees (p : Profile) (num : BitVec 8) :
    (G.AccessRight.from_num (ε := MemErr) p num).map arTo = AccessRight.fromNum p num := by
  have all : ∀ (oc da : Bool) (n : BitVec 8),
      (G.AccessRight.from_num (ε := MemErr) ⟨oc, da⟩ n).map arTo = AccessRight.fromNum ⟨oc, da⟩ n := by
    decide +kernel
  obtain ⟨oc, da⟩ := p
  exact all oc da num

/-! ## The whole tie as one statement (re-exported by `Props/C20.lean` as an obligation) -/

/-- every translated `AccessRight` function of the current `memory.rs` equals the model's, for
all inputs and both build profiles -/
def GenTie : Prop :=
  (∀ p a, G.AccessRight.as_num (ε := MemErr) p a = .ok (arTo a).asNum) ∧
  (∀ p a, G.AccessRight.is_readable (ε := MemErr) p a = .ok (arTo a).isReadable) ∧
  (∀ p a, G.AccessRight.is_writable (ε := MemErr) p a = .ok (arTo a).isWritable) ∧
  (∀ p a b, (G.AccessRight.meet (ε := MemErr) p a b).map arTo = .ok ((arTo a).meet (arTo b))) ∧
  (∀ p n, (G.AccessRight.from_num (ε := MemErr) p n).map arTo = AccessRight.fromNum p n) ∧
  (∀ a, arTo (arOf a) = a) ∧ (∀ a, arOf (arTo a) = a)

theorem gen_tie : GenTie :=
  ⟨gen_as_num_agrees, gen_is_readable_agrees, gen_is_writable_agrees, gen_meet_agrees,
    gen_from_num_agrees, arTo_arOf, arOf_arTo⟩

/-! ## Non-vacuity: the generated functions compute -/

example : G.AccessRight.meet (ε := MemErr) Profile.dev .RO .WO = .ok .NA := by decide
example : G.AccessRight.meet (ε := MemErr) Profile.dev .RW .WO = .ok .WO := by decide
example : G.AccessRight.from_num (ε := MemErr) Profile.dev 2#8 = .ok .WO := by decide
example : G.AccessRight.from_num (ε := MemErr) Profile.dev 4#8 = .panic := by decide
example : G.AccessRight.from_num (ε := MemErr) Profile.release 6#8 = .panic := by decide  -- `unreachable!()`

end CamVerif.Proofs.C20GenTie
