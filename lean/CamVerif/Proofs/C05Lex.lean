/-
Helper lemmas for C05 (character level): the lexer of the model reads the canonical spelling
of a token list (`Spec.printChars`: XML escapes, white-space gaps) back as that token list.
-/
import CamVerif.Model.Formula
import CamVerif.Spec.Formula
set_option linter.unusedSectionVars false
set_option linter.unusedSimpArgs false
namespace CamVerif.Formula.Proofs
open CamVerif CamVerif.Formula CamVerif.Formula.Spec

variable {F : Type} [FloatOps F]

/-! ### one decoded character -/

theorem nextChar_plain (c : Char) (r : List Char) (h : c ≠ '&') : nextChar (c :: r) = some (c, r) := by
  unfold nextChar
  split <;> simp_all

theorem nextChar_amp (c : Char) (r : List Char) (h1 : c ≠ 'a') (h2 : c ≠ 'l') (h3 : c ≠ 'g') :
    nextChar ('&' :: c :: r) = some ('&', c :: r) := by
  unfold nextChar
  split <;> (try simp_all) <;> (rename_i h; exact h.1.symm)

theorem nextChar_escAmp (r : List Char) : nextChar ('&' :: 'a' :: 'm' :: 'p' :: ';' :: r) = some ('&', r) := rfl
theorem nextChar_escLt (r : List Char) : nextChar ('&' :: 'l' :: 't' :: ';' :: r) = some ('<', r) := rfl
theorem nextChar_escGt (r : List Char) : nextChar ('&' :: 'g' :: 't' :: ';' :: r) = some ('>', r) := rfl

theorem ne_of_pred (p : Char → Bool) (a c : Char) (ha : p a = true) (hc : p c = false) : a ≠ c := by
  intro e; subst e; rw [ha] at hc; cases hc

def StartsNonSpace (cs : List Char) : Prop := ∃ c r, nextChar cs = some (c, r) ∧ isSpace c = false

/-! ### `eatWhile` -/

theorem eatWhile_pre (p : Char → Bool) (pre rest : List Char) (fuel : Nat) (hf : pre.length ≤ fuel)
    (hp : ∀ c ∈ pre, p c = true ∧ c ≠ '&')
    (hstop : rest = [] ∨ ∃ c r, nextChar rest = some (c, r) ∧ p c = false) :
    eatWhile p fuel (pre ++ rest) = (pre, rest) := by
  induction pre generalizing fuel with
  | nil =>
    cases fuel with
    | zero => rfl
    | succ f =>
      simp only [List.nil_append, eatWhile]
      rcases hstop with rfl | ⟨c, r, hc, hpc⟩
      · rfl
      · simp [hc, hpc]
  | cons a pre ih =>
    cases fuel with
    | zero => simp at hf
    | succ f =>
      have ha := hp a (by simp)
      simp only [List.cons_append, eatWhile, nextChar_plain a _ ha.2, ha.1, if_true]
      rw [ih f (by simpa using hf) (fun c hc => hp c (by simp [hc]))]

theorem skipSpace_gap (g cs : List Char) (hg : g.all isSpace = true)
    (hcs : cs = [] ∨ StartsNonSpace cs) : skipSpace (g ++ cs) = cs := by
  unfold skipSpace
  rw [eatWhile_pre isSpace g cs _ (by simp; omega)]
  · intro c hc
    have h1 : isSpace c = true := by simpa using (List.all_eq_true.mp hg) c hc
    exact ⟨h1, ne_of_pred isSpace c '&' h1 (by decide)⟩
  · rcases hcs with h | ⟨c, r, h1, h2⟩
    · exact Or.inl h
    · exact Or.inr ⟨c, r, h1, h2⟩

/-! ### operators -/

theorem lexOne_sym (s : Sym) (f : Nat → Bool) (sp : Char) (rest : List Char) (hs : isSpace sp = true) :
    (lexOne (escape f 0 (symChars s) ++ sp :: rest) : Option (Tok F × List Char)) =
      some (.sym s, sp :: rest) ∧ StartsNonSpace (escape f 0 (symChars s) ++ sp :: rest) := by
  have n1 := ne_of_pred isSpace sp 'a' hs (by decide)
  have n2 := ne_of_pred isSpace sp 'l' hs (by decide)
  have n3 := ne_of_pred isSpace sp 'g' hs (by decide)
  have n4 := ne_of_pred isSpace sp '*' hs (by decide)
  have n5 := ne_of_pred isSpace sp '&' hs (by decide)
  have n6 := ne_of_pred isSpace sp '|' hs (by decide)
  have n7 := ne_of_pred isSpace sp '>' hs (by decide)
  have n8 := ne_of_pred isSpace sp '=' hs (by decide)
  have n9 := ne_of_pred isSpace sp '<' hs (by decide)
  have hsp : nextChar (sp :: rest) = some (sp, rest) := nextChar_plain sp rest n5
  cases s <;> cases h0 : f 0 <;> cases h1 : f 1 <;>
    simp [symChars, escape, escChar, h0, h1, lexOne, eatChar, StartsNonSpace, nextChar_plain, nextChar_amp,
      nextChar_escAmp, nextChar_escLt, nextChar_escGt, hsp, n1, n2, n3, n4, n5, n6, n7, n8, n9] <;>
    decide

/-! ### character classes -/

theorem of_range (p : Char → Bool) (b : Bool) (lo hi : Nat)
    (h : ∀ n, n ≤ hi → lo ≤ n → p (Char.ofNat n) = b) (c : Char) (h1 : lo ≤ c.toNat) (h2 : c.toNat ≤ hi) :
    p c = b := by
  have := h c.toNat h2 h1
  rwa [Char.ofNat_toNat] at this

theorem space_range (c : Char) (h : isSpace c = true) : c.toNat ≤ 32 ∨ c.toNat = 127 := by
  simpa [isSpace] using h

theorem of_space (p : Char → Bool) (h : ∀ n, n ≤ 127 → (n ≤ 32 ∨ n = 127) → p (Char.ofNat n) = false)
    (c : Char) (hc : isSpace c = true) : p c = false := by
  have hr := space_range c hc
  have := h c.toNat (by omega) hr
  rwa [Char.ofNat_toNat] at this

theorem digit_range (c : Char) (h : isDigit c = true) : 48 ≤ c.toNat ∧ c.toNat ≤ 57 := by
  simp only [isDigit, Bool.and_eq_true, decide_eq_true_eq] at h
  obtain ⟨h1, h2⟩ := h
  rw [Char.le_def] at h1 h2
  exact ⟨h1, h2⟩

theorem space_not_identCont (c : Char) (h : isSpace c = true) : isIdentCont c = false :=
  of_space isIdentCont (by decide) c h
theorem space_not_numCont (c : Char) (h : isSpace c = true) : isNumCont c = false :=
  of_space isNumCont (by decide) c h
theorem space_not_digit (c : Char) (h : isSpace c = true) : isDigit c = false :=
  of_space isDigit (by decide) c h
theorem digit_not_alpha (c : Char) (h : isDigit c = true) : isAlpha c = false :=
  of_range isAlpha false 48 57 (by decide) c (digit_range c h).1 (digit_range c h).2
theorem digit_not_space (c : Char) (h : isDigit c = true) : isSpace c = false :=
  of_range isSpace false 48 57 (by decide) c (digit_range c h).1 (digit_range c h).2
theorem digit_numCont (c : Char) (h : isDigit c = true) : isNumCont c = true := by simp [isNumCont, h]
theorem alpha_not_space (c : Char) (h : isAlpha c = true) : isSpace c = false := by
  cases hs : isSpace c with
  | false => rfl
  | true =>
    have : isAlpha c = false := of_space isAlpha (by decide) c hs
    rw [h] at this; cases this

/-! ### identifiers -/

theorem lexOne_ident (c : Char) (cs : List Char) (sp : Char) (rest : List Char)
    (hc : isAlpha c = true) (hcs : cs.all isIdentCont = true) (hs : isSpace sp = true) :
    (lexOne (c :: cs ++ sp :: rest) : Option (Tok F × List Char)) =
      some (.ident (String.ofList (c :: cs)), sp :: rest) ∧ StartsNonSpace (c :: cs ++ sp :: rest) := by
  have ne : ∀ x, isAlpha x = false → c ≠ x := fun x hx => ne_of_pred isAlpha c x hc hx
  have hn : nextChar (c :: (cs ++ sp :: rest)) = some (c, cs ++ sp :: rest) :=
    nextChar_plain c _ (ne '&' (by decide))
  have hsp : nextChar (sp :: rest) = some (sp, rest) :=
    nextChar_plain sp rest (ne_of_pred isSpace sp '&' hs (by decide))
  have hew : ∀ n, cs.length ≤ n → eatWhile isIdentCont n (cs ++ sp :: rest) = (cs, sp :: rest) := by
    intro n hn
    apply eatWhile_pre
    · exact hn
    · intro x hx
      have h1 : isIdentCont x = true := by simpa using (List.all_eq_true.mp hcs) x hx
      exact ⟨h1, ne_of_pred isIdentCont x '&' h1 (by decide)⟩
    · exact Or.inr ⟨sp, rest, hsp, space_not_identCont sp hs⟩
  refine ⟨?_, c, _, hn, alpha_not_space c hc⟩
  simp only [List.cons_append, lexOne, hn]
  simp [ne '(' (by decide), ne ')' (by decide), ne '+' (by decide), ne '-' (by decide), ne '*' (by decide),
    ne '/' (by decide), ne '%' (by decide), ne '&' (by decide), ne '|' (by decide), ne '^' (by decide),
    ne '~' (by decide), ne '=' (by decide), ne ':' (by decide), ne '?' (by decide), ne '<' (by decide),
    ne '>' (by decide), ne '.' (by decide), hc, hew _ (show cs.length ≤ cs.length + (rest.length + 1) + 1 by omega)]

/-! ### decimal integers -/

theorem lexOne_int (d : Char) (ds : List Char) (sp : Char) (rest : List Char)
    (hd : isDigit d = true) (hds : ds.all isDigit = true) (hs : isSpace sp = true)
    (hle : digitsToNat (d :: ds) ≤ I64_MAX) :
    (lexOne (d :: ds ++ sp :: rest) : Option (Tok F × List Char)) =
      some (.int (BitVec.ofNat 64 (digitsToNat (d :: ds))), sp :: rest) ∧
      StartsNonSpace (d :: ds ++ sp :: rest) := by
  have ne : ∀ x, isDigit x = false → d ≠ x := fun x hx => ne_of_pred isDigit d x hd hx
  have hn : nextChar (d :: (ds ++ sp :: rest)) = some (d, ds ++ sp :: rest) :=
    nextChar_plain d _ (ne '&' (by decide))
  have hsp : nextChar (sp :: rest) = some (sp, rest) :=
    nextChar_plain sp rest (ne_of_pred isSpace sp '&' hs (by decide))
  have hall : ∀ x ∈ ds, isDigit x = true := fun x hx => by simpa using (List.all_eq_true.mp hds) x hx
  have hew : ∀ n, ds.length ≤ n → eatWhile isNumCont n (ds ++ sp :: rest) = (ds, sp :: rest) := by
    intro n hn
    apply eatWhile_pre
    · exact hn
    · intro x hx
      exact ⟨digit_numCont x (hall x hx), ne_of_pred isDigit x '&' (hall x hx) (by decide)⟩
    · exact Or.inr ⟨sp, rest, hsp, space_not_numCont sp hs⟩
  -- the character after the first digit is a digit or the gap: neither `x` nor `X`
  have hx : ∃ y r, nextChar (ds ++ sp :: rest) = some (y, r) ∧ y ≠ 'x' ∧ y ≠ 'X' := by
    cases ds with
    | nil => exact ⟨sp, rest, hsp, ne_of_pred isSpace sp 'x' hs (by decide), ne_of_pred isSpace sp 'X' hs (by decide)⟩
    | cons y ys =>
      have hy := hall y (by simp)
      exact ⟨y, _, nextChar_plain y _ (ne_of_pred isDigit y '&' hy (by decide)),
        ne_of_pred isDigit y 'x' hy (by decide), ne_of_pred isDigit y 'X' hy (by decide)⟩
  obtain ⟨y, r, hy, hy1, hy2⟩ := hx
  have hexp : ∀ n, eatExponent n (sp :: rest) = none := by
    intro n
    simp [eatExponent, hsp, ne_of_pred isSpace sp 'e' hs (by decide), ne_of_pred isSpace sp 'E' hs (by decide)]
  refine ⟨?_, d, _, hn, digit_not_space d hd⟩
  simp only [List.cons_append, lexOne, hn]
  simp [ne '(' (by decide), ne ')' (by decide), ne '+' (by decide), ne '-' (by decide), ne '*' (by decide),
    ne '/' (by decide), ne '%' (by decide), ne '&' (by decide), ne '|' (by decide), ne '^' (by decide),
    ne '~' (by decide), ne '=' (by decide), ne ':' (by decide), ne '?' (by decide), ne '<' (by decide),
    ne '>' (by decide), ne '.' (by decide), digit_not_alpha d hd, hd, eatChar, hy, hy1, hy2,
    hew _ (show ds.length ≤ ds.length + (rest.length + 1) + 1 by omega), hexp, hall, intTok, hle]
  intro x hx hfalse
  rw [hall x hx] at hfalse
  cases hfalse

/-! ### decimal digits -/

theorem digit_facts : ∀ k, k < 10 → isDigit (digitChar k) = true ∧ digitVal (digitChar k) = k := by decide

def valLE (l : List Char) : Nat := l.foldr (fun c a => a * 10 + digitVal c) 0

theorem digitsToNat_reverse (l : List Char) : digitsToNat l.reverse = valLE l := by
  simp [digitsToNat, valLE, List.foldl_reverse]

theorem decRev_ok (fuel : Nat) : ∀ n, n < fuel →
    valLE (decRev fuel n) = n ∧ (∀ c ∈ decRev fuel n, isDigit c = true) ∧ decRev fuel n ≠ [] := by
  induction fuel with
  | zero => intro n h; omega
  | succ f ih =>
    intro n h
    unfold decRev
    by_cases h10 : n < 10
    · have := digit_facts n h10
      simp [h10, valLE, this.1, this.2]
    · have hd := digit_facts (n % 10) (by omega)
      obtain ⟨h1, h2, _⟩ := ih (n / 10) (by omega)
      simp only [h10, if_false]
      refine ⟨?_, ?_, by simp⟩
      · simp only [valLE, List.foldr_cons] at h1 ⊢
        rw [h1, hd.2]; omega
      · intro c hc
        rcases List.mem_cons.mp hc with rfl | hc
        · exact hd.1
        · exact h2 c hc

theorem decDigits_ok (n : Nat) :
    ∃ d ds, decDigits n = d :: ds ∧ isDigit d = true ∧ ds.all isDigit = true ∧ digitsToNat (d :: ds) = n := by
  obtain ⟨h1, h2, h3⟩ := decRev_ok (n + 1) n (by omega)
  have hv : digitsToNat (decDigits n) = n := by rw [decDigits, digitsToNat_reverse, h1]
  have hall : ∀ c ∈ decDigits n, isDigit c = true := fun c hc => h2 c (by simpa [decDigits] using hc)
  cases hdd : decDigits n with
  | nil => simp [decDigits] at hdd; exact absurd hdd h3
  | cons d ds =>
    rw [hdd] at hv hall
    exact ⟨d, ds, rfl, hall d (by simp), by simpa using fun c hc => hall c (by simp [hc]), hv⟩

/-! ### one token, all tokens -/

theorem lexOne_tok (t : Tok F) (f : Nat → Bool) (sp : Char) (rest : List Char) (ht : Spellable t)
    (hs : isSpace sp = true) :
    (lexOne (tokChars t f ++ sp :: rest) : Option (Tok F × List Char)) = some (t, sp :: rest) ∧
      StartsNonSpace (tokChars t f ++ sp :: rest) := by
  cases t with
  | sym s => exact lexOne_sym s f sp rest hs
  | ident s =>
    obtain ⟨c, cs, h1, h2, h3⟩ := ht
    have := lexOne_ident (F := F) c cs sp rest h2 h3 hs
    simp only [tokChars, h1]
    rw [← h1, String.ofList_toList] at this
    rw [h1] at this
    exact this
  | int i =>
    obtain ⟨d, ds, h1, h2, h3, h4⟩ := decDigits_ok i.toNat
    have hle : digitsToNat (d :: ds) ≤ I64_MAX := by rw [h4]; exact ht
    have := lexOne_int (F := F) d ds sp rest h2 h3 hs hle
    simp only [tokChars, h1]
    rw [h4] at this
    simpa using this
  | float x => exact absurd ht (by simp [Spellable])
  | bad => exact absurd ht (by simp [Spellable])
  | nofuel => exact absurd ht (by simp [Spellable])

def body (ps : List (Piece F)) : List Char := ps.flatMap (fun p => tokChars p.tok p.esc ++ p.gap)

theorem body_length (ps : List (Piece F)) (h : ∀ p ∈ ps, Spellable p.tok ∧ GoodGap p.gap) :
    ps.length ≤ (body ps).length := by
  induction ps with
  | nil => simp [body]
  | cons p ps ih =>
    have hp := (h p (by simp)).2.1
    have := ih (fun q hq => h q (by simp [hq]))
    have hl : 0 < p.gap.length := List.length_pos_iff.mpr hp
    simp only [body, List.flatMap_cons, List.length_append, List.length_cons] at this ⊢
    omega

theorem lexAux_body (ps : List (Piece F)) (h : ∀ p ∈ ps, Spellable p.tok ∧ GoodGap p.gap) :
    ∀ (g0 : List Char) (fuel : Nat), g0.all isSpace = true → ps.length < fuel →
      (lexAux fuel (g0 ++ body ps) : List (Tok F)) = ps.map (·.tok) := by
  induction ps with
  | nil =>
    intro g0 fuel hg hf
    cases fuel with
    | zero => omega
    | succ f =>
      have : skipSpace (g0 ++ body ([] : List (Piece F))) = [] := skipSpace_gap g0 [] hg (Or.inl rfl)
      simp [lexAux, this, lexOne, nextChar]
  | cons p ps ih =>
    intro g0 fuel hg hf
    cases fuel with
    | zero => omega
    | succ f =>
      obtain ⟨hsp, hgap, hgs⟩ := h p (by simp)
      cases hgp : p.gap with
      | nil => exact absurd hgp hgap
      | cons sp g =>
        rw [hgp] at hgs
        have hs : isSpace sp = true := by simpa using (List.all_eq_true.mp hgs) sp (by simp)
        have hb : body (p :: ps) = tokChars p.tok p.esc ++ sp :: (g ++ body ps) := by
          simp [body, hgp]
        obtain ⟨h1, h2⟩ := lexOne_tok (F := F) p.tok p.esc sp (g ++ body ps) hsp hs
        have hk : skipSpace (g0 ++ body (p :: ps)) = tokChars p.tok p.esc ++ sp :: (g ++ body ps) := by
          rw [hb]; exact skipSpace_gap g0 _ hg (Or.inr h2)
        have hrec := ih (fun q hq => h q (by simp [hq])) (sp :: g) f hgs (by simpa using hf)
        simp only [List.cons_append] at hrec
        unfold lexAux
        rw [hk, h1]
        cases htok : p.tok with
        | sym s => simp [hrec, htok]
        | ident s => simp [hrec, htok]
        | int i => simp [hrec, htok]
        | float x => rw [htok] at hsp; exact absurd hsp (by simp [Spellable])
        | bad => rw [htok] at hsp; exact absurd hsp (by simp [Spellable])
        | nofuel => rw [htok] at hsp; exact absurd hsp (by simp [Spellable])

/-- The lexer reads the canonical spelling of a token list back as that list. -/
theorem lex_printChars_aux (lead : List Char) (ps : List (Piece F)) (hl : lead.all isSpace = true)
    (h : ∀ p ∈ ps, Spellable p.tok ∧ GoodGap p.gap) :
    (lex (printChars lead ps) : List (Tok F)) = ps.map (·.tok) := by
  have hb := body_length ps h
  unfold lex
  have : printChars lead ps = lead ++ body ps := rfl
  rw [this]
  exact lexAux_body ps h lead _ hl (by simp only [List.length_append]; omega)

/-! ### the whole `formula::parse` on the spelling -/

theorem alpha_ascii (c : Char) (h : isAlpha c = true) : c.toNat < 128 := by
  simp only [isAlpha, Bool.or_eq_true, Bool.and_eq_true, decide_eq_true_eq] at h
  rcases h with ⟨_, h2⟩ | ⟨_, h2⟩ <;> (rw [Char.le_def] at h2; exact Nat.lt_of_le_of_lt h2 (by decide))

theorem identCont_ascii (c : Char) (h : isIdentCont c = true) : c.toNat < 128 := by
  simp only [isIdentCont, isAlnum, Bool.or_eq_true, decide_eq_true_eq] at h
  rcases h with ((h | h) | h) | h
  · exact alpha_ascii c h
  · have := digit_range c h; omega
  · subst h; decide
  · subst h; decide

theorem sym_ascii (s : Sym) (f : Nat → Bool) : ∀ c ∈ escape f 0 (symChars s), c.toNat < 128 := by
  cases s <;> cases h0 : f 0 <;> cases h1 : f 1 <;> simp [symChars, escape, escChar, h0, h1] <;> decide

theorem tok_ascii (t : Tok F) (f : Nat → Bool) (ht : Spellable t) : ∀ c ∈ tokChars t f, c.toNat < 128 := by
  cases t with
  | sym s => exact sym_ascii s f
  | ident s =>
    obtain ⟨c, cs, h1, h2, h3⟩ := ht
    intro x hx
    simp only [tokChars, h1] at hx
    rcases List.mem_cons.mp hx with rfl | hx
    · exact alpha_ascii _ h2
    · exact identCont_ascii x (by simpa using (List.all_eq_true.mp h3) x hx)
  | int i =>
    obtain ⟨d, ds, h1, h2, h3, _⟩ := decDigits_ok i.toNat
    intro x hx
    simp only [tokChars, h1] at hx
    have : isDigit x = true := by
      rcases List.mem_cons.mp hx with rfl | hx
      · exact h2
      · simpa using (List.all_eq_true.mp h3) x hx
    have := digit_range x this; omega
  | float x => exact absurd ht (by simp [Spellable])
  | bad => exact absurd ht (by simp [Spellable])
  | nofuel => exact absurd ht (by simp [Spellable])

theorem space_ascii (g : List Char) (h : g.all isSpace = true) : ∀ c ∈ g, c.toNat < 128 := by
  intro c hc
  have := space_range c (by simpa using (List.all_eq_true.mp h) c hc)
  omega

theorem body_ascii (ps : List (Piece F)) (h : ∀ p ∈ ps, Spellable p.tok ∧ GoodGap p.gap) :
    ∀ c ∈ body ps, c.toNat < 128 := by
  intro c hc
  simp only [body, List.mem_flatMap, List.mem_append] at hc
  obtain ⟨p, hp, hc | hc⟩ := hc
  · exact tok_ascii p.tok p.esc (h p hp).1 c hc
  · exact space_ascii p.gap (h p hp).2.2 c hc

/-- `formula::parse` on the canonical spelling of a token list is the parser on that list. -/
theorem parseChars_printChars (lead : List Char) (ps : List (Piece F)) (hl : lead.all isSpace = true)
    (h : ∀ p ∈ ps, Spellable p.tok ∧ GoodGap p.gap) :
    (parseChars (printChars lead ps) : R (Expr F)) = parseToks (ps.map (·.tok)) := by
  have hascii : (printChars lead ps).any (fun c => decide (c.toNat ≥ 128)) = false := by
    rw [List.any_eq_false]
    intro c hc
    have : printChars lead ps = lead ++ body ps := rfl
    rw [this, List.mem_append] at hc
    have : c.toNat < 128 := by
      rcases hc with hc | hc
      · exact space_ascii lead hl c hc
      · exact body_ascii ps h c hc
    simp; omega
  unfold parseChars
  simp only [hascii, Bool.false_eq_true, if_false, lex_printChars_aux lead ps hl h]
  split
  · next hc =>
    exfalso
    obtain ⟨t, ht, hm⟩ := List.any_eq_true.mp hc
    obtain ⟨p, hp, rfl⟩ := List.mem_map.mp ht
    have := (h p hp).1
    cases hpt : p.tok <;> simp_all [Spellable]
  · rfl

end CamVerif.Formula.Proofs
