/-
C02 with caching ON, second part: `siblings_cached` — the sibling statement itself, in C04's cache
model (`CamVerif.Model.Cache`), for the build with the DEFAULT cache store.

Route: (1) word arithmetic — `Cache.maskedValue`'s merge is `splice` (replace bits l..l+w-1),
characterised bit by bit; (2) one `value` / `set_value` on a sibling field in the build WITHOUT
cache on a conforming device is one step of a word-level reference interpreter (`specStep`);
(3) induction over the history; (4) transfer to the DEFAULT cache store with
`siblings_cached_transparent`; (5) the pure sibling theorem about `specRun` (every read returns
the last SUCCESSFUL write, final word = last successful writes + initial bits elsewhere).
The device may reject scripted write attempts atomically (`rejW`): such a `set_value` returns
`Err(Device)`, changes nothing, and is not counted by the bookkeeping `lastOk`, which follows the
RESULTS of the history.
-/
import CamVerif.Proofs.C02Cached
import CamVerif.Proofs.C01Cached
namespace CamVerif.Proofs.C02CachedSib
open CamVerif CamVerif.Cache CamVerif.Spec.Codec CamVerif.Proofs.C02Cached

/-- the word `o` with bits `l .. l+w-1` replaced by the low `w` bits of `x` -/
def splice (o l w x : Nat) : Nat :=
  2 ^ (l + w) * (o / 2 ^ (l + w)) + (2 ^ l * (x % 2 ^ w) + o % 2 ^ l)

theorem splice_testBit (o l w x i : Nat) :
    (splice o l w x).testBit i =
      if l ≤ i ∧ i < l + w then x.testBit (i - l) else o.testBit i := by
  have hb1 : o % 2 ^ l < 2 ^ l := Nat.mod_lt _ (Nat.two_pow_pos l)
  have hb2 : 2 ^ l * (x % 2 ^ w) + o % 2 ^ l < 2 ^ (l + w) := by
    have hx : x % 2 ^ w + 1 ≤ 2 ^ w := Nat.mod_lt _ (Nat.two_pow_pos w)
    have := Nat.mul_le_mul_left (2 ^ l) hx
    rw [Nat.pow_add]
    rw [Nat.mul_add] at this
    omega
  unfold splice
  rw [Nat.testBit_two_pow_mul_add _ hb2, Nat.testBit_two_pow_mul_add _ hb1,
    Nat.testBit_div_two_pow, Nat.testBit_mod_two_pow, Nat.testBit_mod_two_pow]
  by_cases h1 : i < l + w
  · by_cases h2 : i < l
    · simp [h1, h2]; omega
    · have : i - l < w := by omega
      simp [h1, h2, this]
  · have : ¬ i < l := by omega
    have e : i - (l + w) + (l + w) = i := by omega
    simp [h1, e]

/-- `Cache.maskedValue`'s merge is `splice` (on the low 64 bits) -/
theorem merge_eq (o l w x : Nat) :
    (o - ((o >>> l) % 2 ^ w) <<< l + ((x % 2 ^ w) <<< l)) = splice o l w x := by
  have h1 := (Nat.div_add_mod o (2 ^ (l + w))).symm
  have h2 : o % 2 ^ (l + w) = o % 2 ^ l + 2 ^ l * (o / 2 ^ l % 2 ^ w) := by
    rw [Nat.pow_add, Nat.mod_mul]
  unfold splice
  rw [Nat.shiftLeft_eq, Nat.shiftLeft_eq, Nat.shiftRight_eq_div_pow,
    Nat.mul_comm (o / 2 ^ l % 2 ^ w), Nat.mul_comm (x % 2 ^ w)]
  omega

theorem splice_mod (o l w x B : Nat) (h : l + w ≤ B) :
    splice o l w x % 2 ^ B = splice (o % 2 ^ B) l w x := by
  apply Nat.eq_of_testBit_eq
  intro i
  rw [Nat.testBit_mod_two_pow, splice_testBit, splice_testBit, Nat.testBit_mod_two_pow]
  by_cases hf : l ≤ i ∧ i < l + w
  · have : i < B := by omega
    simp [hf, this]
  · simp [hf]

/-- the unsigned field `l .. l+w-1` of a word, as in `Cache.applyMask` -/
theorem fieldU_eq (l w U : Nat) (hw : 0 < w) : fieldU l (l + w - 1) U = (U >>> l) % 2 ^ w := by
  have hwd : fieldWidth l (l + w - 1) = w := by unfold fieldWidth; omega
  unfold fieldU; rw [hwd, Nat.shiftRight_eq_div_pow]

theorem field_congr (l w a b : Nat) (h : ∀ i, l ≤ i → i < l + w → a.testBit i = b.testBit i) :
    (a >>> l) % 2 ^ w = (b >>> l) % 2 ^ w := by
  apply Nat.eq_of_testBit_eq
  intro k
  rw [Nat.testBit_mod_two_pow, Nat.testBit_mod_two_pow, Nat.testBit_shiftRight, Nat.testBit_shiftRight]
  by_cases hk : k < w
  · simp only [hk, decide_true, Bool.true_and]
    exact h (l + k) (by omega) (by omega)
  · simp [hk]

theorem field_splice_same (o l w x : Nat) : (splice o l w x >>> l) % 2 ^ w = x % 2 ^ w := by
  apply Nat.eq_of_testBit_eq
  intro k
  rw [Nat.testBit_mod_two_pow, Nat.testBit_mod_two_pow, Nat.testBit_shiftRight, splice_testBit]
  by_cases hk : k < w
  · have : l ≤ l + k ∧ l + k < l + w := by omega
    have e : l + k - l = k := by omega
    simp [hk, this, e]
  · simp [hk]

theorem field_splice_disjoint (o l w x l' w' : Nat) (hd : l + w ≤ l' ∨ l' + w' ≤ l) :
    (splice o l w x >>> l') % 2 ^ w' = (o >>> l') % 2 ^ w' := by
  apply field_congr
  intro i h1 h2
  rw [splice_testBit, if_neg (by omega)]


structure Conf (d : Dev) (base : Int) (len : Nat) : Prop where
  lo : 0 ≤ base
  hi : base + len ≤ d.mem.length
  na : touches d.noAccess base len = false
  nw : touches d.noWrite base len = false
  rp : d.rejP = []

def word (e : Cache.Endian) (base : Int) (len : Nat) (d : Dev) : Nat :=
  fromEndian e (slice d.mem base.toNat len)

def afterRead (d : Dev) (base : Int) (len : Nat) : Dev :=
  { d with log := ⟨false, base, len, slice d.mem base.toNat len, true⟩ :: d.log }

theorem sink_read (p : Profile) (base : Int) (len : Nat) (e : Cache.Endian) (fs : List SibField)
    (ev : NodeId → M Unit Int) (j k : Nat) (f : SibField) (d : Dev) (hc : Conf d base len) :
    withCacheOrRead sinkCache p (sibGraph base len e fs) ev (j + 1) (sibReg base len e k f j) ⟨(), d⟩ =
      (.ok (slice d.mem base.toNat len), ⟨(), afterRead d base len⟩) := by
  have h1 : inImage d.mem base len = true := by
    simp [inImage, hc.lo, hc.hi]
  simp [withCacheOrRead, regAddr, sibReg, cachedRead, sinkCache, readAndCache, portRead, expectPort,
    sibGraph_get_zero, devRead, Dev.read, Dev.peek, Dev.readOk, h1, hc.na, bind, M.bind, M.pure,
    afterRead]
  by_cases hm : f.mode = Mode.noCache <;> simp [hm, cacheData, M.bind, M.pure]

def afterWrite (d : Dev) (base : Int) (buf : Bytes) : Dev :=
  { d with mem := patch d.mem base.toNat buf, wcount := d.wcount + 1,
           log := ⟨true, base, buf.length, buf, true⟩ :: d.log }

theorem sink_write (p : Profile) (base : Int) (len : Nat) (e : Cache.Endian) (fs : List SibField)
    (ev : NodeId → M Unit Int) (j k : Nat) (f : SibField) (d : Dev) (hc : Conf d base len)
    (buf : Bytes) (hb : buf.length = len) (hrw : d.wcount ∉ d.rejW) :
    writeAndCache sinkCache p (sibGraph base len e fs) ev (j + 1) (sibReg base len e k f j) buf ⟨(), d⟩ =
      (.ok (), ⟨(), afterWrite d base buf⟩) := by
  have h1 : inImage d.mem base len = true := by
    simp [inImage, hc.lo, hc.hi]
  simp [writeAndCache, hb, regAddr, sibReg, writeAt, invBy, sinkCache, expectPort, sibGraph_get_zero,
    devWrite, Dev.write, Dev.allowed, h1, hc.na, hc.nw, hrw, hc.rp, alGet, bind, M.bind, M.pure,
    afterWrite]
  by_cases hm : f.mode = Mode.writeThrough <;> simp [hm, cacheData, M.pure]

/-- the device after an ATOMICALLY rejected write attempt: only the attempt counter and the log move -/
def afterReject (d : Dev) (base : Int) (buf : Bytes) : Dev :=
  { d with wcount := d.wcount + 1, log := ⟨true, base, buf.length, [], false⟩ :: d.log }

theorem sink_write_rej (p : Profile) (base : Int) (len : Nat) (e : Cache.Endian) (fs : List SibField)
    (ev : NodeId → M Unit Int) (j k : Nat) (f : SibField) (d : Dev) (_hc : Conf d base len)
    (buf : Bytes) (hb : buf.length = len) (hrw : d.wcount ∈ d.rejW) :
    writeAndCache sinkCache p (sibGraph base len e fs) ev (j + 1) (sibReg base len e k f j) buf ⟨(), d⟩ =
      (.err .device, ⟨(), afterReject d base buf⟩) := by
  simp [writeAndCache, hb, regAddr, sibReg, writeAt, invBy, sinkCache, expectPort, sibGraph_get_zero,
    devWrite, Dev.write, Dev.allowed, hrw, bind, M.bind, M.pure, afterReject]

theorem conf_afterReject {d : Dev} {base : Int} {len : Nat} (hc : Conf d base len) (buf : Bytes) :
    Conf (afterReject d base buf) base len := ⟨hc.lo, hc.hi, hc.na, hc.nw, hc.rp⟩

theorem conf_afterRead {d : Dev} {base : Int} {len : Nat} (hc : Conf d base len) :
    Conf (afterRead d base len) base len := ⟨hc.lo, hc.hi, hc.na, hc.nw, hc.rp⟩

theorem conf_afterWrite {d : Dev} {base : Int} {len : Nat} (hc : Conf d base len) (buf : Bytes)
    (hb : buf.length = len) : Conf (afterWrite d base buf) base len := by
  have hl : (patch d.mem base.toNat buf).length = d.mem.length := by
    apply C04.length_patch
    have := hc.lo; have := hc.hi; omega
  exact ⟨hc.lo, by show base + len ≤ ((patch d.mem base.toNat buf).length : Int); rw [hl]; exact hc.hi,
    hc.na, hc.nw, hc.rp⟩


/-- a normalised field: sign, least significant bit, width -/
structure NF where
  s : Cache.Sign
  l : Nat
  w : Nat
  deriving Repr, DecidableEq

def NF.lo (f : NF) : Int := match f.s with | .signed => -(2 ^ (f.w - 1)) | .unsigned => 0
def NF.hi (f : NF) : Int := match f.s with | .signed => 2 ^ (f.w - 1) - 1 | .unsigned => 2 ^ f.w - 1
def NF.accepts (f : NF) (v : Int) : Bool := decide (f.lo ≤ v ∧ v ≤ f.hi)
/-- the reading of the field in the unsigned register word `U` -/
def NF.read (f : NF) (U : Nat) : Int :=
  let field := (U >>> f.l) % 2 ^ f.w
  match f.s with
  | .signed => if field < 2 ^ (f.w - 1) then (field : Int) else (field : Int) - 2 ^ f.w
  | .unsigned => (field : Int)

def norm (len : Nat) (e : Cache.Endian) (f : SibField) : NF :=
  match fieldOf f.lsb f.msb len e with
  | .ok (l, w) => ⟨f.s, l, w⟩
  | _ => ⟨f.s, 0, 0⟩

/-- the description is well formed: it normalises (no panic), lies inside the register and is
not the one field whose `i64` reading C04's model does not cover (unsigned, 64 bits wide) -/
def FieldOk (len : Nat) (e : Cache.Endian) (f : SibField) : Prop :=
  0 < (norm len e f).w ∧ (norm len e f).l + (norm len e f).w ≤ 8 * len ∧
    ¬ (f.s = .unsigned ∧ (norm len e f).w = 64)

instance (len : Nat) (e : Cache.Endian) (f : SibField) : Decidable (FieldOk len e f) := by
  unfold FieldOk; exact inferInstance

theorem fieldOf_norm {len : Nat} {e : Cache.Endian} {f : SibField} (h : FieldOk len e f) :
    fieldOf f.lsb f.msb len e = .ok ((norm len e f).l, (norm len e f).w) ∧ (norm len e f).s = f.s := by
  have h0 := h.1
  unfold norm at h0 ⊢
  cases hf : fieldOf f.lsb f.msb len e with
  | ok lw => obtain ⟨l, w⟩ := lw; exact ⟨rfl, rfl⟩
  | err x => rw [hf] at h0; exact absurd h0 (Nat.lt_irrefl 0)
  | panic => rw [hf] at h0; exact absurd h0 (Nat.lt_irrefl 0)

theorem intFromSlice_word (bs : Bytes) (e : Cache.Endian) (s : Cache.Sign) (hn : IntLen bs.length) :
    ∃ v, intFromSlice bs e s = .ok v ∧ ofI64 v % 2 ^ (8 * bs.length) = fromEndian e bs := by
  have hlt := C04.fromEndian_lt e bs
  unfold intFromSlice
  generalize fromEndian e bs = u at hlt ⊢
  generalize bs.length = n at hn hlt ⊢
  rcases hn with rfl | rfl | rfl | rfl <;> cases s <;> simp only [validIntLen] <;>
    simp only [Nat.reduceMul, Nat.reduceSub, Nat.reducePow, Nat.reduceBEq, Bool.or_true,
      Bool.or_false, if_true] at hlt ⊢
  all_goals first
    | (split <;> refine ⟨_, rfl, ?_⟩ <;> unfold ofI64 <;> omega)
    | (refine ⟨_, rfl, ?_⟩; unfold ofI64 toI64; simp only [Nat.reducePow]; split <;> omega)


theorem word_lt (_e : Cache.Endian) (base : Int) (len : Nat) (d : Dev) (hc : Conf d base len) :
    (slice d.mem base.toNat len).length = len := by
  have := hc.lo; have := hc.hi
  simp only [slice, List.length_take, List.length_drop]; omega

theorem applyMask_read (v : Int) (U len : Nat) (f : NF) (hin : f.l + f.w ≤ 8 * len)
    (hv : ofI64 v % 2 ^ (8 * len) = U) : Cache.applyMask v f.l f.w f.s = f.read U := by
  have : (ofI64 v >>> f.l) % 2 ^ f.w = (U >>> f.l) % 2 ^ f.w := by
    apply field_congr
    intro i h1 h2
    rw [← hv, Nat.testBit_mod_two_pow]
    have : i < 8 * len := by omega
    simp [this]
  unfold Cache.applyMask NF.read
  simp only [this]
  rfl

theorem sink_value (p : Profile) (base : Int) (len : Nat) (hn : IntLen len) (e : Cache.Endian)
    (fs : List SibField) (j : Nat) (f : SibField) (hf : fs[j]? = some f) (hok : FieldOk len e f)
    (d : Dev) (hc : Conf d base len) :
    run sinkCache p (sibGraph base len e fs) ⟨(), d⟩ (.value (j + 1)) =
      (.ok (.int ((norm len e f).read (word e base len d))), ⟨(), afterRead d base len⟩) := by
  have hl := word_lt e base len d hc
  obtain ⟨v, hv1, hv2⟩ := intFromSlice_word (slice d.mem base.toNat len) e f.s (by rw [hl]; exact hn)
  rw [hl] at hv2
  obtain ⟨hfo, hs⟩ := fieldOf_norm hok
  have hg := sibGraph_get_succ base len e fs j
  rw [hf] at hg
  simp only [Option.map_some] at hg
  have ham := applyMask_read v _ len (norm len e f) hok.2.1 hv2
  rw [hs] at ham
  simp only [run, evalOp, opValue, hg, sibReg, fuelOf, evalInt]
  have hr := sink_read p base len e fs (evalInt sinkCache p (sibGraph base len e fs) (sibGraph base len e fs).length) j fs.length f d hc
  simp only [sibReg] at hr
  simp only [bind, M.bind, hr, M.lift, hv1, hfo, M.pure, ham, word]


theorem ofI64_toI64 (u : Nat) : ofI64 (toI64 u) = u % 2 ^ 64 := by
  unfold ofI64 toI64
  simp only [Nat.reducePow]
  split <;> omega

theorem maskedValue_eq (old v : Int) (f : NF) :
    Cache.maskedValue old v f.l f.w f.s =
      if f.accepts v then .ok (splice (ofI64 old) f.l f.w (ofI64 v) % 2 ^ 64) else .err .invalidData := by
  unfold Cache.maskedValue NF.accepts NF.lo NF.hi
  cases f.s <;> simp only [merge_eq] <;> split <;> rename_i h
  · rw [if_neg]; simp only [decide_eq_true_eq]; omega
  · rw [if_pos]; simp only [decide_eq_true_eq]; omega
  · rw [if_neg]; simp only [decide_eq_true_eq]; omega
  · rw [if_pos]; simp only [decide_eq_true_eq]; omega

/-- what the merged word looks like on the register's `8·len` bits -/
theorem merged_low (old v : Int) (U len l w : Nat) (hn : IntLen len) (hin : l + w ≤ 8 * len)
    (hv : ofI64 old % 2 ^ (8 * len) = U) :
    ofI64 (toI64 (splice (ofI64 old) l w (ofI64 v) % 2 ^ 64)) % 2 ^ (8 * len) =
      splice U l w (ofI64 v) := by
  have h8 : 8 * len ≤ 64 := by rcases hn with rfl | rfl | rfl | rfl <;> omega
  rw [ofI64_toI64, Nat.mod_mod, Nat.mod_mod_of_dvd _ (Nat.pow_dvd_pow 2 h8), splice_mod _ _ _ _ _ hin, hv]

theorem sink_set (p : Profile) (base : Int) (len : Nat) (hn : IntLen len) (e : Cache.Endian)
    (fs : List SibField) (j : Nat) (f : SibField) (hf : fs[j]? = some f) (hok : FieldOk len e f)
    (d : Dev) (hc : Conf d base len) (v : Int) :
    run sinkCache p (sibGraph base len e fs) ⟨(), d⟩ (.setValue (j + 1) (.int v)) =
      if (norm len e f).accepts v then
        (if d.wcount ∈ d.rejW then
          (.err .device, ⟨(), afterReject (afterRead d base len) base
            (toEndian e len (splice (word e base len d) (norm len e f).l (norm len e f).w (ofI64 v)))⟩)
        else
          (.ok .unit, ⟨(), afterWrite (afterRead d base len) base
            (toEndian e len (splice (word e base len d) (norm len e f).l (norm len e f).w (ofI64 v)))⟩))
      else (.err .invalidData, ⟨(), afterRead d base len⟩) := by
  have hl := word_lt e base len d hc
  obtain ⟨old, hv1, hv2⟩ := intFromSlice_word (slice d.mem base.toNat len) e f.s (by rw [hl]; exact hn)
  rw [hl] at hv2
  obtain ⟨hfo, hs⟩ := fieldOf_norm hok
  have hg := sibGraph_get_succ base len e fs j
  rw [hf] at hg
  simp only [Option.map_some] at hg
  have hmv := maskedValue_eq old v (norm len e f)
  rw [hs] at hmv
  have hvl : validIntLen len = true := (C01Cached.validIntLen_iff len).mpr hn
  simp only [run, evalOp, opSetValue, hg, sibReg, fuelOf, setInt]
  have hr := sink_read p base len e fs (evalInt sinkCache p (sibGraph base len e fs) (sibGraph base len e fs).length) j fs.length f d hc
  simp only [sibReg] at hr
  simp only [bind, M.bind, invBy, sinkCache] at hr ⊢
  simp only [hr, M.lift, hv1, hfo, hmv]
  by_cases hacc : (norm len e f).accepts v = true
  · simp only [hacc, if_true, bytesFromInt, hvl]
    rw [merged_low old v _ len _ _ hn hok.2.1 hv2]
    by_cases hrj : d.wcount ∈ d.rejW
    · have hw := sink_write_rej p base len e fs (evalInt sinkCache p (sibGraph base len e fs) (sibGraph base len e fs).length) j fs.length f
        (afterRead d base len) (conf_afterRead hc)
        (toEndian e len (splice (word e base len d) (norm len e f).l (norm len e f).w (ofI64 v)))
        (by cases e <;> simp [toEndian]) hrj
      simp only [sibReg, sinkCache] at hw
      simp only [word] at hw ⊢
      simp only [hw, hrj, if_true]
    · have hw := sink_write p base len e fs (evalInt sinkCache p (sibGraph base len e fs) (sibGraph base len e fs).length) j fs.length f
        (afterRead d base len) (conf_afterRead hc)
        (toEndian e len (splice (word e base len d) (norm len e f).l (norm len e f).w (ofI64 v)))
        (by cases e <;> simp [toEndian]) hrj
      simp only [sibReg, sinkCache] at hw
      simp only [word] at hw ⊢
      simp only [hw, M.pure, hrj, if_false]
  · simp only [hacc, Bool.false_eq_true, if_false]

theorem ofI64_mod_cast (v : Int) (w : Nat) (hw : w ≤ 64) :
    ((ofI64 v % 2 ^ w : Nat) : Int) = v % 2 ^ w := by
  unfold ofI64
  rw [Int.natCast_emod, Int.toNat_of_nonneg (Int.emod_nonneg _ (by decide))]
  have : ((2 ^ w : Nat) : Int) = (2 : Int) ^ w := by simp
  rw [this]
  exact Int.emod_emod_of_dvd _ (by
    have : (2 : Int) ^ 64 = 2 ^ w * 2 ^ (64 - w) := by rw [← Int.pow_add]; congr 1; omega
    exact ⟨_, this⟩)

/-- an accepted value is read back from the spliced word -/
theorem read_splice_same (f : NF) (hw : 0 < f.w) (h64 : f.w ≤ 64) (U : Nat) (v : Int)
    (hacc : f.accepts v = true) : f.read (splice U f.l f.w (ofI64 v)) = v := by
  obtain ⟨s, l, w⟩ := f
  simp only at hw h64
  unfold NF.read
  simp only [field_splice_same]
  have hc := ofI64_mod_cast v w h64
  have hp : (2 : Int) ^ w = 2 * 2 ^ (w - 1) := by
    rw [← Int.pow_succ']; congr 1; omega
  have hpos : (0 : Int) < 2 ^ (w - 1) := Int.pow_pos (by decide)
  have hcn : ((2 ^ (w - 1) : Nat) : Int) = (2 : Int) ^ (w - 1) := by simp
  generalize ofI64 v % 2 ^ w = x at hc ⊢
  cases s <;> simp only [NF.accepts, NF.lo, NF.hi] at hacc ⊢ <;> replace hacc := of_decide_eq_true hacc
  · by_cases hv : 0 ≤ v
    · have : v % 2 ^ w = v := Int.emod_eq_of_lt hv (by omega)
      rw [this] at hc
      rw [if_pos (by omega)]; exact hc
    · have : v % 2 ^ w = v + 2 ^ w := by
        rw [← Int.add_emod_right v (2 ^ w)]
        exact Int.emod_eq_of_lt (by omega) (by omega)
      rw [this] at hc
      rw [if_neg (by omega)]; omega
  · have : v % 2 ^ w = v := Int.emod_eq_of_lt hacc.1 (by omega)
    rw [this] at hc
    exact hc


theorem read_splice_disjoint (f g : NF) (U x : Nat)
    (hd : g.l + g.w ≤ f.l ∨ f.l + f.w ≤ g.l) : f.read (splice U g.l g.w x) = f.read U := by
  unfold NF.read
  simp only [field_splice_disjoint U g.l g.w x f.l f.w hd]

/-! ## the word-level reference interpreter

State: the unsigned register word and the device's write-attempt counter (the device may reject
scripted write attempts ATOMICALLY: `rejW`). -/

/-- one operation of a history on the sibling fields: `value()` of field `k`, or `set_value(v)` -/
inductive HOp where
  | get (k : Nat)
  | set (k : Nat) (v : Int)
  deriving Repr, DecidableEq

def HOp.toOp : HOp → Op
  | .get k => .value (k + 1)
  | .set k v => .setValue (k + 1) (.int v)

/-- reference semantics of one operation on (register word, write-attempt counter) -/
def specStep (rejW : List Nat) (nfs : List NF) (st : Nat × Nat) : HOp → R Val × (Nat × Nat)
  | .get k =>
    match nfs[k]? with
    | some f => (.ok (.int (f.read st.1)), st)
    | none => (.err .invalidNode, st)
  | .set k v =>
    match nfs[k]? with
    | some f =>
      if f.accepts v then
        (if st.2 ∈ rejW then (.err .device, (st.1, st.2 + 1))
         else (.ok .unit, (splice st.1 f.l f.w (ofI64 v), st.2 + 1)))
      else (.err .invalidData, st)
    | none => (.err .invalidNode, st)

def specRun (rejW : List Nat) (nfs : List NF) : Nat × Nat → List HOp → List (R Val) × (Nat × Nat)
  | st, [] => ([], st)
  | st, op :: rest =>
    ((specStep rejW nfs st op).1 :: (specRun rejW nfs (specStep rejW nfs st op).2 rest).1,
     (specRun rejW nfs (specStep rejW nfs st op).2 rest).2)

theorem specStep_ne_panic (rejW : List Nat) (nfs : List NF) (st : Nat × Nat) (op : HOp) :
    (specStep rejW nfs st op).1 ≠ .panic := by
  cases op <;> simp only [specStep] <;> split <;> (try split) <;> (try split) <;> simp

theorem runHist_cons {κ : Type} (ops : CacheOps κ) (p : Profile) (g : Graph) (s s' : St κ) (op : Op)
    (rest : List Op) (r : R Val) (h : run ops p g s op = (r, s')) (hr : r ≠ .panic) :
    runHist ops p g s (op :: rest) =
      (r :: (runHist ops p g s' rest).1, (runHist ops p g s' rest).2) := by
  cases r with
  | panic => exact absurd rfl hr
  | ok a => simp only [runHist, h]
  | err e => simp only [runHist, h]

theorem word_afterRead (e : Cache.Endian) (base : Int) (len : Nat) (d : Dev) :
    word e base len (afterRead d base len) = word e base len d := rfl

theorem fromEndian_toEndian (e : Cache.Endian) (len x : Nat) :
    fromEndian e (toEndian e len x) = x % 2 ^ (8 * len) := by
  rw [Nat.pow_mul, show (2 : Nat) ^ 8 = 256 from rfl]
  cases e
  · exact fromLE_toLE len x
  · exact fromBE_toBE len x

theorem toEndian_length (e : Cache.Endian) (len x : Nat) : (toEndian e len x).length = len := by
  cases e <;> simp [toEndian]

theorem word_afterWrite (e : Cache.Endian) (base : Int) (len : Nat) (d : Dev) (hc : Conf d base len)
    (x : Nat) : word e base len (afterWrite d base (toEndian e len x)) = x % 2 ^ (8 * len) := by
  have hl := toEndian_length e len x
  unfold word afterWrite
  simp only
  have := C04.slice_patch_same d.mem base.toNat (toEndian e len x) (by
    have := hc.lo; have := hc.hi; rw [hl]; omega)
  rw [hl] at this
  rw [this, fromEndian_toEndian]

theorem word_lt_pow (e : Cache.Endian) (base : Int) (len : Nat) (d : Dev) (hc : Conf d base len) :
    word e base len d < 2 ^ (8 * len) := by
  have := C04.fromEndian_lt e (slice d.mem base.toNat len)
  rw [word_lt e base len d hc, show (256 : Nat) = 2 ^ 8 from rfl, ← Nat.pow_mul] at this
  exact this

/-- bytes outside the register are untouched -/
def Frame (base : Int) (len : Nat) (d d' : Dev) : Prop :=
  ∀ i, i < base.toNat ∨ base.toNat + len ≤ i → d'.mem[i]? = d.mem[i]?

theorem frame_afterWrite (base : Int) (len : Nat) (d : Dev) (hc : Conf d base len) (buf : Bytes)
    (hb : buf.length = len) : Frame base len d (afterWrite d base buf) := by
  intro i hi
  show (patch d.mem base.toNat buf)[i]? = _
  rw [C04.getElem?_patch _ _ _ _ (by have := hc.lo; have := hc.hi; rw [hb]; omega)]
  rcases hi with hi | hi
  · rw [if_pos hi]
  · rw [if_neg (by omega), if_neg (by omega)]

/-- the normalised fields of a sibling group -/
def nfsOf (len : Nat) (e : Cache.Endian) (fs : List SibField) : List NF := fs.map (norm len e)

theorem nfsOf_get (len : Nat) (e : Cache.Endian) (fs : List SibField) (k : Nat) :
    (nfsOf len e fs)[k]? = (fs[k]?).map (norm len e) := by simp [nfsOf]

/-- the reference state a device is in -/
def stOf (e : Cache.Endian) (base : Int) (len : Nat) (d : Dev) : Nat × Nat := (word e base len d, d.wcount)

/-- **one operation of the build WITHOUT cache is one step of the reference interpreter** -/
theorem sink_step (p : Profile) (base : Int) (len : Nat) (hn : IntLen len) (e : Cache.Endian)
    (fs : List SibField) (hok : ∀ f ∈ fs, FieldOk len e f) (op : HOp) (d : Dev) (hc : Conf d base len) :
    ∃ d', run sinkCache p (sibGraph base len e fs) ⟨(), d⟩ op.toOp =
        ((specStep d.rejW (nfsOf len e fs) (stOf e base len d) op).1, ⟨(), d'⟩) ∧
      Conf d' base len ∧ d'.rejW = d.rejW ∧
      stOf e base len d' = (specStep d.rejW (nfsOf len e fs) (stOf e base len d) op).2 ∧
      Frame base len d d' := by
  cases op with
  | get k =>
    cases hk : fs[k]? with
    | none =>
      have hg := sibGraph_get_succ base len e fs k
      rw [hk] at hg
      refine ⟨d, ?_, hc, rfl, ?_, fun _ _ => rfl⟩
      · simp only [HOp.toOp, run, evalOp, opValue, hg, Option.map_none, specStep, nfsOf_get, hk, M.fail]
      · simp only [specStep, nfsOf_get, hk, Option.map_none]
    | some f =>
      refine ⟨afterRead d base len, ?_, conf_afterRead hc, rfl, ?_, fun _ _ => rfl⟩
      · simp only [HOp.toOp, specStep, nfsOf_get, hk, Option.map_some, stOf]
        exact sink_value p base len hn e fs k f hk (hok f (List.mem_of_getElem? hk)) d hc
      · simp only [specStep, nfsOf_get, hk, Option.map_some]; rfl
  | set k v =>
    cases hk : fs[k]? with
    | none =>
      have hg := sibGraph_get_succ base len e fs k
      rw [hk] at hg
      refine ⟨d, ?_, hc, rfl, ?_, fun _ _ => rfl⟩
      · simp only [HOp.toOp, run, evalOp, opSetValue, hg, Option.map_none, specStep, nfsOf_get, hk, M.fail]
      · simp only [specStep, nfsOf_get, hk, Option.map_none]
    | some f =>
      have hfo := hok f (List.mem_of_getElem? hk)
      have hs := sink_set p base len hn e fs k f hk hfo d hc v
      simp only [HOp.toOp, specStep, nfsOf_get, hk, Option.map_some, stOf]
      by_cases hacc : (norm len e f).accepts v = true
      · rw [if_pos hacc] at hs
        simp only [hacc, if_true]
        by_cases hrj : d.wcount ∈ d.rejW
        · rw [if_pos hrj] at hs
          simp only [hrj, if_true]
          exact ⟨_, hs, conf_afterReject (conf_afterRead hc) _, rfl, rfl, fun _ _ => rfl⟩
        · rw [if_neg hrj] at hs
          simp only [hrj, if_false]
          refine ⟨_, hs, conf_afterWrite (conf_afterRead hc) _ (toEndian_length _ _ _), rfl, ?_, ?_⟩
          · have hw : word e base len (afterWrite (afterRead d base len) base
                (toEndian e len (splice (word e base len d) (norm len e f).l (norm len e f).w (ofI64 v)))) =
                splice (word e base len d) (norm len e f).l (norm len e f).w (ofI64 v) := by
              rw [word_afterWrite e base len _ (conf_afterRead hc),
                splice_mod _ _ _ _ _ hfo.2.1, Nat.mod_eq_of_lt (word_lt_pow e base len d hc)]
            rw [hw]; rfl
          · exact frame_afterWrite base len _ (conf_afterRead hc) _ (toEndian_length _ _ _)
      · rw [if_neg hacc] at hs
        simp only [hacc, Bool.false_eq_true, if_false]
        exact ⟨_, hs, conf_afterRead hc, rfl, rfl, fun _ _ => rfl⟩

/-- **the whole history**: the build without cache computes `specRun` on the register word -/
theorem sink_hist (p : Profile) (base : Int) (len : Nat) (hn : IntLen len) (e : Cache.Endian)
    (fs : List SibField) (hok : ∀ f ∈ fs, FieldOk len e f) (h : List HOp) (d : Dev)
    (hc : Conf d base len) :
    ∃ d', runHist sinkCache p (sibGraph base len e fs) ⟨(), d⟩ (h.map HOp.toOp) =
        ((specRun d.rejW (nfsOf len e fs) (stOf e base len d) h).1, ⟨(), d'⟩) ∧
      Conf d' base len ∧
      stOf e base len d' = (specRun d.rejW (nfsOf len e fs) (stOf e base len d) h).2 ∧
      Frame base len d d' := by
  induction h generalizing d with
  | nil => exact ⟨d, rfl, hc, rfl, fun _ _ => rfl⟩
  | cons op rest ih =>
    obtain ⟨d1, h1, c1, r1, w1, f1⟩ := sink_step p base len hn e fs hok op d hc
    obtain ⟨d2, h2, c2, w2, f2⟩ := ih d1 c1
    rw [r1] at h2 w2
    refine ⟨d2, ?_, c2, ?_, fun i hi => by rw [f2 i hi, f1 i hi]⟩
    · rw [List.map_cons, runHist_cons _ _ _ _ _ _ _ _ h1 (specStep_ne_panic _ _ _ _), h2, w1]
      rfl
    · rw [w2, w1]; rfl

/-! ## the sibling theorem about the reference interpreter -/

def NF.Disjoint (f g : NF) : Prop := f.l + f.w ≤ g.l ∨ g.l + g.w ≤ f.l
instance (f g : NF) : Decidable (f.Disjoint g) := by unfold NF.Disjoint; exact inferInstance

/-- last value SUCCESSFULLY written to field `j` (its `set_value` returned `Ok`) in a history paired
with its results, starting from `acc` -/
def lastOk (j : Nat) : Option Int → List (HOp × R Val) → Option Int
  | acc, [] => acc
  | acc, (.get _, _) :: rest => lastOk j acc rest
  | acc, (.set k v, r) :: rest =>
    lastOk j (if k = j ∧ r = .ok .unit then some v else acc) rest

/-- what field `f` must read: its last successful write, else its content in the initial word -/
def expect (f : NF) (U0 : Nat) : Option Int → Int
  | some v => v
  | none => f.read U0

theorem spec_final (rejW : List Nat) (nfs : List NF) (hgood : ∀ f ∈ nfs, 0 < f.w ∧ f.w ≤ 64)
    (hdis : ∀ (i j : Nat) (f g : NF), i ≠ j → nfs[i]? = some f → nfs[j]? = some g → f.Disjoint g)
    (st0 : Nat × Nat) (h : List HOp) (j : Nat) (f : NF) (hj : nfs[j]? = some f) :
    f.read (specRun rejW nfs st0 h).2.1 =
      expect f st0.1 (lastOk j none (h.zip (specRun rejW nfs st0 h).1)) := by
  suffices H : ∀ (h : List HOp) (st : Nat × Nat) (acc : Option Int), f.read st.1 = expect f st0.1 acc →
      f.read (specRun rejW nfs st h).2.1 =
        expect f st0.1 (lastOk j acc (h.zip (specRun rejW nfs st h).1)) from H h st0 none rfl
  intro h
  induction h with
  | nil => intro st acc hi; exact hi
  | cons op rest ih =>
    intro st acc hi
    cases op with
    | get k =>
      simp only [specRun, List.zip_cons_cons, lastOk]
      apply ih
      simp only [specStep]
      split <;> exact hi
    | set k v =>
      simp only [specRun, List.zip_cons_cons, lastOk]
      apply ih
      simp only [specStep]
      obtain hk | ⟨g, hk⟩ : nfs[k]? = none ∨ ∃ g, nfs[k]? = some g := by
        cases nfs[k]? <;> simp
      · simp only [hk]; simpa using hi
      · simp only [hk]
        by_cases hacc : g.accepts v = true
        · simp only [hacc, if_true]
          by_cases hrj : st.2 ∈ rejW
          · simpa [hrj] using hi
          · simp only [hrj, if_false, and_true]
            by_cases hkj : k = j
            · subst hkj
              rw [hj] at hk
              injection hk with hk
              subst hk
              simp only [if_true, expect]
              have hg := hgood f (List.mem_of_getElem? hj)
              exact read_splice_same f hg.1 hg.2 st.1 v hacc
            · simp only [hkj, if_false]
              rw [read_splice_disjoint f g st.1 _ (by
                have := hdis k j g f hkj hk hj
                unfold NF.Disjoint at this; omega)]
              exact hi
        · simpa [hacc] using hi

theorem spec_other_bits (rejW : List Nat) (nfs : List NF) (st0 : Nat × Nat) (h : List HOp) (i : Nat)
    (hout : ∀ f ∈ nfs, ¬ (f.l ≤ i ∧ i < f.l + f.w)) :
    (specRun rejW nfs st0 h).2.1.testBit i = st0.1.testBit i := by
  induction h generalizing st0 with
  | nil => rfl
  | cons op rest ih =>
    simp only [specRun]
    rw [ih]
    cases op with
    | get k => simp only [specStep]; split <;> rfl
    | set k v =>
      simp only [specStep]
      cases hk : nfs[k]? with
      | none => rfl
      | some g =>
        simp only []
        split
        · split
          · rfl
          · rw [splice_testBit, if_neg (hout g (List.mem_of_getElem? hk))]
        · rfl

theorem specRun_getElem (rejW : List Nat) (nfs : List NF) (st : Nat × Nat) (h : List HOp) (idx : Nat) :
    (specRun rejW nfs st h).1[idx]? =
      (h[idx]?).map fun op => (specStep rejW nfs (specRun rejW nfs st (h.take idx)).2 op).1 := by
  induction h generalizing st idx with
  | nil => simp [specRun]
  | cons op rest ih =>
    cases idx with
    | zero => simp [specRun]
    | succ n => simp only [specRun, List.getElem?_cons_succ, List.take_succ_cons, ih]

theorem specRun_take (rejW : List Nat) (nfs : List NF) (st : Nat × Nat) (h : List HOp) (idx : Nat) :
    (specRun rejW nfs st h).1.take idx = (specRun rejW nfs st (h.take idx)).1 := by
  induction h generalizing st idx with
  | nil => simp [specRun]
  | cons op rest ih =>
    cases idx with
    | zero => simp [specRun]
    | succ n => simp only [specRun, List.take_succ_cons, ih]

theorem take_zip' {α β : Type} (a : List α) (b : List β) (n : Nat) :
    (a.zip b).take n = (a.take n).zip (b.take n) := by
  induction a generalizing b n with
  | nil => simp
  | cons x xs ih =>
    cases b with
    | nil => simp
    | cons y ys =>
      cases n with
      | zero => simp
      | succ m => simp [ih]

theorem noPortWrite_map (h : List HOp) : NoPortWrite (h.map HOp.toOp) := by
  intro n a d hm
  obtain ⟨op, _, ho⟩ := List.mem_map.mp hm
  cases op <;> cases ho

/-- the reading is the independent codec's bit field (`fieldU`, two's complement `fieldS`) -/
theorem read_is_field (f : NF) (hw : 0 < f.w) (U : Nat) :
    f.read U = (match f.s with
      | .signed => fieldS f.l (f.l + f.w - 1) U
      | .unsigned => (fieldU f.l (f.l + f.w - 1) U : Int)) := by
  have hwd : fieldWidth f.l (f.l + f.w - 1) = f.w := by unfold fieldWidth; omega
  have hf := (fieldU_eq f.l f.w U hw).symm
  unfold NF.read
  simp only [hf]
  cases f.s
  · simp only [fieldS, hwd]
    have hp : (2 : Nat) ^ f.w = 2 * 2 ^ (f.w - 1) := by
      rw [← Nat.pow_succ']; congr 1; omega
    by_cases h : fieldU f.l (f.l + f.w - 1) U < 2 ^ (f.w - 1)
    · rw [if_pos h, if_pos (by rw [hp]; omega)]
    · rw [if_neg h, if_neg (by rw [hp]; omega)]
  · rfl

theorem good_of_ok (len : Nat) (hn : IntLen len) (e : Cache.Endian) (fs : List SibField)
    (hok : ∀ f ∈ fs, FieldOk len e f) : ∀ f ∈ nfsOf len e fs, 0 < f.w ∧ f.w ≤ 64 := by
  intro f hf
  obtain ⟨sf, hsf, rfl⟩ := List.mem_map.mp hf
  have := hok sf hsf
  have h8 : 8 * len ≤ 64 := by rcases hn with rfl | rfl | rfl | rfl <;> omega
  exact ⟨this.1, by have := this.2.1; omega⟩

/-- what a `set_value(v)` through field `f` may return -/
def SetOutcome (rejW : List Nat) (f : NF) (v : Int) (r : R Val) : Prop :=
  (f.accepts v = false → r = .err .invalidData) ∧
  (f.accepts v = true → r = .ok .unit ∨ r = .err .device) ∧
  (rejW = [] → f.accepts v = true → r = .ok .unit)

/-- **siblings_cached**: the sibling statement for the build with the DEFAULT cache store. -/
theorem siblings_cached (p : Profile) (base : Int) (len : Nat) (hn : IntLen len) (e : Cache.Endian)
    (fs : List SibField) (hok : ∀ f ∈ fs, FieldOk len e f)
    (hdis : ∀ (i j : Nat) (f g : NF), i ≠ j → (nfsOf len e fs)[i]? = some f →
      (nfsOf len e fs)[j]? = some g → f.Disjoint g)
    (d : Dev) (hc : Conf d base len) (h : List HOp) :
    let g := sibGraph base len e fs
    let nfs := nfsOf len e fs
    let U0 := word e base len d
    let R := runHist defaultCache p g (initDefault g d) (h.map HOp.toOp)
    (∀ (idx k : Nat) (f : NF), h[idx]? = some (.get k) → nfs[k]? = some f →
      R.1[idx]? = some (.ok (.int (expect f U0 (lastOk k none ((h.zip R.1).take idx)))))) ∧
    (∀ (idx k : Nat) (v : Int) (f : NF), h[idx]? = some (.set k v) → nfs[k]? = some f →
      ∃ r, R.1[idx]? = some r ∧ SetOutcome d.rejW f v r) ∧
    (∀ (k : Nat) (f : NF), nfs[k]? = some f →
      f.read (word e base len R.2.dev) = expect f U0 (lastOk k none (h.zip R.1))) ∧
    (∀ i, (∀ f ∈ nfs, ¬ (f.l ≤ i ∧ i < f.l + f.w)) →
      (word e base len R.2.dev).testBit i = U0.testBit i) ∧
    (∀ i, i < base.toNat ∨ base.toNat + len ≤ i → R.2.dev.mem[i]? = d.mem[i]?) := by
  intro g nfs U0 R
  obtain ⟨t1, t2, _⟩ := siblings_cached_transparent p base len e fs d (h.map HOp.toOp) (noPortWrite_map h)
  obtain ⟨d', s1, _, s3, s4⟩ := sink_hist p base len hn e fs hok h d hc
  have hres : R.1 = (specRun d.rejW nfs (stOf e base len d) h).1 := by
    show (runHist defaultCache p g (initDefault g d) (h.map HOp.toOp)).1 = _
    rw [t1]
    show (runHist sinkCache p (sibGraph base len e fs) ⟨(), d⟩ (h.map HOp.toOp)).1 = _
    rw [s1]
  have hmem : R.2.dev.mem = d'.mem := by
    show (runHist defaultCache p g (initDefault g d) (h.map HOp.toOp)).2.dev.mem = _
    rw [t2]
    show (runHist sinkCache p (sibGraph base len e fs) ⟨(), d⟩ (h.map HOp.toOp)).2.dev.mem = _
    rw [s1]
  have hword : word e base len R.2.dev = (specRun d.rejW nfs (stOf e base len d) h).2.1 := by
    rw [← s3]; show fromEndian e (slice R.2.dev.mem base.toNat len) = _; rw [hmem]; rfl
  have hgood := good_of_ok len hn e fs hok
  refine ⟨?_, ?_, ?_, ?_, ?_⟩
  · intro idx k f hi hk
    rw [hres, specRun_getElem, hi]
    simp only [Option.map_some, specStep, hk]
    rw [spec_final d.rejW nfs hgood hdis (stOf e base len d) (h.take idx) k f hk, take_zip',
      specRun_take]
    rfl
  · intro idx k v f hi hk
    rw [hres, specRun_getElem, hi]
    simp only [Option.map_some, specStep, hk]
    refine ⟨_, rfl, ?_⟩
    unfold SetOutcome
    by_cases hacc : f.accepts v = true
    · simp only [hacc, if_true]
      split
      · rename_i hrj
        refine ⟨by simp, fun _ => Or.inr rfl, fun he => ?_⟩
        rw [he] at hrj; cases hrj
      · exact ⟨by simp, fun _ => Or.inl rfl, fun _ _ => rfl⟩
    · have : f.accepts v = false := by simpa using hacc
      simp [this]
  · intro k f hk
    rw [hword, hres]
    exact spec_final d.rejW nfs hgood hdis (stOf e base len d) h k f hk
  · intro i hout
    rw [hword]
    exact spec_other_bits d.rejW nfs (stOf e base len d) h i hout
  · intro i hi
    rw [hmem]
    exact s4 i hi

end CamVerif.Proofs.C02CachedSib
