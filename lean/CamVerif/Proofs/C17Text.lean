/-
C17 helper lemmas, part 7: fragmented element text (any number of text children interleaved
with comments / processing instructions) and noise in front of the cursor.
-/
import CamVerif.Proofs.C17Cursor
set_option linter.unusedSectionVars false
namespace CamVerif.XmlParse
variable {F : Type}

theorem concatText_textsOf (cs : List Elem) : concatText cs = (textsOf cs).flatten := by
  induction cs with
  | nil => rfl
  | cons c r ih => cases c <;> simp [concatText, textsOf, ih]

theorem concatText_noise (j : List Elem) (h : ∀ x ∈ j, IsMarkupNoise x) (r : List Elem) :
    concatText (j ++ r) = concatText r := by
  induction j with
  | nil => rfl
  | cons c cs ih =>
    have hc := h c (by simp)
    cases c with
    | node t a ch => exact absurd hc (by simp [IsMarkupNoise])
    | text s => exact absurd hc (by simp [IsMarkupNoise])
    | comment s => simpa [concatText] using ih (fun x hx => h x (by simp [hx]))
    | pi => simpa [concatText] using ih (fun x hx => h x (by simp [hx]))

theorem concatText_frag (j0 : List Elem) (frs : List (Str × List Elem)) (h : FragNoise j0 frs) :
    concatText (fragChildren j0 frs) = fragText frs := by
  induction frs generalizing j0 with
  | nil =>
    have := concatText_noise j0 h.1 []
    simpa [fragChildren, fragText, concatText] using this
  | cons fr r ih =>
    obtain ⟨f, j⟩ := fr
    have h1 := concatText_noise j0 h.1 (.text f :: fragChildren j r)
    have h2 := ih j ⟨h.2 (f, j) (by simp), fun fr' hfr => h.2 fr' (by simp [hfr])⟩
    simp only [fragChildren, h1, concatText, h2]
    simp [fragText]

theorem textView_fb (j0 : List Elem) (frs : List (Str × List Elem)) (h : FragNoise j0 frs) :
    textView (fb j0 frs).2 = .ok (fragText frs) := by
  simp [textView, fb, concatText_frag j0 frs h]

/-! ### noise in front of the cursor -/

theorem skipJunk_nonElem (j : List Elem) (h : ∀ x ∈ j, IsNonElem x) (cur : Cur) :
    skipJunk (j ++ cur) = skipJunk cur := by
  induction j with
  | nil => rfl
  | cons c cs ih =>
    have hc := h c (by simp)
    cases c with
    | node t a ch => exact absurd hc (by simp [IsNonElem])
    | text s => simpa [skipJunk] using ih (fun x hx => h x (by simp [hx]))
    | comment s => simpa [skipJunk] using ih (fun x hx => h x (by simp [hx]))
    | pi => simpa [skipJunk] using ih (fun x hx => h x (by simp [hx]))

end CamVerif.XmlParse
