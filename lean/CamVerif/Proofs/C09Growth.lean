/-
Growth round for C09: (b) the stacked constructors refuse by ENTRY COUNT for lists of any
length (no narrowing of the count), and (a) the vocabulary of the command → acknowledge
round trip: the conforming acknowledge the reference builds for a command.
Imports only Proofs/C09 and the acknowledge reference (Props/C09 imports this file).
-/
import CamVerif.Proofs.C09
import CamVerif.Spec.GenCPAck
namespace CamVerif.C09
open CamVerif CamVerif.Cmd
open CamVerif.Spec.GenCP (CmdBody)
open CamVerif.Spec.GenCPAck (encodeAck encodeValueScd encodeStackedScd)

/-! ### (b) entry counts -/

/-- 5462 entries already need 65544 > 65535 SCD bytes: refused whatever the read lengths,
for every list length (the count is never narrowed to 16 bits). -/
theorem rms_count_refused (es : List ReadMem) (h : 5462 ≤ es.length) :
    ReadMemStacked.new es = .err .invalidPacket := by
  simp only [ReadMemStacked.new, foldl_len12, Nat.zero_add, intoScdLen, U16_MAX]
  rw [if_neg (by omega)]
  rfl

/-- the same for stacked writes, in both build profiles, whatever the entries are -/
theorem wms_count_refused (p : Profile) (ws : List WriteMem) (h : 5462 ≤ ws.length) :
    WriteMemStacked.new p ws = .err .invalidPacket := by
  have := wsum_ge ws
  simp only [WriteMemStacked.new, foldl_wlen, Nat.zero_add, intoScdLen, U16_MAX]
  rw [if_neg (by omega)]
  rfl

/-! ### (a) the conforming acknowledge of a command -/

/-- acknowledge command id answering a command (command id + 1) -/
def ackCommandId : CmdBody → Nat
  | .readMem _ _ => 0x0801
  | .writeMem _ _ => 0x0803
  | .readMemStacked _ => 0x0807
  | .writeMemStacked _ => 0x0809

/-- SCD of the acknowledge of a successfully executed command; `resp` = the bytes the device
read (ReadMem / ReadMemStacked; ignored for writes, which report the written lengths) -/
def ackScdOf : CmdBody → Bytes → Bytes
  | .readMem _ _, resp => resp
  | .writeMem _ d, _ => encodeValueScd d.length
  | .readMemStacked _, resp => resp
  | .writeMemStacked es, _ => encodeStackedScd (es.map fun e => e.2.length)

/-- the conforming acknowledge: status SUCCESS (0x0000), same request id -/
def conformingAck (b : CmdBody) (requestId : Nat) (resp : Bytes) : Bytes :=
  encodeAck 0 (ackCommandId b) requestId (ackScdOf b resp)

end CamVerif.C09
