/-
C13 (growth round) — further helper lemmas, independent of `Props/C13.lean`:
* NUL-terminated string decoding for arbitrary valid UTF-8 (terminated, or filling the
  register completely with no terminator);
* an abstract device (arbitrary state machine with its own error values) and the generic
  accessor over it, with the proof that on the concrete logging device it IS `RRow.run`.
-/
import CamVerif.Proofs.C13
namespace CamVerif.RegMap
open CamVerif

/-! ### Strings -/

theorem takeWhile_nul_free (s : Bytes) (hz : ∀ b ∈ s, b ≠ 0) : s.takeWhile (· != 0) = s := by
  have := takeWhile_append_zero s 0 hz
  simpa using this

theorem takeWhile_terminated (s rest : Bytes) (hz : ∀ b ∈ s, b ≠ 0) :
    (s ++ 0 :: rest).takeWhile (· != 0) = s := by
  induction s with
  | nil => simp
  | cons b s ih =>
    have hb : (b != 0) = true := by simpa using hz b (by simp)
    simp only [List.cons_append, List.takeWhile, hb]
    rw [ih (fun x hx => hz x (by simp [hx]))]

/-- a register holding NUL-free valid UTF-8 and NO terminator (it fills the register
completely) decodes to all of its bytes -/
theorem decode_string_full (s : Bytes) (hv : validUtf8 s = true) (hz : ∀ b ∈ s, b ≠ 0) :
    Spec.U3V.decode .string s = .ok (.str s) := by
  simp [Spec.U3V.decode, Spec.U3V.cString, takeWhile_nul_free s hz, hv]

/-- NUL-free valid UTF-8 followed by a terminator and ANY bytes after it decodes to the
bytes in front of the terminator -/
theorem decode_string_terminated (s rest : Bytes) (hv : validUtf8 s = true) (hz : ∀ b ∈ s, b ≠ 0) :
    Spec.U3V.decode .string (s ++ 0 :: rest) = .ok (.str s) := by
  simp [Spec.U3V.decode, Spec.U3V.cString, takeWhile_terminated s rest hz, hv]

/-- bytes in front of the first NUL that are not well-formed UTF-8 are an error -/
theorem decode_string_invalid (bs : Bytes) (h : validUtf8 (Spec.U3V.cString bs) = false) :
    Spec.U3V.decode .string bs = .err .invalidDevice := by
  simp [Spec.U3V.decode, h]

/-! ### An arbitrary device

`DeviceControl` implementations other than the logging memory of `Model/RegMap.lean`: any
state type `σ`, any error type `ε`, any transition function — errors may depend on the
address, the length or the whole history; a read may fill fewer bytes than asked for (the
rest of the zero-initialised `vec![0; len]` buffer stays zero) or more (ignored: the slice
has `len` bytes). -/

structure ADev (σ ε : Type) where
  /-- `read(addr, &mut buf)` with `buf.len() = len`: the bytes the device stored into `buf` -/
  read : σ → Nat → Nat → Except ε Bytes × σ
  /-- `write(addr, data)` -/
  write : σ → Nat → Bytes → Except ε Unit × σ

/-- error classes over an arbitrary device: the device's own error values are kept -/
inductive GErr (ε : Type) where
  | invalidDevice
  | invalidData
  | dev (e : ε)
  deriving DecidableEq, Repr

/-- contents of the zero-initialised `len`-byte buffer after the device stored `bs` into it -/
def fill (len : Nat) (bs : Bytes) : Bytes := bs.take len ++ List.replicate (len - bs.length) 0

theorem fill_exact (len : Nat) (bs : Bytes) (h : bs.length = len) : fill len bs = bs := by
  subst h
  simp [fill]

@[simp] theorem fill_length (len : Nat) (bs : Bytes) : (fill len bs).length = len := by
  simp [fill]; omega

/-- codec outcomes carried over (`.err .dev` never comes out of a codec; it is mapped to
`panic` so that no statement can lean on it) -/
def liftR {ε α : Type} : R α → Res (GErr ε) α
  | .ok a => .ok a
  | .err .invalidDevice => .err .invalidDevice
  | .err .invalidData => .err .invalidData
  | .err .dev => .panic
  | .panic => .panic

def getRegG {σ ε : Type} (A : ADev σ ε) (rr : RRow) (base : Nat) (st : σ) : Res (GErr ε) Val × σ :=
  match addrOf rr.base base rr.off with
  | .ok addr =>
    match A.read st addr rr.len with
    | (.ok bs, st') => (liftR (parse rr.dec (fill rr.len bs)), st')
    | (.error e, st') => (.err (.dev e), st')
  | .err e => (liftR (.err e), st)
  | .panic => (.panic, st)

def setRegG {σ ε : Type} (A : ADev σ ε) (rr : RRow) (base : Nat) (arg : Arg) (st : σ) :
    Res (GErr ε) Val × σ :=
  match addrOf rr.base base rr.off with
  | .ok addr =>
    match dump rr.dec arg rr.len with
    | .ok buf =>
      match A.write st addr buf with
      | (.ok _, st') => (.ok .unit, st')
      | (.error e, st') => (.err (.dev e), st')
    | .err e => (liftR (.err e), st)
    | .panic => (.panic, st)
  | .err e => (liftR (.err e), st)
  | .panic => (.panic, st)

def mapG {ε : Type} (f : Val → Val) : Res (GErr ε) Val → Res (GErr ε) Val
  | .ok v => .ok (f v)
  | .err e => .err e
  | .panic => .panic

/-- the uniform accessor body (`RRow.run`) over an arbitrary device -/
def RRow.runG {σ ε : Type} (A : ADev σ ε) (rr : RRow) (base cap : Nat) (arg : Arg) (st : σ) :
    Res (GErr ε) Val × σ :=
  match rr.kind with
  | .get =>
    match rr.guardBit with
    | some bit =>
      if cap.testBit bit then
        match getRegG A rr base st with
        | (r, st') => (mapG Val.some r, st')
      else (.ok .none, st)
    | none => getRegG A rr base st
  | .set => if guardOpen rr cap then setRegG A rr base arg st else (.ok .unit, st)
  | .setConst v => if guardOpen rr cap then setRegG A rr base (.nat v) st else (.ok .unit, st)

/-- the logging memory device of the model, seen as an `ADev` -/
def concreteDev : ADev Dev Unit where
  read d a n :=
    match d.read a n with
    | (.ok bs, d') => (.ok bs, d')
    | (_, d') => (.error (), d')
  write d a buf :=
    match d.write a buf with
    | (.ok _, d') => (.ok (), d')
    | (_, d') => (.error (), d')

/-- model outcomes in the vocabulary of the generic accessor -/
def toG : R Val → Res (GErr Unit) Val
  | .ok v => .ok v
  | .err .invalidDevice => .err .invalidDevice
  | .err .invalidData => .err .invalidData
  | .err .dev => .err (.dev ())
  | .panic => .panic

theorem parseNum_cases (n : Nat) (bs : Bytes) : (∃ v, parseNum n bs = .ok v) ∨ parseNum n bs = .panic := by
  unfold parseNum
  split
  · exact Or.inl ⟨_, rfl⟩
  · exact Or.inr rfl

theorem parse_ne_dev (dec : Dec) (bs : Bytes) : parse dec bs ≠ .err .dev := by
  cases dec with
  | u32 => rcases parseNum_cases 4 bs with ⟨v, h⟩ | h <;> simp [parse, h, R.map]
  | u64 => rcases parseNum_cases 8 bs with ⟨v, h⟩ | h <;> simp [parse, h, R.map]
  | string => simp only [parse, parseString]; split <;> simp
  | duration => rcases parseNum_cases 4 bs with ⟨v, h⟩ | h <;> simp [parse, h, R.map]
  | enum32 t =>
    rcases parseNum_cases 4 bs with ⟨v, h⟩ | h
    · simp only [parse, h]; split <;> simp
    · simp [parse, h]
  | deviceConfiguration => rcases parseNum_cases 8 bs with ⟨v, h⟩ | h <;> simp [parse, h, R.map]
  | fileInfo => rcases parseNum_cases 4 bs with ⟨v, h⟩ | h <;> simp [parse, h, R.map]
  | version ma mi pa => rcases parseNum_cases 4 bs with ⟨v, h⟩ | h <;> simp [parse, h, R.map]
  | align e =>
    rcases parseNum_cases 4 bs with ⟨v, h⟩ | h
    · simp only [parse, h]; split <;> simp
    · simp [parse, h]
  | bit f => rcases parseNum_cases 4 bs with ⟨v, h⟩ | h <;> simp [parse, h, R.map]
  | sha1 => simp [parse]

theorem dump_ne_dev (dec : Dec) (arg : Arg) (len : Nat) : dump dec arg len ≠ .err .dev := by
  unfold dump
  (repeat' split) <;> simp

theorem liftR_eq_toG (r : R Val) (h : r ≠ .err .dev) : (liftR r : Res (GErr Unit) Val) = toG r := by
  cases r with
  | ok v => rfl
  | err e => cases e <;> first | rfl | exact absurd rfl h
  | panic => rfl

theorem addrOf_ne_dev (b : Base) (base off : Nat) : addrOf b base off ≠ .err .dev := by
  cases b <;> simp only [addrOf, registerAddress] <;> (try split) <;> simp

theorem addrOf_cases' (b : Base) (base off : Nat) :
    (∃ a, addrOf b base off = .ok a) ∨ addrOf b base off = .err .invalidDevice := by
  cases b <;> simp only [addrOf, registerAddress] <;> (try split) <;> simp

/-! #### On the model's own device the generic accessor IS the model accessor -/

theorem getRegG_concrete (rr : RRow) (base : Nat) (d : Dev) :
    getRegG concreteDev rr base d = (toG (getReg rr base d).1, (getReg rr base d).2) := by
  unfold getRegG getReg
  rcases addrOf_cases' rr.base base rr.off with ⟨a, ha⟩ | ha
  · rw [ha]
    simp only [concreteDev, readRegister]
    by_cases hr : d.rejects a rr.len = true
    · simp [Dev.read, hr, toG]
    · simp [Dev.read, hr, fill_exact, liftR_eq_toG _ (parse_ne_dev _ _)]
  · rw [ha]; simp [liftR, toG]

theorem setRegG_concrete (rr : RRow) (base : Nat) (arg : Arg) (d : Dev) :
    setRegG concreteDev rr base arg d = (toG (setReg rr base arg d).1, (setReg rr base arg d).2) := by
  unfold setRegG setReg
  rcases addrOf_cases' rr.base base rr.off with ⟨a, ha⟩ | ha
  · rw [ha]
    cases hd : dump rr.dec arg rr.len with
    | ok buf =>
      simp only [concreteDev]
      by_cases hr : d.rejects a buf.length = true
      · simp [Dev.write, hr, toG, R.map]
      · simp [Dev.write, hr, toG, R.map]
    | err e =>
      have := dump_ne_dev rr.dec arg rr.len
      rw [hd] at this
      cases e with
      | invalidDevice => simp [liftR, toG]
      | invalidData => simp [liftR, toG]
      | dev => exact absurd rfl this
    | panic => simp [toG]
  · rw [ha]; simp [liftR, toG]

/-- **the generic accessor specialises to the model**: on the logging memory device it returns
what `RRow.run` (the function the differential harness compares with the real crate) returns,
and leaves the same device state -/
theorem runG_concrete (rr : RRow) (base cap : Nat) (arg : Arg) (d : Dev) :
    rr.runG concreteDev base cap arg d = (toG (rr.run base cap arg d).1, (rr.run base cap arg d).2) := by
  unfold RRow.runG RRow.run
  cases rr.kind with
  | get =>
    cases rr.guardBit with
    | none => simp only [getRegG_concrete]
    | some bit =>
      by_cases hb : cap.testBit bit = true
      · simp only [hb, if_true, getRegG_concrete]
        cases h : (getReg rr base d).1 with
        | ok v => simp [mapG, toG, R.map]
        | err e => cases e <;> simp [mapG, toG, R.map]
        | panic => simp [mapG, toG, R.map]
      · simp [hb, toG]
  | set =>
    by_cases hg : guardOpen rr cap = true
    · simp only [hg, if_true, setRegG_concrete]
    · simp [hg, toG]
  | setConst v =>
    by_cases hg : guardOpen rr cap = true
    · simp only [hg, if_true, setRegG_concrete]
    · simp [hg, toG]

/-! #### Arbitrary devices -/

/-- optional registers return `Some(..)` -/
def wrapG {ε : Type} (rr : RRow) (r : Res (GErr ε) Val) : Res (GErr ε) Val :=
  match rr.guardBit with
  | some _ => mapG Val.some r
  | none => r

theorem runG_get_dev_error {σ ε : Type} (A : ADev σ ε) (rr : RRow) (hk : rr.kind = .get)
    (base cap : Nat) (arg : Arg) (st st' : σ) (e : ε) (a : Nat) (hg : guardOpen rr cap = true)
    (ha : addrOf rr.base base rr.off = .ok a) (hread : A.read st a rr.len = (.error e, st')) :
    rr.runG A base cap arg st = (.err (.dev e), st') := by
  unfold RRow.runG
  rw [hk]
  cases hgb : rr.guardBit with
  | none => simp [getRegG, ha, hread]
  | some bit =>
    have : cap.testBit bit = true := by simpa [guardOpen, hgb] using hg
    simp [this, getRegG, ha, hread, mapG]

theorem runG_get_ok {σ ε : Type} (A : ADev σ ε) (rr : RRow) (hk : rr.kind = .get)
    (base cap : Nat) (arg : Arg) (st st' : σ) (bs : Bytes) (a : Nat) (hg : guardOpen rr cap = true)
    (ha : addrOf rr.base base rr.off = .ok a) (hread : A.read st a rr.len = (.ok bs, st')) :
    rr.runG A base cap arg st = (wrapG rr (liftR (parse rr.dec (fill rr.len bs))), st') := by
  unfold RRow.runG
  rw [hk]
  cases hgb : rr.guardBit with
  | none => simp [getRegG, ha, hread, wrapG, hgb]
  | some bit =>
    have : cap.testBit bit = true := by simpa [guardOpen, hgb] using hg
    simp [this, getRegG, ha, hread, wrapG, hgb]

theorem runG_set {σ ε : Type} (A : ADev σ ε) (rr : RRow) (base cap : Nat) (arg arg' : Arg) (st : σ)
    (buf : Bytes) (a : Nat) (hg : guardOpen rr cap = true)
    (hsel : (rr.kind = .set ∧ arg' = arg) ∨ (∃ v, rr.kind = .setConst v ∧ arg' = .nat v))
    (ha : addrOf rr.base base rr.off = .ok a) (hd : dump rr.dec arg' rr.len = .ok buf) :
    rr.runG A base cap arg st =
      match A.write st a buf with
      | (.ok _, st') => (.ok .unit, st')
      | (.error e, st') => (.err (.dev e), st') := by
  unfold RRow.runG
  rcases hsel with ⟨hk, rfl⟩ | ⟨v, hk, rfl⟩
  · rw [hk]; simp only [hg, if_true, setRegG, ha, hd]
  · rw [hk]; simp only [hg, if_true, setRegG, ha, hd]

end CamVerif.RegMap
