/-
C03 helper lemmas: min / max / inc, max_length, set_min / set_max and
set_entry_by_symbolic against the reference semantics (graphs without formula nodes).
-/
import CamVerif.Proofs.C03SpecW
namespace CamVerif.C03
open CamVerif CamVerif.GenApi CamVerif.GenApiSem

variable {F E : Type}

theorem immFloatValue_iffI (cx : Ctx F E) {d : Nat} (ihB : ValIH cx d) (ihA : SpecIH cx d) (a : ImmOrPNode F) (s : S F) (v : F) :
    R.val (immFloatValue cx (execRec cx d) a) s = .ok v ↔ immFloat cx (valSem cx d) a s = some v := by
  cases a with
  | imm f => simp [immFloatValue, immFloat]
  | pnode p => exact ⟨nidFloatValue_spec ihB, numFloat_exec ihA⟩

theorem sonInt_iffI (cx : Ctx F E) {d : Nat} (ihB : ValIH cx d) (ihA : SpecIH cx d) (a : ImmOrPNode SlotId) (s : S F) (v : Int) :
    R.val (slotOrNodeIntValue cx (execRec cx d) a) s = .ok v ↔ sonInt cx (valSem cx d) a s = some v :=
  ⟨slotOrNodeIntValue_spec ihB, sonInt_exec ihA⟩

theorem sonFloat_iffI (cx : Ctx F E) {d : Nat} (ihB : ValIH cx d) (ihA : SpecIH cx d) (a : ImmOrPNode SlotId) (s : S F) (v : F) :
    R.val (slotOrNodeFloatValue cx (execRec cx d) a) s = .ok v ↔ sonFloat cx (valSem cx d) a s = some v :=
  ⟨slotOrNodeFloatValue_spec ihB, sonFloat_exec ihA⟩

theorem immInt_iffI (cx : Ctx F E) {d : Nat} (ihB : ValIH cx d) (ihA : SpecIH cx d) (a : ImmOrPNode Int) (s : S F) (v : Int) :
    R.val (immIntValue cx (execRec cx d) a) s = .ok v ↔ immInt cx (valSem cx d) a s = some v :=
  ⟨immIntValue_spec ihB, immInt_exec ihA⟩

private theorem maskLen_iffI (cx : Ctx F E) {d : Nat} (ihB : ValIH cx d) (ihA : SpecIH cx d) (rb : RegBase) (s : S F) (v : Int)
    (g : Nat → Res Err Int) :
    R.val (do let len ← regLength cx (execRec cx d) rb; R.ofRes (g (asUsize len))) s = .ok v ↔
      ((immInt cx (valSem cx d) rb.length s).bind fun l => resOpt (g (usizeOf l))) = some v := by
  simp only [R.val_bind, R.val_ofRes, Option.bind_eq_some_iff, usizeOf_eq]
  constructor
  · intro h
    obtain ⟨l, hl, h⟩ := Res.bind_eq_ok h
    exact ⟨l, (immInt_iffI cx ihB ihA _ s l).mp (by simpa [regLength] using hl), resOpt_ok h⟩
  · rintro ⟨l, hl, h⟩
    have := (immInt_iffI cx ihB ihA _ s l).mpr hl
    simp [regLength, this, resOpt_some h]

theorem intMinF_iffI (cx : Ctx F E) {d : Nat} (ihB : ValIH cx d) (ihA : SpecIH cx d) (n : NodeId) (hn : NoFormulaAt cx n) (s : S F) (v : Int) :
    R.val (intMinF cx (execRec cx d) n) s = .ok v ↔ specIntMin cx d n s = some v := by
  unfold intMinF specIntMin specIntMinP
  unfold NoFormulaAt at hn
  cases hg : cx.graph n with
  | none => simp
  | some nd =>
    cases nd <;> simp only [hg] at hn ⊢ <;> try (simp; done)
    · exact sonInt_iffI cx ihB ihA _ s v
    · rename_i rb sign endian
      cases sign <;> simp [I64_MIN, eq_comm]
    · rename_i rb mask sign endian
      unfold maskedMin
      exact maskLen_iffI cx ihB ihA rb s v (fun l => cx.ops.maskMin cx.profile mask l endian sign)

theorem intMaxF_iffI (cx : Ctx F E) {d : Nat} (ihB : ValIH cx d) (ihA : SpecIH cx d) (n : NodeId) (hn : NoFormulaAt cx n) (s : S F) (v : Int) :
    R.val (intMaxF cx (execRec cx d) n) s = .ok v ↔ specIntMax cx d n s = some v := by
  unfold intMaxF specIntMax specIntMaxP
  unfold NoFormulaAt at hn
  cases hg : cx.graph n with
  | none => simp
  | some nd =>
    cases nd <;> simp only [hg] at hn ⊢ <;> try (simp; done)
    · exact sonInt_iffI cx ihB ihA _ s v
    · simp [I64_MAX, eq_comm]
    · rename_i rb mask sign endian
      unfold maskedMax
      exact maskLen_iffI cx ihB ihA rb s v (fun l => cx.ops.maskMax cx.profile mask l endian sign)

theorem intIncF_iffI (cx : Ctx F E) {d : Nat} (ihB : ValIH cx d) (ihA : SpecIH cx d) (n : NodeId) (hn : NoFormulaAt cx n) (s : S F) (v : Option Int) :
    R.val (intIncF cx (execRec cx d) n) s = .ok v ↔ specIntInc cx d n s = some v := by
  unfold intIncF specIntInc specIntIncP
  unfold NoFormulaAt at hn
  cases hg : cx.graph n with
  | none => simp
  | some nd =>
    cases nd <;> simp only [hg] at hn ⊢ <;> try (simp [eq_comm]; done)
    rename_i b vk mn mx inc
    simp only [R.val_bind, Option.map_eq_some_iff]
    constructor
    · intro h
      obtain ⟨x, hx, h⟩ := Res.bind_eq_ok h
      simp at h
      exact ⟨x, (immInt_iffI cx ihB ihA _ s x).mp hx, h⟩
    · rintro ⟨x, hx, rfl⟩
      simp [(immInt_iffI cx ihB ihA _ s x).mpr hx]

theorem floatMinF_iffI (cx : Ctx F E) {d : Nat} (ihB : ValIH cx d) (ihA : SpecIH cx d) (n : NodeId) (hn : NoFormulaAt cx n) (s : S F) (v : F) :
    R.val (floatMinF cx (execRec cx d) n) s = .ok v ↔ specFloatMin cx d n s = some v := by
  unfold floatMinF specFloatMin specFloatMinP
  unfold NoFormulaAt at hn
  cases hg : cx.graph n with
  | none => simp
  | some nd =>
    cases nd <;> simp only [hg] at hn ⊢ <;> try (simp [eq_comm]; done)
    exact sonFloat_iffI cx ihB ihA _ s v

theorem floatMaxF_iffI (cx : Ctx F E) {d : Nat} (ihB : ValIH cx d) (ihA : SpecIH cx d) (n : NodeId) (hn : NoFormulaAt cx n) (s : S F) (v : F) :
    R.val (floatMaxF cx (execRec cx d) n) s = .ok v ↔ specFloatMax cx d n s = some v := by
  unfold floatMaxF specFloatMax specFloatMaxP
  unfold NoFormulaAt at hn
  cases hg : cx.graph n with
  | none => simp
  | some nd =>
    cases nd <;> simp only [hg] at hn ⊢ <;> try (simp [eq_comm]; done)
    exact sonFloat_iffI cx ihB ihA _ s v

theorem floatIncF_iffI (cx : Ctx F E) {d : Nat} (ihB : ValIH cx d) (ihA : SpecIH cx d) (n : NodeId) (hn : NoFormulaAt cx n) (s : S F) (v : Option F) :
    R.val (floatIncF cx (execRec cx d) n) s = .ok v ↔ specFloatInc cx d n s = some v := by
  unfold floatIncF specFloatInc specFloatIncP
  unfold NoFormulaAt at hn
  cases hg : cx.graph n with
  | none => simp
  | some nd =>
    cases nd <;> simp only [hg] at hn ⊢ <;> try (simp [eq_comm]; done)
    rename_i b vk mn mx inc
    cases inc with
    | none => simp [eq_comm]
    | some i =>
      simp only [R.val_bind, Option.map_eq_some_iff]
      constructor
      · intro h
        obtain ⟨x, hx, h⟩ := Res.bind_eq_ok h
        simp at h
        exact ⟨x, (immFloatValue_iffI cx ihB ihA _ s x).mp hx, h⟩
      · rintro ⟨x, hx, rfl⟩
        simp [(immFloatValue_iffI cx ihB ihA _ s x).mpr hx]

/-! the same under the global hypothesis (as used by the setters and by Props/C03.lean) -/

theorem immFloatValue_iff (cx : Ctx F E) (hnf : NoFormulaNodes cx) (d : Nat) (a : ImmOrPNode F) (s : S F) (v : F) :
    R.val (immFloatValue cx (execRec cx d) a) s = .ok v ↔ immFloat cx (valSem cx d) a s = some v :=
  immFloatValue_iffI cx (valIH cx hnf d) (specIH cx hnf d) a s v
theorem sonInt_iff (cx : Ctx F E) (hnf : NoFormulaNodes cx) (d : Nat) (a : ImmOrPNode SlotId) (s : S F) (v : Int) :
    R.val (slotOrNodeIntValue cx (execRec cx d) a) s = .ok v ↔ sonInt cx (valSem cx d) a s = some v :=
  sonInt_iffI cx (valIH cx hnf d) (specIH cx hnf d) a s v
theorem sonFloat_iff (cx : Ctx F E) (hnf : NoFormulaNodes cx) (d : Nat) (a : ImmOrPNode SlotId) (s : S F) (v : F) :
    R.val (slotOrNodeFloatValue cx (execRec cx d) a) s = .ok v ↔ sonFloat cx (valSem cx d) a s = some v :=
  sonFloat_iffI cx (valIH cx hnf d) (specIH cx hnf d) a s v
theorem immInt_iff (cx : Ctx F E) (hnf : NoFormulaNodes cx) (d : Nat) (a : ImmOrPNode Int) (s : S F) (v : Int) :
    R.val (immIntValue cx (execRec cx d) a) s = .ok v ↔ immInt cx (valSem cx d) a s = some v :=
  immInt_iffI cx (valIH cx hnf d) (specIH cx hnf d) a s v
theorem intMinF_iff (cx : Ctx F E) (hnf : NoFormulaNodes cx) (d : Nat) (n : NodeId) (s : S F) (v : Int) :
    R.val (intMinF cx (execRec cx d) n) s = .ok v ↔ specIntMin cx d n s = some v :=
  intMinF_iffI cx (valIH cx hnf d) (specIH cx hnf d) n (hnf n) s v
theorem intMaxF_iff (cx : Ctx F E) (hnf : NoFormulaNodes cx) (d : Nat) (n : NodeId) (s : S F) (v : Int) :
    R.val (intMaxF cx (execRec cx d) n) s = .ok v ↔ specIntMax cx d n s = some v :=
  intMaxF_iffI cx (valIH cx hnf d) (specIH cx hnf d) n (hnf n) s v
theorem intIncF_iff (cx : Ctx F E) (hnf : NoFormulaNodes cx) (d : Nat) (n : NodeId) (s : S F) (v : Option Int) :
    R.val (intIncF cx (execRec cx d) n) s = .ok v ↔ specIntInc cx d n s = some v :=
  intIncF_iffI cx (valIH cx hnf d) (specIH cx hnf d) n (hnf n) s v
theorem floatMinF_iff (cx : Ctx F E) (hnf : NoFormulaNodes cx) (d : Nat) (n : NodeId) (s : S F) (v : F) :
    R.val (floatMinF cx (execRec cx d) n) s = .ok v ↔ specFloatMin cx d n s = some v :=
  floatMinF_iffI cx (valIH cx hnf d) (specIH cx hnf d) n (hnf n) s v
theorem floatMaxF_iff (cx : Ctx F E) (hnf : NoFormulaNodes cx) (d : Nat) (n : NodeId) (s : S F) (v : F) :
    R.val (floatMaxF cx (execRec cx d) n) s = .ok v ↔ specFloatMax cx d n s = some v :=
  floatMaxF_iffI cx (valIH cx hnf d) (specIH cx hnf d) n (hnf n) s v
theorem floatIncF_iff (cx : Ctx F E) (hnf : NoFormulaNodes cx) (d : Nat) (n : NodeId) (s : S F) (v : Option F) :
    R.val (floatIncF cx (execRec cx d) n) s = .ok v ↔ specFloatInc cx d n s = some v :=
  floatIncF_iffI cx (valIH cx hnf d) (specIH cx hnf d) n (hnf n) s v

theorem strMaxLength_iffH (cx : Ctx F E) (hs : IHs cx) :
    ∀ (d : Nat) (n : NodeId) (s : S F) (v : Int),
      R.val ((execRec cx d).strMaxLength n) s = .ok v ↔ specStrMaxLength cx d n s = some v
  | 0, n, s, v => by simp [execRec, Rec.bottom, specStrMaxLength]
  | d + 1, n, s, v => by
    simp only [execRec, step, specStrMaxLength]
    unfold strMaxLengthF
    cases hg : cx.graph n with
    | none => simp
    | some nd =>
      cases nd <;> simp only <;> try (simp; done)
      · rename_i b value
        cases value with
        | imm id => simp [I64_MAX, eq_comm]
        | pnode p =>
          simp only [strValued_eq]
          by_cases hk : isStrKind cx p = true
          · simp only [hk, if_true]; exact strMaxLength_iffH cx hs d p s v
          · simp [hk]
      · exact immInt_iffI cx (hs.val d) (hs.spec d) _ s v

theorem intSetMinF_iffH (cx : Ctx F E) (hs : IHs cx) (d : Nat) (n : NodeId) (v : Int) (s s' : S F) :
    M.eff (intSetMinF cx (execRec cx d) n v) s = (.ok (), s') ↔ specIntSetMin cx d n v s = some s' := by
  unfold intSetMinF specIntSetMin
  cases hg : cx.graph n with
  | none => simp
  | some nd =>
    cases nd <;> simp only <;> try (simp; done)
    exact sonSetInt_iff (hs.set d)

theorem intSetMaxF_iffH (cx : Ctx F E) (hs : IHs cx) (d : Nat) (n : NodeId) (v : Int) (s s' : S F) :
    M.eff (intSetMaxF cx (execRec cx d) n v) s = (.ok (), s') ↔ specIntSetMax cx d n v s = some s' := by
  unfold intSetMaxF specIntSetMax
  cases hg : cx.graph n with
  | none => simp
  | some nd =>
    cases nd <;> simp only <;> try (simp; done)
    exact sonSetInt_iff (hs.set d)

theorem floatSetMinF_iffH (cx : Ctx F E) (hs : IHs cx) (d : Nat) (n : NodeId) (v : F) (s s' : S F) :
    M.eff (floatSetMinF cx (execRec cx d) n v) s = (.ok (), s') ↔ specFloatSetMin cx d n v s = some s' := by
  unfold floatSetMinF specFloatSetMin
  cases hg : cx.graph n with
  | none => simp
  | some nd =>
    cases nd <;> simp only <;> try (simp; done)
    exact sonSetFloat_iff (hs.set d)

theorem floatSetMaxF_iffH (cx : Ctx F E) (hs : IHs cx) (d : Nat) (n : NodeId) (v : F) (s s' : S F) :
    M.eff (floatSetMaxF cx (execRec cx d) n v) s = (.ok (), s') ↔ specFloatSetMax cx d n v s = some s' := by
  unfold floatSetMaxF specFloatSetMax
  cases hg : cx.graph n with
  | none => simp
  | some nd =>
    cases nd <;> simp only <;> try (simp; done)
    exact sonSetFloat_iff (hs.set d)

theorem enumSetByNameF_iffH (cx : Ctx F E) (hs : IHs cx) (d : Nat) (n : NodeId) (name : String)
    (s s' : S F) :
    M.eff (enumSetByNameF cx (execRec cx d) n name) s = (.ok (), s') ↔ specEnumSetByName cx d n name s = some s' := by
  unfold enumSetByNameF specEnumSetByName
  cases hg : cx.graph n with
  | none => simp
  | some nd =>
    cases nd <;> simp only <;> try (simp; done)
    rename_i b entries value
    have key : ∀ v, M.eff (enumSetByValueOf cx (execRec cx d) entries value v) s = (.ok (), s') ↔
        (setSem cx (d + 1)).enum n v s = some s' := by
      intro v
      have := @enumSetByValueF_iff F E cx d (hs.set d) n v s s'
      simpa [enumSetByValueF, hg, setSem] using this
    simp only [M.eff_bind_ok_iff, M.eff_ofRes, Prod.mk.injEq, entryValueNamed_eq, Option.bind_eq_some_iff]
    constructor
    · rintro ⟨o, s1, ⟨ho, rfl⟩, h⟩
      cases o with
      | none => simp [M.eff, M.err] at h
      | some v => exact ⟨v, by simp [ho, resOpt], (key v).mp h⟩
    · rintro ⟨v, hv, h⟩
      cases he : entryValueBySymbolic cx entries name with
      | ok o =>
        cases o with
        | none => simp [he, resOpt] at hv
        | some v' =>
          simp only [he, resOpt, Option.join_some, Option.some.injEq] at hv
          subst hv
          exact ⟨some v', s, ⟨rfl, rfl⟩, (key v').mpr h⟩
      | err e => simp [he, resOpt] at hv
      | panic => simp [he, resOpt] at hv

/-! ### raw `IRegister::read` -/

theorem imageBytes_length : ∀ (mem : Bytes) (k n : Nat) (bs : Bytes), imageBytes mem k n = some bs → bs.length = n
  | _, _, 0, bs, h => by simp [imageBytes] at h; simp [← h]
  | mem, k, n + 1, bs, h => by
    simp only [imageBytes] at h
    cases hk : mem[k]? with
    | none => simp [hk] at h
    | some b =>
      simp only [hk, Option.map_eq_some_iff] at h
      obtain ⟨t, ht, rfl⟩ := h
      simp [imageBytes_length mem (k + 1) n t ht]

theorem imageRead_length {mem : Bytes} {a : Int} {n : Nat} {bs : Bytes} (h : imageRead mem a n = some bs) :
    bs.length = n := by
  unfold imageRead at h
  split at h
  · exact imageBytes_length _ _ _ _ h
  · cases h

theorem regReadF_iffH (cx : Ctx F E) (hs : IHs cx) (d : Nat) (n : NodeId) (bufLen : Nat) (s : S F)
    (bs : Bytes) :
    R.val (regReadF cx (execRec cx d) n bufLen) s = .ok bs ↔ specRegRead cx d n bufLen s = some bs := by
  have ihB := hs.val d
  have ihA := hs.spec d
  unfold regReadF specRegRead
  cases hg : cx.graph n with
  | none => simp
  | some nd =>
    simp only
    cases hr : nd.regBase? with
    | none => simp
    | some rb =>
      simp only [Option.bind_eq_some_iff]
      constructor
      · intro h
        simp only [regRead, R.val_bind] at h
        obtain ⟨a, ha, h1⟩ := Res.bind_eq_ok h
        obtain ⟨l, hl, h2⟩ := Res.bind_eq_ok h1
        unfold readAndCache at h2
        by_cases hm : lenMatches bufLen l = true
        · simp only [hm, Bool.not_true, Bool.false_eq_true, if_false] at h2
          obtain ⟨⟨b, hp⟩, hrd⟩ := portRead_spec h2
          have ha' := sumAddrs_spec ihB rb.addrs 0 a (by simpa [regAddress] using ha)
          have hl' := immIntValue_spec ihB (by simpa [regLength] using hl)
          simp only [lenMatches, Bool.and_eq_true, decide_eq_true_eq] at hm
          obtain ⟨hl0, hbl⟩ := hm
          have hrd' : imageRead s.dev.mem a l.toNat = some bs := by
            rw [← hbl]; simpa using hrd
          refine ⟨bs, ?_, ?_⟩
          · simp [regBytes, hl', ha', hl0, hp]
            rw [← hbl]; exact hrd
          · simp [imageRead_length hrd', hbl]
        · simp [hm] at h2
      · rintro ⟨bs', hb, hlen⟩
        by_cases hbl : bs'.length = bufLen
        · simp only [hbl, if_true, Option.some.injEq] at hlen
          subst hlen
          simp only [regBytes, Option.bind_eq_some_iff, effectiveAddrs_eq] at hb
          obtain ⟨l, hl, a, ha, h⟩ := hb
          by_cases hl0 : 0 ≤ l
          · simp only [hl0, if_true] at h
            cases hgp : cx.graph rb.port with
            | none => simp [hgp] at h
            | some pn =>
              cases pn <;> simp only [hgp] at h <;> try (simp at h; done)
              rename_i b chunk
              cases chunk with
              | true => simp at h
              | false =>
                simp only at h
                have hlen := imageRead_length h
                have hpr : R.val (portRead cx rb.port a bufLen) s = .ok bs' := by
                  have : s.dev.read a l.toNat = some bs' := by simpa using h
                  rw [← hbl, hlen]
                  simp [portRead, hgp, R.val, this]
                have hbl' : bufLen = l.toNat := by omega
                subst hbl'
                have hnl : ¬ l < 0 := by omega
                simp [regRead, regLength, regAddress, immInt_exec ihA hl, addrSum_exec ihA _ _ _ ha,
                  readAndCache, lenMatches, hnl, hpr]
          · simp [hl0] at h
        · simp [hbl] at hlen


/-! the same under the global hypothesis -/

theorem strMaxLength_iff (cx : Ctx F E) (hnf : NoFormulaNodes cx) :
    ∀ (d : Nat) (n : NodeId) (s : S F) (v : Int),
      R.val ((execRec cx d).strMaxLength n) s = .ok v ↔ specStrMaxLength cx d n s = some v :=
  strMaxLength_iffH cx (IHs.ofNoFormula cx hnf)

theorem intSetMinF_iff (cx : Ctx F E) (hnf : NoFormulaNodes cx) (d : Nat) (n : NodeId) (v : Int) (s s' : S F) :
    M.eff (intSetMinF cx (execRec cx d) n v) s = (.ok (), s') ↔ specIntSetMin cx d n v s = some s' :=
  intSetMinF_iffH cx (IHs.ofNoFormula cx hnf) d n v s s'

theorem intSetMaxF_iff (cx : Ctx F E) (hnf : NoFormulaNodes cx) (d : Nat) (n : NodeId) (v : Int) (s s' : S F) :
    M.eff (intSetMaxF cx (execRec cx d) n v) s = (.ok (), s') ↔ specIntSetMax cx d n v s = some s' :=
  intSetMaxF_iffH cx (IHs.ofNoFormula cx hnf) d n v s s'

theorem floatSetMinF_iff (cx : Ctx F E) (hnf : NoFormulaNodes cx) (d : Nat) (n : NodeId) (v : F) (s s' : S F) :
    M.eff (floatSetMinF cx (execRec cx d) n v) s = (.ok (), s') ↔ specFloatSetMin cx d n v s = some s' :=
  floatSetMinF_iffH cx (IHs.ofNoFormula cx hnf) d n v s s'

theorem floatSetMaxF_iff (cx : Ctx F E) (hnf : NoFormulaNodes cx) (d : Nat) (n : NodeId) (v : F) (s s' : S F) :
    M.eff (floatSetMaxF cx (execRec cx d) n v) s = (.ok (), s') ↔ specFloatSetMax cx d n v s = some s' :=
  floatSetMaxF_iffH cx (IHs.ofNoFormula cx hnf) d n v s s'

theorem enumSetByNameF_iff (cx : Ctx F E) (hnf : NoFormulaNodes cx) (d : Nat) (n : NodeId) (name : String)
    (s s' : S F) :
    M.eff (enumSetByNameF cx (execRec cx d) n name) s = (.ok (), s') ↔ specEnumSetByName cx d n name s = some s' :=
  enumSetByNameF_iffH cx (IHs.ofNoFormula cx hnf) d n name s s'

theorem regReadF_iff (cx : Ctx F E) (hnf : NoFormulaNodes cx) (d : Nat) (n : NodeId) (bufLen : Nat) (s : S F)
    (bs : Bytes) :
    R.val (regReadF cx (execRec cx d) n bufLen) s = .ok bs ↔ specRegRead cx d n bufLen s = some bs :=
  regReadF_iffH cx (IHs.ofNoFormula cx hnf) d n bufLen s bs

end CamVerif.C03
