/-
Helper lemmas for C19 (GenTL C API): the emulated register memory, the module ports, frame facts
of `step`.  Property theorems are in `Props/C19.lean`.
-/
import CamVerif.Model.GenTL
namespace CamVerif.GenTL
open CamVerif

/-! ### `read_raw` / `write_raw` -/

theorem slice_eq_ok {ε : Type} {raw : Bytes} {a b : Nat} (h1 : a ≤ b) (h2 : b ≤ raw.length) :
    slice (ε := ε) raw a b = .ok ((raw.drop a).take (b - a)) := by
  simp [slice, h1, h2]

theorem readRaw_cases (m : MapDecl) (raw : Bytes) (a b : Nat) :
    (readRaw m raw a b = .err .invalidAddress ∧ (a > b ∨ b > raw.length)) ∨
    (readRaw m raw a b = .err .addressNotReadable ∧ a ≤ b ∧ b ≤ raw.length ∧
      (m.rightOfRange a b).isReadable = false) ∨
    (readRaw m raw a b = .ok ((raw.drop a).take (b - a)) ∧ a ≤ b ∧ b ≤ raw.length ∧
      (m.rightOfRange a b).isReadable = true) := by
  unfold readRaw
  by_cases h : a > b ∨ b > raw.length
  · simp [h]
  · have h1 : a ≤ b := by omega
    have h2 : b ≤ raw.length := by omega
    by_cases hr : (m.rightOfRange a b).isReadable = true
    · simp [h, hr, slice_eq_ok h1 h2, h1, h2]
    · simp [h, hr, h1, h2]

theorem splice_eq_ok {ε : Type} {raw : Bytes} {a : Nat} {data : Bytes} (h : a + data.length ≤ raw.length) :
    splice (ε := ε) raw a data = .ok (raw.take a ++ data ++ raw.drop (a + data.length)) := by
  simp [splice, h]

theorem splice_length {raw : Bytes} {a : Nat} {data : Bytes} (h : a + data.length ≤ raw.length) :
    (raw.take a ++ data ++ raw.drop (a + data.length)).length = raw.length := by
  simp [List.length_append, List.length_take, List.length_drop]
  omega

theorem writeRaw_cases (m : MapDecl) (raw : Bytes) (a : Nat) (data : Bytes) :
    (writeRaw m raw a data = .err .invalidAddress ∧ (a + data.length ≥ 2 ^ 64 ∨ a + data.length > raw.length)) ∨
    (writeRaw m raw a data = .err .addressNotWritable ∧ a + data.length ≤ raw.length ∧
      (m.rightOfRange a (a + data.length)).isWritable = false) ∨
    (writeRaw m raw a data =
        .ok (raw.take a ++ data ++ raw.drop (a + data.length), fired m a (a + data.length)) ∧
      a + data.length ≤ raw.length ∧ (m.rightOfRange a (a + data.length)).isWritable = true) := by
  unfold writeRaw checkedAdd
  by_cases h0 : a + data.length < 2 ^ 64
  · simp only [h0, if_true]
    by_cases h : a + data.length > raw.length
    · simp [h]
    · have h2 : a + data.length ≤ raw.length := by omega
      by_cases hw : (m.rightOfRange a (a + data.length)).isWritable = true
      · simp [h, hw, splice_eq_ok h2, h2]
      · simp [h, hw, h2]
  · simp [h0]; omega


/-! ### Module ports -/

/-- The three possible outcomes of a raw read lifted to `GenTlError`. -/
theorem liftMem_readRaw_cases (m : MapDecl) (raw : Bytes) (a b : Nat) :
    liftMem (readRaw m raw a b) = .err .invalidAddress ∨
    liftMem (readRaw m raw a b) = .err .accessDenied ∨
    (liftMem (readRaw m raw a b) = .ok ((raw.drop a).take (b - a)) ∧ a ≤ b ∧ b ≤ raw.length) := by
  rcases readRaw_cases m raw a b with ⟨h, _⟩ | ⟨h, _⟩ | ⟨h, h1, h2, _⟩
  · left; simp [h, liftMem, MemErr.toErr]
  · right; left; simp [h, liftMem, MemErr.toErr]
  · right; right; simp [h, liftMem, h1, h2]

theorem sysRead_cases (env : Env) (s : State) (address len : Nat) :
    sysRead env s address len = .err .invalidAddress ∨
    sysRead env s address len = .err .accessDenied ∨
    (sysRead env s address len = .ok ((s.sysMem.drop (asUsize address)).take len) ∧
      asUsize address + len ≤ s.sysMem.length) := by
  unfold sysRead checkedAdd
  by_cases h0 : asUsize address + len < 2 ^ 64
  · simp only [h0, if_true]
    rcases liftMem_readRaw_cases (sysMap env) s.sysMem (asUsize address) (asUsize address + len) with h | h | ⟨h, _, h2⟩
    · exact Or.inl h
    · exact Or.inr (Or.inl h)
    · refine Or.inr (Or.inr ⟨?_, h2⟩)
      rw [h]; simp
  · simp [h0]

theorem ifRead_cases (env : Env) (s : State) (address len : Nat) :
    (ifRead env s address len = .err .notInitialized ∧ s.ifOpen = false) ∨
    ifRead env s address len = .err .invalidAddress ∨
    ifRead env s address len = .err .accessDenied ∨
    (ifRead env s address len = .ok ((s.ifMem.drop (asUsize address)).take len) ∧
      asUsize address + len ≤ s.ifMem.length ∧ s.ifOpen = true) := by
  unfold ifRead checkedAdd
  by_cases ho : s.ifOpen = true
  · simp only [ho, Bool.not_true, Bool.false_eq_true, if_false]
    by_cases h0 : asUsize address + len < 2 ^ 64
    · simp only [h0, if_true]
      rcases liftMem_readRaw_cases (ifMap env) s.ifMem (asUsize address) (asUsize address + len) with h | h | ⟨h, _, h2⟩
      · exact Or.inr (Or.inl h)
      · exact Or.inr (Or.inr (Or.inl h))
      · refine Or.inr (Or.inr (Or.inr ⟨?_, h2, trivial⟩))
        rw [h]; simp
    · simp [h0]
  · left; simp at ho; simp [ho]

/-! ### Access-right folds and the two maps -/

theorem splice_self (raw : Bytes) (a n : Nat) (h : a + n ≤ raw.length) :
    raw.take a ++ (raw.drop a).take n ++ raw.drop (a + n) = raw := by
  have h1 : raw.drop (a + n) = (raw.drop a).drop n := by
    rw [List.drop_drop]
  rw [h1, List.append_assoc, List.take_append_drop, List.take_append_drop]

theorem meet_writable (a b : Access) (h : (a.meet b).isWritable = true) :
    a.isWritable = true ∧ b.isWritable = true := by
  cases a <;> cases b <;> simp_all [Access.meet, Access.isWritable, Access.asNum, Access.isReadable]

theorem meet_readable (a b : Access) (h : (a.meet b).isReadable = true) :
    a.isReadable = true ∧ b.isReadable = true := by
  cases a <;> cases b <;> simp_all [Access.meet, Access.isWritable, Access.asNum, Access.isReadable]

theorem fold_writable (f : Nat → Access) (l : List Nat) (acc : Access)
    (h : (l.foldl (fun acc i => acc.meet (f i)) acc).isWritable = true) :
    acc.isWritable = true ∧ ∀ i ∈ l, (f i).isWritable = true := by
  induction l generalizing acc with
  | nil => exact ⟨h, by simp⟩
  | cons x xs ih =>
    have := ih (acc.meet (f x)) h
    have hm := meet_writable acc (f x) this.1
    refine ⟨hm.1, ?_⟩
    intro i hi
    rcases List.mem_cons.mp hi with rfl | hi
    · exact hm.2
    · exact this.2 i hi

theorem rightAt_writable (m : MapDecl) (i : Nat) (h : (m.rightAt i).isWritable = true) :
    ∃ r ∈ m.regs, r.addr ≤ i ∧ i < r.addr + r.len ∧ r.access.isWritable = true := by
  unfold MapDecl.rightAt at h
  split at h
  · rename_i r heq
    have hp := List.find?_some heq
    have hm := List.mem_of_find?_eq_some heq
    simp only [Bool.and_eq_true, decide_eq_true_eq] at hp
    exact ⟨r, hm, hp.1, hp.2, h⟩
  · simp [Access.isWritable, Access.asNum] at h

theorem sys_writable_at (env : Env) (i : Nat) (h : ((sysMap env).rightAt i).isWritable = true) :
    1028 ≤ i ∧ i < 1032 := by
  obtain ⟨r, hm, h1, h2, hw⟩ := rightAt_writable _ i h
  simp only [sysMap, List.mem_cons, List.mem_nil_iff, or_false] at hm
  rcases hm with rfl | rfl | rfl | rfl | rfl | rfl | rfl | rfl | rfl | rfl <;>
    simp [Access.isWritable, Access.asNum] at hw <;> dsimp only at h1 h2 <;> omega

theorem if_writable_at (env : Env) (i : Nat) (h : ((ifMap env).rightAt i).isWritable = true) :
    i < 8 := by
  obtain ⟨r, hm, h1, h2, hw⟩ := rightAt_writable _ i h
  simp only [ifMap, List.mem_cons, List.mem_nil_iff, or_false] at hm
  rcases hm with rfl | rfl | rfl | rfl | rfl | rfl | rfl | rfl <;>
    simp [Access.isWritable, Access.asNum] at hw <;> dsimp only at h1 h2 <;> omega

theorem range_writable (m : MapDecl) (a b : Nat) (h : (m.rightOfRange a b).isWritable = true) :
    ∀ i, a ≤ i → i < b → (m.rightAt i).isWritable = true := by
  intro i h1 h2
  have := (fold_writable m.rightAt (List.range' a (b - a)) .rw h).2 i
  apply this
  rw [List.mem_range'_1]
  omega

/-! ### The system module's event handler keeps the memory image -/

/-- image of the `InterfaceID` string register -/
def ID_IMAGE (env : Env) : Bytes := padTo 64 env.ifc.id

/-- The interface id fits its 64-byte register (otherwise `SystemModule::new` panics) and the
`InterfaceID` register (1036..1100) holds it. -/
def IdOk (env : Env) (mem : Bytes) : Prop :=
  env.ifc.id.length ≤ 64 ∧ (mem.drop 1036).take 64 = ID_IMAGE env

theorem ID_IMAGE_length (env : Env) (h : env.ifc.id.length ≤ 64) : (ID_IMAGE env).length = 64 := by
  simp [ID_IMAGE, padTo, zeros, List.length_append]
  omega

theorem sysSelectorChange_cases (env : Env) (mem : Bytes) (hl : 1100 ≤ mem.length) (hid : IdOk env mem) :
    sysSelectorChange env mem = .err .invalidIndex ∨ sysSelectorChange env mem = .ok mem := by
  unfold sysSelectorChange
  rw [slice_eq_ok (by omega) (by omega)]
  simp only
  by_cases h : fromLE (List.take (1032 - 1028) (List.drop 1028 mem)) ≥ NUM_INTERFACE
  · left; simp [h]
  · right
    rw [if_neg h]
    have hlen : (padTo 64 env.ifc.id).length = 64 := ID_IMAGE_length env hid.1
    rw [splice_eq_ok (by rw [hlen]; omega), hlen]
    have e : padTo 64 env.ifc.id = (mem.drop 1036).take 64 := hid.2.symm
    rw [e, splice_self mem 1036 64 (by omega)]

theorem sysHandleEvents_spec (env : Env) (mem : Bytes) (q : List Event) (hl : 1100 ≤ mem.length)
    (hid : IdOk env mem) :
    ∃ q', sysHandleEvents env mem q = (mem, q', .ok ()) ∨
      sysHandleEvents env mem q = (mem, q', .err .invalidIndex) := by
  induction q with
  | nil => exact ⟨[], Or.inl rfl⟩
  | cons ev q ih =>
    cases ev with
    | interfaceSelector =>
      rcases sysSelectorChange_cases env mem hl hid with h | h
      · exact ⟨q, Or.inr (by simp [sysHandleEvents, h])⟩
      · obtain ⟨q', hq⟩ := ih
        exact ⟨q', by simpa [sysHandleEvents, h] using hq⟩
    | interfaceUpdateList => obtain ⟨q', hq⟩ := ih; exact ⟨q', by simpa [sysHandleEvents] using hq⟩
    | deviceUpdateList => obtain ⟨q', hq⟩ := ih; exact ⟨q', by simpa [sysHandleEvents] using hq⟩
    | deviceSelector => obtain ⟨q', hq⟩ := ih; exact ⟨q', by simpa [sysHandleEvents] using hq⟩

theorem ifHandleEvents_spec (q : List Event) :
    ∃ q', ifHandleEvents q = (q', .ok ()) ∨ ifHandleEvents q = (q', .err .invalidIndex) ∨
      ifHandleEvents q = (q', .err .notImplemented) := by
  induction q with
  | nil => exact ⟨[], Or.inl rfl⟩
  | cons ev q ih =>
    cases ev with
    | deviceUpdateList => exact ⟨q, Or.inr (Or.inr rfl)⟩
    | deviceSelector => exact ⟨q, Or.inr (Or.inl rfl)⟩
    | interfaceSelector => obtain ⟨q', hq⟩ := ih; exact ⟨q', by simpa [ifHandleEvents] using hq⟩
    | interfaceUpdateList => obtain ⟨q', hq⟩ := ih; exact ⟨q', by simpa [ifHandleEvents] using hq⟩

/-- bytes at or beyond the end of a spliced range are the old ones -/
theorem drop_splice (mem data : Bytes) (a k : Nat) (h : a + data.length ≤ k)
    (hl : a + data.length ≤ mem.length) :
    (mem.take a ++ data ++ mem.drop (a + data.length)).drop k = mem.drop k := by
  have hp : (mem.take a ++ data).length = a + data.length := by
    simp [List.length_append, List.length_take]; omega
  obtain ⟨j, rfl⟩ : ∃ j, k = a + data.length + j := ⟨k - (a + data.length), by omega⟩
  rw [List.drop_append, List.drop_eq_nil_of_le (by rw [hp]; omega), List.nil_append, hp, List.drop_drop]
  congr 1
  omega

/-- a successful system write cannot touch the `InterfaceID` register -/
theorem IdOk_splice (env : Env) (mem data : Bytes) (a : Nat) (hid : IdOk env mem)
    (hl : a + data.length ≤ mem.length)
    (hw : ((sysMap env).rightOfRange a (a + data.length)).isWritable = true) :
    IdOk env (mem.take a ++ data ++ mem.drop (a + data.length)) := by
  refine ⟨hid.1, ?_⟩
  by_cases h0 : data.length = 0
  · have : data = [] := List.eq_nil_of_length_eq_zero h0
    subst this
    simpa using hid.2
  · have hlast := range_writable _ _ _ hw (a + data.length - 1) (by omega) (by omega)
    have := sys_writable_at env _ hlast
    rw [drop_splice mem data a 1036 (by omega) hl]
    exact hid.2

/-! ### Port writes -/

/-- memory after `data` was stored at `a` -/
def stored (mem : Bytes) (a : Nat) (data : Bytes) : Bytes :=
  mem.take a ++ data ++ mem.drop (a + data.length)

theorem sysWrite_cases (env : Env) (s : State) (address : Nat) (data : Bytes)
    (hl : 1100 ≤ s.sysMem.length) (hid : IdOk env s.sysMem) :
    sysWrite env s address data = (s, .err .invalidAddress) ∨
    sysWrite env s address data = (s, .err .accessDenied) ∨
    (∃ q' r, sysWrite env s address data =
        ({ s with sysMem := stored s.sysMem (asUsize address) data, sysQueue := q' }, r)
      ∧ (r = .ok data.length ∨ r = .err .invalidIndex)
      ∧ asUsize address + data.length ≤ s.sysMem.length
      ∧ ((sysMap env).rightOfRange (asUsize address) (asUsize address + data.length)).isWritable = true) := by
  unfold sysWrite checkedAdd
  by_cases h0 : asUsize address + data.length < 2 ^ 64
  · simp only [h0, if_true]
    rcases writeRaw_cases (sysMap env) s.sysMem (asUsize address) data with ⟨h, _⟩ | ⟨h, _⟩ | ⟨h, h2, hw⟩
    · left; simp [h, MemErr.toErr]
    · right; left; simp [h, MemErr.toErr]
    · right; right
      rw [h]
      have hl' : 1100 ≤ (stored s.sysMem (asUsize address) data).length := by
        unfold stored; rw [splice_length h2]; exact hl
      have hid' : IdOk env (stored s.sysMem (asUsize address) data) := IdOk_splice env _ _ _ hid h2 hw
      obtain ⟨q', hq | hq⟩ := sysHandleEvents_spec env _ (s.sysQueue ++ fired (sysMap env) (asUsize address) (asUsize address + data.length)) hl' hid'
      · refine ⟨q', .ok data.length, ?_, Or.inl rfl, h2, hw⟩
        simp only [stored] at hq ⊢
        rw [hq]
      · refine ⟨q', .err .invalidIndex, ?_, Or.inr rfl, h2, hw⟩
        simp only [stored] at hq ⊢
        rw [hq]
  · left; simp [h0]

theorem ifWrite_cases (env : Env) (s : State) (address : Nat) (data : Bytes) :
    (ifWrite env s address data = (s, .err .notInitialized) ∧ s.ifOpen = false) ∨
    ifWrite env s address data = (s, .err .invalidAddress) ∨
    ifWrite env s address data = (s, .err .accessDenied) ∨
    (∃ q' r, ifWrite env s address data =
        ({ s with ifMem := stored s.ifMem (asUsize address) data, ifQueue := q' }, r)
      ∧ (r = .ok data.length ∨ r = .err .invalidIndex ∨ r = .err .notImplemented)
      ∧ asUsize address + data.length ≤ s.ifMem.length ∧ s.ifOpen = true
      ∧ ((ifMap env).rightOfRange (asUsize address) (asUsize address + data.length)).isWritable = true) := by
  unfold ifWrite checkedAdd
  by_cases ho : s.ifOpen = true
  · simp only [ho, Bool.not_true, Bool.false_eq_true, if_false]
    by_cases h0 : asUsize address + data.length < 2 ^ 64
    · simp only [h0, if_true]
      rcases writeRaw_cases (ifMap env) s.ifMem (asUsize address) data with ⟨h, _⟩ | ⟨h, _⟩ | ⟨h, h2, hw⟩
      · right; left; simp [h, MemErr.toErr]
      · right; right; left; simp [h, MemErr.toErr]
      · right; right; right
        rw [h]
        obtain ⟨q', hq | hq | hq⟩ := ifHandleEvents_spec (s.ifQueue ++ fired (ifMap env) (asUsize address) (asUsize address + data.length))
        · exact ⟨q', .ok data.length, by simp [hq, stored], Or.inl rfl, h2, trivial, hw⟩
        · exact ⟨q', .err .invalidIndex, by simp [hq, stored], Or.inr (Or.inl rfl), h2, trivial, hw⟩
        · exact ⟨q', .err .notImplemented, by simp [hq, stored], Or.inr (Or.inr rfl), h2, trivial, hw⟩
    · right; left; simp [h0]
  · left; simp at ho; simp [ho]

/-! ### Frame: port writes touch only the register memories and event queues -/

/-- control part of the state: everything but the register memories and event queues -/
def SameCtl (s s' : State) : Prop :=
  s'.libInit = s.libInit ∧ s'.sysOpen = s.sysOpen ∧ s'.ifOpen = s.ifOpen ∧ s'.lastErr = s.lastErr ∧
  s'.slots = s.slots

theorem SameCtl.rfl' (s : State) : SameCtl s s := ⟨rfl, rfl, rfl, rfl, rfl⟩

theorem sysWrite_ctl (env : Env) (s : State) (a : Nat) (d : Bytes) : SameCtl s (sysWrite env s a d).1 := by
  unfold sysWrite
  repeat' split
  all_goals simp [SameCtl]

theorem ifWrite_ctl (env : Env) (s : State) (a : Nat) (d : Bytes) : SameCtl s (ifWrite env s a d).1 := by
  unfold ifWrite
  repeat' split
  all_goals simp [SameCtl]

theorem portWrite_ctl (env : Env) (s : State) (m : Module) (a : Nat) (d : Bytes) :
    SameCtl s (portWrite env s m a d).1 := by
  cases m
  · exact sysWrite_ctl env s a d
  · exact ifWrite_ctl env s a d

theorem SameCtl.trans {a b c : State} (h1 : SameCtl a b) (h2 : SameCtl b c) : SameCtl a c := by
  obtain ⟨a1, a2, a3, a4, a5⟩ := h1
  obtain ⟨b1, b2, b3, b4, b5⟩ := h2
  exact ⟨b1.trans a1, b2.trans a2, b3.trans a3, b4.trans a4, b5.trans a5⟩

theorem portWriteSized_ctl (env : Env) (s : State) (m : Module) (a size : Nat) (d : Bytes) :
    SameCtl s (portWriteSized env s m a size d).1 := by
  unfold portWriteSized
  split
  · exact portWrite_ctl env s m a d
  · exact SameCtl.rfl' s

theorem portWriteSized_eq_ctl {env : Env} {s s' : State} {m : Module} {a size : Nat} {d : Bytes} {r : GR Nat}
    (h : portWriteSized env s m a size d = (s', r)) : SameCtl s s' := by
  have := portWriteSized_ctl env s m a size d
  rw [h] at this
  exact this

theorem writeStacked_ctl (env : Env) (m : Module) (s : State) (es : List (Nat × Nat × Bytes)) (n : Nat) :
    SameCtl s (writeStacked env m s es n).1 := by
  induction es generalizing s n with
  | nil => simp [writeStacked, SameCtl]
  | cons e es ih =>
    obtain ⟨a, size, data⟩ := e
    unfold writeStacked
    split
    · rename_i s' _ heq
      exact (portWriteSized_eq_ctl heq).trans (ih _ _)
    · rename_i s' _ heq
      exact portWriteSized_eq_ctl heq
    · rename_i s' heq
      exact portWriteSized_eq_ctl heq

theorem portWrite_eq_ctl {env : Env} {s s' : State} {m : Module} {a : Nat} {d : Bytes} {r : GR Nat}
    (h : portWrite env s m a d = (s', r)) : SameCtl s s' := by
  have := portWrite_ctl env s m a d
  rw [h] at this
  exact this

theorem writeStacked_eq_ctl {env : Env} {m : Module} {s s' : State} {es : List (Nat × Nat × Bytes)} {n k : Nat}
    {r : GR Unit} (h : writeStacked env m s es n = (s', k, r)) : SameCtl s s' := by
  have := writeStacked_ctl env m s es n
  rw [h] at this
  exact this

/-- the body of a call never touches `LAST_ERROR` (only the wrapper does) -/
theorem body_lastErr (env : Env) (s : State) (c : Call) : (body env s c).st.lastErr = s.lastErr := by
  cases c <;> simp only [body] <;> (repeat' split) <;> simp [State.setSlot]
  all_goals first
    | exact (portWriteSized_eq_ctl (by assumption)).2.2.2.1
    | exact (writeStacked_eq_ctl (by assumption)).2.2.2.1

/-- effect of a call body on `IS_LIB_INITIALIZED` -/
theorem body_libInit (env : Env) (s : State) (c : Call) :
    (body env s c).st.libInit =
      (match c with | .initLib => true | .closeLib => false | _ => s.libInit) := by
  cases c <;> simp only [body] <;> (repeat' split) <;> simp_all [State.setSlot]
  all_goals first
    | exact (portWriteSized_eq_ctl (by assumption)).1
    | exact (writeStacked_eq_ctl (by assumption)).1

/-- Only `TLOpen` / `TLClose` change `SystemModule::is_opened`. -/
theorem body_sysOpen (env : Env) (s : State) (c : Call)
    (h1 : ∀ k, c ≠ .tlOpen k) (h2 : ∀ h, c ≠ .tlClose h) :
    (body env s c).st.sysOpen = s.sysOpen := by
  cases c <;> simp only [body] <;> (repeat' split) <;> simp_all [State.setSlot]
  all_goals first
    | exact (portWriteSized_eq_ctl (by assumption)).2.1
    | exact (writeStacked_eq_ctl (by assumption)).2.1

/-- Only `TLOpenInterface` / `IFClose` / `TLClose` change `U3VInterfaceModule::is_opened`. -/
theorem body_ifOpen (env : Env) (s : State) (c : Call)
    (h1 : ∀ h id k, c ≠ .tlOpenInterface h id k) (h2 : ∀ h, c ≠ .tlClose h) (h3 : ∀ h, c ≠ .ifClose h) :
    (body env s c).st.ifOpen = s.ifOpen := by
  cases c <;> simp only [body] <;> (repeat' split) <;> simp_all [State.setSlot]
  all_goals first
    | exact (portWriteSized_eq_ctl (by assumption)).2.2.1
    | exact (writeStacked_eq_ctl (by assumption)).2.2.1

theorem Err.code_neg (e : Err) : e.code < 0 := by
  cases e <;> simp [Err.code]

/-! ### Well-formed states: memory sizes and the InterfaceID register -/

/-- Invariant of every reachable state: both memories have the size of their map and the
(read-only) `InterfaceID` register still holds the id written by `initialize_vm`. -/
structure WF (env : Env) (s : State) : Prop where
  sysLen : s.sysMem.length = SYS_XML_ADDRESS + env.sysXml.length
  ifLen : s.ifMem.length = IF_XML_ADDRESS + env.ifXml.length
  idOk : IdOk env s.sysMem

theorem WF.sys1100 {env : Env} {s : State} (h : WF env s) : 1100 ≤ s.sysMem.length := by
  have := h.sysLen
  simp only [SYS_XML_ADDRESS] at this
  omega

theorem WF_congr {env : Env} {s s' : State} (h1 : s'.sysMem = s.sysMem) (h2 : s'.ifMem = s.ifMem)
    (h : WF env s) : WF env s' :=
  ⟨by rw [h1]; exact h.sysLen, by rw [h2]; exact h.ifLen, by rw [h1]; exact h.idOk⟩

theorem stored_length {mem : Bytes} {a : Nat} {data : Bytes} (h : a + data.length ≤ mem.length) :
    (stored mem a data).length = mem.length := splice_length h

theorem sysWrite_wf (env : Env) (s : State) (a : Nat) (d : Bytes) (h : WF env s) :
    WF env (sysWrite env s a d).1 := by
  rcases sysWrite_cases env s a d h.sys1100 h.idOk with e | e | ⟨q', r, e, _, h2, hw⟩
  · rw [e]; exact h
  · rw [e]; exact h
  · rw [e]
    exact ⟨by simp only; rw [stored_length h2]; exact h.sysLen, h.ifLen,
      IdOk_splice env _ _ _ h.idOk h2 hw⟩

theorem ifWrite_wf (env : Env) (s : State) (a : Nat) (d : Bytes) (h : WF env s) :
    WF env (ifWrite env s a d).1 := by
  rcases ifWrite_cases env s a d with ⟨e, _⟩ | e | e | ⟨q', r, e, _, h2, _, _⟩
  · rw [e]; exact h
  · rw [e]; exact h
  · rw [e]; exact h
  · rw [e]
    exact ⟨h.sysLen, by simp only; rw [stored_length h2]; exact h.ifLen, h.idOk⟩

theorem portWrite_wf (env : Env) (s : State) (m : Module) (a : Nat) (d : Bytes) (h : WF env s) :
    WF env (portWrite env s m a d).1 := by
  cases m
  · exact sysWrite_wf env s a d h
  · exact ifWrite_wf env s a d h

theorem portWrite_eq_wf {env : Env} {s s' : State} {m : Module} {a : Nat} {d : Bytes} {r : GR Nat}
    (h : WF env s) (e : portWrite env s m a d = (s', r)) : WF env s' := by
  have := portWrite_wf env s m a d h
  rw [e] at this
  exact this

theorem portWriteSized_wf (env : Env) (s : State) (m : Module) (a size : Nat) (d : Bytes) (h : WF env s) :
    WF env (portWriteSized env s m a size d).1 := by
  unfold portWriteSized
  split
  · exact portWrite_wf env s m a d h
  · exact h

theorem portWriteSized_eq_wf {env : Env} {s s' : State} {m : Module} {a size : Nat} {d : Bytes} {r : GR Nat}
    (h : WF env s) (e : portWriteSized env s m a size d = (s', r)) : WF env s' := by
  have := portWriteSized_wf env s m a size d h
  rw [e] at this
  exact this

theorem writeStacked_wf (env : Env) (m : Module) (s : State) (es : List (Nat × Nat × Bytes)) (n : Nat)
    (h : WF env s) : WF env (writeStacked env m s es n).1 := by
  induction es generalizing s n with
  | nil => simpa [writeStacked] using h
  | cons e es ih =>
    obtain ⟨a, size, data⟩ := e
    unfold writeStacked
    split
    · rename_i s' _ heq
      exact ih _ _ (portWriteSized_eq_wf h heq)
    · rename_i s' _ heq
      exact portWriteSized_eq_wf h heq
    · rename_i s' heq
      exact portWriteSized_eq_wf h heq

theorem writeStacked_eq_wf {env : Env} {m : Module} {s s' : State} {es : List (Nat × Nat × Bytes)} {n k : Nat}
    {r : GR Unit} (h : WF env s) (e : writeStacked env m s es n = (s', k, r)) : WF env s' := by
  have := writeStacked_wf env m s es n h
  rw [e] at this
  exact this

theorem body_wf (env : Env) (s : State) (c : Call) (h : WF env s) : WF env (body env s c).st := by
  cases c <;> simp only [body] <;> (repeat' split)
  all_goals first
    | exact h
    | exact WF_congr (s := s) rfl rfl h
    | exact portWriteSized_eq_wf h (by assumption)
    | exact writeStacked_eq_wf h (by assumption)

end CamVerif.GenTL
