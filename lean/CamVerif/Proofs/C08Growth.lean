/-
Growth round for C08: the event walk is *exactly* the reference layout relation.
`EventsAt` is functional, tiles exactly `scd_len` bytes contiguously, and depends only on
the bytes below `header + scd_len`; hence bytes that follow the announced SCD (a larger
receive buffer) never change an accepted result (the C08-r3-seed2 scenario).
Imports only Proofs/C08 (Props/C08 imports this file).
-/
import CamVerif.Proofs.C08
namespace CamVerif.C08
open CamVerif CamVerif.Ack
open CamVerif.Spec.GenCP (slice uintAt)
open CamVerif.Spec.GenCPAck

/-! ### `EventsAt` is a function of the bytes -/

theorem EventsAt.unique {bs : Bytes} {off rem : Nat} {vs₁ vs₂ : List EventView}
    (h₁ : EventsAt bs off rem vs₁) (h₂ : EventsAt bs off rem vs₂) : vs₁ = vs₂ := by
  induction h₁ generalizing vs₂ with
  | done off =>
    cases h₂ with
    | done => rfl
    | single _ _ _ hr _ => omega
    | multi _ _ _ _ _ hs hr _ _ => omega
  | single off rem hz hr hl =>
    cases h₂ with
    | done => omega
    | single => rfl
    | multi _ _ size _ hsz hs _ _ _ => omega
  | multi off rem size rest hsz hs hr hl _ ih =>
    cases h₂ with
    | done => omega
    | single _ _ hz _ _ => omega
    | multi _ _ size' rest' hsz' hs' hr' hl' hrest' =>
      have : size' = size := by rw [← hsz, ← hsz']
      subst this
      rw [ih hrest']

/-- bytes an event list occupies: Σ (12-byte header + data) -/
def consumed (vs : List EventView) : Nat := (vs.map fun v => 12 + v.dataLen).sum

/-- the events lie back to back: each header starts where the previous data ended -/
def TilesFrom : Nat → List EventView → Prop
  | _, [] => True
  | off, v :: r => v.dataOff = off + 12 ∧ TilesFrom (v.dataOff + v.dataLen) r

theorem EventsAt.tiles {bs : Bytes} {off rem : Nat} {vs : List EventView}
    (h : EventsAt bs off rem vs) :
    consumed vs = rem ∧ TilesFrom off vs ∧ (vs ≠ [] → off + rem ≤ bs.length) := by
  induction h with
  | done off => simp [consumed, TilesFrom]
  | single off rem hz hr hl =>
    refine ⟨?_, ?_, fun _ => hl⟩
    · simp only [consumed, List.map_cons, List.map_nil, List.sum_cons, List.sum_nil]; omega
    · simp [TilesFrom]
  | multi off rem size rest hsz hs hr hl _ ih =>
    obtain ⟨ih1, ih2, ih3⟩ := ih
    refine ⟨?_, ?_, ?_⟩
    · simp only [consumed, List.map_cons, List.sum_cons] at ih1 ⊢; omega
    · simp only [TilesFrom]
      refine ⟨trivial, ?_⟩
      have : off + 12 + (size - 12) = off + size := by omega
      rw [this]; exact ih2
    · intro _
      by_cases hne : rest = []
      · -- rem - size = 0 then
        subst hne
        have : consumed [] = rem - size := ih1
        simp [consumed] at this
        omega
      · have := ih3 hne; omega

theorem EventsAt.bounds {bs : Bytes} {off rem : Nat} {vs : List EventView}
    (h : EventsAt bs off rem vs) :
    ∀ v ∈ vs, off + 12 ≤ v.dataOff ∧ v.dataOff + v.dataLen ≤ off + rem ∧
      v.dataOff + v.dataLen ≤ bs.length := by
  induction h with
  | done off => simp
  | single off rem hz hr hl =>
    intro v hv
    simp only [List.mem_singleton] at hv
    subst hv
    simp only; omega
  | multi off rem size rest hsz hs hr hl _ ih =>
    intro v hv
    rcases List.mem_cons.mp hv with rfl | hv
    · simp only; omega
    · have := ih v hv; omega

/-! ### … and only of the bytes below `off + rem` -/

theorem slice_append_left (pre x : Bytes) (o n : Nat) (h : o + n ≤ pre.length) :
    slice (pre ++ x) o n = slice pre o n := by
  simp only [slice]
  rw [List.drop_append_of_le_length (by omega), List.take_append_of_le_length]
  simp only [List.length_drop]; omega

theorem uintAt_append_left (pre x : Bytes) (o n : Nat) (h : o + n ≤ pre.length) :
    uintAt (pre ++ x) o n = uintAt pre o n := by
  simp only [uintAt, slice_append_left pre x o n h]

theorem eventsAt_append (pre x : Bytes) {off rem : Nat} {vs : List EventView}
    (hb : off + rem ≤ pre.length) :
    EventsAt pre off rem vs ↔ EventsAt (pre ++ x) off rem vs := by
  constructor
  · intro h
    induction h with
    | done off => exact EventsAt.done off
    | single off rem hz hr hl =>
      have e0 := uintAt_append_left pre x off 2 (by omega)
      have e2 := uintAt_append_left pre x (off + 2) 2 (by omega)
      have e4 := uintAt_append_left pre x (off + 4) 8 (by omega)
      rw [← e2, ← e4]
      exact EventsAt.single off rem (by rw [e0]; exact hz) hr
        (by simp only [List.length_append]; omega)
    | multi off rem size rest hsz hs hr hl _ ih =>
      have e0 := uintAt_append_left pre x off 2 (by omega)
      have e2 := uintAt_append_left pre x (off + 2) 2 (by omega)
      have e4 := uintAt_append_left pre x (off + 4) 8 (by omega)
      rw [← e2, ← e4]
      exact EventsAt.multi off rem size rest (by rw [e0]; exact hsz) hs hr
        (by simp only [List.length_append]; omega) (ih (by omega))
  · intro h
    generalize hbs : pre ++ x = bs at h
    induction h with
    | done off => exact EventsAt.done off
    | single off rem hz hr hl =>
      subst hbs
      have e0 := uintAt_append_left pre x off 2 (by omega)
      have e2 := uintAt_append_left pre x (off + 2) 2 (by omega)
      have e4 := uintAt_append_left pre x (off + 4) 8 (by omega)
      rw [e2, e4]
      exact EventsAt.single off rem (by rw [← e0]; exact hz) hr hb
    | multi off rem size rest hsz hs hr hl _ ih =>
      subst hbs
      have e0 := uintAt_append_left pre x off 2 (by omega)
      have e2 := uintAt_append_left pre x (off + 2) 2 (by omega)
      have e4 := uintAt_append_left pre x (off + 4) 8 (by omega)
      rw [e2, e4]
      exact EventsAt.multi off rem size rest (by rw [← e0]; exact hsz) hs hr (by omega)
        (ih (by omega))

/-! ### the walk is the relation -/

theorem map_ofView_toView (bs : Bytes) (evs : List EventScd)
    (h : ∀ e ∈ evs, e.data = slice bs e.dataOff e.data.length) :
    (evs.map toView).map (ofView bs) = evs := by
  induction evs with
  | nil => rfl
  | cons e es ih =>
    simp only [List.map_cons]
    rw [ih (fun x hx => h x (List.mem_cons_of_mem _ hx))]
    congr 1
    have := h e (List.mem_cons_self ..)
    cases e with
    | mk a b c d dat => simp only [toView, ofView] at this ⊢; rw [← this]

/-- The loop returns exactly the reference event list when one exists, an error otherwise. -/
theorem eventLoop_exact (bs : Bytes) (pos rem fuel : Nat) (hf : rem < fuel) :
    (∃ vs, EventsAt bs pos rem vs ∧ eventLoop fuel ⟨bs, pos⟩ rem = .ok (vs.map (ofView bs))) ∨
    ((¬ ∃ vs, EventsAt bs pos rem vs) ∧ IsErr (eventLoop fuel ⟨bs, pos⟩ rem)) := by
  cases hres : eventLoop fuel ⟨bs, pos⟩ rem with
  | ok evs =>
    left
    obtain ⟨h1, h2⟩ := eventLoop_sound bs fuel pos rem evs hres
    refine ⟨evs.map toView, h1, ?_⟩
    rw [map_ofView_toView bs evs (fun e he => (h2 e he).1)]
  | err e =>
    right
    refine ⟨?_, ⟨e, rfl⟩⟩
    rintro ⟨vs, hvs⟩
    have := eventLoop_complete bs pos rem vs hvs fuel hf
    rw [hres] at this
    cases this
  | panic => exact absurd hres (eventLoop_ne_panic bs fuel pos rem hf)

theorem map_ofView_append (pre x : Bytes) {off rem : Nat} {vs : List EventView}
    (h : EventsAt pre off rem vs) : vs.map (ofView (pre ++ x)) = vs.map (ofView pre) := by
  apply List.map_congr_left
  intro v hv
  have hb := EventsAt.bounds h v hv
  simp only [ofView]
  rw [slice_append_left pre x v.dataOff v.dataLen hb.2.2]

end CamVerif.C08
