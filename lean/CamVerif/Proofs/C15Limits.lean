/-
Helper lemmas for the negotiated-limits layer of C15 (`Model/StreamingLimits.lean`).
-/
import CamVerif.Proofs.C15
import CamVerif.Model.StreamingLimits
namespace CamVerif.C15
open CamVerif CamVerif.Streaming

/-! ## `Prim.single` is the model of `Model/Streaming.lean` -/

theorem readRegG_single : readRegG Prim.single = readReg := rfl
theorem writeReg32G_single : writeReg32G Prim.single = writeReg32 := rfl
theorem getSbrmG_single : getSbrmG Prim.single = getSbrm := rfl
theorem getSirmG_single : getSirmG Prim.single = getSirm := rfl
theorem readInputsG_single : readInputsG Prim.single = readInputs := rfl

theorem writeAllG_single (s : Nat) (ws : List (Nat × Nat)) : writeAllG Prim.single s ws = writeAll s ws := by
  induction ws with
  | nil => rfl
  | cons w ws ih =>
    obtain ⟨off, v⟩ := w
    simp only [writeAllG, writeAll, ih, writeReg32G_single]

theorem prepareAtG_single (p : Profile) (s : Nat) : prepareAtG Prim.single p s = prepareAt p s := by
  simp only [prepareAtG, prepareAt, readInputsG_single, writeAllG_single]

theorem enableAtG_single (p : Profile) (s : Nat) : enableAtG Prim.single p s = enableAt p s := by
  simp only [enableAtG, enableAt, prepareAtG_single, writeReg32G_single]

theorem enableStreamingG_single (p : Profile) : enableStreamingG Prim.single p = enableStreaming p := by
  simp only [enableStreamingG, enableStreaming, getSirmG_single, enableAtG_single]

theorem disableStreamingG_single : disableStreamingG Prim.single = disableStreaming := rfl
theorem fromControlG_single : fromControlG Prim.single = fromControl := rfl
theorem startStreamingLoopG_single : startStreamingLoopG Prim.single = startStreamingLoop := rfl

/-! ## Limits that admit the access in one command -/

theorem readLoopL_one (L : Limits) (m fuel a n : Nat) (hc : 24 ≤ L.maxCmd) (hn : 0 < n) (hm : n ≤ m) :
    readLoopL L m (fuel + 1) a n = devRead a n := by
  funext st
  have h1 : ¬ n = 0 := by omega
  have h2 : ¬ L.maxCmd < 24 := by omega
  have h3 : min m n = n := by omega
  simp only [readLoopL, h1, h2, if_false, h3, Nat.sub_self]
  show ((devRead a n >>= fun bs => readLoopL L m fuel (a + n) 0 >>= fun rest => pure (bs ++ rest)) st) = _
  rw [M.bind_eq]
  cases h : devRead a n st with
  | mk r st' =>
    cases r with
    | ok bs =>
      cases fuel <;> simp [readLoopL, M.bind_eq, pure, M.pure]
    | err e => rfl
    | panic => rfl

/-- a read that fits into one acknowledge is one command -/
theorem devReadL_single (L : Limits) (a n : Nat) (hc : 24 ≤ L.maxCmd) (hn : 0 < n) (hn2 : n ≤ 65535)
    (ha : n + 12 ≤ L.maxAck) : devReadL L a n = devRead a n := by
  unfold devReadL
  rw [if_neg (by omega)]
  obtain ⟨k, rfl⟩ : ∃ k, n = k + 1 := ⟨n - 1, by omega⟩
  exact readLoopL_one L _ k a (k + 1) hc (by omega) (by omega)

/-- a write that fits into one command is one command -/
theorem devWriteL_single (L : Limits) (a : Nat) (d : Bytes) (hd : 0 < d.length)
    (hc : d.length + 20 ≤ L.maxCmd) : devWriteL L a d = devWrite a d := by
  unfold devWriteL
  rw [if_neg (by omega), if_neg (by omega)]
  obtain ⟨k, hk⟩ : ∃ k, d.length = k + 1 := ⟨d.length - 1, by omega⟩
  rw [hk]
  simp only [writeLoopL]
  rw [if_neg (by omega), if_neg (by omega)]

theorem writeReg32G_limits (L : Limits) (hc : 24 ≤ L.maxCmd) (base off v : Nat) :
    writeReg32G (Prim.limits L) base off v = writeReg32 base off v := by
  have h : ∀ a, devWriteL L a (toLE 4 v) = devWrite a (toLE 4 v) := fun a =>
    devWriteL_single L a _ (by simp) (by simp; omega)
  simp only [writeReg32G, writeReg32, Prim.limits, h]

theorem readRegG_limits (L : Limits) (hc : 24 ≤ L.maxCmd) (base off len : Nat) (hl : 0 < len)
    (hl2 : len ≤ 65535) (ha : len + 12 ≤ L.maxAck) :
    readRegG (Prim.limits L) base off len = readReg base off len := by
  simp only [readRegG, readReg, Prim.limits]
  simp only [devReadL_single L _ len hc hl hl2 ha]

/-! ## The generic program logic: primitives that only log reads / write like `devWrite` -/

/-- what the theorems need from the primitives: a read appends read entries only (any number of
them), never changes the image, surfaces every failed command as `Err`; a 4 byte register write
is one command. -/
structure _root_.CamVerif.Streaming.Prim.Sound (π : Prim) : Prop where
  rd_ext : ∀ (P : Access → Prop), (∀ a n ok, P (.r a n ok)) → ∀ a n, Ext P (π.rd a n)
  wr4 : ∀ base off v, writeReg32G π base off v = writeReg32 base off v

theorem Ext.readLoopL {P : Access → Prop} (hr : ∀ a n ok, P (.r a n ok)) (L : Limits) (m fuel a n : Nat) :
    Ext P (readLoopL L m fuel a n) := by
  induction fuel generalizing a n with
  | zero => exact Ext.pure _
  | succ fuel ih =>
    unfold CamVerif.Streaming.readLoopL
    refine Ext.ite _ (Ext.pure _) (Ext.ite _ (Ext.fail _) ?_)
    exact Ext.bind (Ext.devRead _ _ (hr _ _)) fun _ => Ext.bind (ih _ _) fun _ => Ext.pure _

theorem Ext.devReadL {P : Access → Prop} (hr : ∀ a n ok, P (.r a n ok)) (L : Limits) (a n : Nat) :
    Ext P (devReadL L a n) := by
  unfold CamVerif.Streaming.devReadL
  exact Ext.ite _ (Ext.fail _) (Ext.readLoopL hr L _ _ _ _)

/-- every pair of limits with `max_cmd >= 24` (whatever `max_ack` is) -/
theorem Prim.limits_sound (L : Limits) (hc : 24 ≤ L.maxCmd) : (Prim.limits L).Sound :=
  ⟨fun _ hr a n => Ext.devReadL hr L a n, writeReg32G_limits L hc⟩

theorem Prim.single_sound : Prim.single.Sound :=
  ⟨fun _ hr a n => Ext.devRead a n (hr a n), fun _ _ _ => rfl⟩

theorem Ext.readRegG {P : Access → Prop} {π : Prim} (hπ : π.Sound) (hr : ∀ a n ok, P (.r a n ok))
    (base off len : Nat) : Ext P (readRegG π base off len) := by
  unfold CamVerif.Streaming.readRegG
  exact Ext.bind (Ext.lift _) fun a => Ext.bind (Ext.lift _) fun _ =>
    Ext.bind (hπ.rd_ext P hr a len) fun _ => Ext.pure _

theorem writeAllG_sound {π : Prim} (hπ : π.Sound) (s : Nat) (ws : List (Nat × Nat)) :
    writeAllG π s ws = writeAll s ws := by
  induction ws with
  | nil => rfl
  | cons w ws ih =>
    obtain ⟨off, v⟩ := w
    simp only [writeAllG, writeAll, ih, hπ.wr4]

theorem readInputsG_quiet {π : Prim} (hπ : π.Sound) (s : Nat) : Ext (Quiet s) (readInputsG π s) := by
  have hr : ∀ a n ok, Quiet s (.r a n ok) := quiet_read s
  have rest : Ext (Quiet s) (do
      let info ← readRegG π s SI_INFO 4
      let align ← M.lift (payloadSizeAlignment info)
      let align ← M.lift (alignmentU32 align)
      let reqLeader ← readRegG π s REQUIRED_LEADER_SIZE 4
      let reqPayload ← readRegG π s REQUIRED_PAYLOAD_SIZE 8
      let reqTrailer ← readRegG π s REQUIRED_TRAILER_SIZE 4
      pure (⟨align, reqLeader, reqPayload, reqTrailer⟩ : Inputs)) :=
    Ext.bind (Ext.readRegG hπ hr _ _ _) fun _ => Ext.bind (Ext.lift _) fun _ => Ext.bind (Ext.lift _) fun _ =>
      Ext.bind (Ext.readRegG hπ hr _ _ _) fun _ => Ext.bind (Ext.readRegG hπ hr _ _ _) fun _ =>
        Ext.bind (Ext.readRegG hπ hr _ _ _) fun _ => Ext.pure _
  unfold readInputsG
  refine Ext.bind (Ext.readRegG hπ hr _ _ _) fun ctrl => ?_
  by_cases hc : ctrl % 2 = 1
  · simp only [hc, if_true, hπ.wr4]
    exact Ext.bind (Ext.writeReg32 _ _ _ (fun ok ap => quiet_write_even s 0 ok ap rfl)) fun _ => rest
  · simp only [hc, if_false]
    exact rest

theorem prepareAtG_quiet {π : Prim} (hπ : π.Sound) (p : Profile) (s : Nat) :
    Ext (Quiet s) (prepareAtG π p s) := by
  unfold prepareAtG
  refine Ext.bind (readInputsG_quiet hπ s) fun i => ?_
  refine Ext.bind (Ext.lift _) fun sz => ?_
  rw [writeAllG_sound hπ]
  apply Ext.writeAll
  intro w hw ok ap
  simp only [sizeWrites, List.mem_cons, List.not_mem_nil, or_false] at hw
  rcases hw with rfl | rfl | rfl | rfl | rfl | rfl <;>
    exact quiet_write_above s _ _ ok ap (by simp [SI_CONTROL, PAYLOAD_TRANSFER_SIZE_REG,
      PAYLOAD_TRANSFER_COUNT, PAYLOAD_FINAL_TRANSFER1_SIZE, PAYLOAD_FINAL_TRANSFER2_SIZE,
      MAXIMUM_LEADER_SIZE, MAXIMUM_TRAILER_SIZE])

theorem getSbrmG_reads {π : Prim} (hπ : π.Sound) : Ext Access.isRead (getSbrmG π) := by
  have hr : ∀ a n ok, Access.isRead (.r a n ok) := fun _ _ _ => trivial
  unfold getSbrmG
  refine Ext.bind Ext.get fun st => ?_
  cases st.sbrm with
  | some x => exact Ext.pure _
  | none =>
    exact Ext.bind (Ext.readRegG hπ hr _ _ _) fun _ => Ext.bind (Ext.readRegG hπ hr _ _ _) fun _ =>
      Ext.bind (Ext.setSbrm _) fun _ => Ext.pure _

theorem getSirmG_reads {π : Prim} (hπ : π.Sound) : Ext Access.isRead (getSirmG π) := by
  have hr : ∀ a n ok, Access.isRead (.r a n ok) := fun _ _ _ => trivial
  unfold getSirmG
  refine Ext.bind Ext.get fun st => ?_
  cases st.sirm with
  | some x => exact Ext.pure _
  | none =>
    refine Ext.bind (getSbrmG_reads hπ) fun x => ?_
    obtain ⟨sb, cap⟩ := x
    exact Ext.ite (cap % 2 = 1) (Ext.bind (Ext.readRegG hπ hr _ _ _) fun _ => Ext.bind (Ext.setSirm _) fun _ => Ext.pure _)
      (Ext.fail _)

/-- `enableAt_any` for sound primitives (same statement; the quiet prefix may now contain any
number of read commands per register). -/
theorem enableAtG_any {π : Prim} (hπ : π.Sound) (p : Profile) (s : Nat) (st : St) :
    ∃ quiet last, (enableAtG π p s st).2.dev.log = st.dev.log ++ (quiet ++ last) ∧
      (enableAtG π p s st).2.dev.mem = replay (quiet ++ last) st.dev.mem ∧
      (∀ a ∈ quiet, Quiet s a) ∧
      ((∀ e, (enableAtG π p s st).1 ≠ .err e) → ∀ a ∈ quiet, a.succeeded = true) ∧
      ((last = [] ∧ (enableAtG π p s st).1 ≠ .ok ()) ∨
       ∃ ok ap, last = [.w (s + SI_CONTROL) (toLE 4 1) ok ap] ∧
         (ok = true ↔ (enableAtG π p s st).1 = .ok ()) ∧ (ok = true → ap = true) ∧
         (ok = false → ∃ e, (enableAtG π p s st).1 = .err e)) := by
  obtain ⟨n1, h1, h2, h3, h4⟩ := prepareAtG_quiet hπ p s st
  unfold enableAtG
  rw [hπ.wr4, M.bind_eq]
  cases hp : prepareAtG π p s st with
  | mk r st' =>
    rw [hp] at h1 h2 h4
    have h1' : st'.dev.log = st.dev.log ++ n1 := h1
    have h2' : st'.dev.mem = replay n1 st.dev.mem := h2
    cases r with
    | err e => exact ⟨n1, [], by simpa using h1', by simpa using h2', h3, fun h => absurd rfl (h e), Or.inl ⟨rfl, by simp⟩⟩
    | panic => exact ⟨n1, [], by simpa using h1', by simpa using h2', h3, fun _ => h4 (by simp), Or.inl ⟨rfl, by simp⟩⟩
    | ok u =>
      simp only []
      rcases writeReg32_cases s SI_CONTROL 1 st' with ⟨g1, g2⟩ | ⟨ok, ap, g1, g2, g3, g4, g5⟩
      · exact ⟨n1, [], by simp [g1, h1'], by simp [g1, h2'], h3, fun _ => h4 (by simp), Or.inl ⟨rfl, g2⟩⟩
      · refine ⟨n1, [.w (s + SI_CONTROL) (toLE 4 1) ok ap], ?_, ?_, h3, fun _ => h4 (by simp), Or.inr ⟨ok, ap, rfl, g3, g4, g5⟩⟩
        · rw [g1, h1', List.append_assoc]
        · rw [g2, h2', replay_append]

theorem enableStreamingG_factors (π : Prim) (p : Profile) (st : St) :
    enableStreamingG π p st =
      match getSirmG π st with
      | (.ok s, st1) => enableAtG π p s st1
      | (.err e, st1) => (.err e, st1)
      | (.panic, st1) => (.panic, st1) := by
  unfold enableStreamingG
  rw [M.bind_eq]
  cases getSirmG π st with
  | mk r st1 => cases r <;> rfl

/-! ## Limits that refuse every read -/

/-- every non-empty read is refused before any command is sent -/
def _root_.CamVerif.Streaming.Prim.Refuses (π : Prim) : Prop := ∀ a n st, 0 < n → π.rd a n st = (.err .io, st)

theorem Prim.limits_refuses (L : Limits) (h : L.maxCmd < 24 ∨ L.maxAck ≤ 12) : (Prim.limits L).Refuses := by
  intro a n st hn
  show devReadL L a n st = _
  unfold devReadL
  by_cases ha : L.maxAck ≤ 12
  · rw [if_pos ha]; rfl
  · rw [if_neg ha]
    have hc : L.maxCmd < 24 := by omega
    obtain ⟨k, rfl⟩ : ∃ k, n = k + 1 := ⟨n - 1, by omega⟩
    simp only [readLoopL]
    rw [if_neg (by omega), if_pos hc]; rfl

theorem readRegG_refused {π : Prim} (hπ : π.Refuses) (base off len : Nat) (hl : 0 < len) (st : St) :
    ∃ e, readRegG π base off len st = (.err e, st) := by
  unfold readRegG
  cases h1 : regAddr base off with
  | err e => exact ⟨e, by simp [M.lift, bind, M.bind]⟩
  | panic => simp [regAddr] at h1; split at h1 <;> cases h1
  | ok a =>
    cases h2 : verifyRange a len with
    | err e => exact ⟨e, by simp [M.lift, bind, M.bind, h2]⟩
    | panic => simp [verifyRange] at h2; split at h2 <;> cases h2
    | ok u => exact ⟨.io, by simp [M.lift, bind, M.bind, h2, hπ a len st hl]⟩

theorem getSirmG_refused {π : Prim} (hπ : π.Refuses) (st : St) (h : st.sirm = none) :
    ∃ e, getSirmG π st = (.err e, st) := by
  unfold getSirmG
  show ∃ e, (M.get >>= _) st = _
  rw [M.get_bind]
  simp only [h]
  cases hsb : st.sbrm with
  | none =>
    obtain ⟨e, he⟩ := readRegG_refused hπ 0 ABRM_SBRM_ADDRESS 8 (by omega) st
    refine ⟨e, ?_⟩
    simp only [getSbrmG, bind, M.bind, M.get, hsb, he]
  | some x =>
    obtain ⟨sb, cap⟩ := x
    by_cases hc : cap % 2 = 1
    · obtain ⟨e, he⟩ := readRegG_refused hπ sb SBRM_SIRM_ADDRESS 8 (by omega) st
      refine ⟨e, ?_⟩
      simp only [getSbrmG, bind, M.bind, M.get, hsb, pure, M.pure, hc, if_true, he]
    · exact ⟨.invalidDevice, by simp only [getSbrmG, bind, M.bind, M.get, hsb, pure, M.pure, hc, if_false, M.fail]⟩

theorem enableAtG_refused {π : Prim} (hπ : π.Refuses) (p : Profile) (s : Nat) (st : St) :
    ∃ e, enableAtG π p s st = (.err e, st) := by
  obtain ⟨e, he⟩ := readRegG_refused hπ s SI_CONTROL 4 (by omega) st
  exact ⟨e, by simp only [enableAtG, prepareAtG, readInputsG, bind, M.bind, he]⟩

theorem enableStreamingG_refused {π : Prim} (hπ : π.Refuses) (p : Profile) (st : St) :
    ∃ e, enableStreamingG π p st = (.err e, st) := by
  cases hs : st.sirm with
  | none =>
    obtain ⟨e, he⟩ := getSirmG_refused hπ st hs
    exact ⟨e, by simp only [enableStreamingG, bind, M.bind, he]⟩
  | some s =>
    obtain ⟨e, he⟩ := enableAtG_refused hπ p s st
    refine ⟨e, ?_⟩
    have : getSirmG π st = (.ok s, st) := by
      unfold getSirmG
      show (M.get >>= _) st = _
      rw [M.get_bind]; simp only [hs]; rfl
    simp only [enableStreamingG, bind, M.bind, this, he]

/-! ## Fault-free devices: split reads are invisible (simulation) -/

/-- the write entries of a log -/
def writesOf (l : List Access) : List Access :=
  l.filter fun a => match a with
    | .w _ _ _ _ => true
    | .r _ _ _ => false

theorem writesOf_append (l1 l2 : List Access) : writesOf (l1 ++ l2) = writesOf l1 ++ writesOf l2 := by
  simp [writesOf]

theorem writesOf_reads (l : List Access) (h : ∀ a ∈ l, a.isRead) : writesOf l = [] := by
  induction l with
  | nil => rfl
  | cons a l ih =>
    cases a with
    | r _ _ _ => simpa [writesOf] using ih (fun a ha => h a (by simp [ha]))
    | w a d ok ap => exact (h (.w a d ok ap) (by simp)).elim

/-- two handle states over fault-free devices that differ only in the read entries of the log -/
structure Rel (x y : St) : Prop where
  mem : x.dev.mem = y.dev.mem
  sbrm : x.sbrm = y.sbrm
  sirm : x.sirm = y.sirm
  fx : x.dev.faults = []
  fy : y.dev.faults = []
  writes : writesOf x.dev.log = writesOf y.dev.log

theorem Rel.refl (st : St) (h : st.dev.faults = []) : Rel st st := ⟨rfl, rfl, rfl, h, h, rfl⟩

/-- from related states `x` and `y` return the same result and end in related states -/
def Sim {α : Type} (x y : M α) : Prop :=
  ∀ s t, Rel s t → (x s).1 = (y t).1 ∧ Rel (x s).2 (y t).2

theorem Sim.bind {α β : Type} {x x' : M α} {f f' : α → M β} (hx : Sim x x') (hf : ∀ a, Sim (f a) (f' a)) :
    Sim (x >>= f) (x' >>= f') := by
  intro s t h
  obtain ⟨h1, h2⟩ := hx s t h
  rw [M.bind_eq, M.bind_eq]
  cases hxs : x s with
  | mk r s' =>
    cases hxt : x' t with
    | mk r' t' =>
      rw [hxs, hxt] at h1 h2
      simp only at h1 h2
      subst h1
      cases r with
      | ok a => exact hf a s' t' h2
      | err e => exact ⟨rfl, h2⟩
      | panic => exact ⟨rfl, h2⟩

theorem Sim.pure {α : Type} (a : α) : Sim (pure a : M α) (pure a) := fun _ _ h => ⟨rfl, h⟩
theorem Sim.lift {α : Type} (r : R α) : Sim (M.lift r) (M.lift r) := fun _ _ h => ⟨rfl, h⟩
theorem Sim.fail {α : Type} (e : Err) : Sim (M.fail e : M α) (M.fail e) := fun _ _ h => ⟨rfl, h⟩
theorem Sim.setSbrm (x) : Sim (setSbrmCache x) (setSbrmCache x) :=
  fun _ _ h => ⟨rfl, ⟨h.mem, rfl, h.sirm, h.fx, h.fy, h.writes⟩⟩
theorem Sim.setSirm (x) : Sim (setSirmCache x) (setSirmCache x) :=
  fun _ _ h => ⟨rfl, ⟨h.mem, h.sbrm, rfl, h.fx, h.fy, h.writes⟩⟩

theorem Sim.ite {α : Type} (c : Prop) [Decidable c] {x x' y y' : M α} (hx : Sim x x') (hy : Sim y y') :
    Sim (if c then x else y) (if c then x' else y') := by
  split <;> assumption

/-- `M.get >>= f`: the continuation sees the two related states -/
theorem Sim.get_bind {β : Type} {f f' : St → M β}
    (h : ∀ s t, Rel s t → (f s s).1 = (f' t t).1 ∧ Rel (f s s).2 (f' t t).2) :
    Sim (M.get >>= f) (M.get >>= f') := by
  intro s t hr
  rw [M.get_bind, M.get_bind]
  exact h s t hr

theorem Sim.devWrite (a : Nat) (d : Bytes) : Sim (devWrite a d) (devWrite a d) := by
  intro s t h
  simp only [CamVerif.Streaming.devWrite, Dev.write, h.fx, h.fy, popFault, h.mem]
  split
  · exact ⟨rfl, ⟨rfl, h.sbrm, h.sirm, rfl, rfl, by simp [writesOf_append, h.writes]⟩⟩
  · exact ⟨rfl, ⟨rfl, h.sbrm, h.sirm, rfl, rfl, by simp [writesOf_append, h.writes]⟩⟩

/-- append read entries to the log -/
def addLog (s : St) (rs : List Access) : St := { s with dev := { s.dev with log := s.dev.log ++ rs } }

theorem Rel.addLog {s t : St} (h : Rel s t) (rs rt : List Access) (hs : ∀ a ∈ rs, a.isRead)
    (ht : ∀ a ∈ rt, a.isRead) : Rel (addLog s rs) (addLog t rt) :=
  ⟨h.mem, h.sbrm, h.sirm, h.fx, h.fy, by
    show writesOf (s.dev.log ++ rs) = writesOf (t.dev.log ++ rt)
    rw [writesOf_append, writesOf_append, writesOf_reads _ hs, writesOf_reads _ ht, h.writes]⟩

theorem Mem.read_add (m : Mem) (a k j : Nat) : m.read a (k + j) = m.read a k ++ m.read (a + k) j := by
  simp [Mem.read, List.range_add, List.map_append, List.map_map, Nat.add_assoc, Function.comp_def]

theorem Mem.rangeMapped_add (m : Mem) (a k j : Nat) :
    m.rangeMapped a (k + j) = (m.rangeMapped a k && m.rangeMapped (a + k) j) := by
  simp [Mem.rangeMapped, List.range_add, List.all_append, List.all_map, Nat.add_assoc, Function.comp_def]

/-- the outcome of a single-command read on a fault-free device -/
def readOutcome (m : Mem) (a n : Nat) : R Bytes :=
  if m.rangeMapped a n then .ok (m.read a n) else .err .io

theorem devRead_faultfree (a n : Nat) (s : St) (hf : s.dev.faults = []) :
    ∃ rs, (∀ r ∈ rs, r.isRead) ∧ devRead a n s = (readOutcome s.dev.mem a n, addLog s rs) := by
  obtain ⟨⟨m, log, f⟩, c1, c2⟩ := s
  simp only at hf; subst hf
  simp only [CamVerif.Streaming.devRead, Dev.read, popFault, readOutcome, addLog]
  split
  · exact ⟨[.r a n true], by simp [Access.isRead], rfl⟩
  · exact ⟨[.r a n false], by simp [Access.isRead], rfl⟩

theorem addLog_nil (s : St) : addLog s [] = s := by
  obtain ⟨⟨m, log, f⟩, c1, c2⟩ := s
  simp [addLog]

theorem addLog_addLog (s : St) (r1 r2 : List Access) : addLog (addLog s r1) r2 = addLog s (r1 ++ r2) := by
  simp [addLog, List.append_assoc]

/-- **chunked read = single read** on a fault-free device: whatever the piece length `m >= 1`, the
loop returns exactly the bytes (or the error) of one read of `n` bytes, changes nothing but the
log, and logs reads only. -/
theorem readLoopL_faultfree (L : Limits) (hc : 24 ≤ L.maxCmd) (m : Nat) (hm : 0 < m) (fuel a n : Nat)
    (hn : n ≤ fuel) (s : St) (hf : s.dev.faults = []) :
    ∃ rs, (∀ r ∈ rs, r.isRead) ∧
      readLoopL L m fuel a n s = (readOutcome s.dev.mem a n, addLog s rs) := by
  induction fuel generalizing a n s with
  | zero =>
    have : n = 0 := by omega
    subst this
    exact ⟨[], by simp, by simp [readLoopL, readOutcome, Mem.rangeMapped, Mem.read, addLog_nil, pure, M.pure]⟩
  | succ fuel ih =>
    by_cases h0 : n = 0
    · subst h0
      exact ⟨[], by simp, by simp [readLoopL, readOutcome, Mem.rangeMapped, Mem.read, addLog_nil, pure, M.pure]⟩
    · have hk : min m n + (n - min m n) = n := by omega
      obtain ⟨r1, hr1, e1⟩ := devRead_faultfree a (min m n) s hf
      simp only [readLoopL, h0, if_false, show ¬ L.maxCmd < 24 by omega]
      show ∃ rs, _ ∧ ((devRead a (min m n) >>= fun bs =>
        readLoopL L m fuel (a + min m n) (n - min m n) >>= fun rest => Pure.pure (bs ++ rest)) s) = _
      rw [M.bind_eq, e1]
      have hsplitM := Mem.rangeMapped_add s.dev.mem a (min m n) (n - min m n)
      have hsplitR := Mem.read_add s.dev.mem a (min m n) (n - min m n)
      rw [hk] at hsplitM hsplitR
      by_cases hmap : s.dev.mem.rangeMapped a (min m n) = true
      · have hf' : (addLog s r1).dev.faults = [] := hf
        obtain ⟨r2, hr2, e2⟩ := ih (a + min m n) (n - min m n) (by omega) (addLog s r1) hf'
        have hmem : (addLog s r1).dev.mem = s.dev.mem := rfl
        rw [hmem] at e2
        refine ⟨r1 ++ r2, fun r hr => (List.mem_append.mp hr).elim (hr1 r) (hr2 r), ?_⟩
        simp only [readOutcome, hmap, if_true]
        rw [M.bind_eq, e2, addLog_addLog]
        by_cases hmap2 : s.dev.mem.rangeMapped (a + min m n) (n - min m n) = true
        · simp [readOutcome, hmap2, hsplitM, hmap, hsplitR, pure, M.pure]
        · simp [readOutcome, hmap2, hsplitM, hmap]
      · refine ⟨r1, hr1, ?_⟩
        simp [readOutcome, hmap, hsplitM]

theorem devReadL_faultfree (L : Limits) (hc : 24 ≤ L.maxCmd) (ha : 13 ≤ L.maxAck) (a n : Nat) (s : St)
    (hf : s.dev.faults = []) :
    ∃ rs, (∀ r ∈ rs, r.isRead) ∧ devReadL L a n s = (readOutcome s.dev.mem a n, addLog s rs) := by
  unfold devReadL
  rw [if_neg (by omega)]
  exact readLoopL_faultfree L hc _ (by omega) n a n (Nat.le_refl _) s hf

/-- primitives that a fault-free device cannot tell from single commands -/
structure _root_.CamVerif.Streaming.Prim.Faithful (π : Prim) : Prop where
  rd_sim : ∀ a n, Sim (π.rd a n) (devRead a n)
  wr4 : ∀ base off v, writeReg32G π base off v = writeReg32 base off v

theorem Prim.limits_faithful (L : Limits) (hc : 24 ≤ L.maxCmd) (ha : 13 ≤ L.maxAck) :
    (Prim.limits L).Faithful := by
  refine ⟨fun a n s t h => ?_, writeReg32G_limits L hc⟩
  obtain ⟨rs, hrs, e1⟩ := devReadL_faultfree L hc ha a n s h.fx
  obtain ⟨rt, hrt, e2⟩ := devRead_faultfree a n t h.fy
  show (devReadL L a n s).1 = _ ∧ Rel (devReadL L a n s).2 _
  rw [e1, e2, h.mem]
  exact ⟨rfl, h.addLog rs rt hrs hrt⟩

theorem Sim.readRegG {π : Prim} (hπ : π.Faithful) (base off len : Nat) :
    Sim (readRegG π base off len) (readReg base off len) := by
  unfold CamVerif.Streaming.readRegG CamVerif.Streaming.readReg
  exact Sim.bind (Sim.lift _) fun a => Sim.bind (Sim.lift _) fun _ =>
    Sim.bind (hπ.rd_sim a len) fun _ => Sim.pure _

theorem Sim.writeReg32 (base off v : Nat) : Sim (writeReg32 base off v) (writeReg32 base off v) := by
  unfold CamVerif.Streaming.writeReg32
  exact Sim.bind (Sim.lift _) fun a => Sim.bind (Sim.lift _) fun _ => Sim.devWrite _ _

theorem Sim.getSbrmG {π : Prim} (hπ : π.Faithful) : Sim (getSbrmG π) getSbrm := by
  unfold CamVerif.Streaming.getSbrmG CamVerif.Streaming.getSbrm
  refine Sim.get_bind fun s t h => ?_
  rw [h.sbrm]
  cases t.sbrm with
  | some x => exact Sim.pure x s t h
  | none =>
    exact (Sim.bind (Sim.readRegG hπ _ _ _) fun _ => Sim.bind (Sim.readRegG hπ _ _ _) fun _ =>
      Sim.bind (Sim.setSbrm _) fun _ => Sim.pure _) s t h

theorem Sim.getSirmG {π : Prim} (hπ : π.Faithful) : Sim (getSirmG π) getSirm := by
  unfold CamVerif.Streaming.getSirmG CamVerif.Streaming.getSirm
  refine Sim.get_bind fun s t h => ?_
  rw [h.sirm]
  cases t.sirm with
  | some x => exact Sim.pure x s t h
  | none =>
    refine (Sim.bind (Sim.getSbrmG hπ) fun x => ?_) s t h
    obtain ⟨sb, cap⟩ := x
    exact Sim.ite (cap % 2 = 1) (Sim.bind (Sim.readRegG hπ _ _ _) fun _ => Sim.bind (Sim.setSirm _) fun _ => Sim.pure _)
      (Sim.fail _)

theorem Sim.readInputsG {π : Prim} (hπ : π.Faithful) (s : Nat) : Sim (readInputsG π s) (readInputs s) := by
  unfold CamVerif.Streaming.readInputsG CamVerif.Streaming.readInputs
  simp only [hπ.wr4]
  refine Sim.bind (Sim.readRegG hπ _ _ _) fun ctrl => ?_
  have rest := Sim.bind (Sim.readRegG hπ s SI_INFO 4) fun info =>
    Sim.bind (Sim.lift (payloadSizeAlignment info)) fun align => Sim.bind (Sim.lift (alignmentU32 align)) fun align =>
    Sim.bind (Sim.readRegG hπ s REQUIRED_LEADER_SIZE 4) fun reqLeader =>
    Sim.bind (Sim.readRegG hπ s REQUIRED_PAYLOAD_SIZE 8) fun reqPayload =>
    Sim.bind (Sim.readRegG hπ s REQUIRED_TRAILER_SIZE 4) fun reqTrailer =>
      Sim.pure (⟨align, reqLeader, reqPayload, reqTrailer⟩ : Inputs)
  exact Sim.ite (ctrl % 2 = 1) (Sim.bind (Sim.writeReg32 _ _ _) fun _ => rest) rest

theorem Sim.writeAll (s : Nat) (ws : List (Nat × Nat)) : Sim (writeAll s ws) (writeAll s ws) := by
  induction ws with
  | nil => exact Sim.pure _
  | cons w ws ih =>
    obtain ⟨off, v⟩ := w
    unfold CamVerif.Streaming.writeAll
    exact Sim.bind (Sim.writeReg32 _ _ _) fun _ => ih

theorem writeAllG_faithful {π : Prim} (hπ : π.Faithful) (s : Nat) (ws : List (Nat × Nat)) :
    writeAllG π s ws = writeAll s ws := by
  induction ws with
  | nil => rfl
  | cons w ws ih =>
    obtain ⟨off, v⟩ := w
    simp only [writeAllG, writeAll, ih, hπ.wr4]

theorem Sim.enableAtG {π : Prim} (hπ : π.Faithful) (p : Profile) (s : Nat) :
    Sim (enableAtG π p s) (enableAt p s) := by
  unfold CamVerif.Streaming.enableAtG CamVerif.Streaming.enableAt
    CamVerif.Streaming.prepareAtG CamVerif.Streaming.prepareAt
  simp only [hπ.wr4, writeAllG_faithful hπ]
  refine Sim.bind ?_ fun _ => Sim.writeReg32 _ _ _
  exact Sim.bind (Sim.readInputsG hπ s) fun _ => Sim.bind (Sim.lift _) fun _ => Sim.writeAll _ _

theorem Sim.enableStreamingG {π : Prim} (hπ : π.Faithful) (p : Profile) :
    Sim (enableStreamingG π p) (enableStreaming p) := by
  unfold CamVerif.Streaming.enableStreamingG CamVerif.Streaming.enableStreaming
  exact Sim.bind (Sim.getSirmG hπ) fun s => Sim.enableAtG hπ p s

theorem Sim.disableStreamingG {π : Prim} (hπ : π.Faithful) :
    Sim (disableStreamingG π) disableStreaming := by
  unfold CamVerif.Streaming.disableStreamingG CamVerif.Streaming.disableStreaming
  simp only [hπ.wr4]
  exact Sim.bind (Sim.getSirmG hπ) fun s => Sim.writeReg32 _ _ _

theorem Sim.fromControlG {π : Prim} (hπ : π.Faithful) : Sim (fromControlG π) fromControl := by
  unfold CamVerif.Streaming.fromControlG CamVerif.Streaming.fromControl
  refine Sim.bind (Sim.readRegG hπ _ _ _) fun _ => Sim.bind (Sim.readRegG hπ _ _ _) fun sb =>
    Sim.bind (Sim.readRegG hπ _ _ _) fun cap => Sim.ite (cap % 2 = 1) ?_ (Sim.fail _)
  exact Sim.bind (Sim.readRegG hπ _ _ _) fun _ => Sim.bind (Sim.readRegG hπ _ _ _) fun _ =>
    Sim.bind (Sim.readRegG hπ _ _ _) fun _ => Sim.bind (Sim.readRegG hπ _ _ _) fun _ =>
    Sim.bind (Sim.readRegG hπ _ _ _) fun _ => Sim.bind (Sim.readRegG hπ _ _ _) fun _ =>
    Sim.bind (Sim.readRegG hπ _ _ _) fun _ => Sim.bind (Sim.readRegG hπ _ _ _) fun _ => Sim.pure _

/-! ## Failure atomicity, generic in sound primitives (same proof as in `Props/C15.lean`) -/

theorem failure_atomic_enableAtG {π : Prim} (hπ : π.Sound) (p : Profile) (s : Nat) (st : St) :
    let lost := Access.w (s + SI_CONTROL) (toLE 4 1) false true
    ∃ new, (enableAtG π p s st).2.dev.log = st.dev.log ++ new ∧
      (enableAtG π p s st).2.dev.mem = replay new st.dev.mem ∧
      (∀ a ∈ new.dropLast, ¬ a.enables s) ∧
      ((∃ a ∈ new, a.succeeded = false) → ∃ err, (enableAtG π p s st).1 = .err err) ∧
      ((enableAtG π p s st).1 ≠ .ok () → ∀ a ∈ new, a.enables s → a = lost) ∧
      ((enableAtG π p s st).1 ≠ .ok () → lost ∉ new → enabledIn (enableAtG π p s st).2.dev.mem s →
          enabledIn st.dev.mem s ∧ ∀ a ∈ new, ¬ a.touches s) := by
  intro lost
  obtain ⟨quiet, last, h1, h2, h3, h4, h5⟩ := enableAtG_any hπ p s st
  have hdrop : ∀ a ∈ (quiet ++ last).dropLast, ¬ a.enables s := by
    rcases h5 with ⟨rfl, _⟩ | ⟨ok, ap, rfl, _⟩
    · intro a ha; rw [List.append_nil] at ha; exact h3 a (List.dropLast_subset _ ha)
    · intro a ha; rw [List.dropLast_concat] at ha; exact h3 a ha
  have hnotok : (enableAtG π p s st).1 ≠ .ok () → ∀ a ∈ quiet ++ last, a.enables s → a = lost := by
    intro hne a ha hen
    rcases List.mem_append.mp ha with ha | ha
    · exact absurd hen (h3 a ha)
    · rcases h5 with ⟨rfl, _⟩ | ⟨ok, ap, rfl, g3, _, _⟩
      · simp at ha
      · simp only [List.mem_cons, List.not_mem_nil, or_false] at ha; subst ha
        have hok : ok = false := by
          cases ok with
          | false => rfl
          | true => exact absurd (g3.mp rfl) hne
        subst hok
        cases ap with
        | true => rfl
        | false => exact hen.elim
  refine ⟨quiet ++ last, h1, h2, hdrop, ?_, hnotok, ?_⟩
  · rintro ⟨a, ha, hfail⟩
    rcases List.mem_append.mp ha with ha | ha
    · cases hres : (enableAtG π p s st).1 with
      | err e => exact ⟨e, rfl⟩
      | ok u =>
        have := h4 (by rw [hres]; simp) a ha
        rw [hfail] at this; cases this
      | panic =>
        have := h4 (by rw [hres]; simp) a ha
        rw [hfail] at this; cases this
    · rcases h5 with ⟨rfl, _⟩ | ⟨ok, ap, rfl, _, _, g5⟩
      · simp at ha
      · simp only [List.mem_cons, List.not_mem_nil, or_false] at ha; subst ha
        exact g5 hfail
  · intro hne hlost hen
    have hq : ∀ a ∈ quiet ++ last, Quiet s a := by
      intro a ha hena
      exact hlost (hnotok hne a ha hena ▸ ha)
    rw [h2, enabledIn_iff_byte] at hen
    obtain ⟨g1, g2⟩ := replay_enable_bit s _ _ hq hen
    exact ⟨(enabledIn_iff_byte _ _).mpr g1, g2⟩

theorem resolutionG_reads_only {π : Prim} (hπ : π.Sound) (st : St) :
    ∃ pre, (getSirmG π st).2.dev.log = st.dev.log ++ pre ∧ (getSirmG π st).2.dev.mem = st.dev.mem ∧
      ∀ a ∈ pre, a.isRead := by
  obtain ⟨pre, h1, h2, h3, _⟩ := getSirmG_reads hπ st
  exact ⟨pre, h1, by rw [h2, replay_reads _ _ h3], h3⟩

theorem failure_atomic_enableStreamingG {π : Prim} (hπ : π.Sound) (p : Profile) (st : St) :
    (∃ pre, (∀ a ∈ pre, a.isRead) ∧ (getSirmG π st).2.dev.log = st.dev.log ++ pre ∧
      (getSirmG π st).2.dev.mem = st.dev.mem) ∧
    (∀ s, (getSirmG π st).1 = .ok s →
      let st1 := (getSirmG π st).2
      let lost := Access.w (s + SI_CONTROL) (toLE 4 1) false true
      enableStreamingG π p st = enableAtG π p s st1 ∧
      ∃ new, (enableStreamingG π p st).2.dev.log = st1.dev.log ++ new ∧
        (enableStreamingG π p st).2.dev.mem = replay new st.dev.mem ∧
        (∀ a ∈ new.dropLast, ¬ a.enables s) ∧
        ((∃ a ∈ new, a.succeeded = false) → ∃ err, (enableStreamingG π p st).1 = .err err) ∧
        ((enableStreamingG π p st).1 ≠ .ok () → ∀ a ∈ new, a.enables s → a = lost) ∧
        ((enableStreamingG π p st).1 ≠ .ok () → lost ∉ new → enabledIn (enableStreamingG π p st).2.dev.mem s →
            enabledIn st.dev.mem s ∧ ∀ a ∈ new, ¬ a.touches s)) ∧
    (∀ e, (getSirmG π st).1 = .err e → (enableStreamingG π p st).1 = .err e ∧
      (enableStreamingG π p st).2 = (getSirmG π st).2) := by
  obtain ⟨pre, hp1, hp2, hp3⟩ := resolutionG_reads_only hπ st
  refine ⟨⟨pre, hp3, hp1, hp2⟩, ?_, ?_⟩
  · intro s hs st1 lost
    have hfac : enableStreamingG π p st = enableAtG π p s st1 := by
      rw [enableStreamingG_factors]
      cases hg : getSirmG π st with
      | mk r st' =>
        have : r = .ok s := by rw [hg] at hs; exact hs
        subst this
        simp only [st1, hg]
    refine ⟨hfac, ?_⟩
    obtain ⟨new, h1, h2, h3, h4, h5, h6⟩ := failure_atomic_enableAtG hπ p s st1
    rw [hfac]
    have hmem : st1.dev.mem = st.dev.mem := hp2
    rw [hmem] at h2 h6
    exact ⟨new, h1, h2, h3, h4, h5, h6⟩
  · intro e he
    rw [enableStreamingG_factors]
    cases hg : getSirmG π st with
    | mk r st' =>
      have : r = .err e := by rw [hg] at he; exact he
      subst this
      exact ⟨rfl, rfl⟩

/-! ## With room for one command per register the limits are invisible -/

theorem limits_eq_single (L : Limits) (hc : 24 ≤ L.maxCmd) (ha : 20 ≤ L.maxAck) :
    (∀ p, enableStreamingG (Prim.limits L) p = enableStreaming p) ∧
    disableStreamingG (Prim.limits L) = disableStreaming ∧
    getSbrmG (Prim.limits L) = getSbrm ∧
    fromControlG (Prim.limits L) = fromControl ∧
    startStreamingLoopG (Prim.limits L) = startStreamingLoop := by
  have h4 : ∀ b o, readRegG (Prim.limits L) b o 4 = readReg b o 4 := fun b o =>
    readRegG_limits L hc b o 4 (by omega) (by omega) (by omega)
  have h8 : ∀ b o, readRegG (Prim.limits L) b o 8 = readReg b o 8 := fun b o =>
    readRegG_limits L hc b o 8 (by omega) (by omega) (by omega)
  have hw := writeReg32G_limits L hc
  have hwa := writeAllG_sound (Prim.limits_sound L hc)
  have hsb : getSbrmG (Prim.limits L) = getSbrm := by simp only [getSbrmG, getSbrm, h8]; rfl
  have hsi : getSirmG (Prim.limits L) = getSirm := by simp only [getSirmG, getSirm, h8, hsb]; rfl
  have hfc : fromControlG (Prim.limits L) = fromControl := by simp only [fromControlG, fromControl, h8, h4]
  refine ⟨fun p => ?_, ?_, hsb, hfc, ?_⟩
  · simp only [enableStreamingG, enableStreaming, enableAtG, enableAt, prepareAtG, prepareAt,
      readInputsG, readInputs, hsi, h4, h8, hw, hwa]
  · simp only [disableStreamingG, disableStreaming, hsi, hw]
  · funext sh st
    simp only [startStreamingLoopG, startStreamingLoop, hfc]; rfl

theorem Ext.weaken {P Q : Access → Prop} {α : Type} {x : M α} (h : Ext P x) (hpq : ∀ a, P a → Q a) : Ext Q x := by
  intro st
  obtain ⟨new, h1, h2, h3, h4⟩ := h st
  exact ⟨new, h1, h2, fun a ha => hpq a (h3 a ha), h4⟩

/-- the call only appends to the log, and unless it returns `Err` every command succeeded -/
theorem enableStreamingG_ext {π : Prim} (hπ : π.Sound) (p : Profile) :
    Ext (fun _ => True) (enableStreamingG π p) := by
  unfold CamVerif.Streaming.enableStreamingG
  refine Ext.bind (Ext.weaken (getSirmG_reads hπ) fun _ _ => trivial) fun s => ?_
  unfold CamVerif.Streaming.enableAtG
  rw [hπ.wr4]
  exact Ext.bind (Ext.weaken (prepareAtG_quiet hπ p s) fun _ _ => trivial) fun _ =>
    Ext.writeReg32 _ _ _ (fun _ _ => trivial)

theorem writesOf_enableScript (m : Mem) (s : Nat) (sz : Sizes) :
    writesOf (enableScript m s sz) =
      (if enabledIn m s then [disableW s] else []) ++ writesLog s (sizeWrites sz) ++
        [.w (s + SI_CONTROL) (toLE 4 1) true true] := by
  by_cases h : enabledIn m s <;>
    simp [enableScript, readsLog, writesLog, writesOf, sizeWrites, h, disableW]

/-! ## Panic freedom for every pair of limits -/

/-- primitives that never panic; a read that returns returns exactly the bytes asked for -/
structure _root_.CamVerif.Streaming.Prim.NoPanic (π : Prim) : Prop where
  rd_np : ∀ a n, NP (fun bs => bs.length = n) (π.rd a n)
  wr_np : ∀ a d, NP (fun _ => True) (π.wr a d)

theorem NP.readLoopL (L : Limits) (m : Nat) (hm : 0 < m) (fuel a n : Nat) (hn : n ≤ fuel) :
    NP (fun bs => bs.length = n) (readLoopL L m fuel a n) := by
  induction fuel generalizing a n with
  | zero =>
    have : n = 0 := by omega
    subst this
    exact NP.pure _ rfl
  | succ fuel ih =>
    unfold CamVerif.Streaming.readLoopL
    by_cases h0 : n = 0
    · rw [if_pos h0]; subst h0; exact NP.pure _ rfl
    · rw [if_neg h0]
      by_cases hc : L.maxCmd < 24
      · rw [if_pos hc]; exact NP.fail _
      · rw [if_neg hc]
        refine NP.bind (NP.devRead a (min m n)) fun bs hbs => ?_
        refine NP.bind (ih (a + min m n) (n - min m n) (by omega)) fun rest hrest => NP.pure _ ?_
        rw [List.length_append, hbs, hrest]; omega

theorem NP.devReadL (L : Limits) (a n : Nat) : NP (fun bs => bs.length = n) (devReadL L a n) := by
  unfold CamVerif.Streaming.devReadL
  by_cases h : L.maxAck ≤ 12
  · rw [if_pos h]; exact NP.fail _
  · rw [if_neg h]; exact NP.readLoopL L _ (by omega) n a n (Nat.le_refl _)

theorem NP.writeLoopL (d fuel a : Nat) (data : Bytes) : NP (fun _ => True) (writeLoopL d fuel a data) := by
  induction fuel generalizing a data with
  | zero => exact NP.pure _ trivial
  | succ fuel ih =>
    unfold CamVerif.Streaming.writeLoopL
    by_cases h0 : data.length = 0
    · rw [if_pos h0]; exact NP.pure _ trivial
    · rw [if_neg h0]
      by_cases h1 : d < data.length
      · rw [if_pos h1]; exact NP.bind (NP.devWrite _ _) fun _ _ => ih _ _
      · rw [if_neg h1]; exact NP.devWrite _ _

theorem NP.devWriteL (L : Limits) (a : Nat) (data : Bytes) : NP (fun _ => True) (devWriteL L a data) := by
  unfold CamVerif.Streaming.devWriteL
  by_cases h0 : data.length = 0
  · rw [if_pos h0]; exact NP.pure _ trivial
  · rw [if_neg h0]
    by_cases h1 : L.maxCmd ≤ 20
    · rw [if_pos h1]; exact NP.fail _
    · rw [if_neg h1]; exact NP.writeLoopL _ _ _ _

/-- EVERY pair of limits -/
theorem Prim.limits_noPanic (L : Limits) : (Prim.limits L).NoPanic :=
  ⟨NP.devReadL L, NP.devWriteL L⟩

theorem NP.readRegG {π : Prim} (hπ : π.NoPanic) (base off len : Nat) :
    NP (fun v => v < 256 ^ len) (readRegG π base off len) := by
  unfold CamVerif.Streaming.readRegG
  refine NP.bind (Q := fun _ => True) (NP.lift _ (regAddr_ne_panic _ _) (fun _ _ => trivial)) fun a _ => ?_
  refine NP.bind (Q := fun _ => True) (NP.lift _ (verifyRange_ne_panic _ _) (fun _ _ => trivial)) fun _ _ => ?_
  refine NP.bind (hπ.rd_np a len) fun bs hbs => NP.pure _ ?_
  have := fromLE_lt bs
  rwa [hbs] at this

theorem NP.writeReg32G {π : Prim} (hπ : π.NoPanic) (base off v : Nat) :
    NP (fun _ => True) (writeReg32G π base off v) := by
  unfold CamVerif.Streaming.writeReg32G
  refine NP.bind (Q := fun _ => True) (NP.lift _ (regAddr_ne_panic _ _) (fun _ _ => trivial)) fun a _ => ?_
  exact NP.bind (Q := fun _ => True) (NP.lift _ (verifyRange_ne_panic _ _) (fun _ _ => trivial)) fun _ _ =>
    hπ.wr_np _ _

theorem NP.getSirmG {π : Prim} (hπ : π.NoPanic) : NP (fun _ => True) (getSirmG π) := by
  unfold CamVerif.Streaming.getSirmG
  refine NP.bind (Q := fun _ => True) (fun st => ⟨by simp [M.get], fun _ _ => trivial⟩) fun st _ => ?_
  cases st.sirm with
  | some a => exact NP.pure _ trivial
  | none =>
    refine NP.bind (Q := fun _ => True) ?_ fun x _ => ?_
    · unfold getSbrmG
      refine NP.bind (Q := fun _ => True) (fun st => ⟨by simp [M.get], fun _ _ => trivial⟩) fun st _ => ?_
      cases st.sbrm with
      | some x => exact NP.pure _ trivial
      | none =>
        exact NP.bind (NP.readRegG hπ _ _ _).any fun _ _ => NP.bind (NP.readRegG hπ _ _ _).any fun _ _ =>
          NP.bind (Q := fun _ => True) (fun st => ⟨by simp [setSbrmCache], fun _ _ => trivial⟩) fun _ _ =>
            NP.pure _ trivial
    · obtain ⟨sb, cap⟩ := x
      by_cases hc : cap % 2 = 1
      · simp only [hc, if_true]
        exact NP.bind (NP.readRegG hπ _ _ _).any fun _ _ =>
          NP.bind (Q := fun _ => True) (fun st => ⟨by simp [setSirmCache], fun _ _ => trivial⟩) fun _ _ =>
            NP.pure _ trivial
      · simp only [hc, if_false]; exact NP.fail _

theorem NP.readInputsG {π : Prim} (hπ : π.NoPanic) (s : Nat) : NP InputsOk (readInputsG π s) := by
  have rest : NP InputsOk (do
      let info ← CamVerif.Streaming.readRegG π s SI_INFO 4
      let align ← M.lift (payloadSizeAlignment info)
      let align ← M.lift (alignmentU32 align)
      let reqLeader ← CamVerif.Streaming.readRegG π s REQUIRED_LEADER_SIZE 4
      let reqPayload ← CamVerif.Streaming.readRegG π s REQUIRED_PAYLOAD_SIZE 8
      let reqTrailer ← CamVerif.Streaming.readRegG π s REQUIRED_TRAILER_SIZE 4
      Pure.pure (⟨align, reqLeader, reqPayload, reqTrailer⟩ : Inputs)) := by
    refine NP.bind (NP.readRegG hπ _ _ _).any fun info _ => ?_
    refine NP.bind (Q := fun a => payloadSizeAlignment info = .ok a)
      (NP.lift _ (by simp only [payloadSizeAlignment]; split <;> simp) (fun a h => h)) fun a ha => ?_
    refine NP.bind (Q := fun a' => alignmentU32 a = .ok a')
      (NP.lift _ (by unfold alignmentU32; split <;> simp) (fun a h => h)) fun a' ha' => ?_
    refine NP.bind (NP.readRegG hπ _ _ _) fun L hL => ?_
    refine NP.bind (NP.readRegG hπ _ _ _).any fun P _ => ?_
    refine NP.bind (NP.readRegG hπ _ _ _) fun T hT => ?_
    exact NP.pure _ ⟨alignment_inv ha ha', by simpa using hL, by simpa using hT⟩
  unfold CamVerif.Streaming.readInputsG
  refine NP.bind (NP.readRegG hπ _ _ _).any fun ctrl _ => ?_
  by_cases hc : ctrl % 2 = 1
  · simp only [hc, if_true]
    exact NP.bind (NP.writeReg32G hπ _ _ _) fun _ _ => rest
  · simp only [hc, if_false]
    exact rest

theorem NP.writeAllG {π : Prim} (hπ : π.NoPanic) (s : Nat) (ws : List (Nat × Nat)) :
    NP (fun _ => True) (writeAllG π s ws) := by
  induction ws with
  | nil => exact NP.pure _ trivial
  | cons w ws ih =>
    obtain ⟨off, v⟩ := w
    unfold CamVerif.Streaming.writeAllG
    exact NP.bind (NP.writeReg32G hπ _ _ _) fun _ _ => ih

theorem NP.enableStreamingG {π : Prim} (hπ : π.NoPanic) (p : Profile) :
    NP (fun _ => True) (enableStreamingG π p) := by
  unfold CamVerif.Streaming.enableStreamingG enableAtG prepareAtG
  refine NP.bind (NP.getSirmG hπ) fun s _ => ?_
  refine NP.bind (Q := fun _ => True) ?_ fun _ _ => NP.writeReg32G hπ _ _ _
  refine NP.bind (NP.readInputsG hπ s) fun i hi => ?_
  obtain ⟨⟨e, he, hal⟩, hL, hT⟩ := hi
  refine NP.bind (Q := fun _ => True) (NP.lift _ ?_ (fun _ _ => trivial)) fun sz _ => NP.writeAllG hπ _ _
  rw [hal]
  rcases computeSizes_scope_or_err p e i.reqLeader i.reqPayload i.reqTrailer he hL hT with h | h
  · rw [computeSizes_ok p e _ _ _ h.expLe h.leaderFits h.trailerFits h.payloadFits]; simp
  · rw [h]; simp

theorem NP.disableStreamingG {π : Prim} (hπ : π.NoPanic) : NP (fun _ => True) (disableStreamingG π) := by
  unfold CamVerif.Streaming.disableStreamingG
  exact NP.bind (NP.getSirmG hπ) fun s _ => NP.writeReg32G hπ _ _ _

theorem NP.fromControlG {π : Prim} (hπ : π.NoPanic) : NP (fun _ => True) (fromControlG π) := by
  unfold CamVerif.Streaming.fromControlG
  refine NP.bind (NP.readRegG hπ _ _ _).any fun _ _ => NP.bind (NP.readRegG hπ _ _ _).any fun sb _ =>
    NP.bind (NP.readRegG hπ _ _ _).any fun cap _ => ?_
  by_cases hc : cap % 2 = 1
  · simp only [hc, if_true]
    exact NP.bind (NP.readRegG hπ _ _ _).any fun s _ => NP.bind (NP.readRegG hπ _ _ _).any fun _ _ =>
      NP.bind (NP.readRegG hπ _ _ _).any fun _ _ => NP.bind (NP.readRegG hπ _ _ _).any fun _ _ =>
      NP.bind (NP.readRegG hπ _ _ _).any fun _ _ => NP.bind (NP.readRegG hπ _ _ _).any fun _ _ =>
      NP.bind (NP.readRegG hπ _ _ _).any fun _ _ => NP.bind (NP.readRegG hπ _ _ _).any fun _ _ =>
      NP.pure _ trivial
  · simp only [hc, if_false]; exact NP.fail _

/-! ## Split writes (`max_cmd` 21..23: reachable by `disable_streaming` on a handle with warm caches) -/

theorem Mem.ext'' (m1 m2 : Mem) (h1 : ∀ x, m1.byte x = m2.byte x) (h2 : m1.mapped = m2.mapped) : m1 = m2 := by
  cases m1; cases m2
  simp only at h1 h2
  congr
  exact funext h1

/-- writing the first `d` bytes and then the rest = writing everything -/
theorem Mem.write_take_drop (m : Mem) (a d : Nat) (data : Bytes) :
    (m.write a (data.take d)).write (a + d) (data.drop d) = m.write a data := by
  apply Mem.ext''
  · intro x
    by_cases h1 : d < data.length
    · by_cases hx : a + d ≤ x ∧ x < a + data.length
      · have e1 := Mem.byte_write_of_mem (m.write a (data.take d)) (a + d) (data.drop d) (x - (a + d))
          (by simp; omega)
        rw [show a + d + (x - (a + d)) = x by omega] at e1
        have e2 := Mem.byte_write_of_mem m a data (x - a) (by omega)
        rw [show a + (x - a) = x by omega] at e2
        rw [e1, e2]
        simp only [List.getElem_drop]
        congr 1; omega
      · rw [Mem.byte_write_of_not_mem _ (a + d) (data.drop d) x (by simp; omega)]
        by_cases hy : a ≤ x ∧ x < a + d
        · have e1 := Mem.byte_write_of_mem m a (data.take d) (x - a) (by simp; omega)
          rw [show a + (x - a) = x by omega] at e1
          have e2 := Mem.byte_write_of_mem m a data (x - a) (by omega)
          rw [show a + (x - a) = x by omega] at e2
          rw [e1, e2]
          simp
        · rw [Mem.byte_write_of_not_mem _ a (data.take d) x (by simp; omega),
            Mem.byte_write_of_not_mem _ a data x (by omega)]
    · have ht : data.take d = data := List.take_of_length_le (by omega)
      have hd : data.drop d = [] := List.drop_of_length_le (by omega)
      rw [ht, hd]
      exact Mem.byte_write_of_not_mem _ _ _ _ (by simp; omega)
  · rfl

/-- a successful write command of at most `d` bytes -/
def _root_.CamVerif.Streaming.Access.okWriteUpTo (d : Nat) : Access → Prop
  | .w _ data true true => data.length ≤ d
  | _ => False

theorem devWrite_faultfree (a : Nat) (data : Bytes) (m : Mem) (log sb si)
    (hm : m.rangeMapped a data.length = true) :
    devWrite a data (mkSt m log sb si) = (.ok (), mkSt (m.write a data) (log ++ [.w a data true true]) sb si) := by
  simp [devWrite, Dev.write, popFault, hm]

/-- **chunked write = single write** on a fault-free device: whatever the piece length `d >= 1`,
the loop succeeds, the image afterwards is the one of a single write, and it logs successful write
commands of at most `d` bytes only. -/
theorem writeLoopL_faultfree (d : Nat) (hd : 0 < d) (fuel a : Nat) (data : Bytes) (hn : data.length ≤ fuel)
    (m : Mem) (log sb si) (hm : m.rangeMapped a data.length = true) :
    ∃ ws, (∀ w ∈ ws, w.okWriteUpTo d) ∧
      writeLoopL d fuel a data (mkSt m log sb si) = (.ok (), mkSt (m.write a data) (log ++ ws) sb si) := by
  induction fuel generalizing a data m log with
  | zero =>
    have : data = [] := List.eq_nil_of_length_eq_zero (by omega)
    subst this
    refine ⟨[], by simp, ?_⟩
    have : m.write a [] = m := Mem.ext'' _ _ (fun x => Mem.byte_write_of_not_mem _ _ _ _ (by simp; omega)) rfl
    simp [writeLoopL, pure, M.pure, this]
  | succ fuel ih =>
    by_cases h0 : data.length = 0
    · have : data = [] := List.eq_nil_of_length_eq_zero h0
      subst this
      refine ⟨[], by simp, ?_⟩
      have : m.write a [] = m := Mem.ext'' _ _ (fun x => Mem.byte_write_of_not_mem _ _ _ _ (by simp; omega)) rfl
      simp [writeLoopL, pure, M.pure, this]
    · by_cases h1 : d < data.length
      · have hm1 : m.rangeMapped a (data.take d).length = true :=
          Mem.rangeMapped_sub m _ _ _ _ hm (Nat.le_refl _) (by simp; omega)
        have hm2 : (m.write a (data.take d)).rangeMapped (a + d) (data.drop d).length = true := by
          rw [Mem.write_rangeMapped]
          exact Mem.rangeMapped_sub m _ _ _ _ hm (by omega) (by simp; omega)
        obtain ⟨ws, hws, e⟩ := ih (a + d) (data.drop d) (by simp; omega) (m.write a (data.take d))
          (log ++ [.w a (data.take d) true true]) hm2
        refine ⟨.w a (data.take d) true true :: ws, ?_, ?_⟩
        · intro w hw
          rcases List.mem_cons.mp hw with rfl | hw
          · simp [Access.okWriteUpTo]; try omega
          · exact hws w hw
        · simp only [writeLoopL, h0, if_false, h1, if_true]
          show ((devWrite a (data.take d) >>= fun _ => writeLoopL d fuel (a + d) (data.drop d)) _) = _
          rw [M.bind_ok _ _ _ _ _ (devWrite_faultfree a (data.take d) m log sb si hm1), e,
            Mem.write_take_drop, List.append_assoc]
          rfl
      · refine ⟨[.w a data true true], ?_, ?_⟩
        · intro w hw
          simp only [List.mem_cons, List.not_mem_nil, or_false] at hw
          subst hw
          simp [Access.okWriteUpTo]; try omega
        · simp only [writeLoopL, h0, if_false, h1]
          exact devWrite_faultfree a data m log sb si hm

/-- the access sets the stream-enable bit of no SIRM whatsoever -/
abbrev QuietAll (a : Access) : Prop := ∀ s, Quiet s a

/-- every piece of an all-zero write is quiet: it can clear, never set, an enable bit -/
theorem Ext.writeLoopL_zero (d fuel a : Nat) (data : Bytes) (hz : ∀ b ∈ data, b = 0) :
    Ext QuietAll (writeLoopL d fuel a data) := by
  have hq : ∀ (a : Nat) (piece : Bytes), (∀ b ∈ piece, b = 0) → ∀ ok ap, QuietAll (.w a piece ok ap) := by
    intro a piece hp ok ap s hen
    cases ap with
    | false => exact hen
    | true =>
      obtain ⟨_, b, hb, hodd⟩ := hen
      have := hp b (List.mem_of_getElem? hb)
      subst this
      simp at hodd
  induction fuel generalizing a data with
  | zero => exact Ext.pure _
  | succ fuel ih =>
    unfold CamVerif.Streaming.writeLoopL
    refine Ext.ite _ (Ext.pure _) (Ext.ite _ ?_ (Ext.devWrite _ _ (hq _ _ hz)))
    exact Ext.bind (Ext.devWrite _ _ (hq _ _ (fun b hb => hz b (List.mem_of_mem_take hb)))) fun _ =>
      ih _ _ (fun b hb => hz b (List.mem_of_mem_drop hb))

theorem Ext.devWriteL_zero (L : Limits) (a : Nat) (data : Bytes) (hz : ∀ b ∈ data, b = 0) :
    Ext QuietAll (devWriteL L a data) := by
  unfold CamVerif.Streaming.devWriteL
  exact Ext.ite _ (Ext.pure _) (Ext.ite _ (Ext.fail _) (Ext.writeLoopL_zero _ _ _ _ hz))

/-- `ControlHandle::sirm` under ANY limits: read commands only -/
theorem getSirmL_ext {P : Access → Prop} (hr : ∀ a n ok, P (.r a n ok)) (L : Limits) :
    Ext P (getSirmG (Prim.limits L)) := by
  have hrr : ∀ base off len, Ext P (readRegG (Prim.limits L) base off len) := by
    intro base off len
    unfold CamVerif.Streaming.readRegG
    exact Ext.bind (Ext.lift _) fun a => Ext.bind (Ext.lift _) fun _ =>
      Ext.bind (Ext.devReadL hr L a len) fun _ => Ext.pure _
  unfold getSirmG
  refine Ext.bind Ext.get fun st => ?_
  cases st.sirm with
  | some x => exact Ext.pure _
  | none =>
    refine Ext.bind ?_ fun x => ?_
    · unfold getSbrmG
      refine Ext.bind Ext.get fun st => ?_
      cases st.sbrm with
      | some x => exact Ext.pure _
      | none =>
        exact Ext.bind (hrr _ _ _) fun _ => Ext.bind (hrr _ _ _) fun _ =>
          Ext.bind (Ext.setSbrm _) fun _ => Ext.pure _
    · obtain ⟨sb, cap⟩ := x
      exact Ext.ite (cap % 2 = 1) (Ext.bind (hrr _ _ _) fun _ => Ext.bind (Ext.setSirm _) fun _ => Ext.pure _)
        (Ext.fail _)

/-- `disable_streaming` under ANY limits, on any device and fault schedule: no command sets an
enable bit, the image changes by the executed writes only, a failed command surfaces as `Err` -/
theorem disableStreamingL_quiet (L : Limits) : Ext QuietAll (disableStreamingG (Prim.limits L)) := by
  unfold disableStreamingG
  refine Ext.bind (getSirmL_ext (fun a n ok s => quiet_read s a n ok) L) fun s => ?_
  unfold writeReg32G
  exact Ext.bind (Ext.lift _) fun a => Ext.bind (Ext.lift _) fun _ =>
    Ext.devWriteL_zero L a _ (by simp [toLE])

theorem getSirmG_warm (π : Prim) (d : Dev) (c : Option (Nat × Nat)) (s : Nat) :
    getSirmG π ⟨d, c, some s⟩ = (.ok s, ⟨d, c, some s⟩) := by
  unfold getSirmG; rw [M.get_bind]; rfl

/-- `disable_streaming` with a warm SIRM cache on a fault-free device under limits that let a
write through (`max_cmd >= 21`): `Ok`, SI_CONTROL = 0 afterwards, only successful write commands
of at most `max_cmd - 20` bytes -/
theorem disableStreamingL_warm (L : Limits) (hc : 21 ≤ L.maxCmd) (s : Nat) (m : Mem) (log sb)
    (hsp : s + SI_CONTROL + 4 ≤ 2 ^ 64) (hm : m.rangeMapped (s + SI_CONTROL) 4 = true) :
    ∃ ws, (∀ w ∈ ws, w.okWriteUpTo (L.maxCmd - 20)) ∧
      disableStreamingG (Prim.limits L) (mkSt m log sb (some s)) =
        (.ok (), mkSt (m.write (s + SI_CONTROL) (toLE 4 0)) (log ++ ws) sb (some s)) := by
  have h1 : regAddr s SI_CONTROL = .ok (s + SI_CONTROL) := by
    simp only [regAddr]; rw [if_pos (by omega)]
  have h2 : verifyRange (s + SI_CONTROL) 4 = .ok () := by
    simp only [verifyRange]; rw [if_pos (by omega)]
  obtain ⟨ws, hws, e⟩ := writeLoopL_faultfree (L.maxCmd - 20) (by omega) (toLE 4 0).length (s + SI_CONTROL)
    (toLE 4 0) (Nat.le_refl _) m log sb (some s) (by simpa using hm)
  refine ⟨ws, hws, ?_⟩
  unfold disableStreamingG
  rw [M.bind_ok _ _ _ _ _ (getSirmG_warm _ _ _ _)]
  unfold writeReg32G
  rw [M.lift_bind_ok _ _ _ _ h1, M.lift_bind_ok _ _ _ _ h2]
  show devWriteL L (s + SI_CONTROL) (toLE 4 0) _ = _
  unfold devWriteL
  rw [if_neg (by simp), if_neg (by omega)]
  exact e

end CamVerif.C15
