/-
Helper lemmas for C06 (and C07's "usable after error"):
 A. device memory (`readRange` / `writeRange` over any `MemLike`)
 B. acceptance of the acknowledges a conforming device sends (`Ack.AckPacket.parse` of
    `Spec.Conf.encodeAck …`) — the seam to C08
 C. one `send_cmd` transaction against a conforming device
-/
import CamVerif.Model.Control
import CamVerif.Spec.ConformingDevice
import CamVerif.Props.C09
import CamVerif.Props.C10
namespace CamVerif.C06
open CamVerif CamVerif.Control CamVerif.Spec.Conf
open CamVerif.Spec.GenCP (decodeCmd CmdFields CmdBody)

/-! ## A. Memory -/

section Mem
variable {M : Type} [MemLike M]

@[simp] theorem readRange_length (m : M) (a n : Nat) : (readRange m a n).length = n := by
  induction n generalizing a with
  | zero => rfl
  | succ k ih => simp [readRange, ih]

theorem readRange_add (m : M) (a k l : Nat) :
    readRange m a (k + l) = readRange m a k ++ readRange m (a + k) l := by
  induction k generalizing a with
  | zero => simp [readRange]
  | succ j ih =>
    have : j + 1 + l = (j + l) + 1 := by omega
    rw [this]
    simp only [readRange, ih, List.cons_append]
    have : a + 1 + j = a + (j + 1) := by omega
    rw [this]

theorem writeRange_append (m : M) (a : Nat) (d1 d2 : Bytes) :
    writeRange m a (d1 ++ d2) = writeRange (writeRange m a d1) (a + d1.length) d2 := by
  induction d1 generalizing m a with
  | nil => simp [writeRange]
  | cons b bs ih =>
    simp only [List.cons_append, writeRange, ih, List.length_cons]
    have : a + 1 + bs.length = a + (bs.length + 1) := by omega
    rw [this]

/-- bytes outside `[a, a+|d|)` are untouched by `writeRange`. -/
theorem get_writeRange_outside (m : M) (a : Nat) (d : Bytes) (x : Nat)
    (h : x < a ∨ a + d.length ≤ x) : MemLike.get (writeRange m a d) x = MemLike.get m x := by
  induction d generalizing m a with
  | nil => rfl
  | cons b bs ih =>
    simp only [writeRange]
    rw [ih]
    · rw [MemLike.get_set, if_neg]
      simp only [List.length_cons] at h
      omega
    · simp only [List.length_cons] at h
      omega

/-- byte `a+i` holds `d[i]` after `writeRange`. -/
theorem get_writeRange_inside (m : M) (a : Nat) (d : Bytes) (i : Nat) (hi : i < d.length) :
    MemLike.get (writeRange m a d) (a + i) = d[i] := by
  induction d generalizing m a i with
  | nil => simp at hi
  | cons b bs ih =>
    simp only [writeRange]
    cases i with
    | zero =>
      rw [get_writeRange_outside _ _ _ _ (by omega), MemLike.get_set]
      simp
    | succ j =>
      have : a + (j + 1) = a + 1 + j := by omega
      rw [this, ih _ _ _ (by simpa using hi)]
      simp

theorem readRange_congr (m m' : M) (a n : Nat)
    (h : ∀ x, a ≤ x → x < a + n → MemLike.get m x = MemLike.get m' x) :
    readRange m a n = readRange m' a n := by
  induction n generalizing a with
  | zero => rfl
  | succ k ih =>
    simp only [readRange]
    rw [h a (Nat.le_refl _) (by omega), ih (a + 1) (fun x h1 h2 => h x (by omega) (by omega))]

/-- reading back what was just written returns it. -/
theorem readRange_writeRange_same (m : M) (a : Nat) (d : Bytes) :
    readRange (writeRange m a d) a d.length = d := by
  apply List.ext_getElem
  · simp
  · intro i h1 h2
    have aux : ∀ (m : M) (a n i : Nat) (h : i < (readRange m a n).length),
        (readRange m a n)[i] = MemLike.get m (a + i) := by
      intro m a n
      induction n generalizing a with
      | zero => intro i h; simp [readRange] at h
      | succ k ih =>
        intro i h
        cases i with
        | zero => simp [readRange]
        | succ j =>
          simp only [readRange, List.getElem_cons_succ]
          rw [ih]
          congr 1; omega
    rw [aux, get_writeRange_inside _ _ _ _ h2]

end Mem

/-! ## B. Acceptance of conforming acknowledges (seam to C08) -/

open CamVerif.Ack in
/-- reading an `n`-byte little-endian field that sits at the cursor. -/
theorem readLE_at (pre post : Bytes) (n v : Nat) (hv : v < 256 ^ n) :
    (Cursor.mk (pre ++ (toLE n v ++ post)) pre.length).readLE n =
      .ok (v, ⟨pre ++ (toLE n v ++ post), pre.length + n⟩) := by
  simp only [Cursor.readLE, List.drop_left', List.length_append, toLE_length]
  rw [if_neg (by omega)]
  have : (toLE n v ++ post).take n = toLE n v := by
    rw [List.take_left' (by simp)]
  rw [this, fromLE_toLE_of_lt n v hv]

theorem debugAssert_true (p : Profile) : Ack.debugAssert p true = .ok () := by
  simp [Ack.debugAssert]

theorem status_success (p : Profile) : Ack.Status.ofCode p 0 = .ok ⟨0, .genCp .success⟩ := by
  have h : Ack.trailingZeros16 0 = 16 := by decide
  simp only [Ack.Status.ofCode, Ack.NAMESPACE_MASK, Nat.zero_shiftRight, Nat.zero_and, if_pos,
    Ack.Status.parseGencp, h]
  have : decide (16 ≥ 2) = true := by decide
  rw [this, debugAssert_true]
  rfl

/-- kinds a conforming device answers with -/
def kindOfId (k : Nat) : Option Ack.ScdKind :=
  if k = 0x0801 then some .readMem else if k = 0x0803 then some .writeMem
  else if k = 0x0805 then some .pending else none

theorem scdKind_ofId (k : Nat) (sk : Ack.ScdKind) (h : kindOfId k = some sk) :
    Ack.ScdKind.ofId k = .ok sk := by
  unfold kindOfId at h
  unfold Ack.ScdKind.ofId
  split at h
  · next h1 => rw [if_pos h1]; simpa using h
  · next h1 =>
    rw [if_neg h1]
    split at h
    · next h2 => rw [if_pos h2]; simpa using h
    · next h2 =>
      rw [if_neg h2]
      split at h
      · next h3 => rw [if_pos h3]; simpa using h
      · simp at h

/-- **accepts_conforming**: a successful acknowledge encoded per the layout parses to exactly
its fields (status Success, kind, request id, SCD length) with `raw_scd` = the SCD. -/
theorem parse_encodeAck (p : Profile) (kind id : Nat) (scd : Bytes) (sk : Ack.ScdKind)
    (hk : kindOfId kind = some sk) (hid : id < 2 ^ 16) (hl : scd.length < 2 ^ 16) :
    Ack.AckPacket.parse p (encodeAck STATUS_SUCCESS kind id scd) =
      .ok ⟨⟨⟨0, .genCp .success⟩, sk, id, scd.length⟩, 12, scd⟩ := by
  have hkind : kind < 256 ^ 2 := by
    unfold kindOfId at hk
    split at hk
    · omega
    · split at hk
      · omega
      · split at hk
        · omega
        · simp at hk
  unfold encodeAck Ack.AckPacket.parse
  simp only [STATUS_SUCCESS, ACK_MAGIC]
  -- magic
  have r1 := readLE_at [] (toLE 2 0 ++ toLE 2 kind ++ toLE 2 scd.length ++ toLE 2 id ++ scd) 4
    0x43563355 (by decide)
  simp only [List.nil_append, List.length_nil, Nat.zero_add, List.append_assoc] at r1 ⊢
  rw [r1]
  simp only [Res.bind_ok, Ack.ACK_PREFIX_MAGIC, ne_eq, not_true_eq_false, if_false]
  -- status
  have r2 := readLE_at (toLE 4 0x43563355)
    (toLE 2 kind ++ (toLE 2 scd.length ++ (toLE 2 id ++ scd))) 2 0 (by decide)
  simp only [toLE_length, Nat.reduceAdd] at r2
  -- kind
  have r3 := readLE_at (toLE 4 0x43563355 ++ toLE 2 0)
    (toLE 2 scd.length ++ (toLE 2 id ++ scd)) 2 kind hkind
  simp only [List.length_append, toLE_length, List.append_assoc, Nat.reduceAdd] at r3
  -- scd_len
  have r4 := readLE_at (toLE 4 0x43563355 ++ toLE 2 0 ++ toLE 2 kind) (toLE 2 id ++ scd) 2
    scd.length (by omega)
  simp only [List.length_append, toLE_length, List.append_assoc, Nat.reduceAdd] at r4
  -- request id
  have r5 := readLE_at (toLE 4 0x43563355 ++ toLE 2 0 ++ toLE 2 kind ++ toLE 2 scd.length) scd 2
    id (by omega)
  simp only [List.length_append, toLE_length, List.append_assoc, Nat.reduceAdd] at r5
  simp only [Ack.AckCcd.parse, Ack.Status.parse, Ack.ScdKind.parse, r2, r3, r4, r5, Res.bind_ok,
    status_success, scdKind_ofId kind sk hk, Res.pure_eq, List.length_append, toLE_length]
  rw [if_neg (by omega)]
  have : ∀ (xs : Bytes), xs.length = 12 → (xs ++ scd).drop 12 = scd := by
    intro xs h; exact List.drop_left' h
  have h12 : (toLE 4 0x43563355 ++ (toLE 2 0 ++ (toLE 2 kind ++ (toLE 2 scd.length ++
      (toLE 2 id ++ scd))))).drop 12 = scd := by
    have := this (toLE 4 0x43563355 ++ toLE 2 0 ++ toLE 2 kind ++ toLE 2 scd.length ++ toLE 2 id)
      (by simp)
    simpa only [List.append_assoc] using this
  rw [h12]

theorem parseReservedU16_ok (v : Nat) (hv : v < 2 ^ 16) (ccd : Ack.AckCcd) (h4 : 4 ≤ ccd.scdLen) :
    Ack.parseReservedU16 (toLE 2 0 ++ toLE 2 v) ccd = .ok v := by
  have r1 := readLE_at [] (toLE 2 v) 2 0 (by decide)
  have r2 := readLE_at (toLE 2 0) [] 2 v (by omega)
  simp only [List.nil_append, List.length_nil, List.append_nil, toLE_length] at r1 r2
  simp only [Ack.parseReservedU16]
  rw [if_neg (by omega)]
  simp only [r1, Res.bind_ok, ne_eq, not_true_eq_false, if_false, r2, Res.pure_eq]

theorem encodeAck_length (status kind id : Nat) (scd : Bytes) :
    (encodeAck status kind id scd).length = 12 + scd.length := by
  simp [encodeAck]; omega

/-! ## C. One transaction against a conforming device -/

/-- chronological receive-side events of one transaction: `k` pending acks (each followed by
the sleep it asks for), then the final ack.  `t` is the transport timeout in force. -/
def recvEvents (bufLen t id ms : Nat) (final : Bytes) : Nat → List Ev
  | 0 => [.recv bufLen t (.ok final)]
  | k + 1 => .recv bufLen t (.ok (pendingAck id ms)) :: .sleep ms ::
      recvEvents bufLen t id ms final k

/-- receives that fetch (and discard) stale acknowledges of earlier, abandoned commands -/
def staleEvents (bufLen t : Nat) (stale : List Bytes) : List Ev :=
  stale.map fun pkt => .recv bufLen t (.ok pkt)

/-- chronological events of one transaction. -/
def txnEvents (bufLen t : Nat) (cmd : Bytes) (id ms : Nat) (stale : List Bytes) (final : Bytes)
    (k : Nat) : List Ev :=
  .send cmd t none :: (staleEvents bufLen t stale ++ recvEvents bufLen t id ms final k)

/-- Stale packets the device may still have queued: well-formed acknowledges carrying a
request id other than `id` that fit a buffer of `bufLen` bytes. -/
def StaleOk (p : Profile) (id bufLen : Nat) (stale : List Bytes) : Prop :=
  ∀ pkt ∈ stale, pkt.length ≤ bufLen ∧
    ∃ ack, Ack.AckPacket.parse p pkt = .ok ack ∧ ack.ccd.requestId ≠ id

section Txn
variable {σ M : Type} [MemLike M] {dev : Dev σ} {view : σ → View M} {lim : Limits}
  {plan : Nat → Nat} {ms : Nat}

/-- stale acknowledges are fetched and discarded, one retry each -/
theorem recvLoop_skip {α : Type} (hc : Conforming dev view lim plan ms) (p : Profile)
    (scdAs : Ack.AckPacket → Ack.R α) (ackKind : Ack.ScdKind) (id : Nat) (rest : List Bytes) :
    ∀ (stale : List Bytes) (retry : Nat) (s : St σ), StaleOk p id s.h.bufLen stale →
      (view s.d).queue = stale ++ rest →
      ∃ s', recvLoop dev p scdAs ackKind id (stale.length + retry) s =
          recvLoop dev p scdAs ackKind id retry s' ∧
        s'.h = s.h ∧ (view s'.d).mem = (view s.d).mem ∧ (view s'.d).queue = rest ∧
        (view s'.d).txn = (view s.d).txn ∧
        s'.logRev = (staleEvents s.h.bufLen s.h.cfg.xfer stale).reverse ++ s.logRev := by
  intro stale
  induction stale with
  | nil =>
    intro retry s _ hq
    exact ⟨s, by simp, rfl, rfl, by simpa using hq, rfl, by simp [staleEvents]⟩
  | cons pkt stale ih =>
    intro retry s hst hq
    obtain ⟨hlen, ack, hparse, hne⟩ := hst pkt (List.mem_cons_self ..)
    simp only [List.cons_append] at hq
    obtain ⟨h2, hm, hq', ht⟩ := hc.recv_next s.d s.h.bufLen _ _ hq hlen
    rcases hrecv : dev.recv s.d s.h.bufLen with ⟨d, res⟩
    rw [hrecv] at h2 hm hq' ht
    simp only at h2 hm hq' ht
    subst h2
    obtain ⟨s', hs', hh, hmem, hqq, htx, hlog⟩ :=
      ih retry ((({ s with d := d } : St σ)).push (.recv s.h.bufLen s.h.cfg.xfer (.ok pkt)))
        (fun x hx => hst x (List.mem_cons_of_mem _ hx)) (by simpa [St.push] using hq')
    refine ⟨s', ?_, by simpa [St.push] using hh, by simpa [St.push, hm] using hmem, hqq,
      by simpa [St.push, ht] using htx, ?_⟩
    · have : (pkt :: stale).length + retry = (stale.length + retry) + 1 := by
        simp only [List.length_cons]; omega
      rw [this, recvLoop]
      simp only [hrecv, St.push, hparse]
      rw [if_neg (by omega)]
      simp only [ne_eq, hne, not_false_eq_true, if_true]
      simpa only [St.push] using hs'
    · simp only [St.push] at hlog
      simp [hlog, staleEvents]

theorem recvLoop_answer {α : Type} (hc : Conforming dev view lim plan ms) (p : Profile)
    (scdAs : Ack.AckPacket → Ack.R α) (ackKind : Ack.ScdKind) (kindId id : Nat) (scd : Bytes)
    (v : α) (hk : kindOfId kindId = some ackKind) (hnp : ackKind ≠ .pending)
    (hid : id < 2 ^ 16) (hl : scd.length < 2 ^ 16) (hms : ms < 2 ^ 16)
    (hv : scdAs ⟨⟨⟨0, .genCp .success⟩, ackKind, id, scd.length⟩, 12, scd⟩ = .ok v) :
    ∀ (k retry : Nat) (s : St σ), k < retry → 16 ≤ s.h.bufLen →
      12 + scd.length ≤ s.h.bufLen →
      (view s.d).queue = answer k id ms (encodeAck STATUS_SUCCESS kindId id scd) →
      ∃ s', recvLoop dev p scdAs ackKind id retry s = (s', .ok v) ∧
        s'.h = s.h ∧
        (view s'.d).mem = (view s.d).mem ∧ (view s'.d).queue = [] ∧
        (view s'.d).txn = (view s.d).txn ∧
        s'.logRev = (recvEvents s.h.bufLen s.h.cfg.xfer id ms
          (encodeAck STATUS_SUCCESS kindId id scd) k).reverse ++ s.logRev := by
  intro k
  induction k with
  | zero =>
    intro retry s hlt hb16 hbl hq
    obtain ⟨r, rfl⟩ : ∃ r, retry = r + 1 := ⟨retry - 1, by omega⟩
    simp only [answer, List.replicate_zero, List.nil_append] at hq
    obtain ⟨h2, hm, hq', ht⟩ := hc.recv_next s.d s.h.bufLen _ [] hq
      (by rw [encodeAck_length]; omega)
    rcases hrecv : dev.recv s.d s.h.bufLen with ⟨d, res⟩
    rw [hrecv] at h2 hm hq' ht
    simp only at h2 hm hq' ht
    subst h2
    have hparse := parse_encodeAck p kindId id scd ackKind hk hid hl
    refine ⟨⟨s.h, d, .recv s.h.bufLen s.h.cfg.xfer
      (.ok (encodeAck STATUS_SUCCESS kindId id scd)) :: s.logRev⟩, ?_, ?_⟩
    · simp only [recvLoop, hrecv, St.push, encodeAck_length, hparse, verifyAck]
      rw [if_neg (by omega)]
      simp only [ne_eq, not_true_eq_false, if_false, if_neg hnp, hv]
    · refine ⟨rfl, hm, hq', ht, ?_⟩
      simp [recvEvents]
  | succ k ih =>
    intro retry s hlt hb16 hbl hq
    obtain ⟨r, rfl⟩ : ∃ r, retry = r + 1 := ⟨retry - 1, by omega⟩
    simp only [answer, List.replicate_succ, List.cons_append] at hq
    obtain ⟨h2, hm, hq', ht⟩ := hc.recv_next s.d s.h.bufLen _ _ hq
      (by simp only [pendingAck, encodeAck_length, List.length_append, toLE_length]; omega)
    rcases hrecv : dev.recv s.d s.h.bufLen with ⟨d, res⟩
    rw [hrecv] at h2 hm hq' ht
    simp only at h2 hm hq' ht
    subst h2
    have hparse := parse_encodeAck p ACK_PENDING id (toLE 2 0 ++ toLE 2 ms) .pending (by decide) hid
      (by simp)
    obtain ⟨s', hs', hh, hmem, hqq, htx, hlog⟩ :=
      ih r (((({ s with d := d } : St σ)).push
          (.recv s.h.bufLen s.h.cfg.xfer (.ok (pendingAck id ms)))).push (.sleep ms))
        (by omega) hb16 hbl (by simpa [St.push, answer] using hq')
    refine ⟨s', ?_, ?_⟩
    · simp only [recvLoop, hrecv, St.push, pendingAck, encodeAck_length, hparse, verifyAck,
        List.length_append, toLE_length]
      rw [if_neg (by omega)]
      simp only [ne_eq, not_true_eq_false, if_false, if_true, Ack.Pending.parse]
      rw [parseReservedU16_ok ms hms _ (by simp)]
      simpa only [St.push, pendingAck] using hs'
    · refine ⟨by simpa [St.push] using hh, by simpa [St.push, hm] using hmem, hqq,
        by simpa [St.push, ht] using htx, ?_⟩
      simp only [St.push] at hlog
      simp [hlog, recvEvents]

theorem bufGrow_eq (s : St σ) (need : Nat) :
    (if s.h.bufLen < need then ({ s with h := { s.h with bufLen := need } } : St σ) else s) =
      { s with h := { s.h with bufLen := max s.h.bufLen need } } := by
  obtain ⟨⟨id, cfg, bl, op, ab⟩, d, lg⟩ := s
  simp only
  split
  · next h => rw [Nat.max_eq_right (by omega)]
  · next h => rw [Nat.max_eq_left (by omega)]

theorem maximumAckLen_ge (c : Cmd.Cmd) : 16 ≤ c.maximumAckLen := by
  simp only [Cmd.Cmd.maximumAckLen, Cmd.ACK_HEADER_LENGTH, Cmd.MINIMUM_ACK_SCD_LENGTH]
  omega

/-- A transaction for a constructible command whose (conforming) answer is known; the device
may still have `stale` acknowledges of earlier commands queued. -/
theorem sendCmd_conforming {α : Type} (hc : Conforming dev view lim plan ms) (p : Profile)
    (scdAs : Ack.AckPacket → Ack.R α) (s : St σ) (c : Cmd.Cmd) (hcons : C09.Constructible p c)
    (hid : s.h.nextReqId < 2 ^ 16) (hms : ms < 2 ^ 16) (kindId : Nat) (scd : Bytes) (v : α)
    (mem' : M) (k : Nat) (stale : List Bytes)
    (hk : kindOfId kindId = some (ackKindOf c)) (hnp : ackKindOf c ≠ .pending)
    (hl : scd.length < 2 ^ 16) (hfit : 12 + scd.length ≤ c.maximumAckLen)
    (hmax : c.cmdLen ≤ s.h.cfg.maxCmd)
    (hv : scdAs ⟨⟨⟨0, .genCp .success⟩, ackKindOf c, s.h.nextReqId, scd.length⟩, 12, scd⟩ = .ok v)
    (hstale : StaleOk p s.h.nextReqId s.h.bufLen stale)
    (hsend : (dev.send s.d (c.serialize s.h.nextReqId)).2 = none ∧
      (view (dev.send s.d (c.serialize s.h.nextReqId)).1).mem = mem' ∧
      (view (dev.send s.d (c.serialize s.h.nextReqId)).1).queue = stale ++
        answer k s.h.nextReqId ms (encodeAck STATUS_SUCCESS kindId s.h.nextReqId scd) ∧
      (view (dev.send s.d (c.serialize s.h.nextReqId)).1).txn = (view s.d).txn + 1)
    (hplan : stale.length + k < s.h.cfg.retry) :
    ∃ s', sendCmd dev p scdAs s c = (s', .ok v) ∧
      s'.h = { s.h with nextReqId := (s.h.nextReqId + 1) % 2 ^ 16,
                        bufLen := max s.h.bufLen (max c.cmdLen c.maximumAckLen) } ∧
      (view s'.d).mem = mem' ∧ (view s'.d).queue = [] ∧ (view s'.d).txn = (view s.d).txn + 1 ∧
      s'.logRev = (txnEvents (max s.h.bufLen (max c.cmdLen c.maximumAckLen)) s.h.cfg.xfer
        (c.serialize s.h.nextReqId) s.h.nextReqId ms stale
        (encodeAck STATUS_SUCCESS kindId s.h.nextReqId scd) k).reverse ++ s.logRev := by
  obtain ⟨hs2, hsm, hsq, hst⟩ := hsend
  have hlen := (C09.len_agree p c s.h.nextReqId hcons).1
  have hsink := (C09.sink_exact c s.h.nextReqId (max s.h.bufLen (max c.cmdLen c.maximumAckLen))).2.2.1
    (by rw [hlen]; omega)
  have h16 := maximumAckLen_ge c
  rcases hsd : dev.send s.d (c.serialize s.h.nextReqId) with ⟨d, r⟩
  rw [hsd] at hs2 hsm hsq hst
  simp only at hs2 hsm hsq hst
  subst hs2
  -- the state in which the receive loop starts
  let h0 : Handle := ⟨(s.h.nextReqId + 1) % 2 ^ 16, s.h.cfg,
    max s.h.bufLen (max c.cmdLen c.maximumAckLen), s.h.opened, s.h.abrm⟩
  let s0 : St σ := ⟨h0, d, .send (c.serialize s.h.nextReqId) s.h.cfg.xfer none :: s.logRev⟩
  obtain ⟨s1, hs1, hh1, hm1, hq1, ht1, hl1⟩ :=
    recvLoop_skip hc p scdAs (ackKindOf c) s.h.nextReqId
      (answer k s.h.nextReqId ms (encodeAck STATUS_SUCCESS kindId s.h.nextReqId scd)) stale
      (s.h.cfg.retry - stale.length) s0
      (fun pkt hp => ⟨by have := (hstale pkt hp).1; simp only [s0, h0]; omega, (hstale pkt hp).2⟩)
      hsq
  obtain ⟨s', hs', hh, hmem, hqq, htx, hlog⟩ :=
    recvLoop_answer hc p scdAs (ackKindOf c) kindId s.h.nextReqId scd v hk hnp hid hl hms hv k
      (s.h.cfg.retry - stale.length) s1 (by omega) (by rw [hh1]; simp only [s0, h0]; omega)
      (by rw [hh1]; simp only [s0, h0]; omega) hq1
  refine ⟨s', ?_, ?_⟩
  · have hre : stale.length + (s.h.cfg.retry - stale.length) = s.h.cfg.retry := by omega
    rw [hre] at hs1
    simp only [sendCmd, if_neg (Nat.not_lt.mpr hmax), hsink, hlen, ne_eq,
      not_true_eq_false, if_false, hsd, St.push]
    simp only [s0, h0] at hs1
    rw [hs1, hs']
  · refine ⟨by rw [hh, hh1], by rw [hmem, hm1]; exact hsm, hqq, by rw [htx, ht1]; exact hst, ?_⟩
    rw [hlog, hl1, hh1]
    simp [txnEvents, s0, h0]

/-- ReadMem transaction against a conforming device. -/
theorem sendCmd_read (hc : Conforming dev view lim plan ms) (p : Profile) (s : St σ) (a n : Nat)
    (stale : List Bytes)
    (ha : a < 2 ^ 64) (hn : n < 2 ^ 16) (hid : s.h.nextReqId < 2 ^ 16) (hms : ms < 2 ^ 16)
    (hcfg : 24 ≤ s.h.cfg.maxCmd)
    (hcmd : 24 ≤ lim.maxCmd) (hack : 12 + n ≤ lim.maxAck) (hsp : a + n ≤ 2 ^ 64)
    (hq : (view s.d).queue = stale) (hstale : StaleOk p s.h.nextReqId s.h.bufLen stale)
    (hplan : stale.length + plan (view s.d).txn < s.h.cfg.retry) :
    ∃ s', sendCmd dev p (fun ack => Ack.ReadMem.parse ack.rawScd ack.ccd) s (.readMem ⟨a, n⟩) =
        (s', .ok (readRange (view s.d).mem a n)) ∧
      s'.h = { s.h with nextReqId := (s.h.nextReqId + 1) % 2 ^ 16,
                        bufLen := max s.h.bufLen (max 24 (12 + max n 4)) } ∧
      (view s'.d).mem = (view s.d).mem ∧ (view s'.d).queue = [] ∧
      (view s'.d).txn = (view s.d).txn + 1 ∧
      s'.logRev = (txnEvents (max s.h.bufLen (max 24 (12 + max n 4))) s.h.cfg.xfer
        ((Cmd.Cmd.readMem ⟨a, n⟩).serialize s.h.nextReqId) s.h.nextReqId ms stale
        (readAck s.h.nextReqId (readRange (view s.d).mem a n)) (plan (view s.d).txn)).reverse
        ++ s.logRev := by
  have hcons : C09.Constructible p (.readMem ⟨a, n⟩) := .readMem _ ⟨ha, hn⟩
  have hdec := C09.decode_serialize p (.readMem ⟨a, n⟩) s.h.nextReqId hcons hid
  have hlen := (C09.len_agree p (.readMem ⟨a, n⟩) s.h.nextReqId hcons).1
  simp only [C09.fields, C09.body, Spec.GenCP.scdLenOf] at hdec
  have hsend := hc.send_read s.d _ _ _ _ _ hdec
    (by rw [hlen]; simp only [Cmd.Cmd.cmdLen, Cmd.Cmd.scdLen, Cmd.CCD_LEN]; omega) hack hsp
  rw [hq] at hsend
  have := sendCmd_conforming hc p (fun ack => Ack.ReadMem.parse ack.rawScd ack.ccd) s
    (.readMem ⟨a, n⟩) hcons hid hms ACK_READ_MEM (readRange (view s.d).mem a n)
    (readRange (view s.d).mem a n) (view s.d).mem (plan (view s.d).txn) stale rfl
    (by simp [ackKindOf]) (by simpa using hn)
    (by simp only [readRange_length, Cmd.Cmd.maximumAckLen, Cmd.Cmd.ackScdLen,
          Cmd.ACK_HEADER_LENGTH, Cmd.MINIMUM_ACK_SCD_LENGTH]; omega)
    (by simp only [Cmd.Cmd.cmdLen, Cmd.Cmd.scdLen, Cmd.CCD_LEN]; omega)
    (by simp only [Ack.ReadMem.parse, Ack.parseDataScd, Nat.lt_irrefl, if_false]
        rw [List.take_of_length_le (Nat.le_refl _)])
    hstale (by simpa only [readAck] using hsend) hplan
  simpa only [Cmd.Cmd.cmdLen, Cmd.Cmd.scdLen, Cmd.CCD_LEN, Cmd.Cmd.maximumAckLen,
    Cmd.Cmd.ackScdLen, Cmd.ACK_HEADER_LENGTH, Cmd.MINIMUM_ACK_SCD_LENGTH, readAck,
    Nat.reduceAdd] using this

/-- WriteMem transaction against a conforming device. -/
theorem sendCmd_write (hc : Conforming dev view lim plan ms) (p : Profile) (s : St σ)
    (w : Cmd.WriteMem) (stale : List Bytes) (hw : C09.WriteMem.Built w)
    (hid : s.h.nextReqId < 2 ^ 16)
    (hms : ms < 2 ^ 16) (hcfg : 20 + w.data.length ≤ s.h.cfg.maxCmd)
    (hcmd : 20 + w.data.length ≤ lim.maxCmd) (hack : 16 ≤ lim.maxAck)
    (hsp : w.address + w.data.length ≤ 2 ^ 64)
    (hq : (view s.d).queue = stale) (hstale : StaleOk p s.h.nextReqId s.h.bufLen stale)
    (hplan : stale.length + plan (view s.d).txn < s.h.cfg.retry) :
    ∃ s', sendCmd dev p (fun ack => Ack.WriteMem.parse ack.rawScd ack.ccd) s (.writeMem w) =
        (s', .ok w.data.length) ∧
      s'.h = { s.h with nextReqId := (s.h.nextReqId + 1) % 2 ^ 16,
                        bufLen := max s.h.bufLen (max (20 + w.data.length) 16) } ∧
      (view s'.d).mem = writeRange (view s.d).mem w.address w.data ∧ (view s'.d).queue = [] ∧
      (view s'.d).txn = (view s.d).txn + 1 ∧
      s'.logRev = (txnEvents (max s.h.bufLen (max (20 + w.data.length) 16)) s.h.cfg.xfer
        ((Cmd.Cmd.writeMem w).serialize s.h.nextReqId) s.h.nextReqId ms stale
        (writeAck s.h.nextReqId w.data.length) (plan (view s.d).txn)).reverse ++ s.logRev := by
  have hcons : C09.Constructible p (.writeMem w) := .writeMem _ hw
  have hdec := C09.decode_serialize p (.writeMem w) s.h.nextReqId hcons hid
  have hla := C09.len_agree p (.writeMem w) s.h.nextReqId hcons
  have hlen := hla.1
  have hwl : w.len = w.data.length + 8 ∧ w.data.length + 8 ≤ U16_MAX := by
    have := C09.ctor_refuses_writeMem w.address w.data
    obtain ⟨_, hb⟩ := hw
    by_cases hle : w.data.length + 8 ≤ U16_MAX
    · have h2 := this.2.1 hle
      rw [h2] at hb
      injection hb with hb
      exact ⟨by rw [← hb], hle⟩
    · have h2 := this.1.2 (by omega)
      rw [h2] at hb
      cases hb
  simp only [C09.fields, C09.body, Spec.GenCP.scdLenOf] at hdec
  have hcl : (Cmd.Cmd.writeMem w).cmdLen = 20 + w.data.length := by
    simp only [Cmd.Cmd.cmdLen, Cmd.Cmd.scdLen, Cmd.CCD_LEN, hwl.1]; omega
  have hsend := hc.send_write s.d _ _ _ _ _ hdec (by rw [hlen, hcl]; exact hcmd) hack hsp
  rw [hq] at hsend
  have hu := hwl.2
  simp only [U16_MAX] at hu
  have := sendCmd_conforming hc p (fun ack => Ack.WriteMem.parse ack.rawScd ack.ccd) s
    (.writeMem w) hcons hid hms ACK_WRITE_MEM (toLE 2 0 ++ toLE 2 w.data.length)
    w.data.length (writeRange (view s.d).mem w.address w.data) (plan (view s.d).txn) stale rfl
    (by simp [ackKindOf]) (by simp)
    (by simp only [List.length_append, toLE_length, Cmd.Cmd.maximumAckLen, Cmd.Cmd.ackScdLen,
          Cmd.ACK_HEADER_LENGTH, Cmd.MINIMUM_ACK_SCD_LENGTH]; omega)
    (by rw [hcl]; exact hcfg)
    (by simp only [Ack.WriteMem.parse]; exact parseReservedU16_ok _ (by omega) _ (by simp))
    hstale (by simpa only [writeAck] using hsend) hplan
  have hma : (Cmd.Cmd.writeMem w).maximumAckLen = 16 := by
    simp [Cmd.Cmd.maximumAckLen, Cmd.Cmd.ackScdLen, Cmd.ACK_HEADER_LENGTH,
      Cmd.MINIMUM_ACK_SCD_LENGTH]
  simpa only [hcl, hma, writeAck] using this

end Txn

end CamVerif.C06
