/-
Helper lemmas for C06 (and C07's "usable after error"):
 A. device memory (`readRange` / `writeRange` over any `MemLike`)
 B. acceptance of the acknowledges a conforming device sends (`Ack.AckPacket.parse` of
    `Spec.Conf.encodeAck …`) — the seam to C08
 C. one `send_cmd` transaction against a conforming device
-/
import CamVerif.Model.Control
import CamVerif.Spec.ConformingDevice
import CamVerif.Props.C09
import CamVerif.Props.C10
namespace CamVerif.C06
open CamVerif CamVerif.Control CamVerif.Spec.Conf
open CamVerif.Spec.GenCP (decodeCmd CmdFields CmdBody)

/-! ## A. Memory -/

section Mem
variable {M : Type} [MemLike M]

@[simp] theorem readRange_length (m : M) (a n : Nat) : (readRange m a n).length = n := by
  induction n generalizing a with
  | zero => rfl
  | succ k ih => simp [readRange, ih]

theorem readRange_add (m : M) (a k l : Nat) :
    readRange m a (k + l) = readRange m a k ++ readRange m (a + k) l := by
  induction k generalizing a with
  | zero => simp [readRange]
  | succ j ih =>
    have : j + 1 + l = (j + l) + 1 := by omega
    rw [this]
    simp only [readRange, ih, List.cons_append]
    have : a + 1 + j = a + (j + 1) := by omega
    rw [this]

theorem writeRange_append (m : M) (a : Nat) (d1 d2 : Bytes) :
    writeRange m a (d1 ++ d2) = writeRange (writeRange m a d1) (a + d1.length) d2 := by
  induction d1 generalizing m a with
  | nil => simp [writeRange]
  | cons b bs ih =>
    simp only [List.cons_append, writeRange, ih, List.length_cons]
    have : a + 1 + bs.length = a + (bs.length + 1) := by omega
    rw [this]

/-- bytes outside `[a, a+|d|)` are untouched by `writeRange`. -/
theorem get_writeRange_outside (m : M) (a : Nat) (d : Bytes) (x : Nat)
    (h : x < a ∨ a + d.length ≤ x) : MemLike.get (writeRange m a d) x = MemLike.get m x := by
  induction d generalizing m a with
  | nil => rfl
  | cons b bs ih =>
    simp only [writeRange]
    rw [ih]
    · rw [MemLike.get_set, if_neg]
      simp only [List.length_cons] at h
      omega
    · simp only [List.length_cons] at h
      omega

/-- byte `a+i` holds `d[i]` after `writeRange`. -/
theorem get_writeRange_inside (m : M) (a : Nat) (d : Bytes) (i : Nat) (hi : i < d.length) :
    MemLike.get (writeRange m a d) (a + i) = d[i] := by
  induction d generalizing m a i with
  | nil => simp at hi
  | cons b bs ih =>
    simp only [writeRange]
    cases i with
    | zero =>
      rw [get_writeRange_outside _ _ _ _ (by omega), MemLike.get_set]
      simp
    | succ j =>
      have : a + (j + 1) = a + 1 + j := by omega
      rw [this, ih _ _ _ (by simpa using hi)]
      simp

theorem readRange_congr (m m' : M) (a n : Nat)
    (h : ∀ x, a ≤ x → x < a + n → MemLike.get m x = MemLike.get m' x) :
    readRange m a n = readRange m' a n := by
  induction n generalizing a with
  | zero => rfl
  | succ k ih =>
    simp only [readRange]
    rw [h a (Nat.le_refl _) (by omega), ih (a + 1) (fun x h1 h2 => h x (by omega) (by omega))]

/-- reading back what was just written returns it. -/
theorem readRange_writeRange_same (m : M) (a : Nat) (d : Bytes) :
    readRange (writeRange m a d) a d.length = d := by
  apply List.ext_getElem
  · simp
  · intro i h1 h2
    have aux : ∀ (m : M) (a n i : Nat) (h : i < (readRange m a n).length),
        (readRange m a n)[i] = MemLike.get m (a + i) := by
      intro m a n
      induction n generalizing a with
      | zero => intro i h; simp [readRange] at h
      | succ k ih =>
        intro i h
        cases i with
        | zero => simp [readRange]
        | succ j =>
          simp only [readRange, List.getElem_cons_succ]
          rw [ih]
          congr 1; omega
    rw [aux, get_writeRange_inside _ _ _ _ h2]

end Mem

/-! ## B. Acceptance of conforming acknowledges (seam to C08) -/

open CamVerif.Ack in
/-- reading an `n`-byte little-endian field that sits at the cursor. -/
theorem readLE_at (pre post : Bytes) (n v : Nat) (hv : v < 256 ^ n) :
    (Cursor.mk (pre ++ (toLE n v ++ post)) pre.length).readLE n =
      .ok (v, ⟨pre ++ (toLE n v ++ post), pre.length + n⟩) := by
  simp only [Cursor.readLE, List.drop_left', List.length_append, toLE_length]
  rw [if_neg (by omega)]
  have : (toLE n v ++ post).take n = toLE n v := by
    rw [List.take_left' (by simp)]
  rw [this, fromLE_toLE_of_lt n v hv]

theorem debugAssert_true (p : Profile) : Ack.debugAssert p true = .ok () := by
  simp [Ack.debugAssert]

theorem status_success (p : Profile) : Ack.Status.ofCode p 0 = .ok ⟨0, .genCp .success⟩ := by
  have h : Ack.trailingZeros16 0 = 16 := by decide
  simp only [Ack.Status.ofCode, Ack.NAMESPACE_MASK, Nat.zero_shiftRight, Nat.zero_and, if_pos,
    Ack.Status.parseGencp, h]
  have : decide (16 ≥ 2) = true := by decide
  rw [this, debugAssert_true]
  rfl

/-- kinds a conforming device answers with -/
def kindOfId (k : Nat) : Option Ack.ScdKind :=
  if k = 0x0801 then some .readMem else if k = 0x0803 then some .writeMem
  else if k = 0x0805 then some .pending else none

theorem scdKind_ofId (k : Nat) (sk : Ack.ScdKind) (h : kindOfId k = some sk) :
    Ack.ScdKind.ofId k = .ok sk := by
  unfold kindOfId at h
  unfold Ack.ScdKind.ofId
  split at h
  · next h1 => rw [if_pos h1]; simpa using h
  · next h1 =>
    rw [if_neg h1]
    split at h
    · next h2 => rw [if_pos h2]; simpa using h
    · next h2 =>
      rw [if_neg h2]
      split at h
      · next h3 => rw [if_pos h3]; simpa using h
      · simp at h

/-- **accepts_conforming**: a successful acknowledge encoded per the layout parses to exactly
its fields (status Success, kind, request id, SCD length) with `raw_scd` = the SCD. -/
theorem parse_encodeAck (p : Profile) (kind id : Nat) (scd : Bytes) (sk : Ack.ScdKind)
    (hk : kindOfId kind = some sk) (hid : id < 2 ^ 16) (hl : scd.length < 2 ^ 16) :
    Ack.AckPacket.parse p (encodeAck STATUS_SUCCESS kind id scd) =
      .ok ⟨⟨⟨0, .genCp .success⟩, sk, id, scd.length⟩, 12, scd⟩ := by
  have hkind : kind < 256 ^ 2 := by
    unfold kindOfId at hk
    split at hk
    · omega
    · split at hk
      · omega
      · split at hk
        · omega
        · simp at hk
  unfold encodeAck Ack.AckPacket.parse
  simp only [STATUS_SUCCESS, ACK_MAGIC]
  -- magic
  have r1 := readLE_at [] (toLE 2 0 ++ toLE 2 kind ++ toLE 2 scd.length ++ toLE 2 id ++ scd) 4
    0x43563355 (by decide)
  simp only [List.nil_append, List.length_nil, Nat.zero_add, List.append_assoc] at r1 ⊢
  rw [r1]
  simp only [Res.bind_ok, Ack.ACK_PREFIX_MAGIC, ne_eq, not_true_eq_false, if_false]
  -- status
  have r2 := readLE_at (toLE 4 0x43563355)
    (toLE 2 kind ++ (toLE 2 scd.length ++ (toLE 2 id ++ scd))) 2 0 (by decide)
  simp only [toLE_length, Nat.reduceAdd] at r2
  -- kind
  have r3 := readLE_at (toLE 4 0x43563355 ++ toLE 2 0)
    (toLE 2 scd.length ++ (toLE 2 id ++ scd)) 2 kind hkind
  simp only [List.length_append, toLE_length, List.append_assoc, Nat.reduceAdd] at r3
  -- scd_len
  have r4 := readLE_at (toLE 4 0x43563355 ++ toLE 2 0 ++ toLE 2 kind) (toLE 2 id ++ scd) 2
    scd.length (by omega)
  simp only [List.length_append, toLE_length, List.append_assoc, Nat.reduceAdd] at r4
  -- request id
  have r5 := readLE_at (toLE 4 0x43563355 ++ toLE 2 0 ++ toLE 2 kind ++ toLE 2 scd.length) scd 2
    id (by omega)
  simp only [List.length_append, toLE_length, List.append_assoc, Nat.reduceAdd] at r5
  simp only [Ack.AckCcd.parse, Ack.Status.parse, Ack.ScdKind.parse, r2, r3, r4, r5, Res.bind_ok,
    status_success, scdKind_ofId kind sk hk, Res.pure_eq, List.length_append, toLE_length]
  rw [if_neg (by omega)]
  have : ∀ (xs : Bytes), xs.length = 12 → (xs ++ scd).drop 12 = scd := by
    intro xs h; exact List.drop_left' h
  have h12 : (toLE 4 0x43563355 ++ (toLE 2 0 ++ (toLE 2 kind ++ (toLE 2 scd.length ++
      (toLE 2 id ++ scd))))).drop 12 = scd := by
    have := this (toLE 4 0x43563355 ++ toLE 2 0 ++ toLE 2 kind ++ toLE 2 scd.length ++ toLE 2 id)
      (by simp)
    simpa only [List.append_assoc] using this
  rw [h12]

theorem parseReservedU16_ok (v : Nat) (hv : v < 2 ^ 16) :
    Ack.parseReservedU16 (toLE 2 0 ++ toLE 2 v) = .ok v := by
  have r1 := readLE_at [] (toLE 2 v) 2 0 (by decide)
  have r2 := readLE_at (toLE 2 0) [] 2 v (by omega)
  simp only [List.nil_append, List.length_nil, List.append_nil, toLE_length] at r1 r2
  simp only [Ack.parseReservedU16, r1, Res.bind_ok, ne_eq, not_true_eq_false, if_false, r2,
    Res.pure_eq]

theorem encodeAck_length (status kind id : Nat) (scd : Bytes) :
    (encodeAck status kind id scd).length = 12 + scd.length := by
  simp [encodeAck]; omega

end CamVerif.C06
