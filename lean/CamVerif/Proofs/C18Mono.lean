/-
C18 helper lemmas: accessibility propagates DOWN the value path — a readable node's value
sources are readable, a writable node's value targets are writable (and what it must read is
readable) — so a restriction anywhere on the value path dominates.
-/
import CamVerif.Proofs.C18Access
namespace CamVerif.C18
open CamVerif CamVerif.GenApi CamVerif.GenApiSem

variable {F E : Type}

/-- the nodes whose readability `Readable` of a node requires whatever the state is: `pValue`,
the `pIndex` selector, the `pValue` of Boolean / Enumeration / String / Converter nodes, formula
variables (the selected `pIndex` branch depends on the state and is not listed) -/
def mustRead : Node F E → List NodeId
  | .integer _ (.pValue p _) _ _ _ | .float _ (.pValue p _) _ _ _ => [p]
  | .integer _ (.pIndex sel _ _) _ _ _ | .float _ (.pIndex sel _ _) _ _ _ => [sel]
  | .boolean _ (.pnode p) _ _ | .enumeration _ _ (.pnode p) | .string _ (.pnode p) => [p]
  | .converter _ fm _ _ pv | .intConverter _ fm _ _ pv => pv :: fm.vars.map (·.2)
  | .swissKnife _ fm _ | .intSwissKnife _ fm _ => fm.vars.map (·.2)
  | _ => []

/-- the nodes whose writability `Writable` of a node requires: `pValue` and every `pValueCopy`,
the `pValue` of Boolean / Enumeration / Command / String / Converter nodes -/
def mustWrite : Node F E → List NodeId
  | .integer _ (.pValue p cs) _ _ _ | .float _ (.pValue p cs) _ _ _ => p :: cs
  | .boolean _ (.pnode p) _ _ | .enumeration _ _ (.pnode p) | .command _ (.pnode p) _
  | .string _ (.pnode p) => [p]
  | .converter _ _ _ _ pv | .intConverter _ _ _ _ pv => [pv]
  | _ => []

/-- the nodes whose READABILITY `Writable` of a node requires: the `pIndex` selector and the
formula variables of a converter -/
def mustReadToWrite : Node F E → List NodeId
  | .integer _ (.pIndex sel _ _) _ _ _ | .float _ (.pIndex sel _ _) _ _ _ => [sel]
  | .converter _ fm _ _ _ | .intConverter _ fm _ _ _ => fm.vars.map (·.2)
  | _ => []

theorem readable_sources (cx : Ctx F E) (d : Nat) (n : NodeId) (nd : Node F E) (s : S F)
    (hg : cx.graph n = some nd) (h : readableB cx (d + 1) n s = true) :
    ∀ p ∈ mustRead nd, readableB cx d p s = true := by
  simp only [readableB, readableStep, hg] at h
  intro p hp
  cases nd with
  | integer b vk _ _ _ | float b vk _ _ _ =>
    cases vk <;> simp_all [mustRead, vkReadable]
  | boolean b v _ _ | enumeration b _ v =>
    cases v <;> simp_all [mustRead, slotOrNodeOk]
  | string b v => cases v <;> simp_all [mustRead, strSlotOrNodeOk]
  | converter b fm _ _ pv | intConverter b fm _ _ pv =>
    simp only [mustRead, List.mem_cons, List.mem_map] at hp
    simp only [Bool.and_eq_true, GenApiSem.varsReadable, List.all_eq_true] at h
    rcases hp with rfl | ⟨v, hv, rfl⟩
    · exact h.1.2.2
    · exact (h.2 v hv).2
  | swissKnife b fm _ | intSwissKnife b fm _ =>
    simp only [mustRead, List.mem_map] at hp
    simp only [Bool.and_eq_true, GenApiSem.varsReadable, List.all_eq_true] at h
    obtain ⟨v, hv, rfl⟩ := hp
    exact (h.2 v hv).2
  | _ => simp_all [mustRead]

theorem writable_targets (cx : Ctx F E) (d : Nat) (n : NodeId) (nd : Node F E) (s : S F)
    (hg : cx.graph n = some nd) (h : writableB cx (d + 1) n s = true) :
    (∀ p ∈ mustWrite nd, writableB cx d p s = true) ∧
    (∀ p ∈ mustReadToWrite nd, readableB cx d p s = true) := by
  simp only [writableB, writableStep, hg] at h
  cases nd with
  | integer b vk _ _ _ | float b vk _ _ _ =>
    cases vk with
    | value _ => simp [mustWrite, mustReadToWrite]
    | pValue p cs =>
      simp only [Bool.and_eq_true, vkWritable, List.all_eq_true] at h
      refine ⟨?_, by simp [mustReadToWrite]⟩
      intro q hq
      simp only [mustWrite, List.mem_cons] at hq
      rcases hq with rfl | hq
      · exact h.2.1.2
      · exact (h.2.2 q hq).2
    | pIndex sel es dflt =>
      simp only [Bool.and_eq_true, vkWritable] at h
      refine ⟨by simp [mustWrite], ?_⟩
      intro q hq
      simp only [mustReadToWrite, List.mem_singleton] at hq
      subst hq; exact h.2.1.2
  | boolean b v _ _ | enumeration b _ v | command b v _ =>
    cases v <;> simp_all [mustWrite, mustReadToWrite, slotOrNodeOk]
  | string b v => cases v <;> simp_all [mustWrite, mustReadToWrite, strSlotOrNodeOk]
  | converter b fm _ _ pv | intConverter b fm _ _ pv =>
    simp only [Bool.and_eq_true, GenApiSem.varsReadable, List.all_eq_true] at h
    refine ⟨?_, ?_⟩
    · intro q hq
      simp only [mustWrite, List.mem_singleton] at hq
      subst hq; exact h.1.2.2
    · intro q hq
      simp only [mustReadToWrite, List.mem_map] at hq
      obtain ⟨v, hv, rfl⟩ := hq
      exact (h.2 v hv).2
  | _ => simp_all [mustWrite, mustReadToWrite]

/-- the `pIndex` case, which depends on the state: the selector has a current value and the branch
it selects is accessible -/
theorem selected_branch (cx : Ctx F E) (d : Nat) (n sel : NodeId) (nd : Node F E)
    (es : List (Int × ImmOrPNode SlotId)) (dflt : ImmOrPNode SlotId) (s : S F)
    (hg : cx.graph n = some nd)
    (hk : (∃ b mn mx inc, nd = .integer b (.pIndex sel es dflt) mn mx inc) ∨
          (∃ b mn mx inc, nd = .float b (.pIndex sel es dflt) mn mx inc)) :
    (readableB cx (d + 1) n s = true → ∃ i, selValue cx d sel s = some i ∧
      ∀ p, pIndexSelect es dflt i = .pnode p → readableB cx d p s = true) ∧
    (writableB cx (d + 1) n s = true → ∃ i, selValue cx d sel s = some i ∧
      ∀ p, pIndexSelect es dflt i = .pnode p → writableB cx d p s = true) := by
  constructor
  · intro h
    simp only [readableB, readableStep, hg] at h
    rcases hk with ⟨b, mn, mx, inc, rfl⟩ | ⟨b, mn, mx, inc, rfl⟩ <;>
    · simp only [Bool.and_eq_true, vkReadable] at h
      cases hv : selValue cx d sel s with
      | none => simp [hv] at h
      | some i =>
        refine ⟨i, rfl, fun p hp => ?_⟩
        have h2 := h.2.2
        simp only [hv, hp, slotOrNodeOk, Bool.and_eq_true] at h2
        exact h2.2
  · intro h
    simp only [writableB, writableStep, hg] at h
    rcases hk with ⟨b, mn, mx, inc, rfl⟩ | ⟨b, mn, mx, inc, rfl⟩ <;>
    · simp only [Bool.and_eq_true, vkWritable] at h
      cases hv : selValue cx d sel s with
      | none => simp [hv] at h
      | some i =>
        refine ⟨i, rfl, fun p hp => ?_⟩
        have h2 := h.2.2
        simp only [hv, hp, slotOrNodeOk, Bool.and_eq_true] at h2
        exact h2.2

/-- value path for reading, with its length: each step goes to a node the previous one must read -/
inductive ReadPath (cx : Ctx F E) : Nat → NodeId → NodeId → Prop
  | here (n : NodeId) : ReadPath cx 0 n n
  | next {k : Nat} {n m c : NodeId} {nd : Node F E} :
      cx.graph n = some nd → m ∈ mustRead nd → ReadPath cx k m c → ReadPath cx (k + 1) n c

/-- value path for writing: each step goes to a value target of the previous node -/
inductive WritePath (cx : Ctx F E) : Nat → NodeId → NodeId → Prop
  | here (n : NodeId) : WritePath cx 0 n n
  | next {k : Nat} {n m c : NodeId} {nd : Node F E} :
      cx.graph n = some nd → m ∈ mustWrite nd → WritePath cx k m c → WritePath cx (k + 1) n c

theorem readable_along (cx : Ctx F E) {k : Nat} {n c : NodeId} (hp : ReadPath cx k n c) :
    ∀ (d : Nat) (s : S F), readableB cx (d + k) n s = true → readableB cx d c s = true := by
  induction hp with
  | here n => intro d s h; exact h
  | next hg hm _ ih =>
    intro d s h
    exact ih d s (readable_sources cx _ _ _ s hg h _ hm)

theorem writable_along (cx : Ctx F E) {k : Nat} {n c : NodeId} (hp : WritePath cx k n c) :
    ∀ (d : Nat) (s : S F), writableB cx (d + k) n s = true → writableB cx d c s = true := by
  induction hp with
  | here n => intro d s h; exact h
  | next hg hm _ ih =>
    intro d s h
    exact ih d s ((writable_targets cx _ _ _ s hg h).1 _ hm)

end CamVerif.C18
