/-
C03 helper lemmas for termination: no dispatch function invents `outOfFuel` — if every
interface call available for referenced nodes is total (never answers `outOfFuel`) and the
helper layers `Ops` never answer `outOfFuel`, then so is one more unfolding.  Generated
per helper; the proofs are by the tactic `rt_auto`.
-/
import CamVerif.Proofs.GenApiLemmas
namespace CamVerif.C03
open CamVerif CamVerif.GenApi

variable {F E α β : Type}

/-- never answers `outOfFuel` -/
structure RT (m : R F α) : Prop where
  ne : ∀ s, (m s).1 ≠ .err .outOfFuel
structure MT (m : M F α) : Prop where
  ne : ∀ s, (m s).1 ≠ .err .outOfFuel

theorem RT.pure (a : α) : RT (Pure.pure a : R F α) := ⟨fun _ h => by cases h⟩
theorem MT.pure (a : α) : MT (Pure.pure a : M F α) := ⟨fun _ h => by cases h⟩
theorem RT.err {e : Err} (h : e ≠ .outOfFuel) : RT (R.err e : R F α) := ⟨fun _ h' => h (by injection h')⟩
theorem MT.err {e : Err} (h : e ≠ .outOfFuel) : MT (M.err e : M F α) := ⟨fun _ h' => h (by injection h')⟩
theorem RT.panic : RT (R.panic : R F α) := ⟨fun _ h => by cases h⟩
theorem MT.panic : MT (M.panic : M F α) := ⟨fun _ h => by cases h⟩
theorem RT.ofRes {x : Res Err α} (h : x ≠ .err .outOfFuel) : RT (R.ofRes x : R F α) := ⟨fun _ => h⟩
theorem MT.ofRes {x : Res Err α} (h : x ≠ .err .outOfFuel) : MT (M.ofRes x : M F α) := ⟨fun _ => h⟩

theorem RT.bind {m : R F α} {f : α → R F β} (hm : RT m) (hf : ∀ a, RT (f a)) : RT (m >>= f) := by
  constructor
  intro s
  show (R.bind m f s).1 ≠ _
  unfold R.bind
  have h1 := hm.ne s
  cases hms : m s with
  | mk r l =>
    rw [hms] at h1
    cases r with
    | ok a =>
      simp only
      have := (hf a).ne s
      cases hfa : f a s
      rw [hfa] at this
      exact this
    | err e => simpa using h1
    | panic => simp

theorem MT.bind {m : M F α} {f : α → M F β} (hm : MT m) (hf : ∀ a, MT (f a)) : MT (m >>= f) := by
  constructor
  intro s
  show (M.bind m f s).1 ≠ _
  unfold M.bind
  have h1 := hm.ne s
  cases hms : m s with
  | mk r rest =>
    obtain ⟨s', l⟩ := rest
    rw [hms] at h1
    cases r with
    | ok a =>
      simp only
      have := (hf a).ne s'
      cases hfa : f a s' with
      | mk r2 rest2 =>
        obtain ⟨s2, l2⟩ := rest2
        rw [hfa] at this
        exact this
    | err e => simpa using h1
    | panic => simp

theorem MT.ofR {m : R F α} (hm : RT m) : MT (M.ofR m) := by
  constructor
  intro s
  unfold M.ofR
  have := hm.ne s
  cases hms : m s
  rw [hms] at this
  exact this

/-- the helper layers never answer `outOfFuel` (it is a model-only error) -/
structure OpsTotal (ops : Ops F E) : Prop where
  intFromSlice : ∀ a b c, ops.intFromSlice a b c ≠ .err .outOfFuel
  bytesFromInt : ∀ a b c d, ops.bytesFromInt a b c d ≠ .err .outOfFuel
  floatFromSlice : ∀ a b, ops.floatFromSlice a b ≠ .err .outOfFuel
  bytesFromFloat : ∀ a b c, ops.bytesFromFloat a b c ≠ .err .outOfFuel
  applyMask : ∀ a b c d e f, ops.applyMask a b c d e f ≠ .err .outOfFuel
  maskedValue : ∀ a b c d e f g, ops.maskedValue a b c d e f g ≠ .err .outOfFuel
  maskMin : ∀ a b c d e, ops.maskMin a b c d e ≠ .err .outOfFuel
  maskMax : ∀ a b c d e, ops.maskMax a b c d e ≠ .err .outOfFuel
  eval : ∀ a b c, ops.eval a b c ≠ .err .outOfFuel

theorem addI64_ne (p : Profile) (a b : Int) : addI64 p a b ≠ .err .outOfFuel := by
  unfold addI64; split <;> (try split) <;> intro h <;> cases h
theorem mulI64_ne (p : Profile) (a b : Int) : mulI64 p a b ≠ .err .outOfFuel := by
  unfold mulI64; split <;> (try split) <;> intro h <;> cases h
theorem allocLen_ne (l : Int) : allocLen l ≠ .err .outOfFuel := by
  unfold allocLen; split <;> intro h <;> cases h
theorem ofParts_ne (ps : List String) : VarKind.ofParts ps ≠ .err .outOfFuel := by
  unfold VarKind.ofParts; repeat' split
  all_goals intro h; cases h
theorem ofName_ne (s : String) : VarKind.ofName s ≠ .err .outOfFuel := ofParts_ne _
theorem findEntryByValue_ne (cx : Ctx F E) (es : List NodeId) (v : Int) :
    findEntryByValue cx es v ≠ .err .outOfFuel := by
  induction es with
  | nil => intro h; cases h
  | cons e es ih =>
    unfold findEntryByValue
    split
    · split
      · intro h; cases h
      · exact ih
    · intro h; cases h
theorem entryValueBySymbolic_ne (cx : Ctx F E) (es : List NodeId) (nm : String) :
    entryValueBySymbolic cx es nm ≠ .err .outOfFuel := by
  induction es with
  | nil => intro h; cases h
  | cons e es ih =>
    unfold entryValueBySymbolic
    split
    · split
      · intro h; cases h
      · exact ih
    · intro h; cases h

theorem slotIntegerValue_rt (cx : Ctx F E) (id : SlotId) : RT (slotIntegerValue cx id) := by
  constructor; intro s; unfold slotIntegerValue; split <;> intro h <;> cases h
theorem slotFloatValue_rt (cx : Ctx F E) (id : SlotId) : RT (slotFloatValue cx id) := by
  constructor; intro s; unfold slotFloatValue; split <;> intro h <;> cases h
theorem slotStrValue_rt (id : SlotId) : RT (slotStrValue (F := F) id) := by
  constructor; intro s; unfold slotStrValue; split <;> intro h <;> cases h
theorem intIdValue_rt (cx : Ctx F E) (id : SlotId) : RT (intIdValue cx id) := slotIntegerValue_rt cx id
theorem floatIdValue_rt (cx : Ctx F E) (id : SlotId) : RT (floatIdValue cx id) := slotFloatValue_rt cx id
theorem slotUpdate_mt (id : SlotId) (v : ValueData F) : MT (slotUpdate id v) := by
  constructor; intro s h; cases h
theorem portRead_rt (cx : Ctx F E) (port : NodeId) (a : Int) (len : Nat) : RT (portRead cx port a len) := by
  constructor; intro s; unfold portRead
  generalize cx.graph port = g
  cases g with
  | none => intro h; cases h
  | some nd =>
    cases nd <;> try (intro h; cases h; done)
    rename_i b chunk
    cases chunk
    · show (match s.dev.read a len with
        | some bs => ((Res.ok bs : Res Err Bytes), [Access.read a len true])
        | none => (Res.err Err.device, [Access.read a len false])).1 ≠ _
      split <;> intro h <;> cases h
    · intro h; cases h
theorem portWrite_mt (cx : Ctx F E) (port : NodeId) (a : Int) (data : Bytes) : MT (portWrite cx port a data) := by
  constructor; intro s; unfold portWrite
  generalize cx.graph port = g
  cases g with
  | none => intro h; cases h
  | some nd =>
    cases nd <;> try (intro h; cases h; done)
    rename_i b chunk
    cases chunk
    · show (match s.dev.write a data with
        | some d => ((Res.ok () : Res Err Unit), ({ s with dev := d } : S F), [Access.write a data true])
        | none => (Res.err Err.device, s, [Access.write a data false])).1 ≠ _
      split <;> intro h <;> cases h
    · intro h; cases h
theorem readAndCache_rt (cx : Ctx F E) (rb : RegBase) (a l : Int) (n : Nat) : RT (readAndCache cx rb a l n) := by
  unfold readAndCache; split
  · exact RT.err (by decide)
  · exact portRead_rt _ _ _ _
theorem entryNumeric_rt (cx : Ctx F E) (e : NodeId) : RT (entryNumeric cx e) := by
  unfold entryNumeric
  split
  · split <;> exact RT.pure _
  · exact RT.panic
theorem enumEntriesF_rt (cx : Ctx F E) (n : NodeId) : RT (enumEntriesF cx n) := by
  unfold enumEntriesF; split
  · exact RT.pure _
  · exact RT.err (by decide)

/-- every interface call, on every node, never answers `outOfFuel` -/
structure TotalRec (r : Rec F) : Prop where
  intValue : ∀ n, RT (r.intValue n)
  intMin : ∀ n, RT (r.intMin n)
  intMax : ∀ n, RT (r.intMax n)
  intInc : ∀ n, RT (r.intInc n)
  intIsReadable : ∀ n, RT (r.intIsReadable n)
  intIsWritable : ∀ n, RT (r.intIsWritable n)
  floatValue : ∀ n, RT (r.floatValue n)
  floatMin : ∀ n, RT (r.floatMin n)
  floatMax : ∀ n, RT (r.floatMax n)
  floatInc : ∀ n, RT (r.floatInc n)
  floatIsReadable : ∀ n, RT (r.floatIsReadable n)
  floatIsWritable : ∀ n, RT (r.floatIsWritable n)
  strValue : ∀ n, RT (r.strValue n)
  strMaxLength : ∀ n, RT (r.strMaxLength n)
  strIsReadable : ∀ n, RT (r.strIsReadable n)
  strIsWritable : ∀ n, RT (r.strIsWritable n)
  boolValue : ∀ n, RT (r.boolValue n)
  boolIsReadable : ∀ n, RT (r.boolIsReadable n)
  boolIsWritable : ∀ n, RT (r.boolIsWritable n)
  enumCurrentValue : ∀ n, RT (r.enumCurrentValue n)
  enumCurrentEntry : ∀ n, RT (r.enumCurrentEntry n)
  enumIsReadable : ∀ n, RT (r.enumIsReadable n)
  enumIsWritable : ∀ n, RT (r.enumIsWritable n)
  intSet : ∀ n v, MT (r.intSet n v)
  floatSet : ∀ n v, MT (r.floatSet n v)
  strSet : ∀ n v, MT (r.strSet n v)
  boolSet : ∀ n v, MT (r.boolSet n v)
  enumSetByValue : ∀ n v, MT (r.enumSetByValue n v)

/- `rt_auto h o [lemmas]`: decomposes totality goals. -/
open Lean in
syntax "rt_auto " ident ident (" [" term,* "]")? : tactic
open Lean in
macro_rules
  | `(tactic| rt_auto $h:ident $o:ident) => `(tactic| rt_auto $h $o [])
  | `(tactic| rt_auto $h:ident $o:ident [$ts,*]) => do
    let mut alts : Array (TSyntax `tactic) := #[← `(tactic| fail "no lemma applies")]
    for t in ts.getElems do
      alts := alts.push (← `(tactic| exact $t $h $o _))
      alts := alts.push (← `(tactic| exact $t $h $o _ _))
      alts := alts.push (← `(tactic| exact $t $h $o _ _ _))
      alts := alts.push (← `(tactic| exact $t $h $o _ _ _ _))
      alts := alts.push (← `(tactic| exact $t $h $o _ _ _ _ _))
      alts := alts.push (← `(tactic| exact $t $h $o))
    `(tactic|
      repeat' (first
      | exact RT.pure _ | exact MT.pure _ | exact RT.panic | exact MT.panic
      | exact RT.err (by decide) | exact MT.err (by decide)
      | exact ($h).intValue _
      | exact ($h).intMin _
      | exact ($h).intMax _
      | exact ($h).intInc _
      | exact ($h).intIsReadable _
      | exact ($h).intIsWritable _
      | exact ($h).floatValue _
      | exact ($h).floatMin _
      | exact ($h).floatMax _
      | exact ($h).floatInc _
      | exact ($h).floatIsReadable _
      | exact ($h).floatIsWritable _
      | exact ($h).strValue _
      | exact ($h).strMaxLength _
      | exact ($h).strIsReadable _
      | exact ($h).strIsWritable _
      | exact ($h).boolValue _
      | exact ($h).boolIsReadable _
      | exact ($h).boolIsWritable _
      | exact ($h).enumCurrentValue _
      | exact ($h).enumCurrentEntry _
      | exact ($h).enumIsReadable _
      | exact ($h).enumIsWritable _
      | exact ($h).intSet _ _
      | exact ($h).floatSet _ _
      | exact ($h).strSet _ _
      | exact ($h).boolSet _ _
      | exact ($h).enumSetByValue _ _
      | exact intIdValue_rt _ _ | exact floatIdValue_rt _ _ | exact slotStrValue_rt _ | exact slotUpdate_mt _ _
      | exact slotIntegerValue_rt _ _ | exact slotFloatValue_rt _ _
      | exact portRead_rt _ _ _ _ | exact portWrite_mt _ _ _ _ | exact readAndCache_rt _ _ _ _ _
      | exact entryNumeric_rt _ _
      | exact RT.ofRes (addI64_ne _ _ _) | exact RT.ofRes (mulI64_ne _ _ _) | exact RT.ofRes (allocLen_ne _)
      | exact MT.ofRes (allocLen_ne _) | exact RT.ofRes (ofName_ne _)
      | exact RT.ofRes (findEntryByValue_ne _ _ _) | exact MT.ofRes (findEntryByValue_ne _ _ _)
      | exact RT.ofRes (entryValueBySymbolic_ne _ _ _) | exact MT.ofRes (entryValueBySymbolic_ne _ _ _)
      | exact RT.ofRes (($o).intFromSlice _ _ _)
      | exact RT.ofRes (($o).bytesFromInt _ _ _ _)
      | exact RT.ofRes (($o).floatFromSlice _ _)
      | exact RT.ofRes (($o).bytesFromFloat _ _ _)
      | exact RT.ofRes (($o).applyMask _ _ _ _ _ _)
      | exact RT.ofRes (($o).maskedValue _ _ _ _ _ _ _)
      | exact RT.ofRes (($o).maskMin _ _ _ _ _)
      | exact RT.ofRes (($o).maskMax _ _ _ _ _)
      | exact RT.ofRes (($o).eval _ _ _)
      | exact MT.ofRes (($o).intFromSlice _ _ _)
      | exact MT.ofRes (($o).bytesFromInt _ _ _ _)
      | exact MT.ofRes (($o).floatFromSlice _ _)
      | exact MT.ofRes (($o).bytesFromFloat _ _ _)
      | exact MT.ofRes (($o).applyMask _ _ _ _ _ _)
      | exact MT.ofRes (($o).maskedValue _ _ _ _ _ _ _)
      | exact MT.ofRes (($o).maskMin _ _ _ _ _)
      | exact MT.ofRes (($o).maskMax _ _ _ _ _)
      | exact MT.ofRes (($o).eval _ _ _)
      | exact RT.ofRes (by intro hh; cases hh)
      | (first $[| $alts:tactic]*)
      | apply RT.bind | apply MT.bind | apply MT.ofR
      | intro _
      | split))

section
variable {cx : Ctx F E} {r : Rec F}

theorem nidIntValue_rt (h : TotalRec r) (o : OpsTotal cx.ops) (n : NodeId) :
    RT (nidIntValue cx r n) := by
  unfold nidIntValue; rt_auto h o []

theorem nidIntSet_rt (h : TotalRec r) (o : OpsTotal cx.ops) (n : NodeId) (v : Int) :
    MT (nidIntSet cx r n v) := by
  unfold nidIntSet; rt_auto h o []

theorem nidFloatValue_rt (h : TotalRec r) (o : OpsTotal cx.ops) (n : NodeId) :
    RT (nidFloatValue cx r n) := by
  unfold nidFloatValue; rt_auto h o []

theorem nidFloatSet_rt (h : TotalRec r) (o : OpsTotal cx.ops) (n : NodeId) (v : F) :
    MT (nidFloatSet cx r n v) := by
  unfold nidFloatSet; rt_auto h o []

theorem nidIsReadable_rt (h : TotalRec r) (o : OpsTotal cx.ops) (n : NodeId) :
    RT (nidIsReadable cx r n) := by
  unfold nidIsReadable; rt_auto h o []

theorem nidIsWritable_rt (h : TotalRec r) (o : OpsTotal cx.ops) (n : NodeId) :
    RT (nidIsWritable cx r n) := by
  unfold nidIsWritable; rt_auto h o []

theorem nidStrValue_rt (h : TotalRec r) (o : OpsTotal cx.ops) (n : NodeId) :
    RT (nidStrValue cx r n) := by
  unfold nidStrValue; rt_auto h o []

theorem nidStrSet_rt (h : TotalRec r) (o : OpsTotal cx.ops) (n : NodeId) (v : Bytes) :
    MT (nidStrSet cx r n v) := by
  unfold nidStrSet; rt_auto h o []

theorem nidStrIsReadable_rt (h : TotalRec r) (o : OpsTotal cx.ops) (n : NodeId) :
    RT (nidStrIsReadable cx r n) := by
  unfold nidStrIsReadable; rt_auto h o []

theorem nidStrIsWritable_rt (h : TotalRec r) (o : OpsTotal cx.ops) (n : NodeId) :
    RT (nidStrIsWritable cx r n) := by
  unfold nidStrIsWritable; rt_auto h o []

theorem immIntValue_rt (h : TotalRec r) (o : OpsTotal cx.ops) (a : ImmOrPNode Int) :
    RT (immIntValue cx r a) := by
  unfold immIntValue; rt_auto h o [nidIntValue_rt]

theorem immFloatValue_rt (h : TotalRec r) (o : OpsTotal cx.ops) (a : ImmOrPNode F) :
    RT (immFloatValue cx r a) := by
  unfold immFloatValue; rt_auto h o [nidFloatValue_rt]

theorem slotOrNodeIntValue_rt (h : TotalRec r) (o : OpsTotal cx.ops) (a : ImmOrPNode SlotId) :
    RT (slotOrNodeIntValue cx r a) := by
  unfold slotOrNodeIntValue; rt_auto h o [nidIntValue_rt]

theorem slotOrNodeIntSet_rt (h : TotalRec r) (o : OpsTotal cx.ops) (a : ImmOrPNode SlotId) (v : Int) :
    MT (slotOrNodeIntSet cx r a v) := by
  unfold slotOrNodeIntSet; rt_auto h o [nidIntSet_rt]

theorem slotOrNodeFloatValue_rt (h : TotalRec r) (o : OpsTotal cx.ops) (a : ImmOrPNode SlotId) :
    RT (slotOrNodeFloatValue cx r a) := by
  unfold slotOrNodeFloatValue; rt_auto h o [nidFloatValue_rt]

theorem slotOrNodeFloatSet_rt (h : TotalRec r) (o : OpsTotal cx.ops) (a : ImmOrPNode SlotId) (v : F) :
    MT (slotOrNodeFloatSet cx r a v) := by
  unfold slotOrNodeFloatSet; rt_auto h o [nidFloatSet_rt]

theorem slotOrNodeIsReadable_rt (h : TotalRec r) (o : OpsTotal cx.ops) (a : ImmOrPNode SlotId) :
    RT (slotOrNodeIsReadable cx r a) := by
  unfold slotOrNodeIsReadable; rt_auto h o [nidIsReadable_rt]

theorem slotOrNodeIsWritable_rt (h : TotalRec r) (o : OpsTotal cx.ops) (a : ImmOrPNode SlotId) :
    RT (slotOrNodeIsWritable cx r a) := by
  unfold slotOrNodeIsWritable; rt_auto h o [nidIsWritable_rt]

theorem slotOrNodeStrValue_rt (h : TotalRec r) (o : OpsTotal cx.ops) (a : ImmOrPNode SlotId) :
    RT (slotOrNodeStrValue cx r a) := by
  unfold slotOrNodeStrValue; rt_auto h o [nidStrValue_rt]

theorem slotOrNodeStrSet_rt (h : TotalRec r) (o : OpsTotal cx.ops) (a : ImmOrPNode SlotId) (v : Bytes) :
    MT (slotOrNodeStrSet cx r a v) := by
  unfold slotOrNodeStrSet; rt_auto h o [nidStrSet_rt]

theorem slotOrNodeStrIsReadable_rt (h : TotalRec r) (o : OpsTotal cx.ops) (a : ImmOrPNode SlotId) :
    RT (slotOrNodeStrIsReadable cx r a) := by
  unfold slotOrNodeStrIsReadable; rt_auto h o [nidStrIsReadable_rt]

theorem slotOrNodeStrIsWritable_rt (h : TotalRec r) (o : OpsTotal cx.ops) (a : ImmOrPNode SlotId) :
    RT (slotOrNodeStrIsWritable cx r a) := by
  unfold slotOrNodeStrIsWritable; rt_auto h o [nidStrIsWritable_rt]

theorem copiesIntSet_rt (h : TotalRec r) (o : OpsTotal cx.ops) (cs : List NodeId) (v : Int) :
    MT (copiesIntSet cx r cs v) := by
  induction cs generalizing v with
  | nil => unfold copiesIntSet; exact MT.pure _
  | cons x xs ih =>
    unfold copiesIntSet
    rt_auto h o [nidIntSet_rt]
    all_goals first | exact ih _ | exact ih _ _

theorem copiesFloatSet_rt (h : TotalRec r) (o : OpsTotal cx.ops) (cs : List NodeId) (v : F) :
    MT (copiesFloatSet cx r cs v) := by
  induction cs generalizing v with
  | nil => unfold copiesFloatSet; exact MT.pure _
  | cons x xs ih =>
    unfold copiesFloatSet
    rt_auto h o [nidFloatSet_rt]
    all_goals first | exact ih _ | exact ih _ _

theorem copiesIsWritable_rt (h : TotalRec r) (o : OpsTotal cx.ops) (cs : List NodeId) (b : Bool) :
    RT (copiesIsWritable cx r cs b) := by
  induction cs generalizing b with
  | nil => unfold copiesIsWritable; exact RT.pure _
  | cons x xs ih =>
    unfold copiesIsWritable
    rt_auto h o [nidIsWritable_rt]
    all_goals first | exact ih _ | exact ih _ _

theorem pValueIntSet_rt (h : TotalRec r) (o : OpsTotal cx.ops) (p : NodeId) (cs : List NodeId) (v : Int) :
    MT (pValueIntSet cx r p cs v) := by
  unfold pValueIntSet; rt_auto h o [nidIntSet_rt, copiesIntSet_rt]

theorem pValueFloatSet_rt (h : TotalRec r) (o : OpsTotal cx.ops) (p : NodeId) (cs : List NodeId) (v : F) :
    MT (pValueFloatSet cx r p cs v) := by
  unfold pValueFloatSet; rt_auto h o [nidFloatSet_rt, copiesFloatSet_rt]

theorem pValueIsWritable_rt (h : TotalRec r) (o : OpsTotal cx.ops) (p : NodeId) (cs : List NodeId) :
    RT (pValueIsWritable cx r p cs) := by
  unfold pValueIsWritable; rt_auto h o [nidIsWritable_rt, copiesIsWritable_rt]

theorem pIndexIndex_rt (h : TotalRec r) (o : OpsTotal cx.ops) (sel : NodeId) :
    RT (pIndexIndex cx r sel) := by
  unfold pIndexIndex; rt_auto h o []

theorem pIndexSelReadable_rt (h : TotalRec r) (o : OpsTotal cx.ops) (sel : NodeId) :
    RT (pIndexSelReadable cx r sel) := by
  unfold pIndexSelReadable; rt_auto h o []

theorem pIndexIsReadable_rt (h : TotalRec r) (o : OpsTotal cx.ops) (sel : NodeId) (es : List (Int × ImmOrPNode SlotId)) (d : ImmOrPNode SlotId) :
    RT (pIndexIsReadable cx r sel es d) := by
  unfold pIndexIsReadable; rt_auto h o [pIndexSelReadable_rt, pIndexIndex_rt, slotOrNodeIsReadable_rt, nidIsReadable_rt]

theorem pIndexIsWritable_rt (h : TotalRec r) (o : OpsTotal cx.ops) (sel : NodeId) (es : List (Int × ImmOrPNode SlotId)) (d : ImmOrPNode SlotId) :
    RT (pIndexIsWritable cx r sel es d) := by
  unfold pIndexIsWritable; rt_auto h o [pIndexSelReadable_rt, pIndexIndex_rt, slotOrNodeIsWritable_rt, nidIsWritable_rt]

theorem vkIntValue_rt (h : TotalRec r) (o : OpsTotal cx.ops) (vk : ValueKind) :
    RT (vkIntValue cx r vk) := by
  unfold vkIntValue; rt_auto h o [nidIntValue_rt, pIndexIndex_rt, slotOrNodeIntValue_rt]

theorem vkIntSet_rt (h : TotalRec r) (o : OpsTotal cx.ops) (vk : ValueKind) (v : Int) :
    MT (vkIntSet cx r vk v) := by
  unfold vkIntSet; rt_auto h o [pValueIntSet_rt, nidIntSet_rt, copiesIntSet_rt, pIndexIndex_rt, slotOrNodeIntSet_rt]

theorem vkFloatValue_rt (h : TotalRec r) (o : OpsTotal cx.ops) (vk : ValueKind) :
    RT (vkFloatValue cx r vk) := by
  unfold vkFloatValue; rt_auto h o [nidFloatValue_rt, pIndexIndex_rt, slotOrNodeFloatValue_rt]

theorem vkFloatSet_rt (h : TotalRec r) (o : OpsTotal cx.ops) (vk : ValueKind) (v : F) :
    MT (vkFloatSet cx r vk v) := by
  unfold vkFloatSet; rt_auto h o [pValueFloatSet_rt, nidFloatSet_rt, copiesFloatSet_rt, pIndexIndex_rt, slotOrNodeFloatSet_rt]

theorem vkIsReadable_rt (h : TotalRec r) (o : OpsTotal cx.ops) (vk : ValueKind) :
    RT (vkIsReadable cx r vk) := by
  unfold vkIsReadable; rt_auto h o [nidIsReadable_rt, pIndexIsReadable_rt, pIndexSelReadable_rt, pIndexIndex_rt, slotOrNodeIsReadable_rt]

theorem vkIsWritable_rt (h : TotalRec r) (o : OpsTotal cx.ops) (vk : ValueKind) :
    RT (vkIsWritable cx r vk) := by
  unfold vkIsWritable; rt_auto h o [pValueIsWritable_rt, nidIsWritable_rt, copiesIsWritable_rt, pIndexIsWritable_rt, pIndexSelReadable_rt, pIndexIndex_rt, slotOrNodeIsWritable_rt]

theorem boolFromId_rt (h : TotalRec r) (o : OpsTotal cx.ops) (n : NodeId) :
    RT (boolFromId cx r n) := by
  unfold boolFromId; rt_auto h o []

theorem baseIsImplemented_rt (h : TotalRec r) (o : OpsTotal cx.ops) (b : Base) :
    RT (baseIsImplemented cx r b) := by
  unfold baseIsImplemented; rt_auto h o [boolFromId_rt]

theorem baseIsAvailable_rt (h : TotalRec r) (o : OpsTotal cx.ops) (b : Base) :
    RT (baseIsAvailable cx r b) := by
  unfold baseIsAvailable; rt_auto h o [boolFromId_rt]

theorem baseIsLocked_rt (h : TotalRec r) (o : OpsTotal cx.ops) (b : Base) :
    RT (baseIsLocked cx r b) := by
  unfold baseIsLocked; rt_auto h o [boolFromId_rt]

theorem baseIsReadable_rt (h : TotalRec r) (o : OpsTotal cx.ops) (b : Base) :
    RT (baseIsReadable cx r b) := by
  unfold baseIsReadable; rt_auto h o [baseIsImplemented_rt, boolFromId_rt, baseIsAvailable_rt]

theorem baseIsWritable_rt (h : TotalRec r) (o : OpsTotal cx.ops) (b : Base) :
    RT (baseIsWritable cx r b) := by
  unfold baseIsWritable; rt_auto h o [baseIsImplemented_rt, boolFromId_rt, baseIsAvailable_rt, baseIsLocked_rt]

theorem addrKindValue_rt (h : TotalRec r) (o : OpsTotal cx.ops) (k : AddressKind) :
    RT (addrKindValue cx r k) := by
  unfold addrKindValue; rt_auto h o [immIntValue_rt, nidIntValue_rt]

theorem sumAddrs_rt (h : TotalRec r) (o : OpsTotal cx.ops) (ks : List AddressKind) (acc : Int) :
    RT (sumAddrs cx r ks acc) := by
  induction ks generalizing acc with
  | nil => unfold sumAddrs; exact RT.pure _
  | cons x xs ih =>
    unfold sumAddrs
    rt_auto h o [addrKindValue_rt, immIntValue_rt, nidIntValue_rt]
    all_goals first | exact ih _ | exact ih _ _

theorem regAddress_rt (h : TotalRec r) (o : OpsTotal cx.ops) (rb : RegBase) :
    RT (regAddress cx r rb) := by
  unfold regAddress; rt_auto h o [sumAddrs_rt, addrKindValue_rt, immIntValue_rt, nidIntValue_rt]

theorem regLength_rt (h : TotalRec r) (o : OpsTotal cx.ops) (rb : RegBase) :
    RT (regLength cx r rb) := by
  unfold regLength; rt_auto h o [immIntValue_rt, nidIntValue_rt]

theorem withRead_rt {α : Type} (h : TotalRec r) (o : OpsTotal cx.ops) (rb : RegBase) (f : Bytes → Res Err α)
    (hf : ∀ b, f b ≠ .err .outOfFuel) : RT (withRead cx r rb f) := by
  unfold withRead; rt_auto h o [regLength_rt, immIntValue_rt, nidIntValue_rt, regAddress_rt, sumAddrs_rt, addrKindValue_rt]
  all_goals exact RT.ofRes (hf _)

theorem writeAndCache_rt (h : TotalRec r) (o : OpsTotal cx.ops) (rb : RegBase) (buf : Bytes) :
    MT (writeAndCache cx r rb buf) := by
  unfold writeAndCache; rt_auto h o [regLength_rt, immIntValue_rt, nidIntValue_rt, regAddress_rt, sumAddrs_rt, addrKindValue_rt]

theorem regIsReadable_rt (h : TotalRec r) (o : OpsTotal cx.ops) (rb : RegBase) :
    RT (regIsReadable cx r rb) := by
  unfold regIsReadable; rt_auto h o [baseIsReadable_rt, baseIsImplemented_rt, boolFromId_rt, baseIsAvailable_rt]

theorem regIsWritable_rt (h : TotalRec r) (o : OpsTotal cx.ops) (rb : RegBase) :
    RT (regIsWritable cx r rb) := by
  unfold regIsWritable; rt_auto h o [baseIsWritable_rt, baseIsImplemented_rt, boolFromId_rt, baseIsAvailable_rt, baseIsLocked_rt]

theorem regRead_rt (h : TotalRec r) (o : OpsTotal cx.ops) (rb : RegBase) (bufLen : Nat) :
    RT (regRead cx r rb bufLen) := by
  unfold regRead; rt_auto h o [regLength_rt, immIntValue_rt, nidIntValue_rt, regAddress_rt, sumAddrs_rt, addrKindValue_rt]

theorem intRegValue_rt (h : TotalRec r) (o : OpsTotal cx.ops) (rb : RegBase) (sg : Sign) (en : Endian) :
    RT (intRegValue cx r rb sg en) := by
  unfold intRegValue; exact withRead_rt h o _ _ (fun _ => o.intFromSlice _ _ _)

theorem intRegSet_rt (h : TotalRec r) (o : OpsTotal cx.ops) (rb : RegBase) (sg : Sign) (en : Endian) (v : Int) :
    MT (intRegSet cx r rb sg en v) := by
  unfold intRegSet; rt_auto h o [regLength_rt, immIntValue_rt, nidIntValue_rt, writeAndCache_rt, regAddress_rt, sumAddrs_rt, addrKindValue_rt]

theorem maskedValue_rt (h : TotalRec r) (o : OpsTotal cx.ops) (rb : RegBase) (mk : BitMask) (sg : Sign) (en : Endian) :
    RT (maskedValue cx r rb mk sg en) := by
  unfold maskedValue
  refine RT.bind (withRead_rt h o _ _ (fun _ => o.intFromSlice _ _ _)) (fun _ => ?_)
  rt_auto h o [regLength_rt, immIntValue_rt, nidIntValue_rt, regAddress_rt, sumAddrs_rt, addrKindValue_rt]

theorem maskedSet_rt (h : TotalRec r) (o : OpsTotal cx.ops) (rb : RegBase) (mk : BitMask) (sg : Sign) (en : Endian) (v : Int) :
    MT (maskedSet cx r rb mk sg en v) := by
  unfold maskedSet
  refine MT.bind (MT.ofR (withRead_rt h o _ _ (fun _ => o.intFromSlice _ _ _))) (fun _ => ?_)
  rt_auto h o [regLength_rt, immIntValue_rt, nidIntValue_rt, regAddress_rt, sumAddrs_rt, addrKindValue_rt, writeAndCache_rt]

theorem maskedMin_rt (h : TotalRec r) (o : OpsTotal cx.ops) (rb : RegBase) (mk : BitMask) (sg : Sign) (en : Endian) :
    RT (maskedMin cx r rb mk sg en) := by
  unfold maskedMin; rt_auto h o [regLength_rt, immIntValue_rt, nidIntValue_rt]

theorem maskedMax_rt (h : TotalRec r) (o : OpsTotal cx.ops) (rb : RegBase) (mk : BitMask) (sg : Sign) (en : Endian) :
    RT (maskedMax cx r rb mk sg en) := by
  unfold maskedMax; rt_auto h o [regLength_rt, immIntValue_rt, nidIntValue_rt]

theorem floatRegValue_rt (h : TotalRec r) (o : OpsTotal cx.ops) (rb : RegBase) (en : Endian) :
    RT (floatRegValue cx r rb en) := by
  unfold floatRegValue; exact withRead_rt h o _ _ (fun _ => o.floatFromSlice _ _)

theorem floatRegSet_rt (h : TotalRec r) (o : OpsTotal cx.ops) (rb : RegBase) (en : Endian) (v : F) :
    MT (floatRegSet cx r rb en v) := by
  unfold floatRegSet; rt_auto h o [regLength_rt, immIntValue_rt, nidIntValue_rt, writeAndCache_rt, regAddress_rt, sumAddrs_rt, addrKindValue_rt]

theorem strRegValue_rt (h : TotalRec r) (o : OpsTotal cx.ops) (rb : RegBase) :
    RT (strRegValue cx r rb) := by
  unfold strRegValue; exact withRead_rt h o _ _ (fun _ hh => by cases hh)

theorem strRegSet_rt (h : TotalRec r) (o : OpsTotal cx.ops) (rb : RegBase) (v : Bytes) :
    MT (strRegSet cx r rb v) := by
  unfold strRegSet; rt_auto h o [regLength_rt, immIntValue_rt, nidIntValue_rt, writeAndCache_rt, regAddress_rt, sumAddrs_rt, addrKindValue_rt]

theorem exprFromNid_rt (h : TotalRec r) (o : OpsTotal cx.ops) (n : NodeId) :
    RT (exprFromNid cx r n) := by
  unfold exprFromNid; rt_auto h o []

theorem varGetValue_rt (h : TotalRec r) (o : OpsTotal cx.ops) (k : VarKind) (n : NodeId) :
    RT (varGetValue cx r k n) := by
  unfold varGetValue; rt_auto h o [exprFromNid_rt]

theorem collectVars_rt (h : TotalRec r) (o : OpsTotal cx.ops) (vs : List (String × NodeId)) (env : Env E) :
    RT (collectVars cx r vs env) := by
  induction vs generalizing env with
  | nil => unfold collectVars; exact RT.pure _
  | cons x xs ih =>
    unfold collectVars
    rt_auto h o [varGetValue_rt, exprFromNid_rt]
    all_goals first | exact ih _ | exact ih _ _

theorem collectEnv_rt (h : TotalRec r) (o : OpsTotal cx.ops) (fm : Formulaic F E) (env0 : Env E) :
    RT (collectEnv cx r fm env0) := by
  unfold collectEnv; rt_auto h o [collectVars_rt, varGetValue_rt, exprFromNid_rt]

theorem isNidReadable_rt (h : TotalRec r) (o : OpsTotal cx.ops) (n : NodeId) :
    RT (isNidReadable cx r n) := by
  unfold isNidReadable; rt_auto h o []

theorem isNidWritable_rt (h : TotalRec r) (o : OpsTotal cx.ops) (n : NodeId) :
    RT (isNidWritable cx r n) := by
  unfold isNidWritable; rt_auto h o []

theorem varsReadable_rt (h : TotalRec r) (o : OpsTotal cx.ops) (vs : List (String × NodeId)) (b : Bool) :
    RT (GenApi.varsReadable cx r vs b) := by
  induction vs generalizing b with
  | nil => unfold GenApi.varsReadable; exact RT.pure _
  | cons x xs ih =>
    unfold GenApi.varsReadable
    rt_auto h o [isNidReadable_rt]
    all_goals first | exact ih _ | exact ih _ _

theorem setEvalResult_rt (h : TotalRec r) (o : OpsTotal cx.ops) (n : NodeId) (res : EvalResult F) :
    MT (setEvalResult cx r n res) := by
  unfold setEvalResult; rt_auto h o []

theorem converterEvalFrom_rt (h : TotalRec r) (o : OpsTotal cx.ops) (fm : Formulaic F E) (ff : E) (pv : NodeId) :
    RT (converterEvalFrom cx r fm ff pv) := by
  unfold converterEvalFrom; rt_auto h o [exprFromNid_rt, collectEnv_rt, collectVars_rt, varGetValue_rt]

theorem converterSet_rt (h : TotalRec r) (o : OpsTotal cx.ops) (fm : Formulaic F E) (ft : E) (pv : NodeId) (fr : E) :
    MT (converterSet cx r fm ft pv fr) := by
  unfold converterSet; rt_auto h o [collectEnv_rt, collectVars_rt, varGetValue_rt, exprFromNid_rt, setEvalResult_rt]

theorem swissKnifeEval_rt (h : TotalRec r) (o : OpsTotal cx.ops) (fm : Formulaic F E) (f : E) :
    RT (swissKnifeEval cx r fm f) := by
  unfold swissKnifeEval; rt_auto h o [collectEnv_rt, collectVars_rt, varGetValue_rt, exprFromNid_rt]

theorem converterIsReadable_rt (h : TotalRec r) (o : OpsTotal cx.ops) (b : Base) (fm : Formulaic F E) (pv : NodeId) :
    RT (converterIsReadable cx r b fm pv) := by
  unfold converterIsReadable; rt_auto h o [baseIsReadable_rt, baseIsImplemented_rt, boolFromId_rt, baseIsAvailable_rt, isNidReadable_rt, varsReadable_rt]

theorem converterIsWritable_rt (h : TotalRec r) (o : OpsTotal cx.ops) (b : Base) (fm : Formulaic F E) (pv : NodeId) :
    RT (converterIsWritable cx r b fm pv) := by
  unfold converterIsWritable; rt_auto h o [baseIsWritable_rt, baseIsImplemented_rt, boolFromId_rt, baseIsAvailable_rt, baseIsLocked_rt, isNidWritable_rt, varsReadable_rt, isNidReadable_rt]

theorem swissKnifeIsReadable_rt (h : TotalRec r) (o : OpsTotal cx.ops) (b : Base) (fm : Formulaic F E) :
    RT (swissKnifeIsReadable cx r b fm) := by
  unfold swissKnifeIsReadable; rt_auto h o [baseIsReadable_rt, baseIsImplemented_rt, boolFromId_rt, baseIsAvailable_rt, varsReadable_rt, isNidReadable_rt]

theorem enumCurrentEntryOf_rt (h : TotalRec r) (o : OpsTotal cx.ops) (es : List NodeId) (value : ImmOrPNode SlotId) :
    RT (enumCurrentEntryOf cx r es value) := by
  unfold enumCurrentEntryOf; rt_auto h o [slotOrNodeIntValue_rt, nidIntValue_rt]

theorem enumSetByValueOf_rt (h : TotalRec r) (o : OpsTotal cx.ops) (es : List NodeId) (value : ImmOrPNode SlotId) (v : Int) :
    MT (enumSetByValueOf cx r es value v) := by
  unfold enumSetByValueOf; rt_auto h o [slotOrNodeIntSet_rt, nidIntSet_rt]

theorem boolValueOf_rt (h : TotalRec r) (o : OpsTotal cx.ops) (value : ImmOrPNode SlotId) (onV : Int) (offV : Int) :
    RT (boolValueOf cx r value onV offV) := by
  unfold boolValueOf; rt_auto h o [slotOrNodeIntValue_rt, nidIntValue_rt]

theorem commandExecute_rt (h : TotalRec r) (o : OpsTotal cx.ops) (value : ImmOrPNode SlotId) (cmd : ImmOrPNode SlotId) :
    MT (commandExecute cx r value cmd) := by
  unfold commandExecute; rt_auto h o [slotOrNodeIntValue_rt, nidIntValue_rt, slotOrNodeIntSet_rt, nidIntSet_rt]

theorem commandIsDone_rt (h : TotalRec r) (o : OpsTotal cx.ops) (value : ImmOrPNode SlotId) (cmd : ImmOrPNode SlotId) :
    RT (commandIsDone cx r value cmd) := by
  unfold commandIsDone; rt_auto h o [nidIsReadable_rt, slotOrNodeIntValue_rt, nidIntValue_rt]

theorem intValueF_rt (h : TotalRec r) (o : OpsTotal cx.ops) (n : NodeId) :
    RT (intValueF cx r n) := by
  unfold intValueF; rt_auto h o [vkIntValue_rt, nidIntValue_rt, pIndexIndex_rt, slotOrNodeIntValue_rt, intRegValue_rt, withRead_rt, regLength_rt, immIntValue_rt, regAddress_rt, sumAddrs_rt, addrKindValue_rt, maskedValue_rt, converterEvalFrom_rt, exprFromNid_rt, collectEnv_rt, collectVars_rt, varGetValue_rt, swissKnifeEval_rt]

theorem intSetF_rt (h : TotalRec r) (o : OpsTotal cx.ops) (n : NodeId) (v : Int) :
    MT (intSetF cx r n v) := by
  unfold intSetF; rt_auto h o [vkIntSet_rt, pValueIntSet_rt, nidIntSet_rt, copiesIntSet_rt, pIndexIndex_rt, slotOrNodeIntSet_rt, intRegSet_rt, regLength_rt, immIntValue_rt, nidIntValue_rt, writeAndCache_rt, regAddress_rt, sumAddrs_rt, addrKindValue_rt, maskedSet_rt, withRead_rt, converterSet_rt, collectEnv_rt, collectVars_rt, varGetValue_rt, exprFromNid_rt, setEvalResult_rt]

theorem intMinF_rt (h : TotalRec r) (o : OpsTotal cx.ops) (n : NodeId) :
    RT (intMinF cx r n) := by
  unfold intMinF; rt_auto h o [slotOrNodeIntValue_rt, nidIntValue_rt, maskedMin_rt, regLength_rt, immIntValue_rt, swissKnifeEval_rt, collectEnv_rt, collectVars_rt, varGetValue_rt, exprFromNid_rt]

theorem intMaxF_rt (h : TotalRec r) (o : OpsTotal cx.ops) (n : NodeId) :
    RT (intMaxF cx r n) := by
  unfold intMaxF; rt_auto h o [slotOrNodeIntValue_rt, nidIntValue_rt, maskedMax_rt, regLength_rt, immIntValue_rt, swissKnifeEval_rt, collectEnv_rt, collectVars_rt, varGetValue_rt, exprFromNid_rt]

theorem intIncF_rt (h : TotalRec r) (o : OpsTotal cx.ops) (n : NodeId) :
    RT (intIncF cx r n) := by
  unfold intIncF; rt_auto h o [immIntValue_rt, nidIntValue_rt]

theorem intSetMinF_rt (h : TotalRec r) (o : OpsTotal cx.ops) (n : NodeId) (v : Int) :
    MT (intSetMinF cx r n v) := by
  unfold intSetMinF; rt_auto h o [slotOrNodeIntSet_rt, nidIntSet_rt]

theorem intSetMaxF_rt (h : TotalRec r) (o : OpsTotal cx.ops) (n : NodeId) (v : Int) :
    MT (intSetMaxF cx r n v) := by
  unfold intSetMaxF; rt_auto h o [slotOrNodeIntSet_rt, nidIntSet_rt]

theorem intIsReadableF_rt (h : TotalRec r) (o : OpsTotal cx.ops) (n : NodeId) :
    RT (intIsReadableF cx r n) := by
  unfold intIsReadableF; rt_auto h o [baseIsReadable_rt, baseIsImplemented_rt, boolFromId_rt, baseIsAvailable_rt, vkIsReadable_rt, nidIsReadable_rt, pIndexIsReadable_rt, pIndexSelReadable_rt, pIndexIndex_rt, slotOrNodeIsReadable_rt, regIsReadable_rt, converterIsReadable_rt, isNidReadable_rt, varsReadable_rt, swissKnifeIsReadable_rt]

theorem intIsWritableF_rt (h : TotalRec r) (o : OpsTotal cx.ops) (n : NodeId) :
    RT (intIsWritableF cx r n) := by
  unfold intIsWritableF; rt_auto h o [baseIsWritable_rt, baseIsImplemented_rt, boolFromId_rt, baseIsAvailable_rt, baseIsLocked_rt, vkIsWritable_rt, pValueIsWritable_rt, nidIsWritable_rt, copiesIsWritable_rt, pIndexIsWritable_rt, pIndexSelReadable_rt, pIndexIndex_rt, slotOrNodeIsWritable_rt, regIsWritable_rt, converterIsWritable_rt, isNidWritable_rt, varsReadable_rt, isNidReadable_rt]

theorem floatValueF_rt (h : TotalRec r) (o : OpsTotal cx.ops) (n : NodeId) :
    RT (floatValueF cx r n) := by
  unfold floatValueF; rt_auto h o [vkFloatValue_rt, nidFloatValue_rt, pIndexIndex_rt, slotOrNodeFloatValue_rt, floatRegValue_rt, withRead_rt, regLength_rt, immIntValue_rt, nidIntValue_rt, regAddress_rt, sumAddrs_rt, addrKindValue_rt, converterEvalFrom_rt, exprFromNid_rt, collectEnv_rt, collectVars_rt, varGetValue_rt, swissKnifeEval_rt]

theorem floatSetF_rt (h : TotalRec r) (o : OpsTotal cx.ops) (n : NodeId) (v : F) :
    MT (floatSetF cx r n v) := by
  unfold floatSetF; rt_auto h o [vkFloatSet_rt, pValueFloatSet_rt, nidFloatSet_rt, copiesFloatSet_rt, pIndexIndex_rt, slotOrNodeFloatSet_rt, floatRegSet_rt, regLength_rt, immIntValue_rt, nidIntValue_rt, writeAndCache_rt, regAddress_rt, sumAddrs_rt, addrKindValue_rt, converterSet_rt, collectEnv_rt, collectVars_rt, varGetValue_rt, exprFromNid_rt, setEvalResult_rt]

theorem floatMinF_rt (h : TotalRec r) (o : OpsTotal cx.ops) (n : NodeId) :
    RT (floatMinF cx r n) := by
  unfold floatMinF; rt_auto h o [slotOrNodeFloatValue_rt, nidFloatValue_rt, swissKnifeEval_rt, collectEnv_rt, collectVars_rt, varGetValue_rt, exprFromNid_rt]

theorem floatMaxF_rt (h : TotalRec r) (o : OpsTotal cx.ops) (n : NodeId) :
    RT (floatMaxF cx r n) := by
  unfold floatMaxF; rt_auto h o [slotOrNodeFloatValue_rt, nidFloatValue_rt, swissKnifeEval_rt, collectEnv_rt, collectVars_rt, varGetValue_rt, exprFromNid_rt]

theorem floatIncF_rt (h : TotalRec r) (o : OpsTotal cx.ops) (n : NodeId) :
    RT (floatIncF cx r n) := by
  unfold floatIncF; rt_auto h o [immFloatValue_rt, nidFloatValue_rt]

theorem floatSetMinF_rt (h : TotalRec r) (o : OpsTotal cx.ops) (n : NodeId) (v : F) :
    MT (floatSetMinF cx r n v) := by
  unfold floatSetMinF; rt_auto h o [slotOrNodeFloatSet_rt, nidFloatSet_rt]

theorem floatSetMaxF_rt (h : TotalRec r) (o : OpsTotal cx.ops) (n : NodeId) (v : F) :
    MT (floatSetMaxF cx r n v) := by
  unfold floatSetMaxF; rt_auto h o [slotOrNodeFloatSet_rt, nidFloatSet_rt]

theorem floatIsReadableF_rt (h : TotalRec r) (o : OpsTotal cx.ops) (n : NodeId) :
    RT (floatIsReadableF cx r n) := by
  unfold floatIsReadableF; rt_auto h o [baseIsReadable_rt, baseIsImplemented_rt, boolFromId_rt, baseIsAvailable_rt, vkIsReadable_rt, nidIsReadable_rt, pIndexIsReadable_rt, pIndexSelReadable_rt, pIndexIndex_rt, slotOrNodeIsReadable_rt, regIsReadable_rt, converterIsReadable_rt, isNidReadable_rt, varsReadable_rt, swissKnifeIsReadable_rt]

theorem floatIsWritableF_rt (h : TotalRec r) (o : OpsTotal cx.ops) (n : NodeId) :
    RT (floatIsWritableF cx r n) := by
  unfold floatIsWritableF; rt_auto h o [baseIsWritable_rt, baseIsImplemented_rt, boolFromId_rt, baseIsAvailable_rt, baseIsLocked_rt, vkIsWritable_rt, pValueIsWritable_rt, nidIsWritable_rt, copiesIsWritable_rt, pIndexIsWritable_rt, pIndexSelReadable_rt, pIndexIndex_rt, slotOrNodeIsWritable_rt, regIsWritable_rt, converterIsWritable_rt, isNidWritable_rt, varsReadable_rt, isNidReadable_rt]

theorem strValueF_rt (h : TotalRec r) (o : OpsTotal cx.ops) (n : NodeId) :
    RT (strValueF cx r n) := by
  unfold strValueF; rt_auto h o [slotOrNodeStrValue_rt, nidStrValue_rt, strRegValue_rt, withRead_rt, regLength_rt, immIntValue_rt, nidIntValue_rt, regAddress_rt, sumAddrs_rt, addrKindValue_rt]

theorem strSetF_rt (h : TotalRec r) (o : OpsTotal cx.ops) (n : NodeId) (v : Bytes) :
    MT (strSetF cx r n v) := by
  unfold strSetF; rt_auto h o [slotOrNodeStrSet_rt, nidStrSet_rt, strRegSet_rt, regLength_rt, immIntValue_rt, nidIntValue_rt, writeAndCache_rt, regAddress_rt, sumAddrs_rt, addrKindValue_rt]

theorem strMaxLengthF_rt (h : TotalRec r) (o : OpsTotal cx.ops) (n : NodeId) :
    RT (strMaxLengthF cx r n) := by
  unfold strMaxLengthF; rt_auto h o [regLength_rt, immIntValue_rt, nidIntValue_rt]

theorem strIsReadableF_rt (h : TotalRec r) (o : OpsTotal cx.ops) (n : NodeId) :
    RT (strIsReadableF cx r n) := by
  unfold strIsReadableF; rt_auto h o [baseIsReadable_rt, baseIsImplemented_rt, boolFromId_rt, baseIsAvailable_rt, slotOrNodeStrIsReadable_rt, nidStrIsReadable_rt, regIsReadable_rt]

theorem strIsWritableF_rt (h : TotalRec r) (o : OpsTotal cx.ops) (n : NodeId) :
    RT (strIsWritableF cx r n) := by
  unfold strIsWritableF; rt_auto h o [baseIsWritable_rt, baseIsImplemented_rt, boolFromId_rt, baseIsAvailable_rt, baseIsLocked_rt, slotOrNodeStrIsWritable_rt, nidStrIsWritable_rt, regIsWritable_rt]

theorem boolValueF_rt (h : TotalRec r) (o : OpsTotal cx.ops) (n : NodeId) :
    RT (boolValueF cx r n) := by
  unfold boolValueF; rt_auto h o [boolValueOf_rt, slotOrNodeIntValue_rt, nidIntValue_rt]

theorem boolSetF_rt (h : TotalRec r) (o : OpsTotal cx.ops) (n : NodeId) (v : Bool) :
    MT (boolSetF cx r n v) := by
  unfold boolSetF; rt_auto h o [slotOrNodeIntSet_rt, nidIntSet_rt]

theorem boolIsReadableF_rt (h : TotalRec r) (o : OpsTotal cx.ops) (n : NodeId) :
    RT (boolIsReadableF cx r n) := by
  unfold boolIsReadableF; rt_auto h o [baseIsReadable_rt, baseIsImplemented_rt, boolFromId_rt, baseIsAvailable_rt, slotOrNodeIsReadable_rt, nidIsReadable_rt]

theorem boolIsWritableF_rt (h : TotalRec r) (o : OpsTotal cx.ops) (n : NodeId) :
    RT (boolIsWritableF cx r n) := by
  unfold boolIsWritableF; rt_auto h o [baseIsWritable_rt, baseIsImplemented_rt, boolFromId_rt, baseIsAvailable_rt, baseIsLocked_rt, slotOrNodeIsWritable_rt, nidIsWritable_rt]

theorem enumCurrentValueF_rt (h : TotalRec r) (o : OpsTotal cx.ops) (n : NodeId) :
    RT (enumCurrentValueF cx r n) := by
  unfold enumCurrentValueF; rt_auto h o [slotOrNodeIntValue_rt, nidIntValue_rt]

theorem enumCurrentEntryF_rt (h : TotalRec r) (o : OpsTotal cx.ops) (n : NodeId) :
    RT (enumCurrentEntryF cx r n) := by
  unfold enumCurrentEntryF; rt_auto h o [enumCurrentEntryOf_rt, slotOrNodeIntValue_rt, nidIntValue_rt]

theorem enumSetByValueF_rt (h : TotalRec r) (o : OpsTotal cx.ops) (n : NodeId) (v : Int) :
    MT (enumSetByValueF cx r n v) := by
  unfold enumSetByValueF; rt_auto h o [enumSetByValueOf_rt, slotOrNodeIntSet_rt, nidIntSet_rt]

theorem enumSetByNameF_rt (h : TotalRec r) (o : OpsTotal cx.ops) (n : NodeId) (nm : String) :
    MT (enumSetByNameF cx r n nm) := by
  unfold enumSetByNameF; rt_auto h o [enumSetByValueOf_rt, slotOrNodeIntSet_rt, nidIntSet_rt]

theorem enumIsReadableF_rt (h : TotalRec r) (o : OpsTotal cx.ops) (n : NodeId) :
    RT (enumIsReadableF cx r n) := by
  unfold enumIsReadableF; rt_auto h o [baseIsReadable_rt, baseIsImplemented_rt, boolFromId_rt, baseIsAvailable_rt, slotOrNodeIsReadable_rt, nidIsReadable_rt]

theorem enumIsWritableF_rt (h : TotalRec r) (o : OpsTotal cx.ops) (n : NodeId) :
    RT (enumIsWritableF cx r n) := by
  unfold enumIsWritableF; rt_auto h o [baseIsWritable_rt, baseIsImplemented_rt, boolFromId_rt, baseIsAvailable_rt, baseIsLocked_rt, slotOrNodeIsWritable_rt, nidIsWritable_rt]

theorem cmdExecuteF_rt (h : TotalRec r) (o : OpsTotal cx.ops) (n : NodeId) :
    MT (cmdExecuteF cx r n) := by
  unfold cmdExecuteF; rt_auto h o [commandExecute_rt, slotOrNodeIntValue_rt, nidIntValue_rt, slotOrNodeIntSet_rt, nidIntSet_rt]

theorem cmdIsDoneF_rt (h : TotalRec r) (o : OpsTotal cx.ops) (n : NodeId) :
    RT (cmdIsDoneF cx r n) := by
  unfold cmdIsDoneF; rt_auto h o [commandIsDone_rt, nidIsReadable_rt, slotOrNodeIntValue_rt, nidIntValue_rt]

theorem cmdIsWritableF_rt (h : TotalRec r) (o : OpsTotal cx.ops) (n : NodeId) :
    RT (cmdIsWritableF cx r n) := by
  unfold cmdIsWritableF; rt_auto h o [baseIsWritable_rt, baseIsImplemented_rt, boolFromId_rt, baseIsAvailable_rt, baseIsLocked_rt, slotOrNodeIsWritable_rt, nidIsWritable_rt]

theorem regReadF_rt (h : TotalRec r) (o : OpsTotal cx.ops) (n : NodeId) (bufLen : Nat) :
    RT (regReadF cx r n bufLen) := by
  unfold regReadF; rt_auto h o [regRead_rt, regLength_rt, immIntValue_rt, nidIntValue_rt, regAddress_rt, sumAddrs_rt, addrKindValue_rt]

theorem regWriteF_rt (h : TotalRec r) (o : OpsTotal cx.ops) (n : NodeId) (data : Bytes) :
    MT (regWriteF cx r n data) := by
  unfold regWriteF; rt_auto h o [writeAndCache_rt, regLength_rt, immIntValue_rt, nidIntValue_rt, regAddress_rt, sumAddrs_rt, addrKindValue_rt]

theorem regAddressF_rt (h : TotalRec r) (o : OpsTotal cx.ops) (n : NodeId) :
    RT (regAddressF cx r n) := by
  unfold regAddressF; rt_auto h o [regAddress_rt, sumAddrs_rt, addrKindValue_rt, immIntValue_rt, nidIntValue_rt]

theorem regLengthF_rt (h : TotalRec r) (o : OpsTotal cx.ops) (n : NodeId) :
    RT (regLengthF cx r n) := by
  unfold regLengthF; rt_auto h o [regLength_rt, immIntValue_rt, nidIntValue_rt]

theorem isImplementedF_rt (h : TotalRec r) (o : OpsTotal cx.ops) (n : NodeId) :
    RT (isImplementedF cx r n) := by
  unfold isImplementedF; rt_auto h o [baseIsImplemented_rt, boolFromId_rt]

theorem isAvailableF_rt (h : TotalRec r) (o : OpsTotal cx.ops) (n : NodeId) :
    RT (isAvailableF cx r n) := by
  unfold isAvailableF; rt_auto h o [baseIsAvailable_rt, boolFromId_rt]

theorem isLockedF_rt (h : TotalRec r) (o : OpsTotal cx.ops) (n : NodeId) :
    RT (isLockedF cx r n) := by
  unfold isLockedF; rt_auto h o [baseIsLocked_rt, boolFromId_rt]

theorem isReadableF_rt (h : TotalRec r) (o : OpsTotal cx.ops) (n : NodeId) :
    RT (isReadableF cx r n) := by
  unfold isReadableF; rt_auto h o [intIsReadableF_rt, baseIsReadable_rt, baseIsImplemented_rt, boolFromId_rt, baseIsAvailable_rt, vkIsReadable_rt, nidIsReadable_rt, pIndexIsReadable_rt, pIndexSelReadable_rt, pIndexIndex_rt, slotOrNodeIsReadable_rt, regIsReadable_rt, converterIsReadable_rt, isNidReadable_rt, varsReadable_rt, swissKnifeIsReadable_rt, floatIsReadableF_rt, strIsReadableF_rt, slotOrNodeStrIsReadable_rt, nidStrIsReadable_rt, boolIsReadableF_rt, enumIsReadableF_rt]

theorem isWritableF_rt (h : TotalRec r) (o : OpsTotal cx.ops) (n : NodeId) :
    RT (isWritableF cx r n) := by
  unfold isWritableF; rt_auto h o [intIsWritableF_rt, baseIsWritable_rt, baseIsImplemented_rt, boolFromId_rt, baseIsAvailable_rt, baseIsLocked_rt, vkIsWritable_rt, pValueIsWritable_rt, nidIsWritable_rt, copiesIsWritable_rt, pIndexIsWritable_rt, pIndexSelReadable_rt, pIndexIndex_rt, slotOrNodeIsWritable_rt, regIsWritable_rt, converterIsWritable_rt, isNidWritable_rt, varsReadable_rt, isNidReadable_rt, floatIsWritableF_rt, strIsWritableF_rt, slotOrNodeStrIsWritable_rt, nidStrIsWritable_rt, boolIsWritableF_rt, enumIsWritableF_rt, cmdIsWritableF_rt]

/-- one unfolding of total interface calls is total -/
theorem step_total (h : TotalRec r) (o : OpsTotal cx.ops) : TotalRec (step cx r) where
  intValue := fun n => intValueF_rt h o n
  intMin := fun n => intMinF_rt h o n
  intMax := fun n => intMaxF_rt h o n
  intInc := fun n => intIncF_rt h o n
  intIsReadable := fun n => intIsReadableF_rt h o n
  intIsWritable := fun n => intIsWritableF_rt h o n
  floatValue := fun n => floatValueF_rt h o n
  floatMin := fun n => floatMinF_rt h o n
  floatMax := fun n => floatMaxF_rt h o n
  floatInc := fun n => floatIncF_rt h o n
  floatIsReadable := fun n => floatIsReadableF_rt h o n
  floatIsWritable := fun n => floatIsWritableF_rt h o n
  strValue := fun n => strValueF_rt h o n
  strMaxLength := fun n => strMaxLengthF_rt h o n
  strIsReadable := fun n => strIsReadableF_rt h o n
  strIsWritable := fun n => strIsWritableF_rt h o n
  boolValue := fun n => boolValueF_rt h o n
  boolIsReadable := fun n => boolIsReadableF_rt h o n
  boolIsWritable := fun n => boolIsWritableF_rt h o n
  enumCurrentValue := fun n => enumCurrentValueF_rt h o n
  enumCurrentEntry := fun n => enumCurrentEntryF_rt h o n
  enumIsReadable := fun n => enumIsReadableF_rt h o n
  enumIsWritable := fun n => enumIsWritableF_rt h o n
  intSet := fun n v => intSetF_rt h o n v
  floatSet := fun n v => floatSetF_rt h o n v
  strSet := fun n v => strSetF_rt h o n v
  boolSet := fun n v => boolSetF_rt h o n v
  enumSetByValue := fun n v => enumSetByValueF_rt h o n v

theorem runR_total {m : R F α} (h : RT m) (f : α → Val F) (st : St F) :
    (runR m f st).1 ≠ .err .outOfFuel := by
  unfold runR
  have := h.ne st.s
  cases hm : m st.s with
  | mk x l => rw [hm] at this; cases x <;> simp at this ⊢; exact this

theorem runM_total {m : M F Unit} (h : MT m) (st : St F) : (runM m st).1 ≠ .err .outOfFuel := by
  unfold runM
  have := h.ne st.s
  cases hm : m st.s with
  | mk x rest => obtain ⟨s', l⟩ := rest; rw [hm] at this; cases x <;> simp at this ⊢; exact this

/-- a request against total interface calls never answers `outOfFuel` -/
theorem top_total (h : TotalRec r) (o : OpsTotal cx.ops) (req : Req F) (st : St F) :
    (top cx r req st).1 ≠ .err .outOfFuel := by
  cases req <;> simp only [top] <;>
    first
    | exact runR_total (by first
        | exact intValueF_rt h o _ | exact intMinF_rt h o _ | exact intMaxF_rt h o _ | exact intIncF_rt h o _
        | exact floatValueF_rt h o _ | exact floatMinF_rt h o _ | exact floatMaxF_rt h o _ | exact floatIncF_rt h o _
        | exact strValueF_rt h o _ | exact strMaxLengthF_rt h o _ | exact boolValueF_rt h o _
        | exact enumCurrentValueF_rt h o _ | exact enumCurrentEntryF_rt h o _ | exact enumEntriesF_rt _ _
        | exact cmdIsDoneF_rt h o _ | exact regReadF_rt h o _ _ | exact regAddressF_rt h o _ | exact regLengthF_rt h o _
        | exact isReadableF_rt h o _ | exact isWritableF_rt h o _ | exact isImplementedF_rt h o _
        | exact isAvailableF_rt h o _ | exact isLockedF_rt h o _) _ _
    | exact runM_total (by first
        | exact intSetF_rt h o _ _ | exact intSetMinF_rt h o _ _ | exact intSetMaxF_rt h o _ _
        | exact floatSetF_rt h o _ _ | exact floatSetMinF_rt h o _ _ | exact floatSetMaxF_rt h o _ _
        | exact strSetF_rt h o _ _ | exact boolSetF_rt h o _ _ | exact enumSetByValueF_rt h o _ _
        | exact enumSetByNameF_rt h o _ _ | exact cmdExecuteF_rt h o _ | exact regWriteF_rt h o _ _) _
end

/-! ### acyclicity vocabulary -/

/-- two records of interface calls coincide on node `p` -/
structure AgreeAt (r1 r2 : Rec F) (p : NodeId) : Prop where
  intValue : r1.intValue p = r2.intValue p
  intMin : r1.intMin p = r2.intMin p
  intMax : r1.intMax p = r2.intMax p
  intInc : r1.intInc p = r2.intInc p
  intIsReadable : r1.intIsReadable p = r2.intIsReadable p
  intIsWritable : r1.intIsWritable p = r2.intIsWritable p
  floatValue : r1.floatValue p = r2.floatValue p
  floatMin : r1.floatMin p = r2.floatMin p
  floatMax : r1.floatMax p = r2.floatMax p
  floatInc : r1.floatInc p = r2.floatInc p
  floatIsReadable : r1.floatIsReadable p = r2.floatIsReadable p
  floatIsWritable : r1.floatIsWritable p = r2.floatIsWritable p
  strValue : r1.strValue p = r2.strValue p
  strMaxLength : r1.strMaxLength p = r2.strMaxLength p
  strIsReadable : r1.strIsReadable p = r2.strIsReadable p
  strIsWritable : r1.strIsWritable p = r2.strIsWritable p
  boolValue : r1.boolValue p = r2.boolValue p
  boolIsReadable : r1.boolIsReadable p = r2.boolIsReadable p
  boolIsWritable : r1.boolIsWritable p = r2.boolIsWritable p
  enumCurrentValue : r1.enumCurrentValue p = r2.enumCurrentValue p
  enumCurrentEntry : r1.enumCurrentEntry p = r2.enumCurrentEntry p
  enumIsReadable : r1.enumIsReadable p = r2.enumIsReadable p
  enumIsWritable : r1.enumIsWritable p = r2.enumIsWritable p
  intSet : r1.intSet p = r2.intSet p
  floatSet : r1.floatSet p = r2.floatSet p
  strSet : r1.strSet p = r2.strSet p
  boolSet : r1.boolSet p = r2.boolSet p
  enumSetByValue : r1.enumSetByValue p = r2.enumSetByValue p

/-- the interface calls on node `p` never answer `outOfFuel` -/
structure TotalAt (r : Rec F) (p : NodeId) : Prop where
  intValue : RT (r.intValue p)
  intMin : RT (r.intMin p)
  intMax : RT (r.intMax p)
  intInc : RT (r.intInc p)
  intIsReadable : RT (r.intIsReadable p)
  intIsWritable : RT (r.intIsWritable p)
  floatValue : RT (r.floatValue p)
  floatMin : RT (r.floatMin p)
  floatMax : RT (r.floatMax p)
  floatInc : RT (r.floatInc p)
  floatIsReadable : RT (r.floatIsReadable p)
  floatIsWritable : RT (r.floatIsWritable p)
  strValue : RT (r.strValue p)
  strMaxLength : RT (r.strMaxLength p)
  strIsReadable : RT (r.strIsReadable p)
  strIsWritable : RT (r.strIsWritable p)
  boolValue : RT (r.boolValue p)
  boolIsReadable : RT (r.boolIsReadable p)
  boolIsWritable : RT (r.boolIsWritable p)
  enumCurrentValue : RT (r.enumCurrentValue p)
  enumCurrentEntry : RT (r.enumCurrentEntry p)
  enumIsReadable : RT (r.enumIsReadable p)
  enumIsWritable : RT (r.enumIsWritable p)
  intSet : ∀ v, MT (r.intSet p v)
  floatSet : ∀ v, MT (r.floatSet p v)
  strSet : ∀ v, MT (r.strSet p v)
  boolSet : ∀ v, MT (r.boolSet p v)
  enumSetByValue : ∀ v, MT (r.enumSetByValue p v)

/-- `r` on the nodes selected by `ok`, a fixed non-`outOfFuel` answer elsewhere -/
def patchRec (ok : NodeId → Bool) (r : Rec F) : Rec F where
  intValue p := if ok p then r.intValue p else R.err .invalidNode
  intMin p := if ok p then r.intMin p else R.err .invalidNode
  intMax p := if ok p then r.intMax p else R.err .invalidNode
  intInc p := if ok p then r.intInc p else R.err .invalidNode
  intIsReadable p := if ok p then r.intIsReadable p else R.err .invalidNode
  intIsWritable p := if ok p then r.intIsWritable p else R.err .invalidNode
  floatValue p := if ok p then r.floatValue p else R.err .invalidNode
  floatMin p := if ok p then r.floatMin p else R.err .invalidNode
  floatMax p := if ok p then r.floatMax p else R.err .invalidNode
  floatInc p := if ok p then r.floatInc p else R.err .invalidNode
  floatIsReadable p := if ok p then r.floatIsReadable p else R.err .invalidNode
  floatIsWritable p := if ok p then r.floatIsWritable p else R.err .invalidNode
  strValue p := if ok p then r.strValue p else R.err .invalidNode
  strMaxLength p := if ok p then r.strMaxLength p else R.err .invalidNode
  strIsReadable p := if ok p then r.strIsReadable p else R.err .invalidNode
  strIsWritable p := if ok p then r.strIsWritable p else R.err .invalidNode
  boolValue p := if ok p then r.boolValue p else R.err .invalidNode
  boolIsReadable p := if ok p then r.boolIsReadable p else R.err .invalidNode
  boolIsWritable p := if ok p then r.boolIsWritable p else R.err .invalidNode
  enumCurrentValue p := if ok p then r.enumCurrentValue p else R.err .invalidNode
  enumCurrentEntry p := if ok p then r.enumCurrentEntry p else R.err .invalidNode
  enumIsReadable p := if ok p then r.enumIsReadable p else R.err .invalidNode
  enumIsWritable p := if ok p then r.enumIsWritable p else R.err .invalidNode
  intSet p v := if ok p then r.intSet p v else M.err .invalidNode
  floatSet p v := if ok p then r.floatSet p v else M.err .invalidNode
  strSet p v := if ok p then r.strSet p v else M.err .invalidNode
  boolSet p v := if ok p then r.boolSet p v else M.err .invalidNode
  enumSetByValue p v := if ok p then r.enumSetByValue p v else M.err .invalidNode

theorem patch_total {ok : NodeId → Bool} {r : Rec F} (h : ∀ p, ok p = true → TotalAt r p) :
    TotalRec (patchRec ok r) where
  intValue := fun p => by
    unfold patchRec; dsimp only; split
    · rename_i hp; exact (h p hp).intValue
    · exact RT.err (by decide)
  intMin := fun p => by
    unfold patchRec; dsimp only; split
    · rename_i hp; exact (h p hp).intMin
    · exact RT.err (by decide)
  intMax := fun p => by
    unfold patchRec; dsimp only; split
    · rename_i hp; exact (h p hp).intMax
    · exact RT.err (by decide)
  intInc := fun p => by
    unfold patchRec; dsimp only; split
    · rename_i hp; exact (h p hp).intInc
    · exact RT.err (by decide)
  intIsReadable := fun p => by
    unfold patchRec; dsimp only; split
    · rename_i hp; exact (h p hp).intIsReadable
    · exact RT.err (by decide)
  intIsWritable := fun p => by
    unfold patchRec; dsimp only; split
    · rename_i hp; exact (h p hp).intIsWritable
    · exact RT.err (by decide)
  floatValue := fun p => by
    unfold patchRec; dsimp only; split
    · rename_i hp; exact (h p hp).floatValue
    · exact RT.err (by decide)
  floatMin := fun p => by
    unfold patchRec; dsimp only; split
    · rename_i hp; exact (h p hp).floatMin
    · exact RT.err (by decide)
  floatMax := fun p => by
    unfold patchRec; dsimp only; split
    · rename_i hp; exact (h p hp).floatMax
    · exact RT.err (by decide)
  floatInc := fun p => by
    unfold patchRec; dsimp only; split
    · rename_i hp; exact (h p hp).floatInc
    · exact RT.err (by decide)
  floatIsReadable := fun p => by
    unfold patchRec; dsimp only; split
    · rename_i hp; exact (h p hp).floatIsReadable
    · exact RT.err (by decide)
  floatIsWritable := fun p => by
    unfold patchRec; dsimp only; split
    · rename_i hp; exact (h p hp).floatIsWritable
    · exact RT.err (by decide)
  strValue := fun p => by
    unfold patchRec; dsimp only; split
    · rename_i hp; exact (h p hp).strValue
    · exact RT.err (by decide)
  strMaxLength := fun p => by
    unfold patchRec; dsimp only; split
    · rename_i hp; exact (h p hp).strMaxLength
    · exact RT.err (by decide)
  strIsReadable := fun p => by
    unfold patchRec; dsimp only; split
    · rename_i hp; exact (h p hp).strIsReadable
    · exact RT.err (by decide)
  strIsWritable := fun p => by
    unfold patchRec; dsimp only; split
    · rename_i hp; exact (h p hp).strIsWritable
    · exact RT.err (by decide)
  boolValue := fun p => by
    unfold patchRec; dsimp only; split
    · rename_i hp; exact (h p hp).boolValue
    · exact RT.err (by decide)
  boolIsReadable := fun p => by
    unfold patchRec; dsimp only; split
    · rename_i hp; exact (h p hp).boolIsReadable
    · exact RT.err (by decide)
  boolIsWritable := fun p => by
    unfold patchRec; dsimp only; split
    · rename_i hp; exact (h p hp).boolIsWritable
    · exact RT.err (by decide)
  enumCurrentValue := fun p => by
    unfold patchRec; dsimp only; split
    · rename_i hp; exact (h p hp).enumCurrentValue
    · exact RT.err (by decide)
  enumCurrentEntry := fun p => by
    unfold patchRec; dsimp only; split
    · rename_i hp; exact (h p hp).enumCurrentEntry
    · exact RT.err (by decide)
  enumIsReadable := fun p => by
    unfold patchRec; dsimp only; split
    · rename_i hp; exact (h p hp).enumIsReadable
    · exact RT.err (by decide)
  enumIsWritable := fun p => by
    unfold patchRec; dsimp only; split
    · rename_i hp; exact (h p hp).enumIsWritable
    · exact RT.err (by decide)
  intSet := fun p v => by
    unfold patchRec; dsimp only; split
    · rename_i hp; exact (h p hp).intSet v
    · exact MT.err (by decide)
  floatSet := fun p v => by
    unfold patchRec; dsimp only; split
    · rename_i hp; exact (h p hp).floatSet v
    · exact MT.err (by decide)
  strSet := fun p v => by
    unfold patchRec; dsimp only; split
    · rename_i hp; exact (h p hp).strSet v
    · exact MT.err (by decide)
  boolSet := fun p v => by
    unfold patchRec; dsimp only; split
    · rename_i hp; exact (h p hp).boolSet v
    · exact MT.err (by decide)
  enumSetByValue := fun p v => by
    unfold patchRec; dsimp only; split
    · rename_i hp; exact (h p hp).enumSetByValue v
    · exact MT.err (by decide)

theorem patch_agree {ok : NodeId → Bool} (r : Rec F) {p : NodeId} (hp : ok p = true) :
    AgreeAt r (patchRec ok r) p where
  intValue := by unfold patchRec; simp [hp]
  intMin := by unfold patchRec; simp [hp]
  intMax := by unfold patchRec; simp [hp]
  intInc := by unfold patchRec; simp [hp]
  intIsReadable := by unfold patchRec; simp [hp]
  intIsWritable := by unfold patchRec; simp [hp]
  floatValue := by unfold patchRec; simp [hp]
  floatMin := by unfold patchRec; simp [hp]
  floatMax := by unfold patchRec; simp [hp]
  floatInc := by unfold patchRec; simp [hp]
  floatIsReadable := by unfold patchRec; simp [hp]
  floatIsWritable := by unfold patchRec; simp [hp]
  strValue := by unfold patchRec; simp [hp]
  strMaxLength := by unfold patchRec; simp [hp]
  strIsReadable := by unfold patchRec; simp [hp]
  strIsWritable := by unfold patchRec; simp [hp]
  boolValue := by unfold patchRec; simp [hp]
  boolIsReadable := by unfold patchRec; simp [hp]
  boolIsWritable := by unfold patchRec; simp [hp]
  enumCurrentValue := by unfold patchRec; simp [hp]
  enumCurrentEntry := by unfold patchRec; simp [hp]
  enumIsReadable := by unfold patchRec; simp [hp]
  enumIsWritable := by unfold patchRec; simp [hp]
  intSet := by unfold patchRec; funext v; simp [hp]
  floatSet := by unfold patchRec; funext v; simp [hp]
  strSet := by unfold patchRec; funext v; simp [hp]
  boolSet := by unfold patchRec; funext v; simp [hp]
  enumSetByValue := by unfold patchRec; funext v; simp [hp]

theorem TotalAt.of_agree {r1 r2 : Rec F} {p : NodeId} (h : AgreeAt r1 r2 p) (ht : TotalAt r2 p) :
    TotalAt r1 p where
  intValue := by rw [h.intValue]; exact ht.intValue
  intMin := by rw [h.intMin]; exact ht.intMin
  intMax := by rw [h.intMax]; exact ht.intMax
  intInc := by rw [h.intInc]; exact ht.intInc
  intIsReadable := by rw [h.intIsReadable]; exact ht.intIsReadable
  intIsWritable := by rw [h.intIsWritable]; exact ht.intIsWritable
  floatValue := by rw [h.floatValue]; exact ht.floatValue
  floatMin := by rw [h.floatMin]; exact ht.floatMin
  floatMax := by rw [h.floatMax]; exact ht.floatMax
  floatInc := by rw [h.floatInc]; exact ht.floatInc
  floatIsReadable := by rw [h.floatIsReadable]; exact ht.floatIsReadable
  floatIsWritable := by rw [h.floatIsWritable]; exact ht.floatIsWritable
  strValue := by rw [h.strValue]; exact ht.strValue
  strMaxLength := by rw [h.strMaxLength]; exact ht.strMaxLength
  strIsReadable := by rw [h.strIsReadable]; exact ht.strIsReadable
  strIsWritable := by rw [h.strIsWritable]; exact ht.strIsWritable
  boolValue := by rw [h.boolValue]; exact ht.boolValue
  boolIsReadable := by rw [h.boolIsReadable]; exact ht.boolIsReadable
  boolIsWritable := by rw [h.boolIsWritable]; exact ht.boolIsWritable
  enumCurrentValue := by rw [h.enumCurrentValue]; exact ht.enumCurrentValue
  enumCurrentEntry := by rw [h.enumCurrentEntry]; exact ht.enumCurrentEntry
  enumIsReadable := by rw [h.enumIsReadable]; exact ht.enumIsReadable
  enumIsWritable := by rw [h.enumIsWritable]; exact ht.enumIsWritable
  intSet := fun v => by rw [h.intSet]; exact ht.intSet v
  floatSet := fun v => by rw [h.floatSet]; exact ht.floatSet v
  strSet := fun v => by rw [h.strSet]; exact ht.strSet v
  boolSet := fun v => by rw [h.boolSet]; exact ht.boolSet v
  enumSetByValue := fun v => by rw [h.enumSetByValue]; exact ht.enumSetByValue v

theorem TotalRec.at {r : Rec F} (h : TotalRec r) (p : NodeId) : TotalAt r p where
  intValue := h.intValue p
  intMin := h.intMin p
  intMax := h.intMax p
  intInc := h.intInc p
  intIsReadable := h.intIsReadable p
  intIsWritable := h.intIsWritable p
  floatValue := h.floatValue p
  floatMin := h.floatMin p
  floatMax := h.floatMax p
  floatInc := h.floatInc p
  floatIsReadable := h.floatIsReadable p
  floatIsWritable := h.floatIsWritable p
  strValue := h.strValue p
  strMaxLength := h.strMaxLength p
  strIsReadable := h.strIsReadable p
  strIsWritable := h.strIsWritable p
  boolValue := h.boolValue p
  boolIsReadable := h.boolIsReadable p
  boolIsWritable := h.boolIsWritable p
  enumCurrentValue := h.enumCurrentValue p
  enumCurrentEntry := h.enumCurrentEntry p
  enumIsReadable := h.enumIsReadable p
  enumIsWritable := h.enumIsWritable p
  intSet := fun v => h.intSet p v
  floatSet := fun v => h.floatSet p v
  strSet := fun v => h.strSet p v
  boolSet := fun v => h.boolSet p v
  enumSetByValue := fun v => h.enumSetByValue p v

/-- the node a request addresses -/
def reqNode : Req F → NodeId
  | .intValue n | .intSet n _ | .intMin n | .intMax n | .intInc n | .intSetMin n _ | .intSetMax n _
  | .floatValue n | .floatSet n _ | .floatMin n | .floatMax n | .floatInc n | .floatSetMin n _
  | .floatSetMax n _ | .strValue n | .strSet n _ | .strMaxLength n | .boolValue n | .boolSet n _
  | .enumCurrentValue n | .enumCurrentEntry n | .enumSetByValue n _ | .enumSetByName n _
  | .enumEntries n | .cmdExecute n | .cmdIsDone n | .regRead n _ | .regWrite n _ | .regAddress n
  | .regLength n | .isReadable n | .isWritable n | .isImplemented n | .isAvailable n | .isLocked n => n

/-- **Acyclicity** of a graph w.r.t. a rank function, stated semantically: what the
interface calls on a node answer is determined by the interface calls on nodes of strictly
smaller rank (a node only consults lower-ranked nodes). -/
structure Acyclic (cx : Ctx F E) (rank : NodeId → Nat) : Prop where
  step : ∀ n r1 r2, (∀ p, rank p < rank n → AgreeAt r1 r2 p) → AgreeAt (step cx r1) (step cx r2) n
  top : ∀ (req : Req F) (st : St F) r1 r2, (∀ p, rank p < rank (reqNode req) → AgreeAt r1 r2 p) →
    top cx r1 req st = top cx r2 req st

/-- with `k` levels of fuel every node of rank below `k` is total -/
theorem total_below {cx : Ctx F E} {rank : NodeId → Nat} (hA : Acyclic cx rank) (o : OpsTotal cx.ops) :
    ∀ k n, rank n < k → TotalAt (execRec cx k) n
  | 0, _, h => by omega
  | k + 1, n, hn => by
    have ih := total_below hA o k
    let ok : NodeId → Bool := fun p => decide (rank p < k)
    have ht : TotalRec (patchRec ok (execRec cx k)) :=
      patch_total (fun p hp => ih p (by simpa [ok] using hp))
    have hs := step_total (cx := cx) ht o
    have ha : AgreeAt (step cx (execRec cx k)) (step cx (patchRec ok (execRec cx k))) n :=
      hA.step n _ _ (fun p hp => patch_agree _ (by simp only [ok, decide_eq_true_eq]; omega))
    exact TotalAt.of_agree ha (hs.at n)

end CamVerif.C03
