/-
C12 helper lemmas: the fault-free invariant behind `all_when_keeping_up`.
-/
import CamVerif.Proofs.C12Order
namespace CamVerif.StreamLoop

/-- `[0, T, 2T, …, (n-1)·T]` -/
def segStarts (T n : Nat) : List Nat := (List.range n).map (· * T)

theorem segStarts_succ (T n : Nat) : segStarts T (n + 1) = segStarts T n ++ [n * T] := by
  simp [segStarts, List.range_succ]

/-- As long as no fault event happened (`faults = 0`: no failed submit, no transfer error,
overflow or timeout, no malformed frame, no `try_send` of an `Ok` payload on a full or closed
channel), every complete segment of `T` packets the device sent has been turned into exactly one
enqueued payload. -/
def KeepUp (P : Params) (s : State) : Prop :=
  s.faults = 0 →
    s.sentLog.map (·.start) = segStarts P.T s.sentLog.length ∧
    match s.pc with
    | .top | .exiting | .exited | .drop _ => s.consumed = s.sentLog.length * P.T
    | .obtain | .submit _ => s.consumed = s.sentLog.length * P.T ∧ s.iterStart = s.sentLog.length * P.T
    | .poll | .parse => s.iterStart = s.sentLog.length * P.T
    | .send (.ok m) => m.start = s.sentLog.length * P.T ∧ s.consumed = s.sentLog.length * P.T + P.T
    | .send (.err _) => False
    | .dead => True

theorem KeepUp_init (P : Params) : KeepUp P (init P) := by
  intro _; simp [init, segStarts]

theorem KeepUp_step {P : Params} {A : Assembler} {script : List Item} {s s' : State} {a : Step}
    (ho : Order P s) (h : KeepUp P s) (hs : step P A script s a = some s') : KeepUp P s' := by
  obtain ⟨_, _, _, _, _, o6, o7⟩ := ho
  cases a <;> simp only [step] at hs
  case trySend =>
    unfold stepTrySend at hs
    split at hs
    · next m hpc =>
      split at hs
      · split at hs <;> (injection hs with hs; subst hs)
        · next o =>
          intro hf
          obtain ⟨k1, k2⟩ := h hf
          simp only [hpc] at k2
          simp only [List.map_append, List.map_cons, List.map_nil, List.length_append, List.length_cons,
            List.length_nil, segStarts_succ, k1, k2.1]
          refine ⟨trivial, ?_⟩
          simp only [Nat.add_mul, Nat.one_mul, Nat.zero_mul, Nat.zero_add]; exact k2.2
        · next e =>
          intro hf
          have := (h hf).2
          simp only [hpc] at this
      · split at hs <;> (injection hs with hs; subst hs)
        · intro hf; simp at hf
        · next e =>
          intro hf
          have := (h hf).2
          simp only [hpc] at this
    · cases hs
  case parse =>
    unfold stepParse at hs
    split at hs
    · next hpc =>
      simp only [hpc] at o7
      split at hs
      · split at hs
        · dsimp only at hs
          split at hs
          · injection hs with hs; subst hs; intro hf; simp at hf
          split at hs <;> (injection hs with hs; subst hs) <;> intro hf <;>
            first
              | (simp at hf; done)
              | (obtain ⟨k1, k2⟩ := h hf
                 simp only [hpc] at k2
                 first
                   | exact ⟨k1, trivial⟩
                   | (refine ⟨k1, k2, ?_⟩; simp only; rw [← k2]; exact o7.1))
        · injection hs with hs; subst hs; intro hf; exact ⟨(h hf).1, trivial⟩
      · injection hs with hs; subst hs; intro hf; exact ⟨(h hf).1, trivial⟩
    · cases hs
  case checkCancel =>
    unfold stepCheckCancel at hs
    split at hs
    · next hpc =>
      split at hs <;> (injection hs with hs; subst hs) <;> intro hf <;>
        (obtain ⟨k1, k2⟩ := h hf; simp only [hpc] at k2; simp_all)
    · cases hs
  all_goals (
    step_split <;> intro hf <;>
    first
      | (simp at hf; done)
      | (obtain ⟨k1, k2⟩ := h (by simpa using hf); simp_all))
