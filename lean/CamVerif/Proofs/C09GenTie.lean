/-
C09 — tie G for function bodies: the packet length arithmetic of `cmd.rs`.

`CamVerif/Gen/FnCmd.lean` is re-emitted by `rs2lean` from the CURRENT text of
`device/src/u3v/protocol/cmd.rs` on every check run.  This file ties

* `CommandPacket::header_len`        (`4 + CommandCcd::len() as usize`),
* `CommandPacket::cmd_len`           (`4 + CommandCcd::len() + self.scd.scd_len()`),
* `CommandPacket::maximum_ack_len`   (`ACK_HEADER_LENGTH + max(self.scd.ack_scd_len(), 4)`),
* `<ReadMem as CommandScd>::{scd_len, ack_scd_len}` and `<WriteMem as CommandScd>::ack_scd_len`

to `HEADER_LEN`, `Cmd.cmdLen`, `Cmd.maximumAckLen`, `Cmd.scdLen`, `Cmd.ackScdLen` of the hand-written
model (`CamVerif/Model/Cmd.lean`), for every input and both build profiles.

`CommandPacket<T>` is generic in its SCD: the translator abstracts the trait-method calls
`self.scd.scd_len()` / `self.scd.ack_scd_len()` (declared `fn(&self) -> u16` in `trait CommandScd`)
to a `u16` parameter; the model's `Cmd.cmdLen c` / `Cmd.maximumAckLen c` instantiate that parameter
with `c.scdLen` / `c.ackScdLen`.  (The `scd_len` / `ack_scd_len` getters of `WriteMem`,
`ReadMemStacked`, `WriteMemStacked` return a stored field of a struct with slice / `Vec` fields,
which the translator does not represent; they stay tied by correspondence.)

Method: as in `C10GenTie.lean` (step 1 `bv_decide` on observations, shape-insensitive; step 2 the
closed form read through `toNat`).
-/
import CamVerif.Gen.FnCmd
import CamVerif.Model.Cmd
import CamVerif.Proofs.C10GenTie
import CamVerif.Proofs.C10GenTie2
import Std.Tactic.BVDecide
set_option linter.unusedSimpArgs false
namespace CamVerif.Proofs.C09GenTie
open CamVerif CamVerif.Cmd
open CamVerif.Proofs.C10GenTie (errs errCode ec_invalidPacket)
open CamVerif.Proofs.C10GenTie2 (GReadMem absRM ack_header_length_eq)

local macro "obs" "[" ds:Lean.Parser.Tactic.simpLemma,* "]" : tactic =>
  `(tactic| simp only [$ds,*,
    ack_header_length_eq, CamVerif.Gen.FnCmd.CommandPacket.header_len,
    Machine.getD_tryIntoUU, Machine.okOr_tryIntoUU, Machine.unwrapOpt_tryIntoUU, Machine.fitsUU_def,
    Machine.satSubU_def, Machine.satAddU_def, Machine.minU_def, Machine.maxU_def, Machine.castU_def,
    Machine.getD_checkedSubU, Machine.getD_checkedAddU, Machine.getD_checkedMulU,
    Machine.unwrapOpt_checkedSubU, Machine.unwrapOpt_checkedAddU, Machine.okOr_checkedSubU,
    Machine.okOr_checkedAddU, Machine.isSome_checkedSubU, Machine.isSome_checkedAddU,
    Machine.addU, Machine.subU, Machine.mulU,
    Res.tag_bind, Res.val_bind errCode, Res.tag_ite, Res.val_ite, Machine.tag_chk, Machine.val_chk,
    Res.tag_ok, Res.val_ok, Res.tag_panic, Res.val_panic, Res.tag_err, Res.val_err, Res.pure_eq,
    ec_invalidPacket, errs])

/-! ## step 1: closed bit-vector forms (`bv_decide`) -/

def cmdLenBV (x : BitVec 16) : BitVec 64 := 12#64 + x.setWidth 64
def maxAckBV (x : BitVec 16) : BitVec 64 := 12#64 + (if x.ult 4#16 then 4#16 else x).setWidth 64

theorem header_len_bv (p : Profile) :
    CamVerif.Gen.FnCmd.CommandPacket.header_len (ε := Err) p = .ok 12#64 := by
  apply Res.ext_obs errCode 0#64
  obs [CamVerif.Gen.FnCmd.CommandPacket.header_len]
  bv_decide

theorem cmd_len_bv (p : Profile) (x : BitVec 16) :
    CamVerif.Gen.FnCmd.CommandPacket.cmd_len (ε := Err) p x = .ok (cmdLenBV x) := by
  apply Res.ext_obs errCode 0#64
  obs [CamVerif.Gen.FnCmd.CommandPacket.cmd_len, cmdLenBV]
  bv_decide

theorem maximum_ack_len_bv (p : Profile) (x : BitVec 16) :
    CamVerif.Gen.FnCmd.CommandPacket.maximum_ack_len (ε := Err) p x = .ok (maxAckBV x) := by
  apply Res.ext_obs errCode 0#64
  obs [CamVerif.Gen.FnCmd.CommandPacket.maximum_ack_len, maxAckBV]
  bv_decide

theorem rm_scd_len_bv (p : Profile) (r : GReadMem) :
    CamVerif.Gen.FnCmd.ReadMem.scd_len (ε := Err) p r = .ok 12#16 := by
  apply Res.ext_obs errCode 0#16
  obs [CamVerif.Gen.FnCmd.ReadMem.scd_len]
  bv_decide

theorem rm_ack_scd_len_bv (p : Profile) (r : GReadMem) :
    CamVerif.Gen.FnCmd.ReadMem.ack_scd_len (ε := Err) p r = .ok r.read_length := by
  apply Res.ext_obs errCode 0#16
  obs [CamVerif.Gen.FnCmd.ReadMem.ack_scd_len]
  bv_decide

theorem wm_ack_scd_len_bv (p : Profile) :
    CamVerif.Gen.FnCmd.WriteMem.ack_scd_len (ε := Err) p = .ok 4#16 := by
  apply Res.ext_obs errCode 0#16
  obs [CamVerif.Gen.FnCmd.WriteMem.ack_scd_len]
  bv_decide

/-! ## step 2: the closed forms read through `toNat` (never sees generated code) -/

theorem cmdLenBV_toNat (x : BitVec 16) : (cmdLenBV x).toNat = 4 + CCD_LEN + x.toNat := by
  have hx := x.isLt
  simp only [cmdLenBV, BitVec.toNat_add, BitVec.toNat_ofNat, BitVec.toNat_setWidth, CCD_LEN]
  omega

theorem maxAckBV_toNat (x : BitVec 16) :
    (maxAckBV x).toNat = ACK_HEADER_LENGTH + max x.toNat MINIMUM_ACK_SCD_LENGTH := by
  have hx := x.isLt
  simp only [maxAckBV, BitVec.ult, BitVec.toNat_ofNat, ACK_HEADER_LENGTH, MINIMUM_ACK_SCD_LENGTH]
  by_cases h : x.toNat < 4
  · have h' : x.toNat < 4 % 2 ^ 16 := by omega
    simp only [h', decide_true, if_true, BitVec.toNat_add, BitVec.toNat_ofNat, BitVec.toNat_setWidth]
    omega
  · have h' : ¬ x.toNat < 4 % 2 ^ 16 := by omega
    simp only [h', decide_false, Bool.false_eq_true, if_false, BitVec.toNat_add, BitVec.toNat_ofNat,
      BitVec.toNat_setWidth]
    omega

/-! ## the ties -/

/-- `CommandPacket::header_len` as written in cmd.rs now is the model's `HEADER_LEN`. -/
theorem gen_header_len_agrees (p : Profile) :
    (CamVerif.Gen.FnCmd.CommandPacket.header_len (ε := Err) p).map BitVec.toNat = .ok HEADER_LEN := by
  rw [header_len_bv, Res.map_ok]; rfl

/-- `CommandPacket::cmd_len` as written in cmd.rs now, for every value `x` of `self.scd.scd_len()`:
magic + CCD + SCD. -/
theorem gen_cmd_len_agrees (p : Profile) (x : BitVec 16) :
    (CamVerif.Gen.FnCmd.CommandPacket.cmd_len (ε := Err) p x).map BitVec.toNat
      = .ok (4 + CCD_LEN + x.toNat) := by
  rw [cmd_len_bv, Res.map_ok, cmdLenBV_toNat]

/-- … hence the model's `Cmd.cmdLen` for every command whose SCD length is a `u16`. -/
theorem gen_cmd_len_agrees_cmd (p : Profile) (c : Cmd) (h : c.scdLen < 2 ^ 16) :
    (CamVerif.Gen.FnCmd.CommandPacket.cmd_len (ε := Err) p (BitVec.ofNat 16 c.scdLen)).map BitVec.toNat
      = .ok c.cmdLen := by
  rw [gen_cmd_len_agrees, BitVec.toNat_ofNat, Nat.mod_eq_of_lt h]; rfl

/-- `CommandPacket::maximum_ack_len` as written in cmd.rs now, for every value `x` of
`self.scd.ack_scd_len()`. -/
theorem gen_maximum_ack_len_agrees (p : Profile) (x : BitVec 16) :
    (CamVerif.Gen.FnCmd.CommandPacket.maximum_ack_len (ε := Err) p x).map BitVec.toNat
      = .ok (ACK_HEADER_LENGTH + max x.toNat MINIMUM_ACK_SCD_LENGTH) := by
  rw [maximum_ack_len_bv, Res.map_ok, maxAckBV_toNat]

theorem gen_maximum_ack_len_agrees_cmd (p : Profile) (c : Cmd) (h : c.ackScdLen < 2 ^ 16) :
    (CamVerif.Gen.FnCmd.CommandPacket.maximum_ack_len (ε := Err) p (BitVec.ofNat 16 c.ackScdLen)).map
      BitVec.toNat = .ok c.maximumAckLen := by
  rw [gen_maximum_ack_len_agrees, BitVec.toNat_ofNat, Nat.mod_eq_of_lt h]; rfl

/-- `<ReadMem as CommandScd>::scd_len` / `ack_scd_len` and `<WriteMem as CommandScd>::ack_scd_len`
as written in cmd.rs now are the model's `Cmd.scdLen` / `Cmd.ackScdLen` on those commands. -/
theorem gen_rm_scd_len_agrees (p : Profile) (r : GReadMem) :
    (CamVerif.Gen.FnCmd.ReadMem.scd_len (ε := Err) p r).map BitVec.toNat
      = .ok (Cmd.scdLen (.readMem (absRM r))) := by
  rw [rm_scd_len_bv, Res.map_ok]; rfl

theorem gen_rm_ack_scd_len_agrees (p : Profile) (r : GReadMem) :
    (CamVerif.Gen.FnCmd.ReadMem.ack_scd_len (ε := Err) p r).map BitVec.toNat
      = .ok (Cmd.ackScdLen (.readMem (absRM r))) := by
  rw [rm_ack_scd_len_bv, Res.map_ok]; rfl

theorem gen_wm_ack_scd_len_agrees (p : Profile) (w : Cmd.WriteMem) :
    (CamVerif.Gen.FnCmd.WriteMem.ack_scd_len (ε := Err) p).map BitVec.toNat
      = .ok (Cmd.ackScdLen (.writeMem w)) := by
  rw [wm_ack_scd_len_bv, Res.map_ok]; rfl

/-! ## The whole tie as statements (re-exported by `Props/C09.lean` as obligations) -/

def GenTieHeaderLen : Prop :=
  ∀ p : Profile, (CamVerif.Gen.FnCmd.CommandPacket.header_len (ε := Err) p).map BitVec.toNat = .ok HEADER_LEN

def GenTieCmdLen : Prop :=
  (∀ (p : Profile) (x : BitVec 16),
    (CamVerif.Gen.FnCmd.CommandPacket.cmd_len (ε := Err) p x).map BitVec.toNat = .ok (4 + CCD_LEN + x.toNat)) ∧
  (∀ (p : Profile) (c : Cmd), c.scdLen < 2 ^ 16 →
    (CamVerif.Gen.FnCmd.CommandPacket.cmd_len (ε := Err) p (BitVec.ofNat 16 c.scdLen)).map BitVec.toNat
      = .ok c.cmdLen)

def GenTieMaximumAckLen : Prop :=
  (∀ (p : Profile) (x : BitVec 16),
    (CamVerif.Gen.FnCmd.CommandPacket.maximum_ack_len (ε := Err) p x).map BitVec.toNat
      = .ok (ACK_HEADER_LENGTH + max x.toNat MINIMUM_ACK_SCD_LENGTH)) ∧
  (∀ (p : Profile) (c : Cmd), c.ackScdLen < 2 ^ 16 →
    (CamVerif.Gen.FnCmd.CommandPacket.maximum_ack_len (ε := Err) p (BitVec.ofNat 16 c.ackScdLen)).map
      BitVec.toNat = .ok c.maximumAckLen)

def GenTieScdLen : Prop :=
  (∀ (p : Profile) (r : GReadMem), (CamVerif.Gen.FnCmd.ReadMem.scd_len (ε := Err) p r).map BitVec.toNat
    = .ok (Cmd.scdLen (.readMem (absRM r)))) ∧
  (∀ (p : Profile) (r : GReadMem), (CamVerif.Gen.FnCmd.ReadMem.ack_scd_len (ε := Err) p r).map BitVec.toNat
    = .ok (Cmd.ackScdLen (.readMem (absRM r)))) ∧
  (∀ (p : Profile) (w : Cmd.WriteMem), (CamVerif.Gen.FnCmd.WriteMem.ack_scd_len (ε := Err) p).map BitVec.toNat
    = .ok (Cmd.ackScdLen (.writeMem w)))

theorem gen_tie_header_len : GenTieHeaderLen := gen_header_len_agrees
theorem gen_tie_cmd_len : GenTieCmdLen := ⟨gen_cmd_len_agrees, gen_cmd_len_agrees_cmd⟩
theorem gen_tie_maximum_ack_len : GenTieMaximumAckLen :=
  ⟨gen_maximum_ack_len_agrees, gen_maximum_ack_len_agrees_cmd⟩
theorem gen_tie_scd_len : GenTieScdLen :=
  ⟨gen_rm_scd_len_agrees, gen_rm_ack_scd_len_agrees, gen_wm_ack_scd_len_agrees⟩

/-! ## Non-vacuity -/

example : CamVerif.Gen.FnCmd.CommandPacket.header_len (ε := Err) Profile.dev = .ok 12#64 := by decide
example : CamVerif.Gen.FnCmd.CommandPacket.cmd_len (ε := Err) Profile.dev 11#16 = .ok 23#64 := by decide
example : CamVerif.Gen.FnCmd.CommandPacket.maximum_ack_len (ε := Err) Profile.dev 2#16 = .ok 16#64 := by decide
example : CamVerif.Gen.FnCmd.CommandPacket.maximum_ack_len (ε := Err) Profile.dev 64#16 = .ok 76#64 := by decide
example : (Cmd.readMem ⟨4, 64⟩).maximumAckLen = 76 := by decide
example : CamVerif.Gen.FnCmd.ReadMem.scd_len (ε := Err) Profile.release ⟨4#64, 64#16⟩ = .ok 12#16 := by decide

end CamVerif.Proofs.C09GenTie
