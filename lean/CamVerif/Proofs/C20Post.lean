/-
Helper lemmas for C20, part 5: the `&mut self` calls as total state transitions (`Post`):
the statement-level transitions agree with the result-only functions, and what a failing call
leaves behind.
-/
import CamVerif.Proofs.C20BitField
namespace CamVerif.Memory
open MemoryProtection

/-- what a result-only write says about the image, as a total transition: a failing call leaves
the image alone -/
def postOfWrite (res : R Bytes) (memory : Bytes) : Bytes × R Unit :=
  match res with
  | .ok m' => (m', .ok ())
  | .err e => (memory, .err e)
  | .panic => (memory, .panic)

/-- the register's statement-level `write` agrees with its result-only `write` -/
def Register.Coherent {α} (r : Register α) : Prop :=
  ∀ v memory, r.writeSt v memory = postOfWrite (r.write v memory) memory

theorem defaultWriteSt_eq {α} (address length : Nat) (ser : α → R Bytes) (v : α) (memory : Bytes) :
    defaultWriteSt address length ser v memory =
      postOfWrite (defaultWrite address length ser v memory) memory := by
  unfold defaultWriteSt defaultWrite postOfWrite splice
  cases ser v with
  | err e => rfl
  | panic => rfl
  | ok d =>
    have hA : address ≤ address + length := Nat.le_add_right _ _
    simp only [Nat.add_sub_cancel_left, hA, true_and]
    by_cases h1 : address + length ≤ memory.length
    · by_cases h2 : d.length = length
      · simp [h1, h2]
      · simp [h1, h2]
    · simp [h1]

theorem bfWriteSt_eq {w : Nat} (e : Endian) (sg : Bool) (lsb msb : Nat) (mn mx : Int) (address len : Nat)
    (data : BitVec w) (memory : Bytes) :
    bfWriteSt e sg w lsb msb mn mx address len data memory =
      postOfWrite (bfWrite e sg w lsb msb mn mx address len data memory) memory := by
  unfold bfWriteSt bfWrite postOfWrite
  cases bfMaskedInt sg w lsb msb mn mx data with
  | err x => rfl
  | panic => rfl
  | ok d =>
    simp only
    cases slice memory address (address + len) with
    | err x => rfl
    | panic => rfl
    | ok cur =>
      simp only
      cases readWord e (w / 8) cur with
      | err x => rfl
      | panic => rfl
      | ok orig => rfl

theorem scalarReg_coherent (e : Endian) (size address len : Nat) (ar : AccessRight) :
    (scalarReg e size address len ar).Coherent :=
  fun v memory => defaultWriteSt_eq address len (scalarSerialize e size) v memory

theorem strReg_coherent (address len : Nat) (ar : AccessRight) : (strReg address len ar).Coherent :=
  fun v memory => defaultWriteSt_eq address len (strSerialize len) v memory

theorem bytesReg_coherent (address len : Nat) (ar : AccessRight) : (bytesReg address len ar).Coherent :=
  fun v memory => defaultWriteSt_eq address len (bytesSerialize len) v memory

theorem bfReg_coherent {w : Nat} (e : Endian) (sg : Bool) (lsb msb : Nat) (mn mx : Int) (address len : Nat)
    (ar : AccessRight) : (bfReg e sg w lsb msb mn mx address len ar).Coherent :=
  fun v memory => bfWriteSt_eq e sg lsb msb mn mx address len v memory

/-- a register whose `writeSt` is the structure's default is coherent by construction -/
theorem default_coherent {α} (address length : Nat) (ar : AccessRight) (parse : Bytes → R α)
    (ser : α → R Bytes) (write : α → Bytes → R Bytes) :
    ({ address := address, length := length, accessRight := ar, parse := parse, serialize := ser,
       write := write } : Register α).Coherent :=
  fun _ _ => rfl

/-- result-only view of a total transition -/
def Post.toRes {α} (post : Post α) : R (Mem × List Nat) :=
  match post.res with
  | .ok _ => .ok (post.mem, post.fired)
  | .err e => .err e
  | .panic => .panic

theorem writeRawPost_toRes (p : Profile) (m : Mem) (addr : Nat) (buf : Bytes) :
    (m.writeRawPost p addr buf).toRes = m.writeRaw p addr buf := by
  unfold Mem.writeRawPost Mem.writeRaw Post.toRes
  by_cases h1 : addr + buf.length ≥ 2 ^ 64
  · simp [h1]
  · simp only [if_neg h1]
    by_cases h2 : addr + buf.length > m.raw.length
    · simp [h2]
    · simp only [if_neg h2]
      cases m.protection.verifyAddressWithRange addr (addr + buf.length) with
      | err x => rfl
      | panic => rfl
      | ok u =>
        cases u
        simp only
        cases m.protection.accessRightWithRange p addr (addr + buf.length) with
        | err x => rfl
        | panic => rfl
        | ok ar =>
          simp only
          by_cases h3 : (!ar.isWritable) = true
          · simp [h3]
          · simp only [h3]
            cases splice m.raw addr (addr + buf.length) buf with
            | err x => rfl
            | panic => rfl
            | ok raw' => rfl

/-- a failing `write_raw` (Err or panic) is the identity on the memory and notifies nobody -/
theorem writeRawPost_fail (p : Profile) (m : Mem) (addr : Nat) (buf : Bytes)
    (h : ∀ u, (m.writeRawPost p addr buf).res ≠ .ok u) :
    (m.writeRawPost p addr buf).mem = m ∧ (m.writeRawPost p addr buf).fired = [] := by
  revert h
  unfold Mem.writeRawPost
  by_cases h1 : addr + buf.length ≥ 2 ^ 64
  · simp [h1]
  · simp only [if_neg h1]
    by_cases h2 : addr + buf.length > m.raw.length
    · simp [h2]
    · simp only [if_neg h2]
      cases m.protection.verifyAddressWithRange addr (addr + buf.length) with
      | err x => simp
      | panic => simp
      | ok u =>
        cases u
        simp only
        cases m.protection.accessRightWithRange p addr (addr + buf.length) with
        | err x => simp
        | panic => simp
        | ok ar =>
          simp only
          by_cases h3 : (!ar.isWritable) = true
          · simp [h3]
          · simp only [h3]
            cases splice m.raw addr (addr + buf.length) buf with
            | err x => simp
            | panic => simp
            | ok raw' => intro h; exact absurd rfl (h ())

theorem writePost_toRes {α} (m : Mem) (r : Register α) (hc : r.Coherent) (v : α) :
    (m.writePost r v).toRes = m.write r v := by
  have hw := hc v m.raw
  unfold postOfWrite at hw
  unfold Mem.writePost Mem.write Post.toRes
  cases hr : r.write v m.raw with
  | ok raw' => rw [hr] at hw; simp only [hw]; rfl
  | err e => rw [hr] at hw; simp only [hw]
  | panic => rw [hr] at hw; simp only [hw]

/-- the typed write call, outcome by outcome of `T::write` -/
theorem writePost_cases {α} (m : Mem) (r : Register α) (v : α) :
    ((r.writeSt v m.raw).2 = .ok () → m.writePost r v =
      ⟨{ m with raw := (r.writeSt v m.raw).1 },
        ({ m with raw := (r.writeSt v m.raw).1 } : Mem).notifyAll r.address r.rangeEnd, .ok ()⟩) ∧
    (∀ e, (r.writeSt v m.raw).2 = .err e → m.writePost r v =
      ⟨{ m with raw := (r.writeSt v m.raw).1 }, [], .err e⟩) ∧
    ((r.writeSt v m.raw).2 = .panic → m.writePost r v =
      ⟨{ m with raw := (r.writeSt v m.raw).1 }, [], .panic⟩) := by
  refine ⟨fun h => ?_, fun e h => ?_, fun h => ?_⟩ <;> simp only [Mem.writePost, h]

/-- a failing typed write (Err or panic) of a coherent register is the identity on the memory and
notifies nobody -/
theorem writePost_fail {α} (m : Mem) (r : Register α) (hc : r.Coherent) (v : α)
    (h : ∀ u, (m.writePost r v).res ≠ .ok u) :
    (m.writePost r v).mem = m ∧ (m.writePost r v).fired = [] := by
  obtain ⟨c1, c2, c3⟩ := writePost_cases m r v
  have hw := hc v m.raw
  unfold postOfWrite at hw
  cases hr : r.write v m.raw with
  | ok raw' =>
    rw [hr] at hw
    have h2 : (r.writeSt v m.raw).2 = .ok () := by rw [hw]
    rw [c1 h2] at h
    exact absurd rfl (h ())
  | err e =>
    rw [hr] at hw
    have h2 : (r.writeSt v m.raw).2 = .err e := by rw [hw]
    rw [c2 e h2, hw]
    exact ⟨rfl, rfl⟩
  | panic =>
    rw [hr] at hw
    have h2 : (r.writeSt v m.raw).2 = .panic := by rw [hw]
    rw [c3 h2, hw]
    exact ⟨rfl, rfl⟩

/-- a successful call: what changed and who was notified -/
theorem writeRawPost_ok (p : Profile) (m : Mem) (addr : Nat) (buf : Bytes)
    (h : (m.writeRawPost p addr buf).res = .ok ()) :
    (m.writeRawPost p addr buf).mem.protection = m.protection ∧
    (m.writeRawPost p addr buf).mem.observers = m.observers ∧
    (m.writeRawPost p addr buf).fired = m.notifyAll addr (addr + buf.length) := by
  have h2 := writeRawPost_toRes p m addr buf
  unfold Post.toRes at h2
  rw [h] at h2
  simp only at h2
  unfold Mem.writeRaw at h2
  by_cases h1 : addr + buf.length ≥ 2 ^ 64
  · simp [h1] at h2
  · simp only [if_neg h1] at h2
    by_cases h3 : addr + buf.length > m.raw.length
    · simp [h3] at h2
    · simp only [if_neg h3] at h2
      split at h2
      · cases h2
      · cases h2
      · split at h2
        · cases h2
        · cases h2
        · split at h2
          · cases h2
          · split at h2
            · cases h2
            · cases h2
            · next raw' hs =>
              simp only [Res.ok.injEq, Prod.mk.injEq] at h2
              obtain ⟨hm, hf⟩ := h2
              rw [hm, hf]
              exact ⟨rfl, rfl, rfl⟩

theorem writePost_ok {α} (m : Mem) (r : Register α) (v : α) (h : (m.writePost r v).res = .ok ()) :
    (m.writePost r v).mem.protection = m.protection ∧
    (m.writePost r v).mem.observers = m.observers ∧
    (m.writePost r v).mem.raw = (r.writeSt v m.raw).1 ∧
    (m.writePost r v).fired = m.notifyAll r.address (r.address + r.length) := by
  obtain ⟨c1, c2, c3⟩ := writePost_cases m r v
  cases hr : (r.writeSt v m.raw).2 with
  | ok u => cases u; rw [c1 hr]; exact ⟨rfl, rfl, rfl, rfl⟩
  | err e => rw [c2 e hr] at h; cases h
  | panic => rw [c3 hr] at h; cases h

/-! ### `set_access_right` -/

theorem setRangeKeep_of_ok (ar : AccessRight) (mp mp' : MemoryProtection) (a n : Nat)
    (h : setAccessRightFrom ar mp a n = .ok mp') : MemoryProtection.setRangeKeep ar mp a n = (mp', true) := by
  induction n generalizing mp a with
  | zero => cases h; rfl
  | succ k ih =>
    simp only [setAccessRightFrom] at h
    simp only [MemoryProtection.setRangeKeep]
    split at h
    · next mp1 h1 => simp only [h1]; exact ih mp1 (a + 1) h
    · cases h
    · cases h

theorem setRangeKeep_sizes (ar : AccessRight) (mp : MemoryProtection) (a n : Nat) :
    (MemoryProtection.setRangeKeep ar mp a n).1.memorySize = mp.memorySize ∧
    (MemoryProtection.setRangeKeep ar mp a n).1.inner.length = mp.inner.length := by
  induction n generalizing mp a with
  | zero => exact ⟨rfl, rfl⟩
  | succ k ih =>
    simp only [MemoryProtection.setRangeKeep]
    split
    · next mp1 h1 =>
      have := setAccessRight_sizes mp mp1 a ar h1
      have := ih mp1 (a + 1)
      omega
    · exact ⟨rfl, rfl⟩

/-! ### `new()` with overlapping fixed-data initialisers: later initialiser wins -/

theorem spliced_inside (m d : Bytes) (s n i : Nat) (he : s + n ≤ m.length) (hd : d.length = n)
    (h1 : s ≤ i) (h2 : i < s + n) : (m.take s ++ d ++ m.drop (s + n))[i]? = d[i - s]? := by
  have hl : (m.take s).length = s := by simp; omega
  rw [List.append_assoc, List.getElem?_append_right (by omega), hl,
    List.getElem?_append_left (by omega)]

/-- an initialiser that stores the fixed data `d` over the register's range (what the default
`write` of a numeric / string / bytes register does with a declared init value) -/
def RegInit.Splices (r : RegInit) (d : Bytes) : Prop :=
  d.length = r.length ∧ ∃ w, r.init = some w ∧ ∀ raw, r.address + r.length ≤ raw.length →
    w raw = .ok (raw.take r.address ++ d ++ raw.drop (r.address + r.length))

/-- declared content of byte `i` after initialisation: the data byte of the LAST initialiser
(initialisation order) whose register covers `i`, else what was there before -/
def specByte : List (RegInit × Option Bytes) → Nat → UInt8 → UInt8
  | [], _, b => b
  | (_, none) :: rest, i, b => specByte rest i b
  | (r, some d) :: rest, i, b =>
    specByte rest i (if r.address ≤ i ∧ i < r.address + r.length then
      (match d[i - r.address]? with | some x => x | none => b) else b)

theorem initRaw_bytes (rs : List (RegInit × Option Bytes)) (raw : Bytes)
    (hall : ∀ x ∈ rs, x.1.address + x.1.length ≤ raw.length ∧
      (match x.2 with | none => x.1.init = none | some d => x.1.Splices d)) :
    ∃ raw', initRaw (rs.map (·.1)) raw = .ok raw' ∧ raw'.length = raw.length ∧
      ∀ i (h : i < raw.length), raw'[i]? = some (specByte rs i raw[i]) := by
  induction rs generalizing raw with
  | nil => exact ⟨raw, rfl, rfl, fun i h => by simp [specByte, List.getElem?_eq_getElem h]⟩
  | cons x rs ih =>
    obtain ⟨r, od⟩ := x
    obtain ⟨hin, hx⟩ := hall (r, od) (by simp)
    cases od with
    | none =>
      simp only at hx
      obtain ⟨raw', h1, h2, h3⟩ := ih raw (fun y hy => hall y (by simp [hy]))
      exact ⟨raw', by simp only [List.map_cons, initRaw, hx]; exact h1, h2, fun i h => by rw [h3 i h]; rfl⟩
    | some d =>
      simp only at hx hin
      obtain ⟨hd, w, hw, hsp⟩ := hx
      have hlen := spliced_length raw d r.address r.length hin hd
      obtain ⟨raw', h1, h2, h3⟩ := ih (raw.take r.address ++ d ++ raw.drop (r.address + r.length))
        (fun y hy => by rw [hlen]; exact hall y (by simp [hy]))
      refine ⟨raw', ?_, by omega, fun i h => ?_⟩
      · simp only [List.map_cons, initRaw, hw, hsp raw hin]; exact h1
      · have hi' : i < (raw.take r.address ++ d ++ raw.drop (r.address + r.length)).length := by omega
        rw [h3 i hi']
        simp only [specByte]
        congr 2
        by_cases hc : r.address ≤ i ∧ i < r.address + r.length
        · have hget := spliced_inside raw d r.address r.length i hin hd hc.1 hc.2
          have hdi : i - r.address < d.length := by omega
          rw [if_pos hc, List.getElem?_eq_getElem hdi]
          have := List.getElem?_eq_getElem hi'
          rw [hget, List.getElem?_eq_getElem hdi] at this
          exact (Option.some.inj this).symm
        · have hget := spliced_outside raw d r.address r.length i hin hd (by omega)
          rw [if_neg hc]
          rw [List.getElem?_eq_getElem hi', List.getElem?_eq_getElem h] at hget
          exact Option.some.inj hget

/-- bytes after `new()` when every initialiser stores fixed data: later initialiser wins -/
theorem new_bytes (frags : List Fragment) (m : Mem) (h : Mem.new frags = .ok m)
    (rs : List (RegInit × Option Bytes)) (hrs : frags.flatMap (·.regs) = rs.map (·.1))
    (n : Nat) (hn : memorySize frags = some n)
    (hall : ∀ x ∈ rs, x.1.address + x.1.length ≤ n ∧
      (match x.2 with | none => x.1.init = none | some d => x.1.Splices d)) :
    m.raw.length = n ∧ ∀ i, i < n → m.raw[i]? = some (specByte rs i 0) := by
  unfold Mem.new at h
  rw [hn] at h
  simp only at h
  split at h
  · next raw mp h1 =>
    cases h
    obtain ⟨h2, _⟩ := initFragments_eq _ _ _ _ _ h1
    obtain ⟨raw', h3, h4, h5⟩ := initRaw_bytes rs (List.replicate n 0)
      (fun x hx => by simp only [List.length_replicate]; exact hall x hx)
    rw [hrs, h3] at h2
    cases h2
    simp only [List.length_replicate] at h4 h5
    exact ⟨h4, fun i hi => by rw [h5 i hi]; simp⟩
  · cases h
  · cases h

/-- the default `write` of a template register with a value that serializes to `len` bytes is
such a fixed-data initialiser -/
theorem default_splices {α} (address len : Nat) (acc : AccessRight) (ser : α → R Bytes) (v : α) (d : Bytes)
    (hs : ser v = .ok d) (hd : d.length = len) :
    (⟨address, len, acc, some (defaultWrite address len ser v)⟩ : RegInit).Splices d := by
  refine ⟨hd, _, rfl, fun raw hin => ?_⟩
  simp only [defaultWrite, hs]
  exact splice_ok raw d (Nat.le_add_right _ _) hin (by omega)

/-! ### Histories -/

theorem writePost_eq_core {α} (m : Mem) (r : Register α) (v : α) :
    m.writePost r v = m.writeCore r.address r.length (r.writeSt v) := rfl

/-- the calls of a history respect the memory: typed writes keep the image length (every
template `write` does), rights are set inside the protection vector -/
def Call.Fits (m : Mem) : Call → Prop
  | .writeRaw _ _ => True
  | .write _ _ st => ∀ raw, (st raw).1.length = raw.length
  | .setAccessRight a l _ => a + l ≤ m.protection.capacity
  | .registerObserver _ _ => True

/-- right of cell `j` after a history: the right of the LAST `set_access_right` whose register
covers `j`, else the initial one -/
def histRight (cs : List Call) (j : Nat) (init : AccessRight) : AccessRight :=
  cs.foldl (fun acc c => match c with
    | .setAccessRight a l ar => if a ≤ j ∧ j < a + l then ar else acc
    | _ => acc) init

/-- observers registered by a history -/
def histObservers (cs : List Call) : List (Nat × Nat) :=
  cs.filterMap fun c => match c with
    | .registerObserver a l => some (a, a + l)
    | _ => none

/-- every call of the history fits the memory it meets (capacity never changes, so this is a
condition on the calls and the INITIAL memory) -/
def Fits (m : Mem) (cs : List Call) : Prop := ∀ c ∈ cs, c.Fits m


end CamVerif.Memory
