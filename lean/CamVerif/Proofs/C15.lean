/-
Helper lemmas and specification vocabulary for C15 (`Props/C15.lean`): the bit-mask alignment identity, the arithmetic of
`computeSizes`, memory frame lemmas, and the symbolic execution of the `enable_streaming`
model on a fault-free conforming device.  Kernel-only proofs (no `bv_decide`).
-/
import CamVerif.Model.Streaming
namespace CamVerif.Streaming
open CamVerif

/-! ## Arithmetic -/

theorem and_notW (w e x : Nat) (he : e ≤ w) (hx : x < 2 ^ w) :
    x &&& notW w (2 ^ e - 1) = x - x % 2 ^ e := by
  have hpos : 0 < 2 ^ e := Nat.two_pow_pos e
  have hle : 2 ^ e ≤ 2 ^ w := Nat.pow_le_pow_right (by decide) he
  have h1 : notW w (2 ^ e - 1) = 2 ^ w - ((2 ^ e - 1) + 1) := by
    simp only [notW]; omega
  have h2 : x - x % 2 ^ e = 2 ^ e * (x / 2 ^ e) := by
    have := Nat.div_add_mod x (2 ^ e); omega
  rw [h1, h2]
  apply Nat.eq_of_testBit_eq
  intro i
  rw [Nat.testBit_and, Nat.testBit_two_pow_sub_succ (by omega), Nat.testBit_two_pow_sub_one,
    Nat.testBit_two_pow_mul, Nat.testBit_div_two_pow]
  by_cases h : i < e
  · simp [h]; omega
  · have hge : e ≤ i := by omega
    simp [h, hge]
    intro hb
    have : e + (i - e) = i := by omega
    rw [this] at *
    by_cases hw : i < w
    · simp [hw]
    · exfalso
      have := Nat.testBit_lt_two_pow (x := x) (i := i) (Nat.lt_of_lt_of_le hx (Nat.pow_le_pow_right (by decide) (by omega)))
      simp [this] at hb

def roundUp (a x : Nat) : Nat := (x + (a - 1)) - (x + (a - 1)) % a

theorem roundUp_ge (a x : Nat) (ha : 0 < a) : x ≤ roundUp a x := by
  have := Nat.mod_lt (x + (a - 1)) ha
  simp only [roundUp]; omega

theorem roundUp_lt (a x : Nat) (ha : 0 < a) : roundUp a x < x + a := by
  simp only [roundUp]; omega

theorem roundUp_eq_mul (a x : Nat) : roundUp a x = a * ((x + (a - 1)) / a) := by
  have := Nat.div_add_mod (x + (a - 1)) a
  simp only [roundUp]; omega

theorem roundUp_dvd (a x : Nat) : a ∣ roundUp a x := by
  rw [roundUp_eq_mul]; exact Nat.dvd_mul_right _ _

/-- rounding up something below a multiple of `a` stays within that multiple -/
theorem roundUp_le_of_lt_dvd (a x t : Nat) (ha : 0 < a) (hx : x < t) (ht : a ∣ t) : roundUp a x ≤ t := by
  obtain ⟨k, rfl⟩ := ht
  rw [roundUp_eq_mul]
  apply Nat.mul_le_mul_left
  have : (x + (a - 1)) / a < k + 1 := by
    rw [Nat.div_lt_iff_lt_mul ha]
    rw [Nat.add_mul, Nat.mul_comm k a]; omega
  omega

theorem alignU32_ok (e x : Nat) (he : e ≤ 32) (hx : x + (2 ^ e - 1) < 2 ^ 32) :
    alignU32 (2 ^ e - 1) x = .ok (roundUp (2 ^ e) x) := by
  simp only [alignU32]
  rw [if_pos hx, and_notW 32 e _ he hx]
  rfl

theorem alignU32_err (mask x : Nat) (hx : ¬ x + mask < 2 ^ 32) :
    alignU32 mask x = .err .invalidDevice := by
  simp only [alignU32]; rw [if_neg hx]

/-- the u64 alignment of the remainder -/
theorem and_notW64 (e x : Nat) (he : e ≤ 31) (hx : x < 2 ^ 32) :
    (x + (2 ^ e - 1)) &&& notW 64 (2 ^ e - 1) = roundUp (2 ^ e) x := by
  have hle : 2 ^ e ≤ 2 ^ 31 := Nat.pow_le_pow_right (by decide) he
  rw [and_notW 64 e _ (by omega) (by omega)]
  rfl

/-- the sizes `enable_streaming` is expected to program -/
def expectedSizes (e L P T : Nat) : Sizes :=
  let a := 2 ^ e
  let ts := roundUp a 65536
  ⟨ts, P / ts, roundUp a (P % ts), 0, if L = 0 then ts else roundUp a L, if T = 0 then ts else roundUp a T⟩

theorem ts_bounds (e : Nat) (he : e ≤ 31) :
    65536 ≤ roundUp (2 ^ e) 65536 ∧ roundUp (2 ^ e) 65536 < 2 ^ 32 := by
  have hpos : 0 < 2 ^ e := Nat.two_pow_pos e
  have hle : 2 ^ e ≤ 2 ^ 31 := Nat.pow_le_pow_right (by decide) he
  have h1 := roundUp_ge (2 ^ e) 65536 hpos
  have h2 := roundUp_lt (2 ^ e) 65536 hpos
  omega

theorem computeSizes_ok (p : Profile) (e L P T : Nat) (he : e ≤ 31)
    (hL : L + (2 ^ e - 1) < 2 ^ 32) (hT : T + (2 ^ e - 1) < 2 ^ 32)
    (hP : P < 2 ^ 32 * roundUp (2 ^ e) 65536) :
    computeSizes p (2 ^ e) L P T = .ok (expectedSizes e L P T) := by
  have hpos : 0 < 2 ^ e := Nat.two_pow_pos e
  have hle : 2 ^ e ≤ 2 ^ 31 := Nat.pow_le_pow_right (by decide) he
  obtain ⟨hts1, hts2⟩ := ts_bounds e he
  have hmask : (subW p 32 (2 ^ e) 1 : R Nat) = .ok (2 ^ e - 1) := by
    simp only [subW]; rw [if_pos (by omega)]
  have hts : alignU32 (2 ^ e - 1) PAYLOAD_TRANSFER_SIZE = .ok (roundUp (2 ^ e) 65536) :=
    alignU32_ok e 65536 (by omega) (by omega)
  have hr : P % roundUp (2 ^ e) 65536 < roundUp (2 ^ e) 65536 := Nat.mod_lt _ (by omega)
  have hadd : (addW p 64 (P % roundUp (2 ^ e) 65536) (2 ^ e - 1) : R Nat) =
      .ok (P % roundUp (2 ^ e) 65536 + (2 ^ e - 1)) := by
    simp only [addW]; rw [if_pos (by omega)]
  have hf1le := roundUp_le_of_lt_dvd (2 ^ e) _ _ hpos hr (roundUp_dvd (2 ^ e) 65536)
  have hcnt : P / roundUp (2 ^ e) 65536 < 2 ^ 32 := by
    rw [Nat.div_lt_iff_lt_mul (by omega)]; exact hP
  have hl : alignU32 (2 ^ e - 1) L = .ok (roundUp (2 ^ e) L) := alignU32_ok e L (by omega) hL
  have ht : alignU32 (2 ^ e - 1) T = .ok (roundUp (2 ^ e) T) := alignU32_ok e T (by omega) hT
  simp only [computeSizes, hmask, hts, Res.bind_ok, expectedSizes]
  rw [if_neg (by omega), if_neg (by omega)]
  have hf : (P % roundUp (2 ^ e) 65536 + (2 ^ e - 1)) &&& notW 64 (2 ^ e - 1) =
      roundUp (2 ^ e) (P % roundUp (2 ^ e) 65536) := and_notW64 e _ he (by omega)
  have hfm : roundUp (2 ^ e) (P % roundUp (2 ^ e) 65536) % 2 ^ 32 =
      roundUp (2 ^ e) (P % roundUp (2 ^ e) 65536) := Nat.mod_eq_of_lt (Nat.lt_of_le_of_lt hf1le hts2)
  simp only [hadd, Res.bind_ok, hf, hfm]
  by_cases h0 : L = 0 <;> by_cases h1 : T = 0 <;> simp [h0, h1, hl, ht]

/-- hypotheses of the arithmetic theorems: alignment `2^e` with `e ≤ 31`, aligned leader/trailer
fit `u32`, payload below `2^32` transfers -/
structure ArithScope (e L P T : Nat) : Prop where
  expLe : e ≤ 31
  leaderFits : L + (2 ^ e - 1) < 2 ^ 32
  trailerFits : T + (2 ^ e - 1) < 2 ^ 32
  payloadFits : P < 2 ^ 32 * roundUp (2 ^ e) 65536

theorem expectedSizes_cover (e L P T : Nat) :
    L ≤ (expectedSizes e L P T).maxLeader ∧ T ≤ (expectedSizes e L P T).maxTrailer ∧
    P ≤ (expectedSizes e L P T).transferSize * (expectedSizes e L P T).transferCount +
        (expectedSizes e L P T).final1 + (expectedSizes e L P T).final2 := by
  have hpos : 0 < 2 ^ e := Nat.two_pow_pos e
  simp only [expectedSizes]
  refine ⟨?_, ?_, ?_⟩
  · split
    · omega
    · exact roundUp_ge _ _ hpos
  · split
    · omega
    · exact roundUp_ge _ _ hpos
  · have h1 := Nat.div_add_mod P (roundUp (2 ^ e) 65536)
    have h2 := roundUp_ge (2 ^ e) (P % roundUp (2 ^ e) 65536) hpos
    omega

theorem expectedSizes_aligned (e L P T : Nat) :
    2 ^ e ∣ (expectedSizes e L P T).transferSize ∧ 2 ^ e ∣ (expectedSizes e L P T).final1 ∧
    2 ^ e ∣ (expectedSizes e L P T).final2 ∧ 2 ^ e ∣ (expectedSizes e L P T).maxLeader ∧
    2 ^ e ∣ (expectedSizes e L P T).maxTrailer := by
  simp only [expectedSizes]
  refine ⟨roundUp_dvd _ _, roundUp_dvd _ _, Nat.dvd_zero _, ?_, ?_⟩ <;> split <;> exact roundUp_dvd _ _

theorem expectedSizes_fit32 (e L P T : Nat) (h : ArithScope e L P T) :
    (expectedSizes e L P T).transferSize < 2 ^ 32 ∧ (expectedSizes e L P T).transferCount < 2 ^ 32 ∧
    (expectedSizes e L P T).final1 < 2 ^ 32 ∧ (expectedSizes e L P T).final2 < 2 ^ 32 ∧
    (expectedSizes e L P T).maxLeader < 2 ^ 32 ∧ (expectedSizes e L P T).maxTrailer < 2 ^ 32 := by
  have hpos : 0 < 2 ^ e := Nat.two_pow_pos e
  obtain ⟨hts1, hts2⟩ := ts_bounds e h.expLe
  have hr : P % roundUp (2 ^ e) 65536 < roundUp (2 ^ e) 65536 := Nat.mod_lt _ (by omega)
  have hf1le := roundUp_le_of_lt_dvd (2 ^ e) _ _ hpos hr (roundUp_dvd (2 ^ e) 65536)
  have hcnt : P / roundUp (2 ^ e) 65536 < 2 ^ 32 := by
    rw [Nat.div_lt_iff_lt_mul (by omega)]; exact h.payloadFits
  have hl := roundUp_lt (2 ^ e) L hpos
  have ht := roundUp_lt (2 ^ e) T hpos
  have := h.leaderFits
  have := h.trailerFits
  simp only [expectedSizes]
  refine ⟨hts2, hcnt, by omega, by omega, ?_, ?_⟩ <;> split <;> omega

/-- For every alignment `2^e` (`e ≤ 31`) and all machine values of the required sizes the
arithmetic either is inside the scope (and then yields `expectedSizes`) or returns
`InvalidDevice`; it never panics, in either profile. -/
theorem computeSizes_scope_or_err (p : Profile) (e L P T : Nat) (he : e ≤ 31)
    (hL : L < 2 ^ 32) (hT : T < 2 ^ 32) :
    ArithScope e L P T ∨ computeSizes p (2 ^ e) L P T = .err .invalidDevice := by
  have hpos : 0 < 2 ^ e := Nat.two_pow_pos e
  have hle : 2 ^ e ≤ 2 ^ 31 := Nat.pow_le_pow_right (by decide) he
  obtain ⟨hts1, hts2⟩ := ts_bounds e he
  have hmask : (subW p 32 (2 ^ e) 1 : R Nat) = .ok (2 ^ e - 1) := by
    simp only [subW]; rw [if_pos (by omega)]
  have hts : alignU32 (2 ^ e - 1) PAYLOAD_TRANSFER_SIZE = .ok (roundUp (2 ^ e) 65536) :=
    alignU32_ok e 65536 (by omega) (by omega)
  have hr : P % roundUp (2 ^ e) 65536 < roundUp (2 ^ e) 65536 := Nat.mod_lt _ (by omega)
  have hadd : (addW p 64 (P % roundUp (2 ^ e) 65536) (2 ^ e - 1) : R Nat) =
      .ok (P % roundUp (2 ^ e) 65536 + (2 ^ e - 1)) := by
    simp only [addW]; rw [if_pos (by omega)]
  by_cases hq : P < 2 ^ 32 * roundUp (2 ^ e) 65536
  · by_cases hl : L + (2 ^ e - 1) < 2 ^ 32
    · by_cases ht : T + (2 ^ e - 1) < 2 ^ 32
      · exact Or.inl ⟨he, hl, ht, hq⟩
      · right
        have hT0 : T ≠ 0 := by intro h; subst h; omega
        have hcnt : P / roundUp (2 ^ e) 65536 < 2 ^ 32 := by
          rw [Nat.div_lt_iff_lt_mul (by omega)]; exact hq
        simp only [computeSizes, hmask, hts, Res.bind_ok]
        rw [if_neg (by omega), if_neg (by omega)]
        simp only [hadd, Res.bind_ok, if_neg hT0, alignU32_err _ _ ht]
        by_cases h0 : L = 0
        · simp [h0]
        · simp [h0, alignU32_ok e L (by omega) hl]
    · right
      have hL0 : L ≠ 0 := by intro h; subst h; omega
      have hcnt : P / roundUp (2 ^ e) 65536 < 2 ^ 32 := by
        rw [Nat.div_lt_iff_lt_mul (by omega)]; exact hq
      simp only [computeSizes, hmask, hts, Res.bind_ok]
      rw [if_neg (by omega), if_neg (by omega)]
      simp only [hadd, Res.bind_ok, if_neg hL0, alignU32_err _ _ hl, Res.bind_err]
  · right
    have hcnt : ¬ P / roundUp (2 ^ e) 65536 < 2 ^ 32 := by
      rw [Nat.div_lt_iff_lt_mul (by omega)]; exact hq
    simp only [computeSizes, hmask, hts, Res.bind_ok]
    rw [if_neg (by omega), if_pos hcnt]



/-! ## Memory frame lemmas and fault-free execution -/

@[simp] theorem Mem.write_mapped (m : Mem) (a : Nat) (d : Bytes) : (m.write a d).mapped = m.mapped := rfl
@[simp] theorem Mem.write_rangeMapped (m : Mem) (a : Nat) (d : Bytes) (b n : Nat) :
    (m.write a d).rangeMapped b n = m.rangeMapped b n := rfl

theorem Mem.byte_write_of_not_mem (m : Mem) (a : Nat) (d : Bytes) (x : Nat)
    (h : x < a ∨ a + d.length ≤ x) : (m.write a d).byte x = m.byte x := by
  simp only [Mem.write]
  split
  · rename_i hle
    have : d[x - a]? = none := by
      rw [List.getElem?_eq_none_iff]; omega
    rw [this]
  · rfl

theorem Mem.byte_write_of_mem (m : Mem) (a : Nat) (d : Bytes) (i : Nat) (h : i < d.length) :
    (m.write a d).byte (a + i) = d[i] := by
  simp [Mem.write, h]

theorem Mem.read_write_same (m : Mem) (a : Nat) (d : Bytes) : (m.write a d).read a d.length = d := by
  apply List.ext_getElem
  · simp [Mem.read]
  · intro i h1 h2
    simp only [Mem.read, List.getElem_map, List.getElem_range]
    exact Mem.byte_write_of_mem m a d i h2

theorem Mem.read_write_disjoint (m : Mem) (a : Nat) (d : Bytes) (b n : Nat)
    (h : b + n ≤ a ∨ a + d.length ≤ b) : (m.write a d).read b n = m.read b n := by
  simp only [Mem.read]
  apply List.map_congr_left
  intro i hi
  rw [List.mem_range] at hi
  exact Mem.byte_write_of_not_mem m a d (b + i) (by omega)

theorem Mem.rangeMapped_sub (m : Mem) (a n b k : Nat) (h : m.rangeMapped a n = true)
    (h1 : a ≤ b) (h2 : b + k ≤ a + n) : m.rangeMapped b k = true := by
  simp only [Mem.rangeMapped, List.all_eq_true, List.mem_range] at *
  intro i hi
  have := h (b - a + i) (by omega)
  have e : a + (b - a + i) = b + i := by omega
  rwa [e] at this

/-- fault-free state in constructor form -/
abbrev mkSt (m : Mem) (log : List Access) (sb : Option (Nat × Nat)) (si : Option Nat) : St :=
  ⟨⟨m, log, []⟩, sb, si⟩

theorem M.bind_eq {α β : Type} (x : M α) (f : α → M β) (st : St) :
    (x >>= f) st = match x st with
      | (.ok a, s') => f a s'
      | (.err e, s') => (.err e, s')
      | (.panic, s') => (.panic, s') := rfl

theorem M.bind_ok {α β : Type} (x : M α) (f : α → M β) (st st' : St) (a : α)
    (h : x st = (.ok a, st')) : (x >>= f) st = f a st' := by
  rw [M.bind_eq, h]

theorem readReg_ok (base off len : Nat) (m : Mem) (log sb si)
    (hlen : 0 < len) (ha : base + off + len ≤ 2 ^ 64) (hm : m.rangeMapped (base + off) len = true) :
    readReg base off len (mkSt m log sb si) =
      (.ok (fromLE (m.read (base + off) len)), mkSt m (log ++ [.r (base + off) len true]) sb si) := by
  have h1 : regAddr base off = .ok (base + off) := by
    simp only [regAddr]; rw [if_pos (by omega)]
  have h2 : verifyRange (base + off) len = .ok () := by
    simp only [verifyRange]; rw [if_pos (by omega)]
  simp [readReg, M.bind_eq, M.lift, h1, h2, devRead, Dev.read, popFault, hm, pure, M.pure]

theorem writeReg32_ok (base off v : Nat) (m : Mem) (log sb si)
    (ha : base + off + 4 ≤ 2 ^ 64) (hm : m.rangeMapped (base + off) 4 = true) :
    writeReg32 base off v (mkSt m log sb si) =
      (.ok (), mkSt (m.write (base + off) (toLE 4 v))
        (log ++ [.w (base + off) (toLE 4 v) true true]) sb si) := by
  have h1 : regAddr base off = .ok (base + off) := by
    simp only [regAddr]; rw [if_pos (by omega)]
  have h2 : verifyRange (base + off) 4 = .ok () := by
    simp only [verifyRange]; rw [if_pos (by omega)]
  simp [writeReg32, M.bind_eq, M.lift, h1, h2, devWrite, Dev.write, popFault, hm]


/-- the SIRM at `s` is addressable and fully mapped -/
structure SirmOk (m : Mem) (s : Nat) : Prop where
  inSpace : s + SIRM_LEN ≤ 2 ^ 64
  mapped : m.rangeMapped s SIRM_LEN = true

def regVal (m : Mem) (s off len : Nat) : Nat := fromLE (m.read (s + off) len)

/-- stream-enable bit of the device image -/
def enabledIn (m : Mem) (s : Nat) : Prop := regVal m s SI_CONTROL 4 % 2 = 1

instance (m : Mem) (s : Nat) : Decidable (enabledIn m s) := by unfold enabledIn; infer_instance

def disableW (s : Nat) : Access := .w (s + SI_CONTROL) (toLE 4 0) true true

def readsLog (m : Mem) (s : Nat) : List Access :=
  [.r (s + SI_CONTROL) 4 true] ++ (if enabledIn m s then [disableW s] else []) ++
  [.r (s + SI_INFO) 4 true, .r (s + REQUIRED_LEADER_SIZE) 4 true,
   .r (s + REQUIRED_PAYLOAD_SIZE) 8 true, .r (s + REQUIRED_TRAILER_SIZE) 4 true]

def afterDisable (m : Mem) (s : Nat) : Mem :=
  if enabledIn m s then m.write (s + SI_CONTROL) (toLE 4 0) else m

theorem SirmOk.sub {m : Mem} {s : Nat} (h : SirmOk m s) (off len : Nat) (hl : off + len ≤ SIRM_LEN) :
    m.rangeMapped (s + off) len = true :=
  Mem.rangeMapped_sub m s SIRM_LEN (s + off) len h.mapped (by omega) (by omega)

theorem M.lift_bind_ok {α β : Type} (r : R α) (a : α) (f : α → M β) (st : St) (h : r = .ok a) :
    (M.lift r >>= f) st = f a st := by
  subst h; rfl

theorem readInputs_ok (m : Mem) (s e : Nat) (log sb si) (h : SirmOk m s)
    (he : regVal m s SI_INFO 4 / 2 ^ 24 = e) (he32 : e ≤ 31) :
    readInputs s (mkSt m log sb si) =
      (.ok ⟨2 ^ e, regVal m s REQUIRED_LEADER_SIZE 4, regVal m s REQUIRED_PAYLOAD_SIZE 8,
            regVal m s REQUIRED_TRAILER_SIZE 4⟩,
       mkSt (afterDisable m s) (log ++ readsLog m s) sb si) := by
  have hs := h.inSpace
  simp only [SIRM_LEN] at hs
  have m4 := h.sub SI_CONTROL 4 (by decide)
  have m0 := h.sub SI_INFO 4 (by decide)
  have mL := h.sub REQUIRED_LEADER_SIZE 4 (by decide)
  have mP := h.sub REQUIRED_PAYLOAD_SIZE 8 (by decide)
  have mT := h.sub REQUIRED_TRAILER_SIZE 4 (by decide)
  have hal : ∀ v, v / 2 ^ 24 = e → payloadSizeAlignment v = .ok (2 ^ e) := by
    intro v hv; simp only [payloadSizeAlignment, hv]; rw [if_pos (by omega)]
  have hu32 : alignmentU32 (2 ^ e) = .ok (2 ^ e) := by
    have : 2 ^ e ≤ 2 ^ 31 := Nat.pow_le_pow_right (by decide) he32
    simp only [alignmentU32]; rw [if_pos (by omega)]
  by_cases hen : enabledIn m s
  · have hen' : regVal m s SI_CONTROL 4 % 2 = 1 := hen
    simp only [regVal] at hen' he
    have d0 : (m.write (s + SI_CONTROL) (toLE 4 0)).read (s + SI_INFO) 4 = m.read (s + SI_INFO) 4 :=
      Mem.read_write_disjoint _ _ _ _ _ (by simp [SI_CONTROL, SI_INFO])
    have dL : (m.write (s + SI_CONTROL) (toLE 4 0)).read (s + REQUIRED_LEADER_SIZE) 4 = m.read (s + REQUIRED_LEADER_SIZE) 4 :=
      Mem.read_write_disjoint _ _ _ _ _ (by simp [SI_CONTROL, REQUIRED_LEADER_SIZE])
    have dP : (m.write (s + SI_CONTROL) (toLE 4 0)).read (s + REQUIRED_PAYLOAD_SIZE) 8 = m.read (s + REQUIRED_PAYLOAD_SIZE) 8 :=
      Mem.read_write_disjoint _ _ _ _ _ (by simp [SI_CONTROL, REQUIRED_PAYLOAD_SIZE])
    have dT : (m.write (s + SI_CONTROL) (toLE 4 0)).read (s + REQUIRED_TRAILER_SIZE) 4 = m.read (s + REQUIRED_TRAILER_SIZE) 4 :=
      Mem.read_write_disjoint _ _ _ _ _ (by simp [SI_CONTROL, REQUIRED_TRAILER_SIZE])
    unfold readInputs
    rw [M.bind_ok _ _ _ _ _ (readReg_ok s SI_CONTROL 4 m log sb si (by decide) (by simp only [SI_CONTROL]; omega) m4)]
    simp only [hen', if_true]
    rw [M.bind_ok _ _ _ _ _ (writeReg32_ok s SI_CONTROL 0 m _ sb si (by simp only [SI_CONTROL]; omega) m4)]
    rw [M.bind_ok _ _ _ _ _ (readReg_ok s SI_INFO 4 _ _ sb si (by decide) (by simp only [SI_INFO]; omega) (by simpa using m0))]
    rw [M.lift_bind_ok _ _ _ _ (hal _ (by rw [d0]; exact he))]
    rw [M.lift_bind_ok _ _ _ _ hu32]
    rw [M.bind_ok _ _ _ _ _ (readReg_ok s REQUIRED_LEADER_SIZE 4 _ _ sb si (by decide) (by simp only [REQUIRED_LEADER_SIZE]; omega) (by simpa using mL))]
    rw [M.bind_ok _ _ _ _ _ (readReg_ok s REQUIRED_PAYLOAD_SIZE 8 _ _ sb si (by decide) (by simp only [REQUIRED_PAYLOAD_SIZE]; omega) (by simpa using mP))]
    rw [M.bind_ok _ _ _ _ _ (readReg_ok s REQUIRED_TRAILER_SIZE 4 _ _ sb si (by decide) (by simp only [REQUIRED_TRAILER_SIZE]; omega) (by simpa using mT))]
    simp only [dL, dP, dT, pure, M.pure, regVal, afterDisable, readsLog, if_pos hen, disableW,
      List.append_assoc, List.cons_append, List.nil_append]
  · have hen' : ¬ regVal m s SI_CONTROL 4 % 2 = 1 := hen
    simp only [regVal] at hen' he
    unfold readInputs
    rw [M.bind_ok _ _ _ _ _ (readReg_ok s SI_CONTROL 4 m log sb si (by decide) (by simp only [SI_CONTROL]; omega) m4)]
    simp only [hen', if_false]
    rw [M.bind_ok _ _ _ _ _ (readReg_ok s SI_INFO 4 _ _ sb si (by decide) (by simp only [SI_INFO]; omega) m0)]
    rw [M.lift_bind_ok _ _ _ _ (hal _ he)]
    rw [M.lift_bind_ok _ _ _ _ hu32]
    rw [M.bind_ok _ _ _ _ _ (readReg_ok s REQUIRED_LEADER_SIZE 4 _ _ sb si (by decide) (by simp only [REQUIRED_LEADER_SIZE]; omega) mL)]
    rw [M.bind_ok _ _ _ _ _ (readReg_ok s REQUIRED_PAYLOAD_SIZE 8 _ _ sb si (by decide) (by simp only [REQUIRED_PAYLOAD_SIZE]; omega) mP)]
    rw [M.bind_ok _ _ _ _ _ (readReg_ok s REQUIRED_TRAILER_SIZE 4 _ _ sb si (by decide) (by simp only [REQUIRED_TRAILER_SIZE]; omega) mT)]
    simp only [pure, M.pure, regVal, afterDisable, readsLog, if_neg hen,
      List.append_assoc, List.cons_append, List.nil_append, List.append_nil]

/-! ## The register writes -/

def writesLog (s : Nat) (ws : List (Nat × Nat)) : List Access :=
  ws.map fun w => .w (s + w.1) (toLE 4 w.2) true true

def applyWrites (s : Nat) : List (Nat × Nat) → Mem → Mem
  | [], m => m
  | w :: ws, m => applyWrites s ws (m.write (s + w.1) (toLE 4 w.2))

theorem SirmOk.write {m : Mem} {s : Nat} (h : SirmOk m s) (a : Nat) (d : Bytes) : SirmOk (m.write a d) s :=
  ⟨h.inSpace, by simpa using h.mapped⟩

theorem writeAll_ok (s : Nat) (ws : List (Nat × Nat)) (m : Mem) (log sb si) (h : SirmOk m s)
    (hoff : ∀ w ∈ ws, w.1 + 4 ≤ SIRM_LEN) :
    writeAll s ws (mkSt m log sb si) =
      (.ok (), mkSt (applyWrites s ws m) (log ++ writesLog s ws) sb si) := by
  induction ws generalizing m log with
  | nil => simp [writeAll, applyWrites, writesLog, pure, M.pure]
  | cons w ws ih =>
    obtain ⟨off, v⟩ := w
    have ho : off + 4 ≤ SIRM_LEN := hoff (off, v) (by simp)
    have hs := h.inSpace
    unfold writeAll
    rw [M.bind_ok _ _ _ _ _ (writeReg32_ok s off v m log sb si (by omega) (h.sub off 4 ho))]
    rw [ih _ _ (h.write _ _) (fun w hw => hoff w (by simp [hw]))]
    simp [applyWrites, writesLog]

theorem afterDisable_ok {m : Mem} {s : Nat} (h : SirmOk m s) : SirmOk (afterDisable m s) s := by
  unfold afterDisable; split
  · exact h.write _ _
  · exact h

/-- the complete access script of a successful `enable_streaming` at SIRM `s` -/
def enableScript (m : Mem) (s : Nat) (sz : Sizes) : List Access :=
  readsLog m s ++ writesLog s (sizeWrites sz ++ [(SI_CONTROL, 1)])

def enableImage (m : Mem) (s : Nat) (sz : Sizes) : Mem :=
  applyWrites s (sizeWrites sz ++ [(SI_CONTROL, 1)]) (afterDisable m s)

/-- inputs of the theorem scope, read off the device image -/
structure InScope (m : Mem) (s e : Nat) : Prop where
  exp : regVal m s SI_INFO 4 / 2 ^ 24 = e
  expLe : e ≤ 31
  leaderFits : regVal m s REQUIRED_LEADER_SIZE 4 + (2 ^ e - 1) < 2 ^ 32
  trailerFits : regVal m s REQUIRED_TRAILER_SIZE 4 + (2 ^ e - 1) < 2 ^ 32
  payloadFits : regVal m s REQUIRED_PAYLOAD_SIZE 8 < 2 ^ 32 * roundUp (2 ^ e) 65536

theorem InScope.arith {m : Mem} {s e : Nat} (h : InScope m s e) :
    ArithScope e (regVal m s REQUIRED_LEADER_SIZE 4) (regVal m s REQUIRED_PAYLOAD_SIZE 8)
      (regVal m s REQUIRED_TRAILER_SIZE 4) :=
  ⟨h.expLe, h.leaderFits, h.trailerFits, h.payloadFits⟩

def programmedSizes (m : Mem) (s e : Nat) : Sizes :=
  expectedSizes e (regVal m s REQUIRED_LEADER_SIZE 4) (regVal m s REQUIRED_PAYLOAD_SIZE 8)
    (regVal m s REQUIRED_TRAILER_SIZE 4)

theorem applyWrites_append (s : Nat) (ws1 ws2 : List (Nat × Nat)) (m : Mem) :
    applyWrites s (ws1 ++ ws2) m = applyWrites s ws2 (applyWrites s ws1 m) := by
  induction ws1 generalizing m with
  | nil => rfl
  | cons w ws ih => simp [applyWrites, ih]

theorem applyWrites_ok {m : Mem} {s : Nat} (h : SirmOk m s) (ws) : SirmOk (applyWrites s ws m) s := by
  induction ws generalizing m with
  | nil => exact h
  | cons w ws ih => exact ih (h.write _ _)

theorem prepareAt_ok (p : Profile) (m : Mem) (s e : Nat) (log sb si) (h : SirmOk m s)
    (hin : InScope m s e) :
    prepareAt p s (mkSt m log sb si) =
      (.ok (), mkSt (applyWrites s (sizeWrites (programmedSizes m s e)) (afterDisable m s))
        (log ++ readsLog m s ++ writesLog s (sizeWrites (programmedSizes m s e))) sb si) := by
  have hsz := computeSizes_ok p e _ _ _ hin.expLe hin.leaderFits hin.trailerFits hin.payloadFits
  have hoff : ∀ w ∈ sizeWrites (programmedSizes m s e), w.1 + 4 ≤ SIRM_LEN := by
    intro w hw
    simp only [sizeWrites, List.mem_cons, List.not_mem_nil, or_false] at hw
    rcases hw with rfl | rfl | rfl | rfl | rfl | rfl <;>
      simp [SIRM_LEN, PAYLOAD_TRANSFER_SIZE_REG, PAYLOAD_TRANSFER_COUNT, PAYLOAD_FINAL_TRANSFER1_SIZE,
        PAYLOAD_FINAL_TRANSFER2_SIZE, MAXIMUM_LEADER_SIZE, MAXIMUM_TRAILER_SIZE]
  unfold prepareAt
  rw [M.bind_ok _ _ _ _ _ (readInputs_ok m s e log sb si h hin.exp hin.expLe)]
  rw [M.lift_bind_ok _ _ _ _ hsz]
  exact writeAll_ok s _ _ _ sb si (afterDisable_ok h) hoff

theorem enableAt_ok (p : Profile) (m : Mem) (s e : Nat) (log sb si) (h : SirmOk m s)
    (hin : InScope m s e) :
    enableAt p s (mkSt m log sb si) =
      (.ok (), mkSt (enableImage m s (programmedSizes m s e))
        (log ++ enableScript m s (programmedSizes m s e)) sb si) := by
  unfold enableAt
  rw [M.bind_ok _ _ _ _ _ (prepareAt_ok p m s e log sb si h hin)]
  rw [writeReg32_ok s SI_CONTROL 1 _ _ sb si
    (by have := h.inSpace; simp only [SIRM_LEN, SI_CONTROL] at *; omega)
    ((applyWrites_ok (afterDisable_ok h) _).sub SI_CONTROL 4 (by decide))]
  simp [enableImage, enableScript, applyWrites_append, applyWrites, writesLog]


theorem read_write32_ne (m : Mem) (a v b n : Nat) (h : b + n ≤ a ∨ a + 4 ≤ b) :
    (m.write a (toLE 4 v)).read b n = m.read b n :=
  Mem.read_write_disjoint m a _ b n (by simpa using h)

theorem read_write32_eq (m : Mem) (a v : Nat) : (m.write a (toLE 4 v)).read a 4 = toLE 4 v := by
  simpa using Mem.read_write_same m a (toLE 4 v)

/-- all programmed values are genuine u32 values -/
def Sizes.Fit32 (sz : Sizes) : Prop :=
  sz.transferSize < 2 ^ 32 ∧ sz.transferCount < 2 ^ 32 ∧ sz.final1 < 2 ^ 32 ∧ sz.final2 < 2 ^ 32 ∧
  sz.maxLeader < 2 ^ 32 ∧ sz.maxTrailer < 2 ^ 32

theorem fromLE_toLE4 (v : Nat) (h : v < 2 ^ 32) : fromLE (toLE 4 v) = v :=
  fromLE_toLE_of_lt 4 v (by simpa using h)

/-- read-back of every register from the image a successful call leaves behind -/
theorem enableImage_regs (m : Mem) (s : Nat) (sz : Sizes) (hf : sz.Fit32) :
    regVal (enableImage m s sz) s MAXIMUM_LEADER_SIZE 4 = sz.maxLeader ∧
    regVal (enableImage m s sz) s MAXIMUM_TRAILER_SIZE 4 = sz.maxTrailer ∧
    regVal (enableImage m s sz) s PAYLOAD_TRANSFER_SIZE_REG 4 = sz.transferSize ∧
    regVal (enableImage m s sz) s PAYLOAD_TRANSFER_COUNT 4 = sz.transferCount ∧
    regVal (enableImage m s sz) s PAYLOAD_FINAL_TRANSFER1_SIZE 4 = sz.final1 ∧
    regVal (enableImage m s sz) s PAYLOAD_FINAL_TRANSFER2_SIZE 4 = sz.final2 ∧
    regVal (enableImage m s sz) s SI_CONTROL 4 = 1 := by
  obtain ⟨h1, h2, h3, h4, h5, h6⟩ := hf
  simp only [regVal, enableImage, sizeWrites, List.cons_append, List.nil_append, applyWrites,
    MAXIMUM_LEADER_SIZE, MAXIMUM_TRAILER_SIZE, PAYLOAD_TRANSFER_SIZE_REG, PAYLOAD_TRANSFER_COUNT,
    PAYLOAD_FINAL_TRANSFER1_SIZE, PAYLOAD_FINAL_TRANSFER2_SIZE, SI_CONTROL]
  refine ⟨?_, ?_, ?_, ?_, ?_, ?_, ?_⟩ <;>
    simp (disch := omega) only [read_write32_ne, read_write32_eq] <;>
    apply fromLE_toLE4 <;> first | assumption | decide


/-! ### Everything outside the SIRM is untouched -/

theorem applyWrites_read_outside (s : Nat) (ws : List (Nat × Nat)) (m : Mem) (b n : Nat)
    (hoff : ∀ w ∈ ws, w.1 + 4 ≤ SIRM_LEN) (h : b + n ≤ s ∨ s + SIRM_LEN ≤ b) :
    (applyWrites s ws m).read b n = m.read b n := by
  induction ws generalizing m with
  | nil => rfl
  | cons w ws ih =>
    have := hoff w (by simp)
    simp only [applyWrites]
    rw [ih _ (fun w hw => hoff w (by simp [hw])), read_write32_ne _ _ _ _ _ (by omega)]

theorem afterDisable_read_outside (m : Mem) (s b n : Nat) (h : b + n ≤ s ∨ s + SIRM_LEN ≤ b) :
    (afterDisable m s).read b n = m.read b n := by
  unfold afterDisable; split
  · exact read_write32_ne _ _ _ _ _ (by simp only [SI_CONTROL, SIRM_LEN] at *; omega)
  · rfl

theorem enableImage_read_outside (m : Mem) (s : Nat) (sz : Sizes) (b n : Nat)
    (h : b + n ≤ s ∨ s + SIRM_LEN ≤ b) : (enableImage m s sz).read b n = m.read b n := by
  unfold enableImage
  rw [applyWrites_read_outside _ _ _ _ _ _ h, afterDisable_read_outside _ _ _ _ h]
  intro w hw
  simp only [sizeWrites, List.cons_append, List.nil_append, List.mem_cons, List.not_mem_nil, or_false] at hw
  rcases hw with rfl | rfl | rfl | rfl | rfl | rfl | rfl <;>
    simp [SIRM_LEN, PAYLOAD_TRANSFER_SIZE_REG, PAYLOAD_TRANSFER_COUNT, PAYLOAD_FINAL_TRANSFER1_SIZE,
      PAYLOAD_FINAL_TRANSFER2_SIZE, MAXIMUM_LEADER_SIZE, MAXIMUM_TRAILER_SIZE, SI_CONTROL]

theorem enableImage_mapped (m : Mem) (s : Nat) (sz : Sizes) (b n : Nat) :
    (enableImage m s sz).rangeMapped b n = m.rangeMapped b n := by
  have hw : ∀ ws (m' : Mem), (applyWrites s ws m').rangeMapped b n = m'.rangeMapped b n := by
    intro ws
    induction ws with
    | nil => intro m'; rfl
    | cons w ws ih => intro m'; simp [applyWrites, ih]
  unfold enableImage
  rw [hw]
  unfold afterDisable; split <;> simp

/-! ### Bootstrap chain ABRM → SBRM → SIRM of a conforming device -/

/-- The bootstrap registers resolve to SBRM `sb` and SIRM `s`, are mapped, and do not overlap
the SIRM (writes to the SIRM do not re-route the chain). -/
structure Bootstrap (m : Mem) (sb s : Nat) : Prop where
  abrmMapped : m.rangeMapped ABRM_DEVICE_CAPABILITY 0x1C = true
  sbrmAddr : regVal m 0 ABRM_SBRM_ADDRESS 8 = sb
  sbrmSpace : sb + 0x28 ≤ 2 ^ 64
  sbrmMapped : m.rangeMapped sb 0x28 = true
  sirmCap : regVal m sb SBRM_U3VCP_CAPABILITY 8 % 2 = 1
  sirmAddr : regVal m sb SBRM_SIRM_ADDRESS 8 = s
  abrmDisjoint : ABRM_DEVICE_CAPABILITY + 0x1C ≤ s ∨ s + SIRM_LEN ≤ ABRM_DEVICE_CAPABILITY
  sbrmDisjoint : sb + 0x28 ≤ s ∨ s + SIRM_LEN ≤ sb

theorem Bootstrap.enableImage {m : Mem} {sb s : Nat} (h : Bootstrap m sb s) (sz : Sizes) :
    Bootstrap (enableImage m s sz) sb s := by
  have ha := h.abrmDisjoint
  have hb := h.sbrmDisjoint
  simp only [ABRM_DEVICE_CAPABILITY, SIRM_LEN] at ha hb
  refine ⟨by rw [enableImage_mapped]; exact h.abrmMapped, ?_, h.sbrmSpace,
    by rw [enableImage_mapped]; exact h.sbrmMapped, ?_, ?_, h.abrmDisjoint, h.sbrmDisjoint⟩
  · simp only [regVal]
    rw [enableImage_read_outside _ _ _ _ _ (by simp only [ABRM_SBRM_ADDRESS, SIRM_LEN]; omega)]
    exact h.sbrmAddr
  · simp only [regVal]
    rw [enableImage_read_outside _ _ _ _ _ (by simp only [SBRM_U3VCP_CAPABILITY, SIRM_LEN]; omega)]
    exact h.sirmCap
  · simp only [regVal]
    rw [enableImage_read_outside _ _ _ _ _ (by simp only [SBRM_SIRM_ADDRESS, SIRM_LEN]; omega)]
    exact h.sirmAddr

theorem M.get_bind {β : Type} (f : St → M β) (st : St) : (M.get >>= f) st = f st st := rfl

/-- a write inside the SIRM does not re-route the bootstrap chain -/
theorem Bootstrap.write_sirm {m : Mem} {sb s : Nat} (h : Bootstrap m sb s) (off v : Nat)
    (ho : off + 4 ≤ SIRM_LEN) : Bootstrap (m.write (s + off) (toLE 4 v)) sb s := by
  have ha := h.abrmDisjoint
  have hb := h.sbrmDisjoint
  simp only [ABRM_DEVICE_CAPABILITY, SIRM_LEN] at ha hb ho
  refine ⟨by simpa using h.abrmMapped, ?_, h.sbrmSpace, by simpa using h.sbrmMapped, ?_, ?_,
    h.abrmDisjoint, h.sbrmDisjoint⟩
  · simp only [regVal]
    rw [read_write32_ne _ _ _ _ _ (by simp only [ABRM_SBRM_ADDRESS]; omega)]
    exact h.sbrmAddr
  · simp only [regVal]
    rw [read_write32_ne _ _ _ _ _ (by simp only [SBRM_U3VCP_CAPABILITY]; omega)]
    exact h.sirmCap
  · simp only [regVal]
    rw [read_write32_ne _ _ _ _ _ (by simp only [SBRM_SIRM_ADDRESS]; omega)]
    exact h.sirmAddr

/-- `ControlHandle::sirm` with a warm cache: no device access. -/
theorem getSirm_warm (d : Dev) (c : Option (Nat × Nat)) (s : Nat) :
    getSirm ⟨d, c, some s⟩ = (.ok s, ⟨d, c, some s⟩) := by
  unfold getSirm; rw [M.get_bind]; rfl

theorem getSbrm_cold (m : Mem) (sb s : Nat) (log) (h : Bootstrap m sb s) :
    getSbrm (mkSt m log none none) =
      (.ok (sb, regVal m sb SBRM_U3VCP_CAPABILITY 8),
        mkSt m (log ++ [.r (0 + ABRM_SBRM_ADDRESS) 8 true, .r (sb + SBRM_U3VCP_CAPABILITY) 8 true])
          (some (sb, regVal m sb SBRM_U3VCP_CAPABILITY 8)) none) := by
  have h1 : m.rangeMapped (0 + ABRM_SBRM_ADDRESS) 8 = true :=
    Mem.rangeMapped_sub m _ _ _ _ h.abrmMapped (by decide) (by decide)
  have hs := h.sbrmSpace
  have h2 : m.rangeMapped (sb + SBRM_U3VCP_CAPABILITY) 8 = true :=
    Mem.rangeMapped_sub m _ _ _ _ h.sbrmMapped (by omega) (by simp only [SBRM_U3VCP_CAPABILITY]; omega)
  have e1 := h.sbrmAddr
  simp only [regVal] at e1
  unfold getSbrm
  rw [M.get_bind]
  simp only []
  rw [M.bind_ok _ _ _ _ _ (readReg_ok 0 ABRM_SBRM_ADDRESS 8 m log none none (by decide) (by decide) h1)]
  rw [e1]
  rw [M.bind_ok _ _ _ _ _ (readReg_ok sb SBRM_U3VCP_CAPABILITY 8 m _ none none (by decide)
    (by simp only [SBRM_U3VCP_CAPABILITY]; omega) h2)]
  simp [regVal, setSbrmCache, M.bind_eq, pure, M.pure]

/-- `ControlHandle::sirm` with cold caches on a conforming device: three reads. -/
theorem getSirm_cold (m : Mem) (sb s : Nat) (log) (h : Bootstrap m sb s) :
    getSirm (mkSt m log none none) =
      (.ok s, mkSt m (log ++ [.r (0 + ABRM_SBRM_ADDRESS) 8 true, .r (sb + SBRM_U3VCP_CAPABILITY) 8 true,
          .r (sb + SBRM_SIRM_ADDRESS) 8 true])
        (some (sb, regVal m sb SBRM_U3VCP_CAPABILITY 8)) (some s)) := by
  have hs := h.sbrmSpace
  have h3 : m.rangeMapped (sb + SBRM_SIRM_ADDRESS) 8 = true :=
    Mem.rangeMapped_sub m _ _ _ _ h.sbrmMapped (by omega) (by simp only [SBRM_SIRM_ADDRESS]; omega)
  have e2 := h.sirmCap
  have e3 := h.sirmAddr
  simp only [regVal] at e3
  unfold getSirm
  rw [M.get_bind]
  simp only []
  rw [M.bind_ok _ _ _ _ _ (getSbrm_cold m sb s log h)]
  simp only [e2, if_true]
  rw [M.bind_ok _ _ _ _ _ (readReg_ok sb SBRM_SIRM_ADDRESS 8 m _ _ none (by decide)
    (by simp only [SBRM_SIRM_ADDRESS]; omega) h3)]
  simp [e3, setSirmCache, M.bind_eq, pure, M.pure]


/-- `ControlHandle::sirm` with the SBRM cached (e.g. by the public `ControlHandle::sbrm()`) but
the SIRM address not yet: one read of the SIRM address register. -/
theorem getSirm_mixed (m : Mem) (sb cap s : Nat) (log) (hcap : cap % 2 = 1)
    (hsp : sb + 0x28 ≤ 2 ^ 64) (hm : m.rangeMapped sb 0x28 = true)
    (haddr : regVal m sb SBRM_SIRM_ADDRESS 8 = s) :
    getSirm (mkSt m log (some (sb, cap)) none) =
      (.ok s, mkSt m (log ++ [.r (sb + SBRM_SIRM_ADDRESS) 8 true]) (some (sb, cap)) (some s)) := by
  have h3 : m.rangeMapped (sb + SBRM_SIRM_ADDRESS) 8 = true :=
    Mem.rangeMapped_sub m _ _ _ _ hm (by omega) (by simp only [SBRM_SIRM_ADDRESS]; omega)
  simp only [regVal] at haddr
  have hsb : getSbrm (mkSt m log (some (sb, cap)) none) = (.ok (sb, cap), mkSt m log (some (sb, cap)) none) := by
    unfold getSbrm; rw [M.get_bind]; rfl
  unfold getSirm
  rw [M.get_bind]
  simp only []
  rw [M.bind_ok _ _ _ _ _ hsb]
  simp only [hcap, if_true]
  rw [M.bind_ok _ _ _ _ _ (readReg_ok sb SBRM_SIRM_ADDRESS 8 m _ _ none (by decide)
    (by simp only [SBRM_SIRM_ADDRESS]; omega) h3)]
  simp [haddr, setSirmCache, M.bind_eq, pure, M.pure]

/-- `StreamParams::from_control` on a fault-free conforming device returns the register values
of the image (and does not modify it). -/
theorem fromControl_ok (m : Mem) (sb s : Nat) (log c1 c2) (h : Bootstrap m sb s) (hs : SirmOk m s) :
    ∃ log', fromControl (mkSt m log c1 c2) =
      (.ok ⟨regVal m s MAXIMUM_LEADER_SIZE 4, regVal m s MAXIMUM_TRAILER_SIZE 4,
            regVal m s PAYLOAD_TRANSFER_SIZE_REG 4, regVal m s PAYLOAD_TRANSFER_COUNT 4,
            regVal m s PAYLOAD_FINAL_TRANSFER1_SIZE 4, regVal m s PAYLOAD_FINAL_TRANSFER2_SIZE 4,
            regVal m 0 ABRM_MAXIMUM_DEVICE_RESPONSE_TIME 4⟩,
       mkSt m log' c1 c2) := by
  have a1 : m.rangeMapped (0 + ABRM_DEVICE_CAPABILITY) 8 = true :=
    Mem.rangeMapped_sub m _ _ _ _ h.abrmMapped (by decide) (by decide)
  have a2 : m.rangeMapped (0 + ABRM_SBRM_ADDRESS) 8 = true :=
    Mem.rangeMapped_sub m _ _ _ _ h.abrmMapped (by decide) (by decide)
  have a3 : m.rangeMapped (0 + ABRM_MAXIMUM_DEVICE_RESPONSE_TIME) 4 = true :=
    Mem.rangeMapped_sub m _ _ _ _ h.abrmMapped (by decide) (by decide)
  have hsb := h.sbrmSpace
  have b1 : m.rangeMapped (sb + SBRM_U3VCP_CAPABILITY) 8 = true :=
    Mem.rangeMapped_sub m _ _ _ _ h.sbrmMapped (by omega) (by simp only [SBRM_U3VCP_CAPABILITY]; omega)
  have b2 : m.rangeMapped (sb + SBRM_SIRM_ADDRESS) 8 = true :=
    Mem.rangeMapped_sub m _ _ _ _ h.sbrmMapped (by omega) (by simp only [SBRM_SIRM_ADDRESS]; omega)
  have e1 := h.sbrmAddr
  have e2 := h.sirmCap
  have e3 := h.sirmAddr
  simp only [regVal] at e1 e2 e3
  have hsp := hs.inSpace
  simp only [SIRM_LEN] at hsp
  apply Exists.intro
  unfold fromControl
  rw [M.bind_ok _ _ _ _ _ (readReg_ok 0 ABRM_DEVICE_CAPABILITY 8 m log c1 c2 (by decide) (by decide) a1)]
  rw [M.bind_ok _ _ _ _ _ (readReg_ok 0 ABRM_SBRM_ADDRESS 8 m _ c1 c2 (by decide) (by decide) a2)]
  rw [e1]
  rw [M.bind_ok _ _ _ _ _ (readReg_ok sb SBRM_U3VCP_CAPABILITY 8 m _ c1 c2 (by decide)
    (by simp only [SBRM_U3VCP_CAPABILITY]; omega) b1)]
  simp only [e2, if_true]
  rw [M.bind_ok _ _ _ _ _ (readReg_ok sb SBRM_SIRM_ADDRESS 8 m _ c1 c2 (by decide)
    (by simp only [SBRM_SIRM_ADDRESS]; omega) b2)]
  rw [e3]
  rw [M.bind_ok _ _ _ _ _ (readReg_ok s MAXIMUM_LEADER_SIZE 4 m _ c1 c2 (by decide)
    (by simp only [MAXIMUM_LEADER_SIZE]; omega) (hs.sub _ _ (by decide)))]
  rw [M.bind_ok _ _ _ _ _ (readReg_ok s MAXIMUM_TRAILER_SIZE 4 m _ c1 c2 (by decide)
    (by simp only [MAXIMUM_TRAILER_SIZE]; omega) (hs.sub _ _ (by decide)))]
  rw [M.bind_ok _ _ _ _ _ (readReg_ok s PAYLOAD_TRANSFER_SIZE_REG 4 m _ c1 c2 (by decide)
    (by simp only [PAYLOAD_TRANSFER_SIZE_REG]; omega) (hs.sub _ _ (by decide)))]
  rw [M.bind_ok _ _ _ _ _ (readReg_ok s PAYLOAD_TRANSFER_COUNT 4 m _ c1 c2 (by decide)
    (by simp only [PAYLOAD_TRANSFER_COUNT]; omega) (hs.sub _ _ (by decide)))]
  rw [M.bind_ok _ _ _ _ _ (readReg_ok s PAYLOAD_FINAL_TRANSFER1_SIZE 4 m _ c1 c2 (by decide)
    (by simp only [PAYLOAD_FINAL_TRANSFER1_SIZE]; omega) (hs.sub _ _ (by decide)))]
  rw [M.bind_ok _ _ _ _ _ (readReg_ok s PAYLOAD_FINAL_TRANSFER2_SIZE 4 m _ c1 c2 (by decide)
    (by simp only [PAYLOAD_FINAL_TRANSFER2_SIZE]; omega) (hs.sub _ _ (by decide)))]
  rw [M.bind_ok _ _ _ _ _ (readReg_ok 0 ABRM_MAXIMUM_DEVICE_RESPONSE_TIME 4 m _ c1 c2 (by decide)
    (by decide) a3)]
  rfl

/-! ## Arbitrary devices and fault schedules -/

/-- the access modified the device image such that the stream-enable bit (bit 0 of the low byte
of SI_CONTROL) of the SIRM at `s` is set afterwards -/
def Access.enables (s : Nat) : Access → Prop
  | .w addr data _ true => addr ≤ s + SI_CONTROL ∧ ∃ b, data[s + SI_CONTROL - addr]? = some b ∧ b.toNat % 2 = 1
  | _ => False

/-- the access modified the low byte of SI_CONTROL -/
def Access.touches (s : Nat) : Access → Prop
  | .w addr data _ true => addr ≤ s + SI_CONTROL ∧ s + SI_CONTROL < addr + data.length
  | _ => False

/-- the device image after the applied writes of a log segment -/
def replay : List Access → Mem → Mem
  | [], m => m
  | .w a d _ true :: rest, m => replay rest (m.write a d)
  | _ :: rest, m => replay rest m

theorem replay_append (l1 l2 : List Access) (m : Mem) : replay (l1 ++ l2) m = replay l2 (replay l1 m) := by
  induction l1 generalizing m with
  | nil => rfl
  | cons a l ih =>
    cases a with
    | r _ _ _ => simpa [replay] using ih m
    | w a d ok ap => cases ap <;> simp [replay, ih]

/-- the host saw the access succeed -/
def Access.succeeded : Access → Bool
  | .r _ _ ok => ok
  | .w _ _ ok _ => ok

/-- `x` only appends to the access log, every appended access satisfies `P`, the image changes
exactly by the applied writes among them, and unless `x` returns `Err` every access succeeded
(a failed access always surfaces as `Err`: never `Ok`, never a panic). -/
def Ext (P : Access → Prop) {α : Type} (x : M α) : Prop :=
  ∀ st, ∃ new, (x st).2.dev.log = st.dev.log ++ new ∧ (x st).2.dev.mem = replay new st.dev.mem ∧
    (∀ a ∈ new, P a) ∧ ((∀ e, (x st).1 ≠ .err e) → ∀ a ∈ new, a.succeeded = true)

theorem Ext.nil {P : Access → Prop} {α : Type} (x : M α) (h : ∀ st, (x st).2.dev = st.dev) : Ext P x := by
  intro st; exact ⟨[], by simp [h], by simp [h, replay], by simp, by simp⟩

theorem Ext.pure {P : Access → Prop} {α : Type} (a : α) : Ext P (pure a : M α) := Ext.nil _ (fun _ => rfl)
theorem Ext.lift {P : Access → Prop} {α : Type} (r : R α) : Ext P (M.lift r) := Ext.nil _ (fun _ => rfl)
theorem Ext.fail {P : Access → Prop} {α : Type} (e : Err) : Ext P (M.fail e : M α) := Ext.nil _ (fun _ => rfl)
theorem Ext.get {P : Access → Prop} : Ext P M.get := Ext.nil _ (fun _ => rfl)
theorem Ext.setSbrm {P : Access → Prop} (x) : Ext P (setSbrmCache x) := Ext.nil _ (fun _ => rfl)
theorem Ext.setSirm {P : Access → Prop} (x) : Ext P (setSirmCache x) := Ext.nil _ (fun _ => rfl)

theorem Ext.bind {P : Access → Prop} {α β : Type} {x : M α} {f : α → M β}
    (hx : Ext P x) (hf : ∀ a, Ext P (f a)) : Ext P (x >>= f) := by
  intro st
  obtain ⟨n1, h1, h2, h3, h4⟩ := hx st
  rw [M.bind_eq]
  cases hxs : x st with
  | mk r st' =>
    rw [hxs] at h1 h2 h4
    have h1' : st'.dev.log = st.dev.log ++ n1 := h1
    have h2' : st'.dev.mem = replay n1 st.dev.mem := h2
    cases r with
    | ok a =>
      obtain ⟨n2, g1, g2, g3, g4⟩ := hf a st'
      refine ⟨n1 ++ n2, ?_, ?_, ?_, ?_⟩
      · rw [g1, h1', List.append_assoc]
      · rw [g2, h2', replay_append]
      · intro a ha
        rcases List.mem_append.mp ha with h | h
        · exact h3 a h
        · exact g3 a h
      · intro hok a ha
        rcases List.mem_append.mp ha with h | h
        · exact h4 (by simp) a h
        · exact g4 hok a h
    | err e => exact ⟨n1, h1, h2, h3, fun h => absurd rfl (h e)⟩
    | panic => exact ⟨n1, h1, h2, h3, fun _ => h4 (by simp)⟩

theorem Ext.ite {P : Access → Prop} {α : Type} (c : Prop) [Decidable c] {x y : M α}
    (hx : Ext P x) (hy : Ext P y) : Ext P (if c then x else y) := by
  split <;> assumption

theorem Ext.devRead {P : Access → Prop} (a n : Nat) (h : ∀ ok, P (.r a n ok)) : Ext P (devRead a n) := by
  intro st
  simp only [CamVerif.Streaming.devRead, Dev.read]
  cases popFault st.dev.faults with
  | mk f rest =>
    cases f with
    | some f => exact ⟨[.r a n false], rfl, rfl, by simp [h], fun h => absurd rfl (h _)⟩
    | none =>
      simp only []
      split
      · exact ⟨[.r a n true], rfl, rfl, by simp [h], by simp [Access.succeeded]⟩
      · exact ⟨[.r a n false], rfl, rfl, by simp [h], fun h => absurd rfl (h _)⟩

theorem Ext.devWrite {P : Access → Prop} (a : Nat) (d : Bytes) (h : ∀ ok ap, P (.w a d ok ap)) :
    Ext P (devWrite a d) := by
  intro st
  simp only [CamVerif.Streaming.devWrite, Dev.write]
  cases popFault st.dev.faults with
  | mk f rest =>
    cases f with
    | some f =>
      simp only []
      split
      · exact ⟨[.w a d false true], rfl, rfl, by simp [h], fun h => absurd rfl (h _)⟩
      · exact ⟨[.w a d false false], rfl, rfl, by simp [h], fun h => absurd rfl (h _)⟩
    | none =>
      simp only []
      split
      · exact ⟨[.w a d true true], rfl, rfl, by simp [h], by simp [Access.succeeded]⟩
      · exact ⟨[.w a d false false], rfl, rfl, by simp [h], fun h => absurd rfl (h _)⟩

theorem Ext.readReg {P : Access → Prop} (hr : ∀ a n ok, P (.r a n ok)) (base off len : Nat) :
    Ext P (readReg base off len) := by
  unfold CamVerif.Streaming.readReg
  exact Ext.bind (Ext.lift _) fun a => Ext.bind (Ext.lift _) fun _ =>
    Ext.bind (Ext.devRead a len (hr a len)) fun _ => Ext.pure _

theorem Ext.lift_bind {P : Access → Prop} {α β : Type} (r : R α) (f : α → M β)
    (h : ∀ a, r = .ok a → Ext P (f a)) : Ext P (M.lift r >>= f) := by
  cases r with
  | ok a => exact h a rfl
  | err e => exact Ext.nil _ (fun _ => rfl)
  | panic => exact Ext.nil _ (fun _ => rfl)

theorem regAddr_eq {base off a : Nat} (h : regAddr base off = .ok a) : a = base + off := by
  simp only [regAddr] at h
  split at h
  · exact (Res.ok.inj h).symm
  · cases h

theorem Ext.writeReg32 {P : Access → Prop} (base off v : Nat)
    (hw : ∀ ok ap, P (.w (base + off) (toLE 4 v) ok ap)) : Ext P (writeReg32 base off v) := by
  unfold CamVerif.Streaming.writeReg32
  refine Ext.lift_bind _ _ fun a ha => ?_
  rw [regAddr_eq ha]
  exact Ext.bind (Ext.lift _) fun _ => Ext.devWrite _ _ hw


/-- `Quiet s a`: the access does not set the stream-enable bit -/
abbrev Quiet (s : Nat) (a : Access) : Prop := ¬ a.enables s

theorem quiet_read (s a n : Nat) (ok : Bool) : Quiet s (.r a n ok) := fun h => h

theorem quiet_write_above (s off : Nat) (d : Bytes) (ok ap : Bool) (h : SI_CONTROL < off) :
    Quiet s (.w (s + off) d ok ap) := by
  cases ap with
  | false => exact fun h => h
  | true => intro ⟨h1, _⟩; omega

theorem quiet_write_even (s v : Nat) (ok ap : Bool) (h : v % 2 = 0) :
    Quiet s (.w (s + SI_CONTROL) (toLE 4 v) ok ap) := by
  cases ap with
  | false => exact fun h => h
  | true =>
    intro ⟨_, b, hb, hodd⟩
    simp only [Nat.sub_self, toLE, List.getElem?_cons_zero, Option.some.injEq] at hb
    subst hb
    simp only [UInt8.toNat_ofNat'] at hodd
    omega

theorem Ext.writeAll {P : Access → Prop} (s : Nat) (ws : List (Nat × Nat))
    (h : ∀ w ∈ ws, ∀ ok ap, P (.w (s + w.1) (toLE 4 w.2) ok ap)) : Ext P (writeAll s ws) := by
  induction ws with
  | nil => exact Ext.pure _
  | cons w ws ih =>
    obtain ⟨off, v⟩ := w
    unfold CamVerif.Streaming.writeAll
    exact Ext.bind (Ext.writeReg32 s off v (h (off, v) (by simp))) fun _ =>
      ih (fun w hw => h w (by simp [hw]))

theorem readInputs_quiet (s : Nat) : Ext (Quiet s) (readInputs s) := by
  have hr : ∀ a n ok, Quiet s (.r a n ok) := quiet_read s
  have rest : Ext (Quiet s) (do
      let info ← readReg s SI_INFO 4
      let align ← M.lift (payloadSizeAlignment info)
      let align ← M.lift (alignmentU32 align)
      let reqLeader ← readReg s REQUIRED_LEADER_SIZE 4
      let reqPayload ← readReg s REQUIRED_PAYLOAD_SIZE 8
      let reqTrailer ← readReg s REQUIRED_TRAILER_SIZE 4
      pure (⟨align, reqLeader, reqPayload, reqTrailer⟩ : Inputs)) :=
    Ext.bind (Ext.readReg hr _ _ _) fun _ => Ext.bind (Ext.lift _) fun _ => Ext.bind (Ext.lift _) fun _ =>
      Ext.bind (Ext.readReg hr _ _ _) fun _ => Ext.bind (Ext.readReg hr _ _ _) fun _ =>
        Ext.bind (Ext.readReg hr _ _ _) fun _ => Ext.pure _
  unfold readInputs
  refine Ext.bind (Ext.readReg hr _ _ _) fun ctrl => ?_
  by_cases hc : ctrl % 2 = 1
  · simp only [hc, if_true]
    exact Ext.bind (Ext.writeReg32 _ _ _ (fun ok ap => quiet_write_even s 0 ok ap rfl)) fun _ => rest
  · simp only [hc, if_false]
    exact rest

theorem prepareAt_quiet (p : Profile) (s : Nat) : Ext (Quiet s) (prepareAt p s) := by
  unfold prepareAt
  refine Ext.bind (readInputs_quiet s) fun i => ?_
  refine Ext.bind (Ext.lift _) fun sz => ?_
  apply Ext.writeAll
  intro w hw ok ap
  simp only [sizeWrites, List.mem_cons, List.not_mem_nil, or_false] at hw
  rcases hw with rfl | rfl | rfl | rfl | rfl | rfl <;>
    exact quiet_write_above s _ _ ok ap (by simp [SI_CONTROL, PAYLOAD_TRANSFER_SIZE_REG,
      PAYLOAD_TRANSFER_COUNT, PAYLOAD_FINAL_TRANSFER1_SIZE, PAYLOAD_FINAL_TRANSFER2_SIZE,
      MAXIMUM_LEADER_SIZE, MAXIMUM_TRAILER_SIZE])

/-- `ControlHandle::sirm` only reads. -/
def Access.isRead : Access → Prop
  | .r _ _ _ => True
  | _ => False

theorem getSbrm_reads : Ext Access.isRead getSbrm := by
  have hr : ∀ a n ok, Access.isRead (.r a n ok) := fun _ _ _ => trivial
  unfold getSbrm
  refine Ext.bind Ext.get fun st => ?_
  cases st.sbrm with
  | some x => exact Ext.pure _
  | none =>
    exact Ext.bind (Ext.readReg hr _ _ _) fun _ => Ext.bind (Ext.readReg hr _ _ _) fun _ =>
      Ext.bind (Ext.setSbrm _) fun _ => Ext.pure _

theorem getSirm_reads : Ext Access.isRead getSirm := by
  have hr : ∀ a n ok, Access.isRead (.r a n ok) := fun _ _ _ => trivial
  unfold getSirm
  refine Ext.bind Ext.get fun st => ?_
  cases st.sirm with
  | some x => exact Ext.pure _
  | none =>
    refine Ext.bind getSbrm_reads fun x => ?_
    obtain ⟨sb, cap⟩ := x
    exact Ext.ite (cap % 2 = 1) (Ext.bind (Ext.readReg hr _ _ _) fun _ => Ext.bind (Ext.setSirm _) fun _ => Ext.pure _)
      (Ext.fail _)

theorem replay_reads (l : List Access) (m : Mem) (h : ∀ a ∈ l, a.isRead) : replay l m = m := by
  induction l with
  | nil => rfl
  | cons a l ih =>
    cases a with
    | r _ _ _ => exact ih (fun a ha => h a (by simp [ha]))
    | w a d ok ap => exact (h (.w a d ok ap) (by simp)).elim


theorem Dev.write_cases (d : Dev) (a : Nat) (data : Bytes) :
    ∃ ok ap, (d.write a data).2.log = d.log ++ [.w a data ok ap] ∧
      (d.write a data).2.mem = replay [.w a data ok ap] d.mem ∧
      (ok = true ↔ (d.write a data).1 = .ok ()) ∧ (ok = true → ap = true) ∧
      (ok = false → ∃ e, (d.write a data).1 = .err e) := by
  simp only [Dev.write]
  cases popFault d.faults with
  | mk f rest =>
    cases f with
    | some f =>
      simp only []
      split
      · exact ⟨false, true, rfl, rfl, by simp, by simp, fun _ => ⟨_, rfl⟩⟩
      · exact ⟨false, false, rfl, rfl, by simp, by simp, fun _ => ⟨_, rfl⟩⟩
    | none =>
      simp only []
      split
      · exact ⟨true, true, rfl, rfl, by simp, by simp, by simp⟩
      · exact ⟨false, false, rfl, rfl, by simp, by simp, fun _ => ⟨_, rfl⟩⟩

/-- one `Sirm::write_register` on an arbitrary device: refused before any access, or exactly one
write command whose `ok` flag is the call's result -/
theorem writeReg32_cases (base off v : Nat) (st : St) :
    ((writeReg32 base off v st).2.dev = st.dev ∧ (writeReg32 base off v st).1 ≠ .ok ()) ∨
    ∃ ok ap, (writeReg32 base off v st).2.dev.log = st.dev.log ++ [.w (base + off) (toLE 4 v) ok ap] ∧
      (writeReg32 base off v st).2.dev.mem = replay [.w (base + off) (toLE 4 v) ok ap] st.dev.mem ∧
      (ok = true ↔ (writeReg32 base off v st).1 = .ok ()) ∧ (ok = true → ap = true) ∧
      (ok = false → ∃ e, (writeReg32 base off v st).1 = .err e) := by
  unfold writeReg32
  cases h1 : regAddr base off with
  | err e => left; exact ⟨rfl, by simp [M.bind_eq, M.lift]⟩
  | panic => left; exact ⟨rfl, by simp [M.bind_eq, M.lift]⟩
  | ok a =>
    rw [M.lift_bind_ok _ _ _ _ rfl, regAddr_eq h1]
    cases h2 : verifyRange (base + off) 4 with
    | err e => left; exact ⟨rfl, by simp [M.bind_eq, M.lift]⟩
    | panic => left; exact ⟨rfl, by simp [M.bind_eq, M.lift]⟩
    | ok u =>
      right
      rw [M.lift_bind_ok _ _ _ _ rfl]
      obtain ⟨ok, ap, g1, g2, g3, g4, g5⟩ := Dev.write_cases st.dev (base + off) (toLE 4 v)
      refine ⟨ok, ap, g1, g2, ?_, g4, ?_⟩
      · rw [g3]
        simp only [devWrite]
      · intro h
        obtain ⟨e, he⟩ := g5 h
        exact ⟨e, by simp only [devWrite]; exact he⟩

/-- **Every** run of `enable_streaming` (after the SIRM address is resolved), on any device image
and under any fault schedule: the accesses split into a prefix that never sets the enable bit
and at most one final access, the write `SI_CONTROL := 1`, whose success flag is the result of
the call.  The image changes exactly by the applied writes. -/
theorem enableAt_any (p : Profile) (s : Nat) (st : St) :
    ∃ quiet last, (enableAt p s st).2.dev.log = st.dev.log ++ (quiet ++ last) ∧
      (enableAt p s st).2.dev.mem = replay (quiet ++ last) st.dev.mem ∧
      (∀ a ∈ quiet, Quiet s a) ∧
      ((∀ e, (enableAt p s st).1 ≠ .err e) → ∀ a ∈ quiet, a.succeeded = true) ∧
      ((last = [] ∧ (enableAt p s st).1 ≠ .ok ()) ∨
       ∃ ok ap, last = [.w (s + SI_CONTROL) (toLE 4 1) ok ap] ∧
         (ok = true ↔ (enableAt p s st).1 = .ok ()) ∧ (ok = true → ap = true) ∧
         (ok = false → ∃ e, (enableAt p s st).1 = .err e)) := by
  obtain ⟨n1, h1, h2, h3, h4⟩ := prepareAt_quiet p s st
  unfold enableAt
  rw [M.bind_eq]
  cases hp : prepareAt p s st with
  | mk r st' =>
    rw [hp] at h1 h2 h4
    have h1' : st'.dev.log = st.dev.log ++ n1 := h1
    have h2' : st'.dev.mem = replay n1 st.dev.mem := h2
    cases r with
    | err e => exact ⟨n1, [], by simpa using h1', by simpa using h2', h3, fun h => absurd rfl (h e), Or.inl ⟨rfl, by simp⟩⟩
    | panic => exact ⟨n1, [], by simpa using h1', by simpa using h2', h3, fun _ => h4 (by simp), Or.inl ⟨rfl, by simp⟩⟩
    | ok u =>
      simp only []
      rcases writeReg32_cases s SI_CONTROL 1 st' with ⟨g1, g2⟩ | ⟨ok, ap, g1, g2, g3, g4, g5⟩
      · exact ⟨n1, [], by simp [g1, h1'], by simp [g1, h2'], h3, fun _ => h4 (by simp), Or.inl ⟨rfl, g2⟩⟩
      · refine ⟨n1, [.w (s + SI_CONTROL) (toLE 4 1) ok ap], ?_, ?_, h3, fun _ => h4 (by simp), Or.inr ⟨ok, ap, rfl, g3, g4, g5⟩⟩
        · rw [g1, h1', List.append_assoc]
        · rw [g2, h2', replay_append]

/-! ### The enable bit in the image -/

theorem enabledIn_iff_byte (m : Mem) (s : Nat) :
    enabledIn m s ↔ (m.byte (s + SI_CONTROL)).toNat % 2 = 1 := by
  simp only [enabledIn, regVal, Mem.read, List.range, List.range.loop, List.map, fromLE, Nat.add_zero]
  omega

theorem replay_enable_bit (s : Nat) (new : List Access) (m : Mem) (hq : ∀ a ∈ new, Quiet s a)
    (h : ((replay new m).byte (s + SI_CONTROL)).toNat % 2 = 1) :
    (m.byte (s + SI_CONTROL)).toNat % 2 = 1 ∧ ∀ a ∈ new, ¬ a.touches s := by
  induction new generalizing m with
  | nil => exact ⟨h, by simp⟩
  | cons a l ih =>
    have hl : ∀ a ∈ l, Quiet s a := fun a ha => hq a (by simp [ha])
    cases a with
    | r a n ok =>
      obtain ⟨g1, g2⟩ := ih m hl h
      exact ⟨g1, fun a ha => by
        rcases List.mem_cons.mp ha with rfl | ha
        · exact fun h => h
        · exact g2 a ha⟩
    | w addr d ok ap =>
      cases ap with
      | false =>
        obtain ⟨g1, g2⟩ := ih m hl h
        exact ⟨g1, fun a ha => by
          rcases List.mem_cons.mp ha with rfl | ha
          · exact fun h => h
          · exact g2 a ha⟩
      | true =>
        obtain ⟨g1, g2⟩ := ih (m.write addr d) hl h
        have hnt : ¬ (Access.w addr d ok true).touches s := by
          intro ⟨t1, t2⟩
          apply hq (.w addr d ok true) (by simp)
          refine ⟨t1, d[s + SI_CONTROL - addr]'(by omega), by simp, ?_⟩
          have := Mem.byte_write_of_mem m addr d (s + SI_CONTROL - addr) (by omega)
          rw [show addr + (s + SI_CONTROL - addr) = s + SI_CONTROL by omega] at this
          rw [← this]; exact g1
        refine ⟨?_, fun a ha => by
          rcases List.mem_cons.mp ha with rfl | ha
          · exact hnt
          · exact g2 a ha⟩
        rw [Mem.byte_write_of_not_mem] at g1
        · exact g1
        · simp only [Access.touches] at hnt
          omega

/-! ## Panic freedom on arbitrary devices -/

/-- `x` never panics, and every value it returns satisfies `Q` -/
def NP {α : Type} (Q : α → Prop) (x : M α) : Prop :=
  ∀ st, (x st).1 ≠ .panic ∧ ∀ a, (x st).1 = .ok a → Q a

theorem NP.bind {α β : Type} {Q : α → Prop} {Q' : β → Prop} {x : M α} {f : α → M β}
    (hx : NP Q x) (hf : ∀ a, Q a → NP Q' (f a)) : NP Q' (x >>= f) := by
  intro st
  rw [M.bind_eq]
  obtain ⟨h1, h2⟩ := hx st
  cases hxs : x st with
  | mk r st' =>
    rw [hxs] at h1 h2
    cases r with
    | ok a => exact hf a (h2 a rfl) st'
    | err e => exact ⟨by simp, fun a h => by cases h⟩
    | panic => exact absurd rfl h1

theorem NP.pure {α : Type} {Q : α → Prop} (a : α) (h : Q a) : NP Q (pure a : M α) :=
  fun _ => ⟨by simp [Pure.pure, M.pure], fun b hb => by
    simp only [Pure.pure, M.pure, Res.ok.injEq] at hb; exact hb ▸ h⟩

theorem NP.lift {α : Type} {Q : α → Prop} (r : R α) (h1 : r ≠ .panic) (h2 : ∀ a, r = .ok a → Q a) :
    NP Q (M.lift r) := fun _ => ⟨h1, h2⟩

theorem NP.fail {α : Type} {Q : α → Prop} (e : Err) : NP Q (M.fail e : M α) :=
  fun _ => ⟨by simp [M.fail], fun a h => by simp [M.fail] at h⟩

theorem NP.weaken {α : Type} {Q Q' : α → Prop} {x : M α} (h : NP Q x) (hq : ∀ a, Q a → Q' a) : NP Q' x :=
  fun st => ⟨(h st).1, fun a ha => hq a ((h st).2 a ha)⟩

theorem NP.devRead (a n : Nat) : NP (fun bs => bs.length = n) (devRead a n) := by
  intro st
  simp only [CamVerif.Streaming.devRead, Dev.read]
  cases popFault st.dev.faults with
  | mk f rest =>
    cases f with
    | some f => exact ⟨by simp, fun a h => by cases h⟩
    | none =>
      simp only []
      split
      · exact ⟨by simp, fun b h => by
          simp only [Res.ok.injEq] at h; subst h; simp [Mem.read]⟩
      · exact ⟨by simp, fun a h => by cases h⟩

theorem NP.devWrite (a : Nat) (d : Bytes) : NP (fun _ => True) (devWrite a d) := by
  intro st
  simp only [CamVerif.Streaming.devWrite, Dev.write]
  cases popFault st.dev.faults with
  | mk f rest =>
    cases f with
    | some f => simp only []; split <;> exact ⟨by simp, fun _ _ => trivial⟩
    | none => simp only []; split <;> exact ⟨by simp, fun _ _ => trivial⟩

theorem regAddr_ne_panic (b off : Nat) : regAddr b off ≠ .panic := by
  unfold regAddr; split <;> simp
theorem verifyRange_ne_panic (a n : Nat) : verifyRange a n ≠ .panic := by
  unfold verifyRange; split <;> simp

theorem NP.readReg (base off len : Nat) : NP (fun v => v < 256 ^ len) (readReg base off len) := by
  unfold CamVerif.Streaming.readReg
  refine NP.bind (Q := fun _ => True) (NP.lift _ (regAddr_ne_panic _ _) (fun _ _ => trivial)) fun a _ => ?_
  refine NP.bind (Q := fun _ => True) (NP.lift _ (verifyRange_ne_panic _ _) (fun _ _ => trivial)) fun _ _ => ?_
  refine NP.bind (NP.devRead a len) fun bs hbs => NP.pure _ ?_
  have := fromLE_lt bs
  rwa [hbs] at this

theorem NP.writeReg32 (base off v : Nat) : NP (fun _ => True) (writeReg32 base off v) := by
  unfold CamVerif.Streaming.writeReg32
  refine NP.bind (Q := fun _ => True) (NP.lift _ (regAddr_ne_panic _ _) (fun _ _ => trivial)) fun a _ => ?_
  exact NP.bind (Q := fun _ => True) (NP.lift _ (verifyRange_ne_panic _ _) (fun _ _ => trivial)) fun _ _ =>
    NP.devWrite _ _

theorem NP.any {α : Type} {Q : α → Prop} {x : M α} (h : NP Q x) : NP (fun _ => True) x :=
  h.weaken (fun _ _ => trivial)

theorem NP.getSirm : NP (fun _ => True) getSirm := by
  unfold CamVerif.Streaming.getSirm
  refine NP.bind (Q := fun _ => True) (fun st => ⟨by simp [M.get], fun _ _ => trivial⟩) fun st _ => ?_
  cases st.sirm with
  | some a => exact NP.pure _ trivial
  | none =>
    refine NP.bind (Q := fun _ => True) ?_ fun x _ => ?_
    · unfold getSbrm
      refine NP.bind (Q := fun _ => True) (fun st => ⟨by simp [M.get], fun _ _ => trivial⟩) fun st _ => ?_
      cases st.sbrm with
      | some x => exact NP.pure _ trivial
      | none =>
        exact NP.bind (NP.readReg _ _ _).any fun _ _ => NP.bind (NP.readReg _ _ _).any fun _ _ =>
          NP.bind (Q := fun _ => True) (fun st => ⟨by simp [setSbrmCache], fun _ _ => trivial⟩) fun _ _ =>
            NP.pure _ trivial
    · obtain ⟨sb, cap⟩ := x
      by_cases hc : cap % 2 = 1
      · simp only [hc, if_true]
        exact NP.bind (NP.readReg _ _ _).any fun _ _ =>
          NP.bind (Q := fun _ => True) (fun st => ⟨by simp [setSirmCache], fun _ _ => trivial⟩) fun _ _ =>
            NP.pure _ trivial
      · simp only [hc, if_false]; exact NP.fail _

/-- what `readInputs` guarantees about the values it hands to the arithmetic -/
def InputsOk (i : Inputs) : Prop :=
  (∃ e, e ≤ 31 ∧ i.align = 2 ^ e) ∧ i.reqLeader < 2 ^ 32 ∧ i.reqTrailer < 2 ^ 32

theorem alignment_inv {info a a' : Nat} (h1 : payloadSizeAlignment info = .ok a)
    (h2 : alignmentU32 a = .ok a') : ∃ e, e ≤ 31 ∧ a' = 2 ^ e := by
  simp only [payloadSizeAlignment] at h1
  split at h1
  · simp only [Res.ok.injEq] at h1
    simp only [alignmentU32] at h2
    split at h2
    · rename_i hlt
      simp only [Res.ok.injEq] at h2
      subst h1; subst h2
      refine ⟨info / 2 ^ 24, ?_, rfl⟩
      have := (Nat.pow_lt_pow_iff_right (a := 2) (by decide)).mp hlt
      omega
    · cases h2
  · cases h1

theorem NP.readInputs (s : Nat) : NP InputsOk (readInputs s) := by
  have rest : NP InputsOk (do
      let info ← CamVerif.Streaming.readReg s SI_INFO 4
      let align ← M.lift (payloadSizeAlignment info)
      let align ← M.lift (alignmentU32 align)
      let reqLeader ← CamVerif.Streaming.readReg s REQUIRED_LEADER_SIZE 4
      let reqPayload ← CamVerif.Streaming.readReg s REQUIRED_PAYLOAD_SIZE 8
      let reqTrailer ← CamVerif.Streaming.readReg s REQUIRED_TRAILER_SIZE 4
      Pure.pure (⟨align, reqLeader, reqPayload, reqTrailer⟩ : Inputs)) := by
    refine NP.bind (NP.readReg _ _ _).any fun info _ => ?_
    refine NP.bind (Q := fun a => payloadSizeAlignment info = .ok a)
      (NP.lift _ (by simp only [payloadSizeAlignment]; split <;> simp) (fun a h => h)) fun a ha => ?_
    refine NP.bind (Q := fun a' => alignmentU32 a = .ok a')
      (NP.lift _ (by unfold alignmentU32; split <;> simp) (fun a h => h)) fun a' ha' => ?_
    refine NP.bind (NP.readReg _ _ _) fun L hL => ?_
    refine NP.bind (NP.readReg _ _ _).any fun P _ => ?_
    refine NP.bind (NP.readReg _ _ _) fun T hT => ?_
    exact NP.pure _ ⟨alignment_inv ha ha', by simpa using hL, by simpa using hT⟩
  unfold CamVerif.Streaming.readInputs
  refine NP.bind (NP.readReg _ _ _).any fun ctrl _ => ?_
  by_cases hc : ctrl % 2 = 1
  · simp only [hc, if_true]
    exact NP.bind (NP.writeReg32 _ _ _) fun _ _ => rest
  · simp only [hc, if_false]
    exact rest

theorem NP.writeAll (s : Nat) (ws : List (Nat × Nat)) : NP (fun _ => True) (writeAll s ws) := by
  induction ws with
  | nil => exact NP.pure _ trivial
  | cons w ws ih =>
    obtain ⟨off, v⟩ := w
    unfold CamVerif.Streaming.writeAll
    exact NP.bind (NP.writeReg32 _ _ _) fun _ _ => ih

theorem NP.enableStreaming (p : Profile) : NP (fun _ => True) (enableStreaming p) := by
  unfold CamVerif.Streaming.enableStreaming enableAt prepareAt
  refine NP.bind NP.getSirm fun s _ => ?_
  refine NP.bind (Q := fun _ => True) ?_ fun _ _ => NP.writeReg32 _ _ _
  refine NP.bind (NP.readInputs s) fun i hi => ?_
  obtain ⟨⟨e, he, hal⟩, hL, hT⟩ := hi
  refine NP.bind (Q := fun _ => True) (NP.lift _ ?_ (fun _ _ => trivial)) fun sz _ => NP.writeAll _ _
  rw [hal]
  rcases computeSizes_scope_or_err p e i.reqLeader i.reqPayload i.reqTrailer he hL hT with h | h
  · rw [computeSizes_ok p e _ _ _ h.expLe h.leaderFits h.trailerFits h.payloadFits]; simp
  · rw [h]; simp

theorem NP.disableStreaming : NP (fun _ => True) disableStreaming := by
  unfold CamVerif.Streaming.disableStreaming
  exact NP.bind NP.getSirm fun s _ => NP.writeReg32 _ _ _

theorem NP.fromControl : NP (fun _ => True) fromControl := by
  unfold CamVerif.Streaming.fromControl
  refine NP.bind (NP.readReg _ _ _).any fun _ _ => NP.bind (NP.readReg _ _ _).any fun sb _ =>
    NP.bind (NP.readReg _ _ _).any fun cap _ => ?_
  by_cases hc : cap % 2 = 1
  · simp only [hc, if_true]
    exact NP.bind (NP.readReg _ _ _).any fun s _ => NP.bind (NP.readReg _ _ _).any fun _ _ =>
      NP.bind (NP.readReg _ _ _).any fun _ _ => NP.bind (NP.readReg _ _ _).any fun _ _ =>
      NP.bind (NP.readReg _ _ _).any fun _ _ => NP.bind (NP.readReg _ _ _).any fun _ _ =>
      NP.bind (NP.readReg _ _ _).any fun _ _ => NP.bind (NP.readReg _ _ _).any fun _ _ =>
      NP.pure _ trivial
  · simp only [hc, if_false]; exact NP.fail _

/-! ## Single faulted steps -/

theorem M.bind_err {α β : Type} (x : M α) (f : α → M β) (st st' : St) (e : Err)
    (h : x st = (.err e, st')) : (x >>= f) st = (.err e, st') := by
  rw [M.bind_eq, h]

/-- a served register read with a non-empty fault schedule whose head is `none` -/
theorem readReg_served (base off len : Nat) (m : Mem) (log fs sb si)
    (hlen : 0 < len) (ha : base + off + len ≤ 2 ^ 64) (hm : m.rangeMapped (base + off) len = true) :
    readReg base off len ⟨⟨m, log, none :: fs⟩, sb, si⟩ =
      (.ok (fromLE (m.read (base + off) len)), ⟨⟨m, log ++ [.r (base + off) len true], fs⟩, sb, si⟩) := by
  have h1 : regAddr base off = .ok (base + off) := by
    simp only [regAddr]; rw [if_pos (by omega)]
  have h2 : verifyRange (base + off) len = .ok () := by
    simp only [verifyRange]; rw [if_pos (by omega)]
  simp [readReg, M.bind_eq, M.lift, h1, h2, devRead, Dev.read, popFault, hm, pure, M.pure]

/-- a faulted register write: the error of the fault, the device image changes only if the
fault says the write was executed (lost acknowledge) -/
theorem writeReg32_faulted (base off v : Nat) (m : Mem) (log fs sb si) (f : Fault)
    (ha : base + off + 4 ≤ 2 ^ 64) (hm : m.rangeMapped (base + off) 4 = true) :
    writeReg32 base off v ⟨⟨m, log, some f :: fs⟩, sb, si⟩ =
      (.err f.err, ⟨⟨if f.applied then m.write (base + off) (toLE 4 v) else m,
        log ++ [.w (base + off) (toLE 4 v) false f.applied], fs⟩, sb, si⟩) := by
  have h1 : regAddr base off = .ok (base + off) := by
    simp only [regAddr]; rw [if_pos (by omega)]
  have h2 : verifyRange (base + off) 4 = .ok () := by
    simp only [verifyRange]; rw [if_pos (by omega)]
  cases hap : f.applied <;>
    simp [writeReg32, M.bind_eq, M.lift, h1, h2, devWrite, Dev.write, popFault, hm, hap]

theorem enabledIn_write_zero (m : Mem) (s : Nat) : ¬ enabledIn (m.write (s + SI_CONTROL) (toLE 4 0)) s := by
  simp only [enabledIn, regVal]
  rw [read_write32_eq]
  decide

end CamVerif.Streaming
