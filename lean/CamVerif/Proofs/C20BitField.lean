import CamVerif.Proofs.C20Raw
import Std.Tactic.BVDecide
namespace CamVerif.Memory
end CamVerif.Memory
