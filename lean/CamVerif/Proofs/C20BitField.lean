/-
Helper lemmas for C20, part 4: the generated bit-field code (`mask`, `min`, `max`,
`masked_int`, `parse`, `write`).

Strategy: the model functions take `lsb msb : Nat`.  They are re-expressed with `BitVec`
shift amounts (primed versions, generic in the width), the word-level theorem is proved per
integer width (8/16/32/64) by `bv_decide` with symbolic `lsb`, `msb`, old word and value, and
the macro-time `i64` `min`/`max` are bridged by exhaustive kernel evaluation over all
`(lsb, msb)` pairs of the width.
-/
import CamVerif.Proofs.C20Typed
import Std.Tactic.BVDecide
namespace CamVerif.Memory
variable {w : Nat}

/-! ### Independent specification -/

/-- the bits `lsb ..= msb` of a `w`-bit word -/
def specMask (w lsb msb : Nat) : BitVec w := (BitVec.allOnes w >>> (w - 1 - msb + lsb)) <<< lsb

theorem specMask_bit (lsb msb i : Nat) (hm : msb < w) (hi : i < w) :
    (specMask w lsb msb).getLsbD i = (decide (lsb ≤ i) && decide (i ≤ msb)) := by
  simp only [specMask, BitVec.getLsbD_shiftLeft, BitVec.getLsbD_ushiftRight, BitVec.getLsbD_allOnes]
  by_cases h1 : lsb ≤ i <;> by_cases h2 : i ≤ msb <;> simp [h1, h2, hi] <;> omega

/-! ### Versions with `BitVec` shift amounts -/

def wm1 (w : Nat) : BitVec w := BitVec.ofNat w (w - 1)
def wm2 (w : Nat) : BitVec w := BitVec.ofNat w (w - 2)

def maskU' (l m : BitVec w) : BitVec w :=
  (if m = wm1 w then BitVec.allOnes w else (1#w <<< (m + 1#w)) - 1#w) &&& ~~~((1#w <<< l) - 1#w)

def maskS' (l m : BitVec w) : BitVec w :=
  (if m = wm1 w then BitVec.allOnes w else if m = wm2 w then intMaxBV w
    else (1#w <<< (m + 1#w)) - 1#w) &&&
  (if l = wm1 w then intMinBV w else ~~~((1#w <<< l) - 1#w))

def mask' (sg : Bool) (l m : BitVec w) : BitVec w := if sg then maskS' l m else maskU' l m

/-- `min()` / `max()` of the generated code as words -/
def minW (sg : Bool) (w lsb msb : Nat) : BitVec w :=
  if sg then -(1#w <<< (msb - lsb)) else 0#w
def maxW (sg : Bool) (w lsb msb : Nat) : BitVec w :=
  if sg then (1#w <<< (msb - lsb)) - 1#w
  else if msb - lsb = w - 1 then BitVec.allOnes w else (1#w <<< (msb - lsb + 1)) - 1#w

def min' (sg : Bool) (l m : BitVec w) : BitVec w := if sg then -(1#w <<< (m - l)) else 0#w
def max' (sg : Bool) (l m : BitVec w) : BitVec w :=
  if sg then (1#w <<< (m - l)) - 1#w
  else if m - l = wm1 w then BitVec.allOnes w else (1#w <<< (m - l + 1#w)) - 1#w

def extract' (sg : Bool) (l m value : BitVec w) : BitVec w :=
  let mask := mask' sg l m
  let v := value &&& mask
  if sg then
    let v := v.sshiftRight' l
    if (1#w <<< (m - l)) &&& v ≠ 0#w then v ||| (BitVec.allOnes w ^^^ mask.sshiftRight' l) else v
  else v >>> l

def spec' (l m : BitVec w) : BitVec w := (BitVec.allOnes w >>> (wm1 w - m + l)) <<< l

/-! ### Bridging `Nat` positions to `BitVec` positions (generic in the width) -/

theorem lt_pow (w : Nat) : w < 2 ^ w := Nat.lt_two_pow_self

theorem eq_wm1 (m : BitVec w) : (w - 1 = m.toNat) ↔ m = wm1 w := by
  have := lt_pow w
  rw [← BitVec.toNat_inj, wm1, BitVec.toNat_ofNat, Nat.mod_eq_of_lt (by omega)]
  omega

theorem eq_wm1' (m : BitVec w) : (m.toNat = w - 1) ↔ m = wm1 w := by
  rw [← eq_wm1]; omega

theorem eq_wm2 (m : BitVec w) : (w - 2 = m.toNat) ↔ m = wm2 w := by
  have := lt_pow w
  rw [← BitVec.toNat_inj, wm2, BitVec.toNat_ofNat, Nat.mod_eq_of_lt (by omega)]
  omega

theorem toNat_succ (m : BitVec w) (hm : m.toNat < w) : (m + 1#w).toNat = m.toNat + 1 := by
  have := lt_pow w
  rw [BitVec.toNat_add, BitVec.toNat_ofNat]
  have h1 : 1 % 2 ^ w = 1 := Nat.mod_eq_of_lt (by omega)
  rw [h1, Nat.mod_eq_of_lt (by omega)]

theorem shl_succ (x m : BitVec w) (hm : m.toNat < w) : x <<< (m.toNat + 1) = x <<< (m + 1#w) := by
  rw [BitVec.shiftLeft_eq' (y := m + 1#w), toNat_succ m hm]

theorem toNat_sub' (l m : BitVec w) (h : l.toNat ≤ m.toNat) : (m - l).toNat = m.toNat - l.toNat :=
  BitVec.toNat_sub_of_le (BitVec.le_def.mpr h)

theorem bridge_maskU (l m : BitVec w) (hm : m.toNat < w) :
    bfMaskU w l.toNat m.toNat = maskU' l m := by
  simp only [bfMaskU, maskU', eq_wm1, shl_succ _ m hm, ← BitVec.shiftLeft_eq']

theorem bridge_maskS (l m : BitVec w) (hm : m.toNat < w) :
    bfMaskS w l.toNat m.toNat = maskS' l m := by
  simp only [bfMaskS, maskS', eq_wm1, eq_wm2, shl_succ _ m hm, ← BitVec.shiftLeft_eq']

theorem bridge_mask (sg : Bool) (l m : BitVec w) (hm : m.toNat < w) :
    bfMask sg w l.toNat m.toNat = mask' sg l m := by
  simp only [bfMask, mask', bridge_maskU l m hm, bridge_maskS l m hm]

theorem bridge_min (sg : Bool) (l m : BitVec w) (h : l.toNat ≤ m.toNat) :
    minW sg w l.toNat m.toNat = min' sg l m := by
  simp only [minW, min', BitVec.shiftLeft_eq' (y := m - l), toNat_sub' l m h]

theorem bridge_max (sg : Bool) (l m : BitVec w) (h : l.toNat ≤ m.toNat) (hm : m.toNat < w) :
    maxW sg w l.toNat m.toNat = max' sg l m := by
  have h2 : (m - l).toNat < w := by rw [toNat_sub' l m h]; omega
  simp only [maxW, max', BitVec.shiftLeft_eq' (y := m - l), BitVec.shiftLeft_eq' (y := m - l + 1#w),
    toNat_succ (m - l) h2, ← eq_wm1', toNat_sub' l m h]

theorem bridge_extract (sg : Bool) (l m value : BitVec w) (h : l.toNat ≤ m.toNat) (hm : m.toNat < w) :
    bfExtract sg w l.toNat m.toNat value = extract' sg l m value := by
  simp only [bfExtract, extract', bridge_mask sg l m hm, BitVec.sshiftRight_eq',
    BitVec.ushiftRight_eq', BitVec.shiftLeft_eq' (y := m - l), toNat_sub' l m h]

theorem bridge_spec (l m : BitVec w) (h : l.toNat ≤ m.toNat) (hm : m.toNat < w) :
    specMask w l.toNat m.toNat = spec' l m := by
  have := lt_pow w
  have h1 : (wm1 w).toNat = w - 1 := by rw [wm1, BitVec.toNat_ofNat, Nat.mod_eq_of_lt (by omega)]
  have h2 : (wm1 w - m).toNat = w - 1 - m.toNat :=
    (BitVec.toNat_sub_of_le (BitVec.le_def.mpr (by omega))).trans (by rw [h1])
  have h3 : (wm1 w - m + l).toNat = w - 1 - m.toNat + l.toNat := by
    rw [BitVec.toNat_add, h2, Nat.mod_eq_of_lt (by omega)]
  simp only [specMask, spec', BitVec.ushiftRight_eq', BitVec.shiftLeft_eq' (y := l), h3]

/-! ### The word-level theorem, per width (bv_decide) -/

/-- For positions `l ≤ m < w` and a value inside `[min, max]`: the generated mask is the
specified one, the merged word agrees with the old word outside the field, and parsing the
merged word returns the value. -/
def WordOK (sg : Bool) (l m orig data : BitVec w) : Prop :=
  mask' sg l m = spec' l m ∧
  ((if sg then data.slt (min' sg l m) || (max' sg l m).slt data
      else data.ult (min' sg l m) || (max' sg l m).ult data) = false →
    extract' sg l m ((orig &&& ~~~(mask' sg l m)) ||| ((data <<< l) &&& mask' sg l m)) = data)

theorem word8 (sg : Bool) (l m orig data : BitVec 8) (h1 : l ≤ m) (h2 : m ≤ 7#8) :
    WordOK sg l m orig data := by
  simp only [WordOK, mask', maskU', maskS', extract', spec', min', max', wm1, wm2, intMaxBV, intMinBV] at *
  cases sg <;> simp only [if_true, if_false, Bool.false_eq_true] at * <;> bv_decide

theorem word16 (sg : Bool) (l m orig data : BitVec 16) (h1 : l ≤ m) (h2 : m ≤ 15#16) :
    WordOK sg l m orig data := by
  simp only [WordOK, mask', maskU', maskS', extract', spec', min', max', wm1, wm2, intMaxBV, intMinBV] at *
  cases sg <;> simp only [if_true, if_false, Bool.false_eq_true] at * <;> bv_decide

theorem word32 (sg : Bool) (l m orig data : BitVec 32) (h1 : l ≤ m) (h2 : m ≤ 31#32) :
    WordOK sg l m orig data := by
  simp only [WordOK, mask', maskU', maskS', extract', spec', min', max', wm1, wm2, intMaxBV, intMinBV] at *
  cases sg <;> simp only [if_true, if_false, Bool.false_eq_true] at * <;> bv_decide

theorem word64 (sg : Bool) (l m orig data : BitVec 64) (h1 : l ≤ m) (h2 : m ≤ 63#64) :
    WordOK sg l m orig data := by
  simp only [WordOK, mask', maskU', maskS', extract', spec', min', max', wm1, wm2, intMaxBV, intMinBV] at *
  cases sg <;> simp only [if_true, if_false, Bool.false_eq_true] at * <;> bv_decide

/-- the four integer widths of the register types -/
def IsIntWidth (w : Nat) : Prop := w = 8 ∨ w = 16 ∨ w = 32 ∨ w = 64

theorem word_all (hw : IsIntWidth w) (sg : Bool) (l m orig data : BitVec w) (h1 : l.toNat ≤ m.toNat)
    (h2 : m.toNat < w) : WordOK sg l m orig data := by
  rcases hw with rfl | rfl | rfl | rfl
  · exact word8 sg l m orig data (BitVec.le_def.mpr h1) (BitVec.le_def.mpr (by simp; omega))
  · exact word16 sg l m orig data (BitVec.le_def.mpr h1) (BitVec.le_def.mpr (by simp; omega))
  · exact word32 sg l m orig data (BitVec.le_def.mpr h1) (BitVec.le_def.mpr (by simp; omega))
  · exact word64 sg l m orig data (BitVec.le_def.mpr h1) (BitVec.le_def.mpr (by simp; omega))

/-! ### Macro-time (`i128`) min/max, cast `as ty` -/

/-- the casts `min as ty` / `max as ty` of the macro-time values are the words `minW`/`maxW` -/
def minMaxOk (w : Nat) (sg : Bool) (lsb msb : Nat) : Bool :=
  BitVec.ofInt w (bfMin sg lsb msb) == minW sg w lsb msb &&
  BitVec.ofInt w (bfMax sg lsb msb) == maxW sg w lsb msb

theorem minMax8 : ∀ sg : Bool, ∀ msb < 8, ∀ lsb ≤ msb, minMaxOk 8 sg lsb msb = true := by decide +kernel
theorem minMax16 : ∀ sg : Bool, ∀ msb < 16, ∀ lsb ≤ msb, minMaxOk 16 sg lsb msb = true := by decide +kernel
theorem minMax32 : ∀ sg : Bool, ∀ msb < 32, ∀ lsb ≤ msb, minMaxOk 32 sg lsb msb = true := by decide +kernel
theorem minMax64 : ∀ sg : Bool, ∀ msb < 64, ∀ lsb ≤ msb, minMaxOk 64 sg lsb msb = true := by decide +kernel

theorem minMax_all (hw : IsIntWidth w) (sg : Bool) (lsb msb : Nat) (h : lsb ≤ msb) (hm : msb < w) :
    BitVec.ofInt w (bfMin sg lsb msb) = minW sg w lsb msb ∧
    BitVec.ofInt w (bfMax sg lsb msb) = maxW sg w lsb msb := by
  have key : minMaxOk w sg lsb msb = true := by
    rcases hw with rfl | rfl | rfl | rfl
    · exact minMax8 sg msb hm lsb h
    · exact minMax16 sg msb hm lsb h
    · exact minMax32 sg msb hm lsb h
    · exact minMax64 sg msb hm lsb h
  simpa [minMaxOk] using key

/-! ### The model-level word theorem -/

theorem bf_word (hw : IsIntWidth w) (sg : Bool) (lsb msb : Nat) (h : lsb ≤ msb) (hm : msb < w)
    (mn mx : Int) (hmn : mn = bfMin sg lsb msb) (hmx : mx = bfMax sg lsb msb)
    (orig data : BitVec w) :
    bfMask sg w lsb msb = specMask w lsb msb ∧
    (bfOutOfRange sg data (BitVec.ofInt w mn) (BitVec.ofInt w mx) = false →
      ∃ d, bfMaskedInt sg w lsb msb mn mx data = .ok d ∧
        bfExtract sg w lsb msb (bfMerge sg w lsb msb orig d) = data ∧
        bfMerge sg w lsb msb orig d &&& ~~~(specMask w lsb msb) = orig &&& ~~~(specMask w lsb msb)) := by
  have hp := lt_pow w
  subst hmn hmx
  obtain ⟨hmin, hmax⟩ := minMax_all hw sg lsb msb h hm
  -- positions as words
  have hl : (BitVec.ofNat w lsb).toNat = lsb := by rw [BitVec.toNat_ofNat, Nat.mod_eq_of_lt (by omega)]
  have hmm : (BitVec.ofNat w msb).toNat = msb := by rw [BitVec.toNat_ofNat, Nat.mod_eq_of_lt (by omega)]
  generalize hlv : BitVec.ofNat w lsb = l at hl
  generalize hmv : BitVec.ofNat w msb = m at hmm
  subst hl hmm
  obtain ⟨hmask, hrt⟩ := word_all hw sg l m orig data h hm
  refine ⟨by rw [bridge_mask sg l m hm, bridge_spec l m h hm]; exact hmask, fun hin => ?_⟩
  have hd : bfMaskedInt sg w l.toNat m.toNat (bfMin sg l.toNat m.toNat) (bfMax sg l.toNat m.toNat) data =
      .ok ((data <<< l.toNat) &&& bfMask sg w l.toNat m.toNat) := by
    simp [bfMaskedInt, hin]
  have hin' : (if sg then data.slt (min' sg l m) || (max' sg l m).slt data
      else data.ult (min' sg l m) || (max' sg l m).ult data) = false := by
    rw [hmin, hmax, bridge_min sg l m h, bridge_max sg l m h hm] at hin
    simpa [bfOutOfRange] using hin
  refine ⟨_, hd, ?_, ?_⟩
  · rw [bridge_extract sg l m _ h hm, bfMerge, bridge_mask sg l m hm, ← BitVec.shiftLeft_eq']
    exact hrt hin'
  · rw [bfMerge, bridge_mask sg l m hm, bridge_spec l m h hm, hmask]
    ext i hi
    simp only [BitVec.getElem_and, BitVec.getElem_or, BitVec.getElem_not]
    cases (spec' l m)[i] <;> simp

/-! ### From words to bytes -/

theorem intWidth_bytes (hw : IsIntWidth w) : 8 * (w / 8) = w ∧ 0 < w / 8 := by
  rcases hw with rfl | rfl | rfl | rfl <;> decide

theorem writeWordFront_exact (e : Endian) (size x : Nat) (dst : Bytes) (h : dst.length = size) :
    writeWordFront e size x dst = wordBytes e size x := by
  have hl := wordBytes_length e size x
  simp only [writeWordFront]
  rw [List.take_of_length_le (by omega), List.drop_of_length_le (by omega), List.append_nil]

/-- reading back the bytes of a `w`-bit word -/
theorem readWord_word (hw : IsIntWidth w) (e : Endian) (x : BitVec w) :
    readWord e (w / 8) (wordBytes e (w / 8) x.toNat) = .ok x.toNat := by
  rw [readWord_wordBytes, pow256, (intWidth_bytes hw).1, Nat.mod_eq_of_lt x.isLt]


/-- The generated bit-field `write` followed by `read`, on the byte image. -/
theorem bf_mem (hw : IsIntWidth w) (e : Endian) (sg : Bool) (lsb msb : Nat) (h : lsb ≤ msb) (hm : msb < w)
    (mn mx : Int) (hmn : mn = bfMin sg lsb msb) (hmx : mx = bfMax sg lsb msb)
    (address : Nat) (ar : AccessRight) (memory : Bytes) (hin : address + w / 8 ≤ memory.length)
    (data : BitVec w)
    (hr : bfOutOfRange sg data (BitVec.ofInt w mn) (BitVec.ofInt w mx) = false) :
    let r := bfReg e sg w lsb msb mn mx address (w / 8) ar
    ∃ orig new : BitVec w, ∃ memory' : Bytes,
      readWord e (w / 8) ((memory.drop address).take (w / 8)) = .ok orig.toNat ∧
      new &&& ~~~(specMask w lsb msb) = orig &&& ~~~(specMask w lsb msb) ∧
      memory' = memory.take address ++ wordBytes e (w / 8) new.toNat ++ memory.drop (address + w / 8) ∧
      r.write data memory = .ok memory' ∧ r.read memory' = .ok data ∧
      memory'.length = memory.length ∧
      ∀ i, i < address ∨ address + w / 8 ≤ i → memory'[i]? = memory[i]? := by
  intro r
  have hb := intWidth_bytes hw
  have hcur : ((memory.drop address).take (w / 8)).length = w / 8 := by
    simp only [List.length_take, List.length_drop]; omega
  -- the old word
  obtain ⟨n, hn⟩ : ∃ n, readWord e (w / 8) ((memory.drop address).take (w / 8)) = .ok n := by
    simp only [readWord, hcur, Nat.lt_irrefl, if_false]; exact ⟨_, rfl⟩
  have hnlt : n < 2 ^ w := by
    simp only [readWord, hcur, Nat.lt_irrefl, if_false, Res.ok.injEq] at hn
    have hlen : (((memory.drop address).take (w / 8)).take (w / 8)).length = w / 8 := by
      rw [List.take_of_length_le (by omega)]; exact hcur
    have hpw : 2 ^ w = 256 ^ (w / 8) := by rw [pow256, hb.1]
    rw [hpw, ← hn]
    cases e
    · have := fromLE_lt (((memory.drop address).take (w / 8)).take (w / 8)); rwa [hlen] at this
    · have := fromLE_lt (((memory.drop address).take (w / 8)).take (w / 8)).reverse
      rw [List.length_reverse, hlen] at this; exact this
  have horig : (BitVec.ofNat w n).toNat = n := by rw [BitVec.toNat_ofNat, Nat.mod_eq_of_lt hnlt]
  obtain ⟨_, hok⟩ := bf_word hw sg lsb msb h hm mn mx hmn hmx (BitVec.ofNat w n) data
  obtain ⟨d, hd, hext, hiso⟩ := hok hr
  let new := bfMerge sg w lsb msb (BitVec.ofNat w n) d
  have hwl := wordBytes_length e (w / 8) new.toNat
  refine ⟨BitVec.ofNat w n, new, _, by rw [horig]; exact hn, hiso, rfl, ?_, ?_,
    spliced_length memory _ address (w / 8) hin hwl,
    fun i hi => spliced_outside memory _ address (w / 8) i hin hwl hi⟩
  · show bfWrite e sg w lsb msb mn mx address (w / 8) data memory = _
    simp only [bfWrite, hd, slice_ok memory (Nat.le_add_right _ _) hin, Nat.add_sub_cancel_left, hn,
      writeWordFront_exact e (w / 8) _ _ hcur]
    rfl
  · show Register.read r _ = _
    have hlen' := spliced_length memory (wordBytes e (w / 8) new.toNat) address (w / 8) hin hwl
    simp only [Register.read, Register.rangeEnd, r, bfReg]
    rw [slice_ok _ (Nat.le_add_right _ _) (by omega), Nat.add_sub_cancel_left,
      spliced_slice memory _ address (w / 8) hin hwl]
    simp only [bfParse, readWord_word hw e new, BitVec.ofNat_toNat, BitVec.setWidth_eq]
    exact congrArg Res.ok hext

/-- a value outside `[min, max]` is refused by `masked_int`, hence by `serialize` and `write`,
before the memory is even looked at. -/
theorem bf_refused (e : Endian) (sg : Bool) (lsb msb : Nat) (mn mx : Int) (address len : Nat)
    (ar : AccessRight) (memory : Bytes) (data : BitVec w)
    (hr : bfOutOfRange sg data (BitVec.ofInt w mn) (BitVec.ofInt w mx) = true) :
    let r := bfReg e sg w lsb msb mn mx address len ar
    r.write data memory = .err .invalidRegisterData ∧ r.serialize data = .err .invalidRegisterData := by
  intro r
  have : bfMaskedInt sg w lsb msb mn mx data = .err .invalidRegisterData := by simp [bfMaskedInt, hr]
  exact ⟨by show bfWrite .. = _; simp [bfWrite, this], by show bfSerialize .. = _; simp [bfSerialize, this]⟩

/-! ### The range `[min, max]` read as integers -/

/-- the range check of `masked_int`, read as integers -/
theorem oor_iff (hw : IsIntWidth w) (sg : Bool) (lsb msb : Nat) (h : lsb ≤ msb) (hm : msb < w) (mn mx : Int)
    (hmn : mn = bfMin sg lsb msb) (hmx : mx = bfMax sg lsb msb) (data : BitVec w) :
    bfOutOfRange sg data (BitVec.ofInt w mn) (BitVec.ofInt w mx) = false ↔
      (if sg then mn ≤ data.toInt ∧ data.toInt ≤ mx else (data.toNat : Int) ≤ mx) := by
  have h1 : mn = (if sg then -(2 : Int) ^ (msb - lsb) else 0) := by rw [hmn, bfMin]
  have h2 : mx = (if sg then (2 : Int) ^ (msb - lsb) - 1 else (2 : Int) ^ (msb - lsb + 1) - 1) := by
    rw [hmx, bfMax]
  clear hmn hmx
  have hpos : ∀ k : Nat, (0 : Int) < 2 ^ k := fun k => Int.pow_pos (by decide)
  have hw0 : 0 < w := by rcases hw with rfl | rfl | rfl | rfl <;> decide
  cases sg
  · simp only [Bool.false_eq_true, if_false] at h1 h2 ⊢
    subst h1
    have hle : (2 : Int) ^ (msb - lsb + 1) ≤ 2 ^ w := by
      exact_mod_cast Nat.pow_le_pow_right (by decide) (by omega)
    have hmxn : (BitVec.ofInt w mx).toNat = mx.toNat := by
      rw [BitVec.toNat_ofInt, Int.emod_eq_of_lt (by have := hpos (msb - lsb + 1); omega)
        (by push_cast; have := hpos (msb - lsb + 1); omega)]
    simp only [bfOutOfRange, Bool.false_eq_true, if_false, Bool.or_eq_false_iff]
    have hz : data.ult 0#w = false := by
      rw [← Bool.not_eq_true, BitVec.ult_iff_lt, BitVec.lt_def]; simp
    have : ((BitVec.ofInt w mx).ult data = false) ↔ (data.toNat : Int) ≤ mx := by
      rw [← Bool.not_eq_true, BitVec.ult_iff_lt, BitVec.lt_def, hmxn]
      have := hpos (msb - lsb + 1); omega
    simp [hz, this]
  · simp only [if_true] at h1 h2 ⊢
    have hle : (2 : Int) ^ (msb - lsb) ≤ 2 ^ (w - 1) := by
      exact_mod_cast Nat.pow_le_pow_right (by decide) (by omega)
    have hpw : (2 : Int) ^ w = 2 * 2 ^ (w - 1) := by
      have : w = (w - 1) + 1 := by omega
      conv => lhs; rw [this, Int.pow_succ]
      omega
    have hp1 := hpos (msb - lsb)
    have hcast : ((2 ^ w : Nat) : Int) = 2 ^ w := by push_cast; rfl
    have hmni : (BitVec.ofInt w mn).toInt = mn := by
      rw [BitVec.toInt_ofInt, Int.bmod_eq_of_le (by rw [hcast]; omega) (by rw [hcast]; omega)]
    have hmxi : (BitVec.ofInt w mx).toInt = mx := by
      rw [BitVec.toInt_ofInt, Int.bmod_eq_of_le (by rw [hcast]; omega) (by rw [hcast]; omega)]
    simp only [bfOutOfRange, if_true]
    rw [Bool.or_eq_false_iff, ← Bool.not_eq_true, ← Bool.not_eq_true, BitVec.slt_iff_toInt_lt,
      BitVec.slt_iff_toInt_lt, hmni, hmxi]
    omega

end CamVerif.Memory
