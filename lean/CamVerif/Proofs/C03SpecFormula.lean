/-
C03 helper lemmas: formula nodes (swiss knives, converters) against the reference
semantics — the formula environment, the variable accessors, and the induction over the
reference depth for EVERY graph (no `NoFormulaNodes` hypothesis).
-/
import CamVerif.Proofs.C03SpecMore
namespace CamVerif.C03
open CamVerif CamVerif.GenApi CamVerif.GenApiSem

variable {F E : Type} {cx : Ctx F E}

@[simp] theorem boolValued_eq (n : NodeId) : boolValued cx n = isBoolKind cx n := by
  unfold boolValued isBoolKind
  cases cx.graph n with
  | none => rfl
  | some nd => cases nd <;> rfl

/-- the extra interfaces formula variables draw on, one level down: exec ⇔ spec -/
structure XIH (cx : Ctx F E) (d : Nat) : Prop where
  bool : ∀ n (s : S F) v, R.val ((execRec cx d).boolValue n) s = .ok v ↔ (valSem cx d).bool n s = some v
  entry : ∀ n (s : S F) v, R.val ((execRec cx d).enumCurrentEntry n) s = .ok v ↔ (valSem cx d).entry n s = some v
  intMin : ∀ n (s : S F) v, R.val ((execRec cx d).intMin n) s = .ok v ↔ (valSem cx d).intMin n s = some v
  intMax : ∀ n (s : S F) v, R.val ((execRec cx d).intMax n) s = .ok v ↔ (valSem cx d).intMax n s = some v
  intInc : ∀ n (s : S F) v, R.val ((execRec cx d).intInc n) s = .ok v ↔ (valSem cx d).intInc n s = some v
  floatMin : ∀ n (s : S F) v, R.val ((execRec cx d).floatMin n) s = .ok v ↔ (valSem cx d).floatMin n s = some v
  floatMax : ∀ n (s : S F) v, R.val ((execRec cx d).floatMax n) s = .ok v ↔ (valSem cx d).floatMax n s = some v
  floatInc : ∀ n (s : S F) v, R.val ((execRec cx d).floatInc n) s = .ok v ↔ (valSem cx d).floatInc n s = some v

structure FullIH (cx : Ctx F E) (d : Nat) : Prop where
  val : ValIH cx d
  spec : SpecIH cx d
  x : XIH cx d

/-! ### generic shapes -/

theorem val_map_iff {α β : Type} {m : R F α} {o : Option α} (f : α → β) {s : S F}
    (h : ∀ a, R.val m s = .ok a ↔ o = some a) (b : β) :
    R.val (do let v ← m; pure (f v)) s = .ok b ↔ o.map f = some b := by
  simp only [R.val_bind, Option.map_eq_some_iff]
  constructor
  · intro hh
    obtain ⟨a, ha, hb⟩ := Res.bind_eq_ok hh
    simp at hb
    exact ⟨a, (h a).mp ha, hb⟩
  · rintro ⟨a, ha, rfl⟩
    simp [(h a).mpr ha]

theorem val_optmap_iff {α β : Type} {m : R F (Option α)} {o : Option (Option α)} (f : α → β) {s : S F}
    (h : ∀ a, R.val m s = .ok a ↔ o = some a) (b : β) :
    R.val (do
      let v ← m
      match v with
      | some i => pure (f i)
      | none => R.err .invalidNode) s = .ok b ↔ (o.bind fun x => x.map f) = some b := by
  simp only [R.val_bind, Option.bind_eq_some_iff, Option.map_eq_some_iff]
  constructor
  · intro hh
    obtain ⟨a, ha, hb⟩ := Res.bind_eq_ok hh
    cases a with
    | none => simp at hb
    | some i => simp at hb; exact ⟨some i, (h _).mp ha, i, rfl, hb⟩
  · rintro ⟨x, hx, i, rfl, rfl⟩
    simp [(h _).mpr hx]

theorem entryNumeric_iff (e : NodeId) (s : S F) (f : F) :
    R.val (entryNumeric cx e) s = .ok f ↔ entryNumericValue cx e = some f := by
  unfold entryNumeric entryNumericValue
  cases cx.graph e with
  | none => simp
  | some nd =>
    cases nd <;> simp only <;> try (simp; done)
    rename_i b v numeric sym
    cases numeric <;> simp [eq_comm]

/-! ### variables and environment -/

theorem exprFromNid_iff {d : Nat} (ih : FullIH cx d) (n : NodeId) (s : S F) (e : E) :
    R.val (exprFromNid cx (execRec cx d) n) s = .ok e ↔ exprOfNode cx (valSem cx d) n s = some e := by
  unfold exprFromNid exprOfNode
  simp only [intValued_eq, floatValued_eq, boolValued_eq, enumValued_eq]
  by_cases h1 : isIntKind cx n = true
  · simp only [h1, if_true]
    exact val_map_iff _ (fun a => ⟨ih.val.int n s a, ih.spec.int n s a⟩) e
  · by_cases h2 : isFloatKind cx n = true
    · simp only [h1, h2, if_true, Bool.false_eq_true, if_false]
      exact val_map_iff _ (fun a => ⟨ih.val.float n s a, ih.spec.float n s a⟩) e
    · by_cases h3 : isBoolKind cx n = true
      · simp only [h1, h2, h3, if_true, Bool.false_eq_true, if_false]
        exact val_map_iff (fun b : Bool => cx.ops.exprOfInt (if b then 1 else 0)) (ih.x.bool n s) e
      · by_cases h4 : isEnumKind cx n = true
        · simp only [h1, h2, h3, h4, if_true, Bool.false_eq_true, if_false, R.val_bind,
            Option.bind_eq_some_iff, Option.map_eq_some_iff]
          constructor
          · intro hh
            obtain ⟨en, hen, hh⟩ := Res.bind_eq_ok hh
            obtain ⟨f, hf, hh⟩ := Res.bind_eq_ok hh
            simp at hh
            exact ⟨en, (ih.x.entry n s en).mp hen, f, (entryNumeric_iff en s f).mp hf, hh⟩
          · rintro ⟨en, hen, f, hf, rfl⟩
            simp [(ih.x.entry n s en).mpr hen, (entryNumeric_iff en s f).mpr hf]
        · simp [h1, h2, h3, h4]

theorem varGetValue_iff {d : Nat} (ih : FullIH cx d) (k : VarKind) (n : NodeId) (s : S F) (e : E) :
    R.val (varGetValue cx (execRec cx d) k n) s = .ok e ↔ varExpr cx (valSem cx d) k n s = some e := by
  cases k with
  | value => exact exprFromNid_iff ih n s e
  | min =>
    simp only [varGetValue, varExpr, intValued_eq, floatValued_eq]
    by_cases h1 : isIntKind cx n = true
    · simp only [h1, if_true]; exact val_map_iff _ (ih.x.intMin n s) e
    · by_cases h2 : isFloatKind cx n = true
      · simp only [h1, h2, if_true, Bool.false_eq_true, if_false]; exact val_map_iff _ (ih.x.floatMin n s) e
      · simp [h1, h2]
  | max =>
    simp only [varGetValue, varExpr, intValued_eq, floatValued_eq]
    by_cases h1 : isIntKind cx n = true
    · simp only [h1, if_true]; exact val_map_iff _ (ih.x.intMax n s) e
    · by_cases h2 : isFloatKind cx n = true
      · simp only [h1, h2, if_true, Bool.false_eq_true, if_false]; exact val_map_iff _ (ih.x.floatMax n s) e
      · simp [h1, h2]
  | inc =>
    simp only [varGetValue, varExpr, intValued_eq, floatValued_eq]
    by_cases h1 : isIntKind cx n = true
    · simp only [h1, if_true]
      simp only [R.val_bind, Option.bind_eq_some_iff, Option.map_eq_some_iff]
      constructor
      · intro hh
        obtain ⟨a, ha, hb⟩ := Res.bind_eq_ok hh
        cases a with
        | none => simp at hb
        | some i => simp at hb; exact ⟨some i, (ih.x.intInc n s _).mp ha, i, rfl, hb⟩
      · rintro ⟨x, hx, i, rfl, rfl⟩
        simp [(ih.x.intInc n s _).mpr hx]
    · by_cases h2 : isFloatKind cx n = true
      · simp only [h1, h2, if_true, Bool.false_eq_true, if_false]
        simp only [R.val_bind, Option.bind_eq_some_iff, Option.map_eq_some_iff]
        constructor
        · intro hh
          obtain ⟨a, ha, hb⟩ := Res.bind_eq_ok hh
          cases a with
          | none => simp at hb
          | some i => simp at hb; exact ⟨some i, (ih.x.floatInc n s _).mp ha, i, rfl, hb⟩
        · rintro ⟨x, hx, i, rfl, rfl⟩
          simp [(ih.x.floatInc n s _).mpr hx]
      · simp [h1, h2]
  | enumEntry name =>
    simp only [varGetValue, varExpr]
    cases hg : cx.graph n with
    | none => simp
    | some nd =>
      cases nd <;> simp only <;> try (simp; done)
      rename_i b entries value
      simp only [entryValueNamed_eq, R.val_bind, R.val_ofRes, Option.map_eq_some_iff]
      cases hv : entryValueBySymbolic cx entries name with
      | ok o => cases o <;> simp [resOpt, eq_comm]
      | err x => simp [resOpt]
      | panic => simp [resOpt]

theorem collectVars_iff {d : Nat} (ih : FullIH cx d) (s : S F) :
    ∀ (vars : List (String × NodeId)) (env0 env : Env E),
      R.val (collectVars cx (execRec cx d) vars env0) s = .ok env ↔
        specVars cx (valSem cx d) vars env0 s = some env
  | [], env0, env => by simp [collectVars, specVars]
  | (name, n) :: vs, env0, env => by
    simp only [collectVars, specVars, R.val_bind, R.val_ofRes, Option.bind_eq_some_iff]
    constructor
    · intro h
      obtain ⟨k, hk, h⟩ := Res.bind_eq_ok h
      obtain ⟨e, he, h⟩ := Res.bind_eq_ok h
      exact ⟨k, resOpt_ok hk, e, (varGetValue_iff ih k n s e).mp he, (collectVars_iff ih s vs _ env).mp h⟩
    · rintro ⟨k, hk, e, he, h⟩
      simp [resOpt_some hk, (varGetValue_iff ih k n s e).mpr he, (collectVars_iff ih s vs _ env).mpr h]

theorem foldl_cons_eq' {α β : Type} (f : α → β) (l : List α) (init : List β) :
    l.foldl (fun env e => f e :: env) init = (l.map f).reverse ++ init := by
  induction l generalizing init with
  | nil => rfl
  | cons x xs ih => simp [ih]

theorem collectEnv_iff {d : Nat} (ih : FullIH cx d) (fm : Formulaic F E) (env0 env : Env E) (s : S F) :
    R.val (collectEnv cx (execRec cx d) fm env0) s = .ok env ↔ specEnv cx (valSem cx d) fm env0 s = some env := by
  simp only [collectEnv, specEnv, R.val_bind, Option.map_eq_some_iff]
  have hfold : ∀ env1 : Env E,
      fm.exprs.foldl (fun env e => (e.1, e.2) :: env)
        (fm.consts.foldl (fun env c => (c.1, numLitExpr cx c.2) :: env) env1) =
      fm.exprs.reverse ++ ((fm.consts.map fun c => (c.1, numLitExpr cx c.2)).reverse ++ env1) := by
    intro env1
    rw [foldl_cons_eq' (fun e : String × E => (e.1, e.2)), foldl_cons_eq']
    simp
  constructor
  · intro h
    obtain ⟨env1, h1, h⟩ := Res.bind_eq_ok h
    simp only [R.val_pure, Res.ok.injEq] at h
    exact ⟨env1, (collectVars_iff ih s _ _ _).mp h1, by rw [← h, hfold]⟩
  · rintro ⟨env1, h1, rfl⟩
    simp [(collectVars_iff ih s _ _ _).mpr h1, hfold]

theorem knife_iff {d : Nat} (ih : FullIH cx d) (fm : Formulaic F E) (formula : E) (s : S F) (r : EvalResult F) :
    R.val (swissKnifeEval cx (execRec cx d) fm formula) s = .ok r ↔
      knifeResult cx (valSem cx d) fm formula s = some r := by
  simp only [swissKnifeEval, knifeResult, R.val_bind, R.val_ofRes, Option.bind_eq_some_iff]
  constructor
  · intro h
    obtain ⟨env, he, h⟩ := Res.bind_eq_ok h
    exact ⟨env, (collectEnv_iff ih fm [] env s).mp he, resOpt_ok h⟩
  · rintro ⟨env, he, h⟩
    simp [(collectEnv_iff ih fm [] env s).mpr he, resOpt_some h]

theorem converter_iff {d : Nat} (ih : FullIH cx d) (fm : Formulaic F E) (formulaFrom : E) (pv : NodeId)
    (s : S F) (r : EvalResult F) :
    R.val (converterEvalFrom cx (execRec cx d) fm formulaFrom pv) s = .ok r ↔
      converterResult cx (valSem cx d) fm formulaFrom pv s = some r := by
  simp only [converterEvalFrom, converterResult, R.val_bind, R.val_ofRes, Option.bind_eq_some_iff]
  constructor
  · intro h
    obtain ⟨to, ht, h⟩ := Res.bind_eq_ok h
    obtain ⟨env, he, h⟩ := Res.bind_eq_ok h
    exact ⟨to, (exprFromNid_iff ih pv s to).mp ht, env, (collectEnv_iff ih fm _ env s).mp he, resOpt_ok h⟩
  · rintro ⟨to, ht, env, he, h⟩
    simp [(exprFromNid_iff ih pv s to).mpr ht, (collectEnv_iff ih fm _ env s).mpr he, resOpt_some h]

/-! ### one level up, every node kind -/

theorem intValue_step {d : Nat} (ih : FullIH cx d) (n : NodeId) (s : S F) (v : Int) :
    R.val (intValueF cx (execRec cx d) n) s = .ok v ↔ (valStep cx (valSem cx d)).int n s = some v := by
  by_cases hf : NoFormulaAt cx n
  · exact ⟨intValueF_spec ih.val hf, intValueF_exec ih.spec hf⟩
  · unfold NoFormulaAt at hf
    unfold intValueF
    simp only [valStep]
    cases hg : cx.graph n with
    | none => simp [hg] at hf
    | some nd =>
      cases nd <;> simp only [hg] at hf ⊢ <;> try (simp at hf; done)
      all_goals first
        | exact val_map_iff _ (converter_iff ih _ _ _ s) v
        | exact val_map_iff _ (knife_iff ih _ _ s) v
        | simp

theorem floatValue_step {d : Nat} (ih : FullIH cx d) (n : NodeId) (s : S F) (v : F) :
    R.val (floatValueF cx (execRec cx d) n) s = .ok v ↔ (valStep cx (valSem cx d)).float n s = some v := by
  by_cases hf : NoFormulaAt cx n
  · exact ⟨floatValueF_spec ih.val hf, floatValueF_exec ih.spec hf⟩
  · unfold NoFormulaAt at hf
    unfold floatValueF
    simp only [valStep]
    cases hg : cx.graph n with
    | none => simp [hg] at hf
    | some nd =>
      cases nd <;> simp only [hg] at hf ⊢ <;> try (simp at hf; done)
      all_goals first
        | exact val_map_iff _ (converter_iff ih _ _ _ s) v
        | exact val_map_iff _ (knife_iff ih _ _ s) v
        | simp

theorem intMin_step {d : Nat} (ih : FullIH cx d) (n : NodeId) (s : S F) (v : Int) :
    R.val (intMinF cx (execRec cx d) n) s = .ok v ↔ specIntMinP cx (valSem cx d) n s = some v := by
  by_cases hf : NoFormulaAt cx n
  · exact intMinF_iffI cx ih.val ih.spec n hf s v
  · unfold NoFormulaAt at hf
    unfold intMinF specIntMinP
    cases hg : cx.graph n with
    | none => simp [hg] at hf
    | some nd =>
      cases nd <;> simp only [hg] at hf ⊢ <;> try (simp at hf; done)
      all_goals first
        | exact val_map_iff _ (knife_iff ih _ _ s) v
        | simp [I64_MIN, eq_comm]

theorem intMax_step {d : Nat} (ih : FullIH cx d) (n : NodeId) (s : S F) (v : Int) :
    R.val (intMaxF cx (execRec cx d) n) s = .ok v ↔ specIntMaxP cx (valSem cx d) n s = some v := by
  by_cases hf : NoFormulaAt cx n
  · exact intMaxF_iffI cx ih.val ih.spec n hf s v
  · unfold NoFormulaAt at hf
    unfold intMaxF specIntMaxP
    cases hg : cx.graph n with
    | none => simp [hg] at hf
    | some nd =>
      cases nd <;> simp only [hg] at hf ⊢ <;> try (simp at hf; done)
      all_goals first
        | exact val_map_iff _ (knife_iff ih _ _ s) v
        | simp [I64_MAX, eq_comm]

theorem intInc_step {d : Nat} (ih : FullIH cx d) (n : NodeId) (s : S F) (v : Option Int) :
    R.val (intIncF cx (execRec cx d) n) s = .ok v ↔ specIntIncP cx (valSem cx d) n s = some v := by
  by_cases hf : NoFormulaAt cx n
  · exact intIncF_iffI cx ih.val ih.spec n hf s v
  · unfold NoFormulaAt at hf
    unfold intIncF specIntIncP
    cases hg : cx.graph n with
    | none => simp [hg] at hf
    | some nd =>
      cases nd <;> simp only [hg] at hf ⊢ <;> try (simp at hf; done)
      all_goals simp [eq_comm]

theorem floatMin_step {d : Nat} (ih : FullIH cx d) (n : NodeId) (s : S F) (v : F) :
    R.val (floatMinF cx (execRec cx d) n) s = .ok v ↔ specFloatMinP cx (valSem cx d) n s = some v := by
  by_cases hf : NoFormulaAt cx n
  · exact floatMinF_iffI cx ih.val ih.spec n hf s v
  · unfold NoFormulaAt at hf
    unfold floatMinF specFloatMinP
    cases hg : cx.graph n with
    | none => simp [hg] at hf
    | some nd =>
      cases nd <;> simp only [hg] at hf ⊢ <;> try (simp at hf; done)
      all_goals first
        | exact val_map_iff _ (knife_iff ih _ _ s) v
        | simp [eq_comm]

theorem floatMax_step {d : Nat} (ih : FullIH cx d) (n : NodeId) (s : S F) (v : F) :
    R.val (floatMaxF cx (execRec cx d) n) s = .ok v ↔ specFloatMaxP cx (valSem cx d) n s = some v := by
  by_cases hf : NoFormulaAt cx n
  · exact floatMaxF_iffI cx ih.val ih.spec n hf s v
  · unfold NoFormulaAt at hf
    unfold floatMaxF specFloatMaxP
    cases hg : cx.graph n with
    | none => simp [hg] at hf
    | some nd =>
      cases nd <;> simp only [hg] at hf ⊢ <;> try (simp at hf; done)
      all_goals first
        | exact val_map_iff _ (knife_iff ih _ _ s) v
        | simp [eq_comm]

theorem floatInc_step {d : Nat} (ih : FullIH cx d) (n : NodeId) (s : S F) (v : Option F) :
    R.val (floatIncF cx (execRec cx d) n) s = .ok v ↔ specFloatIncP cx (valSem cx d) n s = some v := by
  by_cases hf : NoFormulaAt cx n
  · exact floatIncF_iffI cx ih.val ih.spec n hf s v
  · unfold NoFormulaAt at hf
    unfold floatIncF specFloatIncP
    cases hg : cx.graph n with
    | none => simp [hg] at hf
    | some nd =>
      cases nd <;> simp only [hg] at hf ⊢ <;> try (simp at hf; done)
      all_goals simp [eq_comm]

/-- **the induction**: at every reference depth, for EVERY graph, the interpreter's
successful reads (values, boolean, current entry, limits) are exactly the reference ones -/
theorem fullIH (cx : Ctx F E) : ∀ d, FullIH cx d
  | 0 => by
    refine ⟨⟨?_, ?_, ?_, ?_⟩, ⟨?_, ?_, ?_, ?_⟩, ⟨?_, ?_, ?_, ?_, ?_, ?_, ?_, ?_⟩⟩ <;> intro n s v <;>
      simp [execRec, Rec.bottom, valSem, ValSem.none]
  | d + 1 => by
    have ih := fullIH cx d
    refine ⟨⟨?_, ?_, ?_, ?_⟩, ⟨?_, ?_, ?_, ?_⟩, ⟨?_, ?_, ?_, ?_, ?_, ?_, ?_, ?_⟩⟩ <;> intro n s v <;>
      simp only [execRec, step, valSem]
    · exact (intValue_step ih n s v).mp
    · exact (floatValue_step ih n s v).mp
    · exact strValueF_spec ih.val
    · exact enumCurrentValueF_spec ih.val
    · exact (intValue_step ih n s v).mpr
    · exact (floatValue_step ih n s v).mpr
    · exact strValueF_exec ih.spec
    · exact enumCurrentValueF_exec ih.spec
    · exact boolValueF_iffI ih.val ih.spec n s v
    · exact enumCurrentEntryF_iffI ih.val ih.spec n s v
    · exact intMin_step ih n s v
    · exact intMax_step ih n s v
    · exact intInc_step ih n s v
    · exact floatMin_step ih n s v
    · exact floatMax_step ih n s v
    · exact floatInc_step ih n s v

/-! ### converter writes, and the induction for writes on every graph -/

theorem setEvalResult_iff {d : Nat} (ihS : SetIH cx d) (p : NodeId) (r : EvalResult F) (s s' : S F) :
    M.eff (setEvalResult cx (execRec cx d) p r) s = (.ok (), s') ↔ setResult cx (setSem cx d) p r s = some s' := by
  unfold setEvalResult setResult
  simp only [intValued_eq, floatValued_eq, boolValued_eq, enumValued_eq]
  by_cases h1 : isIntKind cx p = true
  · simp only [h1, if_true]; exact ihS.int _ _ _ _
  · by_cases h2 : isFloatKind cx p = true
    · simp only [h1, h2, if_true, Bool.false_eq_true, if_false]; exact ihS.float _ _ _ _
    · by_cases h3 : isBoolKind cx p = true
      · simp only [h1, h2, h3, if_true, Bool.false_eq_true, if_false]; exact ihS.bool _ _ _ _
      · by_cases h4 : isEnumKind cx p = true
        · simp only [h1, h2, h3, h4, if_true, Bool.false_eq_true, if_false]; exact ihS.enum _ _ _ _
        · simp [h1, h2, h3, h4]

theorem converterSet_iff {d : Nat} (ih : FullIH cx d) (ihS : SetIH cx d) (fm : Formulaic F E) (formulaTo : E)
    (p : NodeId) (from_ : E) (s s' : S F) :
    M.eff (converterSet cx (execRec cx d) fm formulaTo p from_) s = (.ok (), s') ↔
      converterWrite cx (valSem cx d) (setSem cx d) fm formulaTo p from_ s = some s' := by
  simp only [converterSet, converterWrite, M.eff_bind_ok_iff, M.eff_ofR, M.eff_ofRes, Prod.mk.injEq,
    Option.bind_eq_some_iff]
  constructor
  · rintro ⟨env, s1, ⟨he, rfl⟩, r, s2, ⟨hr, rfl⟩, h⟩
    exact ⟨env, (collectEnv_iff ih fm _ env s).mp he, r, resOpt_ok hr, (setEvalResult_iff ihS p r s s').mp h⟩
  · rintro ⟨env, he, r, hr, h⟩
    exact ⟨env, s, ⟨(collectEnv_iff ih fm _ env s).mpr he, rfl⟩, r, s, ⟨resOpt_some hr, rfl⟩,
      (setEvalResult_iff ihS p r s s').mpr h⟩

theorem intSet_step {d : Nat} (ih : FullIH cx d) (ihS : SetIH cx d) (n : NodeId) (v : Int) (s s' : S F) :
    M.eff (intSetF cx (execRec cx d) n v) s = (.ok (), s') ↔
      (setStep cx (valSem cx d) (setSem cx d)).int n v s = some s' := by
  by_cases hf : NoFormulaAt cx n
  · exact intSetF_iff hf ih.val ih.spec ihS
  · unfold NoFormulaAt at hf
    unfold intSetF
    simp only [setStep]
    cases hg : cx.graph n with
    | none => simp [hg] at hf
    | some nd =>
      cases nd <;> simp only [hg] at hf ⊢ <;> try (simp at hf; done)
      all_goals first
        | exact converterSet_iff ih ihS _ _ _ _ s s'
        | simp

theorem floatSet_step {d : Nat} (ih : FullIH cx d) (ihS : SetIH cx d) (n : NodeId) (v : F) (s s' : S F) :
    M.eff (floatSetF cx (execRec cx d) n v) s = (.ok (), s') ↔
      (setStep cx (valSem cx d) (setSem cx d)).float n v s = some s' := by
  by_cases hf : NoFormulaAt cx n
  · exact floatSetF_iff hf ih.val ih.spec ihS
  · unfold NoFormulaAt at hf
    unfold floatSetF
    simp only [setStep]
    cases hg : cx.graph n with
    | none => simp [hg] at hf
    | some nd =>
      cases nd <;> simp only [hg] at hf ⊢ <;> try (simp at hf; done)
      all_goals first
        | exact converterSet_iff ih ihS _ _ _ _ s s'
        | simp

/-- successful writes at every depth, for EVERY graph, are the reference writes -/
theorem fullSetIH (cx : Ctx F E) : ∀ d, SetIH cx d
  | 0 => by
    constructor <;> intro n v s s' <;> simp [execRec, Rec.bottom, setSem, SetSem.none, M.eff, M.err]
  | d + 1 => by
    have ihS := fullSetIH cx d
    have ih := fullIH cx d
    constructor <;> intro n v s s' <;> simp only [execRec, step, setSem]
    · exact intSet_step ih ihS n v s s'
    · exact floatSet_step ih ihS n v s s'
    · exact strSetF_iff ih.val ih.spec ihS
    · exact enumSetByValueF_iff ihS
    · exact boolSetF_iffI ihS n v s s'

/-- the three inductions for every graph -/
theorem IHs.full (cx : Ctx F E) : IHs cx :=
  ⟨fun d => (fullIH cx d).val, fun d => (fullIH cx d).spec, fullSetIH cx⟩

end CamVerif.C03
