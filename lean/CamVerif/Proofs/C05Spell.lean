/-
Helper lemmas for C05 (parsing, general form): the parser reads EVERY spelling of a tree
(`Spec.Spells`: minimal or redundant parentheses, `NEG(x)`, unary plus, `PI`, `E`) back as
that tree.  Reuses the context / lifting machinery of `C05Parse`.
-/
import CamVerif.Proofs.C05Parse
set_option linter.unusedSectionVars false
namespace CamVerif.Formula.Proofs
open CamVerif CamVerif.Formula CamVerif.Formula.Spec

variable {F : Type} [FloatOps F]

/-- `ts` is read back as `e` at context `c`, whatever admissible input follows -/
def M1 (c : Nat) (e : Expr F) (ts : List (Tok F)) : Prop :=
  ∀ n, ts.length ≤ n → ∀ rest, Follow c rest → ctxP n c (ts ++ rest) = .ok (e, rest)

/-- `ts` is read as `e` by the row-`c` loop and the loop goes on (`k` = operators of the row on
the left spine of the spelling) -/
def M2 (c : Nat) (e : Expr F) (ts : List (Tok F)) : Prop :=
  ∃ k, k ≤ ts.length ∧ ∀ n, ts.length ≤ n → ∀ K rest, Follow (c + 1) rest →
    G (ctxP n (c + 1)) (ladder.getD (c - 1) []) (K + k) (ts ++ rest) =
      binLoop (ctxP n (c + 1)) (ladder.getD (c - 1) []) K e rest

def PS (ts : List (Tok F)) : Prop := ∀ rest, PrimaryStart (ts ++ rest)

def Motive (c : Nat) (e : Expr F) (ts : List (Tok F)) : Prop :=
  M1 c e ts ∧ (1 ≤ c → c ≤ 10 → M2 c e ts) ∧ (12 ≤ c → PS ts)

theorem m1_down {c c' : Nat} {e : Expr F} {ts : List (Tok F)} (h : M1 c e ts) (hcc : c' ≤ c)
    (hc : c ≤ 13) (hps : c' ≤ 11 → 12 ≤ c → PS ts) : M1 c' e ts := by
  intro n hn rest hf
  obtain ⟨k, hk⟩ : ∃ k, c = c' + k := ⟨c - c', by omega⟩
  by_cases hk0 : k = 0
  · subst hk0
    have : c = c' := by omega
    subst this
    exact h n hn rest hf
  · subst hk
    apply lift n k c' hc _ _ _ _ _ hf
    · exact h n hn rest (hf.mono (by omega) (by omega))
    · intro h1 h2; exact hps h1 h2 rest

theorem m2_of_m1 {c : Nat} {e : Expr F} {ts : List (Tok F)} (h : M1 (c + 1) e ts) : M2 c e ts :=
  ⟨0, Nat.zero_le _, fun n hn K rest hf => G_ok _ _ _ _ _ _ (h n hn rest hf)⟩

theorem m1_of_m2 {c : Nat} {e : Expr F} {ts : List (Tok F)} (h1 : 1 ≤ c) (h2 : c ≤ 10)
    (h : M2 c e ts) : M1 c e ts := by
  obtain ⟨k, hk, hch⟩ := h
  intro n hn rest hf
  rw [ctxP_ladder n c h1 h2, binLevel_eq]
  have hlen : (ts ++ rest).length + 1 = ((ts ++ rest).length - k) + 1 + k := by
    simp only [List.length_append]; omega
  rw [hlen, hch n hn _ rest (hf.mono (by omega) (by omega))]
  apply binLoop_stop
  have hlen' : c - 1 < ladder.length := by simp [ladder]; omega
  have hmem : ladder.getD (c - 1) [] ∈ ladder.drop (c - 1) := by
    have hg : ladder.getD (c - 1) [] = ladder[c - 1] := by simp [List.getD, hlen']
    rw [hg, List.drop_eq_getElem_cons hlen']
    exact List.mem_cons_self
  exact hf.2.2.1 (by omega) _ hmem

/-- from the natural context `p` of a spelling to every looser context -/
theorem fromNat {p : Nat} {e : Expr F} {ts : List (Tok F)} (hp : p ≤ 13) (hM1 : M1 p e ts)
    (hM2 : 1 ≤ p → p ≤ 10 → M2 p e ts) (hps : 12 ≤ p → PS ts) : ∀ c, c ≤ p → Motive c e ts := by
  intro c hc
  refine ⟨m1_down hM1 hc hp (fun _ h => hps h), fun h1 h2 => ?_, fun h => hps (by omega)⟩
  by_cases hcp : c = p
  · subst hcp; exact hM2 h1 h2
  · exact m2_of_m1 (m1_down hM1 (by omega) hp (fun _ h => hps h))

theorem m1_paren {e : Expr F} {ts : List (Tok F)} (h : M1 0 e ts) :
    M1 13 e (.sym .lparen :: (ts ++ [.sym .rparen])) := by
  intro n hn rest hf
  simp only [List.length_cons, List.length_append, List.length_nil] at hn
  obtain ⟨m, rfl⟩ : ∃ m, n = m + 1 := ⟨n - 1, by omega⟩
  have h0 := h m (by omega) (.sym .rparen :: rest) (follow_close 0 _ (Or.inl rfl) _)
  rw [ctxP_0] at h0
  rw [ctxP_13]
  simp only [List.cons_append, List.append_assoc, List.nil_append]
  simp [primaryBody, eat_hit, h0, expect]

theorem m1_func {s : String} {k : UnOpKind} {x : Expr F} {ts : List (Tok F)}
    (hfn : funcOf s = some k) (hpi : s ≠ "PI") (he : s ≠ "E") (h : M1 0 x ts) :
    M1 13 (.unOp k x) (.ident s :: .sym .lparen :: (ts ++ [.sym .rparen])) := by
  intro n hn rest hf
  simp only [List.length_cons, List.length_append, List.length_nil] at hn
  obtain ⟨m, rfl⟩ : ∃ m, n = m + 1 := ⟨n - 1, by omega⟩
  have h0 := h m (by omega) (.sym .rparen :: rest) (follow_close 0 _ (Or.inl rfl) _)
  rw [ctxP_0] at h0
  rw [ctxP_13]
  simp only [List.cons_append, List.append_assoc, List.nil_append]
  simp [primaryBody, eat, hpi, he, hfn, h0, expect]

theorem m1_prefix {k : UnOpKind} {s : Sym} {x : Expr F} {ts : List (Tok F)}
    (hk : (k = .neg ∧ s = .minus) ∨ (k = .not ∧ s = .tilde)) (h : M1 11 x ts) :
    M1 11 (.unOp k x) (.sym s :: ts) := by
  intro n hn rest hf
  simp only [List.length_cons] at hn
  obtain ⟨m, rfl⟩ : ∃ m, n = m + 1 := ⟨n - 1, by omega⟩
  have h0 := h m (by omega) rest hf
  rw [ctxP_11] at h0
  rw [ctxP_11, pUnop_succ]
  rcases hk with ⟨rfl, rfl⟩ | ⟨rfl, rfl⟩ <;> simp [unopBody, eat, h0]

theorem m1_plus {x : Expr F} {ts : List (Tok F)} (h : M1 11 x ts) : M1 11 x (.sym .plus :: ts) := by
  intro n hn rest hf
  simp only [List.length_cons] at hn
  obtain ⟨m, rfl⟩ : ∃ m, n = m + 1 := ⟨n - 1, by omega⟩
  have h0 := h m (by omega) rest hf
  rw [ctxP_11] at h0
  rw [ctxP_11, pUnop_succ]
  simp [unopBody, eat, h0]

theorem m1_pow {l r : Expr F} {tl tr : List (Tok F)} (hl : M1 13 l tl) (hr : M1 11 r tr) :
    M1 12 (.binOp .pow l r) (tl ++ .sym .doubleStar :: tr) := by
  intro n hn rest hf
  simp only [List.length_cons, List.length_append] at hn
  have hl' := hl n (by omega) (.sym .doubleStar :: (tr ++ rest)) (follow_13 _ (by decide) _)
  obtain ⟨m, rfl⟩ : ∃ m, n = m + 1 := ⟨n - 1, by omega⟩
  have hr' := hr m (by omega) rest (follow_11_of_12 hf)
  rw [ctxP_13] at hl'
  rw [ctxP_11] at hr'
  rw [ctxP_12]
  simp only [List.append_assoc, List.cons_append]
  simp [powBody, hl', eat_hit, hr']

theorem m1_ite {c t e : Expr F} {tc tt te : List (Tok F)} (hc : M1 1 c tc) (ht : M1 0 t tt)
    (he : M1 0 e te) :
    M1 0 (.ite c t e) (tc ++ .sym .question :: (tt ++ .sym .colon :: te)) := by
  intro n hn rest hf
  simp only [List.length_cons, List.length_append] at hn
  have hc1 := hc n (by omega) (.sym .question :: (tt ++ .sym .colon :: (te ++ rest)))
    (follow_question 1 (by omega) _)
  obtain ⟨m, rfl⟩ : ∃ m, n = m + 1 := ⟨n - 1, by omega⟩
  have ht1 := ht m (by omega) (.sym .colon :: (te ++ rest)) (follow_close 0 _ (Or.inr rfl) _)
  have he1 := he m (by omega) rest hf
  rw [ctxP_0] at ht1 he1
  have hc' : ladderP (unopBody (pUnop (m + 1)) (pExpr (m + 1))) ladder
      (tc ++ .sym .question :: (tt ++ .sym .colon :: (te ++ rest))) =
      .ok (c, .sym .question :: (tt ++ .sym .colon :: (te ++ rest))) := by
    have := hc1
    simp only [ctxP] at this
    rw [pUnop_succ] at this
    exact this
  rw [ctxP_0, pExpr_succ]
  simp only [List.append_assoc, List.cons_append]
  simp [exprBody, hc', eat_hit, ht1, he1, expect]

theorem m2_bin {op : BinOpKind} (hop : op ≠ .pow) {l r : Expr F} {tl tr : List (Tok F)}
    (hl : M2 (prec op) l tl) (hr : M1 (prec op + 1) r tr) :
    M2 (prec op) (.binOp op l r) (tl ++ .sym (symOf op) :: tr) := by
  obtain ⟨k, hk, hch⟩ := hl
  refine ⟨k + 1, by simp only [List.length_append, List.length_cons]; omega, ?_⟩
  intro n hn K rest hf
  simp only [List.length_cons, List.length_append] at hn
  rw [List.append_assoc, List.cons_append, ← Nat.add_assoc, Nat.add_right_comm K _ 1]
  rw [hch n (by omega) (K + 1) _ (follow_op op hop _)]
  rw [binLoop_step _ _ _ _ _ _ _ (eatRow_hit op hop _)]
  rw [hr n (by omega) rest hf]
  rfl

theorem functions_facts : ∀ nk ∈ Spec.functions,
    funcOf nk.1 = some nk.2 ∧ nk.1 ≠ "PI" ∧ nk.1 ≠ "E" := by decide

/-- **Main induction over spellings.** -/
theorem spells_motive {c : Nat} {e : Expr F} {ts : List (Tok F)} (h : Spells c e ts) :
    Motive c e ts := by
  induction h with
  | int c i hc =>
    refine fromNat (p := 13) (by omega) ?_ (fun _ h => by omega) (fun _ rest => by simp [PrimaryStart]) c hc
    intro n hn rest hf
    rw [ctxP_13]; simp [primaryBody, eat]
  | float c f hc =>
    refine fromNat (p := 13) (by omega) ?_ (fun _ h => by omega) (fun _ rest => by simp [PrimaryStart]) c hc
    intro n hn rest hf
    rw [ctxP_13]; simp [primaryBody, eat]
  | ident c s hc h1 h2 =>
    refine fromNat (p := 13) (by omega) ?_ (fun _ h => by omega) (fun _ rest => by simp [PrimaryStart]) c hc
    intro n hn rest hf
    rw [ctxP_13]
    have e1 : eat .lparen (.ident s :: rest) = .ok (false, .ident s :: rest) := rfl
    have e2 : eat .lparen rest = .ok (false, rest) := hf.1
    simp [primaryBody, e1, e2, h1, h2]
  | pi c hc =>
    refine fromNat (p := 13) (by omega) ?_ (fun _ h => by omega) (fun _ rest => by simp [PrimaryStart]) c hc
    intro n hn rest hf
    rw [ctxP_13]; simp [primaryBody, eat]
  | e c hc =>
    refine fromNat (p := 13) (by omega) ?_ (fun _ h => by omega) (fun _ rest => by simp [PrimaryStart]) c hc
    intro n hn rest hf
    rw [ctxP_13]; simp [primaryBody, eat]
  | paren c x ts hc _ ih =>
    exact fromNat (p := 13) (by omega) (m1_paren ih.1) (fun _ h => by omega)
      (fun _ rest => by simp [PrimaryStart]) c hc
  | func c s k x ts hc hs _ ih =>
    obtain ⟨hfn, hpi, he⟩ := functions_facts (s, k) hs
    exact fromNat (p := 13) (by omega) (m1_func hfn hpi he ih.1) (fun _ h => by omega)
      (fun _ rest => by simp [PrimaryStart]) c hc
  | neg c x ts hc _ ih =>
    exact fromNat (p := 11) (by omega) (m1_prefix (Or.inl ⟨rfl, rfl⟩) ih.1) (fun _ h => by omega)
      (fun h => by omega) c hc
  | not c x ts hc _ ih =>
    exact fromNat (p := 11) (by omega) (m1_prefix (Or.inr ⟨rfl, rfl⟩) ih.1) (fun _ h => by omega)
      (fun h => by omega) c hc
  | plus c x ts hc _ ih =>
    exact fromNat (p := 11) (by omega) (m1_plus ih.1) (fun _ h => by omega) (fun h => by omega) c hc
  | pow c l r tl tr hc _ _ ihl ihr =>
    refine fromNat (p := 12) (by omega) (m1_pow ihl.1 ihr.1) (fun _ h => by omega) ?_ c hc
    intro _ rest
    have := ihl.2.2 (by decide) (.sym .doubleStar :: (tr ++ rest))
    simpa [List.append_assoc] using this
  | bin c op l r tl tr hop hc _ _ ihl ihr =>
    obtain ⟨p1, p2⟩ := prec_range op hop
    have h2 := m2_bin hop (ihl.2.1 p1 p2) ihr.1
    exact fromNat (p := prec op) (by omega) (m1_of_m2 p1 p2 h2) (fun _ _ => h2) (fun h => by omega) c hc
  | ite cnd t e tc tt te _ _ _ ihc iht ihe =>
    exact fromNat (p := 0) (by omega) (m1_ite ihc.1 iht.1 ihe.1) (fun h => by omega)
      (fun h => by omega) 0 (Nat.le_refl _)

/-- The parser reads every spelling of a tree back as that tree. -/
theorem parseToks_spells {e : Expr F} {ts : List (Tok F)} (h : Spells 0 e ts) :
    parseToks ts = .ok e := by
  have h0 := (spells_motive h).1 ts.length (Nat.le_refl _) [] (follow_nil 0)
  rw [ctxP_0] at h0
  simp only [List.append_nil] at h0
  simp [parseToks, h0]

end CamVerif.Formula.Proofs
