/-
Helper lemmas for C05 (evaluation): the `BitVec 64` primitives of the model compute the
mathematical-integer definitions of `Spec.Formula` (wrap-around = `Int.bmod · 2^64`).
-/
import CamVerif.Model.Formula
import CamVerif.Spec.Formula
namespace CamVerif.Formula.Proofs
open CamVerif CamVerif.Formula CamVerif.Formula.Spec FloatOps

/-! ### integers -/

theorem wrap_toInt (x : BitVec 64) : wrap x.toInt = x.toInt := by
  unfold wrap
  rw [← BitVec.toInt_ofInt, BitVec.ofInt_toInt]

theorem residue_toInt (x : BitVec 64) : residue x.toInt = x.toNat := by
  unfold residue
  have h := x.isLt
  rw [BitVec.toInt_eq_toNat_cond]
  split <;> omega

theorem toInt_eq_zero_iff (x : BitVec 64) : x.toInt = 0 ↔ x = 0 := by
  rw [← BitVec.toInt_zero (w := 64)]
  exact BitVec.toInt_inj

theorem add_ok (x y : BitVec 64) : (x + y).toInt = wrap (x.toInt + y.toInt) := BitVec.toInt_add x y
theorem sub_ok (x y : BitVec 64) : (x - y).toInt = wrap (x.toInt - y.toInt) := BitVec.toInt_sub
theorem mul_ok (x y : BitVec 64) : (x * y).toInt = wrap (x.toInt * y.toInt) := BitVec.toInt_mul x y
theorem neg_ok (x : BitVec 64) : (-x).toInt = wrap (-x.toInt) := BitVec.toInt_neg

theorem srem_ok (x y : BitVec 64) : (x.srem y).toInt = wrap (Int.tmod x.toInt y.toInt) := by
  rw [← BitVec.toInt_srem, wrap_toInt]

theorem not_ok (x : BitVec 64) : (~~~x).toInt = -x.toInt - 1 := by
  have h := x.isLt
  rw [BitVec.toInt_eq_toNat_cond, BitVec.toInt_eq_toNat_cond, BitVec.toNat_not]
  split <;> split <;> omega

theorem abs_ok (x : BitVec 64) : x.abs.toInt = wrap (x.toInt.natAbs : Int) := by
  rw [BitVec.toInt_abs_eq_natAbs]
  split
  · next h => subst h; decide
  · next h =>
    have h1 : (x.toInt.natAbs : Int) = (BitVec.abs x).toInt := by
      rw [BitVec.toInt_abs_eq_natAbs, if_neg h]
    rw [h1, wrap_toInt, BitVec.toInt_abs_eq_natAbs, if_neg h]

theorem signum_ok (x : BitVec 64) : (signum x).toInt = x.toInt.sign := by
  unfold signum
  by_cases h0 : x = 0
  · subst h0; simp
  · rw [if_neg h0]
    have hne : x.toInt ≠ 0 := fun h => h0 ((toInt_eq_zero_iff x).mp h)
    have hz : (0 : BitVec 64).toInt = 0 := by decide
    rw [BitVec.slt_eq_decide, hz]
    by_cases hlt : x.toInt < 0
    · rw [if_pos (by simpa using hlt), Int.sign_eq_neg_one_of_neg hlt]; decide
    · rw [if_neg (by simpa using hlt), Int.sign_eq_one_of_pos (by omega)]; decide

theorem shiftAmount_ok (y : BitVec 64) : shiftAmount y = (y.toInt % 64).toNat := by
  unfold shiftAmount
  have h := y.isLt
  rw [BitVec.toInt_eq_toNat_cond]
  split <;> omega

theorem shl_ok (x : BitVec 64) (n : Nat) : (x <<< n).toInt = wrap (x.toInt * 2 ^ n) := by
  unfold wrap
  rw [BitVec.toInt_shiftLeft, Nat.shiftLeft_eq, BitVec.toInt_eq_toNat_bmod x, Int.bmod_mul_bmod]
  simp [Int.natCast_pow]

theorem shr_ok (x : BitVec 64) (n : Nat) : (x.sshiftRight n).toInt = x.toInt / 2 ^ n := by
  rw [BitVec.toInt_sshiftRight, Int.shiftRight_eq_div_pow]
  simp [Int.natCast_pow]

theorem and_ok (x y : BitVec 64) :
    (x &&& y).toInt = wrap ((residue x.toInt &&& residue y.toInt : Nat) : Int) := by
  rw [residue_toInt, residue_toInt]; exact BitVec.toInt_and x y
theorem or_ok (x y : BitVec 64) :
    (x ||| y).toInt = wrap ((residue x.toInt ||| residue y.toInt : Nat) : Int) := by
  rw [residue_toInt, residue_toInt]; exact BitVec.toInt_or x y
theorem xor_ok (x y : BitVec 64) :
    (x ^^^ y).toInt = wrap ((residue x.toInt ^^^ residue y.toInt : Nat) : Int) := by
  rw [residue_toInt, residue_toInt]; exact BitVec.toInt_xor x y

/-! ### square-and-multiply -/

theorem wrap_mul_left (a b : Int) : wrap (wrap a * b) = wrap (a * b) := Int.bmod_mul_bmod
theorem wrap_mul_right (a b : Int) : wrap (a * wrap b) = wrap (a * b) := Int.mul_bmod_bmod

theorem wrap_pow (b : Int) (n : Nat) : wrap (wrap b ^ n) = wrap (b ^ n) := by
  induction n with
  | zero => simp
  | succ n ih => rw [Int.pow_succ, Int.pow_succ, wrap_mul_right, ← wrap_mul_left, ih, wrap_mul_left]

theorem wrap_mul_pow (a b : Int) (n : Nat) : wrap (a * wrap b ^ n) = wrap (a * b ^ n) := by
  rw [← wrap_mul_right, wrap_pow, wrap_mul_right]

theorem pow_step (a : Int) (n : Nat) :
    a ^ n = (a * a) ^ (n / 2) * (if n % 2 = 1 then a else 1) := by
  have h2 : (a * a) ^ (n / 2) = a ^ (2 * (n / 2)) := by
    rw [Int.pow_mul, Int.pow_succ, Int.pow_succ, Int.pow_zero, Int.one_mul]
  rw [h2]
  split
  · next h =>
    have : n = 2 * (n / 2) + 1 := by omega
    conv => lhs; rw [this]
    rw [Int.pow_succ]
  · next h =>
    have : n = 2 * (n / 2) := by omega
    conv => lhs; rw [this]
    rw [Int.mul_one]

theorem powLoop_ok (k : Nat) (base exp acc : BitVec 64) (hk : exp.toNat < 2 ^ k) :
    (powLoop k base exp acc).toInt = wrap (acc.toInt * base.toInt ^ exp.toNat) := by
  induction k generalizing base exp acc with
  | zero =>
    have : exp.toNat = 0 := by omega
    simp [powLoop, this, wrap_toInt]
  | succ k ih =>
    unfold powLoop
    by_cases h0 : exp = 0
    · subst h0; simp [wrap_toInt]
    · rw [if_neg h0]
      have hn : exp.toNat ≠ 0 := fun h => h0 (BitVec.toNat_eq.mpr (by simpa using h))
      have hshift : (exp >>> 1).toNat = exp.toNat / 2 := by
        rw [BitVec.toNat_ushiftRight, Nat.shiftRight_eq_div_pow]
      have hbit : (exp &&& 1 = 1) ↔ exp.toNat % 2 = 1 := by
        rw [BitVec.toNat_eq]
        simp
      rw [ih _ _ _ (by rw [hshift]; omega), hshift, pow_step base.toInt exp.toNat, mul_ok]
      by_cases hb : exp.toNat % 2 = 1
      · rw [if_pos (hbit.mpr hb), if_pos hb, mul_ok, wrap_mul_pow, wrap_mul_left]
        congr 1
        rw [Int.mul_assoc, Int.mul_comm (base.toInt) _]
      · rw [if_neg (fun h => hb (hbit.mp h)), if_neg hb, Int.mul_one, wrap_mul_pow]

theorem wrappingPow_ok (base exp : BitVec 64) :
    (wrappingPow base exp).toInt = wrap (base.toInt ^ exp.toNat) := by
  unfold wrappingPow
  rw [powLoop_ok 64 base exp 1 exp.isLt]
  simp

theorem toNat_of_nonneg (y : BitVec 64) (h : ¬ y.toInt < 0) : y.toNat = y.toInt.toNat := by
  have hl := y.isLt
  rw [BitVec.toInt_eq_toNat_cond] at h ⊢
  split <;> omega

/-! ### values -/

variable {F : Type} [FloatOps F]

@[simp] theorem toSVal_int (i : BitVec 64) : toSVal (.int i : EvalResult F) = .int i.toInt := rfl
@[simp] theorem toSVal_float (f : F) : toSVal (.float f : EvalResult F) = .float f := rfl
@[simp] theorem toSVal_isInt (v : EvalResult F) : (toSVal v).isInt = v.isInteger := by
  cases v <;> rfl
@[simp] theorem toSVal_toF (v : EvalResult F) : (toSVal v).toF = v.asFloat := by
  cases v
  · simp [SVal.toF, EvalResult.asFloat, BitVec.ofInt_toInt]
  · rfl
@[simp] theorem toSVal_toI (v : EvalResult F) : (toSVal v).toI = v.asInteger.toInt := by
  cases v <;> rfl
@[simp] theorem toSVal_truthy (v : EvalResult F) : (toSVal v).truthy = v.asBool := by
  cases v with
  | int i =>
    simp only [toSVal_int, SVal.truthy, EvalResult.asBool]
    by_cases h : i = 0#64
    · subst h; simp
    · have : i.toInt ≠ 0 := fun h' => h ((toInt_eq_zero_iff i).mp h')
      simp [h, this]
  | float f => rfl
@[simp] theorem toSVal_ofBool (b : Bool) :
    toSVal (EvalResult.ofBool b : EvalResult F) = Spec.bool b := by
  cases b <;> simp [EvalResult.ofBool, Spec.bool]

theorem arith_ok (fi : BitVec 64 → BitVec 64 → BitVec 64) (gi : Int → Int → Int) (ff : F → F → F)
    (h : ∀ x y, (fi x y).toInt = wrap (gi x.toInt y.toInt)) (a b : EvalResult F) :
    toSVal (Formula.arith fi ff a b) = Spec.arith gi ff (toSVal a) (toSVal b) := by
  cases a <;> cases b <;>
    simp [Formula.arith, Spec.arith, EvalResult.isInteger, EvalResult.asInteger,
      EvalResult.asFloat, SVal.toF, h, BitVec.ofInt_toInt]

theorem cmp_ok (fi : BitVec 64 → BitVec 64 → Bool) (gi : Int → Int → Bool) (ff : F → F → Bool)
    (h : ∀ x y, fi x y = gi x.toInt y.toInt) (a b : EvalResult F) :
    toSVal (Formula.cmp fi ff a b) = Spec.compare gi ff (toSVal a) (toSVal b) := by
  cases a <;> cases b <;>
    simp [Formula.cmp, Spec.compare, EvalResult.isInteger, EvalResult.asInteger,
      EvalResult.asFloat, SVal.toF, h, BitVec.ofInt_toInt]

theorem beq_ok (x y : BitVec 64) : (x == y) = (x.toInt == y.toInt) := by
  by_cases h : x = y
  · subst h; simp
  · have : x.toInt ≠ y.toInt := BitVec.toInt_ne.mpr h
    rw [beq_eq_false_iff_ne.mpr h, beq_eq_false_iff_ne.mpr this]

theorem bne_ok (x y : BitVec 64) : (x != y) = (x.toInt != y.toInt) := by
  simp only [bne, beq_ok]

@[simp] theorem toSRes_ok (v : EvalResult F) : toSRes (.ok v) = some (.ok (toSVal v)) := rfl

/-- Every strict binary operator of the model computes the reference definition. -/
theorem evalBinStrict_ok (k : BinOpKind) (hand : k ≠ .and) (hor : k ≠ .or) (a b : EvalResult F) :
    toSRes (evalBinStrict k a b) = some (binStrict k (toSVal a) (toSVal b)) := by
  cases k with
  | and => exact absurd rfl hand
  | or => exact absurd rfl hor
  | add => simp only [evalBinStrict, binStrict, toSRes_ok]; rw [arith_ok _ (· + ·) _ add_ok]
  | sub => simp only [evalBinStrict, binStrict, toSRes_ok]; rw [arith_ok _ (· - ·) _ sub_ok]
  | mul => simp only [evalBinStrict, binStrict, toSRes_ok]; rw [arith_ok _ (· * ·) _ mul_ok]
  | div => simp [evalBinStrict, binStrict]
  | rem =>
    cases a with
    | int x =>
      cases b with
      | int y =>
        by_cases hy : y = 0
        · subst hy
          simp [evalBinStrict, binStrict, toSRes, EvalResult.isInteger, EvalResult.asInteger]
        · have hy' : y.toInt ≠ 0 := fun h => hy ((toInt_eq_zero_iff y).mp h)
          have hb : (y == 0) = false := beq_eq_false_iff_ne.mpr hy
          simp only [evalBinStrict, EvalResult.isInteger, EvalResult.asInteger, Bool.and_self,
            Bool.true_and, hb, Bool.false_eq_true, if_false, toSRes_ok, binStrict]
          rw [arith_ok _ Int.tmod _ srem_ok]
          simp only [toSVal_int]
          split
          · next h => simp only [SVal.int.injEq] at h; omega
          · rfl
      | float g =>
        simp only [evalBinStrict, EvalResult.isInteger, Bool.and_false, Bool.false_and,
          Bool.false_eq_true, if_false, toSRes_ok, binStrict]
        rw [arith_ok _ Int.tmod _ srem_ok]; rfl
    | float f =>
      simp only [evalBinStrict, EvalResult.isInteger, Bool.false_and, Bool.false_eq_true, if_false,
        toSRes_ok, binStrict]
      rw [arith_ok _ Int.tmod _ srem_ok]
      cases b <;> rfl
  | pow =>
    cases a with
    | int x =>
      cases b with
      | int y =>
        have hz : (0 : BitVec 64).toInt = 0 := by decide
        simp only [evalBinStrict, EvalResult.isInteger, EvalResult.asInteger, Bool.and_self,
          Bool.true_and, binStrict, toSVal_int, BitVec.slt_eq_decide, hz]
        by_cases hy : y.toInt < 0
        · have : ¬ (0 ≤ y.toInt) := by omega
          simp [hy, this, SVal.toF, EvalResult.asFloat, BitVec.ofInt_toInt]
        · have : 0 ≤ y.toInt := by omega
          simp [hy, this, wrappingPow_ok, toNat_of_nonneg y hy]
      | float g =>
        simp [evalBinStrict, EvalResult.isInteger, binStrict, SVal.toF,
          EvalResult.asFloat, BitVec.ofInt_toInt]
    | float f =>
      cases b <;>
        simp [evalBinStrict, EvalResult.isInteger, binStrict, SVal.toF,
          EvalResult.asFloat, BitVec.ofInt_toInt]
  | eq => simp only [evalBinStrict, binStrict, toSRes_ok]; rw [cmp_ok _ (· == ·) _ beq_ok]
  | ne => simp only [evalBinStrict, binStrict, toSRes_ok]; rw [cmp_ok _ (· != ·) _ bne_ok]
  | lt =>
    simp only [evalBinStrict, binStrict, toSRes_ok]
    rw [cmp_ok _ (fun x y => decide (x < y)) _ (fun x y => BitVec.slt_eq_decide)]
  | le =>
    simp only [evalBinStrict, binStrict, toSRes_ok]
    rw [cmp_ok _ (fun x y => decide (x ≤ y)) _ (fun x y => BitVec.sle_eq_decide)]
  | gt =>
    simp only [evalBinStrict, binStrict, toSRes_ok]
    rw [cmp_ok _ (fun x y => decide (x > y)) _ (fun x y => BitVec.slt_eq_decide)]
  | ge =>
    simp only [evalBinStrict, binStrict, toSRes_ok]
    rw [cmp_ok _ (fun x y => decide (x ≥ y)) _ (fun x y => BitVec.sle_eq_decide)]
  | shl =>
    simp only [evalBinStrict, binStrict, toSRes_ok, toSVal_int, toSVal_toI, shl_ok, shiftAmount_ok]
  | shr =>
    simp only [evalBinStrict, binStrict, toSRes_ok, toSVal_int, toSVal_toI, shr_ok, shiftAmount_ok]
  | bitAnd => simp only [evalBinStrict, binStrict, toSRes_ok, toSVal_int, bitwise, toSVal_toI, and_ok]
  | bitOr => simp only [evalBinStrict, binStrict, toSRes_ok, toSVal_int, bitwise, toSVal_toI, or_ok]
  | xor => simp only [evalBinStrict, binStrict, toSRes_ok, toSVal_int, bitwise, toSVal_toI, xor_ok]

/-- Every unary operator / function of the model computes the reference definition. -/
theorem evalUn_ok (k : UnOpKind) (v : EvalResult F) : toSVal (evalUn k v) = un k (toSVal v) := by
  cases k <;> cases v <;>
    simp only [evalUn, un, toSVal_int, toSVal_float, SVal.toF, SVal.toI,
      EvalResult.asFloat, EvalResult.asInteger, BitVec.ofInt_toInt, not_ok, abs_ok, signum_ok,
      neg_ok, floatSgn, fsgn]

end CamVerif.Formula.Proofs
