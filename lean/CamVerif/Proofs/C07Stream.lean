/-
`disable_streaming` against an arbitrary transport: never panics (C07).  The function is the
cached register-map lookups (`abrm`, SBRM address, U3VCP capability, SIRM address: each a
`read`) plus one 4-byte `write`, glued by checked address arithmetic.
-/
import CamVerif.Model.ControlStream
import CamVerif.Proofs.C07
namespace CamVerif.C07
open CamVerif CamVerif.Control

variable {σ : Type} {dev : Dev σ}

/-- what the lookups preserve of the handle -/
structure Keeps (s s' : St σ) : Prop where
  id16 : s.h.nextReqId < 2 ^ 16 → s'.h.nextReqId < 2 ^ 16
  u32 : s.h.cfg.maxCmd < 2 ^ 32 → s'.h.cfg.maxCmd < 2 ^ 32

theorem Keeps.refl (s : St σ) : Keeps s s := ⟨id, id⟩
theorem Keeps.of_weak {α : Type} {s s' : St σ} {r : R α} (h : WeakInv s s' r) : Keeps s s' :=
  ⟨h.id16, h.u32⟩
theorem Keeps.trans {s s1 s2 : St σ} (h1 : Keeps s s1) (h2 : Keeps s1 s2) : Keeps s s2 :=
  ⟨fun h => h2.id16 (h1.id16 h), fun h => h2.u32 (h1.u32 h)⟩

theorem sbrmOf_inv (hh : Honest dev) (p : Profile) (s : St σ) (c : Caches) :
    (sbrmOf dev p s c).2.2 ≠ .panic ∧ Keeps s (sbrmOf dev p s c).1 := by
  unfold sbrmOf
  cases hc : c.sbrm with
  | some v => exact ⟨by simp, Keeps.refl _⟩
  | none =>
    simp only
    have h1 := abrm_inv hh p s
    rcases e1 : abrm dev p s with ⟨s1, r1⟩
    rw [e1] at h1; simp only at h1
    rcases r1 with v1 | e | _
    · simp only
      have h2 := readReg_inv hh p s1 ABRM_SBRM_ADDRESS.1 ABRM_SBRM_ADDRESS.2 (by decide)
      rcases e2 : readReg dev p s1 ABRM_SBRM_ADDRESS.1 ABRM_SBRM_ADDRESS.2 with ⟨s2, r2⟩
      rw [e2] at h2; simp only at h2
      rcases r2 with addr | e | _
      · simp only
        have h3 := readSbrmReg_inv hh p s2 addr SBRM_U3VCP_CAPABILITY_REGISTER (by decide)
        rcases e3 : readSbrmReg dev p s2 addr SBRM_U3VCP_CAPABILITY_REGISTER with ⟨s3, r3⟩
        rw [e3] at h3; simp only at h3
        have hk := ((Keeps.of_weak h1).trans (Keeps.of_weak h2)).trans (Keeps.of_weak h3)
        rcases r3 with cap | e | _
        · exact ⟨by simp, hk⟩
        · exact ⟨by simp, hk⟩
        · exact absurd rfl h3.no_panic
      · exact ⟨by simp, (Keeps.of_weak h1).trans (Keeps.of_weak h2)⟩
      · exact absurd rfl h2.no_panic
    · exact ⟨by simp, Keeps.of_weak h1⟩
    · exact absurd rfl h1.no_panic

theorem sirmOf_inv (hh : Honest dev) (p : Profile) (s : St σ) (c : Caches) :
    (sirmOf dev p s c).2.2 ≠ .panic ∧ Keeps s (sirmOf dev p s c).1 := by
  unfold sirmOf
  cases hc : c.sirm with
  | some v => exact ⟨by simp, Keeps.refl _⟩
  | none =>
    simp only
    obtain ⟨h1, k1⟩ := sbrmOf_inv hh p s c
    rcases e1 : sbrmOf dev p s c with ⟨s1, c1, r1⟩
    rw [e1] at h1 k1; simp only at h1 k1
    rcases r1 with ⟨addr, cap⟩ | e | _
    · simp only
      by_cases hb : cap % 2 = 1
      · simp only [if_pos hb]
        have h2 := readSbrmReg_inv hh p s1 addr SBRM_SIRM_ADDRESS (by decide)
        rcases e2 : readSbrmReg dev p s1 addr SBRM_SIRM_ADDRESS with ⟨s2, r2⟩
        rw [e2] at h2; simp only at h2
        rcases r2 with a | e | _
        · exact ⟨by simp, k1.trans (Keeps.of_weak h2)⟩
        · exact ⟨by simp, k1.trans (Keeps.of_weak h2)⟩
        · exact absurd rfl h2.no_panic
      · simp only [if_neg hb]
        exact ⟨by simp, k1⟩
    · exact ⟨by simp, k1⟩
    · exact absurd rfl h1

/-- `disable_streaming` never panics, whatever the device answers. -/
theorem disableStreaming_inv (hh : Honest dev) (p : Profile) (s : St σ) (c : Caches)
    (hid : s.h.nextReqId < 2 ^ 16) (hu32 : s.h.cfg.maxCmd < 2 ^ 32) :
    (disableStreaming dev p s c).2.2 ≠ .panic := by
  unfold disableStreaming
  obtain ⟨h1, k1⟩ := sirmOf_inv hh p s c
  rcases e1 : sirmOf dev p s c with ⟨s1, c1, r1⟩
  rw [e1] at h1 k1; simp only at h1 k1
  rcases r1 with sirm | e | _
  · simp only
    unfold registerAddress
    by_cases hb : sirm + SIRM_SI_CONTROL.1 < 2 ^ 64
    · simp only [if_pos hb]
      exact (write_inv hh p s1 _ _ (by simp [SIRM_SI_CONTROL]) (k1.u32 hu32) (k1.id16 hid)).1.no_panic
    · simp only [if_neg hb]
      simp
  · simp
  · exact absurd rfl h1

end CamVerif.C07
