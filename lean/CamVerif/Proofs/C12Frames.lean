/-
C12 helper lemmas about a list cut into blocks of equal length `T` (the device's script under
conforming framing): a position holding a "block head" element is a block boundary, and the `T`
elements from a block boundary are that block.
-/
import CamVerif.Prelude.Basic
namespace CamVerif.StreamLoop

variable {α : Type}

/-- If only position 0 of a block can satisfy `p`, an element of the flattened list satisfying
`p` sits at a block boundary. -/
theorem boundary_of_head (T : Nat) (p : α → Prop) :
    ∀ (L : List (List α)), (∀ f ∈ L, f.length = T) →
      (∀ f ∈ L, ∀ i (h : i < f.length), p f[i] → i = 0) →
      ∀ (start : Nat) (x : α), L.flatten[start]? = some x → p x →
        ∃ q, start = q * T ∧ q < L.length := by
  intro L
  induction L with
  | nil => intro _ _ start x h; simp at h
  | cons f L ih =>
    intro hlen hp start x hx hpx
    have hfl : f.length = T := hlen f (by simp)
    simp only [List.flatten_cons] at hx
    by_cases hlt : start < f.length
    · rw [List.getElem?_append_left hlt] at hx
      have hget : f[start] = x := by
        have := List.getElem?_eq_getElem hlt
        rw [this] at hx; exact Option.some.inj hx
      have := hp f (by simp) start hlt (by rw [hget]; exact hpx)
      exact ⟨0, by omega, by simp⟩
    · rw [List.getElem?_append_right (by omega)] at hx
      obtain ⟨q, hq, hql⟩ := ih (fun g hg => hlen g (List.mem_cons_of_mem _ hg))
        (fun g hg => hp g (List.mem_cons_of_mem _ hg)) (start - f.length) x hx hpx
      refine ⟨q + 1, ?_, by simp; omega⟩
      rw [Nat.add_mul, Nat.one_mul]; omega

/-- The `T` elements starting at the `q`-th block boundary are the `q`-th block. -/
theorem block_at (T : Nat) :
    ∀ (L : List (List α)), (∀ f ∈ L, f.length = T) → ∀ (q : Nat) (h : q < L.length),
      (L.flatten.drop (q * T)).take T = L[q] := by
  intro L
  induction L with
  | nil => intro _ q h; simp at h
  | cons f L ih =>
    intro hlen q h
    have hfl : f.length = T := hlen f (by simp)
    cases q with
    | zero =>
      simp only [Nat.zero_mul, List.drop_zero, List.flatten_cons, List.getElem_cons_zero]
      exact List.take_left' hfl
    | succ q =>
      simp only [List.flatten_cons, List.getElem_cons_succ]
      have : (q + 1) * T = f.length + q * T := by rw [Nat.add_mul, Nat.one_mul, hfl]; omega
      rw [this, List.drop_append]
      rw [List.drop_of_length_le (by omega : f.length ≤ f.length + q * T), Nat.add_sub_cancel_left,
        List.nil_append]
      exact ih (fun g hg => hlen g (List.mem_cons_of_mem _ hg)) q (by simpa using h)

end CamVerif.StreamLoop
