/-
C10 — tie G for function bodies, part 2: the read-chunk iterator.

`CamVerif/Gen/FnCmd.lean` is re-emitted by `rs2lean` from the CURRENT text of
`device/src/u3v/protocol/cmd.rs` on every check run.  Besides the length arithmetic tied in
`Proofs/C10GenTie.lean` it now contains

* `ReadMem::chunks`                      (`ReadMem.chunks`: the up-front budget check), and
* `<ReadMemChunks as Iterator>::next`    (`ReadMemChunks.next`: a state-passing step function —
  the translator turns the `&mut self` assignments `self.f = e`, `self.f -= e`, `self.f += e`
  into functional updates and returns `(item, self')`),

over the translated structs `ReadMem {address: u64, read_length: u16}` and
`ReadMemChunks {address: u64, read_length: u16, maximum_read_length: usize}`.

This file proves that both agree, for every input / state and both build profiles, with
`Cmd.ReadMem.chunks` and `Cmd.ReadMemChunks.next` of the hand-written model
(`CamVerif/Model/Cmd.lean`, `Nat` carriers) — the functions all C10 theorems are about.  The
machine structs are read through `absRM` / `absCh` (field-wise `BitVec.toNat`).

Method (as in `C10GenTie.lean`), in two steps so that the part which looks at the generated code is
shape-insensitive:
1. `*_bv`: the generated function equals a closed bit-vector form.  Both sides are reduced to their
   observations (outcome tag + every field of the value) and compared by `bv_decide`; any
   behaviour-preserving rewrite of the Rust body re-proves.
2. the closed form, read through `toNat`, is the model's function (never sees generated code).
-/
import CamVerif.Gen.FnCmd
import CamVerif.Model.Cmd
import CamVerif.Proofs.C10GenTie
import Std.Tactic.BVDecide
set_option linter.unusedSimpArgs false
namespace CamVerif.Proofs.C10GenTie2
open CamVerif CamVerif.Cmd
open CamVerif.Proofs.C10GenTie (errs errCode ec_invalidPacket)

/-- the translated `struct ReadMem` -/
abbrev GReadMem := CamVerif.Gen.FnCmd.ReadMem
/-- the translated `struct ReadMemChunks` -/
abbrev GChunks := CamVerif.Gen.FnCmd.ReadMemChunks

/-! ## reading machine structs as model structs -/

def absRM (r : GReadMem) : Cmd.ReadMem := ⟨r.address.toNat, r.read_length.toNat⟩

def absCh (s : GChunks) : Cmd.ReadMemChunks :=
  ⟨s.address.toNat, s.read_length.toNat, s.maximum_read_length.toNat⟩

def absStep (x : Option GReadMem × GChunks) : Option Cmd.ReadMem × Cmd.ReadMemChunks :=
  (x.1.map absRM, absCh x.2)

/-- the machine representation of a model command / iterator state -/
def repRM (r : Cmd.ReadMem) : GReadMem := ⟨BitVec.ofNat 64 r.address, BitVec.ofNat 16 r.readLength⟩

def repCh (s : Cmd.ReadMemChunks) : GChunks :=
  ⟨BitVec.ofNat 64 s.address, BitVec.ofNat 16 s.readLength, BitVec.ofNat 64 s.maximumReadLength⟩

/-- a model `ReadMem` whose fields are machine integers -/
def RMInRange (r : Cmd.ReadMem) : Prop := r.address < 2 ^ 64 ∧ r.readLength < 2 ^ 16
/-- a model iterator state whose fields are machine integers -/
def ChInRange (s : Cmd.ReadMemChunks) : Prop :=
  s.address < 2 ^ 64 ∧ s.readLength < 2 ^ 16 ∧ s.maximumReadLength < 2 ^ 64

theorem abs_repRM (r : Cmd.ReadMem) (h : RMInRange r) : absRM (repRM r) = r := by
  obtain ⟨a, l⟩ := r
  obtain ⟨h1, h2⟩ := h
  simp only [absRM, repRM, BitVec.toNat_ofNat] at *
  rw [Nat.mod_eq_of_lt h1, Nat.mod_eq_of_lt h2]

theorem abs_repCh (s : Cmd.ReadMemChunks) (h : ChInRange s) : absCh (repCh s) = s := by
  obtain ⟨a, l, m⟩ := s
  obtain ⟨h1, h2, h3⟩ := h
  simp only [absCh, repCh, BitVec.toNat_ofNat] at *
  rw [Nat.mod_eq_of_lt h1, Nat.mod_eq_of_lt h2, Nat.mod_eq_of_lt h3]

/-! ## observations of struct-valued results (what `bv_decide` compares) -/

def dRM : GReadMem := ⟨0#64, 0#16⟩
def dCh : GChunks := ⟨0#64, 0#16, 0#64⟩
def dStep : Option GReadMem × GChunks := (none, dCh)

def obsCh (r : Res Err GChunks) : BitVec 8 × BitVec 64 × BitVec 16 × BitVec 64 :=
  (r.tag errCode.ec, (r.val dCh).address, (r.val dCh).read_length, (r.val dCh).maximum_read_length)

def obsStep (r : Res Err (Option GReadMem × GChunks)) :
    BitVec 8 × Bool × BitVec 64 × BitVec 16 × BitVec 64 × BitVec 16 × BitVec 64 :=
  (r.tag errCode.ec, (r.val dStep).1.isSome, ((r.val dStep).1.getD dRM).address,
    ((r.val dStep).1.getD dRM).read_length, (r.val dStep).2.address, (r.val dStep).2.read_length,
    (r.val dStep).2.maximum_read_length)

theorem obsCh_inj (x y : Res Err GChunks) (h : obsCh x = obsCh y) : x = y := by
  simp only [obsCh, Prod.mk.injEq] at h
  obtain ⟨ht, h1, h2, h3⟩ := h
  apply Res.ext_obs errCode dCh
  refine ⟨ht, fun _ => ?_⟩
  cases hx : x.val dCh
  cases hy : y.val dCh
  simp_all

theorem obsStep_inj (x y : Res Err (Option GReadMem × GChunks)) (h : obsStep x = obsStep y) : x = y := by
  simp only [obsStep, Prod.mk.injEq] at h
  obtain ⟨ht, h0, h1, h2, h3, h4, h5⟩ := h
  apply Res.ext_obs errCode dStep
  refine ⟨ht, fun _ => ?_⟩
  rcases hx : x.val dStep with ⟨ox, sx⟩
  rcases hy : y.val dStep with ⟨oy, sy⟩
  rw [hx] at h0 h1 h2 h3 h4 h5
  rw [hy] at h0 h1 h2 h3 h4 h5
  cases sx; cases sy
  cases ox with
  | none =>
    cases oy with
    | none => simp_all
    | some b => simp at h0
  | some a =>
    cases oy with
    | none => simp at h0
    | some b => cases a; cases b; simp_all

/-! pushing projections through `if` -/
theorem fst_ite {α β : Type} (c : Prop) [Decidable c] (x y : α × β) :
    (if c then x else y).1 = if c then x.1 else y.1 := by split <;> rfl
theorem snd_ite {α β : Type} (c : Prop) [Decidable c] (x y : α × β) :
    (if c then x else y).2 = if c then x.2 else y.2 := by split <;> rfl
theorem isSome_ite {α : Type} (c : Prop) [Decidable c] (x y : Option α) :
    (if c then x else y).isSome = if c then x.isSome else y.isSome := by split <;> rfl
theorem getD_ite {α : Type} (c : Prop) [Decidable c] (x y : Option α) (d : α) :
    (if c then x else y).getD d = if c then x.getD d else y.getD d := by split <;> rfl
theorem rm_address_ite (c : Prop) [Decidable c] (x y : GReadMem) :
    (if c then x else y).address = if c then x.address else y.address := by split <;> rfl
theorem rm_read_length_ite (c : Prop) [Decidable c] (x y : GReadMem) :
    (if c then x else y).read_length = if c then x.read_length else y.read_length := by split <;> rfl
theorem ch_address_ite (c : Prop) [Decidable c] (x y : GChunks) :
    (if c then x else y).address = if c then x.address else y.address := by split <;> rfl
theorem ch_read_length_ite (c : Prop) [Decidable c] (x y : GChunks) :
    (if c then x else y).read_length = if c then x.read_length else y.read_length := by split <;> rfl
theorem ch_maximum_read_length_ite (c : Prop) [Decidable c] (x y : GChunks) :
    (if c then x else y).maximum_read_length = if c then x.maximum_read_length else y.maximum_read_length := by
  split <;> rfl

/-- the whitelisted constant, as a NON-`rfl` rewrite rule (a `rfl` rule used inside an `if`
condition would leave the `Decidable` instance behind and block `tag_ite`/`val_ite`) -/
theorem ack_header_length_eq : CamVerif.Gen.FnCmd.CommandPacket.ACK_HEADER_LENGTH = 12#64 := by decide

instance : Inhabited GReadMem := ⟨dRM⟩
instance : Inhabited GChunks := ⟨dCh⟩

local macro "obs" "[" ds:Lean.Parser.Tactic.simpLemma,* "]" : tactic =>
  `(tactic| simp only [$ds,*,
    ack_header_length_eq, CamVerif.Gen.FnCmd.CommandPacket.header_len,
    Machine.getD_tryIntoUU, Machine.okOr_tryIntoUU, Machine.unwrapOpt_tryIntoUU, Machine.fitsUU_def,
    Machine.satSubU_def, Machine.satAddU_def, Machine.minU_def, Machine.maxU_def, Machine.castU_def,
    Machine.getD_checkedSubU, Machine.getD_checkedAddU, Machine.getD_checkedMulU,
    Machine.unwrapOpt_checkedSubU, Machine.unwrapOpt_checkedAddU, Machine.okOr_checkedSubU,
    Machine.okOr_checkedAddU, Machine.isSome_checkedSubU, Machine.isSome_checkedAddU,
    Machine.addU, Machine.subU, Machine.mulU,
    Res.tag_bind, Res.val_bind errCode, Res.tag_ite, Res.val_ite, Machine.tag_chk, Machine.val_chk,
    Res.tag_ok, Res.val_ok, Res.tag_panic, Res.val_panic, Res.tag_err, Res.val_err, Res.pure_eq,
    fst_ite, snd_ite, isSome_ite, getD_ite, rm_address_ite, rm_read_length_ite, ch_address_ite,
    ch_read_length_ite, ch_maximum_read_length_ite, Option.isSome_some, Option.isSome_none,
    Option.getD_some, Option.getD_none, dRM, dCh, dStep,
    ec_invalidPacket, errs, Prod.mk.injEq])

/-! ## step 1: closed bit-vector forms of the generated functions (`bv_decide`) -/

/-- `ReadMem::chunks` on machine words: the budget must exceed the 12-byte acknowledge header -/
def chunksBV (r : GReadMem) (a : BitVec 64) : Res Err GChunks :=
  if a.ule 12#64 then .err .invalidPacket else .ok ⟨r.address, r.read_length, a - 12#64⟩

/-- `ReadMemChunks::next` on machine words.  In the "more than one chunk left" branch
`maximum_read_length < read_length ≤ u16::MAX`, so the `as u16` cast and the subtraction are exact;
only the address addition can overflow (panic with overflow checks, wrap without). -/
def nextBV (p : Profile) (s : GChunks) : Res Err (Option GReadMem × GChunks) :=
  if s.read_length = 0#16 then .ok (none, s)
  else if s.maximum_read_length.ult (s.read_length.setWidth 64) then
    if (p.overflowChecks && BitVec.uaddOverflow s.address s.maximum_read_length) = true then .panic
    else .ok (some ⟨s.address, s.maximum_read_length.setWidth 16⟩,
      ⟨s.address + s.maximum_read_length, s.read_length - s.maximum_read_length.setWidth 16,
        s.maximum_read_length⟩)
  else .ok (some ⟨s.address, s.read_length⟩, ⟨s.address, 0#16, s.maximum_read_length⟩)

theorem chunks_bv (p : Profile) (r : GReadMem) (a : BitVec 64) :
    CamVerif.Gen.FnCmd.ReadMem.chunks errs p r a = chunksBV r a := by
  apply obsCh_inj
  obtain ⟨ra, rl⟩ := r
  obs [CamVerif.Gen.FnCmd.ReadMem.chunks, chunksBV, obsCh]
  bv_decide

theorem next_bv (p : Profile) (s : GChunks) :
    CamVerif.Gen.FnCmd.ReadMemChunks.next (ε := Err) p s = nextBV p s := by
  apply obsStep_inj
  obtain ⟨sa, sl, sm⟩ := s
  obs [CamVerif.Gen.FnCmd.ReadMemChunks.next, nextBV, obsStep]
  bv_decide

/-! ## step 2: the closed forms read through `toNat` are the model (never sees generated code) -/

theorem chunksBV_abs (r : GReadMem) (a : BitVec 64) :
    (chunksBV r a).map absCh = Cmd.ReadMem.chunks (absRM r) a.toNat := by
  have ha := a.isLt
  unfold chunksBV Cmd.ReadMem.chunks
  simp only [BitVec.ule, BitVec.toNat_ofNat, decide_eq_true_eq, ACK_HEADER_LENGTH]
  by_cases h : a.toNat ≤ 12
  · have h' : a.toNat ≤ 12 % 2 ^ 64 := by omega
    have h2 : a.toNat ≤ 4 + 8 := by omega
    simp only [h', h2, if_true, Res.map_err]
  · have h' : ¬ a.toNat ≤ 12 % 2 ^ 64 := by omega
    have h2 : ¬ a.toNat ≤ 4 + 8 := by omega
    have hsub : (a - 12#64).toNat = a.toNat - (4 + 8) := by
      rw [BitVec.toNat_sub_of_le (by rw [BitVec.le_def]; simp only [BitVec.toNat_ofNat]; omega)]
      simp
    simp only [h', h2, if_false, Res.map_ok, absCh, absRM, hsub]

theorem nextBV_abs (p : Profile) (s : GChunks) :
    (nextBV p s).map absStep = Cmd.ReadMemChunks.next p (absCh s) := by
  obtain ⟨a, l, m⟩ := s
  have ha := a.isLt
  have hl := l.isLt
  have hm := m.isLt
  unfold nextBV Cmd.ReadMemChunks.next
  simp only [absCh]
  by_cases h0 : l = 0#16
  · have h0' : l.toNat = 0 := by rw [h0]; rfl
    simp only [h0, h0', if_true, Res.map_ok, absStep, absCh, Option.map_none]
    rfl
  · have h0' : ¬ l.toNat = 0 := by
      intro h; apply h0; apply BitVec.eq_of_toNat_eq; rw [h]; rfl
    simp only [h0, h0', if_false]
    by_cases h1 : m.toNat < l.toNat
    · have hult : m.ult (l.setWidth 64) = true := by
        simp only [BitVec.ult, BitVec.toNat_setWidth, decide_eq_true_eq]
        rw [Nat.mod_eq_of_lt (by omega)]; exact h1
      have hgt : l.toNat > m.toNat := h1
      have hm16 : m.toNat % 2 ^ 16 = m.toNat := Nat.mod_eq_of_lt (by omega)
      have hm64 : m.toNat % 2 ^ 64 = m.toNat := Nat.mod_eq_of_lt hm
      have hsub : subW (ε := Err) p 16 l.toNat m.toNat = .ok (l.toNat - m.toNat) := by
        unfold subW; rw [if_pos (by omega)]
      have hsubbv : (l - m.setWidth 16).toNat = l.toNat - m.toNat := by
        rw [BitVec.toNat_sub_of_le (by
          rw [BitVec.le_def]; simp only [BitVec.toNat_setWidth]; omega)]
        simp only [BitVec.toNat_setWidth, hm16]
      simp only [hult, hgt, if_true, hm16, hm64, hsub, Res.bind_ok]
      unfold addW
      by_cases hov : a.toNat + m.toNat < 2 ^ 64
      · have hno : BitVec.uaddOverflow a m = false := by
          simp only [BitVec.uaddOverflow, decide_eq_false_iff_not]; omega
        simp only [hno, Bool.and_false, Bool.false_eq_true, if_false, hov, if_true, Res.map_ok,
          Res.bind_ok, Res.pure_eq, absStep, absCh, absRM, Option.map_some, hsubbv,
          BitVec.toNat_setWidth, hm16, BitVec.toNat_add, Nat.mod_eq_of_lt hov]
      · have hyes : BitVec.uaddOverflow a m = true := by
          simp only [BitVec.uaddOverflow, decide_eq_true_eq]; omega
        simp only [hyes, Bool.and_true, hov, if_false]
        cases hp : p.overflowChecks
        · simp only [Bool.false_eq_true, if_false, Res.map_ok, Res.bind_ok, Res.pure_eq, absStep,
            absCh, absRM, Option.map_some, hsubbv, BitVec.toNat_setWidth, hm16, BitVec.toNat_add]
        · simp only [if_true, Res.map_panic, Res.bind_panic]
    · have hult : m.ult (l.setWidth 64) = false := by
        simp only [BitVec.ult, BitVec.toNat_setWidth, decide_eq_false_iff_not]
        rw [Nat.mod_eq_of_lt (by omega)]; exact h1
      have hgt : ¬ l.toNat > m.toNat := h1
      simp only [hult, hgt, Bool.false_eq_true, if_false, Res.map_ok, absStep, absCh, absRM,
        Option.map_some]
      rfl

/-! ## the ties -/

/-- `ReadMem::chunks` as written in cmd.rs now, for every command and budget, in any profile, is
the model's `ReadMem.chunks` (through the field-wise `toNat` reading of the structs). -/
theorem gen_chunks_agrees (p : Profile) (r : GReadMem) (a : BitVec 64) :
    (CamVerif.Gen.FnCmd.ReadMem.chunks errs p r a).map absCh
      = Cmd.ReadMem.chunks (absRM r) a.toNat := by
  rw [chunks_bv, chunksBV_abs]

/-- `<ReadMemChunks as Iterator>::next` as written in cmd.rs now, as a step function
`state ↦ (item, state')`, for every state and both profiles, is the model's `ReadMemChunks.next`. -/
theorem gen_next_agrees (p : Profile) (s : GChunks) :
    (CamVerif.Gen.FnCmd.ReadMemChunks.next (ε := Err) p s).map absStep
      = Cmd.ReadMemChunks.next p (absCh s) := by
  rw [next_bv, nextBV_abs]

/-- the same from the model's side: every model command / budget made of machine integers -/
theorem gen_chunks_agrees_nat (p : Profile) (r : Cmd.ReadMem) (n : Nat) (hr : RMInRange r)
    (hn : n < 2 ^ 64) :
    Cmd.ReadMem.chunks r n
      = (CamVerif.Gen.FnCmd.ReadMem.chunks errs p (repRM r) (BitVec.ofNat 64 n)).map absCh := by
  rw [gen_chunks_agrees, abs_repRM r hr, BitVec.toNat_ofNat, Nat.mod_eq_of_lt hn]

theorem gen_next_agrees_nat (p : Profile) (s : Cmd.ReadMemChunks) (hs : ChInRange s) :
    Cmd.ReadMemChunks.next p s
      = (CamVerif.Gen.FnCmd.ReadMemChunks.next (ε := Err) p (repCh s)).map absStep := by
  rw [gen_next_agrees, abs_repCh s hs]

/-- the whole tie of this file as one statement (re-exported by `Props/C10.lean`) -/
def GenTieChunks : Prop :=
  (∀ p (r : GReadMem) (a : BitVec 64),
    (CamVerif.Gen.FnCmd.ReadMem.chunks errs p r a).map absCh = Cmd.ReadMem.chunks (absRM r) a.toNat) ∧
  (∀ p (r : Cmd.ReadMem) n, RMInRange r → n < 2 ^ 64 → Cmd.ReadMem.chunks r n
    = (CamVerif.Gen.FnCmd.ReadMem.chunks errs p (repRM r) (BitVec.ofNat 64 n)).map absCh)

def GenTieNext : Prop :=
  (∀ p (s : GChunks), (CamVerif.Gen.FnCmd.ReadMemChunks.next (ε := Err) p s).map absStep
    = Cmd.ReadMemChunks.next p (absCh s)) ∧
  (∀ p (s : Cmd.ReadMemChunks), ChInRange s → Cmd.ReadMemChunks.next p s
    = (CamVerif.Gen.FnCmd.ReadMemChunks.next (ε := Err) p (repCh s)).map absStep)

theorem gen_tie_chunks : GenTieChunks := ⟨gen_chunks_agrees, gen_chunks_agrees_nat⟩
theorem gen_tie_next : GenTieNext := ⟨gen_next_agrees, gen_next_agrees_nat⟩

/-! ## Non-vacuity: the translated code computes, on concrete values, what the Rust code does -/

example : CamVerif.Gen.FnCmd.ReadMem.chunks errs Profile.dev ⟨0x1000#64, 128#16⟩ 24#64
    = .ok ⟨0x1000#64, 128#16, 12#64⟩ := by decide
example : CamVerif.Gen.FnCmd.ReadMem.chunks errs Profile.dev ⟨0x1000#64, 128#16⟩ 12#64
    = .err .invalidPacket := by decide
example : CamVerif.Gen.FnCmd.ReadMemChunks.next (ε := Err) Profile.dev ⟨0x1000#64, 128#16, 12#64⟩
    = .ok (some ⟨0x1000#64, 12#16⟩, ⟨0x100c#64, 116#16, 12#64⟩) := by decide
example : CamVerif.Gen.FnCmd.ReadMemChunks.next (ε := Err) Profile.dev ⟨0x1000#64, 8#16, 12#64⟩
    = .ok (some ⟨0x1000#64, 8#16⟩, ⟨0x1000#64, 0#16, 12#64⟩) := by decide
example : CamVerif.Gen.FnCmd.ReadMemChunks.next (ε := Err) Profile.dev ⟨0x1000#64, 0#16, 12#64⟩
    = .ok (none, ⟨0x1000#64, 0#16, 12#64⟩) := by decide
/-- address overflow in the advancing branch: panic with overflow checks, wrap without -/
example : CamVerif.Gen.FnCmd.ReadMemChunks.next (ε := Err) Profile.dev ⟨0xFFFFFFFFFFFFFFFF#64, 128#16, 12#64⟩
    = .panic := by decide
example : CamVerif.Gen.FnCmd.ReadMemChunks.next (ε := Err) Profile.release ⟨0xFFFFFFFFFFFFFFFF#64, 128#16, 12#64⟩
    = .ok (some ⟨0xFFFFFFFFFFFFFFFF#64, 12#16⟩, ⟨11#64, 116#16, 12#64⟩) := by decide

end CamVerif.Proofs.C10GenTie2
